import FalconModel.UriStr
import FalconModel.RespHeaders
/-! C15, last clause: the typed header properties of `falcon.Response` (`falcon/response.py`, `falcon/response_helpers.py`).

    `_header_property(name, doc, transform)` makes a descriptor that stores `transform(value)` under the lower-cased name in
    the `_headers` dict of the header-store model `Hd` (assigning `None` deletes, `del` raises KeyError when absent).  The
    transforms are transcribed on `str` = `Us.Str` (code points): `_format_range`, `_format_content_disposition`
    (+ `falcon.util.misc.secure_filename`), `_format_etag_header`, `_format_header_value_list`, `_is_ascii_encodable`,
    `uri.encode_check_escaped` (Location / Content-Location; the proved `Us.encodeCheckEscaped`), and the value built by
    `Response.append_link`.

    NOT native here: `unicodedata.normalize('NFKD', ·)` inside `secure_filename` is a parameter `nfkd : Str → Str` of the
    model (the driver is handed the normalised form computed by CPython); every theorem holds for ANY such function.
    `str.lower()` in the crossorigin check is ASCII lower-casing (no non-ASCII character lower-cases to a letter of
    'anonymous' / 'use-credentials'; the harness checks this over all code points). `str.split()` uses the CPython
    whitespace table (`isSpace`; compared with `str.isspace` over all code points by the harness). -/
namespace Rp
open Us (Str)

/-! ### `str` helpers -/

/-- `needle in s` for the two-character needle `a b` -/
def contains2 (a b : Nat) : Str → Bool
  | x :: y :: r => (x == a && y == b) || contains2 a b (y :: r)
  | _ => false

/-- `s.replace(old, new)` for a one-character `old` -/
def replace1 (old : Nat) (new : Str) (s : Str) : Str := s.flatMap (fun c => if c == old then new else [c])

/-- `sep.join(items)` -/
def join (sep : Str) : List Str → Str
  | [] => []
  | [p] => p
  | p :: q :: r => p ++ sep ++ join sep (q :: r)

/-- `ch.isspace()` as used by `str.split()` (CPython `_Py_ascii_whitespace` / `_PyUnicode_IsWhitespace`) -/
def isSpace (c : Nat) : Bool :=
  (9 ≤ c && c ≤ 13) || (28 ≤ c && c ≤ 32) || c == 0x85 || c == 0xA0 || c == 0x1680 || (0x2000 ≤ c && c ≤ 0x200A) ||
  c == 0x2028 || c == 0x2029 || c == 0x202F || c == 0x205F || c == 0x3000

/-- `s.split()`: maximal runs of non-whitespace; `cur` is the run being collected -/
def splitWsAux : Str → Str → List Str
  | [], cur => if cur.isEmpty then [] else [cur]
  | c :: r, cur =>
    if isSpace c then (if cur.isEmpty then splitWsAux r [] else cur :: splitWsAux r [])
    else splitWsAux r (cur ++ [c])
def splitWs (s : Str) : List Str := splitWsAux s []

/-- `s.lower()` on ASCII -/
def asciiLower (s : Str) : Str := s.map (fun c => if 65 ≤ c && c ≤ 90 then c + 32 else c)

/-- `str(n)` for a natural number -/
def natDec (n : Nat) : Str := (Nat.toDigits 10 n).map Char.toNat

/-- Python `str` → the `String` the header store `Hd` keeps -/
def toS (s : Str) : String := String.ofList (s.map Char.ofNat)

/-! ### the transforms of `response_helpers.py` -/

/-- an element of the tuple handed to `content_range` (and the value of the `str(value)` properties): an int or a str;
    `render` is what an f-string `{x}` / `str(x)` produces -/
inductive Item where
  | int (i : Int)
  | str (s : Str)
deriving Repr

def Item.render : Item → Str
  | .int i => if i < 0 then 45 :: natDec i.natAbs else natDec i.toNat
  | .str s => s

def sBytes : Str := [98, 121, 116, 101, 115]           -- 'bytes'

/-- `_format_range(value)`: `len(value) == 4` → `'{3} {0}-{1}/{2}'`, else `'bytes {0}-{1}/{2}'`;
    `none` = IndexError (fewer than three members) -/
def formatRange : List Item → Option Str
  | [a, b, c, u] => some (u.render ++ [32] ++ a.render ++ [45] ++ b.render ++ [47] ++ c.render)
  | a :: b :: c :: _ => some (sBytes ++ [32] ++ a.render ++ [45] ++ b.render ++ [47] ++ c.render)
  | _ => none

/-- `_is_ascii_encodable(s)` / `str.isascii()` -/
def isAscii (s : Str) : Bool := s.all (fun c => decide (c < 128))
def isAsciiEncodable (s : Str) : Bool := isAscii s

/-- `_UNSAFE_CHARS = re.compile(r'[^a-zA-Z0-9.-]')`: the characters that are KEPT -/
def safeChar (c : Nat) : Bool := (97 ≤ c && c ≤ 122) || (65 ≤ c && c ≤ 90) || (48 ≤ c && c ≤ 57) || c == 46 || c == 45

/-- `if filename.startswith('.'): filename = filename.replace('.', '_', 1)` -/
def dotFix : Str → Str
  | [] => []
  | c :: r => if c == 46 then 95 :: r else c :: r

/-- `secure_filename` after the emptiness check, on the normalised text: the leading-dot rule, then
    `_UNSAFE_CHARS.sub('_', filename)` -/
def secureCore (n : Str) : Str := (dotFix n).map (fun c => if safeChar c then c else 95)

/-- `falcon.util.misc.secure_filename(filename)`; `none` = ValueError('filename may not be an empty string');
    `nfkd` stands for `unicodedata.normalize('NFKD', ·)` -/
def secureFilename (nfkd : Str → Str) (fn : Str) : Option Str :=
  if fn.isEmpty then none else some (secureCore (nfkd fn))

/-- the quoted-string escaping of fix 38a4696: `value.replace('\\', '\\\\').replace('"', '\\"')` -/
def escapeQS (v : Str) : Str := replace1 34 [92, 34] (replace1 92 [92, 92] v)

def sFilenameQ : Str := [59, 32, 102, 105, 108, 101, 110, 97, 109, 101, 61, 34]                                -- '; filename="'
def sFilename : Str := [59, 32, 102, 105, 108, 101, 110, 97, 109, 101, 61]                                     -- '; filename='
def sFilenameStar : Str := [59, 32, 102, 105, 108, 101, 110, 97, 109, 101, 42, 61, 85, 84, 70, 45, 56, 39, 39] -- "; filename*=UTF-8''"
def sAttachment : Str := [97, 116, 116, 97, 99, 104, 109, 101, 110, 116]
def sInline : Str := [105, 110, 108, 105, 110, 101]

/-- `_format_content_disposition(value, disposition_type)`; `none` = the ValueError of `secure_filename`
    (unreachable: the empty string is ASCII - `formatContentDisposition_isSome`) -/
def formatContentDisposition (nfkd : Str → Str) (dtype value : Str) : Option Str :=
  if isAscii value then
    some (dtype ++ sFilenameQ ++ escapeQS value ++ [34])
  else
    match secureFilename nfkd value with
    | none => none
    | some sec => some (dtype ++ sFilename ++ sec ++ sFilenameStar ++ Us.encodeValue value)

/-- `_format_etag_header(value)`: `value[-1] != '"'` → wrap; `none` = IndexError on the empty string -/
def formatEtag (v : Str) : Option Str :=
  match v.getLast? with
  | none => none
  | some c => if c != 34 then some ([34] ++ v ++ [34]) else some v

def sCommaSp : Str := [44, 32]
/-- `_format_header_value_list(iterable)` = `', '.join(iterable)` -/
def formatList (items : List Str) : Str := join sCommaSp items

/-- the members of an iterable whose items need not be str: `', '.join(...)` raises TypeError ("sequence item i: expected str
    instance, int found") as soon as one member is not a str - `none`; otherwise the str members.  (The KIND of iterable - list,
    tuple, set, dict view, generator, map / filter / reversed / iter object - does not appear in the model: `str.join` walks its
    argument exactly once, so a one-shot iterable is the list of the items it yields.) -/
def strMembers : List Item → Option (List Str)
  | [] => some []
  | .str s :: rest => (strMembers rest).map (s :: ·)
  | .int _ :: _ => none

/-- `_format_header_value_list` on an iterable of arbitrary items -/
def formatItems (items : List Item) : Option Str := (strMembers items).map formatList

/-- `location` / `content_location`: `uri.encode_check_escaped` -/
def location (s : Str) : Str := Us.encodeCheckEscaped s

/-! ### `Response.append_link` -/

inductive Hreflang where
  | one (lang : Str)              -- `isinstance(hreflang, str)`
  | many (langs : List Str)
deriving Repr

structure LinkArgs where
  target : Str
  rel : Str
  title : Option Str := none
  titleStar : Option (Str × Str) := none      -- (language-tag, text)
  anchor : Option Str := none
  hreflang : Option Hreflang := none
  typeHint : Option Str := none
  crossorigin : Option Str := none
  linkExtension : Option (List (Str × Str)) := none
deriving Repr

def sSep : Str := [59, 32]                                                       -- '; '
def sRel : Str := [62, 59, 32, 114, 101, 108, 61]                                -- '>; rel='
def pTitle : Str := [116, 105, 116, 108, 101, 61, 34]                            -- 'title="'
def pTitleStar : Str := [116, 105, 116, 108, 101, 42, 61, 85, 84, 70, 45, 56, 39] -- "title*=UTF-8'"
def pType : Str := [116, 121, 112, 101, 61, 34]                                  -- 'type="'
def pHreflang : Str := [104, 114, 101, 102, 108, 97, 110, 103, 61]               -- 'hreflang='
def pAnchor : Str := [97, 110, 99, 104, 111, 114, 61, 34]                        -- 'anchor="'
def pCross : Str := [99, 114, 111, 115, 115, 111, 114, 105, 103, 105, 110]       -- 'crossorigin'
def pCrossUC : Str := [99, 114, 111, 115, 115, 111, 114, 105, 103, 105, 110, 61, 34, 117, 115, 101, 45, 99, 114, 101, 100, 101, 110, 116, 105, 97, 108, 115, 34]
                                                                                 -- 'crossorigin="use-credentials"'
def sAnonymous : Str := [97, 110, 111, 110, 121, 109, 111, 117, 115]
def sUseCred : Str := [117, 115, 101, 45, 99, 114, 101, 100, 101, 110, 116, 105, 97, 108, 115]

/-- the `rel` text: `if '//' in rel:` quote it, URI-encoding the whitespace-separated members when it contains a ' ' -/
def relText (rel : Str) : Str :=
  if contains2 47 47 rel then
    if rel.contains 32 then [34] ++ join [32] ((splitWs rel).map Us.encodeCheckEscaped) ++ [34]
    else [34] ++ Us.encodeCheckEscaped rel ++ [34]
  else rel

def addTitle (v : Str) : Option Str → Str
  | none => v
  | some t => v ++ sSep ++ pTitle ++ t ++ [34]
def addTitleStar (v : Str) : Option (Str × Str) → Str
  | none => v
  | some (lang, text) => v ++ sSep ++ pTitleStar ++ lang ++ [39] ++ Us.encodeValueCheckEscaped text
def addType (v : Str) : Option Str → Str
  | none => v
  | some t => v ++ sSep ++ pType ++ t ++ [34]
def addHreflang (v : Str) : Option Hreflang → Str
  | none => v
  | some (.one l) => v ++ sSep ++ pHreflang ++ l
  | some (.many ls) => v ++ sSep ++ join sSep (ls.map (pHreflang ++ ·))
def addAnchor (v : Str) : Option Str → Str
  | none => v
  | some a => v ++ sSep ++ pAnchor ++ Us.encodeCheckEscaped a ++ [34]
/-- `none` = ValueError("crossorigin must be set to either 'anonymous' or 'use-credentials'") -/
def addCross (v : Str) : Option Str → Option Str
  | none => some v
  | some c =>
    let l := asciiLower c
    if l == sAnonymous then some (v ++ sSep ++ pCross)
    else if l == sUseCred then some (v ++ sSep ++ pCrossUC)
    else none
def addExt (v : Str) : Option (List (Str × Str)) → Str
  | none => v
  | some ext => v ++ sSep ++ join sSep (ext.map (fun pv => pv.1 ++ [61] ++ pv.2))

/-- the text `append_link` builds in `value`, statement by statement; `none` = ValueError (crossorigin) -/
def linkValue (a : LinkArgs) : Option Str :=
  let v0 := [60] ++ Us.encodeCheckEscaped a.target ++ sRel ++ relText a.rel
  let v1 := addTitle v0 a.title
  let v2 := addTitleStar v1 a.titleStar
  let v3 := addType v2 a.typeHint
  let v4 := addHreflang v3 a.hreflang
  let v5 := addAnchor v4 a.anchor
  match addCross v5 a.crossorigin with
  | none => none
  | some v6 => some (addExt v6 a.linkExtension)

/-! ### the descriptors on the header store -/
section store
variable {κ : Type} [DecidableEq κ]

/-- `fset` of `_header_property(name, doc, transform)`: `None` deletes (no error when absent), otherwise
    `self._headers[name.lower()] = transform(value)`; an exception of the transform (`none`) leaves the store alone -/
def propAssign {α : Type} (k : κ) (transform : α → Option Str) (r : Hd.Resp κ) : Option α → Option (Hd.Resp κ)
  | none => some (Hd.propDel r k)
  | some v => (transform v).map (fun s => Hd.propSet r k (toS s))

/-- `fget`: the stored text or None -/
def propGet (k : κ) (r : Hd.Resp κ) : Option String := Hd.lookup r.headers k

/-- `fdel`: `del self._headers[name]`; `none` = KeyError -/
def propDelete (k : κ) (r : Hd.Resp κ) : Option (Hd.Resp κ) :=
  if (Hd.lookup r.headers k).isSome then some (Hd.propDel r k) else none

/-- the end of `append_link`: `if 'link' in _headers: _headers['link'] += f', {value}' else: _headers['link'] = value` -/
def appendLink (klink : κ) (r : Hd.Resp κ) (a : LinkArgs) : Option (Hd.Resp κ) :=
  (linkValue a).map fun v =>
    match Hd.lookup r.headers klink with
    | some old => { r with headers := Hd.setKey r.headers klink (old ++ ", " ++ toS v) }
    | none => { r with headers := Hd.setKey r.headers klink (toS v) }
end store

/-- the typed properties of `falcon.Response` that go through `_header_property` (name → transform) -/
inductive HProp where
  | cacheControl | contentLocation | contentLength | contentRange | contentType | downloadableAs | viewableAs
  | etag | location | retryAfter | vary | acceptRanges
deriving Repr, DecidableEq

/-- a value assigned to a property -/
inductive Val where
  | text (s : Str)
  | item (i : Item)
  | list (l : List Str)
  | tuple (l : List Item)
deriving Repr

/-- `name.lower()` of each property -/
def HProp.key : HProp → String
  | .cacheControl => "cache-control" | .contentLocation => "content-location" | .contentLength => "content-length"
  | .contentRange => "content-range" | .contentType => "content-type" | .downloadableAs => "content-disposition"
  | .viewableAs => "content-disposition" | .etag => "etag" | .location => "location" | .retryAfter => "retry-after"
  | .vary => "vary" | .acceptRanges => "accept-ranges"

/-- the transform of each property applied to a value of the documented type (`none` = it raises; a value of another
    type is outside the model and also `none`) -/
def HProp.transform (nfkd : Str → Str) : HProp → Val → Option Str
  | .cacheControl, .list l => some (formatList l)
  | .vary, .list l => some (formatList l)
  | .cacheControl, .tuple t => formatItems t          -- an iterable with members that need not be str (TypeError = `none`)
  | .vary, .tuple t => formatItems t
  | .contentLocation, .text s => some (Rp.location s)
  | .location, .text s => some (Rp.location s)
  | .contentRange, .tuple t => formatRange t
  | .downloadableAs, .text s => formatContentDisposition nfkd sAttachment s
  | .viewableAs, .text s => formatContentDisposition nfkd sInline s
  | .etag, .text s => formatEtag s
  | .contentLength, .item i => some i.render            -- transform is None: `str(value)`
  | .contentType, .item i => some i.render
  | .retryAfter, .item i => some i.render
  | .acceptRanges, .item i => some i.render
  | _, _ => none

def assign (nfkd : Str → Str) (p : HProp) (r : Hd.Resp String) (v : Option Val) : Option (Hd.Resp String) :=
  propAssign p.key (p.transform nfkd) r v

/-! ### readers used by the theorems (written from the RFCs, not part of falcon) -/

/-- RFC 9110 §5.6.4 quoted-string → its text: DQUOTE *( qdtext / "\" CHAR ) DQUOTE, nothing after the closing quote -/
def unquoteBody : Str → Option Str
  | [] => none                                                      -- no closing quote
  | c :: r =>
    if c == 34 then (if r.isEmpty then some [] else none)           -- the closing quote must end the text
    else if c == 92 then
      match r with
      | [] => none
      | d :: r' => (unquoteBody r').map (d :: ·)                    -- quoted-pair
    else (unquoteBody r).map (c :: ·)
def unquoteQS : Str → Option Str
  | 34 :: r => unquoteBody r
  | _ => none

/-- the URI-Reference of a link-value (RFC 8288): the text between the leading '<' and the first '>' -/
def takeUntil (d : Nat) : Str → Option (Str × Str)
  | [] => none
  | c :: r => if c == d then some ([], r) else (takeUntil d r).map (fun p => (c :: p.1, p.2))
def angleTarget : Str → Option (Str × Str)
  | 60 :: r => takeUntil 62 r
  | _ => none

/-- split at every occurrence of the two characters `a b` (left to right, like `str.split('; ')`) -/
def split2 (a b : Nat) : Str → List Str
  | [] => [[]]
  | [x] => [[x]]
  | x :: y :: r =>
    if x == a && y == b then [] :: split2 a b r
    else match split2 a b (y :: r) with
      | t :: ts => (x :: t) :: ts
      | [] => [[x]]

/-- split at every occurrence of the character `d` (like `str.split(' ')`) -/
def split1 (d : Nat) : Str → List Str
  | [] => [[]]
  | c :: r =>
    if c == d then [] :: split1 d r
    else match split1 d r with
      | t :: ts => (c :: t) :: ts
      | [] => [[c]]

/-- `int(text)` on decimal digits -/
def digitsVal (s : Str) : Nat := s.foldl (fun acc c => 10 * acc + (c - 48)) 0

/-- a Content-Range reader (RFC 9110 §14.4 `unit SP first "-" last "/" complete-length`): (unit, first, last, length text) -/
def parseRange (v : Str) : Option (Str × Nat × Nat × Str) :=
  match takeUntil 32 v with
  | none => none
  | some (u, r) => match takeUntil 45 r with
    | none => none
    | some (a, r2) => match takeUntil 47 r2 with
      | none => none
      | some (b, c) => some (u, digitsVal a, digitsVal b, c)

/-- RFC 8187 ext-value `charset'language'value-chars` → (charset, language, value-chars) -/
def parseExt (s : Str) : Option (Str × Str × Str) :=
  match takeUntil 39 s with
  | none => none
  | some (cs, r) => match takeUntil 39 r with
    | none => none
    | some (lang, v) => some (cs, lang, v)
end Rp

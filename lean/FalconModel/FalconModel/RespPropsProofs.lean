import FalconModel.RespProps
import FalconModel.UriStrProofs
import FalconModel.RespHeadersProofs
/-! C15, last clause - proofs about the typed header properties and `append_link` (`Rp`, RespProps.lean).

    The URI-bearing helpers (Location, Content-Location, the Link target / anchor / extension relation types / title*, the
    `filename*` of downloadable_as / viewable_as) emit visible ASCII that percent-decodes to the original, by composing the
    proved str-level encoder theorems of C10 (`Us.decode_encodeStr`, `Us.encodeStr_charset`, `Us.ascii_of_looksEscapedS`, …):
    `location_ascii_and_decodes_back`, `link_target_reads_back`, `link_anchor_reads_back`, `rel_ext_single`, `rel_ext_members`,
    `title_star_decodes_back`, `filename_star_decodes_back`, `link_value_ascii`.  The quoted-string escaping of an ASCII
    filename (fix 38a4696) is inverted by an RFC 9110 quoted-string reader for EVERY str (`unquoteQS_escapeQS`,
    `ascii_filename_quoted_string_reads_back`).  The remaining transforms: `etag_quoting_idempotent`, `header_value_list_join`,
    `content_range_format_exact`, `content_range_reads_back`; the descriptors on the `Hd` store:
    `property_set_get_roundtrip`, `property_none_deletes`, `property_del`, `propAssign_eq_applyOp`, `appendLink_eq_appendHeader`. -/
namespace Rp
open Us

/-- visible ASCII: neither a control character nor a space nor DEL nor beyond -/
def Visible (c : Nat) : Prop := 0x21 ≤ c ∧ c ≤ 0x7E
instance (c : Nat) : Decidable (Visible c) := by unfold Visible; exact inferInstance

theorem allowedUri_visible (b : UInt8) (hb : Uri.allowedUri b = true) : Visible b.toNat := by
  unfold Uri.allowedUri at hb
  simp only [List.contains_eq_mem, decide_eq_true_eq] at hb
  have : ∀ x ∈ Uri.unreservedTab ++ Uri.delimTab, Visible x.toNat := by decide
  exact this b hb

theorem allowedValue_visible (b : UInt8) (hb : Uri.allowedValue b = true) : Visible b.toNat :=
  allowedUri_visible b (Uri.allowedValue_sub_uri b hb)

theorem toNat_toUInt8_lt (c : Nat) (h : c < 256) : c.toUInt8.toNat = c := U8.toNat_toUInt8 c h

/-- no string of allowed characters contains '%' when the table excludes it: the split has one token -/
theorem splitPctS_no37 (s : Str) (h : ∀ c ∈ s, c ≠ 37) : splitPctS s = [s] := by
  induction s with
  | nil => rfl
  | cons c cs ih =>
    have hc : (c == 37) = false := by simpa using h c (by simp)
    rw [splitPctS, hc, ih (fun x hx => h x (by simp [hx]))]
    simp

theorem not37_of_allowedCp (allowed : UInt8 → Bool) (h37 : allowed 37 = false) (c : Nat) (h : allowedCp allowed c = true) : c ≠ 37 := by
  intro e; subst e
  unfold allowedCp at h
  simp at h
  rw [h37] at h; cases h

/-- the fast path is a special case of "looks escaped" -/
theorem looksEscapedS_of_all (allowed : UInt8 → Bool) (h37 : allowed 37 = false) (s : Str) (h : s.all (allowedCp allowed) = true) :
    looksEscapedS allowed s = true := by
  unfold looksEscapedS
  have h1 : s.all (fun c => allowedCp allowed c || c == 37) = true := by
    rw [List.all_eq_true] at h ⊢
    intro c hc; rw [h c hc]; rfl
  have h2 : splitPctS s = [s] := splitPctS_no37 s (fun c hc => not37_of_allowedCp allowed h37 c (List.all_eq_true.mp h c hc))
  rw [h1, h2]; rfl

/-- **the two cases of a check-escaped encoder** -/
theorem encodeCheckStr_escaped (allowed : UInt8 → Bool) (s : Str) (h : looksEscapedS allowed s = true) : encodeCheckStr allowed s = s := by
  unfold encodeCheckStr
  rw [if_pos h]; split <;> rfl
theorem encodeCheckStr_not_escaped (allowed : UInt8 → Bool) (h37 : allowed 37 = false) (s : Str) (h : looksEscapedS allowed s = false) :
    encodeCheckStr allowed s = encodeStr allowed s := by
  have hall : ¬ s.all (allowedCp allowed) = true := fun ha => by
    rw [looksEscapedS_of_all allowed h37 s ha] at h; cases h
  unfold encodeCheckStr encodeStr
  rw [if_neg hall, if_neg (by simp [h]), if_neg hall]

theorem upperHex_visible (b : UInt8) (h : Uri.upperHex b = true) : Visible b.toNat := by
  unfold Uri.upperHex at h
  simp only [Bool.or_eq_true, Bool.and_eq_true, decide_eq_true_eq] at h
  unfold Visible; omega

/-- what a character of an encoder's output can be -/
def OutChar (allowed : UInt8 → Bool) (c : Nat) : Prop :=
  c < 0x80 ∧ (allowed c.toUInt8 = true ∨ c = 37 ∨ Uri.upperHex c.toUInt8 = true)

theorem OutChar.visible {allowed : UInt8 → Bool} (hvis : ∀ b, allowed b = true → Visible b.toNat) {c : Nat} (h : OutChar allowed c) :
    Visible c := by
  obtain ⟨hlt, h | h | h⟩ := h
  · have := hvis _ h; rwa [toNat_toUInt8_lt c (by omega)] at this
  · subst h; decide
  · have := upperHex_visible _ h; rwa [toNat_toUInt8_lt c (by omega)] at this

/-- every character a check-escaped encoder returns is an allowed character, '%' or an upper-case hex digit -/
theorem encodeCheckStr_charset (allowed : UInt8 → Bool) (h37 : allowed 37 = false) (hascii : ∀ b, allowed b = true → b.toNat < 0x80)
    (s : Str) (hv : ValidStr s) : ∀ c ∈ encodeCheckStr allowed s, OutChar allowed c := by
  intro c hc
  cases hl : looksEscapedS allowed s with
  | false =>
    rw [encodeCheckStr_not_escaped allowed h37 s hl] at hc
    exact encodeStr_charset allowed hascii s hv c hc
  | true =>
    rw [encodeCheckStr_escaped allowed s hl] at hc
    have hlt := ascii_of_looksEscapedS allowed hascii s hl c hc
    refine ⟨hlt, ?_⟩
    unfold looksEscapedS at hl
    rw [Bool.and_eq_true] at hl
    have := List.all_eq_true.mp hl.1 c hc
    rcases Bool.or_eq_true_iff.mp this with h | h
    · unfold allowedCp at h
      simp only [Bool.and_eq_true, decide_eq_true_eq] at h
      exact Or.inl h.2
    · exact Or.inr (Or.inl (by simpa using h))

theorem decode_no_pct (s : Str) (h : ∀ c ∈ s, c ≠ 37) : decode false s = s := by
  unfold decode
  have : s.contains 37 = false := by
    cases hc : s.contains 37 with
    | false => rfl
    | true => exact absurd rfl (h 37 (by simpa using hc))
  simp only [Bool.and_false, Bool.false_eq_true, if_false, this, Bool.not_false, if_true]

/-- **round trip of a check-escaped encoder** (`plus = false`, or a table without '+'):
    a string that does not look escaped decodes back; one that does is returned as it is -/
theorem decode_encodeCheckStr (allowed : UInt8 → Bool) (h37 : allowed 37 = false) (hascii : ∀ b, allowed b = true → b.toNat < 0x80)
    (plus : Bool) (hplus : plus = false ∨ allowed 43 = false) (s : Str) (hv : ValidStr s) (hl : looksEscapedS allowed s = false) :
    decode plus (encodeCheckStr allowed s) = s := by
  rw [encodeCheckStr_not_escaped allowed h37 s hl]
  rcases hplus with hp | h43
  · subst hp
    rw [decode_eq_bytes false _ (validStr_encodeStr allowed hascii s hv), encode_encodeStr allowed hascii s hv]
    unfold Uri.decodePlus
    simp only [Bool.false_eq_true, if_false]
    rw [Probe.decodeImpl_eq_ref, Uri.decode_encodeWith h37, U8.decodeReplace_encode s hv]
  · exact decode_encodeStr allowed h37 h43 hascii plus s hv

/-! ### quoted-string -/
def esc1 (c : Nat) : Str := if c == 92 then [92, 92] else if c == 34 then [92, 34] else [c]

theorem escapeQS_cons (c : Nat) (v : Str) : escapeQS (c :: v) = esc1 c ++ escapeQS v := by
  unfold escapeQS replace1 esc1
  simp only [List.flatMap_cons, List.flatMap_append]
  by_cases h92 : c = 92
  · subst h92; simp
  · by_cases h34 : c = 34
    · subst h34; simp
    · simp [h92, h34]

theorem escapeQS_eq_flatMap (v : Str) : escapeQS v = v.flatMap esc1 := by
  induction v with
  | nil => rfl
  | cons c v ih => rw [escapeQS_cons, ih]; rfl

theorem unquoteBody_esc1 (c : Nat) (rest : Str) : unquoteBody (esc1 c ++ rest) = (unquoteBody rest).map (c :: ·) := by
  unfold esc1
  by_cases h92 : c = 92
  · subst h92; simp [unquoteBody]
  · by_cases h34 : c = 34
    · subst h34; simp [unquoteBody]
    · simp only [h92, h34, if_false, List.singleton_append, beq_iff_eq]
      conv => lhs; unfold unquoteBody
      simp only [beq_iff_eq, h92, h34, if_false]

theorem unquoteBody_escapeQS (v : Str) : unquoteBody (escapeQS v ++ [34]) = some v := by
  induction v with
  | nil => simp [escapeQS, replace1, unquoteBody]
  | cons c v ih => rw [escapeQS_cons, List.append_assoc, unquoteBody_esc1, ih]; rfl

/-- **an RFC 9110 quoted-string reader returns the text that was escaped** - for every str -/
theorem unquoteQS_escapeQS (v : Str) : unquoteQS ([34] ++ escapeQS v ++ [34]) = some v := by
  simp only [List.cons_append, List.nil_append, unquoteQS]
  exact unquoteBody_escapeQS v

/-! ### takeUntil / split2 / contains2 -/
theorem takeUntil_append (d : Nat) (p r : Str) (h : d ∉ p) : takeUntil d (p ++ d :: r) = some (p, r) := by
  induction p with
  | nil => simp [takeUntil]
  | cons c p ih =>
    have hc : (c == d) = false := by
      have : c ≠ d := fun e => h (by simp [e])
      simpa using this
    simp only [List.cons_append, takeUntil, hc]
    rw [ih (fun hm => h (by simp [hm]))]; rfl

theorem contains2_of_not_mem_left (a b : Nat) (p : Str) (h : a ∉ p) : contains2 a b p = false := by
  induction p with
  | nil => rfl
  | cons x p ih =>
    cases p with
    | nil => rfl
    | cons y p =>
      have hx : (x == a) = false := by
        have : x ≠ a := fun e => h (by simp [e])
        simpa using this
      rw [contains2, hx, Bool.false_and, Bool.false_or]
      exact ih (fun hm => h (by simp [hm]))

theorem contains2_of_not_mem_right (a b : Nat) (p : Str) (h : b ∉ p) : contains2 a b p = false := by
  induction p with
  | nil => rfl
  | cons x p ih =>
    cases p with
    | nil => rfl
    | cons y p =>
      have hy : (y == b) = false := by
        have : y ≠ b := fun e => h (by simp [e])
        simpa using this
      rw [contains2, hy, Bool.and_false, Bool.false_or]
      exact ih (fun hm => h (by simp [hm]))

theorem split2_none (a b : Nat) (p : Str) (h : contains2 a b p = false) : split2 a b p = [p] := by
  induction p with
  | nil => rfl
  | cons x p ih =>
    cases p with
    | nil => rfl
    | cons y p =>
      rw [contains2, Bool.or_eq_false_iff] at h
      rw [split2, h.1, ih h.2]; rfl

theorem split2_append (a b : Nat) (hab : a ≠ b) (p rest : Str) (h : contains2 a b p = false) :
    split2 a b (p ++ a :: b :: rest) = p :: split2 a b rest := by
  induction p with
  | nil => simp [split2]
  | cons x p ih =>
    cases p with
    | nil =>
      have hc : (x == a && a == b) = false := by
        have : (a == b) = false := by simpa using hab
        rw [this, Bool.and_false]
      have h0 := ih rfl
      simp only [List.nil_append] at h0
      simp only [List.cons_append, List.nil_append]
      rw [split2, hc, h0]; rfl
    | cons y p =>
      rw [contains2, Bool.or_eq_false_iff] at h
      have h0 := ih h.2
      simp only [List.cons_append] at h0 ⊢
      rw [split2, h.1, h0]; rfl

theorem split2_join (a b : Nat) (hab : a ≠ b) : ∀ (ps : List Str), ps ≠ [] → (∀ p ∈ ps, contains2 a b p = false) →
    split2 a b (join [a, b] ps) = ps
  | [], h, _ => absurd rfl h
  | [p], _, hv => by simp [join, split2_none a b p (hv p (by simp))]
  | p :: q :: ps, _, hv => by
    simp only [join]
    have : p ++ [a, b] ++ join [a, b] (q :: ps) = p ++ a :: b :: join [a, b] (q :: ps) := by simp
    rw [this, split2_append a b hab p _ (hv p (by simp)), split2_join a b hab (q :: ps) (by simp) (fun x hx => hv x (by simp [hx]))]

/-! ### Location / Content-Location -/
/-- **`location_ascii_and_decodes_back`** -/
theorem location_ascii_and_decodes_back (s : Str) (hv : ValidStr s) :
    (∀ c ∈ location s, Visible c) ∧
    (looksEscapedS Uri.allowedUri s = false → decode false (location s) = s) ∧
    (looksEscapedS Uri.allowedUri s = true → location s = s) ∧
    ((∀ c ∈ s, c ≠ 37) → decode false (location s) = s) := by
  refine ⟨?_, ?_, ?_, ?_⟩
  · intro c hc
    exact (encodeCheckStr_charset _ Uri.allowedUri_pct allowedUri_ascii s hv c hc).visible allowedUri_visible
  · exact decode_encodeCheckStr _ Uri.allowedUri_pct allowedUri_ascii false (Or.inl rfl) s hv
  · exact encodeCheckStr_escaped _ s
  · intro hno
    cases hl : looksEscapedS Uri.allowedUri s with
    | false => exact decode_encodeCheckStr _ Uri.allowedUri_pct allowedUri_ascii false (Or.inl rfl) s hv hl
    | true =>
      have : location s = s := encodeCheckStr_escaped _ s hl
      rw [this]; exact decode_no_pct s hno

example : ValidStr [47, 233, 32, 37, 0x65E5, 0x1F600, 1] ∧ looksEscapedS Uri.allowedUri [47, 233, 32, 37, 0x65E5, 0x1F600, 1] = false := by decide
example : location [47, 233, 32, 37, 1] = [47, 37, 67, 51, 37, 65, 57, 37, 50, 48, 37, 50, 53, 37, 48, 49] := by decide
example : looksEscapedS Uri.allowedUri [47, 37, 52, 49] = true ∧ location [47, 37, 52, 49] = [47, 37, 52, 49] := by decide

/-! ### secure_filename -/
def TokenChar (c : Nat) : Prop := safeChar c = true ∨ c = 95

theorem TokenChar.facts {c : Nat} (h : TokenChar c) : Visible c ∧ c ≠ 59 ∧ c ≠ 34 ∧ c ≠ 92 ∧ c ≠ 39 := by
  unfold TokenChar safeChar at h
  simp only [Bool.or_eq_true, Bool.and_eq_true, decide_eq_true_eq, beq_iff_eq] at h
  unfold Visible; omega

theorem secureCore_chars (n : Str) : ∀ c ∈ secureCore n, TokenChar c := by
  intro c hc
  unfold secureCore at hc
  obtain ⟨x, _, rfl⟩ := List.mem_map.mp hc
  unfold TokenChar
  by_cases h : safeChar x = true
  · simp [h]
  · simp [h]

theorem dotFix_length (n : Str) : (dotFix n).length = n.length := by
  cases n with
  | nil => rfl
  | cons c r => simp only [dotFix]; split <;> rfl

theorem secureCore_length (n : Str) : (secureCore n).length = n.length := by
  unfold secureCore
  rw [List.length_map, dotFix_length]

theorem dotFix_head (n : Str) : (dotFix n).head? ≠ some 46 := by
  cases n with
  | nil => simp [dotFix]
  | cons c r =>
    unfold dotFix
    by_cases h : c = 46
    · subst h; simp
    · simp [h]

theorem secureCore_head (n : Str) : (secureCore n).head? ≠ some 46 := by
  unfold secureCore
  have := dotFix_head n
  cases hd : dotFix n with
  | nil => simp
  | cons x r =>
    rw [hd] at this
    simp only [List.head?_cons, ne_eq, Option.some.injEq] at this
    simp only [List.map_cons, List.head?_cons, ne_eq, Option.some.injEq]
    by_cases hs : safeChar x = true
    · simp [hs, this]
    · simp [hs]

/-- a name of letters, digits, '.', '-', '_' that does not start with a dot is kept -/
theorem secureCore_keeps (n : Str) (hs : ∀ c ∈ n, TokenChar c) (hd : n.head? ≠ some 46) : secureCore n = n := by
  unfold secureCore
  have : dotFix n = n := by
    cases n with
    | nil => rfl
    | cons c r =>
      unfold dotFix
      have : c ≠ 46 := by simpa using hd
      simp [this]
  rw [this]
  conv => rhs; rw [← List.map_id n]
  apply List.map_congr_left
  intro c hc
  rcases hs c hc with h | h
  · simp [h]
  · subst h; simp [safeChar]

/-- sanitising twice changes nothing (on the already normalised text) -/
theorem secureCore_idem (n : Str) : secureCore (secureCore n) = secureCore n := by
  exact secureCore_keeps _ (secureCore_chars n) (secureCore_head n)

theorem secureFilename_spec (nfkd : Str → Str) (fn : Str) :
    (fn = [] → secureFilename nfkd fn = none) ∧
    (fn ≠ [] → ∃ t, secureFilename nfkd fn = some t ∧ (∀ c ∈ t, TokenChar c) ∧ t.head? ≠ some 46 ∧ t.length = (nfkd fn).length) := by
  unfold secureFilename
  constructor
  · intro h; subst h; rfl
  · intro h
    have : fn.isEmpty = false := by cases fn with | nil => exact absurd rfl h | cons _ _ => rfl
    rw [this]
    exact ⟨_, rfl, secureCore_chars _, secureCore_head _, secureCore_length _⟩

/-! ### Content-Disposition -/
def pFilename : Str := [102, 105, 108, 101, 110, 97, 109, 101, 61]                    -- 'filename='
def pFilenameStar : Str := [102, 105, 108, 101, 110, 97, 109, 101, 42, 61]            -- 'filename*='
def sUtf8 : Str := [85, 84, 70, 45, 56]                                               -- 'UTF-8'
theorem sFilenameQ_eq : sFilenameQ = sSep ++ pFilename ++ [34] := rfl
theorem sFilename_eq : sFilename = sSep ++ pFilename := rfl
theorem sFilenameStar_eq : sFilenameStar = sSep ++ pFilenameStar ++ sUtf8 ++ [39, 39] := rfl

theorem isAscii_nil : isAscii [] = true := rfl
theorem ne_nil_of_not_ascii (s : Str) (h : isAscii s = false) : s ≠ [] := by
  intro e; subst e; cases h

/-- the ValueError of `secure_filename` cannot surface through the property -/
theorem formatContentDisposition_isSome (nfkd : Str → Str) (dtype v : Str) : (formatContentDisposition nfkd dtype v).isSome = true := by
  unfold formatContentDisposition
  split
  · rfl
  · rename_i h
    have hne : v ≠ [] := ne_nil_of_not_ascii v (by simpa using h)
    obtain ⟨t, ht, _⟩ := (secureFilename_spec nfkd v).2 hne
    rw [ht]; rfl

/-- **`ascii_filename_quoted_string_reads_back`** (the F27 repair, fix 38a4696): for every ASCII filename the value is
    `<type>; filename=<q>` where an RFC 9110 quoted-string reader turns `q` back into the filename -/
theorem ascii_filename_quoted_string_reads_back (nfkd : Str → Str) (dtype fn : Str) (ha : isAscii fn = true) :
    ∃ q, formatContentDisposition nfkd dtype fn = some (dtype ++ sSep ++ pFilename ++ q) ∧ unquoteQS q = some fn ∧
      (∀ c ∈ q, c ∈ fn ∨ c = 34 ∨ c = 92) := by
  refine ⟨[34] ++ escapeQS fn ++ [34], ?_, unquoteQS_escapeQS fn, ?_⟩
  · unfold formatContentDisposition
    rw [if_pos ha, sFilenameQ_eq]
    simp only [List.append_assoc]
  · intro c hc
    rw [escapeQS_eq_flatMap] at hc
    simp only [List.mem_append, List.mem_singleton, List.mem_flatMap] at hc
    rcases hc with (h | ⟨x, hx, hcx⟩) | h
    · exact Or.inr (Or.inl h)
    · unfold esc1 at hcx
      split at hcx
      · simp at hcx; exact Or.inr (Or.inr hcx)
      · split at hcx
        · simp at hcx; rcases hcx with h | h
          · exact Or.inr (Or.inr h)
          · exact Or.inr (Or.inl h)
        · simp at hcx; subst hcx; exact Or.inl hx
    · exact Or.inr (Or.inl h)

example : formatContentDisposition id sAttachment [97, 34, 92, 46] =
    some (sAttachment ++ sSep ++ pFilename ++ [34, 97, 92, 34, 92, 92, 46, 34]) := by decide

theorem OutChar.facts {c : Nat} (h : OutChar Uri.allowedValue c) : Visible c ∧ c ≠ 59 ∧ c ≠ 34 ∧ c ≠ 92 ∧ c ≠ 39 ∧ c ≠ 62 ∧ c ≠ 44 := by
  have hvis := h.visible allowedValue_visible
  obtain ⟨hlt, h | h | h⟩ := h
  · refine ⟨hvis, ?_, ?_, ?_, ?_, ?_, ?_⟩ <;> (intro e; subst e; revert h; decide)
  · subst h; exact ⟨hvis, by decide⟩
  · unfold Uri.upperHex at h
    simp only [Bool.or_eq_true, Bool.and_eq_true, decide_eq_true_eq] at h
    rw [toNat_toUInt8_lt c (by omega)] at h
    refine ⟨hvis, ?_⟩; omega

theorem OutChar.uri_facts {c : Nat} (h : OutChar Uri.allowedUri c) : Visible c ∧ c ≠ 34 ∧ c ≠ 92 ∧ c ≠ 62 ∧ c ≠ 60 := by
  have hvis := h.visible allowedUri_visible
  obtain ⟨hlt, h | h | h⟩ := h
  · refine ⟨hvis, ?_, ?_, ?_, ?_⟩ <;> (intro e; subst e; revert h; decide)
  · subst h; exact ⟨hvis, by decide⟩
  · unfold Uri.upperHex at h
    simp only [Bool.or_eq_true, Bool.and_eq_true, decide_eq_true_eq] at h
    rw [toNat_toUInt8_lt c (by omega)] at h
    refine ⟨hvis, ?_⟩; omega

theorem encodeValue_out (s : Str) (hv : ValidStr s) : ∀ c ∈ encodeValue s, OutChar Uri.allowedValue c :=
  encodeValue_charset s hv

/-- **`filename_star_decodes_back`**: for every non-ASCII filename (a str of scalar values) and ANY normalisation function the
    value is `<type>; filename=<token>; filename*=UTF-8''<E>`: the fallback is a non-empty-safe token that does not start with a
    dot, `E` consists of unreserved characters and `%XX` and percent-decodes (either `unquote_plus` setting) to the filename,
    and an RFC 8187 ext-value reader splits `UTF-8''E` into charset UTF-8, no language and `E` -/
theorem filename_star_decodes_back (nfkd : Str → Str) (dtype fn : Str) (hv : ValidStr fn) (hna : isAscii fn = false) :
    ∃ sec E, formatContentDisposition nfkd dtype fn = some (dtype ++ sSep ++ pFilename ++ sec ++ sSep ++ pFilenameStar ++ (sUtf8 ++ [39, 39] ++ E)) ∧
      sec = secureCore (nfkd fn) ∧ (∀ c ∈ sec, TokenChar c) ∧ sec.head? ≠ some 46 ∧
      E = encodeValue fn ∧ (∀ c ∈ E, OutChar Uri.allowedValue c) ∧ (∀ plus, decode plus E = fn) ∧
      parseExt (sUtf8 ++ [39, 39] ++ E) = some (sUtf8, [], E) := by
  refine ⟨secureCore (nfkd fn), encodeValue fn, ?_, rfl, secureCore_chars _, secureCore_head _, rfl, encodeValue_out fn hv,
    fun plus => decode_encode_value_str plus fn hv, ?_⟩
  · unfold formatContentDisposition secureFilename
    have hne : fn.isEmpty = false := by
      cases fn with
      | nil => cases hna
      | cons _ _ => rfl
    rw [if_neg (by simp [hna]), hne]
    simp only [Bool.false_eq_true, if_false, sFilename_eq, sFilenameStar_eq, List.append_assoc]
  · unfold parseExt
    have h1 : takeUntil 39 (sUtf8 ++ [39, 39] ++ encodeValue fn) = some (sUtf8, 39 :: encodeValue fn) := by
      have := takeUntil_append 39 sUtf8 (39 :: encodeValue fn) (by decide)
      simpa using this
    rw [h1]
    simp [takeUntil]

example : ValidStr [0x65E5, 46, 112] ∧ isAscii [0x65E5, 46, 112] = false := by decide
example : formatContentDisposition (fun _ => [0x65E5, 46, 112]) sInline [0x65E5, 46, 112] =
    some (sInline ++ sSep ++ pFilename ++ [95, 46, 112] ++ sSep ++ pFilenameStar ++ sUtf8 ++ [39, 39] ++ [37, 69, 54, 37, 57, 55, 37, 65, 53, 46, 112]) := by decide

/-- the three parts of such a value are found by splitting at "; " (the type contains no "; ") -/
theorem content_disposition_params (nfkd : Str → Str) (dtype fn : Str) (hv : ValidStr fn) (hna : isAscii fn = false)
    (hd : contains2 59 32 dtype = false) :
    ∃ v, formatContentDisposition nfkd dtype fn = some v ∧
      split2 59 32 v = [dtype, pFilename ++ secureCore (nfkd fn), pFilenameStar ++ (sUtf8 ++ [39, 39] ++ encodeValue fn)] := by
  obtain ⟨sec, E, hf, hsec, hchars, _, hE, hout, _, _⟩ := filename_star_decodes_back nfkd dtype fn hv hna
  subst hsec hE
  refine ⟨_, hf, ?_⟩
  have hj : dtype ++ sSep ++ pFilename ++ secureCore (nfkd fn) ++ sSep ++ pFilenameStar ++ (sUtf8 ++ [39, 39] ++ encodeValue fn) =
      join [59, 32] [dtype, pFilename ++ secureCore (nfkd fn), pFilenameStar ++ (sUtf8 ++ [39, 39] ++ encodeValue fn)] := by
    simp [join, sSep, List.append_assoc]
  rw [hj]
  apply split2_join 59 32 (by decide) _ (by simp)
  intro p hp
  simp only [List.mem_cons, List.not_mem_nil, or_false] at hp
  rcases hp with rfl | rfl | rfl
  · exact hd
  · apply contains2_of_not_mem_left
    intro hm
    rcases List.mem_append.mp hm with h | h
    · revert h; decide
    · exact (hchars 59 h).facts.2.1 rfl
  · apply contains2_of_not_mem_left
    intro hm
    simp only [List.mem_append] at hm
    rcases hm with h | (h | h) | h
    · revert h; decide
    · revert h; decide
    · revert h; decide
    · exact (hout 59 h).facts.2.1 rfl

/-- for the two properties that use it the whole value is visible ASCII plus the separating blanks -/
theorem content_disposition_ascii (nfkd : Str → Str) (dtype fn : Str) (hv : ValidStr fn) (hna : isAscii fn = false)
    (hd : ∀ c ∈ dtype, Visible c) :
    ∃ v, formatContentDisposition nfkd dtype fn = some v ∧ ∀ c ∈ v, c = 32 ∨ Visible c := by
  obtain ⟨sec, E, hf, _, hchars, _, _, hout, _, _⟩ := filename_star_decodes_back nfkd dtype fn hv hna
  refine ⟨_, hf, ?_⟩
  intro c hc
  simp only [List.mem_append] at hc
  rcases hc with (((((h | h) | h) | h) | h) | h) | (h | h) | h
  · exact Or.inr (hd c h)
  · revert h; revert c; decide
  · revert h; revert c; decide
  · exact Or.inr (hchars c h).facts.1
  · revert h; revert c; decide
  · revert h; revert c; decide
  · revert h; revert c; decide
  · revert h; revert c; decide
  · exact Or.inr (hout c h).facts.1

theorem dtype_ok : (∀ c ∈ sAttachment, Visible c) ∧ (∀ c ∈ sInline, Visible c) ∧
    contains2 59 32 sAttachment = false ∧ contains2 59 32 sInline = false := by decide

/-! ### the Link value as `<target>` followed by "; "-separated parameters -/
def pRel : Str := [114, 101, 108, 61]   -- 'rel='
theorem sRel_eq : sRel = [62] ++ sSep ++ pRel := rfl

/-- `'; ' + '; '.join(l)`: an empty list leaves a single empty piece behind -/
def joinPieces (l : List Str) : List Str := if l.isEmpty then [[]] else l
def glue (ps : List Str) : Str := ps.flatMap (sSep ++ ·)

theorem glue_append (x y : List Str) : glue (x ++ y) = glue x ++ glue y := List.flatMap_append ..
theorem glue_nil : glue [] = [] := rfl
theorem glue_one (p : Str) : glue [p] = sSep ++ p := by simp [glue]

theorem sep_join (l : List Str) : sSep ++ join sSep l = glue (joinPieces l) := by
  cases l with
  | nil => simp [joinPieces, glue, join]
  | cons p r =>
    simp only [joinPieces, List.isEmpty_cons, Bool.false_eq_true, if_false]
    induction r generalizing p with
    | nil => simp [join, glue]
    | cons q r ih =>
      have : glue (p :: q :: r) = sSep ++ p ++ glue (q :: r) := by simp [glue]
      rw [this, ← ih q]
      simp [join, List.append_assoc]

def titleP : Option Str → List Str
  | none => []
  | some t => [pTitle ++ t ++ [34]]
def titleStarP : Option (Str × Str) → List Str
  | none => []
  | some (lang, text) => [pTitleStar ++ lang ++ [39] ++ encodeValueCheckEscaped text]
def typeP : Option Str → List Str
  | none => []
  | some t => [pType ++ t ++ [34]]
def hreflangP : Option Hreflang → List Str
  | none => []
  | some (.one l) => [pHreflang ++ l]
  | some (.many ls) => joinPieces (ls.map (pHreflang ++ ·))
def anchorP : Option Str → List Str
  | none => []
  | some x => [pAnchor ++ encodeCheckEscaped x ++ [34]]
/-- `none` = ValueError -/
def crossP : Option Str → Option (List Str)
  | none => some []
  | some c => if asciiLower c == sAnonymous then some [pCross] else if asciiLower c == sUseCred then some [pCrossUC] else none
def extP : Option (List (Str × Str)) → List Str
  | none => []
  | some ext => joinPieces (ext.map (fun pv => pv.1 ++ [61] ++ pv.2))

/-- the parameters of one link, in the order `append_link` writes them -/
def linkParams (a : LinkArgs) (cross : List Str) : List Str :=
  [pRel ++ relText a.rel] ++ titleP a.title ++ titleStarP a.titleStar ++ typeP a.typeHint ++ hreflangP a.hreflang ++
    anchorP a.anchor ++ cross ++ extP a.linkExtension

theorem addTitle_eq (v : Str) (t : Option Str) : addTitle v t = v ++ glue (titleP t) := by
  cases t with
  | none => simp [addTitle, titleP, glue]
  | some t => simp [addTitle, titleP, glue, List.append_assoc]
theorem addTitleStar_eq (v : Str) (t : Option (Str × Str)) : addTitleStar v t = v ++ glue (titleStarP t) := by
  cases t with
  | none => simp [addTitleStar, titleStarP, glue]
  | some t => obtain ⟨l, x⟩ := t; simp [addTitleStar, titleStarP, glue, List.append_assoc]
theorem addType_eq (v : Str) (t : Option Str) : addType v t = v ++ glue (typeP t) := by
  cases t with
  | none => simp [addType, typeP, glue]
  | some t => simp [addType, typeP, glue, List.append_assoc]
theorem addHreflang_eq (v : Str) (t : Option Hreflang) : addHreflang v t = v ++ glue (hreflangP t) := by
  cases t with
  | none => simp [addHreflang, hreflangP, glue]
  | some t =>
    cases t with
    | one l => simp [addHreflang, hreflangP, glue, List.append_assoc]
    | many ls => simp only [addHreflang, hreflangP, List.append_assoc, sep_join]
theorem addAnchor_eq (v : Str) (t : Option Str) : addAnchor v t = v ++ glue (anchorP t) := by
  cases t with
  | none => simp [addAnchor, anchorP, glue]
  | some t => simp [addAnchor, anchorP, glue, List.append_assoc]
theorem addCross_eq (v : Str) (t : Option Str) : addCross v t = (crossP t).map (fun cp => v ++ glue cp) := by
  cases t with
  | none => simp [addCross, crossP, glue]
  | some c =>
    simp only [addCross, crossP]
    split
    · simp [glue, List.append_assoc]
    · split
      · simp [glue, List.append_assoc]
      · rfl
theorem addExt_eq (v : Str) (t : Option (List (Str × Str))) : addExt v t = v ++ glue (extP t) := by
  cases t with
  | none => simp [addExt, extP, glue]
  | some t => simp only [addExt, extP, List.append_assoc, sep_join]

/-- **the shape of a link**: `<` encoded target `>` and then "; " + parameter for each parameter -/
theorem linkValue_eq (a : LinkArgs) :
    linkValue a = (crossP a.crossorigin).map (fun cp => [60] ++ encodeCheckEscaped a.target ++ [62] ++ glue (linkParams a cp)) := by
  unfold linkValue
  simp only [addTitle_eq, addTitleStar_eq, addType_eq, addHreflang_eq, addAnchor_eq, addCross_eq, addExt_eq]
  cases crossP a.crossorigin with
  | none => rfl
  | some cp =>
    simp only [Option.map_some, linkParams, glue_append, glue_one, sRel_eq, List.append_assoc]

/-! ### reading a link back -/
theorem location_out (s : Str) (hv : ValidStr s) : ∀ c ∈ location s, OutChar Uri.allowedUri c :=
  encodeCheckStr_charset _ Uri.allowedUri_pct allowedUri_ascii s hv

theorem unquoteBody_plain (e : Str) (h : ∀ c ∈ e, c ≠ 34 ∧ c ≠ 92) : unquoteBody (e ++ [34]) = some e := by
  have : escapeQS e = e := by
    rw [escapeQS_eq_flatMap]
    induction e with
    | nil => rfl
    | cons c e ih =>
      have hc := h c (by simp)
      simp only [List.flatMap_cons, esc1, beq_iff_eq, hc.1, hc.2, if_false]
      rw [ih (fun x hx => h x (by simp [hx]))]; rfl
  have h2 := unquoteBody_escapeQS e
  rwa [this] at h2

/-- a URI emitted inside double quotes is read back as it is by a quoted-string reader -/
theorem unquoteQS_location (s : Str) (hv : ValidStr s) : unquoteQS ([34] ++ location s ++ [34]) = some (location s) := by
  simp only [List.cons_append, List.nil_append, unquoteQS]
  exact unquoteBody_plain _ (fun c hc => ⟨(location_out s hv c hc).uri_facts.2.1, (location_out s hv c hc).uri_facts.2.2.1⟩)

/-- **the target of every link reads back**: what stands between '<' and the first '>' is the check-escaped encoding of the
    target - visible ASCII that percent-decodes to the target (or the target itself when it already looked escaped) -/
theorem link_target_reads_back (a : LinkArgs) (v : Str) (h : linkValue a = some v) (hv : ValidStr a.target) :
    ∃ rest, angleTarget v = some (location a.target, rest) ∧
      (∀ c ∈ location a.target, Visible c) ∧
      (looksEscapedS Uri.allowedUri a.target = false → decode false (location a.target) = a.target) ∧
      (looksEscapedS Uri.allowedUri a.target = true → location a.target = a.target) := by
  rw [linkValue_eq] at h
  cases hc : crossP a.crossorigin with
  | none => rw [hc] at h; cases h
  | some cp =>
    rw [hc] at h
    simp only [Option.map_some, Option.some.injEq] at h
    subst h
    have hloc := location_ascii_and_decodes_back a.target hv
    refine ⟨glue (linkParams a cp), ?_, hloc.1, hloc.2.1, hloc.2.2.1⟩
    simp only [List.cons_append, List.nil_append, angleTarget, List.append_assoc]
    exact takeUntil_append 62 _ _ (fun hm => (location_out a.target hv 62 hm).uri_facts.2.2.2.1 rfl)

theorem glue_cons_eq (p : Str) (ps : List Str) : glue (p :: ps) = sSep ++ join sSep (p :: ps) := by
  have := sep_join (p :: ps)
  simp only [joinPieces, List.isEmpty_cons, Bool.false_eq_true, if_false] at this
  exact this.symm

/-- **the parameters of a link read back**: when no rendered parameter contains "; ", splitting what follows `<target>` at
    "; " returns exactly the parameters `append_link` wrote, in order (after the empty piece before the first "; ") -/
theorem link_params_read_back (a : LinkArgs) (v : Str) (h : linkValue a = some v) (hv : ValidStr a.target) :
    ∃ cp rest, crossP a.crossorigin = some cp ∧ angleTarget v = some (location a.target, rest) ∧
      ((∀ p ∈ linkParams a cp, contains2 59 32 p = false) → split2 59 32 rest = [] :: linkParams a cp) := by
  rw [linkValue_eq] at h
  cases hc : crossP a.crossorigin with
  | none => rw [hc] at h; cases h
  | some cp =>
    rw [hc] at h
    simp only [Option.map_some, Option.some.injEq] at h
    subst h
    refine ⟨cp, glue (linkParams a cp), rfl, ?_, ?_⟩
    · simp only [List.cons_append, List.nil_append, angleTarget, List.append_assoc]
      exact takeUntil_append 62 _ _ (fun hm => (location_out a.target hv 62 hm).uri_facts.2.2.2.1 rfl)
    · intro hp
      have hne : linkParams a cp ≠ [] := by simp [linkParams]
      cases hps : linkParams a cp with
      | nil => exact absurd hps hne
      | cons p ps =>
        rw [glue_cons_eq]
        have : sSep ++ join sSep (p :: ps) = 59 :: 32 :: join [59, 32] (p :: ps) := rfl
        rw [this, split2]
        simp only [beq_self_eq_true, Bool.and_self, if_true]
        rw [split2_join 59 32 (by decide) (p :: ps) (by simp) (by rw [← hps]; exact hp)]

def pAnchorEq : Str := [97, 110, 99, 104, 111, 114, 61]     -- 'anchor='
theorem pAnchor_eq : pAnchor = pAnchorEq ++ [34] := rfl

/-- the anchor parameter: no "; " inside, and its quoted value is the check-escaped encoding of the anchor -/
theorem link_anchor_reads_back (x : Str) (hv : ValidStr x) :
    anchorP (some x) = [pAnchorEq ++ ([34] ++ location x ++ [34])] ∧
    contains2 59 32 (pAnchorEq ++ ([34] ++ location x ++ [34])) = false ∧
    unquoteQS ([34] ++ location x ++ [34]) = some (location x) ∧
    (∀ c ∈ location x, Visible c) ∧
    (looksEscapedS Uri.allowedUri x = false → decode false (location x) = x) ∧
    (looksEscapedS Uri.allowedUri x = true → location x = x) := by
  have hloc := location_ascii_and_decodes_back x hv
  refine ⟨by simp [anchorP, location, pAnchor_eq, List.append_assoc], ?_, unquoteQS_location x hv, hloc.1, hloc.2.1, hloc.2.2.1⟩
  apply contains2_of_not_mem_right
  intro hm
  rcases List.mem_append.mp hm with h | h
  · revert h; decide
  · rcases List.mem_append.mp h with h | h
    · rcases List.mem_append.mp h with h | h
      · revert h; decide
      · have := hloc.1 32 h; unfold Visible at this; omega
    · revert h; decide

def pTitleStarEq : Str := [116, 105, 116, 108, 101, 42, 61]     -- 'title*='
theorem pTitleStar_eq : pTitleStar = pTitleStarEq ++ sUtf8 ++ [39] := rfl

theorem encodeValueCheck_out (s : Str) (hv : ValidStr s) : ∀ c ∈ encodeValueCheckEscaped s, OutChar Uri.allowedValue c :=
  encodeCheckStr_charset _ Uri.allowedValue_pct allowedValue_ascii s hv

/-- **`title_star_decodes_back`**: the parameter is `title*=` followed by the RFC 8187 ext-value `UTF-8'<lang>'<E>`; an
    ext-value reader returns the charset, the language tag and `E`; `E` consists of unreserved characters and `%XX` and
    percent-decodes (either `unquote_plus` setting) to the text - or is the text itself when that already looked escaped -/
theorem title_star_decodes_back (lang text : Str) (hv : ValidStr text) :
    let E := encodeValueCheckEscaped text
    titleStarP (some (lang, text)) = [pTitleStarEq ++ (sUtf8 ++ [39] ++ lang ++ [39] ++ E)] ∧
    (39 ∉ lang → parseExt (sUtf8 ++ [39] ++ lang ++ [39] ++ E) = some (sUtf8, lang, E)) ∧
    (∀ c ∈ E, OutChar Uri.allowedValue c) ∧
    (looksEscapedS Uri.allowedValue text = false → ∀ plus, decode plus E = text) ∧
    (looksEscapedS Uri.allowedValue text = true → E = text) ∧
    (32 ∉ lang → contains2 59 32 (pTitleStarEq ++ (sUtf8 ++ [39] ++ lang ++ [39] ++ E)) = false) := by
  intro E
  have hout := encodeValueCheck_out text hv
  refine ⟨by simp [titleStarP, pTitleStar_eq, E, List.append_assoc], ?_, hout, ?_, ?_, ?_⟩
  · intro hl
    unfold parseExt
    have h1 : takeUntil 39 (sUtf8 ++ [39] ++ lang ++ [39] ++ E) = some (sUtf8, lang ++ 39 :: E) := by
      have := takeUntil_append 39 sUtf8 (lang ++ 39 :: E) (by decide)
      simpa [List.append_assoc] using this
    rw [h1]
    simp only
    rw [takeUntil_append 39 lang E hl]
  · intro hl plus
    exact decode_encodeCheckStr _ Uri.allowedValue_pct allowedValue_ascii plus (Or.inr Uri.allowedValue_plus) text hv hl
  · exact encodeCheckStr_escaped _ text
  · intro hl
    apply contains2_of_not_mem_right
    intro hm
    rcases List.mem_append.mp hm with h | h
    · revert h; decide
    · rcases List.mem_append.mp h with h | h
      · rcases List.mem_append.mp h with h | h
        · rcases List.mem_append.mp h with h | h
          · revert h; decide
          · exact hl h
        · revert h; decide
      · have := (hout 32 h).facts.1; unfold Visible at this; omega

example : ValidStr [233, 32, 37] ∧ looksEscapedS Uri.allowedValue [233, 32, 37] = false ∧
    encodeValueCheckEscaped [233, 32, 37] = [37, 67, 51, 37, 65, 57, 37, 50, 48, 37, 50, 53] := by decide

/-! ### the `rel` parameter -/
theorem split1_none (d : Nat) (p : Str) (h : d ∉ p) : split1 d p = [p] := by
  induction p with
  | nil => rfl
  | cons c p ih =>
    have hc : (c == d) = false := by
      have : c ≠ d := fun e => h (by simp [e])
      simpa using this
    rw [split1, hc, ih (fun hm => h (by simp [hm]))]; rfl

theorem split1_append (d : Nat) (p rest : Str) (h : d ∉ p) : split1 d (p ++ d :: rest) = p :: split1 d rest := by
  induction p with
  | nil => simp [split1]
  | cons c p ih =>
    have hc : (c == d) = false := by
      have : c ≠ d := fun e => h (by simp [e])
      simpa using this
    simp only [List.cons_append]
    rw [split1, hc, ih (fun hm => h (by simp [hm]))]; rfl

theorem split1_join (d : Nat) : ∀ (ps : List Str), ps ≠ [] → (∀ p ∈ ps, d ∉ p) → split1 d (join [d] ps) = ps
  | [], h, _ => absurd rfl h
  | [p], _, hv => by simp [join, split1_none d p (hv p (by simp))]
  | p :: q :: ps, _, hv => by
    simp only [join]
    have : p ++ [d] ++ join [d] (q :: ps) = p ++ d :: join [d] (q :: ps) := by simp
    rw [this, split1_append d p _ (hv p (by simp)), split1_join d (q :: ps) (by simp) (fun x hx => hv x (by simp [hx]))]

theorem splitWsAux_mem (s : Str) : ∀ (cur : Str), ∀ m ∈ splitWsAux s cur, ∀ c ∈ m, c ∈ s ∨ c ∈ cur := by
  induction s with
  | nil =>
    intro cur m hm c hc
    unfold splitWsAux at hm
    split at hm
    · cases hm
    · simp at hm; subst hm; exact Or.inr hc
  | cons x s ih =>
    intro cur m hm c hc
    unfold splitWsAux at hm
    split at hm
    · split at hm
      · rcases ih [] m hm c hc with h | h
        · exact Or.inl (by simp [h])
        · cases h
      · rcases List.mem_cons.mp hm with h | h
        · subst h; exact Or.inr hc
        · rcases ih [] m h c hc with h | h
          · exact Or.inl (by simp [h])
          · cases h
    · rcases ih (cur ++ [x]) m hm c hc with h | h
      · exact Or.inl (by simp [h])
      · rcases List.mem_append.mp h with h | h
        · exact Or.inr h
        · simp at h; subst h; exact Or.inl (by simp)

theorem splitWsAux_ne_nil (s : Str) : ∀ (cur : Str), (cur ≠ [] ∨ ∃ c ∈ s, isSpace c = false) → splitWsAux s cur ≠ [] := by
  induction s with
  | nil =>
    intro cur h
    rcases h with h | ⟨c, hc, _⟩
    · unfold splitWsAux
      have : cur.isEmpty = false := by cases cur with | nil => exact absurd rfl h | cons _ _ => rfl
      simp [this]
    · cases hc
  | cons x s ih =>
    intro cur h
    unfold splitWsAux
    by_cases hx : isSpace x = true
    · rw [if_pos hx]
      split
      · rename_i he
        apply ih
        rcases h with h | ⟨c, hc, hsp⟩
        · have : cur = [] := by simpa using he
          exact absurd this h
        · rcases List.mem_cons.mp hc with e | hc'
          · subst e; rw [hx] at hsp; cases hsp
          · exact Or.inr ⟨c, hc', hsp⟩
      · simp
    · rw [if_neg hx]
      apply ih
      exact Or.inl (by simp)

theorem mem_of_contains2 (a b : Nat) (p : Str) (h : contains2 a b p = true) : a ∈ p := by
  cases hm : decide (a ∈ p) with
  | true => exact of_decide_eq_true hm
  | false =>
    have := contains2_of_not_mem_left a b p (of_decide_eq_false hm)
    rw [this] at h; cases h

theorem rel_plain (rel : Str) (h : contains2 47 47 rel = false) : relText rel = rel := by
  unfold relText; simp [h]

/-- an extension relation type without a blank: one quoted, check-escaped URI -/
theorem rel_ext_single (rel : Str) (hv : ValidStr rel) (h47 : contains2 47 47 rel = true) (h32 : rel.contains 32 = false) :
    relText rel = [34] ++ location rel ++ [34] ∧ unquoteQS (relText rel) = some (location rel) ∧
    (∀ c ∈ location rel, Visible c) ∧
    (looksEscapedS Uri.allowedUri rel = false → decode false (location rel) = rel) ∧
    (looksEscapedS Uri.allowedUri rel = true → location rel = rel) := by
  have hloc := location_ascii_and_decodes_back rel hv
  have e : relText rel = [34] ++ location rel ++ [34] := by
    unfold relText location; simp only [h47, h32, if_true, Bool.false_eq_true, if_false]
  exact ⟨e, by rw [e]; exact unquoteQS_location rel hv, hloc.1, hloc.2.1, hloc.2.2.1⟩

/-- **several relation types**: the quoted text, unquoted and split at ' ', gives one check-escaped URI per whitespace-separated
    member of `rel`, each visible ASCII that decodes back to that member -/
theorem rel_ext_members (rel : Str) (hv : ValidStr rel) (h47 : contains2 47 47 rel = true) (h32 : rel.contains 32 = true) :
    let ms := splitWs rel
    relText rel = [34] ++ join [32] (ms.map location) ++ [34] ∧
    unquoteQS (relText rel) = some (join [32] (ms.map location)) ∧
    split1 32 (join [32] (ms.map location)) = ms.map location ∧
    ∀ m ∈ ms, ValidStr m ∧ (∀ c ∈ location m, Visible c) ∧
      (looksEscapedS Uri.allowedUri m = false → decode false (location m) = m) ∧
      (looksEscapedS Uri.allowedUri m = true → location m = m) := by
  intro ms
  have hval : ∀ m ∈ ms, ValidStr m := by
    intro m hm c hc
    rcases splitWsAux_mem rel [] m hm c hc with h | h
    · exact hv c h
    · cases h
  have hne : ms ≠ [] := by
    apply splitWsAux_ne_nil
    exact Or.inr ⟨47, mem_of_contains2 47 47 rel h47, by decide⟩
  have hout : ∀ p ∈ ms.map location, ∀ c ∈ p, OutChar Uri.allowedUri c := by
    intro p hp
    obtain ⟨m, hm, rfl⟩ := List.mem_map.mp hp
    exact location_out m (hval m hm)
  have e : relText rel = [34] ++ join [32] (ms.map location) ++ [34] := by
    show relText rel = [34] ++ join [32] ((splitWs rel).map Us.encodeCheckEscaped) ++ [34]
    unfold relText; simp only [h47, h32, if_true]
  have hjoin : ∀ (ps : List Str), (∀ p ∈ ps, ∀ c ∈ p, OutChar Uri.allowedUri c) → ∀ c ∈ join [32] ps, c ≠ 34 ∧ c ≠ 92 := by
    intro ps
    induction ps with
    | nil => intro _ c hc; cases hc
    | cons p ps ih =>
      intro hp c hc
      cases ps with
      | nil =>
        simp only [join] at hc
        exact ⟨(hp p (by simp) c hc).uri_facts.2.1, (hp p (by simp) c hc).uri_facts.2.2.1⟩
      | cons q ps =>
        simp only [join, List.mem_append, List.mem_singleton] at hc
        rcases hc with (h | h) | h
        · exact ⟨(hp p (by simp) c h).uri_facts.2.1, (hp p (by simp) c h).uri_facts.2.2.1⟩
        · subst h; decide
        · exact ih (fun x hx => hp x (by simp [hx])) c h
  refine ⟨e, ?_, ?_, ?_⟩
  · rw [e]
    simp only [List.cons_append, List.nil_append, unquoteQS]
    exact unquoteBody_plain _ (hjoin _ hout)
  · apply split1_join 32 _ (by simpa using hne)
    intro p hp hm
    have := (hout p hp 32 hm).uri_facts.1
    unfold Visible at this; omega
  · intro m hm
    have hloc := location_ascii_and_decodes_back m (hval m hm)
    exact ⟨hval m hm, hloc.1, hloc.2.1, hloc.2.2.1⟩

example : relText [97, 32, 104, 58, 47, 47, 120, 47, 233] = [34, 97, 32, 104, 58, 47, 47, 120, 47, 37, 67, 51, 37, 65, 57, 34] := by decide

/-! ### crossorigin -/
theorem crossP_spec (c : Str) :
    (asciiLower c = sAnonymous → crossP (some c) = some [pCross]) ∧
    (asciiLower c = sUseCred → crossP (some c) = some [pCrossUC]) ∧
    (asciiLower c ≠ sAnonymous → asciiLower c ≠ sUseCred → crossP (some c) = none) := by
  refine ⟨?_, ?_, ?_⟩
  · intro h; simp [crossP, h]
  · intro h
    have : (sUseCred == sAnonymous) = false := by decide
    simp [crossP, h, this]
  · intro h1 h2; simp [crossP, h1, h2]

/-- `append_link` raises ValueError exactly for a crossorigin that is neither word (compared ASCII-case-insensitively) -/
theorem linkValue_none_iff (a : LinkArgs) :
    linkValue a = none ↔ ∃ c, a.crossorigin = some c ∧ asciiLower c ≠ sAnonymous ∧ asciiLower c ≠ sUseCred := by
  rw [linkValue_eq]
  cases hc : a.crossorigin with
  | none => simp [crossP]
  | some c =>
    simp only [Option.some.injEq, exists_eq_left', Option.map_eq_none_iff]
    by_cases h1 : asciiLower c = sAnonymous
    · simp [(crossP_spec c).1 h1, h1]
    · by_cases h2 : asciiLower c = sUseCred
      · simp [(crossP_spec c).2.1 h2, h2]
      · simp [(crossP_spec c).2.2 h1 h2, h1, h2]

/-! ### `append_link` on the header store -/
section store
variable {Name κ : Type} [DecidableEq κ]

/-- `append_link` is `append_header('Link', value)` of the header-store model (so the `Hd` history theorems cover it) -/
theorem appendLink_eq_appendHeader (c : Hd.Cfg Name κ) (n : Name) (hn : c.norm n ≠ c.cookie) (r : Hd.Resp κ) (a : LinkArgs) :
    appendLink (c.norm n) r a = (linkValue a).map (fun v => Hd.appendHeader c r n (toS v)) := by
  unfold appendLink
  congr 1
  funext v
  unfold Hd.appendHeader
  rw [if_neg hn]
  cases Hd.lookup r.headers (c.norm n) <;> rfl

/-- the Link header after `append_link`: the new link alone, or the old value + ", " + the new link; nothing else changes;
    a rejected call (`none`) leaves the store as it was because nothing is written before the ValueError -/
theorem link_header_after_append (klink : κ) (r r' : Hd.Resp κ) (a : LinkArgs) (h : appendLink klink r a = some r') :
    ∃ v, linkValue a = some v ∧
      propGet klink r' = some (match propGet klink r with | some old => old ++ ", " ++ toS v | none => toS v) ∧
      (∀ k', k' ≠ klink → propGet k' r' = propGet k' r) ∧ r'.extra = r.extra ∧ r'.cookies = r.cookies := by
  unfold appendLink at h
  cases hv : linkValue a with
  | none => rw [hv] at h; cases h
  | some v =>
    rw [hv] at h
    simp only [Option.map_some, Option.some.injEq] at h
    refine ⟨v, rfl, ?_⟩
    unfold propGet
    cases hl : Hd.lookup r.headers klink with
    | none =>
      rw [hl] at h; subst h
      exact ⟨Hd.lookup_setKey_self _ _ _, fun k' hk => Hd.lookup_setKey_ne _ _ _ _ hk, rfl, rfl⟩
    | some old =>
      rw [hl] at h; subst h
      exact ⟨Hd.lookup_setKey_self _ _ _, fun k' hk => Hd.lookup_setKey_ne _ _ _ _ hk, rfl, rfl⟩
end store

/-! ### list-valued properties and Content-Range read back -/
/-- **`header_value_list_join`**: the members joined by ", "; splitting at ", " returns them (no member contains ", ") -/
theorem header_value_list_join (items : List Str) :
    formatList items = join [44, 32] items ∧
    (items ≠ [] → (∀ p ∈ items, contains2 44 32 p = false) → split2 44 32 (formatList items) = items) :=
  ⟨rfl, fun hne hp => split2_join 44 32 (by decide) items hne hp⟩

example : formatList [[97], [], [98, 44, 99]] = [97, 44, 32, 44, 32, 98, 44, 99] ∧
    split2 44 32 (formatList [[97], [], [98, 44, 99]]) = [[97], [], [98, 44, 99]] := by decide
/-- a `str` handed to such a property is an iterable of its characters -/
example : formatList ([97, 98, 99].map (fun c => [c])) = [97, 44, 32, 98, 44, 32, 99] := by decide

theorem strMembers_map_str (l : List Str) : strMembers (l.map Item.str) = some l := by
  induction l with
  | nil => rfl
  | cons a t ih => simp [strMembers, ih]

theorem strMembers_some (t : List Item) (l : List Str) (h : strMembers t = some l) : t = l.map Item.str := by
  induction t generalizing l with
  | nil => simp [strMembers] at h; subst h; rfl
  | cons a t ih =>
    cases a with
    | int i => simp [strMembers] at h
    | str s =>
      simp only [strMembers, Option.map_eq_some_iff] at h
      obtain ⟨l', hl', rfl⟩ := h
      simp [ih l' hl']

/-- **`header_value_items_join`**: an iterable handed to cache_control / vary stores exactly what the LIST of the items it yields
    gives: the members joined by ", " when all of them are str, and otherwise the join raises (TypeError) and nothing is stored -/
theorem header_value_items_join (t : List Item) :
    (∀ l : List Str, t = l.map Item.str → formatItems t = some (formatList l)) ∧
    (∀ s, formatItems t = some s → ∃ l : List Str, t = l.map Item.str ∧ s = formatList l) ∧
    (formatItems t = none ↔ ∃ i, Item.int i ∈ t) := by
  refine ⟨?_, ?_, ?_⟩
  · intro l hl; subst hl; simp [formatItems, strMembers_map_str]
  · intro s hs
    simp only [formatItems, Option.map_eq_some_iff] at hs
    obtain ⟨l, hl, rfl⟩ := hs
    exact ⟨l, strMembers_some t l hl, rfl⟩
  · induction t with
    | nil => simp [formatItems, strMembers]
    | cons a t ih =>
      cases a with
      | int i => simp [formatItems, strMembers]
      | str s =>
        simp only [formatItems, strMembers, Option.map_map, Option.map_eq_none_iff] at ih ⊢
        simp [ih]

example : formatItems [.str [97], .str [98, 99]] = some [97, 44, 32, 98, 99] := by decide
example : formatItems [.str [97], .int 5] = none := by decide
example : formatItems [] = some [] := by decide

/-- on the store: `resp.vary = <iterable>` / `resp.cache_control = <iterable>` either stores the join of the str members or raises
    and stores nothing -/
theorem assign_items (nfkd : Str → Str) (r : Hd.Resp String) (t : List Item) :
    assign nfkd .vary r (some (.tuple t)) = (formatItems t).map (fun s => Hd.propSet r "vary" (toS s)) ∧
    assign nfkd .cacheControl r (some (.tuple t)) = (formatItems t).map (fun s => Hd.propSet r "cache-control" (toS s)) := ⟨rfl, rfl⟩

theorem natDec_digits (n : Nat) : ∀ c ∈ natDec n, 48 ≤ c ∧ c ≤ 57 := by
  intro c hc
  unfold natDec at hc
  obtain ⟨ch, hch, rfl⟩ := List.mem_map.mp hc
  have := Nat.isDigit_of_mem_toDigits (by decide) (by decide) hch
  unfold Char.isDigit at this
  simp only [Bool.and_eq_true, decide_eq_true_eq] at this
  have h1 : (48 : UInt32).toNat ≤ ch.val.toNat := UInt32.le_iff_toNat_le.mp this.1
  have h2 : ch.val.toNat ≤ (57 : UInt32).toNat := UInt32.le_iff_toNat_le.mp this.2
  exact ⟨h1, h2⟩

/-- `int(str(n)) == n` -/
theorem digitsVal_natDec (n : Nat) : digitsVal (natDec n) = n := by
  unfold digitsVal natDec
  rw [List.foldl_map]
  have := Nat.ofDigitChars_toDigits (b := 10) (n := n) (by decide) (by decide)
  rw [Nat.ofDigitChars_eq_foldl] at this
  exact this

/-- **a Content-Range reader gets the numbers back**: for non-negative `first`, `last`, any length text and a unit without a
    blank, `unit SP first "-" last "/" length` parses into exactly these -/
theorem content_range_reads_back (first last : Nat) (len : Item) (unit : Str) (hu : 32 ∉ unit) :
    ∃ v, formatRange [.int first, .int last, len, .str unit] = some v ∧ parseRange v = some (unit, first, last, len.render) := by
  have hr : ∀ n : Nat, (Item.int (n : Int)).render = natDec n := by
    intro n
    simp only [Item.render]
    rw [if_neg (by omega)]; rfl
  have hv : formatRange [.int first, .int last, len, .str unit] =
      some (unit ++ [32] ++ natDec first ++ [45] ++ natDec last ++ [47] ++ len.render) := by
    show some ((Item.str unit).render ++ [32] ++ (Item.int first).render ++ [45] ++ (Item.int last).render ++ [47] ++ len.render) = _
    rw [hr, hr]; rfl
  refine ⟨_, hv, ?_⟩
  unfold parseRange
  have e1 : unit ++ [32] ++ natDec first ++ [45] ++ natDec last ++ [47] ++ len.render =
      unit ++ 32 :: (natDec first ++ 45 :: (natDec last ++ 47 :: len.render)) := by simp
  rw [e1, takeUntil_append 32 unit _ hu]
  simp only
  rw [takeUntil_append 45 (natDec first) _ (fun hm => by have := natDec_digits first 45 hm; omega)]
  simp only
  rw [takeUntil_append 47 (natDec last) _ (fun hm => by have := natDec_digits last 47 hm; omega)]
  simp only [digitsVal_natDec]

theorem content_range_bytes_reads_back (first last : Nat) (len : Item) :
    ∃ v, formatRange [.int first, .int last, len] = some v ∧ parseRange v = some (sBytes, first, last, len.render) := by
  obtain ⟨v, h1, h2⟩ := content_range_reads_back first last len sBytes (by decide)
  exact ⟨v, h1, h2⟩

example : formatRange [.int 0, .int 499, .int 1234] = some [98, 121, 116, 101, 115, 32, 48, 45, 52, 57, 57, 47, 49, 50, 51, 52] := by decide
example : formatRange [.int 5, .int 5, .str [42], .str [105, 116, 101, 109, 115]] = some [105, 116, 101, 109, 115, 32, 53, 45, 53, 47, 42] := by decide

/-! ### the whole Link value is ASCII text when the free-text arguments are -/
/-- printable ASCII text: visible characters and blanks -/
def Txt (s : Str) : Prop := ∀ c ∈ s, c = 32 ∨ Visible c
def txtB (s : Str) : Bool := s.all (fun c => c == 32 || (decide (0x21 ≤ c) && decide (c ≤ 0x7E)))

theorem txtB_iff (s : Str) : txtB s = true ↔ Txt s := by
  unfold txtB Txt Visible
  simp only [List.all_eq_true, Bool.or_eq_true, beq_iff_eq, Bool.and_eq_true, decide_eq_true_eq]

theorem Txt.append {x y : Str} (hx : Txt x) (hy : Txt y) : Txt (x ++ y) := by
  intro c hc
  rcases List.mem_append.mp hc with h | h
  · exact hx c h
  · exact hy c h
theorem Txt.of_visible {x : Str} (h : ∀ c ∈ x, Visible c) : Txt x := fun c hc => Or.inr (h c hc)
theorem Txt.nil : Txt [] := fun _ h => by cases h

theorem Txt.join {sep : Str} (hs : Txt sep) : ∀ (ps : List Str), (∀ p ∈ ps, Txt p) → Txt (join sep ps)
  | [], _ => Txt.nil
  | [p], h => by simpa [Rp.join] using h p (by simp)
  | p :: q :: r, h => by
    simp only [Rp.join]
    exact ((h p (by simp)).append hs).append (Txt.join hs (q :: r) (fun x hx => h x (by simp [hx])))

theorem Txt.glue (ps : List Str) (h : ∀ p ∈ ps, Txt p) : Txt (glue ps) := by
  intro c hc
  unfold Rp.glue at hc
  obtain ⟨p, hp, hcp⟩ := List.mem_flatMap.mp hc
  have hsep : Txt sSep := by unfold Txt; decide
  exact (hsep.append (h p hp)) c hcp

theorem Txt.joinPieces (l : List Str) (h : ∀ p ∈ l, Txt p) : ∀ p ∈ joinPieces l, Txt p := by
  unfold Rp.joinPieces
  split
  · intro p hp; simp at hp; subst hp; exact Txt.nil
  · exact h

theorem Txt.location (s : Str) (hv : ValidStr s) : Txt (location s) :=
  Txt.of_visible (location_ascii_and_decodes_back s hv).1

theorem txt_lits : Txt [34] ∧ Txt sSep ∧ Txt pRel ∧ Txt pTitle ∧ Txt pTitleStar ∧ Txt pType ∧ Txt pHreflang ∧ Txt pAnchor ∧ Txt [39] ∧ Txt [61] ∧
    Txt [60] ∧ Txt [62] ∧ Txt [32] ∧ Txt pCross ∧ Txt pCrossUC := by
  unfold Txt; decide

/-- the arguments that are written as they are -/
def freeTextAscii (a : LinkArgs) : Bool :=
  (contains2 47 47 a.rel || txtB a.rel) &&
  (match a.title with | none => true | some t => txtB t) &&
  (match a.titleStar with | none => true | some p => txtB p.1) &&
  (match a.typeHint with | none => true | some t => txtB t) &&
  (match a.hreflang with | none => true | some (.one l) => txtB l | some (.many ls) => ls.all txtB) &&
  (match a.linkExtension with | none => true | some e => e.all (fun pv => txtB pv.1 && txtB pv.2))

/-- the arguments that go through a URI encoder are strs of scalar values -/
def UriArgsValid (a : LinkArgs) : Prop :=
  ValidStr a.target ∧ (contains2 47 47 a.rel = true → ValidStr a.rel) ∧
  (∀ x, a.anchor = some x → ValidStr x) ∧ (∀ l x, a.titleStar = some (l, x) → ValidStr x)

theorem Txt.relText (rel : Str) (h : contains2 47 47 rel = true → ValidStr rel) (ht : contains2 47 47 rel = false → Txt rel) :
    Txt (relText rel) := by
  have hq : Txt [34] := by unfold Txt; decide
  cases h47 : contains2 47 47 rel with
  | false => rw [rel_plain rel h47]; exact ht h47
  | true =>
    have hv := h h47
    cases h32 : rel.contains 32 with
    | false =>
      rw [(rel_ext_single rel hv h47 h32).1]
      exact (hq.append (Txt.location rel hv)).append hq
    | true =>
      have hm := rel_ext_members rel hv h47 h32
      simp only at hm
      rw [hm.1]
      refine (hq.append (Txt.join (by unfold Txt; decide) _ ?_)).append hq
      intro p hp
      obtain ⟨m, hmm, rfl⟩ := List.mem_map.mp hp
      exact Txt.of_visible (hm.2.2.2 m hmm).2.1

/-- **every character of a Link value is printable ASCII** - whatever the target, anchor, title* text and extension relation
    types are (unicode, control characters, …) - provided the arguments falcon writes verbatim (plain rel, title, language tags,
    type hint, extension pairs) are printable ASCII themselves -/
theorem link_value_ascii (a : LinkArgs) (v : Str) (h : linkValue a = some v) (hf : freeTextAscii a = true) (hu : UriArgsValid a) :
    Txt v := by
  rw [linkValue_eq] at h
  cases hc : crossP a.crossorigin with
  | none => rw [hc] at h; cases h
  | some cp =>
    rw [hc] at h
    simp only [Option.map_some, Option.some.injEq] at h
    subst h
    unfold freeTextAscii at hf
    simp only [Bool.and_eq_true, Bool.or_eq_true] at hf
    obtain ⟨⟨⟨⟨⟨hrel, htitle⟩, hstar⟩, htype⟩, hhl⟩, hext⟩ := hf
    obtain ⟨hvt, hvr, hva, hvs⟩ := hu
    have hq : Txt [34] := by unfold Txt; decide
    have hcp : ∀ p ∈ cp, Txt p := by
      cases hco : a.crossorigin with
      | none => rw [hco] at hc; simp [crossP] at hc; subst hc; intro p hp; cases hp
      | some c =>
        rw [hco] at hc
        simp only [crossP] at hc
        split at hc
        · simp at hc; subst hc; intro p hp; simp at hp; subst hp; unfold Txt; decide
        · split at hc
          · simp at hc; subst hc; intro p hp; simp at hp; subst hp; unfold Txt; decide
          · cases hc
    refine ((Txt.append (by unfold Txt; decide) (Txt.location _ hvt)).append (by unfold Txt; decide)).append (Txt.glue _ ?_)
    intro p hp
    unfold linkParams at hp
    simp only [List.mem_append] at hp
    rcases hp with ((((((hp | hp) | hp) | hp) | hp) | hp) | hp) | hp
    · simp at hp; subst hp
      refine Txt.append txt_lits.2.2.1 (Txt.relText _ hvr ?_)
      intro h47
      rcases hrel with h | h
      · rw [h47] at h; cases h
      · exact (txtB_iff _).mp h
    · cases ht : a.title with
      | none => rw [ht] at hp; cases hp
      | some t =>
        rw [ht] at hp htitle
        simp only [titleP, List.mem_singleton] at hp; subst hp
        exact ((Txt.append txt_lits.2.2.2.1 ((txtB_iff _).mp htitle)).append hq)
    · cases ht : a.titleStar with
      | none => rw [ht] at hp; cases hp
      | some t =>
        obtain ⟨l, x⟩ := t
        rw [ht] at hp hstar
        simp only [titleStarP, List.mem_singleton] at hp; subst hp
        have hE := encodeValueCheck_out x (hvs l x ht)
        exact (((Txt.append txt_lits.2.2.2.2.1 ((txtB_iff _).mp hstar)).append (by unfold Txt; decide)).append
          (Txt.of_visible (fun c hc => (hE c hc).facts.1)))
    · cases ht : a.typeHint with
      | none => rw [ht] at hp; cases hp
      | some t =>
        rw [ht] at hp htype
        simp only [typeP, List.mem_singleton] at hp; subst hp
        exact ((Txt.append txt_lits.2.2.2.2.2.1 ((txtB_iff _).mp htype)).append hq)
    · cases ht : a.hreflang with
      | none => rw [ht] at hp; cases hp
      | some t =>
        rw [ht] at hp hhl
        cases t with
        | one l =>
          simp only [hreflangP, List.mem_singleton] at hp; subst hp
          exact Txt.append txt_lits.2.2.2.2.2.2.1 ((txtB_iff _).mp hhl)
        | many ls =>
          simp only [hreflangP] at hp
          refine Txt.joinPieces _ ?_ p hp
          intro q hq'
          obtain ⟨l, hl, rfl⟩ := List.mem_map.mp hq'
          exact Txt.append txt_lits.2.2.2.2.2.2.1 ((txtB_iff _).mp (List.all_eq_true.mp hhl l hl))
    · cases ht : a.anchor with
      | none => rw [ht] at hp; cases hp
      | some x =>
        rw [ht] at hp
        simp only [anchorP, List.mem_singleton] at hp; subst hp
        exact ((Txt.append txt_lits.2.2.2.2.2.2.2.1 (Txt.location x (hva x ht))).append hq)
    · exact hcp p hp
    · cases ht : a.linkExtension with
      | none => rw [ht] at hp; cases hp
      | some e =>
        rw [ht] at hp hext
        simp only [extP] at hp
        refine Txt.joinPieces _ ?_ p hp
        intro q hq'
        obtain ⟨pv, hpv, rfl⟩ := List.mem_map.mp hq'
        have := List.all_eq_true.mp hext pv hpv
        simp only [Bool.and_eq_true] at this
        exact ((Txt.append ((txtB_iff _).mp this.1) (by unfold Txt; decide)).append ((txtB_iff _).mp this.2))

def exampleLink : LinkArgs :=
  { target := [47, 233, 1], rel := [110, 101, 120, 116], title := some [65, 32, 116], titleStar := some ([101, 110], [0x65E5]),
    anchor := some [35, 32], hreflang := some (Hreflang.many [[101, 110], [100, 101]]) }
example : freeTextAscii exampleLink = true := by decide
/-! ### ETag -/
theorem formatEtag_none_iff (v : Str) : formatEtag v = none ↔ v = [] := by
  unfold formatEtag
  cases h : v.getLast? with
  | none => simp [List.getLast?_eq_none_iff.mp h]
  | some c =>
    have : v ≠ [] := by intro e; subst e; simp at h
    simp only [this, iff_false]
    split <;> simp

/-- **`etag_quoting_idempotent`**: a result of the transform ends with '"' and is left alone by the transform -/
theorem etag_quoting_idempotent (v e : Str) (h : formatEtag v = some e) : formatEtag e = some e ∧ e.getLast? = some 34 := by
  unfold formatEtag at h
  cases hl : v.getLast? with
  | none => rw [hl] at h; cases h
  | some c =>
    rw [hl] at h
    simp only at h
    by_cases hc : c = 34
    · subst hc
      simp only [bne_self_eq_false, Bool.false_eq_true, if_false, Option.some.injEq] at h
      subst h
      refine ⟨?_, hl⟩
      unfold formatEtag; rw [hl]; simp
    · have : (c != 34) = true := by simpa using hc
      rw [this] at h
      simp only [if_true, Option.some.injEq] at h
      subst h
      have hlast : ([34] ++ v ++ [34]).getLast? = some 34 := by
        rw [List.getLast?_append]; rfl
      refine ⟨?_, hlast⟩
      unfold formatEtag; rw [hlast]; simp

/-- what the transform does: wraps unless the last character is '"' -/
theorem formatEtag_spec (v : Str) (c : Nat) (h : v.getLast? = some c) :
    formatEtag v = some (if c = 34 then v else [34] ++ v ++ [34]) := by
  unfold formatEtag; rw [h]
  by_cases hc : c = 34
  · subst hc; simp
  · simp [hc]

example : formatEtag [97, 98] = some [34, 97, 98, 34] ∧ formatEtag [87, 47, 34, 97, 34] = some [87, 47, 34, 97, 34] := by decide

/-! ### Content-Range -/
/-- **`content_range_format_exact`** -/
theorem content_range_format_exact :
    (∀ a b c : Item, formatRange [a, b, c] = some (sBytes ++ [32] ++ a.render ++ [45] ++ b.render ++ [47] ++ c.render)) ∧
    (∀ a b c u : Item, formatRange [a, b, c, u] = some (u.render ++ [32] ++ a.render ++ [45] ++ b.render ++ [47] ++ c.render)) ∧
    (∀ (a b c u w : Item) (r : List Item), formatRange (a :: b :: c :: u :: w :: r) =
        some (sBytes ++ [32] ++ a.render ++ [45] ++ b.render ++ [47] ++ c.render)) ∧
    (∀ l : List Item, l.length < 3 → formatRange l = none) := by
  refine ⟨fun _ _ _ => rfl, fun _ _ _ _ => rfl, fun _ _ _ _ _ _ => rfl, ?_⟩
  intro l hl
  match l, hl with
  | [], _ => rfl
  | [_], _ => rfl
  | [_, _], _ => rfl
  | _ :: _ :: _ :: _, h => simp at h; omega
/-! ### the descriptors on the header store -/
section store
variable {Name κ : Type} [DecidableEq κ]

/-- **`property_set_get_roundtrip`** -/
theorem property_set_get_roundtrip {α : Type} (k : κ) (t : α → Option Str) (r : Hd.Resp κ) (v : α) (s : Str) (ht : t v = some s) :
    ∃ r', propAssign k t r (some v) = some r' ∧ propGet k r' = some (toS s) ∧
      (∀ k', k' ≠ k → propGet k' r' = propGet k' r) ∧ r'.extra = r.extra ∧ r'.cookies = r.cookies := by
  refine ⟨Hd.propSet r k (toS s), ?_, ?_, ?_, rfl, rfl⟩
  · simp [propAssign, ht]
  · exact Hd.lookup_setKey_self _ _ _
  · intro k' hk; exact Hd.lookup_setKey_ne _ _ _ _ hk

/-- a transform that raises leaves no new store behind (the assignment statement is never reached) -/
theorem property_transform_raises {α : Type} (k : κ) (t : α → Option Str) (r : Hd.Resp κ) (v : α) (ht : t v = none) :
    propAssign k t r (some v) = none := by
  simp [propAssign, ht]

/-- **`property_none_deletes`**: assigning None never raises, removes the header and nothing else -/
theorem property_none_deletes {α : Type} (k : κ) (t : α → Option Str) (r : Hd.Resp κ) :
    ∃ r', propAssign k t r none = some r' ∧ propGet k r' = none ∧
      (∀ k', k' ≠ k → propGet k' r' = propGet k' r) ∧ r'.extra = r.extra ∧ r'.cookies = r.cookies := by
  refine ⟨Hd.propDel r k, rfl, ?_, ?_, rfl, rfl⟩
  · exact Hd.lookup_delKey_self _ _
  · intro k' hk; exact Hd.lookup_delKey_ne _ _ _ hk

/-- `del resp.<prop>` raises KeyError exactly when the header is absent, and otherwise removes it -/
theorem property_del (k : κ) (r : Hd.Resp κ) :
    (propGet k r = none → propDelete k r = none) ∧
    (propGet k r ≠ none → ∃ r', propDelete k r = some r' ∧ propGet k r' = none ∧ (∀ k', k' ≠ k → propGet k' r' = propGet k' r)) := by
  unfold propDelete propGet
  constructor
  · intro h; rw [h]; rfl
  · intro h
    cases hl : Hd.lookup r.headers k with
    | none => exact absurd hl h
    | some x =>
      refine ⟨Hd.propDel r k, by simp, Hd.lookup_delKey_self _ _, ?_⟩
      intro k' hk; exact Hd.lookup_delKey_ne _ _ _ hk

/-- the descriptors are the `propSet` / `propDel` operations of the history theorems of `Hd` -/
theorem propAssign_eq_applyOp {α : Type} (c : Hd.Cfg Name κ) (k : κ) (hk : k ≠ c.cookie) (t : α → Option Str) (r : Hd.Resp κ) :
    (∀ v s, t v = some s → propAssign k t r (some v) = some (Hd.applyOp c r (.propSet k (toS s)))) ∧
    propAssign k t r none = some (Hd.applyOp c r (.propDel k)) := by
  constructor
  · intro v s ht
    simp [propAssign, ht, Hd.applyOp, hk]
  · rfl

/-- … so a property that was set is read back by `get_header` in every spelling of its name -/
theorem property_get_header {α : Type} (c : Hd.Cfg Name κ) (k : κ) (hk : k ≠ c.cookie) (t : α → Option Str) (r r' : Hd.Resp κ)
    (v : α) (s : Str) (ht : t v = some s) (h : propAssign k t r (some v) = some r') (b : Name) (hb : c.norm b = k) :
    Hd.getHeader c r' b = some (some (toS s)) := by
  simp only [propAssign, ht, Option.map_some, Option.some.injEq] at h
  subst h
  unfold Hd.getHeader
  rw [hb, if_neg hk]
  simp only [Hd.propSet]
  rw [Hd.lookup_setKey_self]
end store

theorem key_ne_cookie (p : HProp) : p.key ≠ "set-cookie" := by
  cases p <;> decide

/-- the concrete properties: what `resp.<prop> = value` stores is what `resp.<prop>` returns; `= None` deletes -/
theorem assign_get (nfkd : Str → Str) (p : HProp) (r : Hd.Resp String) (v : Val) (s : Str) (ht : p.transform nfkd v = some s) :
    ∃ r', assign nfkd p r (some v) = some r' ∧ propGet p.key r' = some (toS s) ∧
      (∀ k', k' ≠ p.key → propGet k' r' = propGet k' r) ∧ r'.extra = r.extra ∧ r'.cookies = r.cookies :=
  property_set_get_roundtrip p.key (p.transform nfkd) r v s ht
theorem assign_none (nfkd : Str → Str) (p : HProp) (r : Hd.Resp String) :
    ∃ r', assign nfkd p r none = some r' ∧ propGet p.key r' = none ∧ (∀ k', k' ≠ p.key → propGet k' r' = propGet k' r) :=
  let ⟨r', h1, h2, h3, _⟩ := property_none_deletes p.key (p.transform nfkd) r
  ⟨r', h1, h2, h3⟩

example : linkValue exampleLink = some [60, 47, 37, 67, 51, 37, 65, 57, 37, 48, 49, 62, 59, 32, 114, 101, 108, 61, 110, 101, 120, 116, 59, 32, 116, 105,
    116, 108, 101, 61, 34, 65, 32, 116, 34, 59, 32, 116, 105, 116, 108, 101, 42, 61, 85, 84, 70, 45, 56, 39, 101, 110, 39,
    37, 69, 54, 37, 57, 55, 37, 65, 53, 59, 32, 104, 114, 101, 102, 108, 97, 110, 103, 61, 101, 110, 59, 32, 104, 114, 101,
    102, 108, 97, 110, 103, 61, 100, 101, 59, 32, 97, 110, 99, 104, 111, 114, 61, 34, 35, 37, 50, 48, 34] := by decide
end Rp

/-! Prototype: model of CompiledRouter._generate_ast + source rendering. -/
namespace Rt

structure ConvUse where
  field : String
  multi : Bool       -- CONSUME_MULTIPLE_SEGMENTS
deriving Repr

inductive Kind where
  | lit
  | simple (name : String) (conv : Option ConvUse)
  | complex (patText : String) (convs : List ConvUse) (numFields : Nat)
deriving Repr

inductive Node where
  | mk (raw : String) (kind : Kind) (hasRoute : Bool) (children : List Node)
deriving Repr

def Node.kind : Node → Kind | .mk _ k _ _ => k
def Node.raw : Node → String | .mk r _ _ _ => r
def Node.hasRoute : Node → Bool | .mk _ _ h _ => h
def Node.children : Node → List Node | .mk _ _ _ c => c

inductive Cx where
  | ifPathLen (cmp : String) (n : Nat) (ch : List Cx)
  | ifLit (idx : Nat) (lit : String) (ch : List Cx)
  | ifPattern (segIdx patIdx : Nat) (text : String) (ch : List Cx)
  | ifConv (uniq convIdx : Nat) (ch : List Cx)
  | setFragField (name : String)
  | setFragPath (idx : Nat)
  | setFragRest (idx : Nat)
  | varFromMatch (uniq : Nat)
  | varFromMatchPrefetched (uniq : Nat)
  | prefetchGroups
  | retNone
  | retVal (idx : Nat)
  | setParamPath (name : String) (idx : Nat)
  | setParamVal (name : String) (uniq : Nat)       -- params[name] = field_value_<uniq>
  | setParamsDictMatch (uniq : Nat)                -- params.update(dict_match_<uniq>)
  | setParamsDictGroups (uniq : Nat)               -- params.update(dict_groups_<uniq>)
deriving Repr

structure Ctr where
  rv : Nat := 0
  pat : Nat := 0
  conv : Nat := 0
deriving Repr

def sortKey (n : Node) : Nat := match n.kind with | .lit => 0 | .complex .. => 1 | .simple .. => 2
def isVar (n : Node) : Bool := sortKey n != 0
/-- stable sort by key 0,1,2 -/
def sortNodes (ns : List Node) : List Node :=
  ns.filter (sortKey · == 0) ++ ns.filter (sortKey · == 1) ++ ns.filter (sortKey · == 2)

/-- a wrapper layer: statements emitted before, then a parent construct -/
structure Layer where
  pre : List Cx
  wrap : List Cx → Cx

def build (layers : List Layer) (inner : List Cx) : List Cx :=
  layers.foldr (fun l acc => l.pre ++ [l.wrap acc]) inner

/-- conversion chain for complex nodes: one `fragment = groups.pop(f)` + `if converter` layer per converted field -/
def convChain : List ConvUse → List Cx → Ctr → List Layer × List Cx × Ctr
  | [], st, c => ([], st, c)
  | cu :: rest, st, c =>
    let uniq := st.length + 1
    let r := convChain rest (st ++ [Cx.setParamVal cu.field uniq]) { c with conv := c.conv + 1 }
    ({ pre := [Cx.setFragField cu.field], wrap := Cx.ifConv uniq c.conv } :: r.1, r.2.1, r.2.2)

structure Pre where
  layers : List Layer
  innerPre : List Cx
  stack : List Cx
  ctr : Ctr
  multi : Bool

/-- per-node preamble of `_generate_ast`: the constructs wrapped around the node's body, the extended
    params_stack and the advanced pattern/converter counters -/
def preamble (node : Node) (stack0 : List Cx) (level : Nat) (c : Ctr) : Pre :=
  match node.kind with
  | .lit => { layers := [{ pre := [], wrap := Cx.ifLit level node.raw }], innerPre := [], stack := stack0, ctr := c, multi := false }
  | .simple name none => { layers := [], innerPre := [], stack := stack0 ++ [Cx.setParamPath name level], ctr := c, multi := false }
  | .simple name (some cu) =>
    let uniq := stack0.length + 1
    { layers := [{ pre := [if cu.multi then Cx.setFragRest level else Cx.setFragPath level],
                   wrap := Cx.ifConv uniq c.conv }],
      innerPre := [], stack := stack0 ++ [Cx.setParamVal name uniq], ctr := { c with conv := c.conv + 1 }, multi := cu.multi }
  | .complex text convs nf =>
    let patIdx := c.pat
    let c := { c with pat := c.pat + 1 }
    if convs.isEmpty then
      let uniq := stack0.length + 1
      { layers := [{ pre := [], wrap := Cx.ifPattern level patIdx text }], innerPre := [Cx.varFromMatch uniq],
        stack := stack0 ++ [Cx.setParamsDictMatch uniq], ctr := c, multi := false }
    else
      let (ls, st, c) := convChain convs stack0 c
      let ls := match ls with
        | l :: t => { l with pre := Cx.prefetchGroups :: l.pre } :: t
        | [] => []
      let (innerPre, st) :=
        if nf > convs.length then
          let uniq := st.length + 1
          ([Cx.varFromMatchPrefetched uniq], st ++ [Cx.setParamsDictGroups uniq])
        else ([], st)
      { layers := { pre := [], wrap := Cx.ifPattern level patIdx text } :: ls, innerPre := innerPre, stack := st, ctr := c, multi := false }

def retCodeOf (node : Node) (stack : List Cx) (level : Nat) (fast multi : Bool) (ridx : Nat) : List Cx :=
  if !node.hasRoute then (if fast then [Cx.retNone] else [])
  else if multi then stack ++ [Cx.retVal ridx]
  else [Cx.ifPathLen "==" (level + 1) (stack ++ [Cx.retVal ridx])] ++ (if fast then [Cx.retNone] else [])

def fastOf (fast : Bool) (nodes : List Node) : Bool :=
  if fast && nodes.length > 1 then !(nodes.any isVar) else fast

mutual
def genAst (fuel : Nat) (nodes : List Node) (stack : List Cx) (level : Nat) (fast : Bool) (c : Ctr) : List Cx × Ctr :=
  match fuel with
  | 0 => ([], c)
  | fuel + 1 =>
  if nodes.isEmpty then ([], c) else
  let nodes := sortNodes nodes
  let fast := fastOf fast nodes
  let foundSimple := nodes.any (fun n => sortKey n == 2)
  let (body, c) := genNodes fuel nodes stack level fast c
  let tail := if !foundSimple && fast then [Cx.retNone] else []
  ([Cx.ifPathLen ">" level (body ++ tail)], c)
termination_by (fuel, 0, 0)

def genNodes (fuel : Nat) (nodes : List Node) (stack0 : List Cx) (level : Nat) (fast : Bool) (c : Ctr) : List Cx × Ctr :=
  match nodes with
  | [] => ([], c)
  | node :: rest =>
    let p := preamble node stack0 level c
    let ridx := p.ctr.rv
    let c2 : Ctr := if node.hasRoute then { p.ctr with rv := p.ctr.rv + 1 } else p.ctr
    let (childCode, c3) := genAst fuel node.children p.stack (level + 1) fast c2
    let code := build p.layers (p.innerPre ++ childCode ++ retCodeOf node p.stack level fast p.multi ridx)
    let (restCode, c4) := genNodes fuel rest stack0 level fast c3
    (code ++ restCode, c4)
termination_by (fuel, 1, nodes.length)
end

def tab (n : Nat) : String := String.ofList (List.replicate (4*n) ' ')
def joinNl (l : List String) : String := "\n".intercalate l

def hexDigit (n : Nat) : Char := if n < 10 then Char.ofNat (48 + n) else Char.ofNat (87 + n)

/-- Python `repr()` of a `str` (used by the generated source for literals and for the pattern-text comment): quote choice,
    backslash escapes, `\xNN` for C0/DEL/C1 controls; other non-ASCII characters are taken to be printable -/
def pyRepr (s : String) : String :=
  let cs := s.toList
  let q : Char := if cs.contains '\'' && !cs.contains '"' then '"' else '\''
  let esc : Char → List Char := fun c =>
    if c == '\\' then ['\\', '\\']
    else if c == q then ['\\', c]
    else if c == '\t' then ['\\', 't']
    else if c == '\n' then ['\\', 'n']
    else if c == '\r' then ['\\', 'r']
    else if c.toNat < 32 || (127 ≤ c.toNat && c.toNat < 161) || c.toNat == 173 then
      ['\\', 'x', hexDigit (c.toNat / 16), hexDigit (c.toNat % 16)]
    else [c]
  String.ofList (q :: cs.flatMap esc ++ [q])

mutual
def render (ind : Nat) : Cx → String
  | .ifPathLen cmp n ch => s!"{tab ind}if path_len {cmp} {n}:\n{renderL (ind+1) ch}"
  | .ifLit i lit ch => s!"{tab ind}if path[{i}] == {pyRepr lit}:\n{renderL (ind+1) ch}"
  | .ifPattern si pi text ch =>
    s!"{tab ind}match = patterns[{pi}].match(path[{si}])  # {pyRepr text}\n{tab ind}if match is not None:\n{renderL (ind+1) ch}"
  | .ifConv u ci ch =>
    s!"{tab ind}field_value_{u} = converters[{ci}].convert(fragment)\n{tab ind}if field_value_{u} is not None:\n{renderL (ind+1) ch}"
  | .setFragField n => s!"{tab ind}fragment = groups.pop('{n}')"
  | .setFragPath i => s!"{tab ind}fragment = path[{i}]"
  | .setFragRest i => s!"{tab ind}fragment = path[{i}:]"
  | .varFromMatch u => s!"{tab ind}dict_match_{u} = match.groupdict()"
  | .varFromMatchPrefetched u => s!"{tab ind}dict_groups_{u} = groups"
  | .prefetchGroups => s!"{tab ind}groups = match.groupdict()"
  | .retNone => s!"{tab ind}return None"
  | .retVal i => s!"{tab ind}return return_values[{i}]"
  | .setParamPath n i => s!"{tab ind}params['{n}'] = path[{i}]"
  | .setParamVal n u => s!"{tab ind}params['{n}'] = field_value_{u}"
  | .setParamsDictMatch u => s!"{tab ind}params.update(dict_match_{u})"
  | .setParamsDictGroups u => s!"{tab ind}params.update(dict_groups_{u})"
def renderL (ind : Nat) : List Cx → String
  | [] => ""
  | [c] => render ind c
  | c :: cs => render ind c ++ "\n" ++ renderL ind cs
end

def depth : Node → Nat
  | .mk _ _ _ ch => 1 + (ch.attach.map (fun ⟨c, _⟩ => depth c)).foldl max 0

def finderSrc (roots : List Node) : String :=
  let fuel := 2 * ((roots.map depth).foldl max 0) + 4
  let (ast, _) := genAst fuel roots [] 0 true {}
  joinNl ["def find(path, return_values, patterns, converters, params):",
          "    path_len = len(path)", renderL 1 ast, "    return None"]
end Rt

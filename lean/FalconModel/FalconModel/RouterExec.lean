import FalconModel.RouterCx
/-! Prototype: big-step semantics of the generated finder (`exec`) and the DFS specification (`findSpec`). -/
namespace Rt

abbrev Dict := List (String × String)
def Dict.set (d : Dict) (k v : String) : Dict := (d.filter (·.1 != k)) ++ [(k, v)]
def Dict.update (d e : Dict) : Dict := e.foldl (fun acc kv => Dict.set acc kv.1 kv.2) d
def Dict.pop (d : Dict) (k : String) : Option (String × Dict) :=
  match d.find? (·.1 == k) with
  | some kv => some (kv.2, d.filter (·.1 != k))
  | none => none

/-- runtime-owned functions, table-fed -/
structure Tables where
  pmatch : Nat → String → Option Dict          -- patterns[i].match(seg).groupdict()
  conv : Nat → String → Option String          -- converters[i].convert(fragment); multi-seg fragment joined by "/"

structure Env where
  path : List String
  mtch : Option Dict := none
  groups : Dict := []
  fragment : String := ""
  fieldVal : List (Nat × String) := []
  dictMatch : List (Nat × Dict) := []
  dictGroups : List (Nat × Dict) := []
  params : Dict := []

inductive Out where
  | ret (r : Option (Nat × Dict))     -- `return return_values[i]` / `return None`
  | fall (e : Env)                    -- fell through
  | stuck (why : String)              -- would raise in Python

def lookupN {α} (l : List (Nat × α)) (k : Nat) : Option α := (l.find? (·.1 == k)).map (·.2)
def setN {α} (l : List (Nat × α)) (k : Nat) (v : α) : List (Nat × α) := (k, v) :: l.filter (·.1 != k)

mutual
def exec (t : Tables) (e : Env) : Cx → Out
  | .ifPathLen cmp n ch =>
    let c := if cmp == ">" then e.path.length > n else e.path.length == n
    if c then execL t e ch else .fall e
  | .ifLit i lit ch =>
    match e.path[i]? with
    | none => .stuck "path index"
    | some s => if s == lit then execL t e ch else .fall e
  | .ifPattern si pi _ ch =>
    match e.path[si]? with
    | none => .stuck "path index"
    | some s =>
      let m := t.pmatch pi s
      let e := { e with mtch := m }
      match m with
      | some _ => execL t e ch
      | none => .fall e
  | .ifConv u ci ch =>
    match t.conv ci e.fragment with
    | some v => execL t { e with fieldVal := setN e.fieldVal u v } ch
    | none => .fall { e with fieldVal := e.fieldVal.filter (·.1 != u) }
  | .setFragField n =>
    match Dict.pop e.groups n with
    | some (v, g) => .fall { e with fragment := v, groups := g }
    | none => .stuck "groups.pop"
  | .setFragPath i =>
    match e.path[i]? with
    | some s => .fall { e with fragment := s }
    | none => .stuck "path index"
  | .setFragRest i => .fall { e with fragment := "/".intercalate (e.path.drop i) }
  | .varFromMatch u =>
    match e.mtch with
    | some d => .fall { e with dictMatch := setN e.dictMatch u d }
    | none => .stuck "match is None"
  | .varFromMatchPrefetched u => .fall { e with dictGroups := setN e.dictGroups u e.groups }
  | .prefetchGroups =>
    match e.mtch with
    | some d => .fall { e with groups := d }
    | none => .stuck "match is None"
  | .retNone => .ret none
  | .retVal i => .ret (some (i, e.params))
  | .setParamPath n i =>
    match e.path[i]? with
    | some s => .fall { e with params := Dict.set e.params n s }
    | none => .stuck "path index"
  | .setParamVal n u =>
    match lookupN e.fieldVal u with
    | some v => .fall { e with params := Dict.set e.params n v }
    | none => .stuck "unbound field_value"
  | .setParamsDictMatch u =>
    match lookupN e.dictMatch u with
    | some d => .fall { e with params := Dict.update e.params d }
    | none => .stuck "unbound dict_match"
  | .setParamsDictGroups u =>
    match lookupN e.dictGroups u with
    | some d => .fall { e with params := Dict.update e.params d }
    | none => .stuck "unbound dict_groups"
def execL (t : Tables) (e : Env) : List Cx → Out
  | [] => .fall e
  | c :: cs =>
    match exec t e c with
    | .fall e' => execL t e' cs
    | o => o
end

def ownPat (n : Node) : Nat := match n.kind with | .complex .. => 1 | _ => 0
def ownConv (n : Node) : Nat := match n.kind with | .simple _ (some _) => 1 | .complex _ cs _ => cs.length | _ => 0
def ownRv (n : Node) : Nat := if n.hasRoute then 1 else 0

mutual
def cntN : Node → Ctr
  | .mk r k h ch =>
    let o : Node := .mk r k h []
    let c := cntL ch
    { rv := ownRv o + c.rv, pat := ownPat o + c.pat, conv := ownConv o + c.conv }
def cntL : List Node → Ctr
  | [] => {}
  | n :: ns => let a := cntN n; let b := cntL ns; { rv := a.rv + b.rv, pat := a.pat + b.pat, conv := a.conv + b.conv }
end

mutual
def dN : Node → Nat
  | .mk _ _ _ ch => 1 + dL ch
def dL : List Node → Nat
  | [] => 0
  | n :: ns => max (dN n) (dL ns)
end

def Ctr.add (a b : Ctr) : Ctr := { rv := a.rv + b.rv, pat := a.pat + b.pat, conv := a.conv + b.conv }

def runFinder (t : Tables) (roots : List Node) (path : List String) : Out :=
  let fuel := dL roots + 1
  let (ast, _) := genAst fuel roots [] 0 true {}
  match execL t { path := path } ast with
  | .fall _ => .ret none          -- final `return None`
  | o => o

/-- apply the converter chain of a complex node to its groups -/
def applyConvs (t : Tables) : List ConvUse → Nat → Dict → Dict → Option (Dict × Dict × Nat)
  | [], ci, groups, acc => some (acc, groups, ci)
  | cu :: rest, ci, groups, acc =>
    match Dict.pop groups cu.field with
    | none => none
    | some (v, g) =>
      match t.conv ci v with
      | none => none
      | some w => applyConvs t rest (ci + 1) g (acc ++ [(cu.field, w)])

/-- does `node` accept the segment at `level`, and with which params (spec side) -/
def matchNode (t : Tables) (node : Node) (path : List String) (level : Nat) (params : Dict) (c : Ctr) :
    Option (Dict × Bool) :=
  let seg := path[level]?.getD ""
  match node.kind with
  | .lit => if seg == node.raw then some (params, false) else none
  | .simple name none => some (Dict.set params name seg, false)
  | .simple name (some cu) =>
    let frag := if cu.multi then "/".intercalate (path.drop level) else seg
    (t.conv c.conv frag).map (fun v => (Dict.set params name v, cu.multi))
  | .complex _ convs nf =>
    match t.pmatch c.pat seg with
    | none => none
    | some g =>
      match applyConvs t convs c.conv g [] with
      | none => none
      | some (conv, remaining, _) =>
        -- fields without a converter are taken over from the remaining groups
        some (if convs.isEmpty || nf > convs.length then Dict.update (Dict.update params conv) remaining
              else Dict.update params conv, false)

def cInOf (node : Node) (c : Ctr) : Ctr :=
  { rv := c.rv + ownRv node, pat := c.pat + ownPat node, conv := c.conv + ownConv node }

-- The specification: plain depth-first walk, literal < complex < simple, backtracking.
mutual
def findSpec (fuel : Nat) (t : Tables) (nodes : List Node) (path : List String) (level : Nat)
    (params : Dict) (c : Ctr) : Option (Nat × Dict) :=
  match fuel with
  | 0 => none
  | fuel + 1 =>
    if path.length > level then findNodes fuel t (sortNodes nodes) path level params c else none
termination_by (fuel, 0, 0)

def findNodes (fuel : Nat) (t : Tables) (nodes : List Node) (path : List String) (level : Nat)
    (params : Dict) (c : Ctr) : Option (Nat × Dict) :=
  match nodes with
  | [] => none
  | node :: rest =>
    let here : Option (Nat × Dict) :=
      match matchNode t node path level params c with
      | none => none
      | some (ps, multi) =>
        match findSpec fuel t node.children path (level + 1) ps (cInOf node c) with
        | some r => some r
        | none =>
          if node.hasRoute && (multi || path.length == level + 1) then some (c.rv, ps) else none
    match here with
    | some r => some r
    | none => findNodes fuel t rest path level params (c.add (cntN node))
termination_by (fuel, 1, nodes.length)
end

def runSpec (t : Tables) (roots : List Node) (path : List String) : Option (Nat × Dict) :=
  let fuel := dL roots + 1
  findSpec fuel t roots path 0 [] {}
end Rt

import FalconModel.RouterInsert
import FalconModel.RouterExec
/-! C01: histories of `add_route` calls, and the bridge from the tree that `insert` builds (`Ri.Tree`, segments as
    records) to the tree the code generator consumes (`Rt.Node`, segments with their kind).  What Python derives from
    the raw text of a template segment is a table `k : segment id → (raw text, kind)`. -/
namespace Rh
open Ri

/-- one `add_route` call that reaches `insert`: the route id and the segment records of its template -/
abbrev Add := Nat × List Seg

/-- the tree after a history of calls (rejected ones included: whatever they leave behind stays) -/
def runH (fixed : Bool) : List Tree → List Add → List Tree
  | t, [] => t
  | t, a :: h => runH fixed (insert fixed a.1 a.2 t).1 h

/-- the sub-history of the calls that returned normally -/
def acceptedH (fixed : Bool) : List Tree → List Add → List Add
  | _, [] => []
  | t, a :: h =>
    if (insert fixed a.1 a.2 t).2 then a :: acceptedH fixed (insert fixed a.1 a.2 t).1 h
    else acceptedH fixed (insert fixed a.1 a.2 t).1 h

/-- every call of the history returns normally -/
def allOk (fixed : Bool) : List Tree → List Add → Bool
  | _, [] => true
  | t, a :: h => (insert fixed a.1 a.2 t).2 && allOk fixed (insert fixed a.1 a.2 t).1 h

mutual
/-- the node the code generator sees -/
def toNode (k : Nat → String × Rt.Kind) : Tree → Rt.Node
  | .node s r ch => .mk (k s.raw).1 (k s.raw).2 r.isSome (toNodes k ch)
def toNodes (k : Nat → String × Rt.Kind) : List Tree → List Rt.Node
  | [] => []
  | t :: ts => toNode k t :: toNodes k ts
end

/-! Well-formedness of the tree `insert` builds: sibling raw segments pairwise distinct (`insert` reuses the node whose
    raw segment `matches`), nodes whose converter consumes the rest of the path are leaves, and every node's segment
    record satisfies `P` (used to carry "the segment table is consistent for this segment"). -/
mutual
def WfT (P : Seg → Prop) : Tree → Prop
  | .node s _ ch => P s ∧ WfL P ch ∧ (s.cpc = true → ch = [])
def WfL (P : Seg → Prop) : List Tree → Prop
  | [] => True
  | t :: ts => WfT P t ∧ (∀ u ∈ ts, t.seg.raw ≠ u.seg.raw) ∧ WfL P ts
end

end Rh

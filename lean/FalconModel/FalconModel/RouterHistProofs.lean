import FalconModel.RouterHist
import FalconModel.RouterInsertProofs
import FalconModel.RouterProofs
/-! C01, histories: (1) rejected `add_route` calls can be removed from a history without changing the tree;
    (2) every tree built by `insert` is well-formed, so (3) `compile_correct` applies to the tree after ANY history. -/
namespace Rh
open Ri

/-! ### rejected calls are invisible (repaired code) -/

theorem history_rejected_removed : ∀ (h : List Add) (t : List Tree),
    runH true t h = runH true t (acceptedH true t h) := by
  intro h
  induction h with
  | nil => intro t; rfl
  | cons a h ih =>
    intro t
    cases hacc : (Ri.insert true a.1 a.2 t).2 with
    | true =>
      simp only [acceptedH, hacc, if_true, runH]
      exact ih _
    | false =>
      have hu := rejected_insert_unchanged a.1 a.2 t hacc
      simp only [acceptedH, hacc, Bool.false_eq_true, if_false, runH]
      rw [hu]
      exact ih t

theorem acceptedH_all_accepted : ∀ (h : List Add) (t : List Tree), allOk true t (acceptedH true t h) = true := by
  intro h
  induction h with
  | nil => intro t; rfl
  | cons a h ih =>
    intro t
    cases hacc : (Ri.insert true a.1 a.2 t).2 with
    | true =>
      simp only [acceptedH, hacc, if_true, allOk, Bool.true_and]
      exact ih _
    | false =>
      have hu := rejected_insert_unchanged a.1 a.2 t hacc
      simp only [acceptedH, hacc, Bool.false_eq_true, if_false]
      rw [hu]
      exact ih t

theorem acceptedH_of_allOk (fixed : Bool) : ∀ (h : List Add) (t : List Tree), allOk fixed t h = true → acceptedH fixed t h = h := by
  intro h
  induction h with
  | nil => intro t _; rfl
  | cons a h ih =>
    intro t hok
    simp only [allOk, Bool.and_eq_true] at hok
    simp only [acceptedH, hok.1, if_true]
    rw [ih _ hok.2]

theorem acceptedH_idem (h : List Add) (t : List Tree) :
    acceptedH true t (acceptedH true t h) = acceptedH true t h :=
  acceptedH_of_allOk true _ t (acceptedH_all_accepted h t)

/-! ### `insert` keeps the tree well-formed (pinned and repaired code alike) -/

theorem WfL_append (P : Seg → Prop) : ∀ (a b : List Tree),
    WfL P (a ++ b) ↔ (WfL P a ∧ WfL P b ∧ ∀ x ∈ a, ∀ y ∈ b, x.seg.raw ≠ y.seg.raw) := by
  intro a
  induction a with
  | nil => intro b; simp [WfL]
  | cons x xs ih =>
    intro b
    simp only [List.cons_append, WfL, ih b, List.mem_append, List.mem_cons]
    constructor
    · rintro ⟨hx, hd, hxs, hb, hxb⟩
      refine ⟨⟨hx, fun u hu => hd u (Or.inl hu), hxs⟩, hb, ?_⟩
      intro y hy z hz
      rcases hy with rfl | hy
      · exact hd z (Or.inr hz)
      · exact hxb y hy z hz
    · rintro ⟨⟨hx, hd, hxs⟩, hb, hxb⟩
      refine ⟨hx, ?_, hxs, hb, fun y hy z hz => hxb y (Or.inr hy) z hz⟩
      intro u hu
      rcases hu with hu | hu
      · exact hd u hu
      · exact hxb x (Or.inl rfl) u hu

theorem WfL_single (P : Seg → Prop) (x : Tree) : WfL P [x] ↔ WfT P x := by
  simp [WfL]

/-- replacing a node by one with the same segment record keeps the sibling list well-formed -/
theorem WfL_replace (P : Seg → Prop) (before after : List Tree) (x x' : Tree)
    (h : WfL P (before ++ [x] ++ after)) (hx' : WfT P x') (hseg : x'.seg = x.seg) :
    WfL P (before ++ [x'] ++ after) := by
  rw [WfL_append, WfL_append, WfL_single] at h ⊢
  obtain ⟨⟨hb, _, hbx⟩, ha, hba⟩ := h
  refine ⟨⟨hb, hx', ?_⟩, ha, ?_⟩
  · intro y hy z hz
    simp only [List.mem_singleton] at hz
    subst hz
    rw [hseg]
    exact hbx y hy x (by simp)
  · intro y hy z hz
    simp only [List.mem_append, List.mem_singleton] at hy
    rcases hy with hy | rfl
    · exact hba y (by simp [hy]) z hz
    · rw [hseg]
      exact hba x (by simp) z hz

theorem scan_found_raw (s : Seg) : ∀ (nodes acc before : List Tree) (hit : Tree) (after : List Tree),
    scan s nodes acc = .found before hit after → hit.seg.raw = s.raw := by
  intro nodes
  induction nodes with
  | nil => intro acc before hit after h; simp [scan] at h
  | cons t rest ih =>
    intro acc before hit after h
    unfold scan at h
    split at h
    · rename_i heq
      injection h with h1 h2 h3
      subst h2
      simpa using heq
    · split at h
      · cases h
      · exact ih _ before hit after h

theorem scan_none (s : Seg) : ∀ (nodes acc : List Tree), scan s nodes acc = .none → ∀ t ∈ nodes, t.seg.raw ≠ s.raw := by
  intro nodes
  induction nodes with
  | nil => intro acc _ t ht; simp at ht
  | cons x rest ih =>
    intro acc h t ht
    unfold scan at h
    split at h
    · cases h
    · rename_i hne
      split at h
      · cases h
      · rcases List.mem_cons.mp ht with rfl | ht
        · simpa using hne
        · exact ih _ h t ht

theorem WfL_snoc (P : Seg → Prop) (nodes : List Tree) (x : Tree) (h : WfL P nodes) (hx : WfT P x)
    (hd : ∀ t ∈ nodes, t.seg.raw ≠ x.seg.raw) : WfL P (nodes ++ [x]) := by
  rw [WfL_append, WfL_single]
  refine ⟨h, hx, ?_⟩
  intro y hy z hz
  simp only [List.mem_singleton] at hz
  subst hz
  exact hd y hy

/-- **`insert_wf`**: whatever `insert` does (return or raise, pinned or repaired), the node list stays well-formed -/
theorem insert_wf (P : Seg → Prop) (fixed : Bool) (route : Nat) : ∀ (path : List Seg) (nodes : List Tree),
    (∀ s ∈ path, P s) → WfL P nodes → WfL P (Ri.insert fixed route path nodes).1 := by
  intro path
  induction path with
  | nil => intro nodes _ h; simpa [Ri.insert] using h
  | cons s path ih =>
    intro nodes hP h
    have hPs : P s := hP s (by simp)
    have hPp : ∀ s' ∈ path, P s' := fun s' hs' => hP s' (by simp [hs'])
    unfold Ri.insert
    split
    · exact h
    · rename_i before ns nroute ch after hs
      have hnodes := scan_found s nodes [] before (.node ns nroute ch) after hs
      simp only [List.nil_append] at hnodes
      rw [hnodes] at h
      have hhit : WfT P (.node ns nroute ch) := by
        rw [WfL_append, WfL_append, WfL_single] at h
        exact h.1.2.1
      simp only [WfT] at hhit
      split
      · exact WfL_replace P before after _ _ h (by simp only [WfT]; exact hhit) rfl
      · split
        · rw [hnodes]; exact h
        · rename_i hc
          refine WfL_replace P before after _ _ h ?_ rfl
          simp only [WfT]
          refine ⟨hhit.1, ih ch hPp hhit.2.1, ?_⟩
          intro hcpc
          exact absurd hcpc hc
    · rename_i hs
      have hnone := scan_none s nodes [] hs
      split
      · exact h
      · split
        · refine WfL_snoc P nodes _ h ?_ (fun t ht => hnone t ht)
          simp only [WfT, WfL]
          exact ⟨hPs, trivial, fun _ => trivial⟩
        · split
          · exact h
          · rename_i hc
            have hch := ih [] hPp (by simp [WfL])
            have hnew : ∀ r, WfT P (.node s r (Ri.insert fixed route path []).1) := by
              intro r
              simp only [WfT]
              exact ⟨hPs, hch, fun hcpc => absurd hcpc hc⟩
            rcases hin : Ri.insert fixed route path [] with ⟨ch', ok⟩
            rw [hin] at hnew
            simp only at hnew ⊢
            cases ok with
            | true => exact WfL_snoc P nodes _ h (hnew none) (fun t ht => hnone t ht)
            | false =>
              cases fixed with
              | true => exact h
              | false => exact WfL_snoc P nodes _ h (hnew none) (fun t ht => hnone t ht)

theorem runH_wf (P : Seg → Prop) (fixed : Bool) : ∀ (h : List Add) (t : List Tree),
    (∀ a ∈ h, ∀ s ∈ a.2, P s) → WfL P t → WfL P (runH fixed t h) := by
  intro h
  induction h with
  | nil => intro t _ ht; exact ht
  | cons a h ih =>
    intro t hP ht
    simp only [runH]
    exact ih _ (fun b hb => hP b (by simp [hb])) (insert_wf P fixed a.1 a.2 t (hP a (by simp)) ht)

/-! ### bridge to the code generator's tree, and the end-to-end statement -/

/-- the segment table agrees with the segment record about "this converter consumes the rest of the path" -/
def Cons (k : Nat → String × Rt.Kind) (s : Seg) : Prop := Rt.kindMulti (k s.raw).2 = true → s.cpc = true

theorem toNodes_nil_iff (k : Nat → String × Rt.Kind) (ts : List Tree) : toNodes k ts = [] ↔ ts = [] := by
  cases ts <;> simp [toNodes]

theorem mem_toNodes (k : Nat → String × Rt.Kind) : ∀ (ts : List Tree) (m : Rt.Node), m ∈ toNodes k ts → ∃ u ∈ ts, m = toNode k u := by
  intro ts
  induction ts with
  | nil => intro m hm; simp [toNodes] at hm
  | cons t ts ih =>
    intro m hm
    simp only [toNodes, List.mem_cons] at hm
    rcases hm with rfl | hm
    · exact ⟨t, by simp, rfl⟩
    · obtain ⟨u, hu, rfl⟩ := ih m hm
      exact ⟨u, by simp [hu], rfl⟩

theorem toNode_raw (k : Nat → String × Rt.Kind) (t : Tree) : (toNode k t).raw = (k t.seg.raw).1 := by
  cases t; simp [toNode, Rt.Node.raw, Tree.seg]

mutual
theorem wfN_toNode (k : Nat → String × Rt.Kind) (hinj : ∀ a b, (k a).1 = (k b).1 → a = b) :
    ∀ (t : Tree), WfT (Cons k) t → Rt.wfN (toNode k t)
  | .node s r ch, h => by
    simp only [WfT] at h
    simp only [toNode, Rt.wfN]
    refine ⟨wfL_toNodes k hinj ch h.2.1, ?_⟩
    intro hm
    rw [h.2.2 (h.1 hm)]
    rfl
theorem wfL_toNodes (k : Nat → String × Rt.Kind) (hinj : ∀ a b, (k a).1 = (k b).1 → a = b) :
    ∀ (ts : List Tree), WfL (Cons k) ts → Rt.wfL (toNodes k ts)
  | [], _ => by simp [toNodes, Rt.wfL]
  | t :: ts, h => by
    simp only [WfL] at h
    simp only [toNodes, Rt.wfL]
    refine ⟨wfN_toNode k hinj t h.1, ?_, wfL_toNodes k hinj ts h.2.2⟩
    intro m hm _ _ heq
    obtain ⟨u, hu, rfl⟩ := mem_toNodes k ts m hm
    rw [toNode_raw, toNode_raw] at heq
    exact h.2.1 u hu (hinj _ _ heq)
end

/-- **END-TO-END**: after any history of `add_route` calls on the empty router (accepted or rejected, pinned or repaired
    `insert`), for every table of `re`/converter behaviour and every path, the generated finder returns exactly what
    the plain depth-first walk of the resulting tree returns. `hinj`: distinct segment ids have distinct raw texts;
    `hcons`: the table's "consumes the rest" flag agrees with the segment record; `hok`: `groupdict()` of a pattern
    contains the fields its converters pop. -/
theorem history_compile_correct (k : Nat → String × Rt.Kind) (hinj : ∀ a b, (k a).1 = (k b).1 → a = b)
    (fixed : Bool) (h : List Add) (hcons : ∀ a ∈ h, ∀ s ∈ a.2, Cons k s)
    (t : Rt.Tables) (path : List String)
    (hok : Rt.okSpec (Rt.dL (toNodes k (runH fixed [] h)) + 1) t (toNodes k (runH fixed [] h)) {}) :
    Rt.runFinder t (toNodes k (runH fixed [] h)) path = .ret (Rt.runSpec t (toNodes k (runH fixed [] h)) path) :=
  Rt.compile_correct t _ path (wfL_toNodes k hinj _ (runH_wf (Cons k) fixed h [] hcons (by simp [WfL]))) hok

/-- lookups after a history = lookups after the history with the rejected calls removed -/
theorem history_lookup_eq (k : Nat → String × Rt.Kind) (h : List Add) (t : Rt.Tables) (path : List String) :
    Rt.runFinder t (toNodes k (runH true [] h)) path = Rt.runFinder t (toNodes k (runH true [] (acceptedH true [] h))) path := by
  rw [← history_rejected_removed]

end Rh

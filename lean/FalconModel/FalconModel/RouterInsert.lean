/-! C01: `CompiledRouter.add_route` → `insert` as it mutates the tree, in two variants: the pinned code (which rolls back
    only the innermost new node, F01) and the repaired code (Appendix C: every newly created node is removed when a
    deeper segment is rejected). What Python derives from a template segment enters as a record (`Seg`), computed by
    the harness from `CompiledRouterNode(segment)`. -/
namespace Ri

structure Seg where
  raw : Nat            -- identity of the raw segment text (`matches` is equality of raw segments)
  isVar : Bool
  isComplex : Bool
  shape : Nat          -- identity of `_FIELD_PATTERN.sub('v', raw)`
  cpc : Bool           -- `find_cmp_converter(node)` is not None: a converter that consumes multiple segments
deriving DecidableEq, Repr

inductive Tree where
  | node (seg : Seg) (route : Option Nat) (children : List Tree)
deriving Repr

def Tree.seg : Tree → Seg | .node s _ _ => s

/-- `node.conflicts_with(segment)` -/
def conflicts (n s : Seg) : Bool :=
  if n.isVar then (if n.isComplex then s.isComplex && n.shape == s.shape else s.isVar && !s.isComplex) else false

/-- the outcome of the `for node in nodes` scan -/
inductive Scan where
  | found (before : List Tree) (hit : Tree) (after : List Tree)
  | conflict
  | none

def scan (s : Seg) : List Tree → List Tree → Scan
  | [], _ => .none
  | t :: rest, before =>
    if t.seg.raw == s.raw then .found before t rest
    else if conflicts t.seg s then .conflict
    else scan s rest (before ++ [t])

/-- `insert(nodes, path_index)`: returns the (possibly mutated) list and whether it returned normally.
    `fixed = false` is the pinned code, `fixed = true` the repaired one. -/
def insert (fixed : Bool) (route : Nat) : List Seg → List Tree → List Tree × Bool
  | [], nodes => (nodes, true)                       -- not reachable from add_route (templates have ≥ 1 segment)
  | s :: path, nodes =>
    match scan s nodes [] with
    | .conflict => (nodes, false)
    | .found before (.node ns nroute ch) after =>
      if path.isEmpty then (before ++ [.node ns (some route) ch] ++ after, true)      -- override the node's route
      else if ns.cpc then (nodes, false)
      else
        let (ch', ok) := insert fixed route path ch
        (before ++ [.node ns nroute ch'] ++ after, ok)       -- children were mutated in place, whatever happened
    | .none =>
      if s.isComplex && s.cpc then (nodes, false)            -- raised before `nodes.append(new_node)`
      else if path.isEmpty then (nodes ++ [.node s (some route) []], true)
      else if s.cpc then (nodes, false)                      -- appended, then removed again (the one rollback of the pinned code)
      else
        let (ch', ok) := insert fixed route path []
        if ok then (nodes ++ [.node s none ch'], true)
        else if fixed then (nodes, false)                    -- repaired: `nodes.remove(new_node); raise`
        else (nodes ++ [.node s none ch'], false)            -- pinned: the partially built branch stays

end Ri

import FalconModel.RouterInsert
/-! C01: a rejected `add_route` leaves the routing tree exactly as it was (repaired code); F01 witness (pinned code). -/
namespace Ri

theorem scan_found (s : Seg) : ∀ (nodes acc before : List Tree) (hit : Tree) (after : List Tree),
    scan s nodes acc = .found before hit after → acc ++ nodes = before ++ [hit] ++ after := by
  intro nodes
  induction nodes with
  | nil => intro acc before hit after h; simp [scan] at h
  | cons t rest ih =>
    intro acc before hit after h
    unfold scan at h
    split at h
    · injection h with h1 h2 h3
      subst h1 h2 h3; simp
    · split at h
      · cases h
      · have := ih (acc ++ [t]) before hit after h
        simpa using this

/-- **C01 `rejected_add_route_leaves_tree_unchanged`** (repaired code): whenever `insert` raises, the list of nodes it
    was given — and hence, by the same statement one level up, the whole tree — is what it was before the call -/
theorem rejected_insert_unchanged (route : Nat) : ∀ (path : List Seg) (nodes : List Tree),
    (insert true route path nodes).2 = false → (insert true route path nodes).1 = nodes := by
  intro path
  induction path with
  | nil => intro nodes h; simp [insert] at h
  | cons s path ih =>
    intro nodes h
    unfold insert at h ⊢
    split at h
    · -- conflict: raised during the scan, nothing touched
      rename_i hs; simp only [hs]
    · rename_i before ns nroute ch after hs
      simp only [hs] at h ⊢
      have hnodes := scan_found s nodes [] before (.node ns nroute ch) after hs
      simp only [List.nil_append] at hnodes
      split at h
      · simp at h
      · rename_i hne
        simp only [hne, Bool.false_eq_true, if_false] at h ⊢
        split at h
        · rename_i hc; simp only [hc, if_true]
        · rename_i hc
          simp only [hc, Bool.false_eq_true, if_false] at h ⊢
          have hch := ih ch h
          rw [hch, ← hnodes]
    · rename_i hs
      simp only [hs] at h ⊢
      split at h
      · rename_i hcx; simp only [hcx, if_true]
      · rename_i hcx
        simp only [hcx, Bool.false_eq_true, if_false] at h ⊢
        split at h
        · simp at h
        · rename_i hne
          simp only [hne, Bool.false_eq_true, if_false] at h ⊢
          split at h
          · rename_i hc; simp only [hc, if_true]
          · rename_i hc
            simp only [hc, Bool.false_eq_true, if_false] at h ⊢
            rcases hin : insert true route path [] with ⟨ch', ok⟩
            rw [hin] at h
            simp only at h ⊢
            cases ok with
            | true => simp at h
            | false => simp

#print axioms rejected_insert_unchanged

/-! ### F01 on the pinned code -/
mutual
def Tree.count : Tree → Nat
  | .node _ _ ch => 1 + countL ch
def countL : List Tree → Nat
  | [] => 0
  | t :: rest => t.count + countL rest
end

/-- `add_route('/{x}/{y:path}/z')` on an empty router: rejected (a path converter must be last), yet the pinned code
    leaves the node `{x}` behind; the repaired code leaves nothing -/
theorem f01_witness :
    let x : Seg := { raw := 1, isVar := true, isComplex := false, shape := 1, cpc := false }
    let y : Seg := { raw := 2, isVar := true, isComplex := false, shape := 2, cpc := true }
    let z : Seg := { raw := 3, isVar := false, isComplex := false, shape := 3, cpc := false }
    (insert false 0 [x, y, z] []).2 = false ∧ countL (insert false 0 [x, y, z] []).1 = 1 ∧
    (insert true 0 [x, y, z] []).2 = false ∧ countL (insert true 0 [x, y, z] []).1 = 0 := by decide
end Ri

import FalconModel.RouterTemplate
/-! C01: the `compile` flag and the lazy-compile switch of `CompiledRouter`.

    `self._find` is either the bound method `_compile_and_find` (state `compiled = none`) or the function returned by
    `_compile()`.  Everything `_compile()` produces — the finder source, `_return_values`, `_patterns`, `_converters` — is a
    function of `self._roots` at that moment, so the compiled state is represented by the tree it was compiled from
    (`compiled = some snapshot`): a lookup through a compiled finder is `Rt.runFinder` on the SNAPSHOT (with the tables of the
    snapshot), not on the current tree.  `add_route` resets `_find` only after `insert()` returned; when validation or
    `insert()` raises, `_find` stays what it was. -/
namespace Rl
open Ri Rh

structure Router where
  roots : List Tree := []
  compiled : Option (List Tree) := none

/-- the part of `add_route` after validation: `insert(self._roots)`, then
    `self._find = self._compile() if kwargs.get('compile', False) else self._compile_and_find` -/
def addSegs (r : Router) (route : Nat) (segs : List Seg) (flag : Bool) : Router × Bool :=
  let res := insert true route segs r.roots
  if res.2 then ({ roots := res.1, compiled := if flag then some res.1 else none }, true)
  else ({ r with roots := res.1 }, false)          -- `insert` raised: the assignment to `_find` is not reached

def addRoute (cenv : Rv.Cenv) (r : Router) (route : Nat) (tmpl : Rv.Str) (flag : Bool) : Router × Rv.Verdict :=
  match Rv.validate cenv tmpl with
  | .error k => (r, .rej k)
  | .ok recs =>
    let res := addSegs r route (recs.map Rv.toSeg) flag
    (res.1, if res.2 then .ok else .rejInsert)

/-- `find`: `self._find(path, …)`; `_compile_and_find` compiles first if `_find` is still itself.
    `k` is the segment table, `tb tree` the `re`/converter behaviour of the objects `_compile()` collects from `tree`. -/
def find (k : Nat → String × Rt.Kind) (tb : List Tree → Rt.Tables) (r : Router) (path : List String) : Router × Rt.Out :=
  match r.compiled with
  | some snap => (r, Rt.runFinder (tb snap) (toNodes k snap) path)
  | none => ({ r with compiled := some r.roots }, Rt.runFinder (tb r.roots) (toNodes k r.roots) path)

inductive Op where
  | add (route : Nat) (tmpl : Rv.Str) (flag : Bool)
  | find (path : List String)

/-- a history of calls; the outputs of its lookups, in order -/
def run (cenv : Rv.Cenv) (tb : List Tree → Rt.Tables) : Router → List Op → Router × List Rt.Out
  | r, [] => (r, [])
  | r, .add route tmpl flag :: ops => run cenv tb (addRoute cenv r route tmpl flag).1 ops
  | r, .find path :: ops =>
    let f := find (Rv.kOf cenv) tb r path
    let rest := run cenv tb f.1 ops
    (rest.1, f.2 :: rest.2)

/-- the reference: no compiled state, no flag; every lookup is the depth-first walk of the tree at that moment -/
def runRef (cenv : Rv.Cenv) (tb : List Tree → Rt.Tables) : List Tree → List Op → List (Option (Nat × Rt.Dict))
  | _, [] => []
  | t, .add route tmpl _ :: ops => runRef cenv tb (Rv.addRoute cenv route tmpl t).1 ops
  | t, .find path :: ops => Rt.runSpec (tb t) (toNodes (Rv.kOf cenv) t) path :: runRef cenv tb t ops

/-- the `add_route` calls of a history, flags erased -/
def callsOf : List Op → List Rv.Call
  | [] => []
  | .add route tmpl _ :: ops => (route, tmpl) :: callsOf ops
  | .find _ :: ops => callsOf ops

end Rl

import FalconModel.RouterLazy
import FalconModel.RouterTemplateHistProofs
/-! C01: the `compile` flag and the lazy-compile switch are invisible — every lookup of every history returns the
    depth-first walk of the tree at that moment. -/
namespace Rl
open Ri Rh

/-- a compiled finder is never stale: it was compiled from the current tree -/
def Inv (r : Router) : Prop := ∀ s, r.compiled = some s → s = r.roots

theorem inv_empty : Inv {} := by intro s h; cases h

theorem addSegs_roots (r : Router) (route : Nat) (segs : List Seg) (flag : Bool) :
    (addSegs r route segs flag).1.roots = (insert true route segs r.roots).1 := by
  cases hi : (insert true route segs r.roots).2 <;> simp [addSegs, hi]

/-- uses `rejected_insert_unchanged`: when `insert` raises, `_find` is NOT reset — it stays valid only because the
    repaired `insert` leaves the tree as it was -/
theorem addSegs_inv (r : Router) (route : Nat) (segs : List Seg) (flag : Bool) (h : Inv r) :
    Inv (addSegs r route segs flag).1 := by
  cases hi : (insert true route segs r.roots).2 with
  | true =>
    intro s hs
    cases flag with
    | true => simp only [addSegs, hi, if_true, Option.some.injEq] at hs ⊢; exact hs.symm
    | false => simp [addSegs, hi] at hs
  | false =>
    have hu := rejected_insert_unchanged route segs r.roots hi
    intro s hs
    simp only [addSegs, hi, Bool.false_eq_true, if_false] at hs ⊢
    rw [hu]
    exact h s hs

theorem addRoute_roots (cenv : Rv.Cenv) (r : Router) (route : Nat) (t : Rv.Str) (flag : Bool) :
    (addRoute cenv r route t flag).1.roots = (Rv.addRoute cenv route t r.roots).1 := by
  cases hv : Rv.validate cenv t with
  | error k => simp only [addRoute, Rv.addRoute, hv]
  | ok recs =>
    simp only [addRoute, Rv.addRoute, hv]
    exact addSegs_roots _ _ _ _

theorem addRoute_inv (cenv : Rv.Cenv) (r : Router) (route : Nat) (t : Rv.Str) (flag : Bool) (h : Inv r) :
    Inv (addRoute cenv r route t flag).1 := by
  cases hv : Rv.validate cenv t with
  | error k => simp only [addRoute, hv]; exact h
  | ok recs =>
    simp only [addRoute, hv]
    exact addSegs_inv _ _ _ _ h

theorem find_roots (k : Nat → String × Rt.Kind) (tb : List Tree → Rt.Tables) (r : Router) (path : List String) :
    (find k tb r path).1.roots = r.roots := by
  unfold find
  split <;> rfl

theorem find_inv (k : Nat → String × Rt.Kind) (tb : List Tree → Rt.Tables) (r : Router) (path : List String) (h : Inv r) :
    Inv (find k tb r path).1 := by
  unfold find
  split
  · exact h
  · intro s hs
    simp only [Option.some.injEq] at hs
    exact hs.symm

/-- a lookup through whatever `_find` currently is = the finder generated from the CURRENT tree -/
theorem find_out (k : Nat → String × Rt.Kind) (tb : List Tree → Rt.Tables) (r : Router) (path : List String) (h : Inv r) :
    (find k tb r path).2 = Rt.runFinder (tb r.roots) (toNodes k r.roots) path := by
  unfold find
  split
  · rename_i snap hs
    rw [h snap hs]
  · rfl

/-- the history run without any compiled state: every lookup regenerates the finder from the current tree -/
def runEager (cenv : Rv.Cenv) (tb : List Tree → Rt.Tables) : List Tree → List Op → List Rt.Out
  | _, [] => []
  | t, .add route tmpl _ :: ops => runEager cenv tb (Rv.addRoute cenv route tmpl t).1 ops
  | t, .find path :: ops => Rt.runFinder (tb t) (toNodes (Rv.kOf cenv) t) path :: runEager cenv tb t ops

theorem run_eq_eager (cenv : Rv.Cenv) (tb : List Tree → Rt.Tables) : ∀ (ops : List Op) (r : Router), Inv r →
    (run cenv tb r ops).2 = runEager cenv tb r.roots ops := by
  intro ops
  induction ops with
  | nil => intro r _; rfl
  | cons op ops ih =>
    intro r h
    cases op with
    | add route tmpl flag =>
      simp only [run, runEager]
      rw [ih _ (addRoute_inv cenv r route tmpl flag h), addRoute_roots]
    | find path =>
      simp only [run, runEager]
      rw [ih _ (find_inv _ tb r path h), find_roots, find_out _ tb r path h]

/-- the tree after a history, whatever its flags and lookups -/
theorem run_roots (cenv : Rv.Cenv) (tb : List Tree → Rt.Tables) : ∀ (ops : List Op) (r : Router),
    (run cenv tb r ops).1.roots = Rv.runT cenv r.roots (callsOf ops) := by
  intro ops
  induction ops with
  | nil => intro r; rfl
  | cons op ops ih =>
    intro r
    cases op with
    | add route tmpl flag =>
      simp only [run, callsOf, Rv.runT]
      rw [ih, addRoute_roots]
    | find path =>
      simp only [run, callsOf]
      rw [ih, find_roots]

theorem addRoute_wf (cenv : Rv.Cenv) (route : Nat) (tmpl : Rv.Str) (t : List Tree) (h : WfL (Rv.FromText cenv) t) :
    WfL (Rv.FromText cenv) (Rv.addRoute cenv route tmpl t).1 := by
  unfold Rv.addRoute
  split
  · exact h
  · rename_i recs hv
    refine insert_wf (Rv.FromText cenv) true route _ t ?_ h
    intro s hs
    obtain ⟨_, hr, _⟩ := Rv.validate_ok cenv _ _ hv
    simp only [List.mem_map] at hs
    obtain ⟨r, hr', rfl⟩ := hs
    rw [hr] at hr'
    simp only [List.mem_map] at hr'
    obtain ⟨raw, _, rfl⟩ := hr'
    exact ⟨raw, rfl⟩

theorem eager_eq_ref (cenv : Rv.Cenv) (tb : List Tree → Rt.Tables)
    (hok : ∀ tr, Rt.okSpec (Rt.dL (toNodes (Rv.kOf cenv) tr) + 1) (tb tr) (toNodes (Rv.kOf cenv) tr) {}) :
    ∀ (ops : List Op) (t : List Tree), WfL (Rv.FromText cenv) t →
      runEager cenv tb t ops = (runRef cenv tb t ops).map .ret := by
  intro ops
  induction ops with
  | nil => intro t _; rfl
  | cons op ops ih =>
    intro t h
    cases op with
    | add route tmpl flag =>
      simp only [runEager, runRef]
      exact ih _ (addRoute_wf cenv route tmpl t h)
    | find path =>
      simp only [runEager, runRef, List.map_cons]
      rw [ih t h]
      congr 1
      exact Rt.compile_correct (tb t) _ path
        (Rv.wfL_toNodes_on (Rv.kOf cenv) (Rv.FromText cenv) (Rv.kOf_inj_on cenv) (Rv.cons_of_fromText cenv) t h) (hok t)

/-- **`compile_flag_irrelevant`**: for every converter environment, every history of `add_route(template, compile=flag)`
    calls with arbitrary flags (accepted, rejected by the validation, rejected inside `insert`) and interleaved lookups on
    the lazily-compiling router, every lookup returns exactly what the plain depth-first walk returns on the tree at that
    moment — `runRef` has no compiled state and never looks at a flag.  `hok`: `groupdict()` of every pattern contains the
    fields its converters pop (as in `compile_correct`). -/
theorem compile_flag_irrelevant (cenv : Rv.Cenv) (tb : List Tree → Rt.Tables)
    (hok : ∀ tr, Rt.okSpec (Rt.dL (toNodes (Rv.kOf cenv) tr) + 1) (tb tr) (toNodes (Rv.kOf cenv) tr) {})
    (ops : List Op) :
    (run cenv tb {} ops).2 = (runRef cenv tb [] ops).map .ret := by
  rw [run_eq_eager cenv tb ops {} inv_empty]
  exact eager_eq_ref cenv tb hok ops [] (by simp [WfL])

/-- all flags of a history set to `b` -/
def setFlags (b : Bool) : List Op → List Op
  | [] => []
  | .add route tmpl _ :: ops => .add route tmpl b :: setFlags b ops
  | .find path :: ops => .find path :: setFlags b ops

theorem runEager_setFlags (cenv : Rv.Cenv) (tb : List Tree → Rt.Tables) (b : Bool) : ∀ (ops : List Op) (t : List Tree),
    runEager cenv tb t (setFlags b ops) = runEager cenv tb t ops := by
  intro ops
  induction ops with
  | nil => intro t; rfl
  | cons op ops ih =>
    intro t
    cases op with
    | add route tmpl flag => simp only [setFlags, runEager]; exact ih _
    | find path => simp only [setFlags, runEager]; rw [ih]

/-- the same history with every flag replaced by `b` (always compile at once / never) gives the same lookup results —
    no hypothesis on the tables at all -/
theorem flags_do_not_matter (cenv : Rv.Cenv) (tb : List Tree → Rt.Tables) (b : Bool) (ops : List Op) :
    (run cenv tb {} (setFlags b ops)).2 = (run cenv tb {} ops).2 := by
  rw [run_eq_eager cenv tb _ {} inv_empty, run_eq_eager cenv tb _ {} inv_empty]
  exact runEager_setFlags cenv tb b ops []

/-! ### the hypothesis is satisfiable, and a concrete history -/

theorem ok_of_pmatch_none (t : Rt.Tables) (hp : ∀ i s, t.pmatch i s = none) :
    ∀ fuel, (∀ nodes c, Rt.okSpec fuel t nodes c) ∧ (∀ nodes c, Rt.okNodes fuel t nodes c) := by
  have hnode : ∀ node c, Rt.okNode t node c := by
    intro node c text convs nf seg g _ hm
    rw [hp] at hm
    cases hm
  have hnodes : ∀ fuel, (∀ nodes c, Rt.okSpec fuel t nodes c) → ∀ nodes c, Rt.okNodes fuel t nodes c := by
    intro fuel hs nodes
    induction nodes with
    | nil => intro c; unfold Rt.okNodes; trivial
    | cons n ns ih => intro c; unfold Rt.okNodes; exact ⟨hnode n c, hs _ _, ih _⟩
  intro fuel
  induction fuel with
  | zero =>
    have h0 : ∀ nodes c, Rt.okSpec 0 t nodes c := by intro nodes c; unfold Rt.okSpec; trivial
    exact ⟨h0, hnodes 0 h0⟩
  | succ f ih =>
    have hs : ∀ nodes c, Rt.okSpec (f + 1) t nodes c := by intro nodes c; unfold Rt.okSpec; exact ih.2 _ _
    exact ⟨hs, hnodes (f + 1) hs⟩

/-- a table in which `int` accepts digit strings, `path` accepts everything, no multi-field pattern matches -/
def tb0 : List Tree → Rt.Tables := fun _ =>
  { pmatch := fun _ _ => none,
    conv := fun _ s => if s.toList.all Char.isDigit && !s.isEmpty then some s else none }

theorem tb0_ok : ∀ tr, Rt.okSpec (Rt.dL (toNodes (Rv.kOf Rv.cenv0) tr) + 1) (tb0 tr) (toNodes (Rv.kOf Rv.cenv0) tr) {} :=
  fun _ => (ok_of_pmatch_none _ (fun _ _ => rfl) _).1 _ _

/-- lookups before the first route, a flagged and an unflagged accepted call, a call rejected by the validation and one
    rejected inside `insert` (both between lookups, i.e. while a compiled finder is installed), lookups after each -/
def ops0 : List Op := [
  .find ["a"],
  .add 0 "/a".toList true,
  .find ["a"],
  .add 1 "/a/{x:int}".toList false,
  .find ["a", "12"],
  .add 2 "/a/{x}/{x}".toList true,
  .add 3 "/a/{y}".toList true,
  .find ["a", "12"],
  .find ["a", "q"]]

/-- per call: the verdict of an `add_route`, and whether a compiled finder is installed afterwards -/
def stateTrace (cenv : Rv.Cenv) (tb : List Tree → Rt.Tables) : Router → List Op → List (Option Rv.Verdict × Bool)
  | _, [] => []
  | r, .add route tmpl flag :: ops =>
    let a := addRoute cenv r route tmpl flag
    (some a.2, a.1.compiled.isSome) :: stateTrace cenv tb a.1 ops
  | r, .find path :: ops =>
    let f := find (Rv.kOf cenv) tb r path
    (none, f.1.compiled.isSome) :: stateTrace cenv tb f.1 ops

/-- the switch at work: the first lookup compiles; `compile=True` compiles at once; an accepted call without the flag
    resets; the two rejected calls leave the installed finder alone -/
example : stateTrace Rv.cenv0 tb0 {} ops0 =
    [(none, true), (some .ok, true), (none, true), (some .ok, false), (none, true),
     (some (.rej .duplicate), true), (some .rejInsert, true), (none, true), (none, true)] := by decide

/-- `compile_flag_irrelevant` applies to this history and table -/
example : (run Rv.cenv0 tb0 {} ops0).2 = (runRef Rv.cenv0 tb0 [] ops0).map .ret :=
  compile_flag_irrelevant Rv.cenv0 tb0 tb0_ok ops0
end Rl

import FalconModel.RouterProofs
/-! C01: the four precedence clauses of the statement, as corollaries of the depth-first walk `Rt.findSpec` (which
    `compile_correct` proves the generated finder equal to): literal before multi-field before single-field children;
    backtracking with the params of the abandoned branch discarded; a converter may veto; a trailing path converter
    swallows the rest of the path.  Each clause comes with a concrete tree evaluated by `simp`. -/
namespace Rt

/-- what one child contributes at `level`: accept the segment, then descend, else return its own route if the path ends
    here (or the node swallowed the rest) -/
def hereOf (fuel : Nat) (t : Tables) (node : Node) (path : List String) (level : Nat) (params : Dict) (c : Ctr) :
    Option (Nat × Dict) :=
  match matchNode t node path level params c with
  | none => none
  | some (ps, multi) =>
    match findSpec fuel t node.children path (level + 1) ps (cInOf node c) with
    | some r => some r
    | none => if node.hasRoute && (multi || path.length == level + 1) then some (c.rv, ps) else none

theorem findNodes_cons (fuel : Nat) (t : Tables) (n : Node) (rest : List Node) (path : List String) (level : Nat)
    (ps : Dict) (c : Ctr) :
    findNodes fuel t (n :: rest) path level ps c =
      match hereOf fuel t n path level ps c with
      | some r => some r
      | none => findNodes fuel t rest path level ps (c.add (cntN n)) := by
  rw [findNodes]
  unfold hereOf
  rfl

theorem findNodes_nil (fuel : Nat) (t : Tables) (path : List String) (level : Nat) (ps : Dict) (c : Ctr) :
    findNodes fuel t [] path level ps c = none := by
  rw [findNodes]

theorem findSpec_nil (fuel : Nat) (t : Tables) (path : List String) (level : Nat) (ps : Dict) (c : Ctr) :
    findSpec fuel t [] path level ps c = none := by
  cases fuel with
  | zero => rw [findSpec]
  | succ f =>
    rw [findSpec]
    split
    · simp [sortNodes, findNodes_nil]
    · rfl

theorem findSpec_succ (fuel : Nat) (t : Tables) (ns : List Node) (path : List String) (level : Nat) (ps : Dict) (c : Ctr)
    (h : level < path.length) :
    findSpec (fuel + 1) t ns path level ps c = findNodes fuel t (sortNodes ns) path level ps c := by
  rw [findSpec]
  simp [h]

/-- every child in `pre` fails (each with the counters the walk has when it reaches it) -/
def SkipAll (fuel : Nat) (t : Tables) (path : List String) (level : Nat) (ps : Dict) : List Node → Ctr → Prop
  | [], _ => True
  | m :: r, c => hereOf fuel t m path level ps c = none ∧ SkipAll fuel t path level ps r (c.add (cntN m))

/-- **first success wins, in list order**; the children that failed leave no trace in the params -/
theorem findNodes_skip (fuel : Nat) (t : Tables) (path : List String) (level : Nat) (ps : Dict) :
    ∀ (pre rest : List Node) (c : Ctr), SkipAll fuel t path level ps pre c →
      findNodes fuel t (pre ++ rest) path level ps c = findNodes fuel t rest path level ps (c.add (cntL pre)) := by
  intro pre
  induction pre with
  | nil =>
    intro rest c _
    have : c.add (cntL []) = c := by simp [cntL, Ctr.add]
    rw [this]; rfl
  | cons m r ih =>
    intro rest c h
    obtain ⟨h1, h2⟩ := h
    rw [List.cons_append, findNodes_cons, h1]
    simp only
    rw [ih rest _ h2]
    congr 1
    simp only [cntL, Ctr.add]
    simp only [Nat.add_assoc]

theorem findNodes_first (fuel : Nat) (t : Tables) (path : List String) (level : Nat) (ps : Dict)
    (pre : List Node) (n : Node) (post : List Node) (c : Ctr) (r : Nat × Dict)
    (hpre : SkipAll fuel t path level ps pre c)
    (hn : hereOf fuel t n path level ps (c.add (cntL pre)) = some r) :
    findNodes fuel t (pre ++ n :: post) path level ps c = some r := by
  rw [findNodes_skip fuel t path level ps pre _ c hpre, findNodes_cons, hn]

/-- a literal child whose text differs from the segment fails, whatever the counters -/
theorem hereOf_lit_ne (fuel : Nat) (t : Tables) (m : Node) (path : List String) (level : Nat) (ps : Dict) (c : Ctr)
    (hk : sortKey m = 0) (hne : m.raw ≠ path[level]?.getD "") : hereOf fuel t m path level ps c = none := by
  have hlit : m.kind = .lit := (isLit_kind m).mp (by simp [isLit, hk])
  unfold hereOf matchNode
  simp only [hlit]
  rw [if_neg]
  intro h
  have h' : path[level]?.getD "" = m.raw := by simpa using h
  exact hne h'.symm

theorem skipAll_lits (fuel : Nat) (t : Tables) (path : List String) (level : Nat) (ps : Dict) :
    ∀ (l : List Node) (c : Ctr), (∀ m ∈ l, sortKey m = 0 ∧ m.raw ≠ path[level]?.getD "") →
      SkipAll fuel t path level ps l c := by
  intro l
  induction l with
  | nil => intro c _; trivial
  | cons m r ih =>
    intro c h
    exact ⟨hereOf_lit_ne fuel t m path level ps c (h m (by simp)).1 (h m (by simp)).2,
      ih _ (fun x hx => h x (by simp [hx]))⟩

theorem filter_key_of_mem {ns l1 l2 : List Node} {n : Node} {k : Nat} (h : ns.filter (sortKey · == k) = l1 ++ n :: l2) :
    ∀ m ∈ l1, sortKey m = k := by
  intro m hm
  have : m ∈ ns.filter (sortKey · == k) := by rw [h]; simp [hm]
  simpa using (List.mem_filter.mp this).2

/-- **literal before fields**: if, among the literal children (in insertion order), the ones before `n` differ from the
    segment and the walk through `n` succeeds with `r`, the lookup returns `r` — multi-field and single-field siblings
    are never consulted, whatever they would match -/
theorem precedence_literal_first (fuel : Nat) (t : Tables) (ns : List Node) (path : List String) (level : Nat) (ps : Dict)
    (c : Ctr) (l1 l2 : List Node) (n : Node) (r : Nat × Dict) (hlen : level < path.length)
    (hsplit : ns.filter (sortKey · == 0) = l1 ++ n :: l2)
    (hl1 : ∀ m ∈ l1, m.raw ≠ path[level]?.getD "")
    (hn : hereOf fuel t n path level ps (c.add (cntL l1)) = some r) :
    findSpec (fuel + 1) t ns path level ps c = some r := by
  rw [findSpec_succ _ _ _ _ _ _ _ hlen]
  unfold sortNodes
  rw [hsplit, List.append_assoc, List.append_assoc]
  exact findNodes_first fuel t path level ps l1 n _ c r
    (skipAll_lits fuel t path level ps l1 c (fun m hm => ⟨filter_key_of_mem hsplit m hm, hl1 m hm⟩)) hn

/-- **multi-field before single-field**: if no literal child equals the segment, the multi-field children before `n`
    fail and the walk through the multi-field child `n` succeeds with `r`, the lookup returns `r` — the single-field
    sibling is never consulted, although it accepts every segment -/
theorem precedence_complex_before_simple (fuel : Nat) (t : Tables) (ns : List Node) (path : List String) (level : Nat)
    (ps : Dict) (c : Ctr) (c1 c2 : List Node) (n : Node) (r : Nat × Dict) (hlen : level < path.length)
    (hlits : ∀ m ∈ ns.filter (sortKey · == 0), m.raw ≠ path[level]?.getD "")
    (hsplit : ns.filter (sortKey · == 1) = c1 ++ n :: c2)
    (hc1 : SkipAll fuel t path level ps c1 (c.add (cntL (ns.filter (sortKey · == 0)))))
    (hn : hereOf fuel t n path level ps ((c.add (cntL (ns.filter (sortKey · == 0)))).add (cntL c1)) = some r) :
    findSpec (fuel + 1) t ns path level ps c = some r := by
  rw [findSpec_succ _ _ _ _ _ _ _ hlen]
  unfold sortNodes
  rw [List.append_assoc, findNodes_skip fuel t path level ps _ _ c
    (skipAll_lits fuel t path level ps _ c (fun m hm => ⟨by simpa using (List.mem_filter.mp hm).2, hlits m hm⟩))]
  rw [hsplit, List.append_assoc]
  exact findNodes_first fuel t path level ps c1 n _ _ r hc1 hn

/-- **backtracking**: a child that accepted the segment (`matchNode = some (ps', multi)`) but whose subtree fails and which
    cannot answer itself is abandoned: the walk goes on with the next sibling and the ORIGINAL params `ps` — nothing of
    `ps'` (the fields bound in the abandoned branch) survives -/
theorem backtracks (fuel : Nat) (t : Tables) (n : Node) (rest : List Node) (path : List String) (level : Nat)
    (ps ps' : Dict) (multi : Bool) (c : Ctr)
    (hm : matchNode t n path level ps c = some (ps', multi))
    (hsub : findSpec fuel t n.children path (level + 1) ps' (cInOf n c) = none)
    (hno : (n.hasRoute && (multi || path.length == level + 1)) = false) :
    findNodes fuel t (n :: rest) path level ps c = findNodes fuel t rest path level ps (c.add (cntN n)) := by
  rw [findNodes_cons]
  unfold hereOf
  simp only [hm, hsub, hno]
  rfl

/-- **converter veto**, single-field child: if `convert()` returns `None` the child does not match, whatever its subtree -/
theorem converter_veto_simple (fuel : Nat) (t : Tables) (n : Node) (rest : List Node) (path : List String) (level : Nat)
    (ps : Dict) (c : Ctr) (name : String) (cu : ConvUse) (hk : n.kind = .simple name (some cu))
    (hv : t.conv c.conv (if cu.multi then "/".intercalate (path.drop level) else path[level]?.getD "") = none) :
    findNodes fuel t (n :: rest) path level ps c = findNodes fuel t rest path level ps (c.add (cntN n)) := by
  rw [findNodes_cons]
  unfold hereOf matchNode
  simp only [hk, hv, Option.map_none]

/-- **converter veto**, multi-field child: the pattern matched, but one converter of the chain returned `None` -/
theorem converter_veto_complex (fuel : Nat) (t : Tables) (n : Node) (rest : List Node) (path : List String) (level : Nat)
    (ps : Dict) (c : Ctr) (text : String) (convs : List ConvUse) (nf : Nat) (g : Dict)
    (hk : n.kind = .complex text convs nf) (hp : t.pmatch c.pat (path[level]?.getD "") = some g)
    (hv : applyConvs t convs c.conv g [] = none) :
    findNodes fuel t (n :: rest) path level ps c = findNodes fuel t rest path level ps (c.add (cntN n)) := by
  rw [findNodes_cons]
  unfold hereOf matchNode
  simp only [hk, hp, hv]

/-- **a trailing path converter swallows the rest**: a route-carrying leaf whose converter consumes multiple segments
    answers with the converted remainder of the path, however many segments are left -/
theorem path_converter_swallows_rest (fuel : Nat) (t : Tables) (n : Node) (rest : List Node) (path : List String)
    (level : Nat) (ps : Dict) (c : Ctr) (name : String) (cu : ConvUse) (v : String)
    (hk : n.kind = .simple name (some cu)) (hmulti : cu.multi = true) (hroute : n.hasRoute = true)
    (hleaf : n.children = [])
    (hv : t.conv c.conv ("/".intercalate (path.drop level)) = some v) :
    findNodes fuel t (n :: rest) path level ps c = some (c.rv, Dict.set ps name v) := by
  rw [findNodes_cons]
  unfold hereOf matchNode
  simp only [hk, hmulti, if_true, hv, Option.map_some, hleaf, findSpec_nil, hroute, Bool.true_or, Bool.and_self]

/-! ### concrete trees (evaluated) -/

/-- `re`: `{a}-{b}` matches "1-2" and "1-q"; converters: `int` accepts digit strings -/
def tblA : Tables :=
  { pmatch := fun _ s => if s == "1-2" then some [("a", "1"), ("b", "2")]
                         else if s == "1-q" then some [("a", "1"), ("b", "q")] else none,
    conv := fun _ s => if s.toList.all Char.isDigit && !s.isEmpty then some s else none }

/-- a path converter: accepts every remainder -/
def tblP : Tables := { pmatch := fun _ _ => none, conv := fun _ s => some s }

def nX (route : Bool) (ch : List Node) : Node := .mk "{x}" (.simple "x" none) route ch
def nAB (route : Bool) (ch : List Node) : Node := .mk "{a}-{b}" (.complex "^(?P<a>.+)\\-(?P<b>.+)$" [] 2) route ch
def nABint (route : Bool) (ch : List Node) : Node :=
  .mk "{a}-{b:int}" (.complex "^(?P<a>.+)\\-(?P<b>.+)$" [{ field := "b", multi := false }] 2) route ch
def nLit (s : String) (route : Bool) (ch : List Node) : Node := .mk s .lit route ch
def nPath : Node := .mk "{p:path}" (.simple "p" (some { field := "p", multi := true })) true []

macro "route_eval" : tactic => `(tactic| simp [runSpec, dL, dN, findSpec, findNodes, matchNode, applyConvs, sortNodes, sortKey,
  Node.kind, Node.raw, Node.children, Node.hasRoute, cInOf, ownRv, ownPat, ownConv, Ctr.add, cntN, cntL, Dict.set, Dict.update,
  Dict.pop, nX, nAB, nABint, nLit, nPath, tblA, tblP])

/-- literal first: `/{x}`, `/{a}-{b}`, `/1-2` (inserted in that order) all accept "1-2"; the literal's route answers -/
example : runSpec tblA [nX true [], nAB true [], nLit "1-2" true []] ["1-2"] = some (0, []) := by route_eval
/-- multi-field before single-field: without the literal, `{a}-{b}` answers, not `{x}` -/
example : runSpec tblA [nX true [], nAB true []] ["1-2"] = some (0, [("a", "1"), ("b", "2")]) := by route_eval
/-- the single-field child answers when neither matches -/
example : runSpec tblA [nX true [], nAB true [], nLit "1-2" true []] ["zz"] = some (2, [("x", "zz")]) := by route_eval
/-- backtracking: `/{a}-{b}/z` accepts "1-2" (binding a, b) but has no child "c"; the walk falls back to `/{x}/c`, and the
    result carries `x` only — nothing from the abandoned branch -/
example : runSpec tblA [nX false [nLit "c" true []], nAB false [nLit "z" true []]] ["1-2", "c"] = some (1, [("x", "1-2")]) := by
  route_eval
/-- converter veto: `{a}-{b:int}` matches "1-q" as a pattern, `int` rejects "q", so `{x}` answers -/
example : runSpec tblA [nX true [], nABint true []] ["1-q"] = some (1, [("x", "1-q")]) := by route_eval
example : runSpec tblA [nX true [], nABint true []] ["1-2"] = some (0, [("b", "2"), ("a", "1")]) := by route_eval
/-- a trailing path converter swallows the rest: `/files/{p:path}` on `/files/a/b/c` -/
example : runSpec tblP [nLit "files" false [nPath]] ["files", "a", "b", "c"] = some (0, [("p", "a/b/c")]) := by route_eval
/-- … but a longer path does not match a node that is not path-consuming -/
example : runSpec tblP [nLit "files" true []] ["files", "a"] = none := by route_eval

/-- the hypotheses of `precedence_literal_first` on the first tree (`l1 = []`, `n` the literal) -/
example : findSpec 2 tblA [nX true [], nAB true [], nLit "1-2" true []] ["1-2"] 0 [] {} = some (0, []) :=
  precedence_literal_first 1 tblA _ ["1-2"] 0 [] {} [] [] (nLit "1-2" true []) (0, []) (by decide)
    (by simp [sortKey, Node.kind, nX, nAB, nLit]) (by simp)
    (by simp [hereOf, matchNode, findSpec_nil, Node.kind, Node.raw, Node.children, Node.hasRoute, nLit, cntL, Ctr.add])
end Rt

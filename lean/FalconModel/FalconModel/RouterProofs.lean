import FalconModel.RouterExec
/-! Proof skeleton for C01 `compile_correct`: exec (compile t) = findSpec t. -/
namespace Rt

/-- run the delayed param setters of a params_stack on a given params dict -/
def evalStack (e : Env) : List Cx → Dict → Option Dict
  | [], ps => some ps
  | .setParamPath n i :: r, ps =>
    match e.path[i]? with
    | some s => evalStack e r (Dict.set ps n s)
    | none => none
  | .setParamVal n u :: r, ps =>
    match lookupN e.fieldVal u with
    | some v => evalStack e r (Dict.set ps n v)
    | none => none
  | .setParamsDictMatch u :: r, ps =>
    match lookupN e.dictMatch u with
    | some d => evalStack e r (Dict.update ps d)
    | none => none
  | .setParamsDictGroups u :: r, ps =>
    match lookupN e.dictGroups u with
    | some d => evalStack e r (Dict.update ps d)
    | none => none
  | _ :: _, _ => none

/-- the parts of the environment a params_stack of depth `n` may read -/
structure Frame (n : Nat) (e e' : Env) : Prop where
  path : e'.path = e.path
  params : e'.params = e.params
  fv : ∀ u, u ≤ n → lookupN e'.fieldVal u = lookupN e.fieldVal u
  dm : ∀ u, u ≤ n → lookupN e'.dictMatch u = lookupN e.dictMatch u
  dg : ∀ u, u ≤ n → lookupN e'.dictGroups u = lookupN e.dictGroups u

theorem Frame.refl (n : Nat) (e : Env) : Frame n e e := ⟨rfl, rfl, fun _ _ => rfl, fun _ _ => rfl, fun _ _ => rfl⟩
theorem Frame.trans {n : Nat} {a b c : Env} (h1 : Frame n a b) (h2 : Frame n b c) : Frame n a c :=
  ⟨h2.path.trans h1.path, h2.params.trans h1.params,
   fun u hu => (h2.fv u hu).trans (h1.fv u hu), fun u hu => (h2.dm u hu).trans (h1.dm u hu),
   fun u hu => (h2.dg u hu).trans (h1.dg u hu)⟩
theorem Frame.mono {n m : Nat} {a b : Env} (h : Frame n a b) (hm : m ≤ n) : Frame m a b :=
  ⟨h.path, h.params, fun u hu => h.fv u (by omega), fun u hu => h.dm u (by omega), fun u hu => h.dg u (by omega)⟩

/-- every variable index mentioned by the stack is ≤ n -/
def StackIdx : List Cx → Nat → Prop
  | [], _ => True
  | .setParamPath _ _ :: r, n => StackIdx r n
  | .setParamVal _ u :: r, n => u ≤ n ∧ StackIdx r n
  | .setParamsDictMatch u :: r, n => u ≤ n ∧ StackIdx r n
  | .setParamsDictGroups u :: r, n => u ≤ n ∧ StackIdx r n
  | _ :: _, _ => False

/-- evalStack only reads path / fieldVal / dictMatch / dictGroups -/
theorem evalStack_congr (e e' : Env) (hp : e'.path = e.path) (hf : e'.fieldVal = e.fieldVal)
    (hm : e'.dictMatch = e.dictMatch) (hg : e'.dictGroups = e.dictGroups) :
    ∀ (stack : List Cx) (ps : Dict), evalStack e' stack ps = evalStack e stack ps := by
  intro stack
  induction stack with
  | nil => intro ps; rfl
  | cons c r ih =>
    intro ps
    cases c <;> simp only [evalStack, hp, hf, hm, hg, ih]

theorem evalStack_params (e : Env) (x : Dict) (stack : List Cx) (ps : Dict) :
    evalStack { e with params := x } stack ps = evalStack e stack ps :=
  evalStack_congr e { e with params := x } rfl rfl rfl rfl stack ps

theorem evalStack_frame (e e' : Env) (n : Nat) (h : Frame n e e') :
    ∀ (stack : List Cx) (ps : Dict), StackIdx stack n → evalStack e' stack ps = evalStack e stack ps := by
  intro stack
  induction stack with
  | nil => intro ps _; rfl
  | cons c r ih =>
    intro ps hs
    cases c <;> simp only [StackIdx] at hs <;> try (exact hs.elim)
    all_goals simp only [evalStack]
    · rw [h.path]; split
      · exact ih _ hs
      · rfl
    · rw [h.fv _ hs.1]; split
      · exact ih _ hs.2
      · rfl
    · rw [h.dm _ hs.1]; split
      · exact ih _ hs.2
      · rfl
    · rw [h.dg _ hs.1]; split
      · exact ih _ hs.2
      · rfl

/-- executing the delayed setters followed by `return return_values[i]` -/
theorem exec_stack_ret (t : Tables) (i : Nat) :
    ∀ (stack : List Cx) (e : Env) (ps : Dict),
      evalStack e stack e.params = some ps → execL t e (stack ++ [Cx.retVal i]) = .ret (some (i, ps)) := by
  intro stack
  induction stack with
  | nil =>
    intro e ps h
    simp only [evalStack] at h
    simp [execL, exec, Option.some.inj h]
  | cons c r ih =>
    intro e ps h
    cases c <;> simp only [evalStack] at h <;> try (exact absurd h (by simp))
    · rename_i n idx
      simp only [List.cons_append, execL, exec]
      split at h
      · rename_i s hs
        simp only [hs]
        apply ih
        rw [evalStack_params]; exact h
      · simp at h
    · rename_i n u
      simp only [List.cons_append, execL, exec]
      split at h
      · rename_i v hv
        simp only [hv]
        apply ih
        rw [evalStack_params]; exact h
      · simp at h
    · rename_i u
      simp only [List.cons_append, execL, exec]
      split at h
      · rename_i d hd
        simp only [hd]
        apply ih
        rw [evalStack_params]; exact h
      · simp at h
    · rename_i u
      simp only [List.cons_append, execL, exec]
      split at h
      · rename_i d hd
        simp only [hd]
        apply ih
        rw [evalStack_params]; exact h
      · simp at h

#print axioms exec_stack_ret
end Rt

namespace Rt
/-! ### counters -/

@[simp] theorem Ctr.add_zero (c : Ctr) : c.add {} = c := by cases c; simp [Ctr.add]

theorem cntL_append (a b : List Node) : cntL (a ++ b) = (cntL a).add (cntL b) := by
  induction a with
  | nil => simp [cntL, Ctr.add]
  | cons x xs ih => simp only [List.cons_append, cntL, ih, Ctr.add]; simp only [Nat.add_assoc]

theorem Ctr.add_assoc (a b c : Ctr) : (a.add b).add c = a.add (b.add c) := by
  simp [Ctr.add, Nat.add_assoc]
theorem Ctr.add_comm (a b : Ctr) : a.add b = b.add a := by
  simp [Ctr.add, Nat.add_comm]

theorem cntL_filter_split (p : Node → Bool) (ns : List Node) :
    cntL ns = (cntL (ns.filter p)).add (cntL (ns.filter (fun n => !p n))) := by
  induction ns with
  | nil => simp [cntL, Ctr.add]
  | cons x xs ih =>
    by_cases hp : p x = true
    · simp only [List.filter_cons, hp, if_true, Bool.not_true, Bool.false_eq_true, if_false, cntL]
      rw [ih]; simp only [Ctr.add, Nat.add_assoc]
    · have hp' : p x = false := by simpa using hp
      simp only [List.filter_cons, hp', Bool.false_eq_true, if_false, Bool.not_false, if_true, cntL]
      rw [ih]; simp only [Ctr.add]
      congr 1 <;> omega

theorem sortKey_lt3 (n : Node) : sortKey n = 0 ∨ sortKey n = 1 ∨ sortKey n = 2 := by
  unfold sortKey; cases n.kind <;> simp

theorem cntL_sortNodes (ns : List Node) : cntL (sortNodes ns) = cntL ns := by
  unfold sortNodes
  rw [cntL_append, cntL_append]
  rw [cntL_filter_split (fun n => sortKey n == 0) ns]
  rw [Ctr.add_assoc]
  congr 1
  -- remaining: nodes with key ≠ 0 split into key 1 and key 2
  have h1 : (ns.filter (fun n => !(sortKey n == 0))).filter (fun n => sortKey n == 1) = ns.filter (fun n => sortKey n == 1) := by
    rw [List.filter_filter]; congr 1; funext n
    rcases sortKey_lt3 n with h | h | h <;> simp [h]
  have h2 : (ns.filter (fun n => !(sortKey n == 0))).filter (fun n => !(sortKey n == 1)) = ns.filter (fun n => sortKey n == 2) := by
    rw [List.filter_filter]; congr 1; funext n
    rcases sortKey_lt3 n with h | h | h <;> simp [h]
  rw [cntL_filter_split (fun n => sortKey n == 1) (ns.filter (fun n => !(sortKey n == 0))), h1, h2]

#print axioms cntL_sortNodes
end Rt

namespace Rt
/-! ### depth bound helpers -/
theorem dL_le_iff (ns : List Node) (k : Nat) : dL ns ≤ k ↔ ∀ n ∈ ns, dN n ≤ k := by
  induction ns with
  | nil => simp [dL]
  | cons x xs ih => simp only [dL, List.mem_cons, forall_eq_or_imp, Nat.max_le, ih]

theorem mem_sortNodes {n : Node} {ns : List Node} : n ∈ sortNodes ns ↔ n ∈ ns := by
  unfold sortNodes
  simp only [List.mem_append, List.mem_filter]
  constructor
  · rintro ((h | h) | h) <;> exact h.1
  · intro h
    rcases sortKey_lt3 n with k | k | k
    · exact Or.inl (Or.inl ⟨h, by simp [k]⟩)
    · exact Or.inl (Or.inr ⟨h, by simp [k]⟩)
    · exact Or.inr ⟨h, by simp [k]⟩

theorem dL_sortNodes_le (ns : List Node) (k : Nat) (h : dL ns ≤ k) : dL (sortNodes ns) ≤ k := by
  rw [dL_le_iff] at *
  intro n hn; exact h n (mem_sortNodes.mp hn)

theorem dN_children (n : Node) : dN n = 1 + dL n.children := by
  cases n; simp [dN, Node.children]

theorem cntN_eq (n : Node) : cntN n = ({ rv := ownRv n, pat := ownPat n, conv := ownConv n } : Ctr).add (cntL n.children) := by
  cases n with
  | mk r k h ch =>
    cases h <;> simp [cntN, Ctr.add, Node.children, ownRv, ownPat, ownConv, Node.hasRoute, Node.kind]

theorem convChain_ctr : ∀ (convs : List ConvUse) (stack : List Cx) (c : Ctr),
    (convChain convs stack c).2.2 = { c with conv := c.conv + convs.length } := by
  intro convs
  induction convs with
  | nil => intro stack c; simp [convChain]
  | cons x xs ih =>
    intro stack c
    simp only [convChain, ih, List.length_cons, Ctr.mk.injEq, true_and]
    omega

theorem preamble_ctr (node : Node) (stack0 : List Cx) (level : Nat) (c : Ctr) :
    (preamble node stack0 level c).ctr = { rv := c.rv, pat := c.pat + ownPat node, conv := c.conv + ownConv node } := by
  unfold preamble ownPat ownConv
  cases hk : node.kind with
  | lit => simp
  | simple name conv => cases conv <;> simp
  | complex text convs nf =>
    simp only
    split
    · rename_i he
      have : convs.length = 0 := by simpa using he
      simp [this]
    · have h := convChain_ctr convs stack0 { c with pat := c.pat + 1 }
      rcases hc : convChain convs stack0 { c with pat := c.pat + 1 } with ⟨ls, st, c'⟩
      rw [hc] at h
      simp only at h
      simp [h]

theorem cIn_eq (node : Node) (stack0 : List Cx) (level : Nat) (c : Ctr) :
    (if node.hasRoute then { (preamble node stack0 level c).ctr with rv := (preamble node stack0 level c).ctr.rv + 1 }
      else (preamble node stack0 level c).ctr) = cInOf node c := by
  rw [preamble_ctr]; unfold cInOf ownRv
  cases node.hasRoute <;> simp

/-- the compile-time counters advance exactly by the node counts (given enough fuel) -/
theorem gen_ctr : ∀ fuel : Nat,
    (∀ nodes stack level fast c, dL nodes ≤ fuel → (genAst fuel nodes stack level fast c).2 = c.add (cntL nodes)) ∧
    (∀ nodes stack level fast c, dL nodes ≤ fuel + 1 → (genNodes fuel nodes stack level fast c).2 = c.add (cntL nodes)) := by
  intro fuel
  induction fuel with
  | zero =>
    have hA : ∀ nodes stack level fast c, dL nodes ≤ 0 → (genAst 0 nodes stack level fast c).2 = c.add (cntL nodes) := by
      intro nodes stack level fast c h
      cases nodes with
      | nil => simp [genAst, cntL]
      | cons x xs =>
        exfalso
        have := (dL_le_iff (x :: xs) 0).mp h x (by simp)
        rw [dN_children] at this; omega
    refine ⟨hA, ?_⟩
    intro nodes
    induction nodes with
    | nil => intro stack level fast c _; simp [genNodes, cntL]
    | cons x xs ih =>
      intro stack level fast c h
      rw [genNodes]
      simp only
      have hx := (dL_le_iff (x :: xs) 1).mp h
      have hch : dL x.children ≤ 0 := by
        have := hx x (by simp); rw [dN_children] at this; omega
      rw [cIn_eq]
      rw [hA x.children _ _ _ _ hch]
      rw [ih _ _ _ _ ((dL_le_iff xs 1).mpr (fun n hn => hx n (by simp [hn])))]
      simp only [cntL]
      rw [cntN_eq]
      simp only [cInOf, Ctr.add]
      simp only [Ctr.mk.injEq]; omega
  | succ f ihf =>
    obtain ⟨ihA, ihN⟩ := ihf
    have hA : ∀ nodes stack level fast c, dL nodes ≤ f + 1 → (genAst (f + 1) nodes stack level fast c).2 = c.add (cntL nodes) := by
      intro nodes stack level fast c h
      rw [genAst]
      split
      · rename_i he
        have : nodes = [] := by simpa using he
        subst this; simp [cntL]
      · simp only
        rw [ihN _ _ _ _ _ (dL_sortNodes_le _ _ h), cntL_sortNodes]
    refine ⟨hA, ?_⟩
    intro nodes
    induction nodes with
    | nil => intro stack level fast c _; simp [genNodes, cntL]
    | cons x xs ih =>
      intro stack level fast c h
      rw [genNodes]
      simp only
      have hx := (dL_le_iff (x :: xs) (f + 1 + 1)).mp h
      have hch : dL x.children ≤ f + 1 := by
        have := hx x (by simp); rw [dN_children] at this; omega
      rw [cIn_eq]
      rw [hA x.children _ _ _ _ hch]
      rw [ih _ _ _ _ ((dL_le_iff xs (f + 1 + 1)).mpr (fun n hn => hx n (by simp [hn])))]
      simp only [cntL]
      rw [cntN_eq]
      simp only [cInOf, Ctr.add]
      simp only [Ctr.mk.injEq]; omega

#print axioms gen_ctr
end Rt

namespace Rt
/-! ### sequencing -/
theorem execL_append (t : Tables) : ∀ (xs ys : List Cx) (e : Env),
    execL t e (xs ++ ys) = match execL t e xs with
      | .fall e' => execL t e' ys
      | o => o := by
  intro xs
  induction xs with
  | nil => intro ys e; simp [execL]
  | cons x xs ih =>
    intro ys e
    simp only [List.cons_append, execL]
    cases hx : exec t e x with
    | fall e' => simp only [ih]
    | ret r => rfl
    | stuck w => rfl

def isLit (n : Node) : Bool := sortKey n == 0

/-- what the caller is allowed to conclude from the outcome of a generated fragment -/
def Agree (n : Nat) (fast : Bool) (e : Env) (out : Out) (spec : Option (Nat × Dict)) : Prop :=
  match spec with
  | some r => out = .ret (some r)
  | none => (fast = true ∧ out = .ret none) ∨ ∃ e', out = .fall e' ∧ Frame n e e'

def kindMulti : Kind → Bool
  | .simple _ (some cu) => cu.multi
  | _ => false

mutual
def wfN : Node → Prop
  | .mk _ k _ ch => wfL ch ∧ (kindMulti k = true → ch = [])
def wfL : List Node → Prop
  | [] => True
  | n :: ns => wfN n ∧ (∀ m ∈ ns, isLit n = true → isLit m = true → n.raw ≠ m.raw) ∧ wfL ns
end

theorem wfL_mem {ns : List Node} (h : wfL ns) : ∀ n ∈ ns, wfN n := by
  induction ns with
  | nil => intro n hn; cases hn
  | cons x xs ih =>
    intro n hn
    simp only [wfL] at h
    rcases List.mem_cons.mp hn with rfl | hm
    · exact h.1
    · exact ih h.2.2 n hm

theorem wfN_children {n : Node} (h : wfN n) : wfL n.children := by
  cases n; simp only [wfN, Node.children] at h ⊢; exact h.1

theorem wfN_multi {n : Node} (h : wfN n) : kindMulti n.kind = true → n.children = [] := by
  cases n; simp only [wfN, Node.children, Node.kind] at h ⊢; exact h.2

/-- literal siblings are pairwise distinct -/
def DistinctLits (ns : List Node) : Prop :=
  ns.Pairwise (fun a b => isLit a = true → isLit b = true → a.raw ≠ b.raw)

theorem distinct_of_wfL {ns : List Node} (h : wfL ns) : DistinctLits ns := by
  induction ns with
  | nil => exact List.Pairwise.nil
  | cons x xs ih =>
    simp only [wfL] at h
    exact List.Pairwise.cons (fun m hm => h.2.1 m hm) (ih h.2.2)

theorem distinct_sortNodes {ns : List Node} (h : DistinctLits ns) : DistinctLits (sortNodes ns) := by
  unfold sortNodes DistinctLits
  rw [List.pairwise_append, List.pairwise_append]
  refine ⟨⟨h.filter _, h.filter _, ?_⟩, h.filter _, ?_⟩
  · intro a ha b hb _ hbl
    simp only [List.mem_filter] at hb
    simp [isLit] at hbl; simp [hbl] at hb
  · intro a ha b hb _ hbl
    simp only [List.mem_filter] at hb
    simp [isLit] at hbl; simp [hbl] at hb

end Rt

namespace Rt
/-! ### params_stack algebra -/
theorem evalStack_append (e : Env) : ∀ (a b : List Cx) (ps : Dict),
    evalStack e (a ++ b) ps = (evalStack e a ps).bind (evalStack e b) := by
  intro a
  induction a with
  | nil => intro b ps; simp [evalStack]
  | cons x xs ih =>
    intro b ps
    cases x <;> simp only [List.cons_append, evalStack] <;> try rfl
    all_goals
      split
      · exact ih _ _
      · rfl

theorem StackIdx.mono : ∀ (stack : List Cx) (n m : Nat), n ≤ m → StackIdx stack n → StackIdx stack m := by
  intro stack
  induction stack with
  | nil => intro n m _ _; trivial
  | cons x xs ih =>
    intro n m hnm h
    cases x <;> simp only [StackIdx] at h ⊢ <;> try exact h
    · exact ih n m hnm h
    · exact ⟨by omega, ih n m hnm h.2⟩
    · exact ⟨by omega, ih n m hnm h.2⟩
    · exact ⟨by omega, ih n m hnm h.2⟩

theorem StackIdx.append : ∀ (a b : List Cx) (n : Nat), StackIdx a n → StackIdx b n → StackIdx (a ++ b) n := by
  intro a
  induction a with
  | nil => intro b n _ hb; simpa using hb
  | cons x xs ih =>
    intro b n ha hb
    cases x <;> simp only [List.cons_append, StackIdx] at ha ⊢ <;> try exact ha.elim
    · exact ih b n ha hb
    · exact ⟨ha.1, ih b n ha.2 hb⟩
    · exact ⟨ha.1, ih b n ha.2 hb⟩
    · exact ⟨ha.1, ih b n ha.2 hb⟩

theorem lookupN_setN_ne {α} (l : List (Nat × α)) (k u : Nat) (v : α) (h : u ≠ k) :
    lookupN (setN l k v) u = lookupN l u := by
  unfold lookupN setN
  have hk : ((k, v).1 == u) = false := by simp; omega
  simp only [List.find?_cons, hk]
  congr 1
  induction l with
  | nil => rfl
  | cons x xs ih =>
    simp only [List.filter_cons]
    by_cases hx : x.1 = k
    · have : (x.1 != k) = false := by simp [hx]
      have hxu : (x.1 == u) = false := by simp [hx]; omega
      simp only [this, List.find?_cons, hxu]; exact ih
    · have : (x.1 != k) = true := by simp [hx]
      simp only [this, if_true, List.find?_cons]
      cases hxu : (x.1 == u) <;> simp [ih]

theorem lookupN_setN_eq {α} (l : List (Nat × α)) (k : Nat) (v : α) : lookupN (setN l k v) k = some v := by
  simp [lookupN, setN]

theorem lookupN_filter_ne {α} (l : List (Nat × α)) (k u : Nat) (h : u ≠ k) :
    lookupN (l.filter (·.1 != k)) u = lookupN l u := by
  unfold lookupN
  congr 1
  induction l with
  | nil => rfl
  | cons x xs ih =>
    simp only [List.filter_cons]
    by_cases hx : x.1 = k
    · have : (x.1 != k) = false := by simp [hx]
      have hxu : (x.1 == u) = false := by simp [hx]; omega
      simp only [this, List.find?_cons, hxu]; exact ih
    · have : (x.1 != k) = true := by simp [hx]
      simp only [this, if_true, List.find?_cons]
      cases hxu : (x.1 == u) <;> simp [ih]
end Rt

namespace Rt
/-! ### per-node preamble: generated guards ⇔ `matchNode` -/

theorem getElem?_of_lt {α} (l : List α) (i : Nat) (h : i < l.length) : ∃ x, l[i]? = some x :=
  ⟨l[i], List.getElem?_eq_getElem h⟩

def envConv (e : Env) (frag : String) (u : Nat) (v : String) : Env :=
  { e with fragment := frag, fieldVal := setN e.fieldVal u v }

def envConvFail (e : Env) (frag : String) (u : Nat) : Env :=
  { e with fragment := frag, fieldVal := e.fieldVal.filter (·.1 != u) }

theorem envConvFail_frame (e : Env) (frag : String) (n u : Nat) (h : n < u) :
    Frame n e (envConvFail e frag u) :=
  ⟨rfl, rfl, fun w hw => lookupN_filter_ne _ _ _ (by omega), fun _ _ => rfl, fun _ _ => rfl⟩

theorem envConv_frame (e : Env) (frag : String) (n u : Nat) (v : String) (h : n < u) :
    Frame n e (envConv e frag u v) :=
  ⟨rfl, rfl, fun w hw => lookupN_setN_ne _ _ _ _ (by omega), fun _ _ => rfl, fun _ _ => rfl⟩

/-- every `groups.pop(field)` of the converter chain finds its key (true for `re`'s groupdict: the
    template's field names are distinct named groups of the pattern) -/
def PopsOK : List ConvUse → Dict → Prop
  | [], _ => True
  | cu :: rest, g => ∃ v g', Dict.pop g cu.field = some (v, g') ∧ PopsOK rest g'

/-- semantics of the nested `fragment = groups.pop(f); field_value_i = conv(fragment); if ... is not None:` chain -/
theorem chain_sem (t : Tables) : ∀ (convs : List ConvUse) (st : List Cx) (c : Ctr) (e0 : Env) (acc : Dict)
    (inner : List Cx), PopsOK convs e0.groups →
    match applyConvs t convs c.conv e0.groups acc with
    | none => ∃ e', execL t e0 (build (convChain convs st c).1 inner) = .fall e' ∧ Frame st.length e0 e'
    | some (acc', remaining, _) =>
      ∃ e1 newSt newAcc, Frame st.length e0 e1 ∧ e1.groups = remaining ∧ e1.mtch = e0.mtch ∧
        (convChain convs st c).2.1 = st ++ newSt ∧ acc' = acc ++ newAcc ∧ newSt.length = convs.length ∧
        StackIdx newSt (st.length + convs.length) ∧
        (∀ ps0, evalStack e1 newSt ps0 = some (Dict.update ps0 newAcc)) ∧
        execL t e0 (build (convChain convs st c).1 inner) = execL t e1 inner := by
  intro convs
  induction convs with
  | nil =>
    intro st c e0 acc inner _
    simp only [applyConvs, convChain, build, List.foldr_nil]
    exact ⟨e0, [], [], Frame.refl _ _, rfl, rfl, by simp, by simp, rfl, trivial,
      fun ps0 => by simp [evalStack, Dict.update], rfl⟩
  | cons cu rest ih =>
    intro st c e0 acc inner hp
    obtain ⟨v, g', hpop, hrest⟩ := hp
    simp only [applyConvs, hpop, convChain, build, List.foldr_cons, List.singleton_append, execL, exec]
    cases hcv : t.conv c.conv v with
    | none =>
      simp only [execL]
      refine ⟨_, rfl, ⟨rfl, rfl, fun u hu => lookupN_filter_ne _ _ _ (by omega), fun _ _ => rfl, fun _ _ => rfl⟩⟩
    | some w =>
      simp only
      -- environment after the first conversion succeeded
      have ih' := ih (st ++ [Cx.setParamVal cu.field (st.length + 1)]) { c with conv := c.conv + 1 }
        { e0 with fragment := v, groups := g', fieldVal := setN e0.fieldVal (st.length + 1) w }
        (acc ++ [(cu.field, w)]) inner hrest
      simp only at ih'
      have hfr0 : Frame st.length e0
          { e0 with fragment := v, groups := g', fieldVal := setN e0.fieldVal (st.length + 1) w } :=
        ⟨rfl, rfl, fun u hu => lookupN_setN_ne _ _ _ _ (by omega), fun _ _ => rfl, fun _ _ => rfl⟩
      cases happ : applyConvs t rest (c.conv + 1) g' (acc ++ [(cu.field, w)]) with
      | none =>
        rw [happ] at ih'
        obtain ⟨e', hex, hfr⟩ := ih'
        refine ⟨e', ?_, hfr0.trans (hfr.mono (by simp))⟩
        simp only [build] at hex
        rw [hex]
      | some r =>
        obtain ⟨acc', remaining, ci'⟩ := r
        rw [happ] at ih'
        obtain ⟨e1, newSt, newAcc, hfr, hg, hmt, hst, hacc, hlen, hidx, hev, hex⟩ := ih'
        refine ⟨e1, Cx.setParamVal cu.field (st.length + 1) :: newSt, (cu.field, w) :: newAcc,
          hfr0.trans (hfr.mono (by simp)), hg, hmt, ?_, ?_, ?_, ?_, ?_, ?_⟩
        · rw [hst]; simp
        · rw [hacc]; simp
        · simp [hlen]
        · simp only [StackIdx, List.length_cons]
          refine ⟨by omega, ?_⟩
          have : st.length + 1 + rest.length = st.length + (rest.length + 1) := by omega
          simpa [List.length_append, this] using hidx
        · intro ps0
          simp only [evalStack]
          have hl : lookupN e1.fieldVal (st.length + 1) = some w := by
            rw [hfr.fv (st.length + 1) (by simp)]
            exact lookupN_setN_eq _ _ _
          rw [hl]
          simp only [hev, Dict.update, List.foldl_cons]
        · simp only [build] at hex
          rw [hex]
          cases execL t e1 inner <;> rfl

def envMatch (e : Env) (g : Dict) (u : Nat) : Env :=
  { e with mtch := some g, dictMatch := setN e.dictMatch u g }

theorem envMatch_frame (e : Env) (g : Dict) (n u : Nat) (h : n < u) : Frame n e (envMatch e g u) :=
  ⟨rfl, rfl, fun _ _ => rfl, fun w hw => lookupN_setN_ne _ _ _ _ (by omega), fun _ _ => rfl⟩

theorem exec_pattern_layer (t : Tables) (e : Env) (level pi : Nat) (text seg : String) (g : Dict)
    (l : Layer) (lt : List Layer) (inner : List Cx)
    (hseg : e.path[level]? = some seg) (hpm : t.pmatch pi seg = some g) :
    execL t e [Cx.ifPattern level pi text (build ({ l with pre := Cx.prefetchGroups :: l.pre } :: lt) inner)]
      = (match execL t { e with mtch := some g, groups := g } (build (l :: lt) inner) with
          | .fall e' => .fall e'
          | o => o) := by
  simp only [execL, exec, hseg, hpm, build, List.foldr_cons, List.cons_append]
  cases execL t _ _ <;> rfl

theorem pre_sem (t : Tables) (node : Node) (stack0 : List Cx) (level : Nat) (c : Ctr) (e : Env) (ps : Dict)
    (hlen : level < e.path.length) (hpar : e.params = [])
    (hidx : StackIdx stack0 stack0.length) (hev : evalStack e stack0 [] = some ps) (body : List Cx)
    (hpop : ∀ text convs nf seg g, node.kind = .complex text convs nf → t.pmatch c.pat seg = some g → PopsOK convs g) :
    match matchNode t node e.path level ps c with
    | none => ∃ e', execL t e (build (preamble node stack0 level c).layers
                      ((preamble node stack0 level c).innerPre ++ body)) = .fall e' ∧ Frame stack0.length e e'
    | some (ps', multi) =>
      ∃ e1, Frame stack0.length e e1 ∧ e1.params = [] ∧
        evalStack e1 (preamble node stack0 level c).stack [] = some ps' ∧
        StackIdx (preamble node stack0 level c).stack (preamble node stack0 level c).stack.length ∧
        stack0.length ≤ (preamble node stack0 level c).stack.length ∧
        (preamble node stack0 level c).multi = multi ∧
        execL t e (build (preamble node stack0 level c).layers
          ((preamble node stack0 level c).innerPre ++ body)) = execL t e1 body := by
  obtain ⟨seg, hseg⟩ := getElem?_of_lt e.path level hlen
  unfold matchNode preamble
  cases hk : node.kind with
  | lit =>
    simp only [hseg, Option.getD_some]
    by_cases hm : (seg == node.raw) = true
    · simp only [hm, if_true]
      refine ⟨e, Frame.refl _ _, hpar, hev, hidx, Nat.le_refl _, ?_, ?_⟩
      · first | rfl | trivial
      · simp only [build, List.foldr_cons, List.foldr_nil, List.nil_append, execL, exec, hseg, hm, if_true]
        cases execL t e body <;> rfl
    · have hm' : (seg == node.raw) = false := by simpa using hm
      simp only [hm', Bool.false_eq_true, if_false]
      refine ⟨e, ?_, Frame.refl _ _⟩
      simp only [build, List.foldr_cons, List.foldr_nil, List.nil_append, execL, exec, hseg, hm', Bool.false_eq_true, if_false]
  | simple name conv =>
    cases conv with
    | none =>
      simp only [hseg, Option.getD_some]
      refine ⟨e, Frame.refl _ _, hpar, ?_, ?_, ?_, ?_, ?_⟩
      · rw [evalStack_append, hev]; simp [evalStack, hseg]
      · rw [List.length_append]
        exact StackIdx.append _ _ _ (StackIdx.mono _ _ _ (by simp) hidx) (by simp [StackIdx])
      · simp
      · first | rfl | trivial
      · simp [build]
    | some cu =>
      simp only [hseg, Option.getD_some]
      have hfrag : exec t e (if cu.multi then Cx.setFragRest level else Cx.setFragPath level)
            = .fall { e with fragment := if cu.multi then "/".intercalate (e.path.drop level) else seg } := by
        cases cu.multi <;> simp [exec, hseg]
      cases hc : t.conv c.conv (if cu.multi then "/".intercalate (e.path.drop level) else seg) with
      | none =>
        simp only [Option.map_none]
        refine ⟨envConvFail e (if cu.multi then "/".intercalate (e.path.drop level) else seg) (stack0.length + 1), ?_,
          envConvFail_frame _ _ _ _ (by omega)⟩
        simp only [build, List.foldr_cons, List.foldr_nil, List.nil_append, List.singleton_append, execL]
        rw [hfrag]
        simp only [exec, hc, execL, envConvFail]
      | some v =>
        simp only [Option.map_some]
        refine ⟨envConv e (if cu.multi then "/".intercalate (e.path.drop level) else seg) (stack0.length + 1) v,
          envConv_frame _ _ _ _ _ (by omega), hpar, ?_, ?_, ?_, ?_, ?_⟩
        · rw [evalStack_append]
          rw [evalStack_frame e _ stack0.length (envConv_frame _ _ _ _ _ (by omega)) _ _ hidx, hev]
          simp [evalStack, envConv, lookupN_setN_eq]
        · rw [List.length_append]
          exact StackIdx.append _ _ _ (StackIdx.mono _ _ _ (by simp) hidx) (by simp [StackIdx])
        · simp
        · first | rfl | trivial
        · simp only [build, List.foldr_cons, List.foldr_nil, List.nil_append, List.singleton_append, execL]
          rw [hfrag]
          simp only [exec, hc, execL, envConv]
          cases execL t _ body <;> rfl
  | complex text convs nf =>
    simp only [hseg, Option.getD_some]
    by_cases hce : convs.isEmpty = true
    · have hnil : convs = [] := by simpa using hce
      subst hnil
      simp only [List.isEmpty_nil, if_true]
      cases hpm : t.pmatch c.pat seg with
      | none =>
        refine ⟨{ e with mtch := none }, ?_, ⟨rfl, rfl, fun _ _ => rfl, fun _ _ => rfl, fun _ _ => rfl⟩⟩
        simp only [build, List.foldr_cons, List.foldr_nil, List.nil_append, execL, exec, hseg, hpm]
      | some g =>
        simp only [applyConvs]
        refine ⟨envMatch e g (stack0.length + 1), envMatch_frame _ _ _ _ (by omega), hpar, ?_, ?_, ?_, ?_, ?_⟩
        · rw [evalStack_append]
          rw [evalStack_frame e _ stack0.length (envMatch_frame _ _ _ _ (by omega)) _ _ hidx, hev]
          simp [evalStack, envMatch, lookupN_setN_eq, Dict.update]
        · rw [List.length_append]
          exact StackIdx.append _ _ _ (StackIdx.mono _ _ _ (by simp) hidx) (by simp [StackIdx])
        · simp
        · first | rfl | trivial
        · simp only [build, List.foldr_cons, List.foldr_nil, List.nil_append, List.singleton_append,
            List.cons_append, execL, exec, hseg, hpm, envMatch]
          cases execL t _ body <;> rfl
    · have hne : convs ≠ [] := by simpa using hce
      have hcef : convs.isEmpty = false := by simpa using hce
      simp only [hcef, Bool.false_eq_true, if_false, Bool.false_or]
      cases hpm : t.pmatch c.pat seg with
      | none =>
        refine ⟨{ e with mtch := none }, ?_, ⟨rfl, rfl, fun _ _ => rfl, fun _ _ => rfl, fun _ _ => rfl⟩⟩
        rcases hcc : convChain convs stack0 { c with pat := c.pat + 1 } with ⟨ls, st, c'⟩
        simp only [build, List.foldr_cons, List.nil_append, execL, exec, hseg, hpm]
      | some g =>
        simp only
        have hpk := hpop text convs nf seg g hk hpm
        have hch := chain_sem t convs stack0 { c with pat := c.pat + 1 } { e with mtch := some g, groups := g } []
        -- shape of the generated layers
        obtain ⟨cu0, crest, hcons⟩ : ∃ a b, convs = a :: b := by
          cases convs with
          | nil => exact absurd rfl hne
          | cons a b => exact ⟨a, b, rfl⟩
        rcases hcc : convChain convs stack0 { c with pat := c.pat + 1 } with ⟨ls, st, c'⟩
        have hls : ∃ l lt, ls = l :: lt := by
          rw [hcons] at hcc; simp only [convChain] at hcc
          exact ⟨_, _, (Prod.mk.inj hcc).1.symm⟩
        obtain ⟨l, lt, hl⟩ := hls
        have hbuild : ∀ inner, build ({ l with pre := Cx.prefetchGroups :: l.pre } :: lt) inner
            = Cx.prefetchGroups :: build (l :: lt) inner := by
          intro inner; simp [build]
        simp only [hl]
        have hlay : ∀ inner, execL t e (build ({ pre := [], wrap := Cx.ifPattern level c.pat text } ::
              { l with pre := Cx.prefetchGroups :: l.pre } :: lt) inner)
            = (match execL t { e with mtch := some g, groups := g } (build (l :: lt) inner) with
                | .fall e' => .fall e'
                | o => o) := by
          intro inner
          have := exec_pattern_layer t e level c.pat text seg g l lt inner hseg hpm
          simpa [build] using this
        cases happ : applyConvs t convs c.conv g [] with
        | none =>
          simp only
          have h1 := hch ((if nf > convs.length then [Cx.varFromMatchPrefetched (st.length + 1)] else []) ++ body) hpk
          simp only [happ, hcc, hl] at h1
          obtain ⟨e', hex, hfr⟩ := h1
          refine ⟨e', ?_, ⟨hfr.path, hfr.params, hfr.fv, hfr.dm, hfr.dg⟩⟩
          by_cases hnf : nf > convs.length
          · simp only [hnf, if_true] at hex ⊢
            rw [hlay, hex]
          · simp only [hnf, if_false] at hex ⊢
            rw [hlay, hex]
        | some r =>
          obtain ⟨acc', remaining, ci'⟩ := r
          simp only
          have h1 := hch ((if nf > convs.length then [Cx.varFromMatchPrefetched (st.length + 1)] else []) ++ body) hpk
          simp only [happ, hcc, hl] at h1
          obtain ⟨e1, newSt, newAcc, hfr, hg, hmt, hst, hacc, hlen', hidxn, hevn, hex⟩ := h1
          have hfr' : Frame stack0.length e e1 := ⟨hfr.path, hfr.params, hfr.fv, hfr.dm, hfr.dg⟩
          have hacc' : acc' = newAcc := by simpa using hacc
          have hL : (stack0 ++ newSt).length = stack0.length + convs.length := by
            rw [List.length_append, hlen']
          have hev1 : evalStack e1 stack0 [] = some ps := by
            rw [evalStack_frame e e1 _ hfr' _ _ hidx]; exact hev
          by_cases hnf : nf > convs.length
          · simp only [hnf, if_true, decide_true, Bool.or_true] at hex ⊢
            refine ⟨{ e1 with dictGroups := setN e1.dictGroups (st.length + 1) e1.groups }, ?_, ?_, ?_, ?_, ?_, ?_, ?_⟩
            · refine hfr'.trans ⟨rfl, rfl, fun _ _ => rfl, fun _ _ => rfl, fun u hu => lookupN_setN_ne _ _ _ _ ?_⟩
              rw [hst]; omega
            · rw [← hfr'.params] at hpar; exact hpar
            · rw [hst, evalStack_append, evalStack_append]
              have hfx : Frame (stack0.length + convs.length) e1
                  { e1 with dictGroups := setN e1.dictGroups ((stack0 ++ newSt).length + 1) e1.groups } :=
                ⟨rfl, rfl, fun _ _ => rfl, fun _ _ => rfl, fun u hu => lookupN_setN_ne _ _ _ _ (by omega)⟩
              rw [evalStack_frame e1 _ _ (hfx.mono (by omega)) _ _ hidx, hev1]
              simp only [Option.bind]
              rw [evalStack_frame e1 _ _ hfx _ _ hidxn, hevn]
              simp [evalStack, lookupN_setN_eq, hg, hacc']
            · rw [hst]
              refine StackIdx.append _ _ _ (StackIdx.append _ _ _
                (StackIdx.mono _ _ _ (by simp only [List.length_append, List.length_singleton]; omega) hidx)
                (StackIdx.mono _ _ _ (by simp only [List.length_append, List.length_singleton, hlen']; omega) hidxn))
                (by simp [StackIdx, List.length_append]; omega)
            · rw [hst]; simp
            · first | rfl | trivial
            · rw [hlay, hex]
              simp only [List.singleton_append, execL, exec]
              cases execL t _ body <;> rfl
          · simp only [hnf, if_false, decide_false, Bool.or_false, Bool.false_eq_true, List.nil_append] at hex ⊢
            refine ⟨e1, hfr', ?_, ?_, ?_, ?_, ?_, ?_⟩
            · rw [← hfr'.params] at hpar; exact hpar
            · rw [hst, evalStack_append, hev1]
              simp only [Option.bind]
              rw [hevn, hacc']
            · rw [hst]
              exact StackIdx.append _ _ _ (StackIdx.mono _ _ _ (by omega) hidx)
                (StackIdx.mono _ _ _ (by omega) hidxn)
            · rw [hst]; simp
            · first | rfl | trivial
            · rw [hlay, hex]
              cases execL t e1 body <;> rfl

end Rt

namespace Rt
/-! ### facts used by the fast-return argument -/
theorem isLit_kind (n : Node) : isLit n = true ↔ n.kind = .lit := by
  unfold isLit sortKey; cases n.kind <;> simp

theorem matchNode_multi (t : Tables) (node : Node) (path : List String) (level : Nat) (ps : Dict) (c : Ctr)
    (ps' : Dict) (multi : Bool) (h : matchNode t node path level ps c = some (ps', multi)) :
    multi = kindMulti node.kind := by
  unfold matchNode at h
  cases hk : node.kind with
  | lit => simp only [hk] at h; split at h <;> simp at h; simp [kindMulti, h.2]
  | simple name conv =>
    cases conv with
    | none => simp only [hk] at h; simp at h; simp [kindMulti, h.2]
    | some cu =>
      simp only [hk] at h
      cases hc : t.conv c.conv (if cu.multi = true then "/".intercalate (List.drop level path) else path[level]?.getD "") with
      | none => simp [hc] at h
      | some v => simp [hc] at h; simp [kindMulti, h.2]
  | complex text convs nf =>
    simp only [hk] at h
    split at h
    · simp at h
    · split at h
      · simp at h
      · simp at h; simp [kindMulti, h.2]

theorem matchNode_lit_seg (t : Tables) (node : Node) (path : List String) (level : Nat) (ps : Dict) (c : Ctr)
    (r : Dict × Bool) (hl : isLit node = true) (h : matchNode t node path level ps c = some r) :
    path[level]?.getD "" = node.raw := by
  have hk := (isLit_kind node).mp hl
  unfold matchNode at h
  simp only [hk] at h
  split at h
  · rename_i heq; simpa using heq
  · simp at h

theorem findNodes_none_lits (t : Tables) (fuel : Nat) (path : List String) (level : Nat) (ps : Dict) :
    ∀ (nodes : List Node) (c : Ctr),
      (∀ n ∈ nodes, isLit n = true ∧ n.raw ≠ path[level]?.getD "") →
      findNodes fuel t nodes path level ps c = none := by
  intro nodes
  induction nodes with
  | nil => intro c _; rw [findNodes]
  | cons x xs ih =>
    intro c h
    rw [findNodes]
    have hx := h x (by simp)
    have hk := (isLit_kind x).mp hx.1
    have hm : matchNode t x path level ps c = none := by
      unfold matchNode
      simp only [hk]
      have : (path[level]?.getD "" == x.raw) = false := by
        simp; exact fun hc => hx.2 hc.symm
      simp [this]
    simp only [hm]
    exact ih _ (fun n hn => h n (by simp [hn]))

/-- in fast mode, once `node` has accepted the segment no later sibling can -/
theorem rest_none (t : Tables) (fuel : Nat) (path : List String) (level : Nat) (ps : Dict)
    (node : Node) (rest : List Node) (c c' : Ctr) (r : Dict × Bool)
    (hd : DistinctLits (node :: rest))
    (hf : (node :: rest).length ≤ 1 ∨ ∀ n ∈ node :: rest, isLit n = true)
    (hm : matchNode t node path level ps c = some r) :
    findNodes fuel t rest path level ps c' = none := by
  rcases hf with hlen | hall
  · have : rest = [] := by
      cases rest with
      | nil => rfl
      | cons y ys => simp at hlen
    subst this; rw [findNodes]
  · apply findNodes_none_lits
    intro n hn
    have hnl := hall n (by simp [hn])
    refine ⟨hnl, ?_⟩
    have hseg := matchNode_lit_seg t node path level ps c r (hall node (by simp)) hm
    rw [hseg]
    have := (List.pairwise_cons.mp hd).1 n hn (hall node (by simp)) hnl
    exact fun hc => this hc.symm

theorem fastOf_true (fast : Bool) (nodes : List Node) (h : fastOf fast nodes = true) :
    fast = true ∧ (nodes.length ≤ 1 ∨ ∀ n ∈ nodes, isLit n = true) := by
  unfold fastOf at h
  split at h
  · rename_i hc
    simp only [Bool.and_eq_true, decide_eq_true_eq] at hc
    refine ⟨hc.1, Or.inr ?_⟩
    intro n hn
    simp only [Bool.not_eq_true', List.any_eq_false] at h
    have := h n hn
    unfold isVar at this; unfold isLit
    simpa using this
  · rename_i hc
    simp only [Bool.and_eq_true, decide_eq_true_eq, not_and] at hc
    refine ⟨h, Or.inl ?_⟩
    have := hc h; omega

end Rt

namespace Rt
/-! ### the compiler-correctness induction -/

/-- `Agree` plus: an early `return None` only happens below the level guard -/
def AgreeA (n level : Nat) (fast : Bool) (e : Env) (out : Out) (spec : Option (Nat × Dict)) : Prop :=
  match spec with
  | some r => out = .ret (some r)
  | none => (fast = true ∧ out = .ret none ∧ level < e.path.length) ∨ ∃ e', out = .fall e' ∧ Frame n e e'

theorem Agree.of_frame {n : Nat} {fast : Bool} {e e1 : Env} {out : Out} {spec : Option (Nat × Dict)}
    (hf : Frame n e e1) (h : Agree n fast e1 out spec) : Agree n fast e out spec := by
  unfold Agree at *
  cases spec with
  | some r => exact h
  | none =>
    rcases h with h | ⟨e', h1, h2⟩
    · exact Or.inl h
    · exact Or.inr ⟨e', h1, hf.trans h2⟩

def okNode (t : Tables) (node : Node) (c : Ctr) : Prop :=
  ∀ text convs nf seg g, node.kind = .complex text convs nf → t.pmatch c.pat seg = some g → PopsOK convs g

mutual
def okSpec (fuel : Nat) (t : Tables) (nodes : List Node) (c : Ctr) : Prop :=
  match fuel with
  | 0 => True
  | f + 1 => okNodes f t (sortNodes nodes) c
termination_by (fuel, 0, 0)
def okNodes (fuel : Nat) (t : Tables) (nodes : List Node) (c : Ctr) : Prop :=
  match nodes with
  | [] => True
  | node :: rest => okNode t node c ∧ okSpec fuel t node.children (cInOf node c) ∧ okNodes fuel t rest (c.add (cntN node))
termination_by (fuel, 1, nodes.length)
end

def StmtA (t : Tables) (fuel : Nat) : Prop :=
  ∀ nodes stack level fast c e ps, e.params = [] → StackIdx stack stack.length → evalStack e stack [] = some ps →
    wfL nodes → dL nodes ≤ fuel → okSpec fuel t nodes c →
    AgreeA stack.length level fast e (execL t e (genAst fuel nodes stack level fast c).1)
      (findSpec fuel t nodes e.path level ps c)

def StmtN (t : Tables) (fuel : Nat) : Prop :=
  ∀ nodes stack level fast c e ps, e.params = [] → StackIdx stack stack.length → evalStack e stack [] = some ps →
    level < e.path.length → DistinctLits nodes → (∀ n ∈ nodes, wfN n) → dL nodes ≤ fuel + 1 →
    (fast = true → (nodes.length ≤ 1 ∨ ∀ n ∈ nodes, isLit n = true)) → okNodes fuel t nodes c →
    Agree stack.length fast e (execL t e (genNodes fuel nodes stack level fast c).1)
      (findNodes fuel t nodes e.path level ps c)

theorem stmtA_zero (t : Tables) : StmtA t 0 := by
  intro nodes stack level fast c e ps _ _ _ _ _ _
  simp only [genAst, execL, findSpec]
  exact Or.inr ⟨e, rfl, Frame.refl _ _⟩

theorem stmtA_succ (t : Tables) (f : Nat) (hN : StmtN t f) : StmtA t (f + 1) := by
  intro nodes stack level fast c e ps hpar hidx hev hwf hd hok
  rw [okSpec] at hok
  rw [genAst, findSpec]
  by_cases hempty : nodes.isEmpty = true
  · have : nodes = [] := by simpa using hempty
    subst this
    simp only [List.isEmpty_nil, if_true, execL]
    have : sortNodes [] = [] := by simp [sortNodes]
    split
    · rw [this, findNodes]; exact Or.inr ⟨e, rfl, Frame.refl _ _⟩
    · exact Or.inr ⟨e, rfl, Frame.refl _ _⟩
  · simp only [hempty, Bool.false_eq_true, if_false]
    by_cases hlen : e.path.length > level
    · simp only [hlen, if_true]
      simp only [execL, exec, decide_eq_true_eq, hlen, if_true, beq_self_eq_true]
      -- body
      have hNb := hN (sortNodes nodes) stack level (fastOf fast (sortNodes nodes)) c e ps hpar hidx hev hlen
        (distinct_sortNodes (distinct_of_wfL hwf))
        (fun n hn => wfL_mem hwf n (mem_sortNodes.mp hn))
        (dL_sortNodes_le _ _ hd)
        (fun hf => (fastOf_true _ _ hf).2) hok
      rw [execL_append]
      unfold Agree at hNb
      unfold AgreeA
      cases hs : findNodes f t (sortNodes nodes) e.path level ps c with
      | some r =>
        rw [hs] at hNb
        simp only [hNb]
      | none =>
        rw [hs] at hNb
        rcases hNb with ⟨hf, hout⟩ | ⟨e', hout, hfr⟩
        · simp only [hout]
          exact Or.inl ⟨(fastOf_true _ _ hf).1, by first | rfl | trivial, hlen⟩
        · simp only [hout]
          by_cases hc : ((!(sortNodes nodes).any fun n => sortKey n == 2) && fastOf fast (sortNodes nodes)) = true
          · have hc2 := hc
            simp only [Bool.and_eq_true] at hc2
            refine Or.inl ⟨(fastOf_true _ _ hc2.2).1, ?_, hlen⟩
            simp [hc, execL, exec]
          · refine Or.inr ⟨e', ?_, hfr⟩
            simp [hc, execL]
    · simp only [hlen, if_false]
      simp only [execL, exec, decide_eq_true_eq, hlen, if_false, beq_self_eq_true]
      exact Or.inr ⟨e, rfl, Frame.refl _ _⟩

end Rt

namespace Rt

theorem distinct_tail {x : Node} {xs : List Node} (h : DistinctLits (x :: xs)) : DistinctLits xs :=
  (List.pairwise_cons.mp h).2

theorem fast_tail {fast : Bool} {x : Node} {xs : List Node}
    (h : fast = true → ((x :: xs).length ≤ 1 ∨ ∀ n ∈ x :: xs, isLit n = true)) :
    fast = true → (xs.length ≤ 1 ∨ ∀ n ∈ xs, isLit n = true) := by
  intro hf
  rcases h hf with hl | ha
  · left; simp only [List.length_cons] at hl; omega
  · right; intro n hn; exact ha n (by simp [hn])

theorem stmtN_of_A (t : Tables) (f : Nat) (hA : StmtA t f) : StmtN t f := by
  intro nodes
  induction nodes with
  | nil =>
    intro stack level fast c e ps _ _ _ _ _ _ _ _ _
    rw [genNodes, findNodes]
    exact Or.inr ⟨e, rfl, Frame.refl _ _⟩
  | cons node rest ih =>
    intro stack0 level fast c e ps hpar hidx hev hlen hdist hwf hd hfast hok
    rw [okNodes] at hok
    obtain ⟨hok1, hok2, hok3⟩ := hok
    have hdl := (dL_le_iff (node :: rest) (f + 1)).mp hd
    have hch : dL node.children ≤ f := by
      have := hdl node (by simp); rw [dN_children] at this; omega
    have hrestd : dL rest ≤ f + 1 := (dL_le_iff rest (f + 1)).mpr (fun n hn => by
      have := hdl n (by simp [hn]); omega)
    rw [genNodes, findNodes]
    simp only
    -- counters handed to the remaining siblings
    have hc3 : (genAst f node.children (preamble node stack0 level c).stack (level + 1) fast
        (if node.hasRoute then { (preamble node stack0 level c).ctr with rv := (preamble node stack0 level c).ctr.rv + 1 }
          else (preamble node stack0 level c).ctr)).2 = c.add (cntN node) := by
      rw [(gen_ctr f).1 _ _ _ _ _ hch, cIn_eq, cntN_eq]
      simp only [cInOf, Ctr.add, Ctr.mk.injEq]; omega
    rw [hc3, cIn_eq]
    rw [execL_append]
    have hpre := pre_sem t node stack0 level c e ps hlen hpar hidx hev
      ((genAst f node.children (preamble node stack0 level c).stack (level + 1) fast (cInOf node c)).1 ++
        retCodeOf node (preamble node stack0 level c).stack level fast (preamble node stack0 level c).multi
          (preamble node stack0 level c).ctr.rv) hok1
    rw [← List.append_assoc] at hpre
    -- the IH for the remaining siblings, from any environment in the frame of `e`
    have hrest : ∀ e2, Frame stack0.length e e2 →
        Agree stack0.length fast e (execL t e2 (genNodes f rest stack0 level fast (c.add (cntN node))).1)
          (findNodes f t rest e.path level ps (c.add (cntN node))) := by
      intro e2 hfr
      have := ih stack0 level fast (c.add (cntN node)) e2 ps (by rw [hfr.params, hpar]) hidx
        (by rw [evalStack_frame e e2 _ hfr _ _ hidx]; exact hev) (by rw [hfr.path]; exact hlen)
        (distinct_tail hdist) (fun n hn => hwf n (by simp [hn])) hrestd (fast_tail hfast) hok3
      rw [hfr.path] at this
      exact Agree.of_frame hfr this
    cases hm : matchNode t node e.path level ps c with
    | none =>
      rw [hm] at hpre
      obtain ⟨e', hex, hfr⟩ := hpre
      simp only [hex]
      exact hrest e' hfr
    | some r =>
      obtain ⟨ps', multi⟩ := r
      rw [hm] at hpre
      obtain ⟨e1, hfr1, hpar1, hev1, hidx1, hle1, hmul, hex⟩ := hpre
      simp only [hex]
      have hrn : fast = true → findNodes f t rest e.path level ps (c.add (cntN node)) = none :=
        fun hf => rest_none t f e.path level ps node rest c _ (ps', multi) hdist (hfast hf) hm
      -- children
      have hAch := hA node.children (preamble node stack0 level c).stack (level + 1) fast (cInOf node c) e1 ps'
        hpar1 hidx1 hev1 (wfN_children (hwf node (by simp))) hch hok2
      rw [hfr1.path] at hAch
      rw [execL_append]
      unfold AgreeA at hAch
      cases hcs : findSpec f t node.children e.path (level + 1) ps' (cInOf node c) with
      | some r2 =>
        rw [hcs] at hAch
        simp only [hAch]
        exact rfl
      | none =>
        rw [hcs] at hAch
        simp only
        rcases hAch with ⟨hf, hout, hl2⟩ | ⟨e2, hout, hfr2⟩
        · -- children returned None early (fast): the node's own route cannot apply
          simp only [hout]
          have hnm : multi = false := by
            cases hmu : multi with
            | false => rfl
            | true =>
              exfalso
              have hk := matchNode_multi t node e.path level ps c ps' multi hm
              have hnil := wfN_multi (hwf node (by simp)) (by rw [← hk, hmu])
              rw [hnil] at hout
              cases f <;> simp [genAst, execL] at hout
          have hne : (e.path.length == level + 1) = false := by
            rw [hfr1.path] at hl2; simp; omega
          simp only [hnm, hne, Bool.or_self, Bool.and_false, Bool.false_eq_true, if_false]
          rw [hrn hf]
          exact Or.inl ⟨by first | rfl | exact hf, by first | rfl | trivial⟩
        · simp only [hout]
          have hfr12 : Frame stack0.length e e2 := hfr1.trans (hfr2.mono hle1)
          have hev2 : evalStack e2 (preamble node stack0 level c).stack e2.params = some ps' := by
            rw [hfr2.params, hpar1, evalStack_frame e1 e2 _ hfr2 _ _ hidx1]; exact hev1
          have hrv : (preamble node stack0 level c).ctr.rv = c.rv := by rw [preamble_ctr]
          unfold retCodeOf
          by_cases hr : node.hasRoute = true
          · simp only [hr, Bool.not_true, Bool.false_eq_true, if_false, Bool.true_and]
            by_cases hmu : multi = true
            · rw [hmul]; simp only [hmu, if_true, Bool.true_or]
              rw [exec_stack_ret t _ _ e2 ps' hev2, hrv]
              exact rfl
            · have hmf : multi = false := by simpa using hmu
              rw [hmul]; simp only [hmf, Bool.false_eq_true, if_false, Bool.false_or]
              by_cases hl : e.path.length = level + 1
              · have hb : (e.path.length == level + 1) = true := by simp [hl]
                simp only [hb, if_true]
                rw [execL_append]
                have : execL t e2 [Cx.ifPathLen "==" (level + 1) ((preamble node stack0 level c).stack ++ [Cx.retVal (preamble node stack0 level c).ctr.rv])]
                    = .ret (some (c.rv, ps')) := by
                  simp only [execL, exec, hfr12.path, hl, beq_self_eq_true, if_true]
                  have hx := exec_stack_ret t (preamble node stack0 level c).ctr.rv _ e2 ps' hev2
                  rw [hx, hrv]; simp
                simp only [this]
                exact rfl
              · have hb : (e.path.length == level + 1) = false := by simp [hl]
                simp only [hb, Bool.false_eq_true, if_false]
                rw [execL_append]
                have : execL t e2 [Cx.ifPathLen "==" (level + 1) ((preamble node stack0 level c).stack ++ [Cx.retVal (preamble node stack0 level c).ctr.rv])]
                    = .fall e2 := by
                  simp only [execL, exec, hfr12.path]
                  simp [hl]
                simp only [this]
                by_cases hf : fast = true
                · simp only [hf, if_true, execL, exec]
                  rw [hrn hf]
                  exact Or.inl ⟨by first | rfl | exact hf, by first | rfl | trivial⟩
                · have hff : fast = false := by simpa using hf
                  simp only [hff, Bool.false_eq_true, if_false, execL]
                  have := hrest e2 hfr12
                  rw [hff] at this
                  exact this
          · have hrf : node.hasRoute = false := by simpa using hr
            simp only [hrf, Bool.not_false, if_true, Bool.false_and, Bool.false_eq_true, if_false]
            by_cases hf : fast = true
            · simp only [hf, if_true, execL, exec]
              rw [hrn hf]
              exact Or.inl ⟨by first | rfl | exact hf, by first | rfl | trivial⟩
            · have hff : fast = false := by simpa using hf
              simp only [hff, Bool.false_eq_true, if_false, execL]
              have := hrest e2 hfr12
              rw [hff] at this
              exact this

end Rt

namespace Rt

theorem sem (t : Tables) : ∀ f : Nat, StmtA t f ∧ StmtN t f := by
  intro f
  induction f with
  | zero => exact ⟨stmtA_zero t, stmtN_of_A t 0 (stmtA_zero t)⟩
  | succ f ih =>
    have hA := stmtA_succ t f ih.2
    exact ⟨hA, stmtN_of_A t (f + 1) hA⟩

/-- **C01 `compile_correct`**: for every table of runtime-owned functions, every well-formed tree and
    every path, running the generated finder equals the plain depth-first walk of the template tree. -/
theorem compile_correct (t : Tables) (roots : List Node) (path : List String) (hwf : wfL roots)
    (hok : okSpec (dL roots + 1) t roots {}) :
    runFinder t roots path = .ret (runSpec t roots path) := by
  unfold runFinder runSpec
  have h := (sem t (dL roots + 1)).1 roots [] 0 true {} { path := path } [] rfl trivial rfl hwf (by omega) hok
  simp only at h ⊢
  unfold AgreeA at h
  cases hs : findSpec (dL roots + 1) t roots path 0 [] {} with
  | some r =>
    rw [hs] at h
    simp only [h]
  | none =>
    rw [hs] at h
    rcases h with ⟨_, hout, _⟩ | ⟨e', hout, _⟩
    · simp only [hout]
    · simp only [hout]

#print axioms compile_correct
end Rt

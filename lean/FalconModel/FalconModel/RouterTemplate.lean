import FalconModel.RouterHist
/-! C01: what `CompiledRouter.add_route` does with the raw URI template BEFORE `insert()` — the whitespace check, the
    split on '/', `_validate_template_segment` (`_FIELD_PATTERN.finditer`, `_IDENTIFIER_PATTERN`, `keyword.kwlist`, duplicate
    field names across the whole template, missing / unknown / uninstantiable converter) — and what `CompiledRouterNode(segment)`
    derives from one raw segment (`is_var`, `is_complex`, `var_converter_map`, `_FIELD_PATTERN.sub('v', …)`, the pattern text).
    Strings are lists of code points.  Runtime-owned: which converter names are registered, whether `eval('Klass(argstr)')`
    raises, and whether the class consumes multiple segments (`Cenv`, table-fed by the harness).

    `_FIELD_PATTERN = '{((?P<fname>[^}:]*)((?P<cname_sep>:(?P<cname>[^}\(]*))(\((?P<argstr>[^}]*)\))?)?)}'`
    The backtracking matcher is deterministic on this pattern: `fname` is the maximal run of `[^}:]` (a shorter run is followed
    by a character that is neither ':' nor '}'); after ':' `cname` is the maximal run of `[^}(]` (same argument); after '('
    the greedy `[^}]*` must give back characters until `\)` `}` match, which is possible only if the maximal run ends in ')' and
    is followed by '}' — then `argstr` is the run without that last ')'. -/
namespace Rv

abbrev Str := List Char

/-- one match of `_FIELD_PATTERN`: `group('fname')`, `group('cname')` (`none` when the `:` part did not take part) and
    `group('argstr')` (`none` when the parenthesis part did not take part) -/
structure Field where
  fname : Str
  cname : Option Str
  argstr : Option Str
deriving DecidableEq, Repr

/-- `_FIELD_PATTERN.match(s)` (anchored at the start of `s`): the groups and the text after the match -/
def matchField : Str → Option (Field × Str)
  | '{' :: r =>
    let fname := r.takeWhile (fun c => c != '}' && c != ':')
    match r.dropWhile (fun c => c != '}' && c != ':') with
    | '}' :: r2 => some ({ fname := fname, cname := none, argstr := none }, r2)
    | ':' :: r2 =>
      let cname := r2.takeWhile (fun c => c != '}' && c != '(')
      match r2.dropWhile (fun c => c != '}' && c != '(') with
      | '}' :: r4 => some ({ fname := fname, cname := some cname, argstr := none }, r4)
      | '(' :: r4 =>
        let run := r4.takeWhile (fun c => c != '}')
        match r4.dropWhile (fun c => c != '}') with
        | '}' :: r6 =>
          if run.getLast? == some ')' then some ({ fname := fname, cname := some cname, argstr := some run.dropLast }, r6)
          else none
        | _ => none
      | _ => none
    | _ => none
  | _ => none

/-- the text cut into `_FIELD_PATTERN.finditer` matches and the characters between them -/
inductive Tok where
  | ch (c : Char)
  | field (f : Field)
deriving DecidableEq, Repr

/-- `finditer`: try the pattern at every position, resume after a match (a match is never empty: it starts with '{').
    `fuel` bounds the number of steps (one character or one match per step). -/
def tokensF : Nat → Str → List Tok
  | 0, _ => []
  | _, [] => []
  | n + 1, c :: r =>
    match matchField (c :: r) with
    | some (f, rest) => .field f :: tokensF n rest
    | none => .ch c :: tokensF n r

def tokens (s : Str) : List Tok := tokensF s.length s

def fieldsOf : List Tok → List Field
  | [] => []
  | .ch _ :: r => fieldsOf r
  | .field f :: r => f :: fieldsOf r

/-- `re` `\s` on `str` (`Py_UNICODE_ISSPACE`) -/
def isSpace (c : Char) : Bool :=
  let n := c.toNat
  (9 ≤ n && n ≤ 13) || (28 ≤ n && n ≤ 32) || n == 0x85 || n == 0xA0 || n == 0x1680 || (0x2000 ≤ n && n ≤ 0x200A)
  || n == 0x2028 || n == 0x2029 || n == 0x202F || n == 0x205F || n == 0x3000

/-- `re.search(r'\s', _FIELD_PATTERN.sub('{FIELD}', uri_template))`: the replacement text has no whitespace -/
def hasWs : List Tok → Bool
  | [] => false
  | .ch c :: r => isSpace c || hasWs r
  | .field _ :: r => hasWs r

/-- `_FIELD_PATTERN.sub('v', segment)` -/
def shapeOf : List Tok → Str
  | [] => []
  | .ch c :: r => c :: shapeOf r
  | .field _ :: r => 'v' :: shapeOf r

def isIdStart (c : Char) : Bool := ('A' ≤ c && c ≤ 'Z') || ('a' ≤ c && c ≤ 'z') || c == '_'
def isIdCont (c : Char) : Bool := isIdStart c || ('0' ≤ c && c ≤ '9')

/-- `[A-Za-z_][A-Za-z0-9_]*` on the whole string -/
def isIdent : Str → Bool
  | [] => false
  | c :: r => isIdStart c && r.all isIdCont

/-- `_IDENTIFIER_PATTERN.match(name)` with `_IDENTIFIER_PATTERN = r'[A-Za-z_][A-Za-z0-9_]*\Z'` (fix 84476b0): the greedy run
    must reach the end of the string -/
def identMatch : Str → Bool
  | [] => false
  | c :: r => isIdStart c && (r.dropWhile isIdCont).isEmpty

/-- the pattern before fix 84476b0, `'[A-Za-z_][A-Za-z0-9_]*$'`: `$` also matches just before a newline that ends the
    string (F34; only used for the regression witness) -/
def identMatchPinned : Str → Bool
  | [] => false
  | c :: r => isIdStart c &&
    (match r.dropWhile isIdCont with
     | [] => true
     | [x] => x == '\n'
     | _ => false)

/-- `keyword.kwlist` (CPython 3.12; the harness compares this table with the running interpreter's) -/
def kwlist : List Str := [
  "False", "None", "True", "and", "as", "assert", "async", "await", "break", "class", "continue", "def", "del", "elif",
  "else", "except", "finally", "for", "from", "global", "if", "import", "in", "is", "lambda", "nonlocal", "not", "or",
  "pass", "raise", "return", "try", "while", "with", "yield"].map String.toList

def isKeyword (s : Str) : Bool := kwlist.contains s

/-- runtime-owned facts about converters -/
structure Cenv where
  known : Str → Bool                     -- `name in self._converter_map`
  inst : Str → Option Str → Bool         -- `self._instantiate_converter(self._converter_map[name], argstr)` does not raise
  multi : Str → Bool                     -- `converters._consumes_multiple_segments(self._converter_map[name])`

/-- the `UnacceptableRouteError`s raised before `insert()` -/
inductive Rej where
  | whitespace | identifier | duplicate | missingConv | unknownConv | badConvArgs
deriving DecidableEq, Repr

/-- the body of the `for field in _FIELD_PATTERN.finditer(segment)` loop; `used` is `used_names` -/
def validateFields (cenv : Cenv) : List Field → List Str → Except Rej (List Str)
  | [], used => .ok used
  | f :: fs, used =>
    if !identMatch f.fname || isKeyword f.fname then .error .identifier
    else if used.contains f.fname then .error .duplicate
    else
      match f.cname with
      | none => validateFields cenv fs (used ++ [f.fname])
      | some cn =>
        if cn.isEmpty then .error .missingConv                -- `field.group('cname_sep') == ':'`
        else if !cenv.known cn then .error .unknownConv
        else if !cenv.inst cn f.argstr then .error .badConvArgs
        else validateFields cenv fs (used ++ [f.fname])

/-- `for segment in path: self._validate_template_segment(segment, used_names)` -/
def validateSegs (cenv : Cenv) : List Str → List Str → Except Rej (List Str)
  | [], used => .ok used
  | s :: ss, used =>
    match validateFields cenv (fieldsOf (tokens s)) used with
    | .error k => .error k
    | .ok used' => validateSegs cenv ss used'

/-- `str.split('/')` -/
def splitSlash : Str → List Str
  | [] => [[]]
  | c :: r =>
    if c == '/' then [] :: splitSlash r
    else match splitSlash r with
      | h :: t => (c :: h) :: t
      | [] => [[c]]

/-- `uri_template.lstrip('/')` -/
def lstrip (s : Str) : Str := s.dropWhile (· == '/')

/-- what `CompiledRouterNode(raw_segment)` and `find_cmp_converter` derive from one raw segment -/
structure SegRec where
  raw : Str
  isVar : Bool
  isComplex : Bool
  fields : List Str                               -- field names in order (`var_name` / the pattern's groups)
  convs : List (Str × Str × Option Str)           -- `var_converter_map`: (fname, cname, argstr) of the fields with a converter
  shape : Str                                     -- `_FIELD_PATTERN.sub('v', raw)`
  cpc : Bool                                      -- `find_cmp_converter(node) is not None`
deriving DecidableEq, Repr

def convsOf : List Field → List (Str × Str × Option Str)
  | [] => []
  | f :: fs =>
    match f.cname with
    | some cn => if cn.isEmpty then convsOf fs else (f.fname, cn, f.argstr) :: convsOf fs
    | none => convsOf fs

/-- `matches[0].span() == (0, len(raw_segment))`: the segment is exactly one field -/
def singleField : List Tok → Bool
  | [.field _] => true
  | _ => false

def segRec (cenv : Cenv) (raw : Str) : SegRec :=
  let toks := tokens raw
  let fs := fieldsOf toks
  { raw := raw, isVar := !fs.isEmpty, isComplex := !fs.isEmpty && !singleField toks,
    fields := fs.map (·.fname), convs := convsOf fs, shape := shapeOf toks,
    cpc := (convsOf fs).any (fun c => cenv.multi c.2.1) }

/-- `add_route` up to (excluding) `insert(self._roots)` -/
def validate (cenv : Cenv) (t : Str) : Except Rej (List SegRec) :=
  if hasWs (tokens t) then .error .whitespace
  else
    match validateSegs cenv (splitSlash (lstrip t)) [] with
    | .error k => .error k
    | .ok _ => .ok ((splitSlash (lstrip t)).map (segRec cenv))

/-! ### the pattern text of a complex segment -/

def reSpecial (c : Char) : Bool :=
  c == '.' || c == '(' || c == ')' || c == '[' || c == ']' || c == '?' || c == '$' || c == '*' || c == '+' || c == '^'
  || c == '|' || c == '\\'

/-- `re.sub(r'[\.\(\)\[\]\?\$\*\+\^\|\\]', r'\\\g<0>', raw_segment)` -/
def escapeRe : Str → Str
  | [] => []
  | c :: r => if reSpecial c then '\\' :: c :: escapeRe r else c :: escapeRe r

/-- `_FIELD_PATTERN.sub(r'(?P<\2>.+)', escaped_segment)` -/
def subPat : List Tok → Str
  | [] => []
  | .ch c :: r => c :: subPat r
  | .field f :: r => "(?P<".toList ++ f.fname ++ ">.+)".toList ++ subPat r

/-- `'^' + pattern_text + r'\Z'` (fix c86a3b1, F50: `\Z`, not `$`, which also matches before a segment-final line feed) -/
def patText (raw : Str) : Str := '^' :: subPat (tokens (escapeRe raw)) ++ ['\\', 'Z']

/-! ### identities of raw segment texts as numbers (`Ri.Seg.raw`, `Ri.Seg.shape` are numbers) -/

/-- injective numbering of strings: little-endian base 0x110001 with digits `code point + 1` -/
def enc : Str → Nat
  | [] => 0
  | c :: cs => (c.toNat + 1) + 1114113 * enc cs

def decF : Nat → Nat → Str
  | 0, _ => []
  | f + 1, n => if n = 0 then [] else Char.ofNat (n % 1114113 - 1) :: decF f (n / 1114113)

def dec (n : Nat) : Str := decF n n

def toSeg (r : SegRec) : Ri.Seg :=
  { raw := enc r.raw, isVar := r.isVar, isComplex := r.isComplex, shape := enc r.shape, cpc := r.cpc }

/-- the node kind the code generator sees (`Rt.Kind`) -/
def kindOf (cenv : Cenv) (r : SegRec) : Rt.Kind :=
  if !r.isVar then .lit
  else if !r.isComplex then
    .simple (String.ofList (r.fields.headD []))
      (match r.convs with
       | c :: _ => some { field := String.ofList c.1, multi := cenv.multi c.2.1 }
       | [] => none)
  else
    .complex (String.ofList (patText r.raw))
      (r.convs.map fun c => { field := String.ofList c.1, multi := cenv.multi c.2.1 }) r.fields.length

/-- the segment table `Rh.toNodes` reads the tree through: id ↦ (raw text, kind), computed from the text itself -/
def kOf (cenv : Cenv) (n : Nat) : String × Rt.Kind :=
  (String.ofList (dec n), kindOf cenv (segRec cenv (dec n)))

/-! ### `add_route` = validation ; `insert` (repaired code) -/

inductive Verdict where
  | ok
  | rej (k : Rej)        -- raised by the validation, before `insert()`
  | rejInsert            -- raised inside `insert()` (conflict, path converter not last / inside a multi-field segment)
deriving DecidableEq, Repr

def addRoute (cenv : Cenv) (route : Nat) (tmpl : Str) (tree : List Ri.Tree) : List Ri.Tree × Verdict :=
  match validate cenv tmpl with
  | .error k => (tree, .rej k)
  | .ok recs =>
    let r := Ri.insert true route (recs.map toSeg) tree
    (r.1, if r.2 then .ok else .rejInsert)

/-- one call: route id and raw template -/
abbrev Call := Nat × Str

def runT (cenv : Cenv) : List Ri.Tree → List Call → List Ri.Tree
  | t, [] => t
  | t, a :: h => runT cenv (addRoute cenv a.1 a.2 t).1 h

/-- the calls that returned normally -/
def acceptedT (cenv : Cenv) : List Ri.Tree → List Call → List Call
  | _, [] => []
  | t, a :: h =>
    if (addRoute cenv a.1 a.2 t).2 = .ok then a :: acceptedT cenv (addRoute cenv a.1 a.2 t).1 h
    else acceptedT cenv (addRoute cenv a.1 a.2 t).1 h

end Rv

import FalconModel.RouterTemplateProofs
import FalconModel.RouterHistProofs
/-! C01: `add_route` over RAW template strings = native validation (`Rv.validate`) ; `Ri.insert`.  A call rejected by the
    validation never reaches `insert`; rejected calls can be removed from a history; the segment table that
    `Rh.history_compile_correct` took as a hypothesis (`hinj`, `hcons`) is computed from the text, so the end-to-end
    statement holds for every history of raw templates without side conditions on the table. -/
namespace Rv
open Ri Rh

theorem char_toNat_lt (c : Char) : c.toNat < 1114112 := by
  have := c.valid
  simp only [Char.toNat]
  rcases this with h | h
  · have : c.val.toNat < 55296 := h
    omega
  · have : c.val.toNat < 1114112 := h.2
    omega

theorem enc_ge_length : ∀ s : Str, s.length ≤ enc s := by
  intro s
  induction s with
  | nil => simp [enc]
  | cons c cs ih => simp only [enc, List.length_cons]; omega

theorem decF_enc : ∀ (s : Str) (f : Nat), s.length ≤ f → decF f (enc s) = s := by
  intro s
  induction s with
  | nil => intro f _; cases f <;> simp [decF, enc]
  | cons c cs ih =>
    intro f hf
    cases f with
    | zero => simp at hf
    | succ f =>
      have hc := char_toNat_lt c
      have he : enc (c :: cs) = c.toNat + 1 + 1114113 * enc cs := rfl
      have h0 : ¬ (enc (c :: cs) = 0) := by omega
      have h1 : enc (c :: cs) % 1114113 = c.toNat + 1 := by omega
      have h2 : enc (c :: cs) / 1114113 = enc cs := by omega
      simp only [decF]
      rw [if_neg h0, h1, h2, ih f (by simpa using hf)]
      simp [Char.ofNat_toNat]

theorem dec_enc (s : Str) : dec (enc s) = s := decF_enc s _ (enc_ge_length s)

theorem enc_inj {a b : Str} (h : enc a = enc b) : a = b := by
  rw [← dec_enc a, ← dec_enc b, h]

/-! ### `add_route` = validation ; insert -/

/-- **`rejected_before_insert_unchanged`**: a template rejected by the validation does not reach `insert`: the composed
    `addRoute` returns the tree it was given -/
theorem rejected_before_insert_unchanged (cenv : Cenv) (route : Nat) (t : Str) (tree : List Tree) (k : Rej)
    (h : validate cenv t = .error k) : addRoute cenv route t tree = (tree, .rej k) := by
  simp only [addRoute, h]

/-- a call that raises — in the validation or inside `insert` — leaves the tree as it was -/
theorem addRoute_rejected_unchanged (cenv : Cenv) (route : Nat) (t : Str) (tree : List Tree)
    (h : (addRoute cenv route t tree).2 ≠ .ok) : (addRoute cenv route t tree).1 = tree := by
  unfold addRoute at h ⊢
  split
  · rfl
  · rename_i recs hv
    simp only [hv] at h
    cases hi : (insert true route (recs.map toSeg) tree).2 with
    | true => simp [hi] at h
    | false => exact rejected_insert_unchanged route _ tree hi

theorem addRoute_history_rejected_removed (cenv : Cenv) : ∀ (h : List Call) (t : List Tree),
    runT cenv t h = runT cenv t (acceptedT cenv t h) := by
  intro h
  induction h with
  | nil => intro t; rfl
  | cons a h ih =>
    intro t
    by_cases hacc : (addRoute cenv a.1 a.2 t).2 = .ok
    · simp only [acceptedT, hacc, if_true, runT]
      exact ih _
    · have hu := addRoute_rejected_unchanged cenv a.1 a.2 t hacc
      simp only [acceptedT, hacc, if_false, runT]
      rw [hu]
      exact ih t

/-- the calls that get past the validation, as `insert` sees them -/
def lower (cenv : Cenv) : List Call → List Add
  | [] => []
  | a :: h =>
    match validate cenv a.2 with
    | .error _ => lower cenv h
    | .ok recs => (a.1, recs.map toSeg) :: lower cenv h

theorem runT_eq_runH (cenv : Cenv) : ∀ (h : List Call) (t : List Tree), runT cenv t h = runH true t (lower cenv h) := by
  intro h
  induction h with
  | nil => intro t; rfl
  | cons a h ih =>
    intro t
    cases hv : validate cenv a.2 with
    | error k =>
      simp only [runT, lower, addRoute, hv]
      exact ih t
    | ok recs =>
      simp only [runT, lower, addRoute, hv, runH]
      exact ih _

/-! ### the segment table is computed from the text: the hypotheses of `Rh.history_compile_correct` become theorems -/

/-- the segment record was derived from a raw text -/
def FromText (cenv : Cenv) (s : Seg) : Prop := ∃ raw, s = toSeg (segRec cenv raw)

theorem kOf_enc (cenv : Cenv) (raw : Str) : kOf cenv (enc raw) = (String.ofList raw, kindOf cenv (segRec cenv raw)) := by
  simp only [kOf, dec_enc]

theorem kindOf_multi (cenv : Cenv) (r : SegRec) (hm : Rt.kindMulti (kindOf cenv r) = true) :
    r.convs.any (fun c => cenv.multi c.2.1) = true := by
  unfold kindOf at hm
  split at hm
  · simp [Rt.kindMulti] at hm
  · split at hm
    · cases hc : r.convs with
      | nil => simp [hc, Rt.kindMulti] at hm
      | cons c cs =>
        simp only [hc, Rt.kindMulti] at hm
        simp [hm]
    · simp [Rt.kindMulti] at hm

theorem cons_of_fromText (cenv : Cenv) (s : Seg) (h : FromText cenv s) : Cons (kOf cenv) s := by
  obtain ⟨raw, rfl⟩ := h
  unfold Cons
  simp only [toSeg, kOf_enc]
  intro hm
  exact kindOf_multi cenv _ hm

theorem lower_fromText (cenv : Cenv) : ∀ (h : List Call), ∀ a ∈ lower cenv h, ∀ s ∈ a.2, FromText cenv s := by
  intro h
  induction h with
  | nil => intro a ha; simp [lower] at ha
  | cons c h ih =>
    intro a ha
    unfold lower at ha
    split at ha
    · exact ih a ha
    · rename_i recs hv
      rcases List.mem_cons.mp ha with rfl | ha
      · intro s hs
        obtain ⟨_, hr, _⟩ := validate_ok cenv _ _ hv
        simp only [List.mem_map] at hs
        obtain ⟨r, hr', rfl⟩ := hs
        rw [hr] at hr'
        simp only [List.mem_map] at hr'
        obtain ⟨raw, _, rfl⟩ := hr'
        exact ⟨raw, rfl⟩
      · exact ih a ha

theorem WfL_mem (P : Seg → Prop) : ∀ (ts : List Tree), WfL P ts → ∀ u ∈ ts, WfT P u := by
  intro ts
  induction ts with
  | nil => intro _ u hu; simp at hu
  | cons t ts ih =>
    intro h u hu
    simp only [WfL] at h
    rcases List.mem_cons.mp hu with rfl | hu
    · exact h.1
    · exact ih h.2.2 u hu

theorem WfT_seg (P : Seg → Prop) (t : Tree) (h : WfT P t) : P t.seg := by
  cases t; simp only [WfT] at h; exact h.1

mutual
theorem wfN_toNode_on (k : Nat → String × Rt.Kind) (R : Seg → Prop)
    (hinj : ∀ a b, R a → R b → (k a.raw).1 = (k b.raw).1 → a.raw = b.raw) (hc : ∀ s, R s → Cons k s) :
    ∀ (t : Tree), WfT R t → Rt.wfN (toNode k t)
  | .node s r ch, h => by
    simp only [WfT] at h
    simp only [toNode, Rt.wfN]
    refine ⟨wfL_toNodes_on k R hinj hc ch h.2.1, ?_⟩
    intro hm
    rw [h.2.2 (hc s h.1 hm)]
    rfl
theorem wfL_toNodes_on (k : Nat → String × Rt.Kind) (R : Seg → Prop)
    (hinj : ∀ a b, R a → R b → (k a.raw).1 = (k b.raw).1 → a.raw = b.raw) (hc : ∀ s, R s → Cons k s) :
    ∀ (ts : List Tree), WfL R ts → Rt.wfL (toNodes k ts)
  | [], _ => by simp [toNodes, Rt.wfL]
  | t :: ts, h => by
    simp only [WfL] at h
    simp only [toNodes, Rt.wfL]
    refine ⟨wfN_toNode_on k R hinj hc t h.1, ?_, wfL_toNodes_on k R hinj hc ts h.2.2⟩
    intro m hm _ _ heq
    obtain ⟨u, hu, rfl⟩ := mem_toNodes k ts m hm
    rw [toNode_raw, toNode_raw] at heq
    exact h.2.1 u hu (hinj _ _ (WfT_seg R t h.1) (WfT_seg R u (WfL_mem R ts h.2.2 u hu)) heq)
end

theorem kOf_inj_on (cenv : Cenv) (a b : Seg) (ha : FromText cenv a) (hb : FromText cenv b)
    (h : (kOf cenv a.raw).1 = (kOf cenv b.raw).1) : a.raw = b.raw := by
  obtain ⟨ra, rfl⟩ := ha
  obtain ⟨rb, rfl⟩ := hb
  simp only [toSeg, kOf_enc] at h ⊢
  have : ra = rb := String.ofList_inj.mp h
  have e1 : (segRec cenv ra).raw = ra := rfl
  have e2 : (segRec cenv rb).raw = rb := rfl
  rw [e1, e2, this]

/-- every tree built by any history of `add_route` calls over raw templates is one `compile_correct` applies to -/
theorem runT_wfL (cenv : Cenv) (h : List Call) : Rt.wfL (toNodes (kOf cenv) (runT cenv [] h)) := by
  rw [runT_eq_runH]
  exact wfL_toNodes_on (kOf cenv) (FromText cenv) (kOf_inj_on cenv) (cons_of_fromText cenv) _
    (runH_wf (FromText cenv) true _ [] (lower_fromText cenv h) (by simp [WfL]))

/-- **END-TO-END over raw template strings**: for every converter environment, every history of `add_route(template)`
    calls on the empty router (accepted, rejected by the validation, rejected inside `insert`), every table of `re` /
    converter behaviour and every path, the generated finder returns exactly the depth-first walk of the resulting tree.
    The segment table is `kOf` — computed from the raw texts by the native parser — so no hypothesis about it is left. -/
theorem addRoute_history_compile_correct (cenv : Cenv) (h : List Call) (t : Rt.Tables) (path : List String)
    (hok : Rt.okSpec (Rt.dL (toNodes (kOf cenv) (runT cenv [] h)) + 1) t (toNodes (kOf cenv) (runT cenv [] h)) {}) :
    Rt.runFinder t (toNodes (kOf cenv) (runT cenv [] h)) path
      = .ret (Rt.runSpec t (toNodes (kOf cenv) (runT cenv [] h)) path) :=
  Rt.compile_correct t _ path (runT_wfL cenv h) hok

/-- **`addRoute_history_lookup_eq`**: lookups after a history of raw templates = lookups after the history with every
    rejected call (validation or `insert`) removed -/
theorem addRoute_history_lookup_eq (cenv : Cenv) (h : List Call) (t : Rt.Tables) (path : List String) :
    Rt.runFinder t (toNodes (kOf cenv) (runT cenv [] h)) path
      = Rt.runFinder t (toNodes (kOf cenv) (runT cenv [] (acceptedT cenv [] h))) path := by
  rw [← addRoute_history_rejected_removed]

example : (addRoute cenv0 7 "/a/{x}/{x}".toList []).2 = .rej .duplicate := by decide
example : (addRoute cenv0 7 "/{p:path}/b".toList []).2 = .rejInsert := by decide
example : (acceptedT cenv0 [] [(0, "/a/{x}".toList), (1, "/a/{y}".toList), (2, "/a/{x:}".toList), (3, "/a/b c".toList),
    (4, "/a/{x}/b".toList)]).map (·.1) = [0, 4] := by decide
end Rv

import FalconModel.RouterTemplate
/-! C01: the native template parser/validator (`Rv`): totality, "accepted ⇒ distinct identifier field names, none a
    keyword", converter facts, split/join. -/
namespace Rv

/-! ### split / join -/
def joinSlash : List Str → Str
  | [] => []
  | [a] => a
  | a :: b :: r => a ++ '/' :: joinSlash (b :: r)

theorem splitSlash_ne_nil (s : Str) : splitSlash s ≠ [] := by
  induction s with
  | nil => simp [splitSlash]
  | cons c r ih =>
    unfold splitSlash
    split
    · simp
    · split <;> simp

theorem joinSlash_cons_head (c : Char) (h : Str) (t : List Str) : joinSlash ((c :: h) :: t) = c :: joinSlash (h :: t) := by
  cases t <;> simp [joinSlash]

theorem joinSlash_splitSlash (s : Str) : joinSlash (splitSlash s) = s := by
  induction s with
  | nil => simp [splitSlash, joinSlash]
  | cons c r ih =>
    unfold splitSlash
    split
    · rename_i hc
      have : c = '/' := by simpa using hc
      subst this
      cases hr : splitSlash r with
      | nil => exact absurd hr (splitSlash_ne_nil r)
      | cons h t => rw [hr] at ih; simp [joinSlash, ih]
    · cases hr : splitSlash r with
      | nil => exact absurd hr (splitSlash_ne_nil r)
      | cons h t => rw [hr] at ih; simp only [joinSlash_cons_head, ih]

theorem splitSlash_no_slash (s : Str) : ∀ seg ∈ splitSlash s, '/' ∉ seg := by
  induction s with
  | nil => simp [splitSlash]
  | cons c r ih =>
    unfold splitSlash
    split
    · intro seg hseg
      simp only [List.mem_cons] at hseg
      rcases hseg with rfl | hseg
      · simp
      · exact ih seg hseg
    · rename_i hc
      cases hr : splitSlash r with
      | nil => exact absurd hr (splitSlash_ne_nil r)
      | cons h t =>
        rw [hr] at ih
        intro seg hseg
        simp only [List.mem_cons] at hseg
        rcases hseg with rfl | hseg
        · have := ih h (by simp)
          simp only [List.mem_cons, not_or]
          exact ⟨fun e => hc (by subst e; simp), this⟩
        · exact ih seg (by simp [hseg])

/-! ### the validation loop -/

/-- the names a list of fields contributes to `used_names` -/
def namesOf (fs : List Field) : List Str := fs.map (·.fname)

/-- what a field must satisfy to pass `_validate_template_segment` -/
def FieldOk (cenv : Cenv) (f : Field) : Prop :=
  identMatch f.fname = true ∧ isKeyword f.fname = false ∧
  (∀ cn, f.cname = some cn → cn ≠ [] ∧ cenv.known cn = true ∧ cenv.inst cn f.argstr = true)

theorem validateFields_ok (cenv : Cenv) : ∀ (fs : List Field) (used used' : List Str),
    validateFields cenv fs used = .ok used' →
    used' = used ++ namesOf fs ∧ (∀ f ∈ fs, FieldOk cenv f) ∧ (used.Nodup → used'.Nodup) := by
  intro fs
  induction fs with
  | nil =>
    intro used used' h
    simp only [validateFields, Except.ok.injEq] at h
    subst h
    simp [namesOf]
  | cons f fs ih =>
    intro used used' h
    unfold validateFields at h
    split at h
    · cases h
    · rename_i h1
      split at h
      · cases h
      · rename_i h2
        simp only [Bool.or_eq_true, Bool.not_eq_eq_eq_not, Bool.not_true, not_or, Bool.not_eq_false, Bool.not_eq_true] at h1
        have hnew : used.Nodup → (used ++ [f.fname]).Nodup := by
          intro hu
          rw [List.nodup_append]
          refine ⟨hu, by simp, ?_⟩
          intro a ha b hb
          simp only [List.mem_singleton] at hb
          subst hb
          intro e; subst e
          exact h2 (by simpa using ha)
        split at h
        · rename_i hc
          obtain ⟨e, hall, hn⟩ := ih _ _ h
          refine ⟨by simp [e, namesOf], ?_, fun hu => hn (hnew hu)⟩
          intro g hg
          rcases List.mem_cons.mp hg with rfl | hg
          · exact ⟨h1.1, h1.2, fun cn hcn => by rw [hc] at hcn; cases hcn⟩
          · exact hall g hg
        · rename_i cn hc
          split at h
          · cases h
          · rename_i h3
            split at h
            · cases h
            · rename_i h4
              split at h
              · cases h
              · rename_i h5
                obtain ⟨e, hall, hn⟩ := ih _ _ h
                refine ⟨by simp [e, namesOf], ?_, fun hu => hn (hnew hu)⟩
                intro g hg
                rcases List.mem_cons.mp hg with rfl | hg
                · refine ⟨h1.1, h1.2, fun cn' hcn => ?_⟩
                  rw [hc] at hcn
                  cases hcn
                  refine ⟨?_, by simpa using h4, by simpa using h5⟩
                  intro e; subst e; simp at h3
                · exact hall g hg

/-- all fields of a list of segments, in template order -/
def allFields (segs : List Str) : List Field := segs.flatMap (fun s => fieldsOf (tokens s))

theorem validateSegs_ok (cenv : Cenv) : ∀ (segs : List Str) (used used' : List Str),
    validateSegs cenv segs used = .ok used' →
    used' = used ++ namesOf (allFields segs) ∧ (∀ f ∈ allFields segs, FieldOk cenv f) ∧ (used.Nodup → used'.Nodup) := by
  intro segs
  induction segs with
  | nil =>
    intro used used' h
    simp only [validateSegs, Except.ok.injEq] at h
    subst h
    simp [namesOf, allFields]
  | cons s ss ih =>
    intro used used' h
    unfold validateSegs at h
    split at h
    · cases h
    · rename_i u1 h1
      obtain ⟨e1, a1, n1⟩ := validateFields_ok cenv _ _ _ h1
      obtain ⟨e2, a2, n2⟩ := ih _ _ h
      refine ⟨by simp [e2, e1, namesOf, allFields], ?_, fun hu => n2 (n1 hu)⟩
      intro f hf
      simp only [allFields, List.flatMap_cons, List.mem_append] at hf
      rcases hf with hf | hf
      · exact a1 f hf
      · exact a2 f hf

/-! ### field names are pieces of the template -/

theorem mem_of_mem_takeWhile {p : Char → Bool} {l : Str} {c : Char} (h : c ∈ l.takeWhile p) : c ∈ l :=
  (List.takeWhile_sublist p).subset h

theorem mem_of_mem_dropWhile {p : Char → Bool} {l : Str} {c : Char} (h : c ∈ l.dropWhile p) : c ∈ l :=
  (List.dropWhile_sublist p).subset h

theorem matchField_sound (s : Str) (f : Field) (rest : Str) (h : matchField s = some (f, rest)) :
    (∀ c ∈ f.fname, c ∈ s) ∧ (∀ c ∈ rest, c ∈ s) ∧ rest.length < s.length := by
  unfold matchField at h
  split at h
  · rename_i r
    simp only at h
    split at h
    · rename_i r2 h2
      simp only [Option.some.injEq, Prod.mk.injEq] at h
      obtain ⟨rfl, rfl⟩ := h
      have hsub := List.dropWhile_sublist (fun c => c != '}' && c != ':') (l := r)
      rw [h2] at hsub
      refine ⟨fun c hc => List.mem_cons_of_mem _ (mem_of_mem_takeWhile hc), ?_, ?_⟩
      · intro c hc
        exact List.mem_cons_of_mem _ (hsub.subset (List.mem_cons_of_mem _ hc))
      · have := hsub.length_le
        simp only [List.length_cons] at this ⊢
        omega
    · rename_i r2 h2
      have hsub := List.dropWhile_sublist (fun c => c != '}' && c != ':') (l := r)
      rw [h2] at hsub
      split at h
      · rename_i r4 h4
        simp only [Option.some.injEq, Prod.mk.injEq] at h
        obtain ⟨rfl, rfl⟩ := h
        have hsub2 := List.dropWhile_sublist (fun c => c != '}' && c != '(') (l := r2)
        rw [h4] at hsub2
        refine ⟨fun c hc => List.mem_cons_of_mem _ (mem_of_mem_takeWhile hc), ?_, ?_⟩
        · intro c hc
          exact List.mem_cons_of_mem _ (hsub.subset (List.mem_cons_of_mem _ (hsub2.subset (List.mem_cons_of_mem _ hc))))
        · have := hsub.length_le
          have := hsub2.length_le
          simp only [List.length_cons] at *
          omega
      · rename_i r4 h4
        have hsub2 := List.dropWhile_sublist (fun c => c != '}' && c != '(') (l := r2)
        rw [h4] at hsub2
        split at h
        · rename_i r6 h6
          have hsub3 := List.dropWhile_sublist (fun c => c != '}') (l := r4)
          rw [h6] at hsub3
          split at h
          · simp only [Option.some.injEq, Prod.mk.injEq] at h
            obtain ⟨rfl, rfl⟩ := h
            refine ⟨fun c hc => List.mem_cons_of_mem _ (mem_of_mem_takeWhile hc), ?_, ?_⟩
            · intro c hc
              exact List.mem_cons_of_mem _ (hsub.subset (List.mem_cons_of_mem _ (hsub2.subset (List.mem_cons_of_mem _
                (hsub3.subset (List.mem_cons_of_mem _ hc))))))
            · have := hsub.length_le
              have := hsub2.length_le
              have := hsub3.length_le
              simp only [List.length_cons] at *
              omega
          · cases h
        · cases h
      · cases h
    · cases h
  · cases h

theorem tokensF_fields_mem : ∀ (n : Nat) (s : Str) (f : Field), f ∈ fieldsOf (tokensF n s) → ∀ c ∈ f.fname, c ∈ s := by
  intro n
  induction n with
  | zero => intro s f h; simp [tokensF, fieldsOf] at h
  | succ n ih =>
    intro s f h
    cases s with
    | nil => simp [tokensF, fieldsOf] at h
    | cons a r =>
      unfold tokensF at h
      split at h
      · rename_i g rest hm
        obtain ⟨h1, h2, _⟩ := matchField_sound _ _ _ hm
        simp only [fieldsOf, List.mem_cons] at h
        rcases h with rfl | h
        · exact h1
        · intro c hc
          exact h2 c (ih rest f h c hc)
      · simp only [fieldsOf] at h
        intro c hc
        exact List.mem_cons_of_mem _ (ih r f h c hc)

theorem splitSlash_mem (s : Str) : ∀ seg ∈ splitSlash s, ∀ c ∈ seg, c ∈ s := by
  induction s with
  | nil => simp [splitSlash]
  | cons a r ih =>
    unfold splitSlash
    split
    · intro seg hseg c hc
      simp only [List.mem_cons] at hseg
      rcases hseg with rfl | hseg
      · simp at hc
      · exact List.mem_cons_of_mem _ (ih seg hseg c hc)
    · cases hr : splitSlash r with
      | nil => exact absurd hr (splitSlash_ne_nil r)
      | cons h t =>
        rw [hr] at ih
        intro seg hseg c hc
        simp only [List.mem_cons] at hseg
        rcases hseg with rfl | hseg
        · simp only [List.mem_cons] at hc
          rcases hc with rfl | hc
          · simp
          · exact List.mem_cons_of_mem _ (ih h (by simp) c hc)
        · exact List.mem_cons_of_mem _ (ih seg (by simp [hseg]) c hc)

theorem allFields_mem (t : Str) (f : Field) (h : f ∈ allFields (splitSlash (lstrip t))) : ∀ c ∈ f.fname, c ∈ t := by
  simp only [allFields, List.mem_flatMap] at h
  obtain ⟨seg, hseg, hf⟩ := h
  intro c hc
  have h1 := tokensF_fields_mem _ _ _ hf c hc
  have h2 := splitSlash_mem _ seg hseg c h1
  exact mem_of_mem_dropWhile h2

theorem all_of_dropWhile_nil (p : Char → Bool) : ∀ l : Str, l.dropWhile p = [] → ∀ x ∈ l, p x = true := by
  intro l
  induction l with
  | nil => intro _ x hx; simp at hx
  | cons a r ih =>
    intro h x hx
    rw [List.dropWhile_cons] at h
    split at h
    · rename_i ha
      rcases List.mem_cons.mp hx with rfl | hx
      · exact ha
      · exact ih h x hx
    · cases h

theorem takeWhile_all (p : Char → Bool) : ∀ l : Str, ∀ x ∈ l.takeWhile p, p x = true := by
  intro l
  induction l with
  | nil => intro x hx; simp at hx
  | cons a r ih =>
    intro x hx
    rw [List.takeWhile_cons] at hx
    split at hx
    · rename_i ha
      rcases List.mem_cons.mp hx with rfl | hx
      · exact ha
      · exact ih x hx
    · simp at hx

/-- `_IDENTIFIER_PATTERN.match` (greedy run, then `\Z`) is exactly the identifier test -/
theorem identMatch_iff (n : Str) : identMatch n = isIdent n := by
  cases n with
  | nil => rfl
  | cons c r =>
    simp only [identMatch, isIdent]
    congr 1
    cases hd : r.dropWhile isIdCont with
    | nil =>
      have := all_of_dropWhile_nil _ _ hd
      simp only [List.isEmpty_nil]
      symm
      rw [List.all_eq_true]
      exact this
    | cons x xs =>
      simp only [List.isEmpty_cons]
      symm
      rw [Bool.eq_false_iff]
      intro hall
      rw [List.all_eq_true] at hall
      have hx : x ∈ r := mem_of_mem_dropWhile (p := isIdCont) (by rw [hd]; simp)
      have h1 := hall x hx
      have h2 : isIdCont x = false := by
        have := List.head?_dropWhile_not isIdCont r
        rw [hd] at this
        simpa using this
      rw [h1] at h2
      cases h2

/-! ### the main statements about `validate` -/

/-- the field names of the accepted template, in template order -/
def fieldNames (recs : List SegRec) : List Str := recs.flatMap (·.fields)

theorem validate_ok (cenv : Cenv) (t : Str) (recs : List SegRec) (h : validate cenv t = .ok recs) :
    hasWs (tokens t) = false ∧ recs = (splitSlash (lstrip t)).map (segRec cenv) ∧
    fieldNames recs = namesOf (allFields (splitSlash (lstrip t))) ∧
    (fieldNames recs).Nodup ∧ ∀ f ∈ allFields (splitSlash (lstrip t)), FieldOk cenv f := by
  unfold validate at h
  split at h
  · cases h
  · rename_i hws
    split at h
    · cases h
    · rename_i used hv
      simp only [Except.ok.injEq] at h
      obtain ⟨e, hall, hn⟩ := validateSegs_ok cenv _ _ _ hv
      have hnames : fieldNames recs = namesOf (allFields (splitSlash (lstrip t))) := by
        subst h
        simp only [fieldNames, namesOf, allFields, List.flatMap_map, List.map_flatMap]
        rfl
      refine ⟨by simpa using hws, h.symm, hnames, ?_, hall⟩
      rw [hnames]
      have := hn (by simp)
      rw [e] at this
      simpa using this

/-- **`validate_total`**: every string is either rejected with one of the six enumerated kinds, or yields one segment
    record per '/'-separated part of the `lstrip('/')`-ed template (at least one), whose raw texts joined by '/' give
    that template back -/
theorem validate_total (cenv : Cenv) (t : Str) :
    (∃ k : Rej, validate cenv t = .error k) ∨
    (∃ recs, validate cenv t = .ok recs ∧ recs ≠ [] ∧ recs.map (·.raw) = splitSlash (lstrip t) ∧
      joinSlash (recs.map (·.raw)) = lstrip t) := by
  cases h : validate cenv t with
  | error k => exact Or.inl ⟨k, rfl⟩
  | ok recs =>
    right
    obtain ⟨_, hr, _⟩ := validate_ok cenv t recs h
    have hraw : recs.map (·.raw) = splitSlash (lstrip t) := by
      subst hr
      simp only [List.map_map]
      have : ((fun x : SegRec => x.raw) ∘ segRec cenv) = id := by funext s; rfl
      rw [this]; simp
    refine ⟨recs, rfl, ?_, hraw, by rw [hraw, joinSlash_splitSlash]⟩
    intro e
    rw [e] at hraw
    exact splitSlash_ne_nil _ hraw.symm

/-- **`validate_fields_distinct_identifiers`**: accepted ⇒ all field names of the whole template are pairwise distinct
    identifiers `[A-Za-z_][A-Za-z0-9_]*`, none of them in `keyword.kwlist` -/
theorem validate_fields_distinct_identifiers (cenv : Cenv) (t : Str) (recs : List SegRec)
    (h : validate cenv t = .ok recs) :
    (fieldNames recs).Nodup ∧ ∀ n ∈ fieldNames recs, isIdent n = true ∧ isKeyword n = false := by
  obtain ⟨_, _, hn, hnd, hall⟩ := validate_ok cenv t recs h
  refine ⟨hnd, ?_⟩
  intro n hmem
  rw [hn] at hmem
  simp only [namesOf, List.mem_map] at hmem
  obtain ⟨f, hf, rfl⟩ := hmem
  exact ⟨by rw [← identMatch_iff]; exact (hall f hf).1, (hall f hf).2.1⟩

/-- every field name of an accepted template is a piece of the template text -/
theorem validate_field_chars (cenv : Cenv) (t : Str) (recs : List SegRec) (h : validate cenv t = .ok recs) :
    ∀ n ∈ fieldNames recs, ∀ c ∈ n, c ∈ t := by
  obtain ⟨_, _, hn, _, _⟩ := validate_ok cenv t recs h
  intro n hmem
  rw [hn] at hmem
  simp only [namesOf, List.mem_map] at hmem
  obtain ⟨f, hf, rfl⟩ := hmem
  exact allFields_mem t f hf

/-- accepted ⇒ every `:converter` part names a registered converter that can be instantiated with its arguments -/
theorem validate_converters_ok (cenv : Cenv) (t : Str) (recs : List SegRec) (h : validate cenv t = .ok recs) :
    ∀ f ∈ allFields (splitSlash (lstrip t)), ∀ cn, f.cname = some cn →
      cn ≠ [] ∧ cenv.known cn = true ∧ cenv.inst cn f.argstr = true := by
  obtain ⟨_, _, _, _, hall⟩ := validate_ok cenv t recs h
  exact fun f hf => (hall f hf).2.2

/-- accepted ⇒ no whitespace outside the field expressions -/
theorem validate_no_whitespace (cenv : Cenv) (t : Str) (recs : List SegRec) (h : validate cenv t = .ok recs) :
    hasWs (tokens t) = false := (validate_ok cenv t recs h).1

/-! concrete, non-trivial inputs -/
def rejOf {α} : Except Rej α → Option Rej
  | .error k => some k
  | .ok _ => none

def cenv0 : Cenv :=
  { known := fun n => n == "int".toList || n == "path".toList,
    inst := fun _ a => a != some "0".toList,
    multi := fun n => n == "path".toList }

example : (validate cenv0 "/a/{x}/{y:int(2)}-{z}".toList).toOption.map fieldNames
    = some ["x".toList, "y".toList, "z".toList] := by decide
example : rejOf (validate cenv0 "/a/{x}/{x}".toList) = some .duplicate := by decide
example : rejOf (validate cenv0 "/{a}-{a}".toList) = some .duplicate := by decide
example : rejOf (validate cenv0 "/{class}".toList) = some .identifier := by decide
example : rejOf (validate cenv0 "/{9x}".toList) = some .identifier := by decide
example : rejOf (validate cenv0 "/a b".toList) = some .whitespace := by decide
example : rejOf (validate cenv0 "/{x:}".toList) = some .missingConv := by decide
example : rejOf (validate cenv0 "/{x:nope}".toList) = some .unknownConv := by decide
example : rejOf (validate cenv0 "/{x:int(0)}".toList) = some .badConvArgs := by decide
/-- whitespace INSIDE a field expression is not seen by the whitespace check (it is `sub`-stituted away first) -/
example : (validate cenv0 "/{x:int( 2 )}".toList).toOption.map fieldNames = some ["x".toList] := by decide
/-- F34 (fixed in 84476b0): with `$` instead of `\Z` a field name ending in a newline — keyword or not — passed the
    identifier check; the repaired pattern rejects it -/
theorem f34_witness :
    identMatchPinned "class\n".toList = true ∧ identMatch "class\n".toList = false ∧
    rejOf (validate cenv0 "/{class\n}".toList) = some .identifier ∧
    rejOf (validate cenv0 "/q/{x\n}-{y}".toList) = some .identifier := by decide
end Rv

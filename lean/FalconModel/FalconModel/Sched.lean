/-! C19(a) prototype: n threads racing through `CompiledRouter.find` on a router whose finder has not been compiled yet
    (`_find == _compile_and_find`), as atomic steps at attribute-load granularity, under every schedule.
    `locking = false` is the mutant without `_compile_lock`. -/
namespace Sc

/-- shared router state -/
structure Sh where
  find : Option Nat := none   -- none = the lazy stub; some v = the finder produced by compile number v
  tver : Nat := 0             -- which compile created the current `_return_values/_patterns/_converters` lists
  fill : Nat := 0             -- how many entries that compile has appended so far
  lock : Option Nat := none   -- holder of `_compile_lock`
  ncomp : Nat := 0            -- compiles started
deriving Repr, DecidableEq

inductive Pc where
  | start
  | haveFind (f : Option Nat)               -- evaluated `self._find`
  | call (f : Option Nat) (tv fl : Nat)     -- evaluated the table arguments; about to call
  | waitLock                                -- inside `_compile_and_find`, at `with self._compile_lock`
  | locked                                  -- holds the lock, about to test `self._find == self._compile_and_find`
  | compiling (v left : Nat)                -- inside `_compile()`: lists reset, `left` appends to go
  | publish (v : Nat)                       -- about to assign `self._find`
  | unlock
  | reFind                                  -- after the with-block: evaluate `self._find` again
  | reTables (f : Option Nat)
  | done (v tv fl : Nat)                    -- ran finder `v` on tables `(tv, fl)`
  | stuck                                   -- re-entered the stub after compiling (never happens with the lock)
deriving Repr, DecidableEq

/-- one atomic step of thread `i`; `n` = number of table entries a compile appends.
    Returns `none` when the thread cannot move (blocked on the lock, or finished). -/
def step (locking : Bool) (n : Nat) (i : Nat) (sh : Sh) : Pc → Option (Sh × Pc)
  | .start => some (sh, .haveFind sh.find)
  | .haveFind f => some (sh, .call f sh.tver sh.fill)
  | .call (some v) tv fl => some (sh, .done v tv fl)
  | .call none _ _ => some (sh, .waitLock)
  | .waitLock =>
    if locking then (if sh.lock.isNone then some ({ sh with lock := some i }, .locked) else none)
    else some (sh, .locked)
  | .locked =>
    if sh.find.isNone then
      some ({ sh with ncomp := sh.ncomp + 1, tver := sh.ncomp + 1, fill := 0 }, .compiling (sh.ncomp + 1) n)
    else some (sh, .unlock)
  | .compiling v (left + 1) => some ({ sh with fill := sh.fill + 1 }, .compiling v left)
  | .compiling v 0 => some (sh, .publish v)
  | .publish v => some ({ sh with find := some v }, .unlock)
  | .unlock => some (if locking then { sh with lock := none } else sh, .reFind)
  | .reFind => some (sh, .reTables sh.find)
  | .reTables (some v) => some (sh, .done v sh.tver sh.fill)
  | .reTables none => some (sh, .stuck)
  | .done _ _ _ => none
  | .stuck => none

structure St where
  sh : Sh := {}
  pcs : Nat → Pc := fun _ => .start

/-- run thread `i` for one step if it can move -/
def St.run (locking : Bool) (n : Nat) (s : St) (i : Nat) : St :=
  match step locking n i s.sh (s.pcs i) with
  | some (sh', pc') => { sh := sh', pcs := fun j => if j = i then pc' else s.pcs j }
  | none => s

def St.exec (locking : Bool) (n : Nat) : St → List Nat → St
  | s, [] => s
  | s, i :: rest => St.exec locking n (s.run locking n i) rest

end Sc

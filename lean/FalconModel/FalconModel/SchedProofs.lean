import FalconModel.Sched
/-! C19(a): with the lock, under every schedule of any number of threads, the router is compiled exactly once and every
    thread runs the finder of that compile on that compile's complete tables — the serial result. -/
namespace Sc

def phaseC (n : Nat) (sh : Sh) : Prop := sh.find = some 1 ∧ sh.tver = 1 ∧ sh.fill = n ∧ sh.ncomp = 1

def Good (n : Nat) (sh : Sh) (i : Nat) : Pc → Prop
  | .start => True
  | .haveFind f => f = none ∨ (f = some 1 ∧ phaseC n sh)
  | .call f tv fl => f = none ∨ (f = some 1 ∧ tv = 1 ∧ fl = n ∧ phaseC n sh)
  | .waitLock => True
  | .locked => sh.lock = some i
  | .compiling v left => sh.lock = some i ∧ v = 1 ∧ sh.find = none ∧ sh.ncomp = 1 ∧ sh.tver = 1 ∧ sh.fill + left = n
  | .publish v => sh.lock = some i ∧ v = 1 ∧ sh.find = none ∧ sh.ncomp = 1 ∧ sh.tver = 1 ∧ sh.fill = n
  | .unlock => sh.lock = some i ∧ phaseC n sh
  | .reFind => phaseC n sh
  | .reTables f => f = some 1 ∧ phaseC n sh
  | .done v tv fl => v = 1 ∧ tv = 1 ∧ fl = n
  | .stuck => False

def isComp : Pc → Prop
  | .compiling _ _ => True
  | .publish _ => True
  | _ => False

structure Inv (n : Nat) (s : St) : Prop where
  good : ∀ i, Good n s.sh i (s.pcs i)
  lazy : s.sh.find = none → s.sh.ncomp = 0 ∨ ∃ j, isComp (s.pcs j)
  compiled : s.sh.find ≠ none → phaseC n s.sh

/-- a step by another thread cannot invalidate what thread `j` knows -/
theorem Good_mono (n : Nat) (sh sh' : Sh) (j : Nat) (pc : Pc)
    (ha : phaseC n sh → phaseC n sh')
    (hb : sh.lock = some j → sh' = sh) : Good n sh j pc → Good n sh' j pc := by
  intro h
  cases pc with
  | start => trivial
  | haveFind f => rcases h with h | ⟨h1, h2⟩; exact Or.inl h; exact Or.inr ⟨h1, ha h2⟩
  | call f tv fl => rcases h with h | ⟨h1, h2, h3, h4⟩; exact Or.inl h; exact Or.inr ⟨h1, h2, h3, ha h4⟩
  | waitLock => trivial
  | locked => have := hb h; rw [this]; exact h
  | compiling v left => have := hb h.1; rw [this]; exact h
  | publish v => have := hb h.1; rw [this]; exact h
  | unlock => have := hb h.1; rw [this]; exact h
  | reFind => exact ha h
  | reTables f => exact ⟨h.1, ha h.2⟩
  | done v tv fl => exact h
  | stuck => exact h

theorem init_inv (n : Nat) : Inv n {} :=
  ⟨fun _ => trivial, fun _ => Or.inl rfl, fun h => absurd rfl h⟩

/-- assembling the invariant after thread `i` moved to `pc'` with shared state `sh'` -/
theorem mk_inv (n : Nat) (s : St) (i : Nat) (sh' : Sh) (pc' : Pc) (hinv : Inv n s)
    (ha : phaseC n s.sh → phaseC n sh')
    (hb : ∀ j, j ≠ i → s.sh.lock = some j → sh' = s.sh)
    (hc : Good n sh' i pc')
    (hd : sh'.find = none → sh'.ncomp = 0 ∨ isComp pc' ∨ ∃ j, j ≠ i ∧ isComp (s.pcs j))
    (he : sh'.find ≠ none → phaseC n sh') :
    Inv n { sh := sh', pcs := fun j => if j = i then pc' else s.pcs j } := by
  refine ⟨fun j => ?_, fun hl => ?_, he⟩
  · by_cases hj : j = i
    · simp only [hj, if_true]; exact hc
    · simp only [hj, if_false]
      exact Good_mono n s.sh sh' j _ ha (hb j hj) (hinv.good j)
  · rcases hd hl with h | h | ⟨j, hj, h⟩
    · exact Or.inl h
    · exact Or.inr ⟨i, by simp only [if_true]; exact h⟩
    · exact Or.inr ⟨j, by simp only [hj, if_false]; exact h⟩

/-- when the shared state does not change, the "lazy" clause carries over unless thread `i` itself was the compiler -/
theorem lazy_same (n : Nat) (s : St) (i : Nat) (pc' : Pc) (hinv : Inv n s) (hnc : ¬ isComp (s.pcs i)) :
    s.sh.find = none → s.sh.ncomp = 0 ∨ isComp pc' ∨ ∃ j, j ≠ i ∧ isComp (s.pcs j) := by
  intro hl
  rcases hinv.lazy hl with h | ⟨j, hj⟩
  · exact Or.inl h
  · refine Or.inr (Or.inr ⟨j, ?_, hj⟩)
    intro e; subst e; exact hnc hj

/-- the invariant is preserved by every step of every thread -/
theorem run_inv (n : Nat) (s : St) (i : Nat) (hinv : Inv n s) : Inv n (s.run true n i) := by
  unfold St.run
  have hgi := hinv.good i
  cases hpc : s.pcs i with
  | start =>
    simp only [step]
    refine mk_inv n s i s.sh _ hinv id (fun _ _ _ => rfl) ?_ (lazy_same n s i _ hinv (by rw [hpc]; simp [isComp])) hinv.compiled
    cases hf : s.sh.find with
    | none => exact Or.inl rfl
    | some v =>
      have hc := hinv.compiled (by rw [hf]; simp)
      have : v = 1 := by have := hc.1; rw [hf] at this; injection this
      subst this; exact Or.inr ⟨rfl, hc⟩
  | haveFind f =>
    simp only [step]
    rw [hpc] at hgi
    refine mk_inv n s i s.sh _ hinv id (fun _ _ _ => rfl) ?_ (lazy_same n s i _ hinv (by rw [hpc]; simp [isComp])) hinv.compiled
    rcases hgi with h | ⟨h1, h2⟩
    · exact Or.inl h
    · exact Or.inr ⟨h1, h2.2.1, h2.2.2.1, h2⟩
  | call f tv fl =>
    rw [hpc] at hgi
    cases f with
    | none =>
      simp only [step]
      exact mk_inv n s i s.sh _ hinv id (fun _ _ _ => rfl) trivial (lazy_same n s i _ hinv (by rw [hpc]; simp [isComp])) hinv.compiled
    | some v =>
      simp only [step]
      refine mk_inv n s i s.sh _ hinv id (fun _ _ _ => rfl) ?_ (lazy_same n s i _ hinv (by rw [hpc]; simp [isComp])) hinv.compiled
      rcases hgi with h | ⟨h1, h2, h3, _⟩
      · cases h
      · injection h1 with h1; exact ⟨h1, h2, h3⟩
  | waitLock =>
    simp only [step, if_true]
    by_cases hl : s.sh.lock.isNone = true
    · simp only [hl, if_true]
      have hln : s.sh.lock = none := by simpa using hl
      refine mk_inv n s i { s.sh with lock := some i } _ hinv (fun h => h) ?_ rfl ?_ ?_
      · intro j _ hj; rw [hln] at hj; cases hj
      · exact lazy_same n s i _ hinv (by rw [hpc]; simp [isComp])
      · exact hinv.compiled
    · simp only [hl, Bool.false_eq_true, if_false]
      -- blocked: nothing happens
      have : ({ sh := s.sh, pcs := s.pcs } : St) = s := rfl
      exact hinv
  | locked =>
    rw [hpc] at hgi
    simp only [step]
    by_cases hf : s.sh.find.isNone = true
    · simp only [hf, if_true]
      have hfn : s.sh.find = none := by simpa using hf
      -- nobody else can be compiling: it would hold the lock
      have hn0 : s.sh.ncomp = 0 := by
        rcases hinv.lazy hfn with h | ⟨j, hj⟩
        · exact h
        · have hgj := hinv.good j
          have hlj : s.sh.lock = some j := by
            cases hpj : s.pcs j <;> rw [hpj] at hj hgj <;> simp [isComp] at hj
            · exact hgj.1
            · exact hgj.1
          have : j = i := by rw [hgi] at hlj; injection hlj with h; exact h.symm
          subst this; rw [hpc] at hj; simp [isComp] at hj
      refine mk_inv n s i { s.sh with ncomp := s.sh.ncomp + 1, tver := s.sh.ncomp + 1, fill := 0 } _ hinv ?_ ?_ ?_ ?_ ?_
      · intro h; have := h.1; rw [hfn] at this; cases this
      · intro j hj hlj; rw [hgi] at hlj; injection hlj with h; exact absurd h.symm hj
      · exact ⟨hgi, by simp [hn0], hfn, by simp [hn0], by simp [hn0], by simp⟩
      · intro _; exact Or.inr (Or.inl trivial)
      · intro h; exact absurd hfn h
    · simp only [hf, Bool.false_eq_true, if_false]
      have hfs : s.sh.find ≠ none := by intro e; rw [e] at hf; simp at hf
      refine mk_inv n s i s.sh _ hinv id (fun _ _ _ => rfl) ⟨hgi, hinv.compiled hfs⟩ ?_ hinv.compiled
      intro e; exact absurd e hfs
  | compiling v left =>
    rw [hpc] at hgi
    obtain ⟨g1, g2, g3, g4, g5, g6⟩ := hgi
    cases left with
    | zero =>
      simp only [step]
      refine mk_inv n s i s.sh _ hinv id (fun _ _ _ => rfl) ⟨g1, g2, g3, g4, g5, by omega⟩ ?_ hinv.compiled
      intro _; exact Or.inr (Or.inl trivial)
    | succ l =>
      simp only [step]
      refine mk_inv n s i { s.sh with fill := s.sh.fill + 1 } _ hinv ?_ ?_ ⟨g1, g2, g3, g4, g5, by simp; omega⟩ ?_ ?_
      · intro h; have := h.1; rw [g3] at this; cases this
      · intro j hj hlj; rw [g1] at hlj; injection hlj with h; exact absurd h.symm hj
      · intro _; exact Or.inr (Or.inl trivial)
      · intro h; exact absurd g3 h
  | publish v =>
    rw [hpc] at hgi
    obtain ⟨g1, g2, g3, g4, g5, g6⟩ := hgi
    simp only [step]
    have hC : phaseC n { s.sh with find := some v } := ⟨by rw [g2], g5, g6, g4⟩
    refine mk_inv n s i { s.sh with find := some v } _ hinv ?_ ?_ ⟨g1, hC⟩ ?_ (fun _ => hC)
    · intro h; have := h.1; rw [g3] at this; cases this
    · intro j hj hlj; rw [g1] at hlj; injection hlj with h; exact absurd h.symm hj
    · intro h; simp at h
  | unlock =>
    rw [hpc] at hgi
    obtain ⟨g1, g2⟩ := hgi
    simp only [step, if_true]
    have hC : phaseC n { s.sh with lock := none } := g2
    refine mk_inv n s i { s.sh with lock := none } _ hinv (fun h => h) ?_ hC ?_ (fun _ => hC)
    · intro j hj hlj; rw [g1] at hlj; injection hlj with h; exact absurd h.symm hj
    · intro h; have := g2.1; simp only at h; rw [this] at h; cases h
  | reFind =>
    rw [hpc] at hgi
    simp only [step]
    refine mk_inv n s i s.sh _ hinv id (fun _ _ _ => rfl) ⟨hgi.1, hgi⟩ ?_ hinv.compiled
    intro h; rw [hgi.1] at h; cases h
  | reTables f =>
    rw [hpc] at hgi
    obtain ⟨g1, g2⟩ := hgi
    subst g1
    simp only [step]
    refine mk_inv n s i s.sh _ hinv id (fun _ _ _ => rfl) ⟨rfl, g2.2.1, g2.2.2.1⟩ ?_ hinv.compiled
    intro h; rw [g2.1] at h; cases h
  | done v tv fl =>
    simp only [step]; exact hinv
  | stuck =>
    simp only [step]; exact hinv

theorem exec_inv (n : Nat) (sched : List Nat) : ∀ (s : St), Inv n s → Inv n (St.exec true n s sched) := by
  induction sched with
  | nil => intro s h; exact h
  | cons i rest ih => intro s h; exact ih _ (run_inv n s i h)

/-- **C19(a) `every_thread_gets_serial_result`**: for any number of threads, any schedule and any table size, a thread that
    has finished ran the finder of the one and only compile on that compile's complete tables; nobody re-enters the stub;
    the router was compiled at most once -/
theorem every_thread_gets_serial_result (n : Nat) (sched : List Nat) (i : Nat) :
    let s := St.exec true n {} sched
    (∀ v tv fl, s.pcs i = .done v tv fl → v = 1 ∧ tv = 1 ∧ fl = n) ∧ s.pcs i ≠ .stuck ∧ s.sh.ncomp ≤ 1 := by
  have hinv := exec_inv n sched {} (init_inv n)
  refine ⟨fun v tv fl h => ?_, fun h => ?_, ?_⟩
  · have := hinv.good i; rw [h] at this; exact this
  · have := hinv.good i; rw [h] at this; exact this
  · by_cases hf : (St.exec true n {} sched).sh.find = none
    · rcases hinv.lazy hf with h | ⟨j, hj⟩
      · omega
      · have hg := hinv.good j
        cases hp : (St.exec true n {} sched).pcs j <;> rw [hp] at hj hg <;> simp [isComp] at hj
        · have := hg.2.2.2.1; omega
        · have := hg.2.2.2.1; omega
    · have := (hinv.compiled hf).2.2.2; omega

#print axioms every_thread_gets_serial_result

/-- without the lock the same statement fails: two threads, tables of two entries; thread 1 starts a second compile
    while thread 0 is filling the tables, and thread 0 ends up running finder 1 on the tables of compile 2 -/
theorem no_lock_witness :
    (St.exec false 2 {} [0, 0, 0, 0, 0, 1, 1, 1, 1, 1, 0, 0, 0, 0, 0, 0, 0]).pcs 0 = .done 1 2 2 ∧
    (St.exec false 2 {} [0, 0, 0, 0, 0, 1, 1, 1, 1, 1, 0, 0, 0, 0, 0, 0, 0]).sh.ncomp = 2 := by decide

/-- with the lock the same schedule is harmless (thread 1 blocks at the lock) -/
example : (St.exec true 2 {} [0, 0, 0, 0, 0, 1, 1, 1, 1, 1, 0, 0, 0, 0, 0, 0, 0]).pcs 0 = .done 1 1 2 := by decide
end Sc

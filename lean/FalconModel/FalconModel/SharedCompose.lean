import FalconModel.SharedMemoProofs
import FalconModel.SchedProofs
import FalconModel.NonInterf
/-! C19(c) composition: per-request programs whose ONLY shared accesses go through *safe protocols* are non-interfering.

    A protocol (`Proto`) is a multi-step, interleavable way of obtaining an answer from shared state (a call of a memoised
    function, a use of a lazily initialised cell, a `find` on the lazily compiled router).  It is `Safe` for a specification
    `spec : Q → R` if some invariant over the shared state and the protocol states of ALL threads is preserved by every thread
    step / start / finish / environment action and forces every delivered answer to be `spec q`.
    `noninterference`: under any schedule the local state of task `i` is what `i` computes alone from `spec`.
    The three kinds of the inventory are instances (`memo_safe`, `lazy_safe`, `router_safe` - the last two reuse
    `Lz.run_inv` / `Sc.run_inv`, the first `Sm.step_inv`), products of safe protocols are safe (`prod_safe`), hence
    `falcon_shared_noninterference`.  That Falcon's per-request code has this shape - every write after import goes to the
    request's own objects or to one of the inventoried items - is what the AST inventory of `harness/props/c19.py` checks. -/
namespace Cp
set_option linter.unusedSectionVars false

structure Proto (S P Q R : Type) where
  start : Q → P
  step : Nat → Nat → S → P → S × P      -- thread id, scheduler choice
  result : P → Option R
  env : Nat → S → S                     -- environment action number n (`cache_clear()`, ...)

def upd {A : Type} (g : Nat → A) (i : Nat) (a : A) : Nat → A := fun j => if j = i then a else g j

theorem upd_same {A : Type} (g : Nat → A) (i : Nat) (a : A) : upd g i a i = a := by simp [upd]
theorem upd_other {A : Type} (g : Nat → A) (i j : Nat) (a : A) (h : j ≠ i) : upd g i a j = g j := by simp [upd, h]

structure Safe {S P Q R : Type} (pr : Proto S P Q R) (spec : Q → R) (I : S → (Nat → Option (Q × P)) → Prop) : Prop where
  start : ∀ s pcs i q, I s pcs → pcs i = none → I s (upd pcs i (some (q, pr.start q)))
  step : ∀ s pcs i q p c, I s pcs → pcs i = some (q, p) → pr.result p = none →
      I (pr.step i c s p).1 (upd pcs i (some (q, (pr.step i c s p).2)))
  finish : ∀ s pcs i q p r, I s pcs → pcs i = some (q, p) → pr.result p = some r → I s (upd pcs i none)
  env : ∀ s pcs n, I s pcs → I (pr.env n s) pcs
  result : ∀ s pcs i q p r, I s pcs → pcs i = some (q, p) → pr.result p = some r → r = spec q

section tasks
variable {S P Q R L : Type}

/-- the program of task `i`: finished (`none`) or a shared access `q` with a continuation -/
abbrev Prog (L Q R : Type) := Nat → L → Option (Q × (R → L))

structure St (S P Q L : Type) where
  locals : Nat → L
  sh : S
  pcs : Nat → Option (Q × P)
  done : Nat → Nat            -- ghost: completed accesses per task

inductive Act where
  | run (i : Nat) (c : Nat)
  | env (n : Nat)

def step (pr : Proto S P Q R) (prog : Prog L Q R) (s : St S P Q L) : Act → St S P Q L
  | .run i c =>
    match s.pcs i with
    | none =>
      (match prog i (s.locals i) with
       | none => s
       | some (q, _) => { s with pcs := upd s.pcs i (some (q, pr.start q)) })
    | some (q, p) =>
      (match pr.result p with
       | some r =>
         (match prog i (s.locals i) with
          | some (_, cont) => { s with locals := upd s.locals i (cont r), pcs := upd s.pcs i none, done := upd s.done i (s.done i + 1) }
          | none => { s with pcs := upd s.pcs i none })
       | none => { s with sh := (pr.step i c s.sh p).1, pcs := upd s.pcs i (some (q, (pr.step i c s.sh p).2)) })
  | .env n => { s with sh := pr.env n s.sh }

def exec (pr : Proto S P Q R) (prog : Prog L Q R) (s : St S P Q L) (acts : List Act) : St S P Q L :=
  acts.foldl (step pr prog) s

def soloStep (prog : Prog L Q R) (spec : Q → R) (i : Nat) (l : L) : L :=
  match prog i l with
  | none => l
  | some (q, cont) => cont (spec q)

/-- `n` accesses of task `i` alone, answered by the specification -/
def solo (prog : Prog L Q R) (spec : Q → R) (i : Nat) : Nat → L → L
  | 0, l => l
  | n + 1, l => soloStep prog spec i (solo prog spec i n l)

structure Rel (pr : Proto S P Q R) (prog : Prog L Q R) (spec : Q → R) (I : S → (Nat → Option (Q × P)) → Prop)
    (init : Nat → L) (s : St S P Q L) : Prop where
  inv : I s.sh s.pcs
  loc : ∀ i, s.locals i = solo prog spec i (s.done i) (init i)
  asked : ∀ i q p, s.pcs i = some (q, p) → ∃ cont, prog i (s.locals i) = some (q, cont)

theorem step_rel (pr : Proto S P Q R) (prog : Prog L Q R) (spec : Q → R) (I : S → (Nat → Option (Q × P)) → Prop)
    (hs : Safe pr spec I) (init : Nat → L) (s : St S P Q L) (a : Act) (h : Rel pr prog spec I init s) :
    Rel pr prog spec I init (step pr prog s a) := by
  cases a with
  | env n => exact ⟨hs.env _ _ n h.inv, h.loc, h.asked⟩
  | run i c =>
    simp only [step]
    split
    · rename_i hp
      split
      · exact h
      · rename_i q cont hq
        refine ⟨hs.start _ _ i q h.inv hp, h.loc, ?_⟩
        intro j q' p' hj
        dsimp only at hj ⊢
        by_cases hji : j = i
        · subst hji
          rw [upd_same] at hj
          injection hj with hj; injection hj with h1 h2
          subst h1; exact ⟨cont, hq⟩
        · rw [upd_other _ _ _ _ hji] at hj
          exact h.asked j q' p' hj
    · rename_i q p hp
      split
      · rename_i r hr
        have hrs : r = spec q := hs.result _ _ i q p r h.inv hp hr
        obtain ⟨cont, hc⟩ := h.asked i q p hp
        rw [hc]
        refine ⟨hs.finish _ _ i q p r h.inv hp hr, ?_, ?_⟩
        · intro j
          dsimp only
          by_cases hji : j = i
          · subst hji
            simp only [upd_same]
            show cont r = soloStep prog spec j (solo prog spec j (s.done j) (init j))
            rw [← h.loc j, soloStep, hc, hrs]
          · simp only [upd_other _ _ _ _ hji]
            exact h.loc j
        · intro j q' p' hj
          dsimp only at hj ⊢
          by_cases hji : j = i
          · subst hji; rw [upd_same] at hj; cases hj
          · rw [upd_other _ _ _ _ hji] at hj
            simp only [upd_other _ _ _ _ hji]
            exact h.asked j q' p' hj
      · rename_i hr
        refine ⟨hs.step _ _ i q p c h.inv hp hr, h.loc, ?_⟩
        intro j q' p' hj
        dsimp only at hj ⊢
        by_cases hji : j = i
        · subst hji
          rw [upd_same] at hj
          injection hj with hj; injection hj with h1 h2
          subst h1; exact h.asked j q p hp
        · rw [upd_other _ _ _ _ hji] at hj
          exact h.asked j q' p' hj

theorem exec_rel (pr : Proto S P Q R) (prog : Prog L Q R) (spec : Q → R) (I : S → (Nat → Option (Q × P)) → Prop)
    (hs : Safe pr spec I) (init : Nat → L) : ∀ (acts : List Act) (s : St S P Q L),
    Rel pr prog spec I init s → Rel pr prog spec I init (exec pr prog s acts) := by
  intro acts
  induction acts with
  | nil => intro s h; exact h
  | cons a rest ih => intro s h; exact ih _ (step_rel pr prog spec I hs init s a h)

/-- **non-interference through safe protocols**: tasks that touch only their own local state and reach shared state only
    through a protocol that is safe for `spec` end, after ANY interleaving of their steps (each shared access itself being
    interleaved with the accesses of the others) and of environment actions, exactly where they get alone when every access
    is answered by `spec` - in as many accesses as they have completed -/
theorem noninterference (pr : Proto S P Q R) (prog : Prog L Q R) (spec : Q → R) (I : S → (Nat → Option (Q × P)) → Prop)
    (hs : Safe pr spec I) (init : Nat → L) (sh0 : S) (h0 : I sh0 (fun _ => none)) (acts : List Act) (i : Nat) :
    let s := exec pr prog { locals := init, sh := sh0, pcs := fun _ => none, done := fun _ => 0 } acts
    s.locals i = solo prog spec i (s.done i) (init i) := by
  have := exec_rel pr prog spec I hs init acts { locals := init, sh := sh0, pcs := fun _ => none, done := fun _ => 0 }
    ⟨h0, fun _ => rfl, fun i q p h => by cases h⟩
  exact this.loc i

end tasks

/-! ### the existing lemma `Ni.noninterference_of_local_steps` speaks about the same solo runs -/
theorem solo_snoc {L Q R : Type} (prog : Prog L Q R) (spec : Q → R) (i : Nat) : ∀ (n : Nat) (l : L),
    solo prog spec i (n + 1) l = solo prog spec i n (soloStep prog spec i l) := by
  intro n
  induction n with
  | zero => intro l; rfl
  | succ n ih => intro l; show soloStep prog spec i (solo prog spec i (n + 1) l) = _; rw [ih]; rfl

theorem solo_eq_Ni {L K V : Type} (prog : Prog L K V) (f : K → V) (i : Nat) : ∀ (n : Nat) (l : L),
    solo prog f i n l = Ni.solo prog f i n l := by
  intro n
  induction n with
  | zero => intro l; rfl
  | succ n ih =>
    intro l
    rw [solo_snoc, ih, Ni.solo_succ]
    congr 1
    simp only [soloStep, Ni.soloStep]
    cases prog i l with
    | none => rfl
    | some x => rfl

/-! ### instance 1: the shared bounded memo (`Sm`) -/
section memo
variable {K V : Type} [DecidableEq K]

def mini (t : Sm.Table K V) (pc : Sm.Pc K V) : Sm.St K V := { table := t, pcs := fun _ => pc }

def memoProto (cap : Nat) (f : K → V) (storable : V → Bool) : Proto (Sm.Table K V) (Sm.Pc K V) K V where
  start := fun k => .looking k
  step := fun i c t pc => let s' := Sm.step cap f storable (mini t pc) (.step i c); (s'.table, s'.pcs i)
  result := fun pc => match pc with | .returned _ v => some v | _ => none
  env := fun _ _ => []

def keyOf : Sm.Pc K V → Option K
  | .idle => none
  | .looking k => some k
  | .computing k => some k
  | .storing k _ => some k
  | .returned k _ => some k

def MemoI (cap : Nat) (f : K → V) (t : Sm.Table K V) (pcs : Nat → Option (K × Sm.Pc K V)) : Prop :=
  Sm.Coh f t ∧ t.length ≤ cap ∧ ∀ i q p, pcs i = some (q, p) → Sm.GoodPc f p ∧ keyOf p = some q

theorem mini_inv (cap : Nat) (f : K → V) (t : Sm.Table K V) (pc : Sm.Pc K V) (hc : Sm.Coh f t) (hb : t.length ≤ cap)
    (hg : Sm.GoodPc f pc) : Sm.Inv cap f (mini t pc) :=
  ⟨hc, fun _ => hg, fun _ hr => absurd hr List.not_mem_nil, hb⟩

theorem step_key (cap : Nat) (f : K → V) (storable : V → Bool) (t : Sm.Table K V) (pc : Sm.Pc K V) (i c : Nat) (q : K)
    (hk : keyOf pc = some q) : keyOf ((Sm.step cap f storable (mini t pc) (.step i c)).pcs i) = some q := by
  cases pc with
  | idle => cases hk
  | looking k =>
    simp only [Sm.step, mini]
    split <;> simp [Sm.setPc, keyOf] <;> exact Option.some.inj hk
  | computing k =>
    simp only [Sm.step, mini]
    split <;> simp [Sm.setPc, keyOf] <;> exact Option.some.inj hk
  | storing k v => simp only [Sm.step, mini, Sm.setPc, if_true, keyOf]; exact hk
  | returned k v => simp only [Sm.step, mini]; exact hk

theorem memo_safe (cap : Nat) (f : K → V) (storable : V → Bool) :
    Safe (memoProto cap f storable) f (MemoI cap f) := by
  refine ⟨?_, ?_, ?_, ?_, ?_⟩
  · intro t pcs i q ⟨hc, hb, hp⟩ _
    refine ⟨hc, hb, ?_⟩
    intro j q' p' hj
    by_cases hji : j = i
    · subst hji; rw [upd_same] at hj; injection hj with hj; injection hj with h1 h2
      subst h1; subst h2; exact ⟨trivial, rfl⟩
    · rw [upd_other _ _ _ _ hji] at hj; exact hp j q' p' hj
  · intro t pcs i q p c ⟨hc, hb, hp⟩ hpi _
    have hgi := hp i q p hpi
    have hinv := Sm.step_inv cap f storable (mini t p) (.step i c) (mini_inv cap f t p hc hb hgi.1)
    refine ⟨hinv.coh, hinv.bound, ?_⟩
    intro j q' p' hj
    by_cases hji : j = i
    · subst hji; rw [upd_same] at hj; injection hj with hj; injection hj with h1 h2
      subst h1; subst h2
      exact ⟨hinv.pcs j, step_key cap f storable t p j c q hgi.2⟩
    · rw [upd_other _ _ _ _ hji] at hj; exact hp j q' p' hj
  · intro t pcs i q p r ⟨hc, hb, hp⟩ _ _
    refine ⟨hc, hb, ?_⟩
    intro j q' p' hj
    by_cases hji : j = i
    · subst hji; rw [upd_same] at hj; cases hj
    · rw [upd_other _ _ _ _ hji] at hj; exact hp j q' p' hj
  · intro t pcs n ⟨_, _, hp⟩
    exact ⟨fun _ he => absurd he List.not_mem_nil, Nat.zero_le _, hp⟩
  · intro t pcs i q p r ⟨_, _, hp⟩ hpi hr
    have hg := hp i q p hpi
    cases p with
    | returned k v =>
      have hv : v = f k := hg.1
      have hk : k = q := Option.some.inj hg.2
      simp only [memoProto] at hr
      injection hr with hr
      rw [← hr, hv, hk]
    | idle => simp [memoProto] at hr
    | looking k => simp [memoProto] at hr
    | computing k => simp [memoProto] at hr
    | storing k v => simp [memoProto] at hr
end memo

/-! ### instance 2: the lazily initialised cell (`Lz`) -/
section lazy
variable {V : Type}

def lmini (c : Option V) (pc : Lz.Pc V) : Lz.St V := { cell := c, pcs := fun _ => pc }

def lazyProto (d : V) : Proto (Option V) (Lz.Pc V) Unit V where
  start := fun _ => .start
  step := fun i _ c pc => let s' := Lz.run d (lmini c pc) i; (s'.cell, s'.pcs i)
  result := fun pc => match pc with | .done v => some v | _ => none
  env := fun _ c => c

def LazyI (d : V) (c : Option V) (pcs : Nat → Option (Unit × Lz.Pc V)) : Prop :=
  (c = none ∨ c = some d) ∧ ∀ i q p, pcs i = some (q, p) → Lz.GoodPc d c p

theorem lazy_cell_mono (d : V) (c : Option V) (pc : Lz.Pc V) (i : Nat) (hc : c = none ∨ c = some d) (hg : Lz.GoodPc d c pc) :
    c = some d → (Lz.run d (lmini c pc) i).cell = some d := by
  have hinv := Lz.run_inv d (lmini c pc) i ⟨hc, fun _ => hg⟩
  intro hcd
  cases pc with
  | start => simp [Lz.run, lmini, hcd]
  | sawNone => simp [Lz.run, lmini, hcd]
  | made v => have : v = d := hg; simp [Lz.run, lmini, this]
  | reread => simp [Lz.run, lmini, hcd]
  | done v => simp [Lz.run, lmini, hcd]

theorem lazy_safe (d : V) : Safe (lazyProto d) (fun _ => d) (LazyI d) := by
  refine ⟨?_, ?_, ?_, ?_, ?_⟩
  · intro c pcs i q ⟨hc, hp⟩ _
    refine ⟨hc, ?_⟩
    intro j q' p' hj
    by_cases hji : j = i
    · subst hji; rw [upd_same] at hj; injection hj with hj; injection hj with h1 h2
      subst h2; trivial
    · rw [upd_other _ _ _ _ hji] at hj; exact hp j q' p' hj
  · intro c pcs i q p ch ⟨hc, hp⟩ hpi _
    have hgi := hp i q p hpi
    have hinv := Lz.run_inv d (lmini c p) i ⟨hc, fun _ => hgi⟩
    refine ⟨hinv.cell, ?_⟩
    intro j q' p' hj
    by_cases hji : j = i
    · subst hji; rw [upd_same] at hj; injection hj with hj; injection hj with h1 h2
      subst h2; exact hinv.pcs j
    · rw [upd_other _ _ _ _ hji] at hj
      exact Lz.GoodPc_mono d c _ p' (lazy_cell_mono d c p i hc hgi) (hp j q' p' hj)
  · intro c pcs i q p r ⟨hc, hp⟩ _ _
    refine ⟨hc, ?_⟩
    intro j q' p' hj
    by_cases hji : j = i
    · subst hji; rw [upd_same] at hj; cases hj
    · rw [upd_other _ _ _ _ hji] at hj; exact hp j q' p' hj
  · intro c pcs n h; exact h
  · intro c pcs i q p r ⟨_, hp⟩ hpi hr
    have hg := hp i q p hpi
    cases p with
    | done v =>
      have hv : v = d := hg
      simp only [lazyProto] at hr
      injection hr with hr
      rw [← hr, hv]
    | start => simp [lazyProto] at hr
    | sawNone => simp [lazyProto] at hr
    | made v => simp [lazyProto] at hr
    | reread => simp [lazyProto] at hr
end lazy

/-! ### instance 3: `find` on the lazily compiled router under `_compile_lock` (`Sc`) -/
section router

def routerProto (n : Nat) : Proto Sc.Sh Sc.Pc Unit (Nat × Nat × Nat) where
  start := fun _ => .start
  step := fun i _ sh pc => match Sc.step true n i sh pc with | some r => r | none => (sh, pc)
  result := fun pc => match pc with | .done v tv fl => some (v, tv, fl) | _ => none
  env := fun _ sh => sh

def pcOf (pcs : Nat → Option (Unit × Sc.Pc)) : Nat → Sc.Pc := fun i => match pcs i with | some (_, p) => p | none => .start

def RouterI (n : Nat) (sh : Sc.Sh) (pcs : Nat → Option (Unit × Sc.Pc)) : Prop := Sc.Inv n { sh := sh, pcs := pcOf pcs }

theorem pcOf_upd (pcs : Nat → Option (Unit × Sc.Pc)) (i : Nat) (q : Unit) (p : Sc.Pc) :
    pcOf (upd pcs i (some (q, p))) = fun j => if j = i then p else pcOf pcs j := by
  funext j
  by_cases hji : j = i
  · simp [pcOf, upd, hji]
  · simp [pcOf, upd, hji]

theorem pcOf_upd_none (pcs : Nat → Option (Unit × Sc.Pc)) (i : Nat) :
    pcOf (upd pcs i none) = fun j => if j = i then .start else pcOf pcs j := by
  funext j
  by_cases hji : j = i
  · simp [pcOf, upd, hji]
  · simp [pcOf, upd, hji]

theorem router_safe (n : Nat) : Safe (routerProto n) (fun _ => (1, 1, n)) (RouterI n) := by
  refine ⟨?_, ?_, ?_, ?_, ?_⟩
  · intro sh pcs i q h hp
    unfold RouterI at h ⊢
    have : pcOf (upd pcs i (some (q, (routerProto n).start q))) = pcOf pcs := by
      rw [pcOf_upd]; funext j
      by_cases hji : j = i
      · simp [hji, pcOf, hp, routerProto]
      · simp [hji]
    rw [this]; exact h
  · intro sh pcs i q p c h hp _
    unfold RouterI at h ⊢
    have hrun := Sc.run_inv n { sh := sh, pcs := pcOf pcs } i h
    have hpi : pcOf pcs i = p := by simp [pcOf, hp]
    rw [pcOf_upd]
    unfold Sc.St.run at hrun
    simp only [hpi] at hrun
    simp only [routerProto]
    cases hst : Sc.step true n i sh p with
    | some r =>
      simp only [hst] at hrun
      exact hrun
    | none =>
      simp only [hst] at hrun
      have : (fun j => if j = i then p else pcOf pcs j) = pcOf pcs := by
        funext j
        by_cases hji : j = i
        · simp [hji, hpi]
        · simp [hji]
      rw [this]; exact hrun
  · intro sh pcs i q p r h hp hr
    unfold RouterI at h ⊢
    rw [pcOf_upd_none]
    have hpi : pcOf pcs i = p := by simp [pcOf, hp]
    have hnc : ¬ Sc.isComp (({ sh := sh, pcs := pcOf pcs } : Sc.St).pcs i) := by
      show ¬ Sc.isComp (pcOf pcs i)
      rw [hpi]
      cases p <;> simp [routerProto] at hr <;> simp [Sc.isComp]
    exact Sc.mk_inv n { sh := sh, pcs := pcOf pcs } i sh .start h id (fun _ _ _ => rfl) trivial
      (Sc.lazy_same n { sh := sh, pcs := pcOf pcs } i .start h hnc) h.compiled
  · intro sh pcs k h; exact h
  · intro sh pcs i q p r h hp hr
    unfold RouterI at h
    have hg := h.good i
    have hpi : pcOf pcs i = p := by simp [pcOf, hp]
    simp only [hpi] at hg
    cases p with
    | done v tv fl =>
      obtain ⟨h1, h2, h3⟩ := (hg : v = 1 ∧ tv = 1 ∧ fl = n)
      simp only [routerProto] at hr
      injection hr with hr
      rw [← hr, h1, h2, h3]
    | _ => simp [routerProto] at hr

end router

/-! ### products of safe protocols are safe -/
section prod
variable {S1 P1 Q1 R1 S2 P2 Q2 R2 : Type}

def prodProto (a : Proto S1 P1 Q1 R1) (b : Proto S2 P2 Q2 R2) : Proto (S1 × S2) (P1 ⊕ P2) (Q1 ⊕ Q2) (R1 ⊕ R2) where
  start := fun q => match q with | .inl q => .inl (a.start q) | .inr q => .inr (b.start q)
  step := fun i c s p => match p with
    | .inl p => (((a.step i c s.1 p).1, s.2), Sum.inl (a.step i c s.1 p).2)
    | .inr p => ((s.1, (b.step i c s.2 p).1), Sum.inr (b.step i c s.2 p).2)
  result := fun p => match p with
    | .inl p => (a.result p).map Sum.inl
    | .inr p => (b.result p).map Sum.inr
  env := fun n s => if n % 2 = 0 then (a.env (n / 2) s.1, s.2) else (s.1, b.env (n / 2) s.2)

def prodSpec (f : Q1 → R1) (g : Q2 → R2) : Q1 ⊕ Q2 → R1 ⊕ R2
  | .inl q => .inl (f q)
  | .inr q => .inr (g q)

def projL (pcs : Nat → Option ((Q1 ⊕ Q2) × (P1 ⊕ P2))) : Nat → Option (Q1 × P1) := fun i =>
  match pcs i with | some (.inl q, .inl p) => some (q, p) | _ => none

def projR (pcs : Nat → Option ((Q1 ⊕ Q2) × (P1 ⊕ P2))) : Nat → Option (Q2 × P2) := fun i =>
  match pcs i with | some (.inr q, .inr p) => some (q, p) | _ => none

def WellTyped (pcs : Nat → Option ((Q1 ⊕ Q2) × (P1 ⊕ P2))) : Prop :=
  ∀ i q p, pcs i = some (q, p) → (∃ q1 p1, q = .inl q1 ∧ p = .inl p1) ∨ (∃ q2 p2, q = .inr q2 ∧ p = .inr p2)

def ProdI (I1 : S1 → (Nat → Option (Q1 × P1)) → Prop) (I2 : S2 → (Nat → Option (Q2 × P2)) → Prop)
    (s : S1 × S2) (pcs : Nat → Option ((Q1 ⊕ Q2) × (P1 ⊕ P2))) : Prop :=
  I1 s.1 (projL pcs) ∧ I2 s.2 (projR pcs) ∧ WellTyped pcs

theorem projL_upd_l (pcs : Nat → Option ((Q1 ⊕ Q2) × (P1 ⊕ P2))) (i : Nat) (q : Q1) (p : P1) :
    projL (upd pcs i (some (.inl q, .inl p))) = upd (projL pcs) i (some (q, p)) := by
  funext j; by_cases hji : j = i <;> simp [projL, upd, hji]

theorem projR_upd_r (pcs : Nat → Option ((Q1 ⊕ Q2) × (P1 ⊕ P2))) (i : Nat) (q : Q2) (p : P2) :
    projR (upd pcs i (some (.inr q, .inr p))) = upd (projR pcs) i (some (q, p)) := by
  funext j; by_cases hji : j = i <;> simp [projR, upd, hji]

theorem projL_upd_none (pcs : Nat → Option ((Q1 ⊕ Q2) × (P1 ⊕ P2))) (i : Nat) :
    projL (upd pcs i none) = upd (projL pcs) i none := by
  funext j; by_cases hji : j = i <;> simp [projL, upd, hji]

theorem projR_upd_none (pcs : Nat → Option ((Q1 ⊕ Q2) × (P1 ⊕ P2))) (i : Nat) :
    projR (upd pcs i none) = upd (projR pcs) i none := by
  funext j; by_cases hji : j = i <;> simp [projR, upd, hji]

/-- an update of thread `i` that keeps `i` outside component 2 does not change the projection on component 2 -/
theorem projR_upd_l (pcs : Nat → Option ((Q1 ⊕ Q2) × (P1 ⊕ P2))) (i : Nat) (q : Q1) (p : P1) (h : projR pcs i = none) :
    projR (upd pcs i (some (.inl q, .inl p))) = projR pcs := by
  funext j
  by_cases hji : j = i
  · subst hji; rw [h]; simp [projR, upd]
  · simp [projR, upd, hji]

theorem projL_upd_r (pcs : Nat → Option ((Q1 ⊕ Q2) × (P1 ⊕ P2))) (i : Nat) (q : Q2) (p : P2) (h : projL pcs i = none) :
    projL (upd pcs i (some (.inr q, .inr p))) = projL pcs := by
  funext j
  by_cases hji : j = i
  · subst hji; rw [h]; simp [projL, upd]
  · simp [projL, upd, hji]

theorem upd_none_id {A : Type} (g : Nat → Option A) (i : Nat) (h : g i = none) : upd g i none = g := by
  funext j
  by_cases hji : j = i
  · subst hji; simp [upd, h]
  · simp [upd, hji]

theorem wt_upd (pcs : Nat → Option ((Q1 ⊕ Q2) × (P1 ⊕ P2))) (i : Nat) (x : Option ((Q1 ⊕ Q2) × (P1 ⊕ P2)))
    (h : WellTyped pcs)
    (hx : ∀ q p, x = some (q, p) → (∃ q1 p1, q = .inl q1 ∧ p = .inl p1) ∨ (∃ q2 p2, q = .inr q2 ∧ p = .inr p2)) :
    WellTyped (upd pcs i x) := by
  intro j q p hj
  by_cases hji : j = i
  · subst hji; rw [upd_same] at hj; exact hx q p hj
  · rw [upd_other _ _ _ _ hji] at hj; exact h j q p hj

theorem prod_safe (a : Proto S1 P1 Q1 R1) (b : Proto S2 P2 Q2 R2) (f : Q1 → R1) (g : Q2 → R2)
    (I1 : S1 → (Nat → Option (Q1 × P1)) → Prop) (I2 : S2 → (Nat → Option (Q2 × P2)) → Prop)
    (ha : Safe a f I1) (hb : Safe b g I2) : Safe (prodProto a b) (prodSpec f g) (ProdI I1 I2) := by
  refine ⟨?_, ?_, ?_, ?_, ?_⟩
  · -- start
    intro s pcs i q ⟨h1, h2, hw⟩ hp
    have hl : projL pcs i = none := by simp [projL, hp]
    have hr : projR pcs i = none := by simp [projR, hp]
    cases q with
    | inl q =>
      refine ⟨?_, ?_, wt_upd pcs i _ hw ?_⟩
      · show I1 s.1 (projL (upd pcs i (some (.inl q, .inl (a.start q)))))
        rw [projL_upd_l]; exact ha.start _ _ i q h1 hl
      · show I2 s.2 (projR (upd pcs i (some (.inl q, .inl (a.start q)))))
        rw [projR_upd_l _ _ _ _ hr]; exact h2
      · intro q' p' hx; injection hx with hx; injection hx with e1 e2
        exact Or.inl ⟨q, a.start q, e1.symm, e2.symm⟩
    | inr q =>
      refine ⟨?_, ?_, wt_upd pcs i _ hw ?_⟩
      · show I1 s.1 (projL (upd pcs i (some (.inr q, .inr (b.start q)))))
        rw [projL_upd_r _ _ _ _ hl]; exact h1
      · show I2 s.2 (projR (upd pcs i (some (.inr q, .inr (b.start q)))))
        rw [projR_upd_r]; exact hb.start _ _ i q h2 hr
      · intro q' p' hx; injection hx with hx; injection hx with e1 e2
        exact Or.inr ⟨q, b.start q, e1.symm, e2.symm⟩
  · -- step
    intro s pcs i q p c ⟨h1, h2, hw⟩ hp hres
    rcases hw i q p hp with ⟨q1, p1, rfl, rfl⟩ | ⟨q2, p2, rfl, rfl⟩
    · have hl : projL pcs i = some (q1, p1) := by simp [projL, hp]
      have hr : projR pcs i = none := by simp [projR, hp]
      have hres1 : a.result p1 = none := by
        simp only [prodProto] at hres
        cases hh : a.result p1 with
        | none => rfl
        | some r => rw [hh] at hres; cases hres
      refine ⟨?_, ?_, wt_upd pcs i _ hw ?_⟩
      · show I1 (a.step i c s.1 p1).1 (projL (upd pcs i (some (.inl q1, .inl (a.step i c s.1 p1).2))))
        rw [projL_upd_l]; exact ha.step _ _ i q1 p1 c h1 hl hres1
      · show I2 s.2 (projR (upd pcs i (some (.inl q1, .inl (a.step i c s.1 p1).2))))
        rw [projR_upd_l _ _ _ _ hr]; exact h2
      · intro q' p' hx; injection hx with hx; injection hx with e1 e2
        exact Or.inl ⟨q1, _, e1.symm, e2.symm⟩
    · have hl : projL pcs i = none := by simp [projL, hp]
      have hr : projR pcs i = some (q2, p2) := by simp [projR, hp]
      have hres2 : b.result p2 = none := by
        simp only [prodProto] at hres
        cases hh : b.result p2 with
        | none => rfl
        | some r => rw [hh] at hres; cases hres
      refine ⟨?_, ?_, wt_upd pcs i _ hw ?_⟩
      · show I1 s.1 (projL (upd pcs i (some (.inr q2, .inr (b.step i c s.2 p2).2))))
        rw [projL_upd_r _ _ _ _ hl]; exact h1
      · show I2 (b.step i c s.2 p2).1 (projR (upd pcs i (some (.inr q2, .inr (b.step i c s.2 p2).2))))
        rw [projR_upd_r]; exact hb.step _ _ i q2 p2 c h2 hr hres2
      · intro q' p' hx; injection hx with hx; injection hx with e1 e2
        exact Or.inr ⟨q2, _, e1.symm, e2.symm⟩
  · -- finish
    intro s pcs i q p r ⟨h1, h2, hw⟩ hp hres
    rcases hw i q p hp with ⟨q1, p1, rfl, rfl⟩ | ⟨q2, p2, rfl, rfl⟩
    · have hl : projL pcs i = some (q1, p1) := by simp [projL, hp]
      have hr : projR pcs i = none := by simp [projR, hp]
      obtain ⟨r1, hr1⟩ : ∃ r1, a.result p1 = some r1 := by
        simp only [prodProto] at hres
        cases hh : a.result p1 with
        | none => rw [hh] at hres; cases hres
        | some r1 => exact ⟨r1, rfl⟩
      refine ⟨?_, ?_, wt_upd pcs i _ hw (fun _ _ hx => by cases hx)⟩
      · rw [projL_upd_none]; exact ha.finish _ _ i q1 p1 r1 h1 hl hr1
      · rw [projR_upd_none, upd_none_id _ _ hr]; exact h2
    · have hl : projL pcs i = none := by simp [projL, hp]
      have hr : projR pcs i = some (q2, p2) := by simp [projR, hp]
      obtain ⟨r2, hr2⟩ : ∃ r2, b.result p2 = some r2 := by
        simp only [prodProto] at hres
        cases hh : b.result p2 with
        | none => rw [hh] at hres; cases hres
        | some r2 => exact ⟨r2, rfl⟩
      refine ⟨?_, ?_, wt_upd pcs i _ hw (fun _ _ hx => by cases hx)⟩
      · rw [projL_upd_none, upd_none_id _ _ hl]; exact h1
      · rw [projR_upd_none]; exact hb.finish _ _ i q2 p2 r2 h2 hr hr2
  · -- env
    intro s pcs n ⟨h1, h2, hw⟩
    simp only [prodProto]
    split
    · exact ⟨ha.env _ _ _ h1, h2, hw⟩
    · exact ⟨h1, hb.env _ _ _ h2, hw⟩
  · -- result
    intro s pcs i q p r ⟨h1, h2, hw⟩ hp hres
    rcases hw i q p hp with ⟨q1, p1, rfl, rfl⟩ | ⟨q2, p2, rfl, rfl⟩
    · have hl : projL pcs i = some (q1, p1) := by simp [projL, hp]
      simp only [prodProto] at hres
      cases hh : a.result p1 with
      | none => rw [hh] at hres; cases hres
      | some r1 =>
        rw [hh] at hres
        have : r = .inl r1 := by injection hres with hres; exact hres.symm
        rw [this, ha.result _ _ i q1 p1 r1 h1 hl hh]; rfl
    · have hr : projR pcs i = some (q2, p2) := by simp [projR, hp]
      simp only [prodProto] at hres
      cases hh : b.result p2 with
      | none => rw [hh] at hres; cases hres
      | some r2 =>
        rw [hh] at hres
        have : r = .inr r2 := by injection hres with hres; exact hres.symm
        rw [this, hb.result _ _ i q2 p2 r2 h2 hr hh]; rfl

end prod

/-! ### Falcon's shared state: memo caches x lazy cells x the router's lazy compile -/
section falcon
variable {K V D L : Type} [DecidableEq K]

/-- the three kinds of shared access of a request -/
abbrev FQ (K : Type) := (K ⊕ Unit) ⊕ Unit          -- memoised call `k` | use of the lazy cell | router find
abbrev FR (V D : Type) := (V ⊕ D) ⊕ (Nat × Nat × Nat)

def falconProto (cap : Nat) (f : K → V) (storable : V → Bool) (d : D) (n : Nat) :=
  prodProto (prodProto (memoProto cap f storable) (lazyProto d)) (routerProto n)

def falconSpec (f : K → V) (d : D) (n : Nat) : FQ K → FR V D :=
  prodSpec (prodSpec f (fun _ => d)) (fun _ => (1, 1, n))

/-- **composition**: requests (tasks over their own req/resp/params = `L`) whose only shared accesses are calls of a
    memoised pure function (any capacity, any store/eviction policy, `cache_clear()` at any time), uses of a lazily
    initialised idempotent cell and `find` on the lazily compiled router under its lock are non-interfering: after ANY
    interleaving - at the granularity of the individual lookup / compute / store / lock / table-fill steps - request `i` is
    where it gets alone when every memoised call returns `f k`, the cell is `d` and the router is the one compiled once -/
theorem falcon_shared_noninterference (cap : Nat) (f : K → V) (storable : V → Bool) (d : D) (n : Nat)
    (prog : Prog L (FQ K) (FR V D)) (init : Nat → L) (acts : List Act) (i : Nat) :
    let s := exec (falconProto cap f storable d n) prog
      { locals := init, sh := (([], none), {}), pcs := fun _ => none, done := fun _ => 0 } acts
    s.locals i = solo prog (falconSpec f d n) i (s.done i) (init i) := by
  have hs := prod_safe _ _ _ _ _ _ (prod_safe _ _ _ _ _ _ (memo_safe cap f storable) (lazy_safe d)) (router_safe n)
  refine noninterference _ prog _ _ hs init _ ?_ acts i
  refine ⟨⟨⟨fun _ he => absurd he List.not_mem_nil, Nat.zero_le _, fun _ _ _ h => by cases h⟩,
           ⟨Or.inl rfl, fun _ _ _ h => by cases h⟩, fun _ _ _ h => by cases h⟩, ?_, fun _ _ _ h => by cases h⟩
  exact Sc.init_inv n

#print axioms falcon_shared_noninterference
end falcon

/-! ### non-vacuity: two requests that each resolve a media type through the memo, use the lazy cell and route, interleaved -/
section example_
def exProg : Prog (List Nat) (FQ Nat) (FR Nat Nat) := fun i l =>
  match l.length with
  | 0 => some (.inl (.inl (i + 7)), fun r => match r with | .inl (.inl v) => l ++ [v] | _ => l ++ [0])
  | 1 => some (.inl (.inr ()), fun r => match r with | .inl (.inr v) => l ++ [v] | _ => l ++ [0])
  | 2 => some (.inr (), fun r => match r with | .inr (v, _, fl) => l ++ [v * 100 + fl] | _ => l ++ [0])
  | _ => none

def exSched : List Act :=
  (List.range 40).flatMap fun t => [Act.run 0 t, Act.run 1 (t + 1), Act.env t]

def exInit : St ((Sm.Table Nat Nat × Option Nat) × Sc.Sh) ((Sm.Pc Nat Nat ⊕ Lz.Pc Nat) ⊕ Sc.Pc) (FQ Nat) (List Nat) :=
  { locals := fun _ => [], sh := (([], none), {}), pcs := fun _ => none, done := fun _ => 0 }

example : let s := exec (falconProto 1 (fun k => k * 10) (fun _ => true) 5 3) exProg exInit exSched
    s.locals 0 = [70, 5, 103] ∧ s.locals 1 = [80, 5, 103] ∧ s.done 0 = 3 ∧ s.done 1 = 3 := by decide
end example_

end Cp

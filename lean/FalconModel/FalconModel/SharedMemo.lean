/-! C19(c): the kinds of process-wide mutable state that the inventory of `harness/props/c19.py` finds in `falcon/`, as
    small-step systems of any number of threads under every schedule.

    `Sm` - a shared, bounded memo table of a pure function `f` (`functools.lru_cache` around `http_status_to_code`,
    `code_to_http_status`, `mediatypes.quality`, `_parse_media_ranges`, `Handlers._resolve`, `_validate_asgi_scope`,
    `_supports_reason`; the 64-entry header-name dict of `falcon/asgi/request.py:get_header`).  One call of the memoised
    function by thread `i` is the step sequence

        call i k ; lookup (hit -> return the stored value, entry becomes most recent | miss) ;
                   compute (run `f k` OUTSIDE any lock - CPython's lru_cache releases its lock around the user function) ;
                   store (the scheduler-chosen number `c` resolves the policy: keep / overwrite an entry another thread
                          stored meanwhile; insert while there is room; when full skip the store or evict ANY entry;
                          results that are exceptions (`storable v = false`) are returned but never stored)

    interleaved arbitrarily with the steps of all other threads and with `clear` (`cache_clear()`), so two threads do
    compute the same key concurrently and their stores do overwrite each other.  LRU is the instance `c = lruChoice`.

    `Lz` - a lazily initialised cell written by racing threads with one deterministic value.

    The file is import-free; proofs are in `SharedMemoProofs.lean`, the composition with per-request programs in
    `SharedCompose.lean`. -/
namespace Sm

abbrev Table (K V : Type) := List (K × V)      -- most recently used first

inductive Pc (K V : Type) where
  | idle
  | looking (k : K)            -- the call has started; about to consult the table
  | computing (k : K)          -- miss: running `f k`, no lock held
  | storing (k : K) (v : V)    -- computed `v`; about to store it
  | returned (k : K) (v : V)   -- the call returned `v`
deriving Repr, DecidableEq

structure St (K V : Type) where
  table : Table K V := []
  pcs : Nat → Pc K V := fun _ => .idle
  log : List (Nat × K × V) := []      -- every completed call (thread, key, value returned), oldest first
  hits : Nat := 0
  misses : Nat := 0

inductive Act (K : Type) where
  | call (i : Nat) (k : K)     -- thread i calls the memoised function with key k (ignored while a call of i is in flight)
  | step (i : Nat) (c : Nat)   -- thread i takes its next step; `c` is the scheduler's choice for the store policy
  | clear                      -- `cache_clear()`
deriving Repr, DecidableEq

variable {K V : Type} [DecidableEq K]

def find (t : Table K V) (k : K) : Option V :=
  match t.find? (fun e => e.1 == k) with
  | some e => some e.2
  | none => none

def erase (t : Table K V) (k : K) : Table K V := t.filter (fun e => !(e.1 == k))

/-- the store step.  `cap` = `maxsize`.  `c` chooses:
    present (another thread stored the key meanwhile): `c % 2 = 0` keep the old entry (CPython), else overwrite;
    room: insert as most recent;  full: `c = 0` skip (the header-name cache), else evict entry number `(c-1) % size`. -/
def store (cap : Nat) (c : Nat) (t : Table K V) (k : K) (v : V) : Table K V :=
  if cap = 0 then t
  else if (find t k).isSome then (if c % 2 = 0 then t else (k, v) :: erase t k)
  else if t.length < cap then (k, v) :: t
  else if c = 0 then t
  else (k, v) :: t.eraseIdx ((c - 1) % t.length)

/-- the choice that makes `store` behave like `functools.lru_cache`: keep on a concurrent insert, evict the least
    recently used (= last) entry when full -/
def lruChoice (t : Table K V) : Nat := 2 * t.length

def setPc (s : St K V) (i : Nat) (pc : Pc K V) : Nat → Pc K V := fun j => if j = i then pc else s.pcs j

def step (cap : Nat) (f : K → V) (storable : V → Bool) (s : St K V) : Act K → St K V
  | .call i k =>
    match s.pcs i with
    | .idle => { s with pcs := setPc s i (.looking k) }
    | .returned _ _ => { s with pcs := setPc s i (.looking k) }
    | _ => s
  | .step i c =>
    match s.pcs i with
    | .idle => s
    | .returned _ _ => s
    | .looking k =>
      (match find s.table k with
       | some v => { s with table := (k, v) :: erase s.table k, pcs := setPc s i (.returned k v),
                            log := s.log ++ [(i, k, v)], hits := s.hits + 1 }
       | none => { s with pcs := setPc s i (.computing k), misses := s.misses + 1 })
    | .computing k =>
      let v := f k
      if storable v then { s with pcs := setPc s i (.storing k v) }
      else { s with pcs := setPc s i (.returned k v), log := s.log ++ [(i, k, v)] }
    | .storing k v =>
      { s with table := store cap c s.table k v, pcs := setPc s i (.returned k v), log := s.log ++ [(i, k, v)] }
  | .clear => { s with table := [], hits := 0, misses := 0 }

def exec (cap : Nat) (f : K → V) (storable : V → Bool) (s : St K V) (acts : List (Act K)) : St K V :=
  acts.foldl (step cap f storable) s

/-- replay with the LRU policy: every `step i _` gets the choice `lruChoice` of the table at that moment -/
def execLru (cap : Nat) (f : K → V) (storable : V → Bool) : St K V → List (Act K) → St K V
  | s, [] => s
  | s, .step i _ :: rest => execLru cap f storable (step cap f storable s (.step i (lruChoice s.table))) rest
  | s, a :: rest => execLru cap f storable (step cap f storable s a) rest

end Sm

namespace Lz

/-- one use of a lazily initialised cell by a thread: `if cell is None: cell = make(); use(cell)` at load/store granularity -/
inductive Pc (V : Type) where
  | start
  | sawNone             -- read the cell, found it empty; about to run `make()`
  | made (v : V)        -- `make()` returned; about to write the cell
  | reread              -- wrote the cell; about to read it back for use
  | done (v : V)        -- used value `v`
deriving Repr, DecidableEq

structure St (V : Type) where
  cell : Option V := none
  pcs : Nat → Pc V := fun _ => .start
  writes : Nat := 0

variable {V : Type}

/-- one step of thread `i`; `d` is the deterministic value `make()` returns -/
def run (d : V) (s : St V) (i : Nat) : St V :=
  let set (pc : Pc V) : Nat → Pc V := fun j => if j = i then pc else s.pcs j
  match s.pcs i with
  | .start =>
    (match s.cell with
     | some v => { s with pcs := set (.done v) }
     | none => { s with pcs := set .sawNone })
  | .sawNone => { s with pcs := set (.made d) }
  | .made v => { s with cell := some v, writes := s.writes + 1, pcs := set .reread }
  | .reread =>
    (match s.cell with
     | some v => { s with pcs := set (.done v) }
     | none => s)
  | .done _ => s

def exec (d : V) : St V → List Nat → St V
  | s, [] => s
  | s, i :: rest => exec d (run d s i) rest

end Lz

import FalconModel.SharedMemo
/-! C19(c) proofs: a shared bounded memo of a pure function is transparent under every schedule, capacity and store
    policy; racing lazy initialisation with one deterministic value is indistinguishable from eager initialisation. -/
namespace Sm

set_option linter.unusedSectionVars false
variable {K V : Type} [DecidableEq K]

/-- every entry of the table is `(k, f k)` -/
def Coh (f : K → V) (t : Table K V) : Prop := ∀ e ∈ t, e.2 = f e.1

/-- what a thread holds in its hands is `f` of its key -/
def GoodPc (f : K → V) : Pc K V → Prop
  | .storing k v => v = f k
  | .returned k v => v = f k
  | _ => True

structure Inv (cap : Nat) (f : K → V) (s : St K V) : Prop where
  coh : Coh f s.table
  pcs : ∀ i, GoodPc f (s.pcs i)
  log : ∀ r ∈ s.log, r.2.2 = f r.2.1
  bound : s.table.length ≤ cap

theorem find_coh (f : K → V) (t : Table K V) (h : Coh f t) (k : K) (v : V) (hf : find t k = some v) : v = f k := by
  unfold find at hf
  split at hf
  · rename_i e he
    have hm := List.mem_of_find?_eq_some he
    have hk : e.1 = k := eq_of_beq (List.find?_some (p := fun (e : K × V) => e.1 == k) he)
    injection hf with hf
    rw [← hf, h e hm, hk]
  · cases hf

theorem erase_coh (f : K → V) (t : Table K V) (h : Coh f t) (k : K) : Coh f (erase t k) := by
  intro e he
  exact h e (List.mem_filter.mp he).1

theorem erase_length (t : Table K V) (k : K) : (erase t k).length ≤ t.length := List.length_filter_le _ _

theorem find_some_erase_lt (t : Table K V) (k : K) (h : (find t k).isSome) : (erase t k).length < t.length := by
  unfold find at h
  split at h
  · rename_i e he
    have hm := List.mem_of_find?_eq_some he
    have hk : (e.1 == k) = true := List.find?_some (p := fun (e : K × V) => e.1 == k) he
    unfold erase
    apply List.length_filter_lt_length_iff_exists.mpr
    exact ⟨e, hm, by simp [hk]⟩
  · cases h

theorem cons_coh (f : K → V) (t : Table K V) (h : Coh f t) (k : K) (v : V) (hv : v = f k) : Coh f ((k, v) :: t) := by
  intro e he
  rcases List.mem_cons.mp he with rfl | he
  · exact hv
  · exact h e he

theorem eraseIdx_coh (f : K → V) (t : Table K V) (h : Coh f t) (n : Nat) : Coh f (t.eraseIdx n) := by
  intro e he
  exact h e (List.mem_of_mem_eraseIdx he)

/-- the store step keeps the table coherent whatever the policy choice `c` -/
theorem store_coh (cap c : Nat) (f : K → V) (t : Table K V) (h : Coh f t) (k : K) (v : V) (hv : v = f k) :
    Coh f (store cap c t k v) := by
  unfold store
  split
  · exact h
  · split
    · split
      · exact h
      · exact cons_coh f _ (erase_coh f t h k) k v hv
    · split
      · exact cons_coh f t h k v hv
      · split
        · exact h
        · exact cons_coh f _ (eraseIdx_coh f t h _) k v hv

/-- ... and never lets it grow beyond `cap` -/
theorem store_bound (cap c : Nat) (t : Table K V) (hb : t.length ≤ cap) (k : K) (v : V) :
    (store cap c t k v).length ≤ cap := by
  unfold store
  split
  · exact hb
  · split
    · rename_i hp
      split
      · exact hb
      · have := find_some_erase_lt t k hp
        simp only [List.length_cons]; omega
    · split
      · simp only [List.length_cons]; omega
      · split
        · exact hb
        · rename_i hc0 _ hfull _
          have hpos : 0 < t.length := by omega
          have hlt : (c - 1) % t.length < t.length := Nat.mod_lt _ hpos
          simp only [List.length_cons, List.length_eraseIdx, hlt, if_true]
          omega

theorem setPc_good (f : K → V) (s : St K V) (i : Nat) (pc : Pc K V) (h : ∀ j, GoodPc f (s.pcs j)) (hpc : GoodPc f pc) :
    ∀ j, GoodPc f (setPc s i pc j) := by
  intro j
  unfold setPc
  by_cases hj : j = i
  · simp only [hj, if_true]; exact hpc
  · simp only [hj, if_false]; exact h j

theorem log_snoc (f : K → V) (l : List (Nat × K × V)) (h : ∀ r ∈ l, r.2.2 = f r.2.1) (i : Nat) (k : K) (v : V) (hv : v = f k) :
    ∀ r ∈ l ++ [(i, k, v)], r.2.2 = f r.2.1 := by
  intro r hr
  rcases List.mem_append.mp hr with hr | hr
  · exact h r hr
  · have : r = (i, k, v) := by simpa using hr
    subst this; exact hv

/-- **one step of any thread (or a `cache_clear()`) preserves the invariant**, for every capacity, choice and key -/
theorem step_inv (cap : Nat) (f : K → V) (storable : V → Bool) (s : St K V) (a : Act K) (h : Inv cap f s) :
    Inv cap f (step cap f storable s a) := by
  cases a with
  | call i k =>
    simp only [step]
    split
    · exact ⟨h.coh, setPc_good f s i _ h.pcs trivial, h.log, h.bound⟩
    · exact ⟨h.coh, setPc_good f s i _ h.pcs trivial, h.log, h.bound⟩
    · exact h
  | step i c =>
    simp only [step]
    have hgi := h.pcs i
    split
    · exact h
    · exact h
    · rename_i k hk
      split
      · rename_i v hv
        have hvf : v = f k := find_coh f s.table h.coh k v hv
        refine ⟨cons_coh f _ (erase_coh f _ h.coh k) k v hvf, setPc_good f s i _ h.pcs hvf, log_snoc f _ h.log i k v hvf, ?_⟩
        have := find_some_erase_lt s.table k (by rw [hv]; rfl)
        have := h.bound
        simp only [List.length_cons]; omega
      · exact ⟨h.coh, setPc_good f s i _ h.pcs trivial, h.log, h.bound⟩
    · rename_i k hk
      split
      · exact ⟨h.coh, setPc_good f s i _ h.pcs rfl, h.log, h.bound⟩
      · exact ⟨h.coh, setPc_good f s i _ h.pcs rfl, log_snoc f _ h.log i k _ rfl, h.bound⟩
    · rename_i k v hk
      rw [hk] at hgi
      exact ⟨store_coh cap c f _ h.coh k v hgi, setPc_good f s i _ h.pcs hgi, log_snoc f _ h.log i k v hgi,
             store_bound cap c _ h.bound k v⟩
  | clear =>
    exact ⟨fun e he => absurd he List.not_mem_nil, h.pcs, h.log, Nat.zero_le _⟩

theorem exec_inv (cap : Nat) (f : K → V) (storable : V → Bool) : ∀ (acts : List (Act K)) (s : St K V),
    Inv cap f s → Inv cap f (exec cap f storable s acts) := by
  intro acts
  induction acts with
  | nil => intro s h; exact h
  | cons a rest ih => intro s h; exact ih _ (step_inv cap f storable s a h)

theorem init_inv (cap : Nat) (f : K → V) : Inv cap f ({} : St K V) :=
  ⟨fun _ he => absurd he List.not_mem_nil, fun _ => trivial, fun _ hr => absurd hr List.not_mem_nil, Nat.zero_le _⟩

/-- **`memo_transparent`**: for EVERY schedule of calls, thread steps and `cache_clear()`s, every capacity and every store
    policy (the choices inside the schedule): every completed call for key `k` returned `f k` (whether it was a hit on an
    entry stored by another thread, a miss, or raced with another computation of the same key), the value a thread is
    about to return or store is `f` of its key, the table only ever holds pairs `(k, f k)` and never more than `cap` of them -/
theorem memo_transparent (cap : Nat) (f : K → V) (storable : V → Bool) (acts : List (Act K)) :
    let s := exec cap f storable {} acts
    (∀ i k v, (i, k, v) ∈ s.log → v = f k) ∧ (∀ i k v, s.pcs i = .returned k v → v = f k) ∧
    (∀ e ∈ s.table, e.2 = f e.1) ∧ s.table.length ≤ cap := by
  have h := exec_inv cap f storable acts {} (init_inv cap f)
  refine ⟨fun i k v hm => h.log (i, k, v) hm, fun i k v hp => ?_, h.coh, h.bound⟩
  have := h.pcs i; rw [hp] at this; exact this

/-- the LRU replay is one of the schedules `memo_transparent` quantifies over -/
theorem execLru_is_exec (cap : Nat) (f : K → V) (storable : V → Bool) : ∀ (acts : List (Act K)) (s : St K V),
    ∃ acts', execLru cap f storable s acts = exec cap f storable s acts' := by
  intro acts
  induction acts with
  | nil => intro s; exact ⟨[], rfl⟩
  | cons a rest ih =>
    intro s
    cases a with
    | call i k =>
      obtain ⟨r, hr⟩ := ih (step cap f storable s (.call i k))
      exact ⟨.call i k :: r, by simp only [execLru, exec, List.foldl_cons] at hr ⊢; exact hr⟩
    | step i c =>
      obtain ⟨r, hr⟩ := ih (step cap f storable s (.step i (lruChoice s.table)))
      exact ⟨.step i (lruChoice s.table) :: r, by simp only [execLru, exec, List.foldl_cons] at hr ⊢; exact hr⟩
    | clear =>
      obtain ⟨r, hr⟩ := ih (step cap f storable s .clear)
      exact ⟨.clear :: r, by simp only [execLru, exec, List.foldl_cons] at hr ⊢; exact hr⟩

theorem memo_transparent_lru (cap : Nat) (f : K → V) (storable : V → Bool) (acts : List (Act K)) :
    let s := execLru cap f storable {} acts
    (∀ i k v, (i, k, v) ∈ s.log → v = f k) ∧ (∀ e ∈ s.table, e.2 = f e.1) ∧ s.table.length ≤ cap := by
  obtain ⟨acts', h⟩ := execLru_is_exec cap f storable acts ({} : St K V)
  have := memo_transparent cap f storable acts'
  simp only [h]
  exact ⟨this.1, this.2.2.1, this.2.2.2⟩

/-- progress (non-vacuity of "completed call"): a thread that is not inside a call, once it calls and is scheduled three
    times, has returned `f k` - whatever the table contains and whatever the other threads did before -/
theorem call_completes (cap : Nat) (f : K → V) (storable : V → Bool) (s : St K V) (hinv : Inv cap f s) (i : Nat) (k : K)
    (c1 c2 c3 : Nat) (hidle : s.pcs i = .idle ∨ ∃ k' v', s.pcs i = .returned k' v') :
    (exec cap f storable s [.call i k, .step i c1, .step i c2, .step i c3]).pcs i = .returned k (f k) := by
  have h1 : (step cap f storable s (.call i k)).pcs i = .looking k := by
    rcases hidle with h | ⟨k', v', h⟩ <;> simp [step, h, setPc]
  have hinv1 := step_inv cap f storable s (.call i k) hinv
  simp only [exec, List.foldl_cons, List.foldl_nil]
  generalize step cap f storable s (.call i k) = s1 at h1 hinv1 ⊢
  -- first step: hit or miss
  cases hf : find s1.table k with
  | some v =>
    have hv : v = f k := find_coh f _ hinv1.coh k v hf
    have h2 : (step cap f storable s1 (.step i c1)).pcs i = .returned k (f k) := by
      simp [step, h1, hf, setPc, hv]
    have h3 : (step cap f storable (step cap f storable s1 (.step i c1)) (.step i c2)).pcs i = .returned k (f k) := by
      generalize step cap f storable s1 (.step i c1) = s2 at h2
      simp [step, h2]
    generalize step cap f storable (step cap f storable s1 (.step i c1)) (.step i c2) = s3 at h3
    simp [step, h3]
  | none =>
    have h2 : (step cap f storable s1 (.step i c1)).pcs i = .computing k := by
      simp [step, h1, hf, setPc]
    generalize step cap f storable s1 (.step i c1) = s2 at h2
    by_cases hs : storable (f k) = true
    · have h3 : (step cap f storable s2 (.step i c2)).pcs i = .storing k (f k) := by
        simp [step, h2, hs, setPc]
      generalize step cap f storable s2 (.step i c2) = s3 at h3
      simp [step, h3, setPc]
    · have h3 : (step cap f storable s2 (.step i c2)).pcs i = .returned k (f k) := by
        simp [step, h2, hs, setPc]
      generalize step cap f storable s2 (.step i c2) = s3 at h3
      simp [step, h3]

#print axioms memo_transparent
#print axioms call_completes

/-! ### non-vacuity: concrete interleavings (f = (· * 10) on Nat keys, everything storable) -/
section examples
def f10 : Nat → Nat := fun k => k * 10
def yes : Nat → Bool := fun _ => true

/-- two threads compute the same key concurrently; thread 1 stores first, thread 0's store (choice 1) overwrites it -/
example : let s := exec 2 f10 yes {} [.call 0 7, .call 1 7, .step 0 0, .step 1 0, .step 0 0, .step 1 0, .step 1 0, .step 0 1]
    s.log = [(1, 7, 70), (0, 7, 70)] ∧ s.table = [(7, 70)] ∧ s.misses = 2 ∧ s.hits = 0 := by decide

/-- capacity 2, three keys: the third store evicts (LRU choice) the least recently used key 1; key 1 is then a miss again -/
example : let s := execLru 2 f10 yes {} [.call 0 1, .step 0 0, .step 0 0, .step 0 0, .call 0 2, .step 0 0, .step 0 0, .step 0 0,
                                          .call 0 3, .step 0 0, .step 0 0, .step 0 0, .call 0 1, .step 0 0]
    s.table = [(3, 30), (2, 20)] ∧ s.pcs 0 = .computing 1 ∧ s.misses = 4 := by decide

/-- a hit on an entry stored by ANOTHER thread, then `cache_clear()` while thread 1 is between compute and store -/
example : let s := exec 4 f10 yes {} [.call 0 5, .step 0 0, .step 0 0, .step 0 0, .call 1 5, .step 1 0, .call 1 6, .step 1 0, .step 1 0,
                                       .clear, .step 1 0]
    s.log = [(0, 5, 50), (1, 5, 50), (1, 6, 60)] ∧ s.table = [(6, 60)] := by decide

/-- an incoherent table (what `lru_cache` around a function with a MUTABLE result degenerates to once a caller has mutated
    the shared document in place) breaks transparency: the hypothesis "entries are (k, f k)" is what the inventory's
    mutable-result oracle checks on the real functions -/
example : let s := exec 4 f10 yes { table := [(5, 51)] } [.call 0 5, .step 0 0]
    s.log = [(0, 5, 51)] := by decide
end examples

end Sm

namespace Lz

variable {V : Type}

/-- the cell is empty or holds `d`; whatever a thread carries or used is `d`; an empty cell means nobody is past the write -/
def GoodPc (d : V) (cell : Option V) : Pc V → Prop
  | .made v => v = d
  | .done v => v = d
  | .reread => cell = some d
  | _ => True

structure Inv (d : V) (s : St V) : Prop where
  cell : s.cell = none ∨ s.cell = some d
  pcs : ∀ i, GoodPc d s.cell (s.pcs i)

theorem GoodPc_mono (d : V) (c c' : Option V) (pc : Pc V) (h : c = some d → c' = some d) : GoodPc d c pc → GoodPc d c' pc := by
  intro g
  cases pc <;> first | exact g | exact h g

theorem run_inv (d : V) (s : St V) (i : Nat) (h : Inv d s) : Inv d (run d s i) := by
  unfold run
  have hgi := h.pcs i
  have upd : ∀ (c' : Option V) (pc' : Pc V), (s.cell = some d → c' = some d) → GoodPc d c' pc' →
      ∀ j, GoodPc d c' (if j = i then pc' else s.pcs j) := by
    intro c' pc' hc hp j
    by_cases hj : j = i
    · simp only [hj, if_true]; exact hp
    · simp only [hj, if_false]; exact GoodPc_mono d s.cell c' _ hc (h.pcs j)
  split
  · split
    · rename_i v hv
      have : v = d := by rcases h.cell with hc | hc <;> rw [hc] at hv <;> cases hv; rfl
      exact ⟨h.cell, upd s.cell _ id this⟩
    · exact ⟨h.cell, upd s.cell _ id trivial⟩
  · exact ⟨h.cell, upd s.cell _ id rfl⟩
  · rename_i v hv
    rw [hv] at hgi
    have hvd : v = d := hgi
    subst hvd
    exact ⟨Or.inr rfl, upd (some v) _ (fun _ => rfl) rfl⟩
  · split
    · rename_i hp _ v hv
      rw [hp] at hgi
      have : v = d := by
        have hgi' : s.cell = some d := hgi
        rw [hgi'] at hv; injection hv with hv; exact hv.symm
      exact ⟨h.cell, upd s.cell _ id this⟩
    · exact h
  · exact h

theorem exec_inv (d : V) : ∀ (sched : List Nat) (s : St V), Inv d s → Inv d (exec d s sched) := by
  intro sched
  induction sched with
  | nil => intro s h; exact h
  | cons i rest ih => intro s h; exact ih _ (run_inv d s i h)

/-- **`lazy_init_idempotent`**: a cell initialised lazily by any number of racing threads, each writing the same
    deterministic value `d` (several may find it empty and all of them write), is indistinguishable from a cell initialised
    eagerly: under ANY schedule `sched` of the lazy system and ANY schedule `sched'` of the eager system (cell = `some d` from
    the start) every thread that has finished used the same value, namely `d`; the lazy cell never holds anything but `d` -/
theorem lazy_init_idempotent (d : V) (sched sched' : List Nat) (i j : Nat) :
    let lazy := exec d ({} : St V) sched
    let eager := exec d ({ cell := some d } : St V) sched'
    (∀ v, lazy.pcs i = .done v → v = d) ∧ (∀ w, eager.pcs j = .done w → w = d) ∧
    (lazy.cell = none ∨ lazy.cell = some d) ∧ eager.cell = some d := by
  have hl := exec_inv d sched ({} : St V) ⟨Or.inl rfl, fun _ => trivial⟩
  have he := exec_inv d sched' ({ cell := some d } : St V) ⟨Or.inr rfl, fun _ => trivial⟩
  refine ⟨fun v hv => ?_, fun w hw => ?_, hl.cell, ?_⟩
  · have := hl.pcs i; rw [hv] at this; exact this
  · have := he.pcs j; rw [hw] at this; exact this
  · -- the eager cell is never emptied
    have never : ∀ (sched : List Nat) (s : St V), s.cell = some d → Inv d s → (exec d s sched).cell = some d := by
      intro sched
      induction sched with
      | nil => intro s h _; exact h
      | cons a rest ih =>
        intro s h hi
        refine ih _ ?_ (run_inv d s a hi)
        have hg := hi.pcs a
        unfold run
        split
        · split <;> exact h
        · exact h
        · rename_i v hv; rw [hv] at hg; have : v = d := hg; subst this; rfl
        · split <;> exact h
        · exact h
    exact never sched' _ rfl ⟨Or.inr rfl, fun _ => trivial⟩

/-- progress (non-vacuity of "finished"): from any reachable state a thread scheduled four times has finished, with `d` -/
theorem lazy_completes (d : V) (s : St V) (h : Inv d s) (i : Nat) : (exec d s [i, i, i, i]).pcs i = .done d := by
  have h4 := exec_inv d [i, i, i, i] s h
  have ex : ∃ v, (exec d s [i, i, i, i]).pcs i = .done v := by
    cases hp : s.pcs i with
    | start =>
      cases hc : s.cell with
      | some v => exact ⟨v, by simp [exec, run, hp, hc]⟩
      | none => exact ⟨d, by simp [exec, run, hp, hc]⟩
    | sawNone => exact ⟨d, by simp [exec, run, hp]⟩
    | made v => exact ⟨v, by simp [exec, run, hp]⟩
    | reread =>
      have hc : s.cell = some d := by have := h.pcs i; rw [hp] at this; exact this
      exact ⟨d, by simp [exec, run, hp, hc]⟩
    | done v => exact ⟨v, by simp [exec, run, hp]⟩
  obtain ⟨v, hv⟩ := ex
  have hg := h4.pcs i
  rw [hv] at hg
  have : v = d := hg
  subst this; exact hv

#print axioms lazy_init_idempotent

/-- three threads all find the cell empty and all write; everybody uses 9 -/
example : let s := exec 9 ({} : St Nat) [0, 1, 2, 0, 1, 2, 0, 1, 2, 0, 1, 2]
    s.pcs 0 = .done 9 ∧ s.pcs 1 = .done 9 ∧ s.pcs 2 = .done 9 ∧ s.writes = 3 := by decide

end Lz

/-! Prototype for C16: static route — containment for ANY normpath, and exact range arithmetic. -/
namespace St

/-- posixpath.join(a, b) for two arguments -/
def join (a b : List Char) : List Char :=
  if b.head? == some '/' then b
  else if a.isEmpty || a.getLast? == some '/' then a ++ b
  else a ++ ['/'] ++ b

def isInfix (needle hay : List Char) : Bool :=
  (List.range (hay.length + 1)).any (fun i => (hay.drop i).take needle.length == needle)

def startsWith (s p : List Char) : Bool := s.take p.length == p

/-- the tail of `StaticRoute.__call__` after the textual rejections, for an arbitrary `normpath` result `n` -/
def resolve (dir n : List Char) : Option (List Char) :=
  if startsWith n ['.', '.', '/'] || startsWith n ['/'] then none
  else if isInfix ['.', '.'] (join dir n) || !startsWith (join dir n) dir then none
  else some (join dir n)

/-- **containment, independent of what `normpath` computes**: an accepted request opens `dir ++ "/" ++ n`
    (or `dir ++ n` if `dir` ends with a slash) and that string contains no ".." at all -/
theorem resolve_contained (dir n fp : List Char) (hd : dir ≠ []) (h : resolve dir n = some fp) :
    (fp = dir ++ ['/'] ++ n ∨ (dir.getLast? = some '/' ∧ fp = dir ++ n)) ∧ isInfix ['.', '.'] fp = false := by
  unfold resolve at h
  split at h
  · simp at h
  · rename_i hstart
    simp only [Bool.or_eq_true, not_or] at hstart
    split at h
    · simp at h
    · rename_i hchk
      simp only [Bool.or_eq_true, not_or, Bool.not_eq_true'] at hchk
      have hfp : fp = join dir n := by simpa using h.symm
      have habs : (n.head? == some '/') = false := by
        have h2 := hstart.2
        cases n with
        | nil => rfl
        | cons c cs =>
          simp only [startsWith, List.length_singleton, List.take_succ_cons, List.take_zero] at h2
          simp only [List.head?_cons]
          cases hc : (c == '/') with
          | false => simp [hc]
          | true =>
            have : c = '/' := by simpa using hc
            subst this; simp at h2
      refine ⟨?_, ?_⟩
      · rw [hfp]; unfold join
        simp only [habs, Bool.false_eq_true, if_false]
        have hne : dir.isEmpty = false := by
          cases dir with
          | nil => exact absurd rfl hd
          | cons _ _ => rfl
        simp only [hne, Bool.false_or]
        by_cases hl : (dir.getLast? == some '/') = true
        · simp only [hl, if_true]; right
          exact ⟨by simpa using hl, by first | rfl | trivial⟩
        · simp only [hl]; left; first | rfl | trivial
      · rw [hfp]; simpa using hchk.1

#print axioms resolve_contained

/-! ### `_set_range` -/
inductive RangeOut where
  | whole (len : Nat)                               -- 200, whole file
  | partial_ (first last len : Nat)                 -- 206, Content-Range first-last/size
  | unsatisfiable (size : Nat)                      -- 416
deriving Repr, DecidableEq

/-- `_set_range(fh, st, req_range)` with `req_range = (start, end_)`; `end_ = -1` means open; `start < 0` is a suffix -/
def setRange (size : Nat) (start end_ : Int) : RangeOut :=
  if size == 0 then .whole 0
  else if start < 0 && end_ == -1 then
    let s := max start (-(size : Int))
    .partial_ ((size : Int) + s).toNat (size - 1) (-s).toNat
  else if start ≥ size then .unsatisfiable size
  else if end_ == -1 then .partial_ start.toNat (size - 1) ((size : Int) - start).toNat
  else
    let e := min end_ ((size : Int) - 1)
    .partial_ start.toNat e.toNat (e - start + 1).toNat

/-- RFC 9110 reading of `bytes=first-last` on a representation of `size > 0` bytes -/
theorem range_closed (size : Nat) (first last : Nat) (hs : 0 < size) (hfl : first ≤ last) :
    setRange size first last =
      if first ≥ size then .unsatisfiable size
      else .partial_ first (min last (size - 1)) (min last (size - 1) - first + 1) := by
  unfold setRange
  have h0 : (size == 0) = false := by simp; omega
  have h1 : ((first : Int) < 0) = False := by simp
  simp only [h0, Bool.false_eq_true, if_false, h1, decide_false, Bool.false_and]
  by_cases hge : first ≥ size
  · have : ((first : Int) ≥ (size : Int)) := by omega
    simp [this, hge]
  · have : ¬ ((first : Int) ≥ (size : Int)) := by omega
    have hne : ((last : Int) == -1) = false := by simp
    simp only [this, if_false, hne, Bool.false_eq_true, hge]
    try (congr 1 <;> omega)

theorem range_open (size : Nat) (first : Nat) (hs : 0 < size) :
    setRange size first (-1) =
      if first ≥ size then .unsatisfiable size else .partial_ first (size - 1) (size - first) := by
  unfold setRange
  have h0 : (size == 0) = false := by simp; omega
  have h1 : ((first : Int) < 0) = False := by simp
  simp only [h0, Bool.false_eq_true, if_false, h1, decide_false, Bool.false_and]
  by_cases hge : first ≥ size
  · have : ((first : Int) ≥ (size : Int)) := by omega
    simp [this, hge]
  · have : ¬ ((first : Int) ≥ (size : Int)) := by omega
    simp only [this, if_false, beq_self_eq_true, if_true, hge]
    congr 1 <;> omega

theorem range_suffix (size : Nat) (n : Nat) (hs : 0 < size) (hn : 0 < n) :
    setRange size (-(n : Int)) (-1) = .partial_ (size - min n size) (size - 1) (min n size) := by
  unfold setRange
  have h0 : (size == 0) = false := by simp; omega
  have h1 : (-(n : Int) < 0) := by omega
  simp only [h0, Bool.false_eq_true, if_false, h1, decide_true, beq_self_eq_true, Bool.and_self, if_true]
  congr 1 <;> omega

/-- the served slice always lies inside the file and Content-Length matches Content-Range -/
theorem range_wellformed (size : Nat) (start end_ : Int) (first last len : Nat)
    (hse : start < 0 → end_ = -1) (he : end_ = -1 ∨ start ≤ end_)
    (h : setRange size start end_ = .partial_ first last len) :
    first ≤ last ∧ last < size ∧ len = last - first + 1 := by
  unfold setRange at h
  split at h
  · simp at h
  · rename_i hsz
    have hsz' : 0 < size := by
      have : size ≠ 0 := by simpa using hsz
      omega
    split at h
    · rename_i hc
      simp only [Bool.and_eq_true, decide_eq_true_eq, beq_iff_eq] at hc
      simp only [RangeOut.partial_.injEq] at h
      obtain ⟨rfl, rfl, rfl⟩ := h
      omega
    · split at h
      · simp at h
      · rename_i hc hlt
        split at h
        · rename_i heq
          simp only [RangeOut.partial_.injEq] at h
          obtain ⟨rfl, rfl, rfl⟩ := h
          have hs0 : 0 ≤ start := by
            rcases Int.lt_or_le start 0 with hneg | hpos
            · exfalso; apply hc; simp [hneg, heq]
            · exact hpos
          omega
        · rename_i hne
          simp only [RangeOut.partial_.injEq] at h
          obtain ⟨rfl, rfl, rfl⟩ := h
          have hs0 : 0 ≤ start := by
            rcases Int.lt_or_le start 0 with hneg | hpos
            · exfalso; have := hse hneg; simp [this] at hne
            · exact hpos
          have hes : start ≤ end_ := by
            rcases he with he | he
            · simp [he] at hne
            · exact he
          omega

#print axioms range_wellformed
end St

/-! ### Round 1: the textual rejection tests of `StaticRoute.__call__`, POSIX `normpath`, and the whole path resolution -/
namespace St

/-- `_DISALLOWED_CHARS_PATTERN = '[\x00-\x1f\x80-\x9f�~?<>:*|\'"]'` -/
def disallowedChar (c : Char) : Bool :=
  c.toNat ≤ 0x1f || (0x80 ≤ c.toNat && c.toNat ≤ 0x9f) || c.toNat == 0xfffd ||
  c == '~' || c == '?' || c == '<' || c == '>' || c == ':' || c == '*' || c == '|' || c == '\'' || c == '"'

/-- `str.isspace` for one character (what `str.strip()` removes) -/
def isSpace (c : Char) : Bool :=
  let n := c.toNat
  (0x09 ≤ n && n ≤ 0x0d) || (0x1c ≤ n && n ≤ 0x20) || n == 0x85 || n == 0xa0 || n == 0x1680 ||
  (0x2000 ≤ n && n ≤ 0x200a) || n == 0x2028 || n == 0x2029 || n == 0x202f || n == 0x205f || n == 0x3000

def rstripBy (p : Char → Bool) (s : List Char) : List Char := (s.reverse.dropWhile p).reverse
/-- `s.strip().rstrip('.')` -/
def stripDots (s : List Char) : List Char := rstripBy (· == '.') (rstripBy isSpace (s.dropWhile isSpace))

/-- the six textual tests before `normpath`; `true` = the request goes on, `false` = 404 -/
def sanitise (hasFallback : Bool) (s : List Char) : Bool :=
  !( (s.isEmpty && !hasFallback)
     || stripDots s != s
     || s.any disallowedChar
     || s.contains '\\'
     || isInfix ['/', '/'] s
     || decide (s.length > 512))

def splitOn (sep : Char) (s : List Char) : List (List Char) :=
  s.foldr (fun c acc => if c == sep then [] :: acc else match acc with | [] => [[c]] | h :: t => (c :: h) :: t) [[]]

def joinSlash : List (List Char) → List Char
  | [] => []
  | [a] => a
  | a :: rest => a ++ ['/'] ++ joinSlash rest

/-- `posixpath.normpath` -/
def normpath (path : List Char) : List Char :=
  if path.isEmpty then ['.'] else
  let initial : Nat :=
    if startsWith path ['/'] then (if startsWith path ['/', '/'] && !startsWith path ['/', '/', '/'] then 2 else 1) else 0
  let comps := (splitOn '/' path).foldl (fun (acc : List (List Char)) comp =>
    if comp.isEmpty || comp == ['.'] then acc
    else if comp != ['.', '.'] || (initial == 0 && acc.isEmpty) || (acc.getLast? == some ['.', '.']) then acc ++ [comp]
    else acc.dropLast) []
  let p := List.replicate initial '/' ++ joinSlash comps
  if p.isEmpty then ['.'] else p

/-- everything `StaticRoute.__call__` does to the part of the request path after the prefix: `none` = 404 without
    touching the file system, `some fp` = the one path handed to `io.open` (the fallback file aside) -/
def serve (hasFallback : Bool) (dir s : List Char) : Option (List Char) :=
  if sanitise hasFallback s then resolve dir (normpath s) else none

/-- **containment for every request-path suffix**: whatever is opened is `dir + "/" + normpath(suffix)`, contains no
    `..` anywhere, and the suffix passed all textual tests (no control / reserved characters, no backslash, no `//`,
    at most 512 characters, no surrounding whitespace, no trailing dot) -/
theorem serve_contained (fb : Bool) (dir s fp : List Char) (hd : dir ≠ []) (h : serve fb dir s = some fp) :
    (fp = dir ++ ['/'] ++ normpath s ∨ (dir.getLast? = some '/' ∧ fp = dir ++ normpath s)) ∧
    isInfix ['.', '.'] fp = false ∧
    s.any disallowedChar = false ∧ s.contains '\\' = false ∧ isInfix ['/', '/'] s = false ∧ s.length ≤ 512 ∧
    (fb = false → s ≠ []) := by
  unfold serve at h
  split at h
  · rename_i hs
    have hr := resolve_contained dir (normpath s) fp hd h
    refine ⟨hr.1, hr.2, ?_⟩
    unfold sanitise at hs
    simp only [Bool.not_eq_true', Bool.or_eq_false_iff, Bool.and_eq_false_iff, decide_eq_false_iff_not] at hs
    obtain ⟨⟨⟨⟨⟨h1, _⟩, h3⟩, h4⟩, h5⟩, h6⟩ := hs
    refine ⟨h3, h4, h5, by omega, ?_⟩
    intro hfb hnil
    subst hfb; subst hnil
    simp at h1
  · cases h

/-- a rejected suffix opens nothing -/
theorem rejected_opens_nothing (fb : Bool) (dir s : List Char) (h : sanitise fb s = false) : serve fb dir s = none := by
  simp [serve, h]

#print axioms serve_contained
end St

import FalconModel.Static

/-! C16: properties of the native POSIX `normpath` model (`St.normpath`) that make containment unconditional. -/

namespace St

abbrev dd : List Char := ['.', '.']

/-! ### `splitOn` / `joinSlash` -/

theorem splitOn_nil (sep : Char) : splitOn sep [] = [[]] := rfl

theorem splitOn_cons (sep c : Char) (s : List Char) :
    splitOn sep (c :: s) =
      if c == sep then [] :: splitOn sep s
      else match splitOn sep s with
        | [] => [[c]]
        | h :: t => (c :: h) :: t := by
  unfold splitOn; rw [List.foldr_cons]
  split
  · rfl
  · split <;> simp_all

theorem splitOn_ne_nil (sep : Char) (s : List Char) : splitOn sep s ≠ [] := by
  induction s with
  | nil => simp [splitOn_nil]
  | cons c s ih =>
    rw [splitOn_cons]
    split
    · simp
    · split <;> simp

theorem splitOn_cons_ne (sep c : Char) (s : List Char) (h : (c == sep) = false) :
    ∃ hd tl, splitOn sep s = hd :: tl ∧ splitOn sep (c :: s) = (c :: hd) :: tl := by
  cases hs : splitOn sep s with
  | nil => exact absurd hs (splitOn_ne_nil sep s)
  | cons hd tl =>
    refine ⟨hd, tl, rfl, ?_⟩
    rw [splitOn_cons, hs]; simp [h]

/-- no component contains the separator -/
theorem splitOn_no_sep (sep : Char) (s : List Char) : ∀ c ∈ splitOn sep s, sep ∉ c := by
  induction s with
  | nil => intro c hc; simp [splitOn_nil] at hc; subst hc; simp
  | cons x s ih =>
    intro c hc
    by_cases hx : (x == sep) = true
    · rw [splitOn_cons] at hc; simp only [hx, if_true] at hc
      rcases List.mem_cons.mp hc with h | h
      · subst h; simp
      · exact ih c h
    · have hx' : (x == sep) = false := by simpa using hx
      obtain ⟨hd, tl, h1, h2⟩ := splitOn_cons_ne sep x s hx'
      rw [h2] at hc
      rcases List.mem_cons.mp hc with h | h
      · subst h
        have := ih hd (by rw [h1]; simp)
        intro hm
        rcases List.mem_cons.mp hm with e | e
        · subst e; simp at hx'
        · exact this e
      · exact ih c (by rw [h1]; simp [h])

/-- `(a + sep + b).split(sep) = a.split(sep) + b.split(sep)` -/
theorem splitOn_append (sep : Char) (a b : List Char) :
    splitOn sep (a ++ sep :: b) = splitOn sep a ++ splitOn sep b := by
  induction a with
  | nil => simp [splitOn_cons, splitOn_nil]
  | cons x a ih =>
    by_cases hx : (x == sep) = true
    · simp only [List.cons_append, splitOn_cons, hx, if_true, ih]
    · have hx' : (x == sep) = false := by simpa using hx
      obtain ⟨hd, tl, h1, h2⟩ := splitOn_cons_ne sep x a hx'
      obtain ⟨hd', tl', h1', h2'⟩ := splitOn_cons_ne sep x (a ++ sep :: b) hx'
      rw [List.cons_append, h2', h2]
      rw [ih, h1] at h1'
      simp only [List.cons_append, List.cons.injEq] at h1'
      obtain ⟨e1, e2⟩ := h1'
      subst e1; subst e2; rfl

theorem splitOn_single (sep : Char) (a : List Char) (h : sep ∉ a) : splitOn sep a = [a] := by
  induction a with
  | nil => rfl
  | cons x a ih =>
    have hx' : (x == sep) = false := by
      cases hx : (x == sep) with
      | false => rfl
      | true => exfalso; apply h; have : x = sep := by simpa using hx
                subst this; simp
    obtain ⟨hd, tl, h1, h2⟩ := splitOn_cons_ne sep x a hx'
    rw [h2]
    have := ih (fun hm => h (List.mem_cons_of_mem _ hm))
    rw [this] at h1
    simp only [List.cons.injEq] at h1
    obtain ⟨e1, e2⟩ := h1
    subst e1; subst e2; rfl

theorem joinSlash_cons_cons (a b : List Char) (r : List (List Char)) :
    joinSlash (a :: b :: r) = a ++ '/' :: joinSlash (b :: r) := by
  simp [joinSlash]

/-- `'/'.join(l).split('/') = l` for a non-empty list of slash-free components -/
theorem splitOn_joinSlash (l : List (List Char)) (hne : l ≠ []) (h : ∀ c ∈ l, '/' ∉ c) :
    splitOn '/' (joinSlash l) = l := by
  induction l with
  | nil => exact absurd rfl hne
  | cons a r ih =>
    cases r with
    | nil => simp only [joinSlash]; exact splitOn_single '/' a (h a (by simp))
    | cons b r =>
      rw [joinSlash_cons_cons, splitOn_append, splitOn_single '/' a (h a (by simp)),
        ih (by simp) (fun c hc => h c (List.mem_cons_of_mem _ hc))]
      rfl

/-! ### the component loop of `normpath` -/

/-- one iteration of the `for comp in comps:` loop of `posixpath.normpath` -/
def normStep (initial : Nat) (acc : List (List Char)) (comp : List Char) : List (List Char) :=
  if comp.isEmpty || comp == ['.'] then acc
  else if comp != ['.', '.'] || (initial == 0 && acc.isEmpty) || (acc.getLast? == some ['.', '.']) then acc ++ [comp]
  else acc.dropLast

def initialSlashes (path : List Char) : Nat :=
  if startsWith path ['/'] then (if startsWith path ['/', '/'] && !startsWith path ['/', '/', '/'] then 2 else 1) else 0

def normComps (path : List Char) : List (List Char) :=
  (splitOn '/' path).foldl (normStep (initialSlashes path)) []

theorem normpath_eq (path : List Char) :
    normpath path =
      if path.isEmpty then ['.'] else
      let p := List.replicate (initialSlashes path) '/' ++ joinSlash (normComps path)
      if p.isEmpty then ['.'] else p := rfl

/-- a path component that is a real name: not empty, not `.`, not `..` -/
def Clean (c : List Char) : Prop := c ≠ [] ∧ c ≠ ['.'] ∧ c ≠ dd

/-- the shape `['..'] * k + names` -/
def Shape (acc : List (List Char)) : Prop :=
  ∃ (k : Nat) (rest : List (List Char)), acc = List.replicate k dd ++ rest ∧ ∀ c ∈ rest, Clean c

theorem getLast?_replicate_dd (k : Nat) (hk : 0 < k) : (List.replicate k dd).getLast? = some dd := by
  cases k with
  | zero => omega
  | succ n => simp [List.getLast?_replicate]

theorem normStep_shape (acc : List (List Char)) (comp : List Char) (h : Shape acc) :
    Shape (normStep 0 acc comp) := by
  obtain ⟨k, rest, hacc, hclean⟩ := h
  unfold normStep
  split
  · exact ⟨k, rest, hacc, hclean⟩
  · rename_i h1
    simp only [Bool.or_eq_true, not_or, Bool.not_eq_true, List.isEmpty_eq_false_iff] at h1
    have hne : comp ≠ [] := by
      intro h; apply h1.1; simp [h]
    have hnd : comp ≠ ['.'] := by
      intro h; have := h1.2; simp [h] at this
    split
    · rename_i h2
      by_cases hdd : comp = dd
      · -- `..` is appended: the list was all `..`
        subst hdd
        have hrest : rest = [] := by
          simp only [bne_self_eq_false, Bool.false_or, beq_self_eq_true, Bool.true_and, Bool.or_eq_true,
            List.isEmpty_iff, beq_iff_eq] at h2
          rcases h2 with h2 | h2
          · rw [hacc] at h2
            have := List.append_eq_nil_iff.mp h2
            exact this.2
          · cases hr : rest.getLast? with
            | none => exact List.getLast?_eq_none_iff.mp hr
            | some l =>
              exfalso
              have hmem : l ∈ rest := List.mem_of_getLast? hr
              have : acc.getLast? = some l := by
                rw [hacc, List.getLast?_append, hr]; rfl
              rw [this] at h2
              have : l = dd := by simpa using h2
              exact (hclean l hmem).2.2 this
        subst hrest
        refine ⟨k + 1, [], ?_, by simp⟩
        rw [hacc]; simp [List.replicate_succ']
      · refine ⟨k, rest ++ [comp], by rw [hacc]; simp, ?_⟩
        intro c hc
        rcases List.mem_append.mp hc with h | h
        · exact hclean c h
        · have : c = comp := by simpa using h
          subst this; exact ⟨hne, hnd, hdd⟩
    · rename_i h2
      simp only [Bool.or_eq_true, not_or, Bool.not_eq_true, bne_eq_false_iff_eq, beq_iff_eq, Bool.and_eq_true,
        beq_self_eq_true, true_and, List.isEmpty_iff] at h2
      obtain ⟨⟨_, hnonempty⟩, hlast⟩ := h2
      -- the last element is a name: drop it
      have hrne : rest ≠ [] := by
        intro hr
        subst hr
        simp only [List.append_nil] at hacc
        cases k with
        | zero => exact hnonempty (by simpa using hacc)
        | succ n =>
          apply hlast
          rw [hacc]; exact getLast?_replicate_dd (n + 1) (by omega)
      refine ⟨k, rest.dropLast, ?_, fun c hc => hclean c (List.dropLast_subset _ hc)⟩
      rw [hacc, List.dropLast_append_of_ne_nil hrne]

theorem foldl_shape (l : List (List Char)) (acc : List (List Char)) (h : Shape acc) :
    Shape (l.foldl (normStep 0) acc) := by
  induction l generalizing acc with
  | nil => exact h
  | cons c l ih => exact ih _ (normStep_shape acc c h)

/-- every element of the accumulator came from the component list -/
theorem foldl_subset (init : Nat) (l acc : List (List Char)) :
    ∀ c ∈ l.foldl (normStep init) acc, c ∈ acc ∨ c ∈ l := by
  induction l generalizing acc with
  | nil => intro c hc; exact Or.inl hc
  | cons x l ih =>
    intro c hc
    rcases ih (normStep init acc x) c hc with h | h
    · unfold normStep at h
      split at h
      · exact Or.inl h
      · split at h
        · rcases List.mem_append.mp h with h | h
          · exact Or.inl h
          · right; have : c = x := by simpa using h
            subst this; simp
        · exact Or.inl (List.dropLast_subset _ h)
    · exact Or.inr (List.mem_cons_of_mem _ h)

theorem normComps_no_slash (path : List Char) : ∀ c ∈ normComps path, '/' ∉ c := by
  intro c hc
  rcases foldl_subset _ _ _ c hc with h | h
  · simp at h
  · exact splitOn_no_sep '/' path c h

theorem initialSlashes_rel (path : List Char) (h : startsWith path ['/'] = false) : initialSlashes path = 0 := by
  simp [initialSlashes, h]

/-- **`normpath` of a relative path: `..` components occur only as a leading run**, every other component is a
    real name (never empty, `.` or `..`) -/
theorem normpath_no_dotdot_inside (path : List Char) (hrel : startsWith path ['/'] = false) :
    normpath path = ['.'] ∨
    ∃ (k : Nat) (rest : List (List Char)),
      splitOn '/' (normpath path) = List.replicate k dd ++ rest ∧ (∀ c ∈ rest, Clean c) := by
  have hsh : Shape (normComps path) := by
    unfold normComps
    rw [initialSlashes_rel path hrel]
    exact foldl_shape _ _ ⟨0, [], rfl, by simp⟩
  rw [normpath_eq]
  split
  · exact Or.inl rfl
  · simp only [initialSlashes_rel path hrel, List.replicate_zero, List.nil_append]
    split
    · exact Or.inl rfl
    · rename_i hne
      right
      obtain ⟨k, rest, hacc, hclean⟩ := hsh
      refine ⟨k, rest, ?_, hclean⟩
      have hcne : normComps path ≠ [] := by
        intro h; rw [h] at hne; simp [joinSlash] at hne
      rw [splitOn_joinSlash _ hcne (normComps_no_slash path), hacc]


/-! ### absolute inputs stay absolute -/

theorem startsWith_slash_iff (p : List Char) : startsWith p ['/'] = true ↔ ∃ r, p = '/' :: r := by
  cases p with
  | nil => simp [startsWith]
  | cons c r => simp [startsWith]

theorem normpath_abs (path : List Char) (h : startsWith path ['/'] = true) :
    startsWith (normpath path) ['/'] = true := by
  obtain ⟨r, hr⟩ := (startsWith_slash_iff path).mp h
  rw [normpath_eq]
  have hi : ∃ m, initialSlashes path = m + 1 := by
    unfold initialSlashes; rw [h]; simp only [if_true]
    split
    · exact ⟨1, rfl⟩
    · exact ⟨0, rfl⟩
  obtain ⟨m, hm⟩ := hi
  subst hr
  simp only [List.isEmpty_cons, Bool.false_eq_true, if_false, hm, List.replicate_succ, List.cons_append]
  simp [startsWith]

/-! ### the disallowed normalised prefixes and the final check -/

theorem joinSlash_dd_cons (t : List (List Char)) :
    joinSlash (dd :: t) = dd ∨ ∃ x, joinSlash (dd :: t) = '.' :: '.' :: '/' :: x := by
  cases t with
  | nil => left; rfl
  | cons b r => right; exact ⟨joinSlash (b :: r), by rw [joinSlash_cons_cons]; rfl⟩

/-- what `normpath` leaves of a relative path once the disallowed prefix `../` (and the bare `..`) are excluded:
    only real names -/
theorem prefix_check_suffices (s : List Char) (hrel : startsWith s ['/'] = false)
    (hp : startsWith (normpath s) ['.', '.', '/'] = false) (hdd : normpath s ≠ dd) :
    normpath s = ['.'] ∨ ∀ c ∈ splitOn '/' (normpath s), Clean c := by
  rcases normpath_no_dotdot_inside s hrel with h | ⟨k, rest, hsplit, hclean⟩
  · exact Or.inl h
  · right
    cases k with
    | zero => intro c hc; rw [hsplit] at hc; exact hclean c (by simpa using hc)
    | succ k =>
      exfalso
      -- normpath s = joinSlash (dd :: …)
      have hsh : normpath s = joinSlash (normComps s) ∧ normComps s = List.replicate (k + 1) dd ++ rest := by
        have hne : s.isEmpty = false := by
          cases s with
          | nil =>
            have : normpath ([] : List Char) = ['.'] := rfl
            rw [this] at hsplit
            simp [splitOn_single, List.replicate_succ] at hsplit
          | cons _ _ => rfl
        have heq := normpath_eq s
        simp only [hne, Bool.false_eq_true, if_false, initialSlashes_rel s hrel, List.replicate_zero,
          List.nil_append] at heq
        by_cases hj : (joinSlash (normComps s)).isEmpty = true
        · simp only [hj, if_true] at heq
          rw [heq] at hsplit
          simp [splitOn_single, List.replicate_succ] at hsplit
        · have hj' : (joinSlash (normComps s)).isEmpty = false := by simpa using hj
          simp only [hj', Bool.false_eq_true, if_false] at heq
          refine ⟨heq, ?_⟩
          have hcne : normComps s ≠ [] := by
            intro h; rw [h] at hj; simp [joinSlash] at hj
          rw [heq, splitOn_joinSlash _ hcne (normComps_no_slash s)] at hsplit
          exact hsplit
      obtain ⟨h1, h2⟩ := hsh
      rw [h2, List.replicate_succ, List.cons_append] at h1
      rcases joinSlash_dd_cons (List.replicate k dd ++ rest) with h | ⟨x, h⟩
      · exact hdd (h1.trans h)
      · rw [h1, h] at hp; simp [startsWith] at hp

theorem isInfix_iff (n h : List Char) :
    isInfix n h = true ↔ ∃ i, i ≤ h.length ∧ (h.drop i).take n.length = n := by
  unfold isInfix
  simp only [List.any_eq_true, List.mem_range, beq_iff_eq]
  constructor
  · rintro ⟨i, hi, he⟩; exact ⟨i, by omega, he⟩
  · rintro ⟨i, hi, he⟩; exact ⟨i, by omega, he⟩

theorem isInfix_append_left (n a b : List Char) (h : isInfix n b = true) : isInfix n (a ++ b) = true := by
  obtain ⟨i, hi, he⟩ := (isInfix_iff n b).mp h
  refine (isInfix_iff n (a ++ b)).mpr ⟨a.length + i, by simp; omega, ?_⟩
  have : (a ++ b).drop (a.length + i) = b.drop i := by
    rw [List.drop_append, List.drop_eq_nil_of_le (by omega)]
    simp
  rw [this]; exact he

theorem isInfix_self_append (n b : List Char) : isInfix n (n ++ b) = true :=
  (isInfix_iff n (n ++ b)).mpr ⟨0, by simp, by simp⟩

/-- **lexical containment for the native `normpath`** (no assumption on `normpath` any more): whenever
    `StaticRoute.__call__` hands a path to `io.open`, the request suffix is relative, its normal form `n` is
    relative and is either `.` (the directory itself) or consists only of real names - no empty, `.` or `..`
    component -, and the components of the opened path are those of the directory followed by those of `n` -/
theorem serve_lexically_inside (fb : Bool) (dir s fp : List Char) (hd : dir ≠ [])
    (h : serve fb dir s = some fp) :
    startsWith s ['/'] = false ∧ startsWith (normpath s) ['/'] = false ∧
    (normpath s = ['.'] ∨ ∀ c ∈ splitOn '/' (normpath s), Clean c) ∧
    ∃ d', (dir = d' ∨ dir = d' ++ ['/']) ∧ splitOn '/' fp = splitOn '/' d' ++ splitOn '/' (normpath s) := by
  have hc := serve_contained fb dir s fp hd h
  obtain ⟨hfp, hinf, -⟩ := hc
  unfold serve at h
  split at h
  · unfold resolve at h
    split at h
    · cases h
    · rename_i hstart
      simp only [Bool.or_eq_true, not_or, Bool.not_eq_true] at hstart
      obtain ⟨hp1, hp2⟩ := hstart
      have hrel : startsWith s ['/'] = false := by
        cases hs : startsWith s ['/'] with
        | false => rfl
        | true => rw [normpath_abs s hs] at hp2; cases hp2
      have hndd : normpath s ≠ dd := by
        intro hn
        have : isInfix dd fp = true := by
          rcases hfp with e | ⟨_, e⟩
          · rw [e, hn]; exact isInfix_append_left dd (dir ++ ['/']) dd (isInfix_self_append dd [])
          · rw [e, hn]; exact isInfix_append_left dd dir dd (isInfix_self_append dd [])
        rw [hinf] at this; cases this
      refine ⟨hrel, hp2, prefix_check_suffices s hrel hp1 hndd, ?_⟩
      rcases hfp with e | ⟨hl, e⟩
      · refine ⟨dir, Or.inl rfl, ?_⟩
        rw [e, List.append_assoc, List.singleton_append, splitOn_append]
      · obtain ⟨d', hd'⟩ : ∃ d', dir = d' ++ ['/'] := by
          have := List.getLast?_eq_some_iff.mp hl
          obtain ⟨ys, hys⟩ := this
          exact ⟨ys, hys⟩
        refine ⟨d', Or.inr hd', ?_⟩
        rw [e, hd', List.append_assoc, List.singleton_append, splitOn_append]
  · cases h

/-- the "final sanity check" of `__call__` is reachable: `../` passes the textual tests, normalises to `..`,
    which is *not* one of the disallowed normalised prefixes (`../`, `/`); only the `'..' in file_path` test
    turns it into a 404 -/
example : sanitise false "../".toList = true ∧ normpath "../".toList = dd ∧
    startsWith dd ['.', '.', '/'] = false ∧ startsWith dd ['/'] = false ∧ serve false "/srv/pub".toList "../".toList = none := by
  decide

example : serve false "/srv/pub".toList "sub/./deep/../b.bin".toList = some "/srv/pub/sub/b.bin".toList := by decide

end St

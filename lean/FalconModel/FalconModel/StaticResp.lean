import FalconModel.Static
import FalconModel.HeaderParsers

/-! C16, response side of `falcon/routing/static.py`: `StaticRoute.match`, the part of `StaticRoute.__call__`
    after the path has been resolved (open with fallback, Last-Modified / If-Modified-Since, Range handling,
    status and header population), `_set_range` together with the stream it returns, and `_BoundedFile.read`.

    The path side (`St.sanitise`, `St.normpath`, `St.resolve`, `St.serve`) and the range arithmetic
    (`St.setRange`) live in `Static.lean`; the Range header reading is `Hp.range` / `Hp.rangeUnit`
    (`HeaderParsers.lean`, tied to `falcon.Request` by C09). -/
namespace Sr

abbrev Str := List Char
abbrev Bytes := List UInt8

/-! ### file handles and `_BoundedFile` -/

/-- an open binary file handle on a regular file: the file's bytes and `fh.tell()` -/
structure Fh where
  data : Bytes
  pos : Nat
deriving Repr, DecidableEq

/-- `fh.read(n)`, `n ≥ 0`: up to `n` bytes from the current position -/
def Fh.read (fh : Fh) (n : Nat) : Bytes × Fh :=
  let out := (fh.data.drop fh.pos).take n
  (out, { fh with pos := fh.pos + out.length })

/-- `fh.read()` / `fh.read(-1)`: everything up to the end of the file -/
def Fh.readAll (fh : Fh) : Bytes × Fh :=
  let out := fh.data.drop fh.pos
  (out, { fh with pos := fh.pos + out.length })

/-- `_BoundedFile(fh, length)`: `remaining` is the attribute of the same name -/
structure Bounded where
  fh : Fh
  remaining : Nat
deriving Repr, DecidableEq

/-- the first four lines of `_BoundedFile.read`: `size is None or size < 0` → `remaining`, else `min(size, remaining)` -/
def clamp (remaining : Nat) : Option Int → Nat
  | none => remaining
  | some s => if s < 0 then remaining else min s.toNat remaining

/-- `_BoundedFile.read(size)`: `none` = `None`; a negative size means "the rest of the window" -/
def Bounded.read (b : Bounded) (size : Option Int) : Bytes × Bounded :=
  let r := b.fh.read (clamp b.remaining size)
  (r.1, { fh := r.2, remaining := b.remaining - r.1.length })

/-- the bytes a `_BoundedFile` may still hand out -/
def Bounded.window (b : Bounded) : Bytes := (b.fh.data.drop b.fh.pos).take b.remaining

/-- a history of `read` calls: the bytes of every read, and the final state -/
def Bounded.reads : Bounded → List (Option Int) → List Bytes × Bounded
  | b, [] => ([], b)
  | b, sz :: rest =>
    let r := b.read sz
    let rr := Bounded.reads r.2 rest
    (r.1 :: rr.1, rr.2)

/-- `resp.stream` as `_set_range` returns it: the file handle itself, or a `_BoundedFile` around it -/
inductive Stream where
  | raw (fh : Fh)
  | bounded (b : Bounded)
deriving Repr, DecidableEq

/-- `stream.read(size)` -/
def Stream.read : Stream → Option Int → Bytes × Stream
  | .raw fh, size =>
    let r := match size with
      | none => fh.readAll
      | some s => if s < 0 then fh.readAll else fh.read s.toNat
    (r.1, .raw r.2)
  | .bounded b, size => let r := b.read size; (r.1, .bounded r.2)

/-- what is left to be read from a stream -/
def Stream.window : Stream → Bytes
  | .raw fh => fh.data.drop fh.pos
  | .bounded b => b.window

/-- how the servers consume `resp.stream`: `iter(lambda: stream.read(block), b'')` (WSGI, also `wsgi.file_wrapper`)
    and `while True: data = await stream.read(block); if not data: break` (ASGI). `fuel` bounds the number of reads. -/
def drain (block : Nat) : Nat → Stream → Bytes
  | 0, _ => []
  | fuel + 1, s =>
    let r := s.read (some (block : Int))
    if r.1.isEmpty then [] else r.1 ++ drain block fuel r.2

/-! ### `_set_range` with its stream -/

inductive SetRange where
  /-- `return stream, length, content_range` -/
  | ok (stream : Stream) (length : Nat) (contentRange : Option (Nat × Nat × Nat))
  /-- `fh.close(); raise falcon.HTTPRangeNotSatisfiable(size)` -/
  | unsat (size : Nat)
deriving Repr, DecidableEq

/-- `_set_range(fh, st, req_range)` for a freshly opened file with content `data` (`st.st_size = len(data)`).
    `req_range = (start, end)`; for tuples `falcon.Request.range` cannot produce (`start < 0` with `end ≠ -1`, see
    `Hp.range_ok_shape`) the real code fails in `fh.seek`; the model is total and clamps instead. -/
def setRange (data : Bytes) (req : Option (Int × Int)) : SetRange :=
  let size := data.length
  match req with
  | none => .ok (.raw ⟨data, 0⟩) size none
  | some (start, end_) =>
    if size == 0 then .ok (.raw ⟨data, 0⟩) 0 none
    else if start < 0 && end_ == -1 then
      let s := max start (-(size : Int))
      -- fh.seek(start, os.SEEK_END); _BoundedFile(fh, -start), -start, (size + start, size - 1, size)
      .ok (.bounded ⟨⟨data, ((size : Int) + s).toNat⟩, (-s).toNat⟩) (-s).toNat (some (((size : Int) + s).toNat, size - 1, size))
    else if start ≥ size then .unsat size
    else if end_ == -1 then
      -- fh.seek(start); length = size - start
      let length := (size : Int) - start
      .ok (.bounded ⟨⟨data, start.toNat⟩, length.toNat⟩) length.toNat (some (start.toNat, size - 1, size))
    else
      let e := min end_ ((size : Int) - 1)
      let length := e - start + 1
      .ok (.bounded ⟨⟨data, start.toNat⟩, length.toNat⟩) length.toNat (some (start.toNat, e.toNat, size))

/-- the view of a `_set_range` result that `St.setRange` computes -/
def SetRange.proj : SetRange → St.RangeOut
  | .ok _ len none => .whole len
  | .ok _ len (some (f, l, _)) => .partial_ f l len
  | .unsat n => .unsatisfiable n

/-! ### `StaticRoute.__call__` after the path checks -/

/-- `req.if_modified_since`: header absent, an HTTP-date (seconds since the epoch), or malformed (`HTTPInvalidHeader`) -/
inductive Ims where
  | absent | ok (t : Int) | bad
deriving Repr, DecidableEq

/-- a regular file: content and `datetime.fromtimestamp(st_mtime, utc).replace(microsecond=0)` as epoch seconds -/
structure File where
  data : Bytes
  lm : Int
deriving Repr, DecidableEq

inductive Out where
  /-- `OPTIONS`: `Allow: GET`, `Content-Length: 0` -/
  | options
  /-- `falcon.HTTPNotFound` -/
  | notFound
  /-- `falcon.HTTPInvalidHeader` (400) raised by `req.if_modified_since` / `req.range_unit` / `req.range`;
      `resp.last_modified` is already set -/
  | invalidHeader (lm : Int)
  /-- 304: `resp.last_modified` set, no stream, no other header -/
  | notModified (lm : Int)
  /-- `falcon.HTTPRangeNotSatisfiable(size)`: 416 with `Content-Range: bytes */size` -/
  | unsat (lm : Int) (size : Nat)
  /-- 200 / 206: `resp.set_stream(stream, length)`, `Accept-Ranges: bytes`, optional `Content-Range`
      `(first, last, size)` and `downloadable_as` -/
  | served (status : Nat) (lm : Int) (stream : Stream) (length : Nat) (contentRange : Option (Nat × Nat × Nat))
      (downloadableAs : Option Str)
deriving Repr, DecidableEq

def bytesUnit : Str := ['b', 'y', 't', 'e', 's']

/-- `req.range if req.range_unit == 'bytes' else None`; `none` = one of the two properties raised `HTTPInvalidHeader` -/
def reqRange (v : Option Hp.Str) : Option (Option (Int × Int)) :=
  match Hp.rangeUnit v with
  | .absent => some none
  | .bad => none
  | .ok u =>
    if u == bytesUnit then
      match Hp.range v with
      | .absent => some none
      | .bad => none
      | .ok a b => some (some (a, b))
    else some none

/-- `os.path.basename` -/
def basename (p : Str) : Str := (p.reverse.takeWhile (· != '/')).reverse

/-- the conditional-request test `req.if_modified_since is not None and last_modified <= req.if_modified_since` -/
def notModifiedSince (lm : Int) : Ims → Bool
  | .ok t => decide (lm ≤ t)
  | _ => false

/-- `__call__` from `last_modified = …` to the end, for the file `f` opened under the name `filePath` -/
def respond (downloadable : Bool) (filePath : Str) (f : File) (ims : Ims) (rangeHdr : Option Hp.Str) : Out :=
  if ims == .bad then .invalidHeader f.lm
  else if notModifiedSince f.lm ims then .notModified f.lm
  else
    match reqRange rangeHdr with
    | none => .invalidHeader f.lm
    | some r =>
      match setRange f.data r with
      | .unsat size => .unsat f.lm size
      | .ok stream length cr =>
        .served (if cr.isSome then 206 else 200) f.lm stream length cr
          (if downloadable then some (basename filePath) else none)

/-! ### the route: `__init__`, `match`, `__call__` -/

structure Route where
  /-- always ends with `/` -/
  pfx : Str
  dir : Str
  downloadable : Bool
  /-- `self._fallback_filename`: a normalised absolute path -/
  fallback : Option Str
deriving Repr

/-- `StaticRoute.__init__`: a missing trailing slash is appended to the prefix -/
def mkRoute (pfx dir : Str) (downloadable : Bool) (fallback : Option Str) : Route :=
  { pfx := if pfx.getLast? == some '/' then pfx else pfx ++ ['/'], dir, downloadable, fallback }

/-- `StaticRoute.match(path)` -/
def «matches» (rt : Route) (path : Str) : Bool :=
  match rt.fallback with
  | none => St.startsWith path rt.pfx
  | some _ => St.startsWith path rt.pfx || path == rt.pfx.dropLast

/-- `app._static_routes` lookup: the first route (most recently added) whose `match` accepts the path -/
def findRoute (routes : List Route) (path : Str) : Option Route := routes.find? (fun rt => «matches» rt path)
/-- its position in the list -/
def findRouteIdx (routes : List Route) (path : Str) : Option Nat := routes.findIdx? (fun rt => «matches» rt path)

structure Req where
  isOptions : Bool
  path : Str
  ims : Ims
  range : Option Hp.Str

/-- the file system as `io.open` sees it: `none` = `IOError` (missing, a directory, …) -/
abbrev Fs := Str → Option File

/-- `StaticRoute.__call__`: the list of paths handed to `io.open`, in order, and the outcome -/
def call (rt : Route) (fs : Fs) (req : Req) : List Str × Out :=
  if req.isOptions then ([], .options) else
  let withoutPrefix := req.path.drop rt.pfx.length
  match St.serve rt.fallback.isSome rt.dir withoutPrefix with
  | none => ([], .notFound)
  | some fp =>
    match fs fp with
    | some f => ([fp], respond rt.downloadable fp f req.ims req.range)
    | none =>
      match rt.fallback with
      | none => ([fp], .notFound)
      | some fbp =>
        match fs fbp with
        | none => ([fp, fbp], .notFound)
        | some f => ([fp, fbp], respond rt.downloadable fbp f req.ims req.range)

end Sr

import FalconModel.StaticResp
import FalconModel.HeaderParsersProofs
import FalconModel.StaticPathProofs

/-! C16, response side: proofs about `Sr` (StaticResp.lean) - `_BoundedFile` over any history of reads, the exact Range
    slice / 416 / ignored unit / size 0 (F14) / 304 precedence, `match`, and the files `__call__` opens. -/

namespace Sr

/-! ### `_BoundedFile.read` over any history of reads -/

theorem take_take_drop {α : Type} (X : List α) (n r : Nat) (h : n ≤ r) :
    X.take n ++ (X.drop (X.take n).length).take (r - (X.take n).length) = X.take r := by
  have hl : (X.take n).length = min n X.length := List.length_take
  by_cases hx : n ≤ X.length
  · have : (X.take n).length = n := by rw [hl]; omega
    rw [this]
    have := List.take_add (l := X) (i := n) (j := r - n)
    rw [show n + (r - n) = r by omega] at this
    exact this.symm
  · have hx' : X.length < n := by omega
    have h1 : X.take n = X := List.take_of_length_le (by omega)
    have h2 : X.take r = X := List.take_of_length_le (by omega)
    rw [h1, h2]; simp

/-- one read: at most `size` bytes (for `size ≥ 0`), never more than `remaining`, the bytes are the next bytes of
    the window, and `remaining` decreases by exactly the number of bytes returned -/
theorem bounded_read_spec (b : Bounded) (size : Option Int) :
    (b.read size).1 ++ (b.read size).2.window = b.window ∧
    (b.read size).2.remaining + (b.read size).1.length = b.remaining ∧
    (∀ s, size = some s → 0 ≤ s → ((b.read size).1.length : Int) ≤ s) := by
  obtain ⟨⟨data, pos⟩, rem⟩ := b
  generalize hn : clamp rem size = n
  have hnr : n ≤ rem := by
    subst hn; unfold clamp; split
    · exact Nat.le_refl _
    · split
      · exact Nat.le_refl _
      · exact Nat.min_le_right _ _
  have hread : Bounded.read ⟨⟨data, pos⟩, rem⟩ size =
      ((data.drop pos).take n, ⟨⟨data, pos + ((data.drop pos).take n).length⟩, rem - ((data.drop pos).take n).length⟩) := by
    simp only [Bounded.read, Fh.read]; rw [hn]
  rw [hread]
  have hlen : ((data.drop pos).take n).length ≤ n := by rw [List.length_take]; exact Nat.min_le_left _ _
  refine ⟨?_, by simp only; omega, ?_⟩
  · simp only [Bounded.window]
    rw [← List.drop_drop]
    exact take_take_drop (data.drop pos) n rem hnr
  · intro s hs h0
    subst hs
    simp only [clamp] at hn
    have : ¬ s < 0 := by omega
    simp only [this, if_false] at hn
    have : n ≤ s.toNat := by rw [← hn]; exact Nat.min_le_left _ _
    simp only; omega

/-- **`_BoundedFile` never hands out more than `length` bytes, whatever the sequence of `read(size)` calls**:
    the concatenation of everything returned so far, followed by what is still readable, is the original window
    `file[pos : pos+length]` - so the reads are a prefix of the slice, their total is at most `length`, and
    `remaining` accounts exactly for the bytes returned -/
theorem bounded_file_never_exceeds_length (b : Bounded) (sizes : List (Option Int)) :
    (b.reads sizes).1.flatten ++ (b.reads sizes).2.window = b.window ∧
    (b.reads sizes).2.remaining + (b.reads sizes).1.flatten.length = b.remaining ∧
    (b.reads sizes).1.flatten.length ≤ b.remaining ∧
    (b.reads sizes).1.flatten <+: (b.fh.data.drop b.fh.pos).take b.remaining := by
  have main : (b.reads sizes).1.flatten ++ (b.reads sizes).2.window = b.window ∧
      (b.reads sizes).2.remaining + (b.reads sizes).1.flatten.length = b.remaining := by
    induction sizes generalizing b with
    | nil => simp [Bounded.reads]
    | cons sz rest ih =>
      obtain ⟨h1, h2, -⟩ := bounded_read_spec b sz
      obtain ⟨i1, i2⟩ := ih (b.read sz).2
      simp only [Bounded.reads, List.flatten_cons, List.append_assoc, List.length_append]
      refine ⟨by rw [i1, h1], by omega⟩
  refine ⟨main.1, main.2, by omega, ?_⟩
  exact ⟨(b.reads sizes).2.window, main.1⟩

example : (Bounded.reads ⟨⟨[1, 2, 3, 4, 5, 6, 7, 8], 2⟩, 4⟩ [some 1, some 0, none, some 3]).1 = [[3], [], [4, 5, 6], []] := by decide

/-- a `read` with a non-zero size returns nothing only when the window is exhausted -/
theorem bounded_read_empty_iff (b : Bounded) (size : Option Int) (hs : size ≠ some 0) :
    (b.read size).1 = [] ↔ b.window = [] := by
  obtain ⟨⟨data, pos⟩, rem⟩ := b
  simp only [Bounded.read, Fh.read, Bounded.window, clamp]
  cases size with
  | none => simp
  | some s =>
    by_cases hneg : s < 0
    · simp [hneg]
    · have hpos : 0 < s.toNat := by
        have : s ≠ 0 := fun h => hs (by rw [h])
        omega
      simp only [hneg, if_false, List.take_eq_nil_iff]
      constructor
      · rintro (h | h)
        · left; omega
        · right; exact h
      · rintro (h | h)
        · left; omega
        · right; exact h

/-! ### draining a stream in blocks -/

theorem stream_read_spec (s : Stream) (n : Nat) :
    (s.read (some (n : Int))).1 ++ (s.read (some (n : Int))).2.window = s.window ∧
    (0 < n → ((s.read (some (n : Int))).1 = [] ↔ s.window = [])) := by
  cases s with
  | raw fh =>
    obtain ⟨data, pos⟩ := fh
    have hneg : ¬ ((n : Int) < 0) := by omega
    simp only [Stream.read, hneg, if_false, Fh.read, Stream.window, Int.toNat_natCast]
    refine ⟨?_, ?_⟩
    · rw [← List.drop_drop]
      have hl : ((data.drop pos).take n).length = min n (data.drop pos).length := List.length_take
      by_cases hx : n ≤ (data.drop pos).length
      · rw [hl, Nat.min_eq_left hx]; exact List.take_append_drop _ _
      · have : (data.drop pos).take n = data.drop pos := List.take_of_length_le (by omega)
        rw [this]; simp; omega
    · intro hn
      simp only [List.take_eq_nil_iff]
      constructor
      · rintro (h | h)
        · omega
        · exact h
      · intro h; right; exact h
  | bounded b =>
    simp only [Stream.read, Stream.window]
    refine ⟨(bounded_read_spec b (some (n : Int))).1, ?_⟩
    intro hn
    exact bounded_read_empty_iff b (some (n : Int)) (by simp; omega)

/-- **the consumption loop delivers exactly the window**: reading `block > 0` bytes at a time until a read
    returns nothing yields `file[pos : pos+length]` (for a `_BoundedFile`) or the rest of the file (raw handle) -/
theorem drain_eq_window (block : Nat) (hb : 0 < block) (fuel : Nat) (s : Stream) (hf : s.window.length < fuel) :
    drain block fuel s = s.window := by
  induction fuel generalizing s with
  | zero => omega
  | succ fuel ih =>
    obtain ⟨h1, h2⟩ := stream_read_spec s block
    have h2 := h2 hb
    simp only [drain]
    by_cases he : (s.read (some (block : Int))).1 = []
    · simp only [he, List.isEmpty_nil, if_true]
      exact (h2.mp he).symm
    · have hne : (s.read (some (block : Int))).1.isEmpty = false := by
        cases h : (s.read (some (block : Int))).1 with
        | nil => exact absurd h he
        | cons _ _ => rfl
      simp only [hne, Bool.false_eq_true, if_false]
      have hlen : (s.read (some (block : Int))).2.window.length < fuel := by
        have : (s.read (some (block : Int))).1.length + (s.read (some (block : Int))).2.window.length = s.window.length := by
          rw [← List.length_append, h1]
        have : 0 < (s.read (some (block : Int))).1.length := by
          cases h : (s.read (some (block : Int))).1 with
          | nil => exact absurd h he
          | cons _ _ => simp
        omega
      rw [ih _ hlen, h1]



/-! ### `_set_range`: the stream agrees with the arithmetic of `St.setRange` -/

/-- status / Content-Range / Content-Length of `_set_range` are exactly what `St.setRange` computes, so
    `St.range_closed`, `St.range_open`, `St.range_suffix`, `St.range_wellformed` speak about this model -/
theorem setRange_proj (data : Bytes) (a b : Int) :
    (setRange data (some (a, b))).proj = St.setRange data.length a b := by
  unfold setRange St.setRange
  simp only
  split
  · rfl
  · split
    · rfl
    · split
      · rfl
      · split <;> rfl

/-- the documented shape of a `req.range` tuple (`Hp.range_ok_shape`) -/
def RangeShape (a b : Int) : Prop := (0 ≤ a ∧ (b = -1 ∨ a ≤ b)) ∨ (a < 0 ∧ b = -1)

/-- a 206 stream is a `_BoundedFile` positioned at `first` and limited to `last - first + 1` bytes:
    what can be read from it is exactly `file[first .. last]` -/
theorem setRange_window (data : Bytes) (a b : Int) (stream : Stream) (len first last sz : Nat)
    (hsh : RangeShape a b)
    (h : setRange data (some (a, b)) = .ok stream len (some (first, last, sz))) :
    stream.window = (data.drop first).take (last - first + 1) ∧ sz = data.length ∧
    stream = .bounded ⟨⟨data, first⟩, last - first + 1⟩ := by
  unfold setRange at h
  simp only at h
  split at h
  · simp at h
  · rename_i hsz
    have hsz' : 0 < data.length := by
      have : data.length ≠ 0 := by simpa using hsz
      omega
    split at h
    · rename_i hc
      simp only [Bool.and_eq_true, decide_eq_true_eq, beq_iff_eq] at hc
      simp only [SetRange.ok.injEq, Option.some.injEq, Prod.mk.injEq] at h
      obtain ⟨rfl, rfl, rfl, rfl, rfl⟩ := h
      have e : data.length - 1 - ((data.length : Int) + max a (-(data.length : Int))).toNat + 1 =
          (-(max a (-(data.length : Int)))).toNat := by omega
      refine ⟨?_, rfl, ?_⟩
      · simp only [Stream.window, Bounded.window]; rw [e]
      · rw [e]
    · rename_i hc
      split at h
      · simp at h
      · rename_i hlt
        have ha0 : 0 ≤ a := by
          rcases hsh with h1 | h1
          · exact h1.1
          · exfalso; apply hc; simp [h1.1, h1.2]
        split at h
        · simp only [SetRange.ok.injEq, Option.some.injEq, Prod.mk.injEq] at h
          obtain ⟨rfl, rfl, rfl, rfl, rfl⟩ := h
          have e : data.length - 1 - a.toNat + 1 = ((data.length : Int) - a).toNat := by omega
          refine ⟨?_, rfl, ?_⟩
          · simp only [Stream.window, Bounded.window]; rw [e]
          · rw [e]
        · rename_i hne
          simp only [SetRange.ok.injEq, Option.some.injEq, Prod.mk.injEq] at h
          obtain ⟨rfl, rfl, rfl, rfl, rfl⟩ := h
          have hab : a ≤ b := by
            rcases hsh with h1 | h1
            · rcases h1.2 with h2 | h2
              · simp [h2] at hne
              · exact h2
            · omega
          have e : (min b ((data.length : Int) - 1)).toNat - a.toNat + 1 = (min b ((data.length : Int) - 1) - a + 1).toNat := by
            omega
          refine ⟨?_, rfl, ?_⟩
          · simp only [Stream.window, Bounded.window]; rw [e]
          · rw [e]

/-! ### `respond`: status / headers / body as a function of the request headers -/

/-- the If-Modified-Since reading neither is malformed (400) nor makes the response a 304 -/
def imsPasses (lm : Int) (ims : Ims) : Bool := ims != .bad && !notModifiedSince lm ims

def dlName (downloadable : Bool) (filePath : Str) : Option Str :=
  if downloadable then some (basename filePath) else none

theorem respond_of_passes (dl : Bool) (fp : Str) (f : File) (ims : Ims) (v : Option Hp.Str)
    (hi : imsPasses f.lm ims = true) :
    respond dl fp f ims v =
      match reqRange v with
      | none => .invalidHeader f.lm
      | some r =>
        match setRange f.data r with
        | .unsat size => .unsat f.lm size
        | .ok stream length cr => .served (if cr.isSome then 206 else 200) f.lm stream length cr (dlName dl fp) := by
  unfold imsPasses at hi
  simp only [Bool.and_eq_true, bne_iff_ne, ne_eq, Bool.not_eq_true'] at hi
  unfold respond
  have h1 : (ims == Ims.bad) = false := by simpa using hi.1
  simp only [h1, Bool.false_eq_true, if_false, hi.2, dlName]
  rfl

theorem reqRange_bytes (v : Option Hp.Str) (a b : Int)
    (hu : Hp.rangeUnit v = .ok bytesUnit) (hr : Hp.range v = .ok a b) : reqRange v = some (some (a, b)) := by
  simp [reqRange, hu, hr]

/-- **the Range slice is served exactly** (`size > 0`, satisfiable): whatever Range header reads as `(a, b)` with unit
    `bytes`, if the range arithmetic yields `first-last`, the response is 206 with `Content-Range: bytes first-last/size`,
    `Content-Length: last-first+1`, and the stream delivers precisely `file[first .. last]` - for every block size
    the server reads with. (`St.range_closed/open/suffix` say which `first`, `last` belong to which header form.) -/
theorem range_slice_exact (dl : Bool) (fp : Str) (f : File) (ims : Ims) (v : Option Hp.Str) (a b : Int)
    (first last len : Nat)
    (hi : imsPasses f.lm ims = true)
    (hu : Hp.rangeUnit v = .ok bytesUnit) (hr : Hp.range v = .ok a b)
    (hs : St.setRange f.data.length a b = .partial_ first last len) :
    respond dl fp f ims v =
      .served 206 f.lm (.bounded ⟨⟨f.data, first⟩, last - first + 1⟩) len (some (first, last, f.data.length)) (dlName dl fp) ∧
    (∀ block fuel, 0 < block → len < fuel →
      drain block fuel (.bounded ⟨⟨f.data, first⟩, last - first + 1⟩) = (f.data.drop first).take (last - first + 1)) ∧
    first ≤ last ∧ last < f.data.length ∧ len = last - first + 1 ∧
    ((f.data.drop first).take (last - first + 1)).length = len := by
  have hshape : RangeShape a b := Hp.range_ok_shape v a b hr
  have hwf := St.range_wellformed f.data.length a b first last len
    (by intro hneg; rcases hshape with h | h
        · omega
        · exact h.2)
    (by rcases hshape with h | h
        · exact h.2
        · exact Or.inl h.2) hs
  obtain ⟨hfl, hls, hlen⟩ := hwf
  have hp := setRange_proj f.data a b
  rw [hs] at hp
  have hbody : ((f.data.drop first).take (last - first + 1)).length = len := by
    rw [List.length_take, List.length_drop]; omega
  rw [respond_of_passes dl fp f ims v hi, reqRange_bytes v a b hu hr]
  simp only
  cases hsr : setRange f.data (some (a, b)) with
  | unsat n => rw [hsr] at hp; simp [SetRange.proj] at hp
  | ok stream length cr =>
    rw [hsr] at hp
    cases cr with
    | none => simp [SetRange.proj] at hp
    | some t =>
      obtain ⟨f', l', sz⟩ := t
      simp only [SetRange.proj, St.RangeOut.partial_.injEq] at hp
      obtain ⟨rfl, rfl, rfl⟩ := hp
      obtain ⟨hw, hsz, hst⟩ := setRange_window f.data a b stream length f' l' sz hshape hsr
      subst hsz; subst hst
      refine ⟨rfl, ?_, hfl, hls, hlen, hbody⟩
      intro block fuel hb hf
      have := drain_eq_window block hb fuel (.bounded ⟨⟨f.data, f'⟩, l' - f' + 1⟩) (by rw [hw, hbody]; exact hf)
      rw [this, hw]

/-- `bytes=a-b` end to end, from the header text to the bytes: 206, `a .. min(b, size-1)` -/
theorem range_closed_response (dl : Bool) (fp : Str) (f : File) (ims : Ims) (a b : Nat)
    (hi : imsPasses f.lm ims = true) (hab : a ≤ b) (ha : a < f.data.length) :
    respond dl fp f ims (some (bytesUnit ++ '=' :: (Nat.toDigits 10 a ++ '-' :: Nat.toDigits 10 b))) =
      .served 206 f.lm (.bounded ⟨⟨f.data, a⟩, min b (f.data.length - 1) - a + 1⟩) (min b (f.data.length - 1) - a + 1)
        (some (a, min b (f.data.length - 1), f.data.length)) (dlName dl fp) ∧
    (∀ block fuel, 0 < block → min b (f.data.length - 1) - a + 1 < fuel →
      drain block fuel (.bounded ⟨⟨f.data, a⟩, min b (f.data.length - 1) - a + 1⟩) =
        (f.data.drop a).take (min b (f.data.length - 1) - a + 1)) := by
  have hu : '=' ∉ bytesUnit := by decide
  have h := range_slice_exact dl fp f ims _ a b a (min b (f.data.length - 1)) (min b (f.data.length - 1) - a + 1) hi
    (Hp.rangeUnit_of_valid bytesUnit _ hu) (Hp.range_first_last bytesUnit a b hu hab)
    (by rw [St.range_closed f.data.length a b (by omega) hab]; simp; omega)
  exact ⟨h.1, h.2.1⟩

/-- `bytes=a-`: 206, `a .. size-1` -/
theorem range_open_response (dl : Bool) (fp : Str) (f : File) (ims : Ims) (a : Nat)
    (hi : imsPasses f.lm ims = true) (ha : a < f.data.length) :
    respond dl fp f ims (some (bytesUnit ++ '=' :: (Nat.toDigits 10 a ++ ['-']))) =
      .served 206 f.lm (.bounded ⟨⟨f.data, a⟩, f.data.length - 1 - a + 1⟩) (f.data.length - a)
        (some (a, f.data.length - 1, f.data.length)) (dlName dl fp) ∧
    (∀ block fuel, 0 < block → f.data.length - a < fuel →
      drain block fuel (.bounded ⟨⟨f.data, a⟩, f.data.length - 1 - a + 1⟩) = f.data.drop a) := by
  have hu : '=' ∉ bytesUnit := by decide
  have h := range_slice_exact dl fp f ims _ a (-1) a (f.data.length - 1) (f.data.length - a) hi
    (Hp.rangeUnit_of_valid bytesUnit _ hu) (Hp.range_first_open bytesUnit a hu)
    (by rw [St.range_open f.data.length a (by omega)]; simp; omega)
  refine ⟨h.1, ?_⟩
  intro block fuel hb hf
  rw [h.2.1 block fuel hb hf]
  apply List.take_of_length_le
  rw [List.length_drop]; omega

/-- `bytes=-n`, `n > 0`: 206, the last `min(n, size)` bytes -/
theorem range_suffix_response (dl : Bool) (fp : Str) (f : File) (ims : Ims) (n : Nat)
    (hi : imsPasses f.lm ims = true) (hn : 0 < n) (hsz : 0 < f.data.length) :
    respond dl fp f ims (some (bytesUnit ++ '=' :: ('-' :: Nat.toDigits 10 n))) =
      .served 206 f.lm (.bounded ⟨⟨f.data, f.data.length - min n f.data.length⟩,
          f.data.length - 1 - (f.data.length - min n f.data.length) + 1⟩) (min n f.data.length)
        (some (f.data.length - min n f.data.length, f.data.length - 1, f.data.length)) (dlName dl fp) ∧
    (∀ block fuel, 0 < block → min n f.data.length < fuel →
      drain block fuel (.bounded ⟨⟨f.data, f.data.length - min n f.data.length⟩,
          f.data.length - 1 - (f.data.length - min n f.data.length) + 1⟩) =
        f.data.drop (f.data.length - min n f.data.length)) := by
  have hu : '=' ∉ bytesUnit := by decide
  have h := range_slice_exact dl fp f ims _ (-(n : Int)) (-1) (f.data.length - min n f.data.length) (f.data.length - 1)
    (min n f.data.length) hi
    (Hp.rangeUnit_of_valid bytesUnit _ hu) (Hp.range_suffix bytesUnit n hu hn)
    (St.range_suffix f.data.length n hsz hn)
  refine ⟨h.1, ?_⟩
  intro block fuel hb hf
  rw [h.2.1 block fuel hb hf]
  apply List.take_of_length_le
  rw [List.length_drop]; omega

example : (respond true "/srv/pub/a.txt".toList ⟨[48, 49, 50, 51, 52, 53, 54, 55, 56, 57], 1600000000⟩ (.ok 1599999999)
    (some "bytes=2-4".toList)) =
    .served 206 1600000000 (.bounded ⟨⟨[48, 49, 50, 51, 52, 53, 54, 55, 56, 57], 2⟩, 3⟩) 3 (some (2, 4, 10)) (some "a.txt".toList) := by
  decide

theorem setRange_unsat_iff (data : Bytes) (a b : Int) (hsz : 0 < data.length) (n : Nat) :
    setRange data (some (a, b)) = .unsat n ↔ (n = data.length ∧ (data.length : Int) ≤ a) := by
  have h0 : (data.length == 0) = false := by
    cases data with
    | nil => simp at hsz
    | cons _ _ => rfl
  unfold setRange
  simp only [h0, Bool.false_eq_true, if_false]
  by_cases hc : (a < 0 && b == -1) = true
  · simp only [hc, if_true]
    simp only [Bool.and_eq_true, decide_eq_true_eq, beq_iff_eq] at hc
    constructor
    · intro h; simp at h
    · intro h; exfalso; have h1 := hc.1; have h2 := h.2; omega
  · simp only [hc, Bool.false_eq_true, if_false]
    by_cases hge : a ≥ (data.length : Int)
    · rw [if_pos hge]
      simp only [SetRange.unsat.injEq]
      constructor
      · intro h; exact ⟨h.symm, hge⟩
      · intro h; exact h.1.symm
    · rw [if_neg hge]
      constructor
      · intro h; split at h <;> simp at h
      · intro h; exact absurd h.2 hge

/-- **an unsatisfiable range is a 416 carrying the size** (`size > 0`): with unit `bytes` and reading `(a, b)`, the
    outcome is `HTTPRangeNotSatisfiable(size)` exactly when `a ≥ size`, and no other size is ever reported -/
theorem unsatisfiable_is_416_with_size (dl : Bool) (fp : Str) (f : File) (ims : Ims) (v : Option Hp.Str) (a b : Int)
    (hi : imsPasses f.lm ims = true)
    (hu : Hp.rangeUnit v = .ok bytesUnit) (hr : Hp.range v = .ok a b) (hsz : 0 < f.data.length) :
    (respond dl fp f ims v = .unsat f.lm f.data.length ↔ (f.data.length : Int) ≤ a) ∧
    (∀ lm n, respond dl fp f ims v = .unsat lm n → lm = f.lm ∧ n = f.data.length) := by
  rw [respond_of_passes dl fp f ims v hi, reqRange_bytes v a b hu hr]
  simp only
  have hiff := setRange_unsat_iff f.data a b hsz
  cases hsr : setRange f.data (some (a, b)) with
  | unsat n =>
    obtain ⟨hn, hle⟩ := (hiff n).mp hsr
    subst hn
    refine ⟨⟨fun _ => hle, fun _ => rfl⟩, ?_⟩
    intro lm m h
    simp only [Out.unsat.injEq] at h
    exact ⟨h.1.symm, h.2.symm⟩
  | ok stream length cr =>
    refine ⟨⟨fun h => by simp at h, fun h => ?_⟩, fun lm n h => by simp at h⟩
    have := (hiff f.data.length).mpr ⟨rfl, h⟩
    rw [hsr] at this; simp at this

/-- without a usable Range the whole file is served: 200, `Content-Length: size`, no Content-Range, and the
    stream (the raw file handle) delivers the complete content -/
theorem no_range_is_200_whole (dl : Bool) (fp : Str) (f : File) (ims : Ims) (hi : imsPasses f.lm ims = true) :
    respond dl fp f ims none = .served 200 f.lm (.raw ⟨f.data, 0⟩) f.data.length none (dlName dl fp) ∧
    (∀ block fuel, 0 < block → f.data.length < fuel → drain block fuel (.raw ⟨f.data, 0⟩) = f.data) := by
  refine ⟨?_, ?_⟩
  · rw [respond_of_passes dl fp f ims none hi]; rfl
  · intro block fuel hb hf
    exact drain_eq_window block hb fuel (.raw ⟨f.data, 0⟩) (by simpa [Stream.window] using hf)

/-- **a range unit other than `bytes` is ignored**: the response is the one for a request without Range header -/
theorem other_unit_ignored (dl : Bool) (fp : Str) (f : File) (ims : Ims) (v : Option Hp.Str) (u : Hp.Str)
    (hu : Hp.rangeUnit v = .ok u) (hne : u ≠ bytesUnit) :
    respond dl fp f ims v = respond dl fp f ims none := by
  have h1 : reqRange v = some none := by
    have : (u == bytesUnit) = false := by simpa using hne
    simp [reqRange, hu, this]
  have h2 : reqRange none = some none := rfl
  unfold respond
  rw [h1, h2]

/-- **F14, exactly**: on a zero-length file every syntactically valid Range header - also the int-ranges RFC 9110
    calls unsatisfiable - is ignored: 200, `Content-Length: 0`, no Content-Range, empty body; never 416 -/
theorem size_zero_ignores_range (dl : Bool) (fp : Str) (lm : Int) (ims : Ims) (v : Option Hp.Str)
    (r : Option (Int × Int))
    (hi : imsPasses lm ims = true) (hr : reqRange v = some r) :
    respond dl fp ⟨[], lm⟩ ims v = .served 200 lm (.raw ⟨[], 0⟩) 0 none (dlName dl fp) := by
  rw [respond_of_passes dl fp ⟨[], lm⟩ ims v hi, hr]
  cases r with
  | none => rfl
  | some t => obtain ⟨a, b⟩ := t; rfl

/-- **not modified ⇒ 304 without a body, and this test comes before any Range handling**: whatever the Range header
    (absent, satisfiable, unsatisfiable or malformed) the outcome is `notModified` - only Last-Modified is set -/
theorem not_modified_is_304_without_body (dl : Bool) (fp : Str) (f : File) (t : Int) (v : Option Hp.Str)
    (h : f.lm ≤ t) : respond dl fp f (.ok t) v = .notModified f.lm := by
  unfold respond
  have : notModifiedSince f.lm (.ok t) = true := by simp [notModifiedSince, h]
  simp [this]

/-- conversely a 304 is only ever produced by that test -/
theorem not_modified_only_if (dl : Bool) (fp : Str) (f : File) (ims : Ims) (v : Option Hp.Str) (lm : Int)
    (h : respond dl fp f ims v = .notModified lm) : lm = f.lm ∧ ∃ t, ims = .ok t ∧ f.lm ≤ t := by
  unfold respond at h
  split at h
  · simp at h
  · split at h
    · rename_i hnm
      simp only [Out.notModified.injEq] at h
      refine ⟨h.symm, ?_⟩
      cases ims with
      | absent => simp [notModifiedSince] at hnm
      | bad => simp [notModifiedSince] at hnm
      | ok t => exact ⟨t, rfl, by simpa [notModifiedSince] using hnm⟩
    · split at h
      · simp at h
      · split at h <;> simp at h

/-- a malformed If-Modified-Since is a 400 before Range is looked at; a modified file goes on to the Range handling -/
theorem ims_bad_is_400 (dl : Bool) (fp : Str) (f : File) (v : Option Hp.Str) :
    respond dl fp f .bad v = .invalidHeader f.lm := by
  simp [respond]

/-- status 206 iff a Content-Range is present; every served Content-Range carries the file size -/
theorem served_status (dl : Bool) (fp : Str) (f : File) (ims : Ims) (v : Option Hp.Str)
    (st : Nat) (lm : Int) (stream : Stream) (len : Nat) (cr : Option (Nat × Nat × Nat)) (d : Option Str)
    (h : respond dl fp f ims v = .served st lm stream len cr d) :
    lm = f.lm ∧ d = dlName dl fp ∧ ((st = 206 ∧ cr.isSome) ∨ (st = 200 ∧ cr = none)) := by
  unfold respond at h
  split at h
  · simp at h
  · split at h
    · simp at h
    · split at h
      · simp at h
      · split at h
        · simp at h
        · simp only [Out.served.injEq] at h
          obtain ⟨h1, h2, _, _, h5, h6⟩ := h
          subst h5; subst h1
          refine ⟨h2.symm, by rw [← h6]; rfl, ?_⟩
          split
          · rename_i hc; left; exact ⟨rfl, hc⟩
          · rename_i hc; right; exact ⟨rfl, by simpa using hc⟩



/-! ### `match` and the files `__call__` opens -/

theorem startsWith_iff (s p : Str) : St.startsWith s p = true ↔ ∃ rest, s = p ++ rest := by
  unfold St.startsWith
  simp only [beq_iff_eq]
  constructor
  · intro h; exact ⟨s.drop p.length, by
      have := (List.take_append_drop p.length s).symm
      rw [h] at this; exact this⟩
  · rintro ⟨rest, rfl⟩; simp

/-- `__init__` makes every prefix end with a slash -/
theorem mkRoute_pfx_slash (pfx dir : Str) (dl : Bool) (fb : Option Str) :
    (mkRoute pfx dir dl fb).pfx.getLast? = some '/' := by
  unfold mkRoute
  simp only
  split
  · rename_i h; simpa using h
  · simp

/-- **`match`**: a route without fallback matches exactly the paths that extend its prefix (which ends with `/`, so only
    whole segments); a route with a fallback file additionally matches the prefix without its trailing slash -/
theorem matches_iff (rt : Route) (path : Str) :
    «matches» rt path = true ↔
      (∃ rest, path = rt.pfx ++ rest) ∨ (rt.fallback.isSome = true ∧ path = rt.pfx.dropLast) := by
  unfold «matches»
  cases hfb : rt.fallback with
  | none => simp [startsWith_iff]
  | some f => simp [startsWith_iff]

/-- without a fallback nothing but an extension of the prefix matches -/
theorem matches_no_fallback (rt : Route) (path : Str) (h : rt.fallback = none) :
    «matches» rt path = true ↔ ∃ rest, path = rt.pfx ++ rest := by
  rw [matches_iff, h]; simp

/-- what `req.path[len(prefix):]` is for the two ways of matching -/
theorem suffix_of_prefix_match (rt : Route) (rest : Str) : (rt.pfx ++ rest).drop rt.pfx.length = rest := by simp

theorem suffix_of_bare_match (rt : Route) : rt.pfx.dropLast.drop rt.pfx.length = [] := by
  apply List.drop_eq_nil_of_le
  rw [List.length_dropLast]; omega

/-- the first matching route answers, and no earlier one matched -/
theorem findRoute_spec (routes : List Route) (path : Str) (rt : Route) (h : findRoute routes path = some rt) :
    rt ∈ routes ∧ «matches» rt path = true := by
  unfold findRoute at h
  exact ⟨List.mem_of_find?_eq_some h, by simpa using List.find?_some h⟩

theorem findRoute_none (routes : List Route) (path : Str) :
    findRoute routes path = none ↔ ∀ rt ∈ routes, «matches» rt path = false := by
  unfold findRoute; simp

/-- **the only file ever opened besides `directory/normpath(suffix)` is the configured fallback**: `__call__` opens at most
    two paths; the first is the resolved request path, the second - only if a fallback is configured and only after
    opening the first failed - is the fallback file -/
theorem only_fallback_outside (rt : Route) (fs : Fs) (req : Req) :
    (call rt fs req).1 = [] ∨
    ∃ fp, St.serve rt.fallback.isSome rt.dir (req.path.drop rt.pfx.length) = some fp ∧
      ((call rt fs req).1 = [fp] ∨
       ∃ fbp, rt.fallback = some fbp ∧ fs fp = none ∧ (call rt fs req).1 = [fp, fbp]) := by
  unfold call
  split
  · left; rfl
  · simp only
    split
    · left; rfl
    · rename_i fp hserve
      right
      refine ⟨fp, hserve, ?_⟩
      split
      · left; rfl
      · rename_i hnone
        split
        · left; rfl
        · rename_i fbp hfb
          right
          refine ⟨fbp, hfb, hnone, ?_⟩
          split <;> rfl

/-- whatever is served (200 / 206) is the response computed from the file opened last -/
theorem served_from_last_open (rt : Route) (fs : Fs) (req : Req)
    (st : Nat) (lm : Int) (stream : Stream) (len : Nat) (cr : Option (Nat × Nat × Nat)) (d : Option Str)
    (h : (call rt fs req).2 = .served st lm stream len cr d) :
    ∃ p f, (call rt fs req).1.getLast? = some p ∧ fs p = some f ∧
      (call rt fs req).2 = respond rt.downloadable p f req.ims req.range := by
  unfold call at h ⊢
  split
  · rename_i ho; simp [ho] at h
  · rename_i ho
    simp only [ho, Bool.false_eq_true, if_false] at h
    simp only
    split
    · rename_i hs; simp [hs] at h
    · rename_i fp hserve
      simp only [hserve] at h
      split
      · rename_i f hf; exact ⟨fp, f, rfl, hf, rfl⟩
      · rename_i hnone
        simp only [hnone] at h
        split
        · rename_i hfb; simp [hfb] at h
        · rename_i fbp hfb
          simp only [hfb] at h
          split
          · rename_i hn2; simp [hn2] at h
          · rename_i f hf; exact ⟨fbp, f, rfl, hf, rfl⟩

/-- **end to end**: every path `__call__` hands to `io.open` is the configured fallback or lies lexically inside the
    directory: its components are the directory's followed by real names only (or by the single `.`) -/
theorem call_contained (rt : Route) (fs : Fs) (req : Req) (hd : rt.dir ≠ []) :
    ∀ p ∈ (call rt fs req).1, rt.fallback = some p ∨
      ∃ d' n, (rt.dir = d' ∨ rt.dir = d' ++ ['/']) ∧ St.splitOn '/' p = St.splitOn '/' d' ++ St.splitOn '/' n ∧
        St.startsWith n ['/'] = false ∧ (n = ['.'] ∨ ∀ c ∈ St.splitOn '/' n, St.Clean c) := by
  intro p hp
  have inside : ∀ fp, St.serve rt.fallback.isSome rt.dir (req.path.drop rt.pfx.length) = some fp →
      ∃ d' n, (rt.dir = d' ∨ rt.dir = d' ++ ['/']) ∧ St.splitOn '/' fp = St.splitOn '/' d' ++ St.splitOn '/' n ∧
        St.startsWith n ['/'] = false ∧ (n = ['.'] ∨ ∀ c ∈ St.splitOn '/' n, St.Clean c) := by
    intro fp hs
    obtain ⟨_, h2, h3, d', h4, h5⟩ := St.serve_lexically_inside _ _ _ fp hd hs
    exact ⟨d', _, h4, h5, h2, h3⟩
  rcases only_fallback_outside rt fs req with h | ⟨fp, hs, h | ⟨fbp, hfb, _, h⟩⟩
  · rw [h] at hp; cases hp
  · rw [h] at hp
    have : p = fp := by simpa using hp
    subst this; exact Or.inr (inside p hs)
  · rw [h] at hp
    simp only [List.mem_cons, List.not_mem_nil, or_false] at hp
    rcases hp with rfl | rfl
    · exact Or.inr (inside _ hs)
    · exact Or.inl hfb

/-- a request for the bare prefix (no trailing slash; matched only by routes with a fallback) can only open the directory
    itself (`dir/.`, which `io.open` refuses) and then the fallback file -/
theorem bare_prefix_opens (rt : Route) (fs : Fs) (req : Req) (hd : rt.dir ≠ [])
    (hpath : req.path = rt.pfx.dropLast) :
    ∀ p ∈ (call rt fs req).1, rt.fallback = some p ∨ p = rt.dir ++ ['/', '.'] ∨ p = rt.dir ++ ['.'] := by
  intro p hp
  have hsuf : req.path.drop rt.pfx.length = [] := by rw [hpath]; exact suffix_of_bare_match rt
  have key : ∀ fp, St.serve rt.fallback.isSome rt.dir [] = some fp → fp = rt.dir ++ ['/', '.'] ∨ fp = rt.dir ++ ['.'] := by
    intro fp hs
    have := (St.serve_contained _ _ _ fp hd hs).1
    have hn : St.normpath [] = ['.'] := rfl
    rw [hn] at this
    rcases this with h | ⟨_, h⟩
    · left; rw [h]; simp
    · right; exact h
  rcases only_fallback_outside rt fs req with h | ⟨fp, hs, h | ⟨fbp, hfb, _, h⟩⟩
  · rw [h] at hp; cases hp
  · rw [h] at hp
    have : p = fp := by simpa using hp
    subst this; rw [hsuf] at hs; exact Or.inr (key p hs)
  · rw [h] at hp
    simp only [List.mem_cons, List.not_mem_nil, or_false] at hp
    rcases hp with rfl | rfl
    · rw [hsuf] at hs; exact Or.inr (key _ hs)
    · exact Or.inl hfb


/-- the hypotheses are satisfiable: a route with a fallback, a missing file, a present fallback -/
example :
    let rt : Route := mkRoute "/f".toList "/srv/pub".toList false (some "/srv/fb.html".toList)
    let fs : Fs := fun p => if p == "/srv/fb.html".toList then some ⟨[70, 66], 5⟩ else none
    «matches» rt "/f".toList = true ∧ «matches» rt "/fx".toList = false ∧
    call rt fs ⟨false, "/f/missing".toList, .absent, none⟩ =
      (["/srv/pub/missing".toList, "/srv/fb.html".toList], .served 200 5 (.raw ⟨[70, 66], 0⟩) 2 none none) := by
  decide

/-- `OPTIONS` touches no file -/
theorem options_opens_nothing (rt : Route) (fs : Fs) (req : Req) (h : req.isOptions = true) :
    call rt fs req = ([], .options) := by
  simp [call, h]

end Sr

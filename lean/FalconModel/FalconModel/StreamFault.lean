import FalconModel.WsgiStreamFixed
import FalconModel.AsgiStreamFixed
/-! C07: TRANSIENT FAULTS OF THE SERVER-SIDE SOURCE inside an operation.  A call into `wsgi.input` (`read`/`readline`) raises without consuming
    anything, `await receive()` raises, or the task is cancelled while parked in `receive()`: the operation is abandoned and the stream object is
    left with the attribute values the code has written UP TO THAT POINT.  Transcribed from `falcon/stream.py` / `falcon/asgi/stream.py` (c86a3b1). -/
namespace Wf
open Ws7 (Bytes Raw S)
open Ws7F

/-- `_read(size, target)`: `size` is clamped in a local, then `target(size)` raises - no attribute has been written (`_bytes_remaining -= len(result)`
    comes after the call).  `read`, `readline` and `__next__` (= `readline()`) make exactly this one call. -/
def readFault (s : S) (_size : Option Int) : S := s
def readlineFault (s : S) (_limit : Option Int) : S := s
def nextFault (s : S) : S := s

/-- `readlines(hint)` whose (k+1)-th `self.readline()` raises: k lines were read (and accounted) before; the local list goes down with the exception. -/
def readlinesFaultLoop : Nat → S → Int → Int → S
  | 0, s, _, _ => s
  | k + 1, s, hint, total =>
    if total < hint then
      let (line, s1) := readline s none
      if line.isEmpty then s1 else readlinesFaultLoop k s1 hint (total + line.length)
    else s

def hintOf (s : S) (hint : Option Int) : Int :=
  match hint with
  | none => s.remaining
  | some n => if n ≤ 0 then s.remaining else n

def readlinesFault (s : S) (hint : Option Int) (k : Nat) : S := readlinesFaultLoop k s (hintOf s hint) 0

/-- `exhaust(chunk)` whose (k+1)-th `self.read(chunk)` raises. -/
def exhaustFaultLoop : Nat → S → Int → S
  | 0, s, _ => s
  | k + 1, s, chunk =>
    let (d, s1) := read s (some chunk)
    if d.isEmpty then s1 else exhaustFaultLoop k s1 chunk
def exhaustFault (s : S) (chunk : Int) (k : Nat) : S := exhaustFaultLoop k s chunk
end Wf

namespace Af
open AsF
/-- An operation of the ASGI stream whose j-th `await receive()` (counted inside the operation, j ≥ 1) does not return - it raises, or the task is
    cancelled while parked there.  In the model `recv` on an exhausted event list is exactly "this await never returned": the loops stop with the
    attribute values written so far and the operation hands nothing back.  So: run the operation with only the first j-1 events visible, then put
    the other events back (the failing call delivered nothing). `Out.blocked` = the operation was abandoned at that call; any other outcome = the
    operation finished before its j-th receive. -/
def withFault (f : S → Out × S) (s : S) (j : Nat) : Out × S :=
  let (o, s') := f { s with events := s.events.take (j - 1) }
  (o, { s' with events := s'.events ++ s.events.drop (j - 1), blocked := false })
end Af

import FalconModel.StreamFault
import FalconModel.WsgiStreamProofs
namespace Wf
open Ws7 (Bytes Raw S)
open Ws7F

theorem runOps_append (ops1 ops2 : List Op) : ∀ s : S, (runOps s (ops1 ++ ops2)).2 = (runOps (runOps s ops1).2 ops2).2 := by
  induction ops1 with
  | nil => intro s; rfl
  | cons o rest ih => intro s; simp only [List.cons_append, runOps]; exact ih _

/-- the state after a faulted `readlines` is the state after a fault-free history of k' ≤ k plain `readline()` calls -/
theorem readlinesFaultLoop_reachable : ∀ (k : Nat) (s : S) (hint total : Int),
    ∃ n, n ≤ k ∧ readlinesFaultLoop k s hint total = (runOps s (List.replicate n (Op.readline none))).2 := by
  intro k
  induction k with
  | zero => intro s hint total; exact ⟨0, Nat.le_refl _, rfl⟩
  | succ k ih =>
    intro s hint total
    unfold readlinesFaultLoop
    by_cases h : total < hint
    · simp only [h, if_true]
      rcases hr : readline s none with ⟨line, s1⟩
      simp only
      by_cases he : line.isEmpty = true
      · simp only [he, if_true]
        refine ⟨1, by omega, ?_⟩
        simp [List.replicate, runOps, runOp, hr]
      · simp only [he, Bool.false_eq_true, if_false]
        obtain ⟨n, hn, e⟩ := ih s1 hint (total + line.length)
        refine ⟨n + 1, by omega, ?_⟩
        rw [e]; simp [List.replicate, runOps, runOp, hr]
    · simp only [h, if_false]; exact ⟨0, by omega, rfl⟩
end Wf

namespace Wf
open Ws7 (Bytes Raw S)
open Ws7F

theorem exhaustFaultLoop_reachable (chunk : Int) : ∀ (k : Nat) (s : S),
    ∃ n, n ≤ k ∧ exhaustFaultLoop k s chunk = (runOps s (List.replicate n (Op.read (some chunk)))).2 := by
  intro k
  induction k with
  | zero => intro s; exact ⟨0, Nat.le_refl _, rfl⟩
  | succ k ih =>
    intro s
    unfold exhaustFaultLoop
    rcases hr : read s (some chunk) with ⟨d, s1⟩
    simp only
    by_cases he : d.isEmpty = true
    · simp only [he, if_true]
      refine ⟨1, by omega, ?_⟩
      simp [List.replicate, runOps, runOp, hr]
    · simp only [he, Bool.false_eq_true, if_false]
      obtain ⟨n, hn, e⟩ := ih s1
      refine ⟨n + 1, by omega, ?_⟩
      rw [e]; simp [List.replicate, runOps, runOp, hr]

/-- after a `readlines` abandoned at its (k+1)-th `readline()` the stream is still a cursor over the declared body: it stands behind the bytes `X` of the
    lines read before the fault (X = [] for k = 0), the raw stream advanced by exactly |X|, the budget is ≥ 0 -/
theorem readlinesFault_step (s : S) (hint : Option Int) (k : Nat) (h0 : 0 ≤ s.remaining) : ∃ X, Step s X (readlinesFault s hint k) := by
  unfold readlinesFault
  obtain ⟨n, _, e⟩ := readlinesFaultLoop_reachable k s (hintOf s hint) 0
  rw [e]; exact ⟨_, history_refines_cursor _ s h0⟩

theorem exhaustFault_step (s : S) (chunk : Int) (k : Nat) (h0 : 0 ≤ s.remaining) : ∃ X, Step s X (exhaustFault s chunk k) := by
  unfold exhaustFault
  obtain ⟨n, _, e⟩ := exhaustFaultLoop_reachable chunk k s
  rw [e]; exact ⟨_, history_refines_cursor _ s h0⟩

/-- an operation, or the same operation abandoned because its FIRST call into `wsgi.input` raised -/
inductive FOp where
  | ok (o : Op) | fault1 (o : Op)

def faultState (s : S) : Op → S
  | .read n => readFault s n
  | .readline n => readlineFault s n
  | .readlines h => readlinesFault s h 0
  | .next => nextFault s

def runFOps : S → List FOp → Bytes × S
  | s, [] => ([], s)
  | s, .ok o :: rest => let (d, s1) := runOp s o; let (d2, s2) := runFOps s1 rest; (d ++ d2, s2)
  | s, .fault1 o :: rest => runFOps (faultState s o) rest

def strip : List FOp → List Op
  | [] => []
  | .ok o :: rest => o :: strip rest
  | .fault1 _ :: rest => strip rest

theorem faultState_eq (s : S) (o : Op) : faultState s o = s := by
  cases o <;> rfl

/-- **first-call faults are invisible**: a history in which any number of operations were abandoned because their first call into `wsgi.input`
    raised hands out the same bytes and ends in the same state as the history without those operations -/
theorem first_call_faults_invisible (fops : List FOp) : ∀ s : S, runFOps s fops = runOps s (strip fops) := by
  induction fops with
  | nil => intro s; rfl
  | cons f rest ih =>
    intro s
    cases f with
    | ok o => simp only [runFOps, strip, runOps, ih]
    | fault1 o => simp only [runFOps, strip, faultState_eq, ih]

/-- hence the cursor refinement survives them: outputs = the next bytes of body[:Content-Length], exactly the rest remains, the raw stream advanced
    by exactly the bytes handed out, budget ≥ 0 -/
theorem fault_history_refines_cursor (fops : List FOp) (s : S) (h0 : 0 ≤ s.remaining) : Step s (runFOps s fops).1 (runFOps s fops).2 := by
  rw [first_call_faults_invisible]; exact history_refines_cursor _ s h0

example :
    let s : S := { remaining := 4, raw := { data := [97, 10, 98, 10, 69, 88] } }
    (runFOps s [.fault1 (.read none), .ok .next, .fault1 (.readlines none), .ok (.read none)]).1 = [97, 10, 98, 10] ∧
    eof (runFOps s [.fault1 (.read none)]).2 = false ∧ (readlinesFault s none 1).remaining = 2 := by decide
end Wf

namespace Af
open AsF
/-- sized read abandoned at its first `await receive()`: the stream is exactly as before (the buffered residue included), only receive() was awaited once more -/
theorem read_fault_first_receive (s : S) (n : Int) (hn : 0 < n) (hc : s.closed = false) (hr : 0 < s.remaining) (hb : s.buffer.length < n.toNat) :
    withFault (fun s => read s (some n)) s 1 = (.blocked, { s with awaited := s.awaited + 1, blocked := false }) := by
  have h1 : ¬ n = -1 := by omega
  have h2 : ¬ n ≤ 0 := by omega
  have h3 : ¬ s.remaining = 0 := by omega
  simp [withFault, AsF.read, AsF.eof, hc, h1, h2, h3, AsF.readLoop, AsF.recv, hr, hb]

/-- `readall()` abandoned at its first `await receive()`: as before EXCEPT that the buffered residue is gone (`self._buffer = b''` precedes the loop) - with an empty
    buffer nothing is lost; with a residue this is the documented loss class (a), outside the property's quantifier -/
theorem readall_fault_first_receive (s : S) (hc : s.closed = false) (hr : 0 < s.remaining) :
    withFault readall s 1 = (.blocked, { s with buffer := [], awaited := s.awaited + 1, blocked := false }) := by
  have h3 : ¬ s.remaining = 0 := by omega
  simp [withFault, AsF.readall, AsF.eof, hc, h3, AsF.readallLoop, AsF.recv, hr]

/-- `exhaust()` abandoned at its first `await receive()`: the residue was discarded and counted in tell() before the loop -/
theorem exhaust_fault_first_receive (s : S) (hc : s.closed = false) (hr : 0 < s.remaining) :
    withFault exhaust s 1 = (.blocked, { s with buffer := [], pos := s.pos + s.buffer.length, awaited := s.awaited + 1, blocked := false }) := by
  simp [withFault, AsF.exhaust, hc, AsF.exhaustLoop, AsF.recv, hr]

example :
    let s : S := init (some (.request (some [48, 49, 50, 51]) (some true))) (some 10) [.request (some [52, 53, 54, 55]) (some true), .request (some [56, 57]) none]
    (read s (some 2)).1 matches .data [48, 49] ∧
    (withFault (fun s => read s (some 5)) (read s (some 2)).2 1).2.buffer = [50, 51] ∧
    (withFault (fun s => read s (some 9)) (read s (some 2)).2 2).2.remaining = 2 := by decide
end Af

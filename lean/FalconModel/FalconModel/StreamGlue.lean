import FalconModel.HeaderParsers
import FalconModel.WsgiStream
import FalconModel.AsgiStreamFixed
/-! C07, the GLUE between the request object and the body stream: how the declared length handed to `BoundedStream`
    is computed from the request on both stacks.

    * WSGI `falcon/request.py`: `Request.content_length` (env['CONTENT_LENGTH'] → `Hp.contentLength`),
      `Request._get_wrapped_wsgi_input` (`self.content_length or 0`; `except HTTPInvalidHeader: content_length = 0`;
      `BoundedStream(self.env['wsgi.input'], content_length)`), the lazily cached `Request.bounded_stream`.
    * ASGI `falcon/asgi/request.py`: the `_asgi_headers` dict built in `Request.__init__` from `scope['headers']`
      (repeated names joined with `,` except the singleton headers, where the last one wins),
      `Request.content_length` (`_asgi_headers[b'content-length']` → `Hp.contentLengthB`; the `HTTPInvalidHeader` is NOT
      caught), the lazily cached `Request.stream` (`UnsupportedError` for a WebSocket handshake;
      `BoundedStream(receive, first_event=…, content_length=self.content_length)`), `bounded_stream` = alias of `stream`.

    The content-length models (`int()` semantics of a Latin-1 `str` / of a byte string) are C09's `Hp.contentLength` /
    `Hp.contentLengthB`; the streams are C07's `Ws7.S` (operations: `Ws7F`) and `AsF.S`.  No Mathlib. -/
namespace Sg
open Hp (Str CLRes)

/-! ## WSGI -/

/-- the `str`-valued entries of the WSGI environ, a dict (unique keys; `List.lookup` = `env[k]`) -/
abbrev Env := List (Str × Str)

/-- the CGI variable holding the Content-Length header text -/
def clKey : Str := "CONTENT_LENGTH".toList

/-- `Request.content_length` (WSGI): `env['CONTENT_LENGTH']`; KeyError / empty → None; `int()`; ValueError or `< 0` →
    HTTPInvalidHeader -/
def wsgiContentLength (env : Env) : CLRes := Hp.contentLength (env.lookup clKey)

/-- the `content_length` local of `_get_wrapped_wsgi_input`: `self.content_length or 0`, and 0 when the property raised
    HTTPInvalidHeader ("the header had an invalid value: assume no content") -/
def wsgiBound (env : Env) : Int :=
  match wsgiContentLength env with
  | .ok n => if n == 0 then 0 else n      -- `n or 0`
  | .absent => 0                          -- `None or 0`
  | .bad => 0                             -- `except errors.HTTPInvalidHeader: content_length = 0`

/-- the parts of a WSGI `Request` the body stream depends on -/
structure WReq where
  env : Env
  input : Ws7.Raw                      -- `env['wsgi.input']` (= `req.stream`)
  bounded : Option Ws7.S := none       -- `_bounded_stream` (lazy)
deriving Repr

/-- `_get_wrapped_wsgi_input()`: `BoundedStream(self.env['wsgi.input'], content_length)` -/
def getWrappedWsgiInput (r : WReq) : Ws7.S := { remaining := wsgiBound r.env, raw := r.input }

/-- the `bounded_stream` property: wrap on first access, the same object afterwards -/
def boundedStream (r : WReq) : Ws7.S × WReq :=
  match r.bounded with
  | some s => (s, r)
  | none => let s := getWrappedWsgiInput r; (s, { r with bounded := some s })

/-- `req.bounded_stream.<op>(…)`: the operation mutates the (cached) stream object in place.  Also what `get_media` does
    (`handler.deserialize(self.bounded_stream, …)` followed by `self.bounded_stream.exhaust()`: two accesses, one object). -/
def withBounded {α : Type} (r : WReq) (f : Ws7.S → α × Ws7.S) : α × WReq :=
  let (s, r) := boundedStream r
  let (a, s) := f s
  (a, { r with bounded := some s })

/-! ## ASGI -/

/-- header (name, value) pairs as byte strings: `scope['headers']`, and the `_asgi_headers` dict (unique names, insertion order) -/
abbrev Hdrs := List (Str × Str)

/-- `falcon.constants.SINGLETON_HEADERS` -/
def singletonHeaders : List Str :=
  ["content-length".toList, "content-type".toList, "cookie".toList, "expect".toList, "from".toList, "host".toList,
   "max-forwards".toList, "referer".toList, "user-agent".toList]

/-- `d[k] = v` -/
def dictSet : Hdrs → Str → Str → Hdrs
  | [], k, v => [(k, v)]
  | (k', v') :: r, k, v => if k == k' then (k', v) :: r else (k', v') :: dictSet r k v

/-- one round of the loop in `Request.__init__`:
    `if name not in req_headers or name in _SINGLETON_HEADERS_BYTESTR: req_headers[name] = value`
    `else: req_headers[name] += b',' + value` -/
def addHeader (d : Hdrs) (h : Str × Str) : Hdrs :=
  match d.lookup h.1 with
  | none => dictSet d h.1 h.2
  | some old => if singletonHeaders.contains h.1 then dictSet d h.1 h.2 else dictSet d h.1 (old ++ ',' :: h.2)

/-- `_asgi_headers` -/
def buildHeaders (hs : Hdrs) : Hdrs := hs.foldl addHeader []

/-- the (lower-case) name the ASGI server gives the header -/
def clName : Str := "content-length".toList

/-- `Request.content_length` (ASGI): `int(self._asgi_headers[b'content-length'])` on the byte string -/
def asgiContentLength (d : Hdrs) : CLRes := Hp.contentLengthB (d.lookup clName)

/-- the `content_length=` argument of `BoundedStream(...)`, or the exception that escapes `req.stream` -/
inductive Bound where
  | invalidHeader                    -- HTTPInvalidHeader (400)
  | bound (n : Option Nat)           -- `None` = no declared length: read until the final event
deriving Repr, DecidableEq

def asgiBound (d : Hdrs) : Bound :=
  match asgiContentLength d with
  | .absent => .bound none
  | .ok n => .bound (some n.toNat)
  | .bad => .invalidHeader

/-- the parts of an ASGI `Request` the body stream depends on -/
structure AReq where
  headers : Hdrs                       -- `_asgi_headers`
  isWebsocket : Bool                   -- `scope['type'] == 'websocket'`
  firstEvent : Option AsF.Event        -- `_first_event`
  events : List AsF.Event              -- what `_receive` will deliver
  cached : Option AsF.S := none        -- `_stream` (lazy)
deriving Repr

/-- `Request.__init__` (the stream-relevant part) -/
def mkAReq (scopeHeaders : Hdrs) (isWebsocket : Bool) (first : Option AsF.Event) (events : List AsF.Event) : AReq :=
  { headers := buildHeaders scopeHeaders, isWebsocket := isWebsocket, firstEvent := first, events := events }

inductive StreamRes where
  | unsupported                      -- UnsupportedError (WebSocket handshake)
  | invalidHeader                    -- HTTPInvalidHeader
  | stream (s : AsF.S)
deriving Repr

/-- the `stream` property (`bounded_stream` is an alias) -/
def stream (r : AReq) : StreamRes × AReq :=
  if r.isWebsocket then (.unsupported, r) else
  match r.cached with
  | some s => (.stream s, r)
  | none =>
    match asgiBound r.headers with
    | .invalidHeader => (.invalidHeader, r)
    | .bound cl => let s := AsF.init r.firstEvent cl r.events; (.stream s, { r with cached := some s })

/-- `await req.stream.<op>(…)`; `none` = the property access raised -/
def withStream {α : Type} (r : AReq) (f : AsF.S → α × AsF.S) : Option α × AReq :=
  match stream r with
  | (.stream s, r) => let (a, s) := f s; (some a, { r with cached := some s })
  | (_, r) => (none, r)

end Sg

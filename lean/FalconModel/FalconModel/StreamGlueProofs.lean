import FalconModel.StreamGlue
import FalconModel.HeaderParsersProofs
import FalconModel.WsgiStreamProofs
import FalconModel.AsgiHistory
/-! C07 glue proofs (model: `StreamGlue.lean`): the declared length handed to `BoundedStream` IS what the Content-Length text declares — on both
    stacks, for every header text — and the C07 history theorems (`Ws7F.history_refines_cursor`, `AsF.history_refines`) therefore hold for the stream
    obtained THROUGH THE REQUEST OBJECT, end to end from the header text.

    1. `Declares w text n`: the exact set of Content-Length texts that declare `n` (RFC 9110 `1*DIGIT` = `declares_digits`; the liberal spellings Python's
       `int()` adds: surrounding whitespace of class `w`, a `+`, a `-` before zero, single underscores between digits); `contentLengthW_spec`: C09's
       `Hp.contentLengthW` reads exactly those, every other non-empty text is the 400, missing/empty is `None` (`pyIntW_iff` characterises `Hp.pyIntW`).
    2. `wsgi_bound_eq_declared`, `asgi_bound` (+ converses, `asgi_stream_access`).
    3. `wsgi_request_stream_refines_cursor` / `asgi_request_stream_refines_cursor` (+ `_from_header_text`, `_no_usable_length`, `_unbounded`, `_invalid`,
       `wsgi_request_exhaust`); lazy caching of the stream object is part of the model (`reqOps_eq`, `areqOps_eq`).
    4. `wsgi_accompanying_headers_irrelevant`, `asgi_accompanying_headers_irrelevant` (`buildHeaders_lookup_cl`: last `content-length` entry wins). -/
namespace Sg
open Hp

/-- `D+ ('_' D+)*`: groups of decimal digits separated by single underscores (the second index is the text without the
    underscores) -/
inductive Groups : Str → Str → Prop
  | one (d : Str) : allDigits d → d ≠ [] → Groups d d
  | more (d rest ds : Str) : allDigits d → d ≠ [] → Groups rest ds → Groups (d ++ '_' :: rest) (d ++ ds)

theorem ofDigitChars_nil (acc : Nat) : Nat.ofDigitChars 10 [] acc = acc := by simp [Nat.ofDigitChars]

theorem digitsGo_run : ∀ (d : Str), allDigits d → ∀ (r : Str) (acc : Nat) (last : Bool),
    digitsGo (d ++ r) acc last = digitsGo r (Nat.ofDigitChars 10 d acc) (last || !d.isEmpty)
  | [], _, r, acc, last => by simp
  | c :: d, h, r, acc, last => by
    have hc : c.isDigit = true := h c (by simp)
    have hd : allDigits d := fun x hx => h x (by simp [hx])
    simp only [List.cons_append, digitsGo, hc, if_true]
    rw [digitsGo_run d hd, Nat.ofDigitChars_cons]
    simp

theorem Groups.digitsGo {t ds : Str} (h : Groups t ds) : ∀ (acc : Nat) (last : Bool),
    digitsGo t acc last = some (Nat.ofDigitChars 10 ds acc) := by
  induction h with
  | one d hd hne => intro acc last; exact digitsGo_digits d acc last hd (Or.inl hne)
  | more d rest ds hd hne _ ih =>
    intro acc last
    have hne' : d.isEmpty = false := by cases d with | nil => exact absurd rfl hne | cons _ _ => rfl
    rw [digitsGo_run d hd, hne']
    simp only [Bool.not_false, Bool.or_true]
    rw [Hp.digitsGo]
    simp only [show ('_' : Char).isDigit = false by decide, Bool.false_eq_true, if_false]
    simp only [beq_self_eq_true, Bool.and_self, if_true]
    rw [ih, Nat.ofDigitChars_append]

theorem Groups.consDigit {t ds : Str} (h : Groups t ds) (c : Char) (hc : c.isDigit = true) : Groups (c :: t) (c :: ds) := by
  cases h with
  | one _ hd hne => exact .one (c :: t) (fun x hx => by cases List.mem_cons.mp hx with | inl e => rw [e]; exact hc | inr e => exact hd x e) (by simp)
  | more d rest ds hd hne hr =>
    exact .more (c :: d) rest ds (fun x hx => by cases List.mem_cons.mp hx with | inl e => rw [e]; exact hc | inr e => exact hd x e) (by simp) hr

theorem digitsGo_inv : ∀ (t : Str) (acc : Nat) (last : Bool) (res : Nat), digitsGo t acc last = some res →
    (t = [] ∧ last = true ∧ res = acc) ∨
    (last = true ∧ ∃ r ds, t = '_' :: r ∧ Groups r ds ∧ res = Nat.ofDigitChars 10 ds acc) ∨
    (∃ ds, Groups t ds ∧ res = Nat.ofDigitChars 10 ds acc)
  | [], acc, last, res, h => by
    simp only [digitsGo] at h
    split at h
    · rename_i hl; simp at h; exact Or.inl ⟨rfl, hl, h.symm⟩
    · simp at h
  | c :: r, acc, last, res, h => by
    simp only [digitsGo] at h
    split at h
    · rename_i hc
      have hone : Groups [c] [c] := .one [c] (fun x hx => by simp at hx; rw [hx]; exact hc) (by simp)
      rcases digitsGo_inv r _ true res h with ⟨hr, _, hres⟩ | ⟨_, r2, ds, hr, hg, hres⟩ | ⟨ds, hg, hres⟩
      · subst hr; exact Or.inr (Or.inr ⟨[c], hone, by rw [hres, Nat.ofDigitChars_cons, ofDigitChars_nil]; rfl⟩)
      · subst hr
        exact Or.inr (Or.inr ⟨[c] ++ ds, .more [c] r2 ds (fun x hx => by simp at hx; rw [hx]; exact hc) (by simp) hg,
          by rw [hres, List.singleton_append, Nat.ofDigitChars_cons]; rfl⟩)
      · exact Or.inr (Or.inr ⟨c :: ds, hg.consDigit c hc, by rw [hres, Nat.ofDigitChars_cons]; rfl⟩)
    · split at h
      · rename_i hu
        simp at hu
        obtain ⟨hcu, hl⟩ := hu
        subst hcu
        rcases digitsGo_inv r acc false res h with ⟨_, hf, _⟩ | ⟨hf, _⟩ | ⟨ds, hg, hres⟩
        · exact absurd hf (by decide)
        · exact absurd hf (by decide)
        · exact Or.inr (Or.inl ⟨hl, r, ds, rfl, hg, hres⟩)
      · simp at h

/-- `digitsGo` from the start state accepts exactly `D+('_'D+)*` and reads the digits in decimal -/
theorem digitsGo_iff (t : Str) (res : Nat) :
    digitsGo t 0 false = some res ↔ ∃ ds, Groups t ds ∧ res = Nat.ofDigitChars 10 ds 0 := by
  constructor
  · intro h
    rcases digitsGo_inv t 0 false res h with ⟨_, hf, _⟩ | ⟨hf, _⟩ | h3
    · exact absurd hf (by decide)
    · exact absurd hf (by decide)
    · exact h3
  · rintro ⟨ds, hg, rfl⟩; exact hg.digitsGo 0 false

/-! ### `strip` -/
def allW (w : Char → Bool) (l : Str) : Prop := ∀ c ∈ l, w c = true

theorem dropWhile_allW_append {w : Char → Bool} : ∀ (pre l : Str), allW w pre → (pre ++ l).dropWhile w = l.dropWhile w
  | [], _, _ => rfl
  | c :: pre, l, h => by
    have hc : w c = true := h c (by simp)
    simp only [List.cons_append, List.dropWhile, hc]
    exact dropWhile_allW_append pre l (fun x hx => h x (by simp [hx]))

theorem allW_takeWhile (w : Char → Bool) : ∀ (l : Str), allW w (l.takeWhile w)
  | [] => fun _ hc => by simp at hc
  | a :: l => by
    intro c hc
    simp only [List.takeWhile] at hc
    split at hc
    · rename_i ha
      cases List.mem_cons.mp hc with
      | inl e => rw [e]; exact ha
      | inr e => exact allW_takeWhile w l c e
    · simp at hc

/-- `strip` removes a whitespace-only prefix and suffix -/
theorem strip_decomp (w : Char → Bool) (s : Str) : ∃ pre post, s = pre ++ stripW w s ++ post ∧ allW w pre ∧ allW w post := by
  refine ⟨s.takeWhile w, (((s.dropWhile w).reverse).takeWhile w).reverse, ?_, allW_takeWhile w s, ?_⟩
  · unfold stripW rstripW lstripW
    have h1 : ((s.dropWhile w).reverse.dropWhile w).reverse ++ ((s.dropWhile w).reverse.takeWhile w).reverse = s.dropWhile w := by
      rw [← List.reverse_append, List.takeWhile_append_dropWhile, List.reverse_reverse]
    rw [List.append_assoc, h1, List.takeWhile_append_dropWhile]
  · intro c hc
    exact allW_takeWhile w _ c (by simpa using hc)

/-- …and nothing else: a text whose first and last characters are not whitespace is what remains of it after any amount
    of whitespace was put around it -/
theorem strip_sandwich (w : Char → Bool) (pre post init : Str) (a z : Char) (hpre : allW w pre) (hpost : allW w post)
    (ha : w a = false) (hz : w z = false) (mid : Str) (hm1 : ∃ t, mid = a :: t) (hm2 : mid = init ++ [z]) :
    stripW w (pre ++ mid ++ post) = mid := by
  obtain ⟨t, ht⟩ := hm1
  unfold stripW rstripW lstripW
  rw [List.append_assoc, dropWhile_allW_append pre _ hpre]
  have : (mid ++ post).dropWhile w = mid ++ post := by rw [ht]; exact dropWhile_head_false ha
  rw [this, List.reverse_append, dropWhile_allW_append _ _ (fun c hc => hpost c (by simpa using hc))]
  rw [hm2, List.reverse_append]
  simp only [List.reverse_cons, List.reverse_nil, List.nil_append, List.singleton_append]
  rw [dropWhile_head_false hz]
  simp

/-! ### the texts `int()` accepts -/

/-- **what Python's `int()` (whitespace class `w`) reads as the integer `z`**: optional whitespace, an optional sign, `D+('_'D+)*` read in
    decimal, optional whitespace -/
def IntSpelling (w : Char → Bool) (s : Str) (z : Int) : Prop :=
  ∃ pre sign body ds post, s = pre ++ sign ++ body ++ post ∧ allW w pre ∧ allW w post ∧ Groups body ds ∧
    (((sign = [] ∨ sign = ['+']) ∧ z = ((Nat.ofDigitChars 10 ds 0 : Nat) : Int)) ∨
     (sign = ['-'] ∧ z = -((Nat.ofDigitChars 10 ds 0 : Nat) : Int)))

theorem Groups.head {t ds : Str} (h : Groups t ds) : ∃ c r, t = c :: r ∧ c.isDigit = true := by
  cases h with
  | one _ hd hne =>
    cases t with
    | nil => exact absurd rfl hne
    | cons c r => exact ⟨c, r, rfl, hd c (by simp)⟩
  | more d rest ds hd hne _ =>
    cases d with
    | nil => exact absurd rfl hne
    | cons c r => exact ⟨c, r ++ '_' :: rest, rfl, hd c (by simp)⟩

theorem Groups.last {t ds : Str} (h : Groups t ds) : ∃ init z, t = init ++ [z] ∧ z.isDigit = true := by
  induction h with
  | one d hd hne =>
    refine ⟨d.dropLast, d.getLast hne, (List.dropLast_concat_getLast hne).symm, hd _ (List.getLast_mem hne)⟩
  | more d rest ds _ _ _ ih =>
    obtain ⟨init, z, hr, hz⟩ := ih
    exact ⟨d ++ '_' :: init, z, by rw [hr]; simp, hz⟩

structure WsClass (w : Char → Bool) : Prop where
  digit : ∀ c, c.isDigit = true → w c = false
  plus : w '+' = false
  minus : w '-' = false

theorem wsClass_I : WsClass isWsI := ⟨fun _ => isWsI_of_isDigit, by decide, by decide⟩
theorem wsClass_B : WsClass isWsB := ⟨fun _ => isWsB_of_isDigit, by decide, by decide⟩

theorem pyIntW_iff {w : Char → Bool} (hw : WsClass w) (s : Str) (z : Int) : pyIntW w s = some z ↔ IntSpelling w s z := by
  constructor
  · intro h
    obtain ⟨pre, post, hs, hpre, hpost⟩ := strip_decomp w s
    unfold pyIntW at h
    split at h
    · rename_i r heq
      cases hg : digitsGo r 0 false with
      | none => rw [hg] at h; simp at h
      | some n =>
        rw [hg] at h; simp at h
        obtain ⟨ds, hG, hn⟩ := (digitsGo_iff r n).mp hg
        exact ⟨pre, ['-'], r, ds, post, by rw [hs, heq]; simp, hpre, hpost, hG, Or.inr ⟨rfl, by rw [← h, hn]⟩⟩
    · rename_i r heq
      cases hg : digitsGo r 0 false with
      | none => rw [hg] at h; simp at h
      | some n =>
        rw [hg] at h; simp at h
        obtain ⟨ds, hG, hn⟩ := (digitsGo_iff r n).mp hg
        exact ⟨pre, ['+'], r, ds, post, by rw [hs, heq]; simp, hpre, hpost, hG, Or.inl ⟨Or.inr rfl, by rw [← h, hn]⟩⟩
    · cases hg : digitsGo (stripW w s) 0 false with
      | none => rw [hg] at h; simp at h
      | some n =>
        rw [hg] at h; simp at h
        obtain ⟨ds, hG, hn⟩ := (digitsGo_iff _ n).mp hg
        exact ⟨pre, [], stripW w s, ds, post, by simpa using hs, hpre, hpost, hG, Or.inl ⟨Or.inl rfl, by rw [← h, hn]⟩⟩
  · rintro ⟨pre, sign, body, ds, post, hs, hpre, hpost, hG, hsign⟩
    obtain ⟨c, r, hbody, hc⟩ := hG.head
    obtain ⟨init, zc, hlast, hzc⟩ := hG.last
    have hgo := hG.digitsGo 0 false
    rcases hsign with ⟨hsg | hsg, hz⟩ | ⟨hsg, hz⟩
    · -- no sign
      subst hsg
      have hstrip : stripW w s = body := by
        rw [hs]; simp only [List.append_nil]
        exact strip_sandwich w pre post init c zc hpre hpost (hw.digit c hc) (hw.digit zc hzc) body ⟨r, hbody⟩ hlast
      unfold pyIntW
      rw [hstrip]
      have h1 : c ≠ '-' := by intro e; rw [e] at hc; exact absurd hc (by decide)
      have h2 : c ≠ '+' := by intro e; rw [e] at hc; exact absurd hc (by decide)
      split
      · simp at hbody; exact absurd hbody.1.symm h1
      · simp at hbody; exact absurd hbody.1.symm h2
      · rw [hgo, hz]; rfl
    · subst hsg
      have hstrip : stripW w s = '+' :: body := by
        rw [hs, List.append_assoc pre]
        exact strip_sandwich w pre post ('+' :: init) '+' zc hpre hpost hw.plus (hw.digit zc hzc) (['+'] ++ body) ⟨body, rfl⟩ (by rw [hlast]; simp)
      unfold pyIntW
      rw [hstrip]; simp only
      rw [hgo, hz]; rfl
    · subst hsg
      have hstrip : stripW w s = '-' :: body := by
        rw [hs, List.append_assoc pre]
        exact strip_sandwich w pre post ('-' :: init) '-' zc hpre hpost hw.minus (hw.digit zc hzc) (['-'] ++ body) ⟨body, rfl⟩ (by rw [hlast]; simp)
      unfold pyIntW
      rw [hstrip]; simp only
      rw [hgo, hz]; rfl

/-! ### Content-Length: which texts declare which length -/

/-- **the Content-Length texts that declare the length `n`** (whitespace class `w`: `isWsI` for the WSGI `str`, `isWsB` for the
    ASGI byte string): optional whitespace, an optional `+` (a `-` only in front of a zero), `D+('_'D+)*` read in decimal with the
    underscores dropped, optional whitespace.  RFC 9110's `1*DIGIT` is the case without whitespace, sign and underscores
    (`declares_digits`). -/
def Declares (w : Char → Bool) (s : Str) (n : Nat) : Prop :=
  ∃ pre sign body ds post, s = pre ++ sign ++ body ++ post ∧ allW w pre ∧ allW w post ∧ Groups body ds ∧
    n = Nat.ofDigitChars 10 ds 0 ∧ (sign = [] ∨ sign = ['+'] ∨ (sign = ['-'] ∧ n = 0))

theorem declares_iff (w : Char → Bool) (s : Str) (n : Nat) : Declares w s n ↔ IntSpelling w s (n : Int) := by
  constructor
  · rintro ⟨pre, sign, body, ds, post, hs, hpre, hpost, hG, hn, hsg⟩
    refine ⟨pre, sign, body, ds, post, hs, hpre, hpost, hG, ?_⟩
    rcases hsg with h | h | ⟨h, h0⟩
    · exact Or.inl ⟨Or.inl h, by rw [hn]⟩
    · exact Or.inl ⟨Or.inr h, by rw [hn]⟩
    · exact Or.inr ⟨h, by rw [← hn, h0]; rfl⟩
  · rintro ⟨pre, sign, body, ds, post, hs, hpre, hpost, hG, hsg⟩
    refine ⟨pre, sign, body, ds, post, hs, hpre, hpost, hG, ?_⟩
    rcases hsg with ⟨h, hz⟩ | ⟨h, hz⟩
    · have : n = Nat.ofDigitChars 10 ds 0 := by omega
      exact ⟨this, by rcases h with h | h; exact Or.inl h; exact Or.inr (Or.inl h)⟩
    · have h1 : n = Nat.ofDigitChars 10 ds 0 := by omega
      have h2 : n = 0 := by omega
      exact ⟨h1, Or.inr (Or.inr ⟨h, h2⟩)⟩

/-- RFC 9110 `Content-Length = 1*DIGIT`: a non-empty string of decimal digits declares its decimal value (leading zeros allowed) -/
theorem declares_digits (w : Char → Bool) (l : Str) (hd : allDigits l) (hne : l ≠ []) : Declares w l (Nat.ofDigitChars 10 l 0) :=
  ⟨[], [], l, l, [], by simp, fun _ h => by simp at h, fun _ h => by simp at h, .one l hd hne, rfl, Or.inl rfl⟩

theorem declares_toDigits (w : Char → Bool) (n : Nat) : Declares w (Nat.toDigits 10 n) n := by
  have := declares_digits w _ (toDigits_allDigits n) (by simp)
  rwa [Nat.ofDigitChars_ten_toDigits] at this

theorem declares_unique {w : Char → Bool} (hw : WsClass w) {s : Str} {n m : Nat} (h1 : Declares w s n) (h2 : Declares w s m) : n = m := by
  have a := (pyIntW_iff hw s n).mpr ((declares_iff w s n).mp h1)
  have b := (pyIntW_iff hw s m).mpr ((declares_iff w s m).mp h2)
  rw [a] at b; simp at b; omega

theorem not_declares_nil (w : Char → Bool) (n : Nat) : ¬ Declares w [] n := by
  rintro ⟨pre, sign, body, ds, post, hs, _, _, hG, _⟩
  obtain ⟨c, r, hb, _⟩ := hG.head
  rw [hb] at hs
  have := congrArg List.length hs
  simp at this

/-- the complete reading of `req.content_length`, for EVERY header value -/
theorem contentLengthW_spec {w : Char → Bool} (hw : WsClass w) (v : Option Str) :
    ((v = none ∨ v = some []) ∧ contentLengthW w v = .absent) ∨
    (∃ s n, v = some s ∧ Declares w s n ∧ contentLengthW w v = .ok (n : Int)) ∨
    (∃ s, v = some s ∧ s ≠ [] ∧ (∀ n, ¬ Declares w s n) ∧ contentLengthW w v = .bad) := by
  cases v with
  | none => exact Or.inl ⟨Or.inl rfl, rfl⟩
  | some s =>
    cases s with
    | nil => exact Or.inl ⟨Or.inr rfl, rfl⟩
    | cons a t =>
      right
      cases hp : pyIntW w (a :: t) with
      | none =>
        refine Or.inr ⟨a :: t, rfl, by simp, ?_, by simp [contentLengthW, hp]⟩
        intro n hn
        have := (pyIntW_iff hw _ _).mpr ((declares_iff w _ n).mp hn)
        rw [hp] at this; simp at this
      | some z =>
        by_cases hz : z < 0
        · refine Or.inr ⟨a :: t, rfl, by simp, ?_, by simp [contentLengthW, hp, hz]⟩
          intro n hn
          have := (pyIntW_iff hw _ _).mpr ((declares_iff w _ n).mp hn)
          rw [hp] at this; simp at this; omega
        · refine Or.inl ⟨a :: t, z.toNat, rfl, ?_, ?_⟩
          · apply (declares_iff w _ _).mpr
            have : ((z.toNat : Nat) : Int) = z := by omega
            rw [this]; exact (pyIntW_iff hw _ _).mp hp
          · have : ((z.toNat : Nat) : Int) = z := by omega
            simp [contentLengthW, hp, hz, this]

/-! ## (1) WSGI: the bound handed to `BoundedStream` -/

/-- **`wsgi_bound_eq_declared`.** For every environ: the declared length handed to the WSGI `BoundedStream` is never negative; it is `n` when
    the `CONTENT_LENGTH` text declares `n` (RFC 9110 `1*DIGIT`, and the liberal spellings of `Declares`); it is 0 when the
    variable is missing, empty, or unusable (anything else: not a number, a negative number, `1.5`, `0x10`, `5, 5`, …). -/
theorem wsgi_bound_eq_declared (env : Env) :
    0 ≤ wsgiBound env ∧
    (∀ s n, env.lookup clKey = some s → Declares isWsI s n → wsgiBound env = (n : Int)) ∧
    (env.lookup clKey = none → wsgiBound env = 0) ∧
    (env.lookup clKey = some [] → wsgiBound env = 0) ∧
    (∀ s, env.lookup clKey = some s → (∀ n, ¬ Declares isWsI s n) → wsgiBound env = 0) := by
  unfold wsgiBound wsgiContentLength contentLength
  rcases contentLengthW_spec wsClass_I (env.lookup clKey) with ⟨hv, hr⟩ | ⟨s, n, hv, hd, hr⟩ | ⟨s, hv, hne, hnd, hr⟩
  · rw [hr]
    refine ⟨Int.le_refl _, ?_, fun _ => rfl, fun _ => rfl, fun _ _ _ => rfl⟩
    intro s n hs hd
    rcases hv with h | h
    · rw [h] at hs; simp at hs
    · rw [h] at hs; simp at hs; subst hs; exact absurd hd (not_declares_nil _ _)
  · rw [hr]
    have hval : (if ((n : Int) == 0) = true then (0 : Int) else (n : Int)) = (n : Int) := by
      split
      · rename_i h; simp at h; omega
      · rfl
    simp only [hval]
    refine ⟨by omega, ?_, ?_, ?_, ?_⟩
    · intro s' n' hs' hd'
      rw [hv] at hs'; simp at hs'; subst hs'
      rw [declares_unique wsClass_I hd hd']
    · intro h; rw [hv] at h; simp at h
    · intro h; rw [hv] at h; simp at h; subst h; exact absurd hd (not_declares_nil _ _)
    · intro s' hs' hnd
      rw [hv] at hs'; simp at hs'; subst hs'
      exact absurd hd (hnd n)
  · rw [hr]
    refine ⟨Int.le_refl _, ?_, fun _ => rfl, fun _ => rfl, fun _ _ _ => rfl⟩
    intro s' n' hs' hd'
    rw [hv] at hs'; simp at hs'; subst hs'
    exact absurd hd' (hnd n')

/-- RFC 9110: `Content-Length: 1*DIGIT` gives exactly its decimal value as the bound -/
theorem wsgi_bound_rfc (env : Env) (l : Str) (h : env.lookup clKey = some l) (hd : allDigits l) (hne : l ≠ []) :
    wsgiBound env = ((Nat.ofDigitChars 10 l 0 : Nat) : Int) :=
  (wsgi_bound_eq_declared env).2.1 l _ h (declares_digits _ l hd hne)

theorem wsgi_bound_nonneg (env : Env) : 0 ≤ wsgiBound env := (wsgi_bound_eq_declared env).1

/-! ## (2) ASGI: the bound, or the 400 -/

/-- **`asgi_bound`.** For every header dict: no `content-length` entry (or an empty one) gives `None` (read until the final event);
    a text that declares `n` gives `some n`; every other text raises HTTPInvalidHeader — there is no fourth outcome,
    in particular no negative and no guessed bound. -/
theorem asgi_bound (d : Hdrs) :
    ((d.lookup clName = none ∨ d.lookup clName = some []) → asgiBound d = .bound none) ∧
    (∀ s n, d.lookup clName = some s → Declares isWsB s n → asgiBound d = .bound (some n)) ∧
    (∀ s, d.lookup clName = some s → s ≠ [] → (∀ n, ¬ Declares isWsB s n) → asgiBound d = .invalidHeader) := by
  unfold asgiBound asgiContentLength contentLengthB
  rcases contentLengthW_spec wsClass_B (d.lookup clName) with ⟨hv, hr⟩ | ⟨s, n, hv, hd, hr⟩ | ⟨s, hv, hne, hnd, hr⟩
  · rw [hr]
    refine ⟨fun _ => rfl, ?_, ?_⟩
    · intro s n hs hd
      rcases hv with h | h
      · rw [h] at hs; simp at hs
      · rw [h] at hs; simp at hs; subst hs; exact absurd hd (not_declares_nil _ _)
    · intro s hs hne _
      rcases hv with h | h
      · rw [h] at hs; simp at hs
      · rw [h] at hs; simp at hs; exact absurd hs hne
  · rw [hr]
    refine ⟨?_, ?_, ?_⟩
    · rintro (h | h)
      · rw [hv] at h; simp at h
      · rw [hv] at h; simp at h; subst h; exact absurd hd (not_declares_nil _ _)
    · intro s' n' hs' hd'
      rw [hv] at hs'; simp at hs'; subst hs'
      rw [declares_unique wsClass_B hd hd']; simp
    · intro s' hs' _ hnd
      rw [hv] at hs'; simp at hs'; subst hs'
      exact absurd hd (hnd n)
  · rw [hr]
    refine ⟨?_, ?_, fun _ _ _ _ => rfl⟩
    · rintro (h | h)
      · rw [hv] at h; simp at h
      · rw [hv] at h; simp at h; exact absurd h hne
    · intro s' n' hs' hd'
      rw [hv] at hs'; simp at hs'; subst hs'
      exact absurd hd' (hnd n')

/-- the converse readings: which headers produce which outcome -/
theorem asgi_bound_some_iff (d : Hdrs) (n : Nat) :
    asgiBound d = .bound (some n) ↔ ∃ s, d.lookup clName = some s ∧ Declares isWsB s n := by
  constructor
  · intro h
    unfold asgiBound asgiContentLength contentLengthB at h
    rcases contentLengthW_spec wsClass_B (d.lookup clName) with ⟨_, hr⟩ | ⟨s, m, hv, hd, hr⟩ | ⟨_, _, _, _, hr⟩
    · rw [hr] at h; simp at h
    · rw [hr] at h; simp at h; subst h; exact ⟨s, hv, hd⟩
    · rw [hr] at h; simp at h
  · rintro ⟨s, hs, hd⟩; exact (asgi_bound d).2.1 s n hs hd

theorem asgi_bound_invalid_iff (d : Hdrs) :
    asgiBound d = .invalidHeader ↔ ∃ s, d.lookup clName = some s ∧ s ≠ [] ∧ ∀ n, ¬ Declares isWsB s n := by
  constructor
  · intro h
    unfold asgiBound asgiContentLength contentLengthB at h
    rcases contentLengthW_spec wsClass_B (d.lookup clName) with ⟨_, hr⟩ | ⟨s, m, hv, hd, hr⟩ | ⟨s, hv, hne, hnd, hr⟩
    · rw [hr] at h; simp at h
    · rw [hr] at h; simp at h
    · exact ⟨s, hv, hne, hnd⟩
  · rintro ⟨s, hs, hne, hnd⟩; exact (asgi_bound d).2.2 s hs hne hnd

/-- at `.stream` access (fresh, non-WebSocket request): an unusable header raises and NO stream is created (nothing cached, no event
    consumed); otherwise the stream is `BoundedStream(receive, first_event, content_length = the bound)` and it is cached -/
theorem asgi_stream_access (r : AReq) (hws : r.isWebsocket = false) (hfresh : r.cached = none) :
    (asgiBound r.headers = .invalidHeader → stream r = (.invalidHeader, r)) ∧
    (∀ cl, asgiBound r.headers = .bound cl →
      stream r = (.stream (AsF.init r.firstEvent cl r.events), { r with cached := some (AsF.init r.firstEvent cl r.events) })) := by
  unfold stream
  simp only [hws, hfresh, Bool.false_eq_true, if_false]
  constructor
  · intro h; rw [h]
  · intro cl h; rw [h]

/-! ## (4) the bound is a function of the Content-Length header alone -/

theorem lookup_filter_key (k : Str) : ∀ (env : Env), (env.filter (·.1 == k)).lookup k = env.lookup k
  | [] => rfl
  | (k', v) :: env => by
    by_cases h : k' = k
    · subst h; simp [List.filter, List.lookup]
    · have h1 : (k' == k) = false := by simpa using h
      have h2 : (k == k') = false := by simpa using fun e => h e.symm
      simp only [List.filter, h1, List.lookup, h2]
      exact lookup_filter_key k env

/-- WSGI: every other environ entry (HTTP_TRANSFER_ENCODING, HTTP_X_CONTENT_LENGTH, CONTENT_TYPE, …) is irrelevant -/
theorem wsgi_accompanying_headers_irrelevant (env : Env) :
    wsgiBound env = wsgiBound (env.filter (·.1 == clKey)) := by
  unfold wsgiBound wsgiContentLength; rw [lookup_filter_key]

theorem wsgi_bound_congr (env env' : Env) (h : env.lookup clKey = env'.lookup clKey) : wsgiBound env = wsgiBound env' := by
  unfold wsgiBound wsgiContentLength; rw [h]

theorem lookup_dictSet (k v k' : Str) : ∀ (d : Hdrs), (dictSet d k v).lookup k' = if k' == k then some v else d.lookup k'
  | [] => by
    simp only [dictSet, List.lookup]
    split <;> simp_all
  | (a, b) :: d => by
    simp only [dictSet]
    by_cases hka : k = a
    · subst hka
      simp only [beq_self_eq_true, if_true, List.lookup]
      by_cases h : k' = k
      · subst h; simp
      · have : (k' == k) = false := by simpa using h
        simp [this]
    · have h1 : (k == a) = false := by simpa using hka
      simp only [h1, Bool.false_eq_true, if_false, List.lookup]
      by_cases h : k' = a
      · subst h
        have : (k' == k) = false := by simpa using fun e => hka e.symm
        simp [this]
      · have h2 : (k' == a) = false := by simpa using h
        simp only [h2]
        exact lookup_dictSet k v k' d

theorem lookup_addHeader_other (d : Hdrs) (h : Str × Str) (k : Str) (hk : (k == h.1) = false) :
    (addHeader d h).lookup k = d.lookup k := by
  unfold addHeader
  split
  · rw [lookup_dictSet, hk]; rfl
  · split <;> (rw [lookup_dictSet, hk]; rfl)

theorem lookup_addHeader_cl (d : Hdrs) (v : Str) : (addHeader d (clName, v)).lookup clName = some v := by
  unfold addHeader
  have hs : singletonHeaders.contains clName = true := by decide
  split
  · rw [lookup_dictSet]; simp
  · simp only [hs, if_true]; rw [lookup_dictSet]; simp

/-- the values of the `content-length` entries of `scope['headers']`, in order -/
def clValues (hs : Hdrs) : List Str := (hs.filter (·.1 == clName)).map (·.2)

theorem lookup_foldl_addHeader : ∀ (hs d : Hdrs),
    (hs.foldl addHeader d).lookup clName = ((clValues hs).getLast?).or (d.lookup clName)
  | [], d => by simp [clValues]
  | h :: hs, d => by
    rw [List.foldl_cons, lookup_foldl_addHeader hs]
    by_cases hk : h.1 = clName
    · have hh : h = (clName, h.2) := by rw [← hk]
      have hcv : clValues (h :: hs) = h.2 :: clValues hs := by simp [clValues, List.filter, hk]
      rw [hcv, hh, lookup_addHeader_cl]
      cases hl : (clValues hs).getLast? with
      | none =>
        have : clValues hs = [] := List.getLast?_eq_none_iff.mp hl
        simp [this]
      | some x =>
        have hne : clValues hs ≠ [] := by intro e; rw [e] at hl; simp at hl
        rw [List.getLast?_cons_of_ne_nil hne] at *
        simp [hl]
    · have h1 : (h.1 == clName) = false := by simpa using hk
      have h2 : (clName == h.1) = false := by simpa using fun e => hk e.symm
      have hcv : clValues (h :: hs) = clValues hs := by simp [clValues, List.filter, h1]
      rw [hcv, lookup_addHeader_other d h clName h2]

/-- ASGI: `_asgi_headers[b'content-length']` is the value of the LAST `content-length` entry the server listed (a singleton header: not joined) -/
theorem buildHeaders_lookup_cl (hs : Hdrs) : (buildHeaders hs).lookup clName = (clValues hs).getLast? := by
  unfold buildHeaders; rw [lookup_foldl_addHeader]; simp

/-- ASGI: all other headers (transfer-encoding, x-content-length, content-type, expect, …), wherever they are in the list and however often
    they repeat, are irrelevant to the bound -/
theorem asgi_accompanying_headers_irrelevant (hs : Hdrs) :
    asgiBound (buildHeaders hs) = asgiBound (buildHeaders (hs.filter (·.1 == clName))) := by
  have : clValues (hs.filter (·.1 == clName)) = clValues hs := by simp [clValues, List.filter_filter]
  unfold asgiBound asgiContentLength
  rw [buildHeaders_lookup_cl, buildHeaders_lookup_cl, this]


/-- two header lists with the same `content-length` entries (whatever else they contain, in whatever order) give the same bound -/
theorem asgi_bound_congr (hs hs' : Hdrs) (h : clValues hs = clValues hs') : asgiBound (buildHeaders hs) = asgiBound (buildHeaders hs') := by
  unfold asgiBound asgiContentLength
  rw [buildHeaders_lookup_cl, buildHeaders_lookup_cl, h]

/-- **`accompanying_headers_irrelevant`.** On both stacks the bound is a function of the Content-Length header alone: dropping every other environ entry /
    header (Transfer-Encoding, X-Content-Length, Content-Type, Expect, …) changes nothing. -/
theorem accompanying_headers_irrelevant (env : Env) (hs : Hdrs) :
    wsgiBound env = wsgiBound (env.filter (·.1 == clKey)) ∧
    asgiBound (buildHeaders hs) = asgiBound (buildHeaders (hs.filter (·.1 == clName))) :=
  ⟨wsgi_accompanying_headers_irrelevant env, asgi_accompanying_headers_irrelevant hs⟩

/-! ## (3) composition: the stream obtained THROUGH THE REQUEST OBJECT is a cursor over `body[:n]`, `n` read from the header text -/

/-! ### WSGI -/

/-- `req.bounded_stream.<op>(…)` for one operation of the file-like API (the property is accessed again for every operation) -/
def reqOp (r : WReq) (o : Ws7F.Op) : Ws7.Bytes × WReq := withBounded r (fun s => Ws7F.runOp s o)

def reqOps : WReq → List Ws7F.Op → Ws7.Bytes × WReq
  | r, [] => ([], r)
  | r, o :: rest => let (d, r1) := reqOp r o; let (d2, r2) := reqOps r1 rest; (d ++ d2, r2)

/-- the stream object the next access of `req.bounded_stream` yields -/
def cur (r : WReq) : Ws7.S := (boundedStream r).1

theorem cur_fresh (r : WReq) (h : r.bounded = none) : cur r = getWrappedWsgiInput r := by
  unfold cur boundedStream; rw [h]

theorem reqOp_eq (r : WReq) (o : Ws7F.Op) :
    (reqOp r o).1 = (Ws7F.runOp (cur r) o).1 ∧ cur (reqOp r o).2 = (Ws7F.runOp (cur r) o).2 := by
  unfold reqOp withBounded cur
  cases hb : boundedStream r with
  | mk s r1 =>
    cases hf : Ws7F.runOp s o with
    | mk a s1 => simp [boundedStream, hf]

/-- lazy wrapping is invisible: a history performed through `req.bounded_stream` (one access per operation) is the history on ONE
    stream object, the one built at the first access -/
theorem reqOps_eq (ops : List Ws7F.Op) : ∀ (r : WReq),
    (reqOps r ops).1 = (Ws7F.runOps (cur r) ops).1 ∧ cur (reqOps r ops).2 = (Ws7F.runOps (cur r) ops).2 := by
  induction ops with
  | nil => intro r; exact ⟨rfl, rfl⟩
  | cons o rest ih =>
    intro r
    obtain ⟨h1, h2⟩ := reqOp_eq r o
    obtain ⟨h3, h4⟩ := ih (reqOp r o).2
    rw [h2] at h3 h4
    have e1 : reqOps r (o :: rest) = ((reqOp r o).1 ++ (reqOps (reqOp r o).2 rest).1, (reqOps (reqOp r o).2 rest).2) := by
      simp [reqOps]
    have e2 : Ws7F.runOps (cur r) (o :: rest) =
        ((Ws7F.runOp (cur r) o).1 ++ (Ws7F.runOps (Ws7F.runOp (cur r) o).2 rest).1, (Ws7F.runOps (Ws7F.runOp (cur r) o).2 rest).2) := by
      simp [Ws7F.runOps]
    rw [e1, e2]
    exact ⟨by simp only; rw [h1, h3], h4⟩

/-- **`wsgi_request_stream_refines_cursor`.** For every request (any environ, any `wsgi.input` contents and short-read pattern) and every history of
    read / readline / readlines / next with any sizes performed through `req.bounded_stream`: with `n` = the bound computed from the
    `CONTENT_LENGTH` text (`wsgi_bound_eq_declared`), the concatenated outputs are the next bytes of `body[:n]`, exactly the rest of `body[:n]`
    remains, the server's stream advanced by exactly the bytes returned (never past `n`), and the budget is `n - returned ≥ 0`. -/
theorem wsgi_request_stream_refines_cursor (r : WReq) (hfresh : r.bounded = none) (ops : List Ws7F.Op) :
    (reqOps r ops).1 = ((r.input.data.take (wsgiBound r.env).toNat).take (reqOps r ops).1.length) ∧
    Ws7F.absS (cur (reqOps r ops).2) = (r.input.data.take (wsgiBound r.env).toNat).drop (reqOps r ops).1.length ∧
    (cur (reqOps r ops).2).raw.data = r.input.data.drop (reqOps r ops).1.length ∧
    (cur (reqOps r ops).2).remaining = wsgiBound r.env - ((reqOps r ops).1.length : Int) ∧
    0 ≤ (cur (reqOps r ops).2).remaining ∧ ((reqOps r ops).1.length : Int) ≤ wsgiBound r.env := by
  obtain ⟨h1, h2⟩ := reqOps_eq ops r
  rw [h1, h2, cur_fresh r hfresh]
  have h0 : 0 ≤ (getWrappedWsgiInput r).remaining := wsgi_bound_nonneg r.env
  have h := Ws7F.history_refines_cursor ops (getWrappedWsgiInput r) h0
  exact ⟨h.out, h.rest, h.raw, h.rem, h.nonneg, by have := h.rem; have := h.nonneg; simp only [getWrappedWsgiInput] at *; omega⟩

/-- …stated from the header text: a `CONTENT_LENGTH` that declares `n` makes the request's stream a cursor over `body[:n]` -/
theorem wsgi_request_stream_from_header_text (r : WReq) (hfresh : r.bounded = none) (text : Str) (n : Nat)
    (htext : r.env.lookup clKey = some text) (hdecl : Declares isWsI text n) (ops : List Ws7F.Op) :
    (reqOps r ops).1 = ((r.input.data.take n).take (reqOps r ops).1.length) ∧
    Ws7F.absS (cur (reqOps r ops).2) = (r.input.data.take n).drop (reqOps r ops).1.length ∧
    (cur (reqOps r ops).2).raw.data = r.input.data.drop (reqOps r ops).1.length ∧
    (reqOps r ops).1.length ≤ n := by
  have hb : wsgiBound r.env = (n : Int) := (wsgi_bound_eq_declared r.env).2.1 text n htext hdecl
  have h := wsgi_request_stream_refines_cursor r hfresh ops
  rw [hb] at h
  simp only [Int.toNat_natCast] at h
  exact ⟨h.1, h.2.1, h.2.2.1, by have := h.2.2.2.2.2; omega⟩

/-- …and a missing / empty / unusable `CONTENT_LENGTH` declares no body: nothing is ever returned and `wsgi.input` is never advanced -/
theorem wsgi_request_stream_no_usable_length (r : WReq) (hfresh : r.bounded = none)
    (h : r.env.lookup clKey = none ∨ ∃ s, r.env.lookup clKey = some s ∧ ∀ n, ¬ Declares isWsI s n) (ops : List Ws7F.Op) :
    (reqOps r ops).1 = [] ∧ (cur (reqOps r ops).2).raw.data = r.input.data := by
  have hb : wsgiBound r.env = 0 := by
    rcases h with h | ⟨s, hs, hn⟩
    · exact (wsgi_bound_eq_declared r.env).2.2.1 h
    · exact (wsgi_bound_eq_declared r.env).2.2.2.2 s hs hn
  have hh := wsgi_request_stream_refines_cursor r hfresh ops
  rw [hb] at hh
  have hl : (reqOps r ops).1.length = 0 := by have := hh.2.2.2.2.2; omega
  have hnil : (reqOps r ops).1 = [] := List.eq_nil_of_length_eq_zero hl
  refine ⟨hnil, ?_⟩
  have := hh.2.2.1
  rw [hl] at this; simpa using this

/-- `req.bounded_stream.exhaust(chunk)` (what `get_media` does in its `finally`) after any history: discards a part of what was still
    declared and leaves nothing of it -/
def reqExhaust (r : WReq) (chunk : Int) : WReq := (withBounded r (fun s => ((), Ws7F.exhaust s chunk))).2

theorem wsgi_request_exhaust (r : WReq) (hfresh : r.bounded = none) (ops : List Ws7F.Op) (chunk : Int) (hch : 0 < chunk) :
    Ws7F.absS (cur (reqExhaust (reqOps r ops).2 chunk)) = [] ∧
    ∃ X, Ws7F.Step (cur (reqOps r ops).2) X (cur (reqExhaust (reqOps r ops).2 chunk)) := by
  have h0 := (wsgi_request_stream_refines_cursor r hfresh ops).2.2.2.2.1
  have hc : cur (reqExhaust (reqOps r ops).2 chunk) = Ws7F.exhaust (cur (reqOps r ops).2) chunk := by
    unfold reqExhaust withBounded cur
    cases hb : boundedStream (reqOps r ops).2 with
    | mk s r1 => simp [boundedStream]
  rw [hc]
  obtain ⟨hx, he⟩ := Ws7F.exhaust_step (cur (reqOps r ops).2) chunk hch h0
  exact ⟨he, hx⟩

/-! ### ASGI -/

/-- `await req.stream.<op>(…)` (the property is accessed again for every operation); `none` = the access raised -/
def areqOp (r : AReq) (o : AsF.Op) : Option AsF.Out × AReq := withStream r (fun s => AsF.runOp s o)

/-- a history through the request; an exception at the property access ends it (`none`) -/
def areqOps : AReq → List AsF.Op → Option AsF.Bytes × AReq
  | r, [] => (some [], r)
  | r, o :: os =>
    match areqOp r o with
    | (none, r) => (none, r)
    | (some out, r) =>
      match areqOps r os with
      | (none, r) => (none, r)
      | (some rest, r) => (some (AsF.outBytes out ++ rest), r)

/-- `s` is the stream object the next access of `req.stream` yields -/
def ACur (r : AReq) (s : AsF.S) : Prop :=
  r.isWebsocket = false ∧
  (r.cached = some s ∨ (r.cached = none ∧ ∃ cl, asgiBound r.headers = .bound cl ∧ s = AsF.init r.firstEvent cl r.events))

theorem stream_of_cur (r : AReq) (s : AsF.S) (h : ACur r s) :
    ∃ r1, stream r = (.stream s, r1) ∧ r1.cached = some s ∧ r1.isWebsocket = false := by
  obtain ⟨hws, hc | ⟨hc, cl, hb, hs⟩⟩ := h
  · exact ⟨r, by unfold stream; simp [hws, hc], hc, hws⟩
  · exact ⟨{ r with cached := some s }, by unfold stream; simp [hws, hc, hb, hs], rfl, hws⟩

theorem areqOp_eq (r : AReq) (s : AsF.S) (o : AsF.Op) (h : ACur r s) :
    (areqOp r o).1 = some (AsF.runOp s o).1 ∧ ACur (areqOp r o).2 (AsF.runOp s o).2 := by
  obtain ⟨r1, hst, _, hws⟩ := stream_of_cur r s h
  unfold areqOp withStream
  rw [hst]
  exact ⟨rfl, hws, Or.inl rfl⟩

theorem areqOps_eq (ops : List AsF.Op) : ∀ (r : AReq) (s : AsF.S), ACur r s →
    (areqOps r ops).1 = some (AsF.runOps s ops).1 ∧ ACur (areqOps r ops).2 (AsF.runOps s ops).2 := by
  induction ops with
  | nil => intro r s h; exact ⟨rfl, h⟩
  | cons o os ih =>
    intro r s h
    obtain ⟨h1, h2⟩ := areqOp_eq r s o h
    obtain ⟨h3, h4⟩ := ih _ _ h2
    have e2 : AsF.runOps s (o :: os) =
        (AsF.outBytes (AsF.runOp s o).1 ++ (AsF.runOps (AsF.runOp s o).2 os).1, (AsF.runOps (AsF.runOp s o).2 os).2) := by
      simp [AsF.runOps]
    rw [e2]
    cases ha : areqOp r o with
    | mk oa ra =>
      rw [ha] at h1 h3 h4
      simp only at h1 h3 h4
      subst h1
      cases hb : areqOps ra os with
      | mk ob rb =>
        rw [hb] at h3 h4
        simp only at h3 h4
        subst h3
        simp only [areqOps, ha, hb]
        exact ⟨by first | rfl | trivial, h4⟩

/-- what a freshly built ASGI stream declares: with a length `n`, the first `n` bytes of everything the server will deliver (first event
    included) up to its final event / a disconnect -/
theorem absS_init_some (first : Option AsF.Event) (n : Nat) (events : List AsF.Event) :
    AsF.absS (AsF.init first (some n) events) = (AsF.future (first.toList ++ events)).take n := by
  unfold AsF.absS AsF.init
  cases first with
  | none => simp
  | some ev =>
    cases ev with
    | disconnect => simp [AsF.future, AsF.moreOf]
    | request body more =>
      have hm : AsF.moreOf (.request body more) = (more == some true) := by
        cases more with
        | none => rfl
        | some b => cases b <;> rfl
      simp only [hm, Option.toList, List.cons_append, List.nil_append, AsF.future]
      cases body with
      | none =>
        by_cases hmore : (more == some true) = true
        · simp [hmore]
        · simp [hmore]
      | some b =>
        by_cases hmore : (more == some true) = true
        · simp only [hmore, Bool.not_true, Bool.and_false, Bool.false_eq_true, if_false, if_true, Option.getD_some]
          rw [List.take_append, List.length_take]
          congr 2; omega
        · simp only [hmore, Bool.not_false, Bool.and_true, Bool.false_eq_true, if_false, Option.getD_some, List.append_nil]
          split <;> simp_all

/-- …without a length, the first chunk and whatever follows up to the final event (the stream's budget is 2^63 bytes) -/
theorem absS_init_none (first : Option AsF.Event) (events : List AsF.Event) (hlen : (AsF.future events).length ≤ AsF.big) :
    AsF.absS (AsF.init first none events) = AsF.future (first.toList ++ events) := by
  have htake : (AsF.future events).take AsF.big = AsF.future events := List.take_of_length_le hlen
  have hbig : (AsF.big != 0) = true := by decide
  unfold AsF.absS AsF.init
  cases first with
  | none => simpa using htake
  | some ev =>
    cases ev with
    | disconnect => simp [AsF.future, AsF.moreOf]
    | request body more =>
      have hm : AsF.moreOf (.request body more) = (more == some true) := by
        cases more with
        | none => rfl
        | some b => cases b <;> rfl
      simp only [hm, hbig, Option.toList, List.cons_append, List.nil_append, AsF.future]
      cases body with
      | none =>
        by_cases hmore : (more == some true) = true
        · simp [hmore, htake]
        · simp [hmore]
      | some b =>
        by_cases hmore : (more == some true) = true
        · simp [hmore, htake]
        · simp [hmore]

/-- **`asgi_request_history`** (core): for a fresh non-WebSocket request whose header gives the bound `cl` and whose events still to come contain
    the end of the body, ANY history through `req.stream` is `AsF.history_refines` on `BoundedStream(receive, first_event, cl)`. -/
theorem asgi_request_history (r : AReq) (hws : r.isWebsocket = false) (hfresh : r.cached = none)
    (cl : Option Nat) (hb : asgiBound r.headers = .bound cl) (hcomplete : AsF.complete r.events = true) (ops : List AsF.Op) :
    ∃ out s', (areqOps r ops).1 = some out ∧ ACur (areqOps r ops).2 s' ∧ AsF.Good s' ∧
      ∃ c, c ++ AsF.absS s' = AsF.absS (AsF.init r.firstEvent cl r.events) ∧ s'.pos = c.length ∧
        (∃ t, out ++ t = c) ∧ ((∀ o ∈ ops, AsF.isExhaust o = false) → out = c) := by
  have hcur : ACur r (AsF.init r.firstEvent cl r.events) := ⟨hws, Or.inr ⟨hfresh, cl, hb, rfl⟩⟩
  obtain ⟨h1, h2⟩ := areqOps_eq ops r _ hcur
  obtain ⟨hg, c, hc, hp, ht, hall⟩ := AsF.history_refines ops _ (AsF.good_init r.firstEvent cl r.events hcomplete)
  refine ⟨_, _, h1, h2, hg, c, hc, ?_, ht, hall⟩
  rw [hp]; simp [AsF.init]

/-- **`asgi_request_stream_refines_cursor`.** A `content-length` text that declares `n` (`asgi_bound`) makes the stream obtained through the request a
    cursor over `body[:n]`, `body` = all bytes the server delivers (first event included) up to its final event / a disconnect: after ANY history of
    read(k) / read() / readall() / exhaust() / abandoned iteration, consumed ++ still-to-come = `body[:n]`, `tell()` = |consumed|, the bytes handed
    to the app are a prefix of consumed (all of it without exhaust), no access raised and no operation blocked. -/
theorem asgi_request_stream_refines_cursor (r : AReq) (hws : r.isWebsocket = false) (hfresh : r.cached = none)
    (text : Str) (n : Nat) (htext : r.headers.lookup clName = some text) (hdecl : Declares isWsB text n)
    (hcomplete : AsF.complete r.events = true) (ops : List AsF.Op) :
    ∃ out s', (areqOps r ops).1 = some out ∧ ACur (areqOps r ops).2 s' ∧ AsF.Good s' ∧
      ∃ c, c ++ AsF.absS s' = (AsF.future (r.firstEvent.toList ++ r.events)).take n ∧ s'.pos = c.length ∧
        (∃ t, out ++ t = c) ∧ ((∀ o ∈ ops, AsF.isExhaust o = false) → out = c) := by
  have hb := (asgi_bound r.headers).2.1 text n htext hdecl
  have h := asgi_request_history r hws hfresh (some n) hb hcomplete ops
  rw [absS_init_some] at h
  exact h

/-- no `content-length` header (or an empty one): the cursor is over the whole body up to the final event (bodies below 2^63 bytes) -/
theorem asgi_request_stream_unbounded (r : AReq) (hws : r.isWebsocket = false) (hfresh : r.cached = none)
    (hmissing : r.headers.lookup clName = none ∨ r.headers.lookup clName = some [])
    (hcomplete : AsF.complete r.events = true) (hlen : (AsF.future r.events).length ≤ AsF.big) (ops : List AsF.Op) :
    ∃ out s', (areqOps r ops).1 = some out ∧ ACur (areqOps r ops).2 s' ∧ AsF.Good s' ∧
      ∃ c, c ++ AsF.absS s' = AsF.future (r.firstEvent.toList ++ r.events) ∧ s'.pos = c.length ∧
        (∃ t, out ++ t = c) ∧ ((∀ o ∈ ops, AsF.isExhaust o = false) → out = c) := by
  have hb := (asgi_bound r.headers).1 hmissing
  have h := asgi_request_history r hws hfresh none hb hcomplete ops
  rw [absS_init_none _ _ hlen] at h
  exact h

/-- an unusable `content-length`: the first access of `req.stream` raises the 400-class error, whatever the operation; no stream exists, no event
    was received, nothing was read -/
theorem asgi_request_stream_invalid (r : AReq) (hws : r.isWebsocket = false) (hfresh : r.cached = none)
    (hbad : asgiBound r.headers = .invalidHeader) (o : AsF.Op) (os : List AsF.Op) :
    areqOps r (o :: os) = (none, r) ∧ (stream r).1 = .invalidHeader := by
  have hst := (asgi_stream_access r hws hfresh).1 hbad
  have : areqOp r o = (none, r) := by unfold areqOp withStream; rw [hst]
  simp only [areqOps, this]
  rw [hst]; exact ⟨by first | rfl | trivial, by first | rfl | trivial⟩


/-! ## non-vacuity: concrete requests on which the hypotheses hold and the models compute -/

-- the liberal spellings `int()` accepts, and what does not declare a length
example : Declares isWsI " +1_0 ".toList 10 :=
  ⟨[' '], ['+'], "1_0".toList, "10".toList, [' '], by decide, by simp [allW]; decide, by simp [allW]; decide,
   .more ['1'] ['0'] ['0'] (by simp [allDigits]) (by simp) (.one ['0'] (by simp [allDigits]) (by simp)), by decide, Or.inr (Or.inl rfl)⟩
example : wsgiBound [("CONTENT_LENGTH".toList, " +1_0 ".toList)] = 10 := by decide
example : wsgiBound [("CONTENT_LENGTH".toList, "007".toList)] = 7 := by decide
example : wsgiBound [("HTTP_X_CONTENT_LENGTH".toList, "999".toList), ("CONTENT_LENGTH".toList, "5".toList), ("HTTP_TRANSFER_ENCODING".toList, "chunked".toList)] = 5 := by decide
example : wsgiBound [("CONTENT_LENGTH".toList, "-5".toList)] = 0 := by decide
example : wsgiBound [("CONTENT_LENGTH".toList, "-0".toList)] = 0 := by decide
example : wsgiBound [("CONTENT_LENGTH".toList, "5, 5".toList)] = 0 := by decide
example : wsgiBound [("CONTENT_LENGTH".toList, "0x10".toList)] = 0 := by decide
example : wsgiBound [("CONTENT_LENGTH".toList, "1__0".toList)] = 0 := by decide
example : wsgiBound [("CONTENT_LENGTH".toList, [])] = 0 := by decide
example : wsgiBound [("HTTP_X_CONTENT_LENGTH".toList, "999".toList)] = 0 := by decide
-- ASGI: last `content-length` wins, other headers are joined but irrelevant; an unusable text is the 400, an empty one is "no length"
example : asgiBound (buildHeaders [("content-length".toList, "3".toList), ("x-content-length".toList, "999".toList), ("te".toList, "a".toList),
    ("te".toList, "b".toList), ("content-length".toList, " 5\t".toList)]) = .bound (some 5) := by decide
example : (buildHeaders [("te".toList, "a".toList), ("te".toList, "b".toList)]).lookup "te".toList = some "a,b".toList := by decide
example : asgiBound (buildHeaders [("x-content-length".toList, "999".toList)]) = .bound none := by decide
example : asgiBound (buildHeaders [("content-length".toList, [])]) = .bound none := by decide
example : asgiBound (buildHeaders [("content-length".toList, "-5".toList)]) = .invalidHeader := by decide
example : asgiBound (buildHeaders [("content-length".toList, "5;q=1".toList)]) = .invalidHeader := by decide
example : asgiBound (buildHeaders [("content-length".toList, "\x1c5".toList)]) = .invalidHeader := by decide      -- `int(b'\x1c5')` fails…
example : wsgiBound [("CONTENT_LENGTH".toList, "\x0b5\x0c".toList)] = 5 := by decide                                -- …`int('\x0b5\x0c')` is 5

-- WSGI end to end: `CONTENT_LENGTH: 4`, ten bytes on the wire ("a\nb\nEXTRA\n"); three `next()` through the request return "a\nb\n" and stop
example :
    let r : WReq := { env := [("REQUEST_METHOD".toList, "POST".toList), ("CONTENT_LENGTH".toList, "4".toList)],
                      input := { data := [97, 10, 98, 10, 69, 88, 84, 82, 65, 10] } }
    r.bounded = none ∧ (reqOps r [.next, .next, .next]).1 = [97, 10, 98, 10] ∧
    (cur (reqOps r [.next, .next, .next]).2).raw.data = [69, 88, 84, 82, 65, 10] ∧ (cur (reqOps r [.read none, .read (some 2)]).2).remaining = 0 := by decide
-- …and with an unusable length nothing is handed out
example :
    let r : WReq := { env := [("CONTENT_LENGTH".toList, "-5".toList)], input := { data := [97, 10, 98, 10] } }
    (reqOps r [.read none, .next, .readline (some (-1))]).1 = [] := by decide

-- ASGI end to end: `content-length: 5`, the server sends "abc" (more) then "defgh" (final, oversized): read(2); one iteration chunk; readall
example :
    let r := mkAReq [("content-type".toList, "text/plain".toList), ("content-length".toList, "5".toList)] false
      (some (.request (some [97, 98, 99]) (some true))) [.request (some [100, 101, 102, 103, 104]) none]
    r.isWebsocket = false ∧ r.cached = none ∧ AsF.complete r.events = true ∧ r.headers.lookup clName = some "5".toList ∧
    (areqOps r [.read 2, .iterate 1, .readAll]).1 = some [97, 98, 99, 100, 101] := by decide
example :
    let r := mkAReq [("content-length".toList, "five".toList)] false none [.request (some [100]) none]
    (areqOps r [.readAll]).1 = none ∧ (areqOps r [.readAll]).2.events = [.request (some [100]) none] := by
  refine ⟨by decide, ?_⟩
  rfl
example : (stream (mkAReq [] true none [])).1 = .unsupported := by rfl

#print axioms wsgi_bound_eq_declared
#print axioms asgi_bound
#print axioms wsgi_request_stream_refines_cursor
#print axioms asgi_request_stream_refines_cursor
#print axioms asgi_accompanying_headers_irrelevant
end Sg

import FalconModel.Getters
import FalconModel.QueryRef
/-! C08: `falcon.util.misc.to_query_str` (model `Gt.toQueryStr`) and the parser are inverse to each other on well-formed
    mappings: `parse_toQueryStr`.  Everything is on UTF-8 bytes, like the parser model; the parsed names and values are the
    `bytes.decode('utf-8', 'replace')` of the rendered ones (for a Python `str`, whose bytes are valid UTF-8, that is the
    string itself). -/
namespace Gt
open Qs (Bytes Str Val Params splitOn partitionEq decodeStr fieldEntry entries Entry keysOf valOf refOf parseQS parseRef)
open Uri (encodeValue)

/-! ### the rendering as a list of `name=value` fields, each followed by '&' -/

/-- the fields one item of the mapping renders to -/
def fieldsOf (cdl : Bool) (kv : Bytes × BVal) : List Bytes :=
  match kv.2 with
  | .one v => [encodeValue kv.1 ++ 61 :: encodeValue v]
  | .many vs =>
    if cdl then [encodeValue kv.1 ++ 61 :: joinComma (vs.map encodeValue)]
    else vs.map fun lv => encodeValue kv.1 ++ 61 :: encodeValue lv

def joinAmp (fs : List Bytes) : Bytes := fs.flatMap (· ++ [38])

theorem joinAmp_append (a b : List Bytes) : joinAmp (a ++ b) = joinAmp a ++ joinAmp b := by
  unfold joinAmp; exact List.flatMap_append

theorem foldl_fields (F : Bytes → Bytes) : ∀ (vs : List Bytes) (q : Bytes),
    vs.foldl (fun q lv => q ++ (F lv ++ [38])) q = q ++ joinAmp (vs.map F)
  | [], q => by simp [joinAmp]
  | v :: r, q => by
    simp only [List.foldl_cons, List.map_cons]
    rw [foldl_fields F r]
    simp [joinAmp, List.append_assoc]

theorem renderItem_eq (cdl : Bool) (q : Bytes) (kv : Bytes × BVal) :
    renderItem cdl q kv = q ++ joinAmp (fieldsOf cdl kv) := by
  unfold renderItem fieldsOf
  cases kv.2 with
  | one v => simp [joinAmp]
  | many vs =>
    cases cdl with
    | true => simp [joinAmp]
    | false =>
      simp only [Bool.false_eq_true, if_false]
      have := foldl_fields (fun lv => encodeValue kv.1 ++ 61 :: encodeValue lv) vs q
      simp only [List.cons_append, List.append_assoc] at this ⊢
      exact this

theorem foldl_render (cdl : Bool) : ∀ (m : List (Bytes × BVal)) (q : Bytes),
    m.foldl (renderItem cdl) q = q ++ joinAmp (m.flatMap (fieldsOf cdl))
  | [], q => by simp [joinAmp]
  | kv :: r, q => by
    simp only [List.foldl_cons, List.flatMap_cons]
    rw [renderItem_eq, foldl_render cdl r, joinAmp_append, List.append_assoc]

/-- `to_query_str(m, comma_delimited_lists=cdl, prefix=False)` is the '&'-join of the fields -/
theorem toQueryStr_eq (m : List (Bytes × BVal)) (cdl : Bool) :
    toQueryStr m cdl false = (joinAmp (m.flatMap (fieldsOf cdl))).dropLast := by
  unfold toQueryStr
  cases m with
  | nil => rfl
  | cons kv r => simp [foldl_render, renderItem_eq, joinAmp_append]

/-- `prefix=True` only puts a '?' in front (when anything is rendered at all) -/
theorem toQueryStr_prefix (m : List (Bytes × BVal)) (cdl : Bool) (h : m.flatMap (fieldsOf cdl) ≠ []) :
    toQueryStr m cdl true = 63 :: toQueryStr m cdl false := by
  rw [toQueryStr_eq]
  unfold toQueryStr
  cases m with
  | nil => exact absurd rfl h
  | cons kv r =>
    have hne : joinAmp ((kv :: r).flatMap (fieldsOf cdl)) ≠ [] := by
      cases hf : (kv :: r).flatMap (fieldsOf cdl) with
      | nil => exact absurd hf h
      | cons f fs => simp [joinAmp]
    simp only [List.isEmpty_cons, Bool.false_eq_true, if_false, if_true, foldl_render]
    rw [List.dropLast_append_of_ne_nil hne]; rfl

/-! ### splitting a join gives the parts back -/
theorem splitOn_prefix (sep : UInt8) : ∀ (f X : Bytes), (∀ c ∈ f, c ≠ sep) → splitOn sep (f ++ sep :: X) = f :: splitOn sep X
  | [], X, _ => by simp [splitOn]
  | c :: f, X, h => by
    have hc : (c == sep) = false := by simpa using h c (by simp)
    simp only [List.cons_append]
    rw [splitOn, splitOn_prefix sep f X (fun x hx => h x (by simp [hx]))]
    simp [hc]

theorem joinAmp_ne_nil (f : Bytes) (r : List Bytes) : joinAmp (f :: r) ≠ [] := by
  simp [joinAmp]

theorem splitOn_joinAmp : ∀ (fs : List Bytes), fs ≠ [] → (∀ f ∈ fs, ∀ c ∈ f, c ≠ 38) →
    splitOn 38 (joinAmp fs).dropLast = fs
  | [], h, _ => absurd rfl h
  | [f], _, h => by
    have : (joinAmp [f]).dropLast = f := by simp [joinAmp]
    rw [this]; exact Qs.splitOn_no_sep 38 f (h f (by simp))
  | f :: g :: r, _, h => by
    have hj : joinAmp (f :: g :: r) = (f ++ [38]) ++ joinAmp (g :: r) := by simp [joinAmp]
    rw [hj, List.dropLast_append_of_ne_nil (joinAmp_ne_nil g r)]
    simp only [List.append_assoc, List.singleton_append]
    rw [splitOn_prefix 38 f _ (h f (by simp)), splitOn_joinAmp (g :: r) (by simp) (fun x hx => h x (by simp [hx]))]

theorem splitOn_joinComma : ∀ (ps : List Bytes), ps ≠ [] → (∀ p ∈ ps, ∀ c ∈ p, c ≠ 44) → splitOn 44 (joinComma ps) = ps
  | [], h, _ => absurd rfl h
  | [p], _, h => by simp only [joinComma]; exact Qs.splitOn_no_sep 44 p (h p (by simp))
  | p :: q :: r, _, h => by
    simp only [joinComma]
    rw [splitOn_prefix 44 p _ (h p (by simp))]
    rw [splitOn_joinComma (q :: r) (by simp) (fun x hx => h x (by simp [hx]))]

theorem joinComma_has_comma (p q : Bytes) (r : List Bytes) : (44 : UInt8) ∈ joinComma (p :: q :: r) := by
  simp [joinComma]

/-! ### what the parser reads from each rendered field -/
theorem enc_no38 (x : Bytes) : ∀ c ∈ encodeValue x, c ≠ 38 := Qs.encodeValue_no x 38 (by decide) (by decide) (by decide)
theorem enc_no61 (x : Bytes) : ∀ c ∈ encodeValue x, c ≠ 61 := Qs.encodeValue_no x 61 (by decide) (by decide) (by decide)
theorem enc_no44 (x : Bytes) : ∀ c ∈ encodeValue x, c ≠ 44 := Qs.encodeValue_no x 44 (by decide) (by decide) (by decide)

theorem enc_isEmpty (x : Bytes) : (encodeValue x).isEmpty = x.isEmpty := by
  cases x with
  | nil => rfl
  | cons c r =>
    have := Qs.encodeValue_ne_nil (c :: r) (by simp)
    cases h : encodeValue (c :: r) with
    | nil => exact absurd h this
    | cons _ _ => rfl

/-- a scalar `name=value` field, unless it is blank and dropped -/
theorem fieldEntry_pair (kb csv : Bool) (k v : Bytes) (h : v ≠ [] ∨ (kb = true ∧ k ≠ [])) :
    fieldEntry kb csv (encodeValue k ++ 61 :: encodeValue v) = some ⟨U8.decodeReplace k, [U8.decodeReplace v], false⟩ := by
  unfold fieldEntry
  rw [Qs.partitionEq_first _ _ (enc_no61 k)]
  have hblank : ((encodeValue v).isEmpty && (!kb || (encodeValue k).isEmpty)) = false := by
    rw [enc_isEmpty, enc_isEmpty]
    rcases h with h | ⟨h1, h2⟩
    · cases v with
      | nil => exact absurd rfl h
      | cons _ _ => rfl
    · subst h1
      cases k with
      | nil => exact absurd rfl h2
      | cons _ _ => simp
  have hcomma : (csv && (encodeValue v).contains 44) = false := by
    have : (encodeValue v).contains 44 = false := by
      simp only [List.contains_eq_mem, decide_eq_false_iff_not]
      exact fun hm => enc_no44 v 44 hm rfl
    rw [this]; simp
  simp only [hblank, hcomma, Bool.false_eq_true, if_false, Qs.decodeStr_encodeValue]

/-- a comma-delimited list field, read with CSV parsing on -/
theorem fieldEntry_csv (kb : Bool) (k : Bytes) (vs : List Bytes) (hlen : 2 ≤ vs.length) (hne : kb = false → ∀ v ∈ vs, v ≠ []) :
    fieldEntry kb true (encodeValue k ++ 61 :: joinComma (vs.map encodeValue)) =
      some ⟨U8.decodeReplace k, vs.map U8.decodeReplace, true⟩ := by
  unfold fieldEntry
  rw [Qs.partitionEq_first _ _ (enc_no61 k)]
  obtain ⟨a, b, r, rfl⟩ : ∃ a b r, vs = a :: b :: r := by
    match vs, hlen with
    | a :: b :: r, _ => exact ⟨a, b, r, rfl⟩
  have hmem : (44 : UInt8) ∈ joinComma ((a :: b :: r).map encodeValue) := by
    simp only [List.map_cons]; exact joinComma_has_comma _ _ _
  have hcont : (joinComma ((a :: b :: r).map encodeValue)).contains 44 = true := by simpa using hmem
  have hnotempty : (joinComma ((a :: b :: r).map encodeValue)).isEmpty = false := by
    cases hj : joinComma ((a :: b :: r).map encodeValue) with
    | nil => rw [hj] at hmem; simp at hmem
    | cons _ _ => rfl
  have hsplit : splitOn 44 (joinComma ((a :: b :: r).map encodeValue)) = (a :: b :: r).map encodeValue := by
    apply splitOn_joinComma _ (by simp)
    intro p hp
    obtain ⟨x, _, rfl⟩ := List.mem_map.1 hp
    exact enc_no44 x
  simp only [hnotempty, hcont, Bool.false_and, Bool.and_self, Bool.false_eq_true, if_false, if_true, hsplit]
  have hfilter : (if (!kb) = true then ((a :: b :: r).map encodeValue).filter (fun x => !x.isEmpty) else (a :: b :: r).map encodeValue)
      = (a :: b :: r).map encodeValue := by
    cases kb with
    | true => rfl
    | false =>
      simp only [Bool.not_false, if_true]
      rw [List.filter_eq_self]
      intro p hp
      obtain ⟨x, hx, rfl⟩ := List.mem_map.1 hp
      rw [enc_isEmpty]
      have := hne rfl x hx
      cases x with
      | nil => exact absurd rfl this
      | cons _ _ => rfl
  rw [hfilter, List.map_map, Qs.decodeStr_encodeValue]
  congr 2
  apply List.map_congr_left
  intro x _
  exact Qs.decodeStr_encodeValue x

/-! ### the mapping the round trip is about, and its side conditions -/
abbrev dec := U8.decodeReplace

def decV : BVal → Val
  | .one v => .one (dec v)
  | .many vs => .many (vs.map dec)

/-- the parsed counterpart of a mapping of byte strings -/
def decMap (m : List (Bytes × BVal)) : Params := m.map fun kv => (dec kv.1, decV kv.2)

def valuesOf : BVal → List Bytes
  | .one v => [v]
  | .many vs => vs

/-- a list has at least two elements (a list of one comes back as a scalar, an empty list vanishes) -/
def listOk : BVal → Prop
  | .one _ => True
  | .many vs => 2 ≤ vs.length
instance (v : BVal) : Decidable (listOk v) :=
  match v with
  | .one _ => inferInstanceAs (Decidable True)
  | .many vs => inferInstanceAs (Decidable (2 ≤ vs.length))

/-- one item survives the round trip: no (name, value) pair with both empty — and no empty value at all unless blank
    values are kept —, and a list has at least two elements -/
def ItemOk (kb : Bool) (kv : Bytes × BVal) : Prop :=
  (∀ x ∈ valuesOf kv.2, x ≠ [] ∨ (kb = true ∧ kv.1 ≠ [])) ∧ listOk kv.2
instance (kb : Bool) (kv : Bytes × BVal) : Decidable (ItemOk kb kv) := inferInstanceAs (Decidable (_ ∧ _))

/-- the side conditions of the round trip: names distinct (as text), every item `ItemOk`, and comma-delimited
    rendering only together with CSV parsing -/
structure WFmap (m : List (Bytes × BVal)) (kb csv cdl : Bool) : Prop where
  keys_nodup : (m.map fun kv => dec kv.1).Nodup
  items : ∀ kv ∈ m, ItemOk kb kv
  cdl_csv : cdl = true → csv = true

instance (m : List (Bytes × BVal)) (kb csv cdl : Bool) : Decidable (WFmap m kb csv cdl) :=
  decidable_of_iff ((m.map fun kv => dec kv.1).Nodup ∧ (∀ kv ∈ m, ItemOk kb kv) ∧ (cdl = true → csv = true))
    ⟨fun h => ⟨h.1, h.2.1, h.2.2⟩, fun h => ⟨h.keys_nodup, h.items, h.cdl_csv⟩⟩

/-- the reference entries one item contributes -/
def entriesOf (cdl : Bool) (kv : Bytes × BVal) : List Entry :=
  match kv.2 with
  | .one v => [⟨dec kv.1, [dec v], false⟩]
  | .many vs =>
    if cdl then [⟨dec kv.1, vs.map dec, true⟩]
    else vs.map fun lv => ⟨dec kv.1, [dec lv], false⟩

theorem filterMap_fields (kb csv cdl : Bool) (kv : Bytes × BVal) (hok : ItemOk kb kv) (hc : cdl = true → csv = true) :
    (fieldsOf cdl kv).filterMap (fieldEntry kb csv) = entriesOf cdl kv := by
  obtain ⟨k, v⟩ := kv
  unfold fieldsOf entriesOf
  cases v with
  | one v =>
    simp only [List.filterMap_cons, List.filterMap_nil]
    rw [fieldEntry_pair kb csv k v (hok.1 v (by simp [valuesOf]))]
  | many vs =>
    cases cdl with
    | true =>
      have hcsv := hc rfl; subst hcsv
      simp only [if_true, List.filterMap_cons, List.filterMap_nil]
      rw [fieldEntry_csv kb k vs ((hok.2 : 2 ≤ vs.length))]
      intro hkb x hx
      rcases hok.1 x (by simpa [valuesOf] using hx) with h | ⟨h, _⟩
      · exact h
      · rw [hkb] at h; cases h
    | false =>
      simp only [Bool.false_eq_true, if_false]
      have : ∀ (l : List Bytes), (∀ x ∈ l, x ≠ [] ∨ (kb = true ∧ k ≠ [])) →
          (l.map fun lv => encodeValue k ++ 61 :: encodeValue lv).filterMap (fieldEntry kb csv) =
            l.map fun lv => (⟨dec k, [dec lv], false⟩ : Entry) := by
        intro l
        induction l with
        | nil => intro _; rfl
        | cons x r ih =>
          intro h
          simp only [List.map_cons, List.filterMap_cons]
          rw [fieldEntry_pair kb csv k x (h x (by simp)), ih (fun y hy => h y (by simp [hy]))]
      exact this vs (fun x hx => hok.1 x (by simpa [valuesOf] using hx))

theorem entries_rendered (kb csv cdl : Bool) : ∀ (m : List (Bytes × BVal)), (∀ kv ∈ m, ItemOk kb kv) → (cdl = true → csv = true) →
    (m.flatMap (fieldsOf cdl)).filterMap (fieldEntry kb csv) = m.flatMap (entriesOf cdl)
  | [], _, _ => rfl
  | kv :: r, h, hc => by
    simp only [List.flatMap_cons, List.filterMap_append]
    rw [filterMap_fields kb csv cdl kv (h kv (by simp)) hc, entries_rendered kb csv cdl r (fun x hx => h x (by simp [hx])) hc]

theorem fieldsOf_ne_nil (kb cdl : Bool) (kv : Bytes × BVal) (hok : ItemOk kb kv) : fieldsOf cdl kv ≠ [] := by
  obtain ⟨k, v⟩ := kv
  unfold fieldsOf
  cases v with
  | one v => simp
  | many vs =>
    have : 2 ≤ vs.length := hok.2
    cases cdl with
    | true => simp
    | false =>
      cases vs with
      | nil => simp at this
      | cons _ _ => simp

theorem fieldsOf_no38 (cdl : Bool) (kv : Bytes × BVal) : ∀ f ∈ fieldsOf cdl kv, ∀ c ∈ f, c ≠ 38 := by
  obtain ⟨k, v⟩ := kv
  have hpair : ∀ (x : Bytes) (c : UInt8), c ∈ encodeValue k ++ 61 :: encodeValue x → c ≠ 38 := by
    intro x c hc
    rcases List.mem_append.1 hc with h | h
    · exact enc_no38 k c h
    · rcases List.mem_cons.1 h with rfl | h
      · decide
      · exact enc_no38 x c h
  have hjoin : ∀ (l : List Bytes) (c : UInt8), c ∈ joinComma (l.map encodeValue) → c ≠ 38 := by
    intro l
    induction l with
    | nil => intro c hc; simp [joinComma] at hc
    | cons x r ih =>
      intro c hc
      cases r with
      | nil => simp only [List.map_cons, List.map_nil, joinComma] at hc; exact enc_no38 x c hc
      | cons y r' =>
        simp only [List.map_cons, joinComma] at hc
        rcases List.mem_append.1 hc with h | h
        · exact enc_no38 x c h
        · rcases List.mem_cons.1 h with rfl | h
          · decide
          · exact ih c (by simpa [joinComma] using h)
  unfold fieldsOf
  cases v with
  | one v => intro f hf c hc; simp only [List.mem_singleton] at hf; subst hf; exact hpair v c hc
  | many vs =>
    cases cdl with
    | true =>
      intro f hf c hc
      simp only [if_true, List.mem_singleton] at hf; subst hf
      rcases List.mem_append.1 hc with h | h
      · exact enc_no38 k c h
      · rcases List.mem_cons.1 h with rfl | h
        · decide
        · exact hjoin vs c h
    | false =>
      intro f hf c hc
      simp only [Bool.false_eq_true, if_false, List.mem_map] at hf
      obtain ⟨x, _, rfl⟩ := hf
      exact hpair x c hc

/-! ### grouping the entries back into the mapping -/
theorem keysOf_block : ∀ (block rest : List Entry) (K : Str), block ≠ [] → (∀ e ∈ block, e.key = K) → K ∉ keysOf rest →
    keysOf (block ++ rest) = K :: keysOf rest
  | [], _, _, h, _, _ => absurd rfl h
  | [e], rest, K, _, hk, hf => by
    have : e.key = K := hk e (by simp)
    simp only [List.singleton_append, keysOf, this]
    congr 1
    rw [List.filter_eq_self]
    intro x hx
    simp only [bne_iff_ne, ne_eq]
    intro h; exact hf (h ▸ hx)
  | e :: e' :: b, rest, K, _, hk, hf => by
    have he : e.key = K := hk e (by simp)
    have ih := keysOf_block (e' :: b) rest K (by simp) (fun x hx => hk x (by simp [hx])) hf
    simp only [List.cons_append, keysOf] at ih ⊢
    rw [ih, he]
    simp only [List.filter_cons, bne_self_eq_false, Bool.false_eq_true, if_false]
    congr 1
    rw [List.filter_eq_self]
    intro x hx
    simp only [bne_iff_ne, ne_eq]
    intro h; exact hf (h ▸ hx)

theorem filter_rest_nil (rest : List Entry) (K : Str) (hf : K ∉ keysOf rest) : rest.filter (·.key == K) = [] := by
  rw [List.filter_eq_nil_iff]
  intro e he hk
  exact hf ((Qs.mem_keysOf rest K).2 ⟨e, he, by simpa using hk⟩)

theorem valOf_block_self (block rest : List Entry) (K : Str) (hf : K ∉ keysOf rest) :
    valOf (block ++ rest) K = valOf block K := by
  unfold valOf
  rw [List.filter_append, filter_rest_nil rest K hf, List.append_nil]

theorem valOf_block_other (block rest : List Entry) (K k : Str) (hk : ∀ e ∈ block, e.key = K) (hne : k ≠ K) :
    valOf (block ++ rest) k = valOf rest k := by
  unfold valOf
  have : block.filter (·.key == k) = [] := by
    rw [List.filter_eq_nil_iff]
    intro e he h
    have := hk e he
    simp only [beq_iff_eq] at h
    exact hne (h.symm.trans this)
  rw [List.filter_append, this, List.nil_append]

theorem refOf_block (block rest : List Entry) (K : Str) (hne : block ≠ []) (hk : ∀ e ∈ block, e.key = K) (hf : K ∉ keysOf rest) :
    refOf (block ++ rest) = (K, valOf block K) :: refOf rest := by
  unfold refOf
  rw [keysOf_block block rest K hne hk hf]
  simp only [List.map_cons, valOf_block_self block rest K hf]
  congr 1
  apply List.map_congr_left
  intro k hkm
  have : k ≠ K := fun h => hf (h ▸ hkm)
  rw [valOf_block_other block rest K k hk this]

theorem entriesOf_key (cdl : Bool) (kv : Bytes × BVal) : ∀ e ∈ entriesOf cdl kv, e.key = dec kv.1 := by
  obtain ⟨k, v⟩ := kv
  unfold entriesOf
  cases v with
  | one v => intro e he; simp only [List.mem_singleton] at he; subst he; rfl
  | many vs =>
    cases cdl with
    | true => intro e he; simp only [if_true, List.mem_singleton] at he; subst he; rfl
    | false =>
      intro e he
      simp only [Bool.false_eq_true, if_false, List.mem_map] at he
      obtain ⟨x, _, rfl⟩ := he; rfl

theorem flatMap_vals_map (K : Str) : ∀ (r : List Bytes),
    (r.map fun lv => (⟨K, [dec lv], false⟩ : Entry)).flatMap (·.vals) = r.map dec
  | [] => rfl
  | x :: r => by simp only [List.map_cons, List.flatMap_cons, List.singleton_append]; rw [flatMap_vals_map K r]

theorem filter_all (l : List Entry) (K : Str) (h : ∀ e ∈ l, e.key = K) : l.filter (·.key == K) = l := by
  rw [List.filter_eq_self]; intro e he; simp [h e he]

theorem valOf_entriesOf (kb cdl : Bool) (kv : Bytes × BVal) (hok : ItemOk kb kv) :
    valOf (entriesOf cdl kv) (dec kv.1) = decV kv.2 := by
  have hkey := entriesOf_key cdl kv
  unfold valOf
  rw [filter_all _ _ hkey]
  obtain ⟨k, v⟩ := kv
  unfold entriesOf decV
  cases v with
  | one v => rfl
  | many vs =>
    cases cdl with
    | true => rfl
    | false =>
      simp only [Bool.false_eq_true, if_false]
      have hlen : 2 ≤ vs.length := hok.2
      match vs, hlen with
      | a :: b :: r, _ =>
        simp only [List.map_cons, List.flatMap_cons, List.cons_append, List.nil_append]
        rw [flatMap_vals_map]

theorem entriesOf_ne_nil (kb cdl : Bool) (kv : Bytes × BVal) (hok : ItemOk kb kv) : entriesOf cdl kv ≠ [] := by
  obtain ⟨k, v⟩ := kv
  unfold entriesOf
  cases v with
  | one v => simp
  | many vs =>
    have : 2 ≤ vs.length := hok.2
    cases cdl with
    | true => simp
    | false =>
      cases vs with
      | nil => simp at this
      | cons _ _ => simp

theorem refOf_entries (kb cdl : Bool) : ∀ (m : List (Bytes × BVal)), (m.map fun kv => dec kv.1).Nodup → (∀ kv ∈ m, ItemOk kb kv) →
    refOf (m.flatMap (entriesOf cdl)) = decMap m
  | [], _, _ => rfl
  | kv :: r, hnd, hok => by
    simp only [List.map_cons, List.nodup_cons] at hnd
    have hfresh : dec kv.1 ∉ keysOf (r.flatMap (entriesOf cdl)) := by
      intro hm
      obtain ⟨e, he, hk⟩ := (Qs.mem_keysOf _ _).1 hm
      obtain ⟨kv', hkv', he'⟩ := List.mem_flatMap.1 he
      have := entriesOf_key cdl kv' e he'
      exact hnd.1 (List.mem_map.2 ⟨kv', hkv', by rw [← this, hk]⟩)
    simp only [List.flatMap_cons]
    rw [refOf_block (entriesOf cdl kv) _ (dec kv.1) (entriesOf_ne_nil kb cdl kv (hok kv (by simp))) (entriesOf_key cdl kv) hfresh,
      valOf_entriesOf kb cdl kv (hok kv (by simp)), refOf_entries kb cdl r hnd.2 (fun x hx => hok x (by simp [hx]))]
    rfl

/-- **`to_query_str` round trip.**  For every mapping `m` of names to strings or lists of strings that satisfies the
    side conditions `WFmap` (names distinct; no pair with name and value both empty, and no empty value when blank
    values are dropped; every list has at least two elements; `comma_delimited_lists` only with `auto_parse_qs_csv`),
    parsing `to_query_str(m, comma_delimited_lists=cdl, prefix=False)` with the options `kb`, `csv` gives back exactly
    `m` — same names in the same order, scalars as scalars, lists as lists with the same elements in order. -/
theorem parse_toQueryStr (m : List (Bytes × BVal)) (kb csv cdl : Bool) (h : WFmap m kb csv cdl) :
    parseQS (toQueryStr m cdl false) kb csv = decMap m := by
  rw [Qs.parseQS_eq_ref]
  cases m with
  | nil => cases kb <;> cases csv <;> rfl
  | cons kv r =>
    have hne : (kv :: r).flatMap (fieldsOf cdl) ≠ [] := by
      simp only [List.flatMap_cons]
      intro h0
      exact fieldsOf_ne_nil kb cdl kv (h.items kv (by simp)) (List.append_eq_nil_iff.1 h0).1
    have h38 : ∀ f ∈ (kv :: r).flatMap (fieldsOf cdl), ∀ c ∈ f, c ≠ 38 := by
      intro f hf
      obtain ⟨x, _, hfx⟩ := List.mem_flatMap.1 hf
      exact fieldsOf_no38 cdl x f hfx
    show refOf (entries (toQueryStr (kv :: r) cdl false) kb csv) = _
    unfold entries
    rw [toQueryStr_eq, splitOn_joinAmp _ hne h38, entries_rendered kb csv cdl _ h.items h.cdl_csv]
    exact refOf_entries kb cdl _ h.keys_nodup h.items

/-! ### the side conditions are satisfiable, and each one is needed -/
-- {'a b': 'x&y=z,+%', '': 'v', 'l': ['1', '', 'é'], 'q': ''}: well-formed with blank values kept, for both list styles
example : WFmap [([97, 32, 98], .one [120, 38, 121, 61, 122, 44, 43, 37]), ([], .one [118]), ([108], .many [[49], [], [195, 169]]), ([113], .one [])]
    true true true := by decide
example : WFmap [([97, 32, 98], .one [120, 38, 121, 61, 122, 44, 43, 37]), ([], .one [118]), ([108], .many [[49], [], [195, 169]]), ([113], .one [])]
    true false false := by decide
example : (parseQS (toQueryStr [([97, 32, 98], .one [120, 38, 121, 61, 122, 44, 43, 37]), ([], .one [118]), ([108], .many [[49], [], [195, 169]]), ([113], .one [])] true false) true true
    == [([97, 32, 98], .one [120, 38, 121, 61, 122, 44, 43, 37]), ([], .one [118]), ([108], .many [[49], [], [233]]), ([113], .one [])]) = true := by decide

/-- a pair with empty name AND empty value is lost: {'': ''} renders to "=" which parses to {} -/
theorem wf_witness_both_empty : (parseQS (toQueryStr [([], .one [])] false false) true false == decMap [([], .one [])]) = false := by decide
/-- an empty value is lost when blank values are dropped: {'a': ''} -/
theorem wf_witness_blank_dropped : (parseQS (toQueryStr [([97], .one [])] false false) false false == decMap [([97], .one [])]) = false := by decide
/-- a one-element list comes back as a scalar: {'a': ['b']} -/
theorem wf_witness_short_list : (parseQS (toQueryStr [([97], .many [[98]])] false false) true false == decMap [([97], .many [[98]])]) = false := by decide
/-- an empty list vanishes: {'a': []} -/
theorem wf_witness_empty_list : (parseQS (toQueryStr [([97], .many [])] false false) true false == decMap [([97], .many [])]) = false := by decide
/-- comma-delimited rendering read without CSV parsing comes back as one scalar "b,c": {'a': ['b', 'c']} -/
theorem wf_witness_cdl_without_csv : (parseQS (toQueryStr [([97], .many [[98], [99]])] true false) true false == decMap [([97], .many [[98], [99]])]) = false := by decide
/-- two names that are the same TEXT (both decode to U+FFFD) are merged: only for byte strings that are not valid UTF-8 -/
theorem wf_witness_same_name : (parseQS (toQueryStr [([255], .one [120]), ([254], .one [121])] false false) true false
    == decMap [([255], .one [120]), ([254], .one [121])]) = false := by decide

end Gt

import FalconModel.Getters
/-! C08: the VALUE CONVERSION of `falcon.util.misc.to_query_str` in front of the byte-level rendering `Gt.toQueryStr`.

    ```
    for k, v in params.items():
        if v is True:   v = 'true'
        elif v is False: v = 'false'
        elif isinstance(v, list):
            if comma_delimited_lists: v = ','.join(map(encode_value, map(str, v)))      # str(True) == 'True' here!
            else:
                for list_value in v:
                    if list_value is True: list_value = 'true'
                    elif list_value is False: list_value = 'false'
                    else: list_value = encode_value(str(list_value))
                    query_str += encode_value(k) + '=' + list_value + '&'
                continue
        else: v = encode_value(str(v))
        query_str += encode_value(k) + '=' + v + '&'
    ```

    Values are `str` (as its UTF-8 bytes, like `Gt.BVal`), `int` (not `bool`), `True`/`False`, `None`, or a `list` of
    those.  The identity tests come FIRST (`True`/`False` → `true`/`false`) — but only for a scalar value and for the
    items of a list rendered by repetition; the items of a comma-delimited list go through `map(str, v)`, so there
    `True` renders as `True`.  The literals `true`/`false` are not passed through `encode_value`; `encode_value` is the
    identity on them (`TqP.encodeValue_literals`), so the composition with `Gt.toQueryStr` (which encodes every text)
    renders the same bytes.

    `str(int)`: the decimal numeral, `-` in front of a negative number; CPython raises `ValueError` for more than
    `sys.int_max_str_digits` = 4300 digits (`none`), which `to_query_str` lets escape. -/
namespace Tq

abbrev Bytes := List UInt8

inductive Scalar where
  | str (s : Bytes)      -- a `str`, as its UTF-8 bytes
  | int (n : Int)        -- an `int` that is not a `bool`
  | bool (b : Bool)      -- the singletons `True` / `False`
  | none                 -- `None`
  deriving Repr, DecidableEq

inductive Value where
  | scalar (x : Scalar)
  | list (xs : List Scalar)    -- `isinstance(v, list)`
  deriving Repr, DecidableEq

/-- the decimal digits of `n`, most significant first; `fuel > n` suffices -/
def digitsGo : Nat → Nat → List Nat → List Nat
  | 0, _, acc => acc
  | fuel + 1, n, acc => if n < 10 then n :: acc else digitsGo fuel (n / 10) (n % 10 :: acc)

def decDigits (n : Nat) : List Nat := digitsGo (n + 1) n []

/-- `sys.int_max_str_digits` (default) -/
def maxStrDigits : Nat := 4300

/-- Python `str(n)` for an `int`; `none` = `ValueError` (more than 4300 digits) -/
def strInt (n : Int) : Option Bytes :=
  let ds := decDigits n.natAbs
  if ds.length > maxStrDigits then none
  else some ((if n < 0 then [45] else []) ++ ds.map fun d => (48 + d).toUInt8)

/-- Python `str(x)` -/
def pyStr : Scalar → Option Bytes
  | .str s => some s
  | .int n => strInt n
  | .bool true => some [84, 114, 117, 101]          -- 'True'
  | .bool false => some [70, 97, 108, 115, 101]     -- 'False'
  | .none => some [78, 111, 110, 101]               -- 'None'

/-- the text of a scalar value, and of an item of a list rendered by repetition: `is True` / `is False` first, else `str()` -/
def textOf : Scalar → Option Bytes
  | .bool true => some [116, 114, 117, 101]         -- 'true'
  | .bool false => some [102, 97, 108, 115, 101]    -- 'false'
  | x => pyStr x

/-- `[f(x) for x in xs]`, abandoned at the first exception -/
def mapOpt (f : α → Option β) : List α → Option (List β)
  | [] => some []
  | x :: r =>
    match f x with
    | none => none
    | some y => match mapOpt f r with
      | none => none
      | some ys => some (y :: ys)

/-- the texts one value of the mapping is rendered from -/
def convertVal (cdl : Bool) : Value → Option Gt.BVal
  | .scalar x => (textOf x).map .one
  | .list xs => if cdl then (mapOpt pyStr xs).map .many else (mapOpt textOf xs).map .many

/-- the whole mapping, in `params.items()` order -/
def convert (cdl : Bool) (m : List (Bytes × Value)) : Option (List (Bytes × Gt.BVal)) :=
  mapOpt (fun kv => (convertVal cdl kv.2).map fun bv => (kv.1, bv)) m

/-- `to_query_str(m, comma_delimited_lists=cdl, prefix=pfx)`; `none` = `ValueError` from `str(int)`.
    (`if not params: return ''` is inside `Gt.toQueryStr`; converting an empty mapping cannot fail.) -/
def toQueryStr (m : List (Bytes × Value)) (cdl pfx : Bool) : Option Bytes :=
  (convert cdl m).map fun bm => Gt.toQueryStr bm cdl pfx

end Tq

import FalconModel.TypedQuery
import FalconModel.ToQueryStrProofs
import FalconModel.GettersProofs
import FalconModel.Utf8Proofs
/-! C08: the typed round trip of `to_query_str` (model `FalconModel/TypedQuery.lean`, namespace `Tq`): `int(str(n)) = n`, a
    one-item list renders like its item, and — reusing the general round trip `Gt.parse_toQueryStr` and the getter
    theorems of `GettersProofs.lean` — every `int` / `bool` / `str` / `None` / list of the mapping comes back through
    `parse_query_string` and the typed getter of its type as the original typed value. -/
namespace Tq
open Qs (Str Val Params lookup valsOfVal parseQS)
open Gt (BVal WFmap decMap decV dec getInt getBool getParam getList getListT doStore Store inBounds pyInt ofDigits)

/-! ### `str(int)` and `int()` are inverse -/

def f10 (acc d : Nat) : Nat := 10 * acc + d

theorem digitsGo_value : ∀ (fuel n : Nat) (acc : List Nat), n < fuel →
    (digitsGo fuel n acc).foldl (fun a d => 10 * a + d) 0 = acc.foldl (fun a d => 10 * a + d) n
  | 0, _, _, h => by omega
  | fuel + 1, n, acc, h => by
    unfold digitsGo
    by_cases hn : n < 10
    · simp [hn]
    · simp only [hn, if_false]
      rw [digitsGo_value fuel (n / 10) _ (by omega)]
      simp only [List.foldl_cons]
      congr 1; omega

theorem digitsGo_lt10 : ∀ (fuel n : Nat) (acc : List Nat), n < fuel → (∀ d ∈ acc, d < 10) → ∀ d ∈ digitsGo fuel n acc, d < 10
  | 0, _, _, h, _ => by omega
  | fuel + 1, n, acc, h, ha => by
    unfold digitsGo
    by_cases hn : n < 10
    · simp only [hn, if_true]; intro d hd
      rcases List.mem_cons.1 hd with rfl | hd
      · exact hn
      · exact ha d hd
    · simp only [hn, if_false]
      apply digitsGo_lt10 fuel (n / 10) _ (by omega)
      intro d hd
      rcases List.mem_cons.1 hd with rfl | hd
      · omega
      · exact ha d hd

theorem digitsGo_ne_nil : ∀ (fuel n : Nat) (acc : List Nat), n < fuel → digitsGo fuel n acc ≠ []
  | 0, _, _, h => by omega
  | fuel + 1, n, acc, h => by
    unfold digitsGo
    by_cases hn : n < 10
    · simp [hn]
    · simp only [hn, if_false]; exact digitsGo_ne_nil fuel (n / 10) _ (by omega)

/-- the digits denote the number -/
theorem ofDigits_decDigits (n : Nat) : ofDigits (decDigits n) = n := by
  unfold ofDigits decDigits
  rw [digitsGo_value (n + 1) n [] (by omega)]; rfl

theorem decDigits_lt10 (n : Nat) : ∀ d ∈ decDigits n, d < 10 :=
  digitsGo_lt10 (n + 1) n [] (by omega) (by simp)

theorem decDigits_ne_nil (n : Nat) : decDigits n ≠ [] := digitsGo_ne_nil (n + 1) n [] (by omega)

theorem digit_byte (d : Nat) (h : d < 10) : ((48 + d).toUInt8).toNat = 48 + d := by
  have : ∀ d, d < 10 → ((48 + d).toUInt8).toNat = 48 + d := by decide
  exact this d h

theorem dec_digits (ds : List Nat) (h : ∀ d ∈ ds, d < 10) : dec (ds.map fun d => (48 + d).toUInt8) = ds.map (48 + ·) := by
  unfold dec
  rw [U8.decodeReplace_ascii]
  · rw [List.map_map]
    apply List.map_congr_left
    intro d hd; exact digit_byte d (h d hd)
  · intro b hb
    obtain ⟨d, hd, rfl⟩ := List.mem_map.1 hb
    rw [digit_byte d (h d hd)]; have := h d hd; omega

/-- **`int(str(n)) == n`** for every `int` whose `str()` does not raise: Python's `int()` model (`Gt.pyInt`) reads the text
    `str(n)` of the conversion model back as `n` — negative numbers, zero and numbers of up to 4300 digits included. -/
theorem pyInt_strInt (n : Int) (t : Bytes) (h : strInt n = some t) : pyInt (dec t) = some n := by
  unfold strInt at h
  simp only at h
  by_cases hl : (decDigits n.natAbs).length > maxStrDigits
  · simp [hl] at h
  · simp only [hl, if_false, Option.some.injEq] at h
    have hlen : (decDigits n.natAbs).length ≤ 4300 := by unfold maxStrDigits at hl; omega
    have hd := decDigits_lt10 n.natAbs
    have hne := decDigits_ne_nil n.natAbs
    subst h
    by_cases hneg : n < 0
    · simp only [hneg, if_true, List.singleton_append]
      have : dec (45 :: (decDigits n.natAbs).map fun d => (48 + d).toUInt8) = 45 :: (decDigits n.natAbs).map (48 + ·) := by
        unfold dec
        rw [U8.decodeReplace_cons_ascii 45 _ (by decide)]
        have := dec_digits _ hd
        unfold dec at this
        rw [this]; rfl
      rw [this, Gt.pyInt_ascii_neg _ hne hd hlen, ofDigits_decDigits]
      congr 1; omega
    · simp only [hneg, if_false, List.nil_append]
      rw [dec_digits _ hd, Gt.pyInt_ascii _ hne hd hlen, ofDigits_decDigits]
      congr 1; omega

/-- `str(n)` raises exactly for the numbers of more than 4300 digits -/
theorem strInt_isSome (n : Int) : (strInt n).isSome = decide ((decDigits n.natAbs).length ≤ 4300) := by
  unfold strInt maxStrDigits
  by_cases h : (decDigits n.natAbs).length > 4300
  · simp [h]
  · simp [h]; omega

example : strInt (-120) = some [45, 49, 50, 48] ∧ strInt 0 = some [48] ∧ strInt 4300 = some [52, 51, 48, 48] := by decide
example : pyInt (dec [45, 49, 50, 48]) = some (-120) := pyInt_strInt (-120) _ (by decide)

/-! ### `encode_value` leaves the boolean literals alone (the code does not even call it on them) -/
theorem encodeValue_literals : Uri.encodeValue [116, 114, 117, 101] = [116, 114, 117, 101] ∧
    Uri.encodeValue [102, 97, 108, 115, 101] = [102, 97, 108, 115, 101] := by decide

/-! ### a list of one item renders like the item -/
def norm : BVal → BVal
  | .many [v] => .one v
  | v => v

def normMap (bm : List (Bytes × BVal)) : List (Bytes × BVal) := bm.map fun kv => (kv.1, norm kv.2)

theorem renderItem_norm (cdl : Bool) (q : Bytes) (kv : Bytes × BVal) :
    Gt.renderItem cdl q (kv.1, norm kv.2) = Gt.renderItem cdl q kv := by
  obtain ⟨k, v⟩ := kv
  cases v with
  | one v => rfl
  | many vs =>
    match vs with
    | [] => rfl
    | [v] => cases cdl <;> simp [norm, Gt.renderItem, Gt.joinComma]
    | _ :: _ :: _ => rfl

/-- `to_query_str` cannot tell `{k: [v]}` from `{k: v}` -/
theorem toQueryStr_normMap (bm : List (Bytes × BVal)) (cdl pfx : Bool) :
    Gt.toQueryStr (normMap bm) cdl pfx = Gt.toQueryStr bm cdl pfx := by
  unfold Gt.toQueryStr normMap
  rw [List.foldl_map]
  have : (fun q (kv : Bytes × BVal) => Gt.renderItem cdl q (kv.1, norm kv.2)) = Gt.renderItem cdl := by
    funext q kv; exact renderItem_norm cdl q kv
  rw [this]
  cases bm <;> rfl

/-! ### the typed round trip -/

/-- side conditions, on the converted texts: no `str()` raises, and the converted mapping (a one-item list counted as its
    item) satisfies `Gt.WFmap`: names distinct as text; no empty text next to an empty name, none at all when blank values
    are dropped; no empty list; `comma_delimited_lists` only with `auto_parse_qs_csv` -/
def TWF (m : List (Bytes × Value)) (kb csv cdl : Bool) : Prop :=
  ∃ bm, convert cdl m = some bm ∧ WFmap (normMap bm) kb csv cdl

instance (m : List (Bytes × Value)) (kb csv cdl : Bool) : Decidable (TWF m kb csv cdl) :=
  match h : convert cdl m with
  | none => isFalse (fun ⟨_, hb, _⟩ => by rw [h] at hb; cases hb)
  | some bm =>
    if hw : WFmap (normMap bm) kb csv cdl then isTrue ⟨bm, h, hw⟩
    else isFalse (fun ⟨_, hb, hw'⟩ => by rw [h] at hb; cases hb; exact hw hw')

/-- the parsed rendering is the converted mapping -/
theorem parse_typed (m : List (Bytes × Value)) (kb csv cdl : Bool) (bm : List (Bytes × BVal))
    (hc : convert cdl m = some bm) (hw : WFmap (normMap bm) kb csv cdl) :
    ∃ qs, toQueryStr m cdl false = some qs ∧ parseQS qs kb csv = decMap (normMap bm) := by
  refine ⟨Gt.toQueryStr bm cdl false, ?_, ?_⟩
  · unfold toQueryStr; rw [hc]; rfl
  · rw [← toQueryStr_normMap]; exact Gt.parse_toQueryStr _ kb csv cdl hw

theorem mapOpt_mem (f : α → Option β) : ∀ (l : List α) (r : List β), mapOpt f l = some r → ∀ x ∈ l, ∃ y, f x = some y ∧ y ∈ r
  | [], _, _, x, hx => by cases hx
  | a :: l, r, h, x, hx => by
    unfold mapOpt at h
    cases hfa : f a with
    | none => rw [hfa] at h; cases h
    | some y =>
      rw [hfa] at h
      cases hr : mapOpt f l with
      | none => rw [hr] at h; cases h
      | some ys =>
        rw [hr] at h
        simp only [Option.some.injEq] at h
        subst h
        rcases List.mem_cons.1 hx with rfl | hx
        · exact ⟨y, hfa, by simp⟩
        · obtain ⟨y', h1, h2⟩ := mapOpt_mem f l ys hr x hx
          exact ⟨y', h1, by simp [h2]⟩

theorem lookup_of_mem : ∀ (p : Params) (a : Str) (b : Val), (p.map (·.1)).Nodup → (a, b) ∈ p → lookup p a = some b
  | [], _, _, _, h => by cases h
  | (a', b') :: p, a, b, hnd, h => by
    simp only [List.map_cons, List.nodup_cons] at hnd
    rcases List.mem_cons.1 h with h | h
    · injection h with h1 h2; subst h1; subst h2
      simp [lookup]
    · have hne : a' ≠ a := by
        intro he; subst he
        exact hnd.1 (List.mem_map.2 ⟨(a', b), h, rfl⟩)
      have := lookup_of_mem p a b hnd.2 h
      unfold lookup at this ⊢
      rw [List.find?_cons_of_neg (by simpa using hne)]
      exact this

/-- every name of the typed mapping is found, holding the converted value -/
theorem lookup_typed (m : List (Bytes × Value)) (kb csv cdl : Bool) (h : TWF m kb csv cdl) :
    ∃ qs, toQueryStr m cdl false = some qs ∧
      ∀ k v, (k, v) ∈ m → ∃ bv, convertVal cdl v = some bv ∧ lookup (parseQS qs kb csv) (dec k) = some (decV (norm bv)) := by
  obtain ⟨bm, hc, hw⟩ := h
  obtain ⟨qs, hq, hp⟩ := parse_typed m kb csv cdl bm hc hw
  refine ⟨qs, hq, ?_⟩
  intro k v hkv
  unfold convert at hc
  obtain ⟨y, hy, hmem⟩ := mapOpt_mem _ m bm hc (k, v) hkv
  cases hcv : convertVal cdl v with
  | none => rw [hcv] at hy; cases hy
  | some bv =>
    rw [hcv] at hy
    simp only [Option.map_some, Option.some.injEq] at hy
    subst hy
    refine ⟨bv, rfl, ?_⟩
    rw [hp]
    apply lookup_of_mem
    · have := hw.keys_nodup
      unfold decMap
      rw [List.map_map]
      exact this
    · unfold decMap normMap
      rw [List.map_map]
      exact List.mem_map.2 ⟨(k, bv), hmem, rfl⟩

theorem lastValue_one (p : Params) (name s : Str) (h : lookup p name = some (.one s)) : Gt.lastValue p name = some s := by
  simp [Gt.lastValue, h, valsOfVal]

/-- what a scalar of the mapping must come back as -/
theorem scalar_lookup (m : List (Bytes × Value)) (kb csv cdl : Bool) (h : TWF m kb csv cdl) :
    ∃ qs, toQueryStr m cdl false = some qs ∧
      ∀ k x, (k, .scalar x) ∈ m → ∃ t, textOf x = some t ∧ Gt.lastValue (parseQS qs kb csv) (dec k) = some (dec t) := by
  obtain ⟨qs, hq, hl⟩ := lookup_typed m kb csv cdl h
  refine ⟨qs, hq, ?_⟩
  intro k x hkx
  obtain ⟨bv, hbv, hlk⟩ := hl k _ hkx
  simp only [convertVal] at hbv
  cases ht : textOf x with
  | none => rw [ht] at hbv; cases hbv
  | some t =>
    rw [ht] at hbv
    simp only [Option.map_some, Option.some.injEq] at hbv
    subst hbv
    exact ⟨t, rfl, lastValue_one _ _ _ hlk⟩

/-- **the typed round trip, scalars.**  For every mapping `m` (names → `str` / `int` / `bool` / `None` / lists of those)
    with `TWF`, `to_query_str(m, comma_delimited_lists=cdl, prefix=False)` returns a query string `qs`, and on
    `parse_query_string(qs, kb, csv)`, for every item of the mapping:
    an `int` `n` comes back from `get_param_as_int` as `n` itself (and is stored) iff it is within the bounds given, else 400;
    `True` / `False` come back from `get_param_as_bool` as that boolean, whatever `blank_as_true`;
    a `str` comes back from `get_param` as itself, `None` as the text `None`. -/
theorem typed_round_trip (m : List (Bytes × Value)) (kb csv cdl : Bool) (h : TWF m kb csv cdl) :
    ∃ qs, toQueryStr m cdl false = some qs ∧
      (∀ k n, (k, Value.scalar (.int n)) ∈ m → ∀ (σ : Type) (inj : Int → σ) req mn mx store,
        getInt inj (parseQS qs kb csv) (dec k) req mn mx store =
          if inBounds mn mx n then .ret (.value n) (doStore store (dec k) (inj n)) else .ret .invalid400 store) ∧
      (∀ k b, (k, Value.scalar (.bool b)) ∈ m → ∀ (σ : Type) (inj : Bool → σ) req blank store,
        getBool inj (parseQS qs kb csv) (dec k) req blank store = .ret (.value b) (doStore store (dec k) (inj b))) ∧
      (∀ k s, (k, Value.scalar (.str s)) ∈ m → ∀ (σ : Type) (inj : Str → σ) req store,
        getParam inj (parseQS qs kb csv) (dec k) req store = .ret (.value (dec s)) (doStore store (dec k) (inj (dec s)))) ∧
      (∀ k, (k, Value.scalar .none) ∈ m → ∀ (σ : Type) (inj : Str → σ) req store,
        getParam inj (parseQS qs kb csv) (dec k) req store = .ret (.value [78, 111, 110, 101]) (doStore store (dec k) (inj [78, 111, 110, 101]))) := by
  obtain ⟨qs, hq, hs⟩ := scalar_lookup m kb csv cdl h
  refine ⟨qs, hq, ?_, ?_, ?_, ?_⟩
  · intro k n hk σ inj req mn mx store
    obtain ⟨t, ht, hl⟩ := hs k _ hk
    exact Gt.getInt_bounds_exact inj _ _ req mn mx store _ n hl (pyInt_strInt n t ht)
  · intro k b hk σ inj req blank store
    obtain ⟨t, ht, hl⟩ := hs k _ hk
    rw [Gt.getBool_found inj _ _ req blank store _ hl]
    cases b <;> (simp only [textOf, Option.some.injEq] at ht; subst ht; cases blank <;> rfl)
  · intro k s hk σ inj req store
    obtain ⟨t, ht, hl⟩ := hs k _ hk
    simp only [textOf, pyStr, Option.some.injEq] at ht; subst ht
    exact Gt.getParam_found inj _ _ req store _ hl
  · intro k hk σ inj req store
    obtain ⟨t, ht, hl⟩ := hs k _ hk
    simp only [textOf, pyStr, Option.some.injEq] at ht; subst ht
    exact Gt.getParam_found inj _ _ req store _ hl

/-! ### lists -/

theorem itemsOf_norm (ts : List Bytes) (h : ts ≠ []) : Gt.itemsOf (decV (norm (.many ts))) = ts.map dec := by
  match ts, h with
  | [t], _ => rfl
  | _ :: _ :: _, _ => rfl

/-- the text of one item of a list, by rendering style -/
def itemText (cdl : Bool) (x : Scalar) : Option Bytes := if cdl then pyStr x else textOf x

theorem convertVal_list (cdl : Bool) (xs : List Scalar) : convertVal cdl (.list xs) = (mapOpt (itemText cdl) xs).map .many := by
  cases cdl <;> rfl

/-- **the typed round trip, lists.**  With `TWF`, every non-empty list `xs` of the mapping comes back from
    `get_param_as_list(name)` as the list of the texts of its items, in order — also a list of ONE item (which the parsed
    mapping holds as a scalar) — where the text of an item is `str(x)` under `comma_delimited_lists` (so `True` is `True`)
    and `true`/`false`/`str(x)` under repetition. -/
theorem typed_round_trip_list (m : List (Bytes × Value)) (kb csv cdl : Bool) (h : TWF m kb csv cdl) :
    ∃ qs, toQueryStr m cdl false = some qs ∧
      ∀ k xs, (k, Value.list xs) ∈ m → ∃ ts, mapOpt (itemText cdl) xs = some ts ∧ ts ≠ [] ∧
        ∀ (σ : Type) (inj : List Str → σ) req store,
          getList inj (parseQS qs kb csv) (dec k) req store = .ret (.value (ts.map dec)) (doStore store (dec k) (inj (ts.map dec))) := by
  obtain ⟨bm, hc, hw⟩ := h
  obtain ⟨qs, hq, hl⟩ := lookup_typed m kb csv cdl ⟨bm, hc, hw⟩
  refine ⟨qs, hq, ?_⟩
  intro k xs hk
  obtain ⟨bv, hbv, hlk⟩ := hl k _ hk
  rw [convertVal_list] at hbv
  cases hts : mapOpt (itemText cdl) xs with
  | none => rw [hts] at hbv; cases hbv
  | some ts =>
    rw [hts] at hbv
    simp only [Option.map_some, Option.some.injEq] at hbv
    subst hbv
    -- the list is not empty: `WFmap` on the converted mapping
    have hne : ts ≠ [] := by
      intro he; subst he
      have hmem : (k, BVal.many []) ∈ bm := by
        unfold convert at hc
        obtain ⟨y, hy, hm⟩ := mapOpt_mem _ m bm hc _ hk
        rw [convertVal_list, hts] at hy
        simp only [Option.map_some, Option.some.injEq] at hy
        subst hy; exact hm
      have := (hw.items (k, norm (.many [])) (List.mem_map.2 ⟨_, hmem, rfl⟩)).2
      simp [norm, Gt.listOk] at this
    refine ⟨ts, rfl, hne, ?_⟩
    intro σ inj req store
    unfold getList
    rw [hlk]
    simp only [itemsOf_norm ts hne]

theorem mapT_ints : ∀ (ns : List Int) (ts : List Bytes), mapOpt (fun n => strInt n) ns = some ts →
    Gt.mapT pyInt (ts.map dec) = some ns
  | [], ts, h => by simp only [mapOpt, Option.some.injEq] at h; subst h; rfl
  | n :: ns, ts, h => by
    unfold mapOpt at h
    cases hn : strInt n with
    | none => rw [hn] at h; cases h
    | some t =>
      rw [hn] at h
      cases hr : mapOpt (fun n => strInt n) ns with
      | none => rw [hr] at h; cases h
      | some tr =>
        rw [hr] at h
        simp only [Option.some.injEq] at h; subst h
        simp only [List.map_cons, Gt.mapT, pyInt_strInt n t hn, mapT_ints ns tr hr]

theorem mapOpt_map (f : β → Option γ) (g : α → β) : ∀ (l : List α), mapOpt f (l.map g) = mapOpt (fun x => f (g x)) l
  | [] => rfl
  | x :: r => by simp only [List.map_cons, mapOpt, mapOpt_map f g r]

/-- **lists of ints.**  With `TWF`, a non-empty list of `int`s comes back from `get_param_as_list(name, transform=int)`
    as the list of those ints, for both rendering styles. -/
theorem typed_round_trip_int_list (m : List (Bytes × Value)) (kb csv cdl : Bool) (h : TWF m kb csv cdl) :
    ∃ qs, toQueryStr m cdl false = some qs ∧
      ∀ k ns, (k, Value.list (ns.map .int)) ∈ m → ∀ (σ : Type) (inj : List Int → σ) req store,
        getListT pyInt inj (parseQS qs kb csv) (dec k) req store = .ret (.value ns) (doStore store (dec k) (inj ns)) := by
  obtain ⟨bm, hc, hw⟩ := h
  obtain ⟨qs, hq, hl⟩ := lookup_typed m kb csv cdl ⟨bm, hc, hw⟩
  obtain ⟨qs', hq', hlist⟩ := typed_round_trip_list m kb csv cdl ⟨bm, hc, hw⟩
  rw [hq] at hq'; injection hq' with hqq; subst hqq
  refine ⟨qs, hq, ?_⟩
  intro k ns hk σ inj req store
  obtain ⟨ts, hts, hne, _⟩ := hlist k _ hk
  obtain ⟨bv, hbv, hlk⟩ := hl k _ hk
  rw [convertVal_list, hts] at hbv
  simp only [Option.map_some, Option.some.injEq] at hbv; subst hbv
  have hints : mapOpt (fun n => strInt n) ns = some ts := by
    rw [mapOpt_map] at hts
    have : (fun n => itemText cdl (Scalar.int n)) = fun n => strInt n := by
      funext n; cases cdl <;> rfl
    rw [this] at hts; exact hts
  unfold getListT
  rw [hlk]
  simp only [itemsOf_norm ts hne, mapT_ints ns ts hints]

/-! ### concrete inputs -/
-- {'a b': -120, 't': True, 'f': False, 's': 'x&y', 'n': None, 'l': [1, True, 'é'], 'one': [7], 'z': 0}
def sample : List (Bytes × Value) :=
  [([97, 32, 98], .scalar (.int (-120))), ([116], .scalar (.bool true)), ([102], .scalar (.bool false)),
   ([115], .scalar (.str [120, 38, 121])), ([110], .scalar .none),
   ([108], .list [.int 1, .bool true, .str [195, 169]]), ([111, 110, 101], .list [.int 7]), ([122], .scalar (.int 0))]

example : TWF sample true true true := by decide
example : TWF sample false false false := by decide
-- a%20b=-120&t=true&f=false&s=x%26y&n=None&l=1,True,%C3%A9&one=7&z=0  /  …&l=1&l=true&l=%C3%A9&…
example : toQueryStr sample true false = some [97,37,50,48,98,61,45,49,50,48,38,116,61,116,114,117,101,38,102,61,102,97,108,115,101,38,115,61,120,37,50,54,121,38,
    110,61,78,111,110,101,38,108,61,49,44,84,114,117,101,44,37,67,51,37,65,57,38,111,110,101,61,55,38,122,61,48] := by decide
example : (toQueryStr sample false false).map (fun q => (parseQS q false false == [([97, 32, 98], .one [45, 49, 50, 48]), ([116], .one [116, 114, 117, 101]),
    ([102], .one [102, 97, 108, 115, 101]), ([115], .one [120, 38, 121]), ([110], .one [78, 111, 110, 101]),
    ([108], .many [[49], [116, 114, 117, 101], [233]]), ([111, 110, 101], .one [55]), ([122], .one [48])])) = some true := by decide

/-- an empty list is outside `TWF`: `{'a': []}` renders to nothing (repetition) or to `a=` (comma-delimited), and
    `get_param_as_list('a')` does not give `[]` back -/
theorem twf_witness_empty_list : ¬ TWF [([97], .list [])] true true true ∧
    toQueryStr [([97], .list [])] false false = some [] ∧ toQueryStr [([97], .list [])] true false = some [97, 61] := by decide

end Tq

import FalconModel.ForwardedProofs
/-! `falcon.util.uri.unquote_string` (model `Fw.unquoteString`, Forwarded.lean: a transcription of the three paths of the
    function) stated for C10, without the RFC 9110 validity restriction of `Fw.unquoteString_quoted`:

    * `unquoteString_general`: for EVERY sequence of positions - a plain character other than the backslash (any other
      character, control characters and a bare `"` included) or a backslash followed by any character - the result is the
      sequence of characters the positions denote (left-to-right removal of the quotes and of each quoted-pair backslash);
    * `unquoteString_quote`: `unquote_string` inverts the quoted-string writer for every string;
    * `unquoteString_unchanged`: anything that does not start AND end with `"` (or is shorter than 2) is returned as it is;
    * `unquoteString_trailing_backslash`: what the code does with a lone backslash before the closing quote (dropped). -/
namespace Fw
open Hp

theorem unqGen_items_general (items : List QItem) (hv : ∀ c, QItem.plain c ∈ items → c ≠ '\\') :
    unqGen (renderItems items) = items.map QItem.char := by
  induction items with
  | nil => exact unqGen_nil
  | cons i t ih =>
    have iht := ih (fun c h => hv c (List.mem_cons_of_mem _ h))
    cases i with
    | plain c =>
      have hc : c ≠ '\\' := hv c (by simp)
      simp only [renderItems, QItem.render, List.cons_append, List.nil_append, List.map_cons, QItem.char]
      rw [unqGen_cons_ne c _ hc, iht]
    | esc c =>
      simp only [renderItems, QItem.render, List.cons_append, List.nil_append, List.map_cons, QItem.char]
      by_cases hc : c = '\\'
      · subst hc; rw [unqGen_bs_bs, iht]
      · rw [unqGen_bs_ne c _ hc, iht]

/-- **unquote_string on any well-bracketed input**: the characters the positions denote, whatever the characters are -/
theorem unquoteString_general (items : List QItem) (hv : ∀ c, QItem.plain c ∈ items → c ≠ '\\') :
    unquoteString ('"' :: (renderItems items ++ ['"'])) = items.map QItem.char := by
  unfold unquoteString
  have hl : ¬ ('"' :: (renderItems items ++ ['"'])).length < 2 := by simp
  have hd : (('"' :: (renderItems items ++ ['"'])).drop 1).dropLast = renderItems items := by simp
  simp only [hl, if_false, List.head?_cons, Hp.getLast?_quote, hd]
  simp only [bne_self_eq_false, Bool.or_self, Bool.false_eq_true, if_false]
  rw [unq3_eq_gen, unqGen_items_general items hv]

/-- the quoted-string writer: `"` and `\` get a backslash, everything else is written as it is -/
def quoteItems (s : Str) : List QItem := s.map fun c => if c = '"' ∨ c = '\\' then .esc c else .plain c
def quoteString (s : Str) : Str := '"' :: (renderItems (quoteItems s) ++ ['"'])

/-- **round trip**: `unquote_string` inverts the quoted-string writer, for every string -/
theorem unquoteString_quote (s : Str) : unquoteString (quoteString s) = s := by
  unfold quoteString
  rw [unquoteString_general]
  · unfold quoteItems
    rw [List.map_map]
    conv => rhs; rw [← List.map_id s]
    apply List.map_congr_left
    intro c _
    simp only [Function.comp]
    split <;> rfl
  · intro c h
    unfold quoteItems at h
    rw [List.mem_map] at h
    obtain ⟨a, _, ha⟩ := h
    split at ha
    · cases ha
    · rename_i hn
      cases ha
      exact fun e => hn (.inr e)

example : quoteString ['a', '"', '\\', 'b'] = ['"', 'a', '\\', '"', '\\', '\\', 'b', '"'] := by decide
example : unquoteString ['"', 'a', '\\', '"', '\\', '\\', 'b', '"'] = ['a', '"', '\\', 'b'] := by decide

/-- input that is not bracketed by double quotes is returned unchanged ("prevent side-effect") -/
theorem unquoteString_unchanged (q : Str) (h : q.length < 2 ∨ q.head? ≠ some '"' ∨ q.getLast? ≠ some '"') :
    unquoteString q = q := by
  unfold unquoteString
  by_cases h1 : q.length < 2
  · rw [if_pos h1]
  · rw [if_neg h1]
    have h2 : (q.head? != some '"' || q.getLast? != some '"') = true := by
      rcases h with h | h | h
      · exact absurd h h1
      · simp [h]
      · simp [h]
    rw [if_pos h2]

/-- what the code does with a lone backslash in front of the closing quote (not a quoted-string): it is dropped -/
example : unquoteString ['"', 'a', '\\', '"'] = ['a'] := by decide
example : unquoteString ['"'] = ['"'] := by decide
example : unquoteString ['"', '"'] = [] := by decide
end Fw

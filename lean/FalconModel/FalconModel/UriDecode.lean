import FalconModel.Basic
/-! Prototype for C10: the token-splitting implementation of `falcon.uri.decode` equals the left-to-right reference. -/
namespace Probe

/-- `bytes.split(b'%')` -/
def splitPct : List UInt8 → List (List UInt8)
  | [] => [[]]
  | c :: rest =>
    if c == 37 then [] :: splitPct rest
    else match splitPct rest with
      | t :: ts => (c :: t) :: ts
      | [] => [[c]]

/-- one token after a '%': `_HEX_TO_BYTE[token[:2]] + token[2:]`, or `b'%' + token` on KeyError -/
def decTok : List UInt8 → List UInt8
  | a :: b :: r =>
    match hexVal? a, hexVal? b with
    | some x, some y => (x * 16 + y).toUInt8 :: r
    | _, _ => 37 :: a :: b :: r
  | t => 37 :: t

/-- both joiners (`reencoded_uri += …` for < 8 tokens, `_join_tokens_bytearray` otherwise) -/
def joinTokens : List (List UInt8) → List UInt8
  | [] => []
  | t0 :: ts => t0 ++ ts.flatMap decTok

def joinTokensBA : List (List UInt8) → List UInt8      -- second transcription (bytearray path)
  | [] => []
  | t0 :: ts => ts.foldl (fun acc t => acc ++ decTok t) t0

/-- the implementation: fast path without '%', then one of two joiners chosen by token count -/
def decodeImpl (bs : List UInt8) : List UInt8 :=
  if !bs.contains 37 then bs
  else
    let tokens := splitPct bs
    if tokens.length < 8 then joinTokens tokens else joinTokensBA tokens

theorem joinTokensBA_eq (ts : List (List UInt8)) : joinTokensBA ts = joinTokens ts := by
  cases ts with
  | nil => rfl
  | cons t0 ts =>
    simp only [joinTokensBA, joinTokens]
    induction ts generalizing t0 with
    | nil => simp
    | cons t ts ih => simp only [List.foldl_cons, List.flatMap_cons, ih, List.append_assoc]

theorem splitPct_ne_nil (bs : List UInt8) : splitPct bs ≠ [] := by
  cases bs with
  | nil => simp [splitPct]
  | cons c rest =>
    simp only [splitPct]
    split
    · simp
    · split <;> simp

theorem hexVal_pct : hexVal? 37 = none := by decide

/-- head token of the split contains no '%' and decoding ignores it -/
theorem decode_noPct_prefix : ∀ (t : List UInt8) (rest : List UInt8), (∀ c ∈ t, c ≠ 37) →
    decode (t ++ rest) = t ++ decode rest := by
  intro t
  induction t with
  | nil => intro rest _; rfl
  | cons c cs ih =>
    intro rest h
    have hc : c ≠ 37 := h c (by simp)
    rw [List.cons_append, decode_cons_unres _ _ hc, ih rest (fun x hx => h x (by simp [hx]))]
    rfl

/-- structure of the split: head token has no '%'; the remaining tokens come from what follows the first '%' -/
theorem splitPct_spec : ∀ (bs : List UInt8),
    ∃ t0 ts, splitPct bs = t0 :: ts ∧ (∀ c ∈ t0, c ≠ 37) ∧
      ((ts = [] ∧ bs = t0) ∨ (∃ rest, bs = t0 ++ 37 :: rest ∧ ts = splitPct rest)) := by
  intro bs
  induction bs with
  | nil => exact ⟨[], [], rfl, by simp, Or.inl ⟨rfl, rfl⟩⟩
  | cons c rest ih =>
    obtain ⟨t0, ts, hs, hno, hcase⟩ := ih
    by_cases hc : c = 37
    · subst hc
      refine ⟨[], splitPct rest, by simp [splitPct], by simp, Or.inr ⟨rest, rfl, rfl⟩⟩
    · have hc' : (c == 37) = false := by simpa using hc
      refine ⟨c :: t0, ts, by simp [splitPct, hc', hs], ?_, ?_⟩
      · intro x hx
        rcases List.mem_cons.mp hx with rfl | hx
        · exact hc
        · exact hno x hx
      · rcases hcase with ⟨h1, h2⟩ | ⟨r, h1, h2⟩
        · exact Or.inl ⟨h1, by rw [h2]⟩
        · exact Or.inr ⟨r, by rw [h1]; rfl, h2⟩

/-- one malformed-or-wellformed escape followed by a '%'-free token, then either the end or the next '%' -/
theorem decode_pct_tok (t0 tail : List UInt8) (hno : ∀ c ∈ t0, c ≠ 37)
    (htail : tail = [] ∨ ∃ r, tail = 37 :: r) :
    decode (37 :: (t0 ++ tail)) = decTok t0 ++ decode tail := by
  match t0, hno with
  | [], _ =>
    simp only [List.nil_append, decTok]
    rcases htail with rfl | ⟨r, rfl⟩
    · simp [decode]
    · cases r with
      | nil => simp [decode]
      | cons x r' =>
        rw [decode]
        simp only [hexVal_pct]
        rfl
  | [a], hno =>
    have ha : a ≠ 37 := hno a (by simp)
    simp only [List.cons_append, List.nil_append, decTok]
    rcases htail with rfl | ⟨r, rfl⟩
    · rw [decode]
      · simp [decode_cons_unres _ _ ha, decode]
    · rw [decode]
      simp only [hexVal_pct]
      rw [← decode_cons_unres a (37 :: r) ha]
      cases hexVal? a <;> rfl
  | a :: b :: t', hno =>
    have ht' : ∀ c ∈ t', c ≠ 37 := fun c hc => hno c (by simp [hc])
    have ha : a ≠ 37 := hno a (by simp)
    have hb : b ≠ 37 := hno b (by simp)
    simp only [List.cons_append, decTok]
    rw [decode]
    cases hx : hexVal? a with
    | none =>
      simp only
      rw [decode_cons_unres _ _ ha, decode_cons_unres _ _ hb, decode_noPct_prefix t' tail ht']
      cases hexVal? b <;> rfl
    | some x =>
      cases hy : hexVal? b with
      | none =>
        simp only
        rw [decode_cons_unres _ _ ha, decode_cons_unres _ _ hb, decode_noPct_prefix t' tail ht']
        rfl
      | some y =>
        simp only
        rw [decode_noPct_prefix t' tail ht']
        rfl

/-- key lemma: decoding what follows a '%' = decoding its tokens -/
theorem decode_pct_tokens : ∀ (n : Nat) (rest : List UInt8), rest.length ≤ n →
    decode (37 :: rest) = (splitPct rest).flatMap decTok := by
  intro n
  induction n with
  | zero =>
    intro rest h
    have : rest = [] := List.eq_nil_of_length_eq_zero (by omega)
    subst this; simp [splitPct, decTok, decode]
  | succ n ih =>
    intro rest h
    obtain ⟨t0, ts, hs, hno, hcase⟩ := splitPct_spec rest
    rw [hs, List.flatMap_cons]
    rcases hcase with ⟨hts, hbs⟩ | ⟨r, hbs, hts⟩
    · subst hts; subst hbs
      have := decode_pct_tok rest [] hno (Or.inl rfl)
      simpa [decode] using this
    · subst hbs
      rw [decode_pct_tok t0 (37 :: r) hno (Or.inr ⟨r, rfl⟩), hts]
      congr 1
      apply ih
      simp only [List.length_append, List.length_cons] at h
      omega

/-- **`decode_eq_ref`**: every code path of the implementation computes the reference decoder -/
theorem decodeImpl_eq_ref (bs : List UInt8) : decodeImpl bs = decode bs := by
  unfold decodeImpl
  split
  · rename_i hnp
    have hno : ∀ c ∈ bs, c ≠ 37 := by
      intro c hc h; subst h
      simp only [Bool.not_eq_true', List.contains_eq_mem, decide_eq_false_iff_not] at hnp
      exact hnp hc
    have := decode_noPct_prefix bs [] hno
    simpa [decode] using this.symm
  · simp only
    have hj : (if (splitPct bs).length < 8 then joinTokens (splitPct bs) else joinTokensBA (splitPct bs))
        = joinTokens (splitPct bs) := by
      split
      · rfl
      · exact joinTokensBA_eq _
    rw [hj]
    obtain ⟨t0, ts, hs, hno, hcase⟩ := splitPct_spec bs
    rw [hs]
    simp only [joinTokens]
    rcases hcase with ⟨hts, hbs⟩ | ⟨r, hbs, hts⟩
    · subst hts; subst hbs
      have := decode_noPct_prefix bs [] hno
      simpa [decode] using this.symm
    · subst hbs
      rw [decode_noPct_prefix t0 (37 :: r) hno, hts, decode_pct_tokens r.length r (Nat.le_refl _)]

#print axioms decodeImpl_eq_ref
end Probe

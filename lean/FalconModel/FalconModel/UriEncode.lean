import FalconModel.UriDecode
/-! C10 model: the four encoders made by `falcon.util.uri._create_str_encoder`, `decode(…, unquote_plus)` on
    top of the proved `decodeImpl`, and `parse_host`.  Everything is on the UTF-8 bytes of the `str` argument
    (`uri.encode()` in the Python code); the tables are the literal constants of `falcon/util/uri.py`
    (the driver prints them and the harness compares them with the real `_UNRESERVED` / `_DELIMITERS`). -/
namespace Uri
open Probe (hexDigit hexVal? decode decodeImpl splitPct)

/-- `_UNRESERVED = 'ABC…XYZabc…xyz0123456789-._~'` -/
def unreservedTab : List UInt8 :=
  [65,66,67,68,69,70,71,72,73,74,75,76,77,78,79,80,81,82,83,84,85,86,87,88,89,90,
   97,98,99,100,101,102,103,104,105,106,107,108,109,110,111,112,113,114,115,116,117,118,119,120,121,122,
   48,49,50,51,52,53,54,55,56,57, 45,46,95,126]

/-- `_DELIMITERS = ":/?#[]@!$&'()*+,;="` -/
def delimTab : List UInt8 := [58,47,63,35,91,93,64,33,36,38,39,40,41,42,43,44,59,61]

/-- `allowed_chars` of `encode_value*` (`is_value=True`) -/
def allowedValue (c : UInt8) : Bool := unreservedTab.contains c
/-- `allowed_chars` of `encode*` (`_ALL_ALLOWED = _UNRESERVED + _DELIMITERS`) -/
def allowedUri (c : UInt8) : Bool := (unreservedTab ++ delimTab).contains c

/-- `_create_char_encoder(allowed)`: the 256-entry lookup, `'%{0:02X}'` for what is not allowed -/
def encByte (allowed : UInt8 → Bool) (c : UInt8) : List UInt8 :=
  if allowed c then [c] else [37, hexDigit (c.toNat / 16), hexDigit (c.toNat % 16)]

/-- `encoder(uri)` with `check_is_escaped=False`: the `rstrip` fast path, then the per-byte map -/
def encodeWith (allowed : UInt8 → Bool) (bs : List UInt8) : List UInt8 :=
  if bs.all allowed then bs else bs.flatMap (encByte allowed)

/-- `c in _HEX_DIGITS` -/
def isHex (c : UInt8) : Bool := (hexVal? c).isSome

/-- the body of the `for token in tokens[1:]` loop: two characters, both hex -/
def tokOk : List UInt8 → Bool
  | a :: b :: _ => isHex a && isHex b
  | _ => false

/-- the "already escaped?" heuristic: only allowed characters and '%', and every '%' is followed by two hex digits -/
def looksEscaped (allowed : UInt8 → Bool) (bs : List UInt8) : Bool :=
  bs.all (fun c => allowed c || c == 37) && (splitPct bs).tail.all tokOk

/-- `encoder(uri)` with `check_is_escaped=True` -/
def encodeCheck (allowed : UInt8 → Bool) (bs : List UInt8) : List UInt8 :=
  if bs.all allowed then bs
  else if looksEscaped allowed bs then bs
  else bs.flatMap (encByte allowed)

def encode := encodeWith allowedUri
def encodeValue := encodeWith allowedValue
def encodeCheckEscaped := encodeCheck allowedUri
def encodeValueCheckEscaped := encodeCheck allowedValue

/-- `decode(s, unquote_plus)` up to the final `bytes.decode('utf-8', 'replace')`: '+' first, then the three '%' paths -/
def decodePlus (plus : Bool) (bs : List UInt8) : List UInt8 :=
  decodeImpl (if plus then bs.map (fun c => if c == 43 then 32 else c) else bs)

/-! ### `parse_host` -/

/-- the text after a leading `]:`, if the string starts with it -/
def strip2 : List UInt8 → Option (List UInt8)
  | c :: d :: a => if c == 93 && d == 58 then some a else none
  | _ => none

/-- `host.rfind(']:')` as a split: (`host[:pos]`, `host[pos+2:]`) for the LAST occurrence -/
def splitLast2 : List UInt8 → Option (List UInt8 × List UInt8)
  | [] => none
  | c :: r =>
    match splitLast2 r with
    | some (b, a) => some (c :: b, a)
    | none => (strip2 (c :: r)).map (fun a => ([], a))

/-- `host.partition(':')` (name, found, port) -/
def partColon : List UInt8 → List UInt8 × Bool × List UInt8
  | [] => ([], false, [])
  | c :: r => if c == 58 then ([], true, r) else let (n, f, p) := partColon r; (c :: n, f, p)

/-- the port text handed to `int()`; `none` = `default_port` (absent or, since 563f293, empty) -/
def portOf (p : List UInt8) : Option (List UInt8) := if p.isEmpty then none else some p

/-- `parse_host(host)`: (host, text given to `int()` or none for the default) -/
def parseHost (host : List UInt8) : List UInt8 × Option (List UInt8) :=
  if host.head? == some 91 then          -- host.startswith('[')
    match splitLast2 host with
    | some (b, a) => (b.drop 1, portOf a)
    | none => ((host.drop 1).dropLast, none)
  else
    -- `pos == -1 or pos != host.find(':')`  <=>  the number of ':' is not exactly one
    if host.count 58 != 1 then (host, none)
    else let (n, _, p) := partColon host; (n, portOf p)

/-- `int(port)` on the ASCII-digit subset (anything else is outside the model: `none`) -/
def natOfDigits (p : List UInt8) : Option Nat :=
  if p.all (fun c => 48 ≤ c.toNat && c.toNat ≤ 57) && !p.isEmpty
  then some (p.foldl (fun acc c => acc * 10 + (c.toNat - 48)) 0) else none
end Uri

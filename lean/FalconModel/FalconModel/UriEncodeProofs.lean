import FalconModel.UriEncode
/-! C10 proofs: RFC 3986 output grammar of the encoders, decode∘encode = id for both allowed sets (with the '+' witness),
    the check-escaped encoders fix every fully escaped string and are idempotent, `parse_host` on the valid authority forms. -/
namespace Uri
open Probe

/-- upper-case hex digit -/
def upperHex (c : UInt8) : Bool := (48 ≤ c.toNat && c.toNat ≤ 57) || (65 ≤ c.toNat && c.toNat ≤ 70)

/-- the grammar `( allowed | "%" H H )*` for a class `H` of hex digits; a '%' never counts as an allowed character -/
def gram (allowed hexp : UInt8 → Bool) : List UInt8 → Bool
  | [] => true
  | c :: r =>
    if c == 37 then
      match r with
      | a :: b :: r' => hexp a && hexp b && gram allowed hexp r'
      | _ => false
    else allowed c && gram allowed hexp r

/-- the output grammar `( allowed | "%" UPPERHEX UPPERHEX )*` -/
def wfEsc (allowed : UInt8 → Bool) : List UInt8 → Bool := gram allowed upperHex
/-- "already fully escaped": `( allowed | "%" HEXDIG HEXDIG )*`, hex digits of either case -/
def escaped (allowed : UInt8 → Bool) : List UInt8 → Bool := gram allowed isHex

theorem gram_ne (allowed hexp : UInt8 → Bool) (c : UInt8) (r : List UInt8) (h : (c == 37) = false) :
    gram allowed hexp (c :: r) = (allowed c && gram allowed hexp r) := by
  conv => lhs; unfold gram
  simp [h]
theorem gram_pct3 (allowed hexp : UInt8 → Bool) (a b : UInt8) (r : List UInt8) :
    gram allowed hexp (37 :: a :: b :: r) = (hexp a && hexp b && gram allowed hexp r) := by
  conv => lhs; unfold gram
  simp
theorem gram_pct1 (allowed hexp : UInt8 → Bool) : gram allowed hexp [37] = false := by
  unfold gram; simp
theorem gram_pct2 (allowed hexp : UInt8 → Bool) (a : UInt8) : gram allowed hexp [37, a] = false := by
  unfold gram; simp

theorem upperHex_hexDigit (n : Nat) (h : n < 16) : upperHex (hexDigit n) = true := by
  have : n = 0 ∨ n = 1 ∨ n = 2 ∨ n = 3 ∨ n = 4 ∨ n = 5 ∨ n = 6 ∨ n = 7 ∨ n = 8 ∨ n = 9 ∨
      n = 10 ∨ n = 11 ∨ n = 12 ∨ n = 13 ∨ n = 14 ∨ n = 15 := by omega
  rcases this with h|h|h|h|h|h|h|h|h|h|h|h|h|h|h|h <;> subst h <;> decide

theorem allowed_ne_pct {allowed : UInt8 → Bool} (h37 : allowed 37 = false) {c : UInt8} (hc : allowed c = true) : c ≠ 37 := by
  intro h; subst h; rw [h37] at hc; exact Bool.noConfusion hc

/-! ### output character set -/

theorem encByte_charset (allowed : UInt8 → Bool) (x c : UInt8) (h : c ∈ encByte allowed x) :
    allowed c = true ∨ c = 37 ∨ upperHex c = true := by
  unfold encByte at h
  split at h
  · rename_i ha
    simp only [List.mem_singleton] at h
    subst h; exact Or.inl ha
  · simp only [List.mem_cons, List.not_mem_nil, or_false] at h
    rcases h with h | h | h
    · exact Or.inr (Or.inl h)
    · subst h; exact Or.inr (Or.inr (upperHex_hexDigit _ (by have := x.toNat_lt; omega)))
    · subst h; exact Or.inr (Or.inr (upperHex_hexDigit _ (by omega)))

/-- **`encode_charset`**: every output byte is an allowed character, '%', or an upper-case hex digit -/
theorem encodeWith_charset (allowed : UInt8 → Bool) (bs : List UInt8) :
    ∀ c ∈ encodeWith allowed bs, allowed c = true ∨ c = 37 ∨ upperHex c = true := by
  intro c hc
  unfold encodeWith at hc
  split at hc
  · rename_i hall
    exact Or.inl (List.all_eq_true.mp hall c hc)
  · obtain ⟨x, _, hx⟩ := List.mem_flatMap.mp hc
    exact encByte_charset allowed x c hx

theorem wfEsc_cons_allowed {allowed : UInt8 → Bool} (h37 : allowed 37 = false) (c : UInt8) (r : List UInt8)
    (hc : allowed c = true) : wfEsc allowed (c :: r) = wfEsc allowed r := by
  have hne : (c == 37) = false := by simpa using allowed_ne_pct h37 hc
  unfold wfEsc; rw [gram_ne _ _ _ _ hne]; simp [hc]

theorem wfEsc_flatMap {allowed : UInt8 → Bool} (h37 : allowed 37 = false) (bs : List UInt8) :
    wfEsc allowed (bs.flatMap (encByte allowed)) = true := by
  induction bs with
  | nil => simp [wfEsc, gram]
  | cons c cs ih =>
    simp only [List.flatMap_cons]
    rw [show encByte allowed c = (if allowed c then [c] else [37, hexDigit (c.toNat / 16), hexDigit (c.toNat % 16)]) from rfl]
    split
    · rename_i hc
      simp only [List.singleton_append]
      rw [wfEsc_cons_allowed h37 _ _ hc]; exact ih
    · simp only [List.cons_append, List.nil_append]
      unfold wfEsc at ih ⊢
      rw [gram_pct3, upperHex_hexDigit (c.toNat / 16) (by have := c.toNat_lt; omega), upperHex_hexDigit (c.toNat % 16) (by omega), ih]
      rfl

theorem wfEsc_of_all {allowed : UInt8 → Bool} (h37 : allowed 37 = false) (bs : List UInt8)
    (hall : bs.all allowed = true) : wfEsc allowed bs = true := by
  induction bs with
  | nil => simp [wfEsc, gram]
  | cons c cs ih =>
    simp only [List.all_cons, Bool.and_eq_true] at hall
    rw [wfEsc_cons_allowed h37 _ _ hall.1]; exact ih hall.2

/-- **`encode_grammar`**: the output is a sequence of allowed characters and upper-case `%XX` triplets (no stray '%') -/
theorem encodeWith_wf {allowed : UInt8 → Bool} (h37 : allowed 37 = false) (bs : List UInt8) :
    wfEsc allowed (encodeWith allowed bs) = true := by
  unfold encodeWith
  split
  · rename_i hall; exact wfEsc_of_all h37 bs hall
  · exact wfEsc_flatMap h37 bs

/-! ### decode ∘ encode -/

theorem decode_encByte {allowed : UInt8 → Bool} (h37 : allowed 37 = false) (c : UInt8) (rest : List UInt8) :
    decode (encByte allowed c ++ rest) = c :: decode rest := by
  unfold encByte
  split
  · rename_i hu
    simp only [List.singleton_append]
    exact decode_cons_unres _ _ (allowed_ne_pct h37 hu)
  · simp only [List.cons_append, List.nil_append]
    have h1 := hexVal_hexDigit (c.toNat / 16) (by have := c.toNat_lt; omega)
    have h2 := hexVal_hexDigit (c.toNat % 16) (by omega)
    rw [decode]
    simp only [h1, h2]
    congr 1
    have : c.toNat / 16 * 16 + c.toNat % 16 = c.toNat := by omega
    rw [this]; exact UInt8.ofNat_toNat ..

theorem decode_flatMap_encByte {allowed : UInt8 → Bool} (h37 : allowed 37 = false) (bs : List UInt8) :
    decode (bs.flatMap (encByte allowed)) = bs := by
  induction bs with
  | nil => simp [decode]
  | cons c cs ih => simp only [List.flatMap_cons]; rw [decode_encByte h37, ih]

theorem decode_of_noPct (bs : List UInt8) (hno : ∀ c ∈ bs, c ≠ 37) : decode bs = bs := by
  have := decode_noPct_prefix bs [] hno
  simpa [decode] using this

/-- reference decoder after any encoder whose allowed set excludes '%' -/
theorem decode_encodeWith {allowed : UInt8 → Bool} (h37 : allowed 37 = false) (bs : List UInt8) :
    decode (encodeWith allowed bs) = bs := by
  unfold encodeWith
  split
  · rename_i hall
    exact decode_of_noPct bs (fun c hc => allowed_ne_pct h37 (List.all_eq_true.mp hall c hc))
  · exact decode_flatMap_encByte h37 bs

theorem map_plus_id (l : List UInt8) (h : ∀ c ∈ l, c ≠ 43) : l.map (fun c => if c == 43 then 32 else c) = l := by
  induction l with
  | nil => rfl
  | cons c cs ih =>
    have hc : (c == 43) = false := by simpa using h c (by simp)
    simp only [List.map_cons, hc]
    rw [ih (fun x hx => h x (by simp [hx]))]; rfl

/-- the implementation's decode (all three paths, '+' handling on or off) undoes any encoder that escapes '%' and '+' -/
theorem decodePlus_encodeWith {allowed : UInt8 → Bool} (h37 : allowed 37 = false) (h43 : allowed 43 = false)
    (plus : Bool) (bs : List UInt8) : decodePlus plus (encodeWith allowed bs) = bs := by
  unfold decodePlus
  have hno : ∀ c ∈ encodeWith allowed bs, c ≠ 43 := by
    intro c hc h; subst h
    rcases encodeWith_charset allowed bs _ hc with h | h | h
    · rw [h43] at h; exact Bool.noConfusion h
    · exact absurd h (by decide)
    · exact absurd h (by decide)
  cases plus
  · simp only [Bool.false_eq_true, ↓reduceIte]
    rw [decodeImpl_eq_ref, decode_encodeWith h37]
  · simp only [↓reduceIte]
    rw [map_plus_id _ hno, decodeImpl_eq_ref, decode_encodeWith h37]

theorem allowedValue_pct : allowedValue 37 = false := by decide
theorem allowedValue_plus : allowedValue 43 = false := by decide
theorem allowedUri_pct : allowedUri 37 = false := by decide

/-- **`decode(encode_value(s)) = s`** with the default `unquote_plus=True` (and also with `False`) -/
theorem decode_encode_value (plus : Bool) (bs : List UInt8) : decodePlus plus (encodeValue bs) = bs :=
  decodePlus_encodeWith allowedValue_pct allowedValue_plus plus bs

/-- **`decode(encode(s), unquote_plus=False) = s`** -/
theorem decode_encode_uri (bs : List UInt8) : decodePlus false (encode bs) = bs := by
  unfold decodePlus encode
  simp only [Bool.false_eq_true, ↓reduceIte]
  rw [decodeImpl_eq_ref, decode_encodeWith allowedUri_pct]

/-- why whole-URI encoding needs `unquote_plus=False`: '+' is a delimiter and is not escaped (`"a+b"`) -/
theorem decode_encode_uri_plus_witness : decodePlus true (encode [97, 43, 98]) ≠ [97, 43, 98] := by decide

/-- value encoding emits unreserved characters and upper-case escapes only -/
theorem encodeValue_grammar (bs : List UInt8) : wfEsc allowedValue (encodeValue bs) = true :=
  encodeWith_wf allowedValue_pct bs
theorem encode_grammar (bs : List UInt8) : wfEsc allowedUri (encode bs) = true :=
  encodeWith_wf allowedUri_pct bs

/-! ### the check-escaped encoders -/

theorem splitPct_cons_ne (c : UInt8) (r : List UInt8) (hc : (c == 37) = false) :
    ∃ t ts, splitPct r = t :: ts ∧ splitPct (c :: r) = (c :: t) :: ts := by
  cases hs : splitPct r with
  | nil => exact absurd hs (splitPct_ne_nil r)
  | cons t ts => exact ⟨t, ts, rfl, by simp [splitPct, hc, hs]⟩

theorem isHex_ne_pct (a : UInt8) (h : isHex a = true) : (a == 37) = false := by
  cases hq : (a == 37) with
  | false => rfl
  | true =>
    have : a = 37 := by simpa using hq
    subst this; revert h; decide

theorem escaped_tokens {allowed : UInt8 → Bool} (hhex : ∀ c, isHex c = true → allowed c = true) : ∀ (n : Nat) (bs : List UInt8), bs.length ≤ n →
    escaped allowed bs = true →
    bs.all (fun c => allowed c || c == 37) = true ∧ (splitPct bs).tail.all tokOk = true := by
  intro n
  induction n with
  | zero =>
    intro bs hl _
    have : bs = [] := List.eq_nil_of_length_eq_zero (by omega)
    subst this; simp [splitPct]
  | succ n ih =>
    intro bs hl he
    unfold escaped at he
    match bs, hl, he with
    | [], _, _ => simp [splitPct]
    | c :: r, hl, he =>
      cases hc : (c == 37) with
      | false =>
        rw [gram_ne _ _ _ _ hc, Bool.and_eq_true] at he
        have ih' := ih r (by simp only [List.length_cons] at hl; omega) he.2
        obtain ⟨t, ts, hs, hs2⟩ := splitPct_cons_ne c r hc
        rw [hs] at ih'
        refine ⟨?_, ?_⟩
        · simp only [List.all_cons, Bool.and_eq_true]
          exact ⟨by simp [he.1], ih'.1⟩
        · rw [hs2]; exact ih'.2
      | true =>
        have hc37 : c = 37 := by simpa using hc
        subst hc37
        match r, hl, he with
        | [], _, he => rw [gram_pct1] at he; exact Bool.noConfusion he
        | [a], _, he => rw [gram_pct2] at he; exact Bool.noConfusion he
        | a :: b :: r', hl, he =>
          rw [gram_pct3] at he
          simp only [Bool.and_eq_true] at he
          obtain ⟨⟨ha, hb⟩, hr⟩ := he
          have ih' := ih r' (by simp only [List.length_cons] at hl; omega) hr
          obtain ⟨t, ts, hs, hs2⟩ := splitPct_cons_ne b r' (isHex_ne_pct b hb)
          obtain ⟨t2, ts2, hs3, hs4⟩ := splitPct_cons_ne a (b :: r') (isHex_ne_pct a ha)
          rw [hs2] at hs3
          injection hs3 with e1 e2
          subst e1; subst e2
          rw [hs] at ih'
          refine ⟨?_, ?_⟩
          · simp only [List.all_cons, Bool.and_eq_true]
            exact ⟨by simp, by simp [hhex a ha], by simp [hhex b hb], ih'.1⟩
          · have : splitPct (37 :: a :: b :: r') = [] :: (a :: b :: t) :: ts := by
              rw [splitPct]; simp [hs4]
            rw [this]
            simp only [List.tail_cons, List.all_cons, Bool.and_eq_true, tokOk]
            exact ⟨⟨ha, hb⟩, ih'.2⟩

theorem isHex_cases (c : UInt8) (h : isHex c = true) :
    c.toNat = 48 ∨ c.toNat = 49 ∨ c.toNat = 50 ∨ c.toNat = 51 ∨ c.toNat = 52 ∨ c.toNat = 53 ∨ c.toNat = 54 ∨ c.toNat = 55 ∨
    c.toNat = 56 ∨ c.toNat = 57 ∨ c.toNat = 65 ∨ c.toNat = 66 ∨ c.toNat = 67 ∨ c.toNat = 68 ∨ c.toNat = 69 ∨ c.toNat = 70 ∨
    c.toNat = 97 ∨ c.toNat = 98 ∨ c.toNat = 99 ∨ c.toNat = 100 ∨ c.toNat = 101 ∨ c.toNat = 102 := by
  unfold isHex hexVal? at h
  by_cases h1 : 48 ≤ c.toNat ∧ c.toNat ≤ 57
  · omega
  · by_cases h2 : 65 ≤ c.toNat ∧ c.toNat ≤ 70
    · omega
    · by_cases h3 : 97 ≤ c.toNat ∧ c.toNat ≤ 102
      · omega
      · simp [h1, h2, h3] at h

theorem hex_allowedValue (c : UInt8) (h : isHex c = true) : allowedValue c = true := by
  have hc : c.toNat.toUInt8 = c := UInt8.ofNat_toNat ..
  rcases isHex_cases c h with h|h|h|h|h|h|h|h|h|h|h|h|h|h|h|h|h|h|h|h|h|h <;> (rw [← hc, h]; decide)

theorem allowedValue_sub_uri (c : UInt8) (h : allowedValue c = true) : allowedUri c = true := by
  unfold allowedValue at h; unfold allowedUri
  simp only [List.contains_eq_mem, decide_eq_true_eq] at h ⊢
  exact List.mem_append_left _ h

theorem hex_allowedUri (c : UInt8) (h : isHex c = true) : allowedUri c = true :=
  allowedValue_sub_uri c (hex_allowedValue c h)

/-- a fully escaped string passes the heuristic -/
theorem escaped_looksEscaped {allowed : UInt8 → Bool} (hhex : ∀ c, isHex c = true → allowed c = true) (bs : List UInt8)
    (he : escaped allowed bs = true) : looksEscaped allowed bs = true := by
  have := escaped_tokens hhex bs.length bs (Nat.le_refl _) he
  unfold looksEscaped; rw [this.1, this.2]; rfl

/-- **`checkEscaped_fixpoint_on_escaped`**: an already fully escaped string is returned unchanged -/
theorem encodeCheck_fixpoint {allowed : UInt8 → Bool} (hhex : ∀ c, isHex c = true → allowed c = true) (bs : List UInt8)
    (he : escaped allowed bs = true) : encodeCheck allowed bs = bs := by
  unfold encodeCheck
  split
  · rfl
  · rw [escaped_looksEscaped hhex bs he]; rfl

theorem gram_mono (allowed : UInt8 → Bool) {h1 h2 : UInt8 → Bool} (hm : ∀ c, h1 c = true → h2 c = true) :
    ∀ (n : Nat) (bs : List UInt8), bs.length ≤ n → gram allowed h1 bs = true → gram allowed h2 bs = true := by
  intro n
  induction n with
  | zero =>
    intro bs hl _
    have : bs = [] := List.eq_nil_of_length_eq_zero (by omega)
    subst this; simp [gram]
  | succ n ih =>
    intro bs hl he
    match bs, hl, he with
    | [], _, _ => simp [gram]
    | c :: r, hl, he =>
      cases hc : (c == 37) with
      | false =>
        rw [gram_ne _ _ _ _ hc, Bool.and_eq_true] at he ⊢
        exact ⟨he.1, ih r (by simp only [List.length_cons] at hl; omega) he.2⟩
      | true =>
        have hc37 : c = 37 := by simpa using hc
        subst hc37
        match r, hl, he with
        | [], _, he => rw [gram_pct1] at he; exact Bool.noConfusion he
        | [a], _, he => rw [gram_pct2] at he; exact Bool.noConfusion he
        | a :: b :: r', hl, he =>
          rw [gram_pct3] at he ⊢
          simp only [Bool.and_eq_true] at he ⊢
          exact ⟨⟨hm a he.1.1, hm b he.1.2⟩, ih r' (by simp only [List.length_cons] at hl; omega) he.2⟩

theorem upperHex_isHex (c : UInt8) (h : upperHex c = true) : isHex c = true := by
  unfold upperHex at h
  simp only [Bool.or_eq_true, Bool.and_eq_true, decide_eq_true_eq] at h
  unfold isHex hexVal?
  by_cases h1 : 48 ≤ c.toNat ∧ c.toNat ≤ 57
  · simp [h1]
  · have h2 : 65 ≤ c.toNat ∧ c.toNat ≤ 70 := by omega
    simp [h1, h2]

theorem wfEsc_escaped (allowed : UInt8 → Bool) (bs : List UInt8) (h : wfEsc allowed bs = true) : escaped allowed bs = true :=
  gram_mono allowed upperHex_isHex bs.length bs (Nat.le_refl _) h

/-- **`checkEscaped_idempotent`** -/
theorem encodeCheck_idem {allowed : UInt8 → Bool} (h37 : allowed 37 = false) (hhex : ∀ c, isHex c = true → allowed c = true)
    (bs : List UInt8) : encodeCheck allowed (encodeCheck allowed bs) = encodeCheck allowed bs := by
  by_cases h1 : bs.all allowed = true
  · have e : encodeCheck allowed bs = bs := by unfold encodeCheck; simp [h1]
    rw [e, e]
  · by_cases h2 : looksEscaped allowed bs = true
    · have e : encodeCheck allowed bs = bs := by unfold encodeCheck; simp [h1, h2]
      rw [e, e]
    · have e : encodeCheck allowed bs = bs.flatMap (encByte allowed) := by unfold encodeCheck; simp [h1, h2]
      rw [e]
      exact encodeCheck_fixpoint hhex _ (wfEsc_escaped _ _ (wfEsc_flatMap h37 bs))

/-- the check-escaped encoders also emit the RFC 3986 grammar whenever they do encode, and never change an escaped input -/
theorem encodeCheckEscaped_fixpoint (bs : List UInt8) (he : escaped allowedUri bs = true) : encodeCheckEscaped bs = bs :=
  encodeCheck_fixpoint hex_allowedUri bs he
theorem encodeValueCheckEscaped_fixpoint (bs : List UInt8) (he : escaped allowedValue bs = true) :
    encodeValueCheckEscaped bs = bs :=
  encodeCheck_fixpoint hex_allowedValue bs he
theorem encodeCheckEscaped_idem (bs : List UInt8) : encodeCheckEscaped (encodeCheckEscaped bs) = encodeCheckEscaped bs :=
  encodeCheck_idem allowedUri_pct hex_allowedUri bs
theorem encodeValueCheckEscaped_idem (bs : List UInt8) :
    encodeValueCheckEscaped (encodeValueCheckEscaped bs) = encodeValueCheckEscaped bs :=
  encodeCheck_idem allowedValue_pct hex_allowedValue bs

/-- the heuristic rejects a non-hex "escape": `encode_value_check_escaped("%G1") = "%25G1"` -/
theorem checkEscaped_rejects_G1 : encodeValueCheckEscaped [37, 71, 49] = [37, 50, 53, 71, 49] := by decide
/-- … and keeps a lower-case, already escaped one: `encode_value_check_escaped("%c3%a9") = "%c3%a9"` -/
theorem checkEscaped_keeps_lower : encodeValueCheckEscaped [37, 99, 51, 37, 97, 57] = [37, 99, 51, 37, 97, 57] := by decide

/-! ### `parse_host` on the valid authority forms -/

theorem splitLast2_none_of_no93 : ∀ (p : List UInt8), (∀ c ∈ p, c ≠ 93) → splitLast2 p = none := by
  intro p
  induction p with
  | nil => intro _; rfl
  | cons c r ih =>
    intro h
    have hc : (c == 93) = false := by simpa using h c (by simp)
    rw [splitLast2, ih (fun x hx => h x (by simp [hx]))]
    cases r <;> simp [strip2, hc]

theorem splitLast2_last : ∀ (pre p : List UInt8), splitLast2 p = none →
    splitLast2 (pre ++ 93 :: 58 :: p) = some (pre, p) := by
  intro pre p hp
  induction pre with
  | nil =>
    have h58 : splitLast2 (58 :: p) = none := by
      rw [splitLast2, hp]
      cases p <;> simp [strip2]
    simp only [List.nil_append]
    rw [splitLast2, h58]; simp [strip2]
  | cons c cs ih =>
    simp only [List.cons_append]
    rw [splitLast2, ih]

theorem splitLast2_closing : ∀ (l : List UInt8), (∀ c ∈ l, c ≠ 93) → splitLast2 (l ++ [93]) = none := by
  intro l
  induction l with
  | nil => intro _; simp [splitLast2, strip2]
  | cons c r ih =>
    intro h
    have hc : (c == 93) = false := by simpa using h c (by simp)
    simp only [List.cons_append]
    rw [splitLast2, ih (fun x hx => h x (by simp [hx]))]
    cases r <;> simp [strip2, hc]

/-- `[v6]:port` (the LAST `]:` splits, so the result is right whatever the bracketed text contains; empty port = default) -/
theorem parseHost_v6_port (inner p : List UInt8) (hp : ∀ c ∈ p, c ≠ 93) :
    parseHost (91 :: inner ++ 93 :: 58 :: p) = (inner, portOf p) := by
  have := splitLast2_last (91 :: inner) p (splitLast2_none_of_no93 p hp)
  simp only [List.cons_append] at this
  unfold parseHost
  simp [this]

/-- `[v6]` without a port -/
theorem parseHost_v6 (inner : List UInt8) (hi : ∀ c ∈ inner, c ≠ 93) :
    parseHost (91 :: inner ++ [93]) = (inner, none) := by
  have := splitLast2_closing (91 :: inner) (by
    intro c hc
    rcases List.mem_cons.mp hc with rfl | hc
    · decide
    · exact hi c hc)
  simp only [List.cons_append] at this
  unfold parseHost
  simp [this]

theorem count_zero_of_no58 (h : List UInt8) (hh : ∀ c ∈ h, c ≠ 58) : h.count 58 = 0 :=
  List.count_eq_zero.mpr (fun hm => hh 58 hm rfl)

theorem partColon_split : ∀ (h p : List UInt8), (∀ c ∈ h, c ≠ 58) → partColon (h ++ 58 :: p) = (h, true, p) := by
  intro h p
  induction h with
  | nil => intro _; simp [partColon]
  | cons c r ih =>
    intro hh
    have hc : (c == 58) = false := by simpa using hh c (by simp)
    simp only [List.cons_append]
    rw [partColon, ih (fun x hx => hh x (by simp [hx]))]
    simp [hc]

/-- reg-name / IPv4 without a port -/
theorem parseHost_plain (h : List UInt8) (hh : ∀ c ∈ h, c ≠ 58) (hb : h.head? ≠ some 91) : parseHost h = (h, none) := by
  unfold parseHost
  rw [if_neg (by simpa using hb)]
  simp [count_zero_of_no58 h hh]

/-- reg-name / IPv4 with a port (empty port = default) -/
theorem parseHost_port (h p : List UInt8) (hh : ∀ c ∈ h, c ≠ 58) (hp : ∀ c ∈ p, c ≠ 58) (hb : (h ++ 58 :: p).head? ≠ some 91) :
    parseHost (h ++ 58 :: p) = (h, portOf p) := by
  unfold parseHost
  have hcount : (h ++ 58 :: p).count 58 = 1 := by
    rw [List.count_append, List.count_cons_self, count_zero_of_no58 h hh, count_zero_of_no58 p hp]
  rw [if_neg (by simpa using hb)]
  simp [hcount, partColon_split h p hh]

/-- `int()` on a digit string is its decimal value: e.g. "8080" -/
theorem natOfDigits_example : natOfDigits [56, 48, 56, 48] = some 8080 := by decide
end Uri

import FalconModel.UriEncode
import FalconModel.Utf8
import FalconModel.Utf8Enc
/-! C10 at the `str` level: `falcon.util.uri.decode` and the encoders of `_create_str_encoder` transcribed on strings
    (`List Nat` = code points), including the steps the byte-level model `Uri.*` leaves out: the `'+' in s` / `'%' in s`
    tests and `str.replace` happen on the str, `str.encode()` (`U8.encode`) happens only on the slow paths, the result
    of the token joiners goes through `bytes.decode('utf-8', 'replace')` (`U8.decodeReplace`), the encoders' `rstrip`
    fast path returns the str itself and `''.join(map(encode_char, …))` builds a str of ASCII characters. -/
namespace Us
open Probe (splitPct joinTokens joinTokensBA)
open Uri (encByte)

abbrev Str := List Nat

/-- `ch in allowed_chars` for a character of the str (`allowed` is the 256-entry table of `_create_char_encoder`) -/
def allowedCp (allowed : UInt8 → Bool) (c : Nat) : Bool := decide (c < 256) && allowed c.toUInt8

/-- `encoder(uri)` (check_is_escaped=False): `if not uri.rstrip(allowed_chars): return uri`, else
    `''.join(map(encode_char, uri.encode()))` -/
def encodeStr (allowed : UInt8 → Bool) (s : Str) : Str :=
  if s.all (allowedCp allowed) then s
  else ((U8.encode s).flatMap (encByte allowed)).map (·.toNat)

def encode : Str → Str := encodeStr Uri.allowedUri
def encodeValue : Str → Str := encodeStr Uri.allowedValue

/-- `str.replace('+', ' ')` -/
def replacePlus (s : Str) : Str := s.map (fun c => if c == 43 then 32 else c)

/-- `decode(encoded_uri, unquote_plus)` -/
def decode (plus : Bool) (s : Str) : Str :=
  let d := if s.contains 43 && plus then replacePlus s else s
  if !d.contains 37 then d                                -- `if '%' not in decoded_uri: return decoded_uri`
  else
    let tokens := splitPct (U8.encode d)                  -- `decoded_uri.encode().split(b'%')`
    U8.decodeReplace (if tokens.length < 8 then joinTokens tokens else joinTokensBA tokens)

/-! ### the check-escaped encoders on the str -/

/-- `ch in _HEX_DIGITS` -/
def isHexCp (c : Nat) : Bool := decide (c < 256) && Uri.isHex c.toUInt8

/-- `uri.split('%')` -/
def splitPctS : Str → List Str
  | [] => [[]]
  | c :: rest =>
    if c == 37 then [] :: splitPctS rest
    else match splitPctS rest with
      | t :: ts => (c :: t) :: ts
      | [] => [[c]]

/-- the loop body: `hex_octet = token[:2]`, two characters, both hex digits -/
def tokOkS : Str → Bool
  | a :: b :: _ => isHexCp a && isHexCp b
  | _ => false

/-- `not uri.rstrip(allowed_chars + '%')` and the `for token in tokens[1:]` loop ran to its `else` -/
def looksEscapedS (allowed : UInt8 → Bool) (s : Str) : Bool :=
  s.all (fun c => allowedCp allowed c || c == 37) && (splitPctS s).tail.all tokOkS

/-- `encoder(uri)` with `check_is_escaped=True` -/
def encodeCheckStr (allowed : UInt8 → Bool) (s : Str) : Str :=
  if s.all (allowedCp allowed) then s
  else if looksEscapedS allowed s then s
  else ((U8.encode s).flatMap (encByte allowed)).map (·.toNat)

def encodeCheckEscaped : Str → Str := encodeCheckStr Uri.allowedUri
def encodeValueCheckEscaped : Str → Str := encodeCheckStr Uri.allowedValue

/-! ### `parse_host` on the str (`startswith`, `rfind`, `find`, slices and `partition` count characters, not bytes) -/

/-- the text after a leading `]:`, if the string starts with it -/
def strip2 : Str → Option Str
  | c :: d :: a => if c == 93 && d == 58 then some a else none
  | _ => none

/-- `host.rfind(']:')` as a split: (`host[:pos]`, `host[pos+2:]`) for the LAST occurrence -/
def splitLast2 : Str → Option (Str × Str)
  | [] => none
  | c :: r =>
    match splitLast2 r with
    | some (b, a) => some (c :: b, a)
    | none => (strip2 (c :: r)).map (fun a => ([], a))

/-- `host.partition(':')` (name, found, port) -/
def partColon : Str → Str × Bool × Str
  | [] => ([], false, [])
  | c :: r => if c == 58 then ([], true, r) else let (n, f, p) := partColon r; (c :: n, f, p)

/-- the port text handed to `int()`; `none` = `default_port` (absent or empty) -/
def portOf (p : Str) : Option Str := if p.isEmpty then none else some p

/-- `parse_host(host)`: (host, text given to `int()` or none for the default) -/
def parseHost (host : Str) : Str × Option Str :=
  if host.head? == some 91 then          -- host.startswith('[')
    match splitLast2 host with
    | some (b, a) => (b.drop 1, portOf a)              -- host[1:pos], host[pos+2:]
    | none => ((host.drop 1).dropLast, none)           -- host[1:-1]: the last CHARACTER goes, whatever it is
  else
    -- `pos == -1 or pos != host.find(':')`  <=>  the number of ':' is not exactly one
    if host.count 58 != 1 then (host, none)
    else let (n, _, p) := partColon host; (n, portOf p)

/-- `int(port)` on the ASCII-digit subset (anything else is outside the model: `none`) -/
def natOfDigits (p : Str) : Option Nat :=
  if p.all (fun c => 48 ≤ c && c ≤ 57) && !p.isEmpty
  then some (p.foldl (fun acc c => acc * 10 + (c - 48)) 0) else none
end Us

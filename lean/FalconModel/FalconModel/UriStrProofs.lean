import FalconModel.UriStr
import FalconModel.UriEncodeProofs
import FalconModel.Utf8Proofs
/-! C10, str level: the byte-level theorems of `UriEncodeProofs` lifted through `str.encode()` / `bytes.decode('utf-8','replace')`. -/
namespace Us
open U8 (ValidScalar encodeCp)

/-- a string of Unicode scalar values (what `str.encode()` accepts) -/
def ValidStr (s : Str) : Prop := ∀ c ∈ s, ValidScalar c
instance (s : Str) : Decidable (ValidStr s) := by unfold ValidStr; exact inferInstance

theorem validStr_of_ascii (s : Str) (h : ∀ c ∈ s, c < 0x80) : ValidStr s := by
  intro c hc; have := h c hc; unfold ValidScalar; omega

def plusByte (c : UInt8) : UInt8 := if c == 43 then 32 else c

theorem validStr_replacePlus (s : Str) (h : ValidStr s) : ValidStr (replacePlus s) := by
  intro c hc
  unfold replacePlus at hc
  obtain ⟨x, hx, rfl⟩ := List.mem_map.mp hc
  split
  · unfold ValidScalar; omega
  · exact h x hx

/-- `'+' in s` / `'%' in s` on the str = the same test on the UTF-8 bytes -/
theorem contains_encode (s : Str) (hv : ValidStr s) (a : UInt8) (ha : a.toNat < 0x80) :
    (U8.encode s).contains a = s.contains a.toNat := by
  rw [Bool.eq_iff_iff]
  simp only [List.contains_eq_mem, decide_eq_true_eq]
  exact U8.mem_encode_ascii s hv a ha

/-- `s.replace('+',' ').encode() = s.encode().replace(b'+', b' ')` -/
theorem encode_replacePlus (s : Str) (hv : ValidStr s) : U8.encode (replacePlus s) = (U8.encode s).map plusByte := by
  induction s with
  | nil => rfl
  | cons c cs ih =>
    have ih := ih (fun x hx => hv x (by simp [hx]))
    unfold U8.encode replacePlus at ih ⊢
    rw [List.map_cons, List.flatMap_cons, List.flatMap_cons, List.map_append, ih]
    congr 1
    by_cases h43 : c = 43
    · subst h43; decide
    · have : (c == 43) = false := by simpa using h43
      simp only [this, Bool.false_eq_true, ↓reduceIte]
      symm
      rw [← List.map_id (encodeCp c)]
      rw [List.map_map]
      apply List.map_congr_left
      intro b hb
      simp only [Function.comp, id, plusByte]
      by_cases h : c < 0x80
      · rw [U8.encodeCp_ascii c h, List.mem_singleton] at hb
        subst hb
        have : (c.toUInt8 == 43) = false := by
          rw [beq_eq_false_iff_ne]
          intro e
          have := congrArg UInt8.toNat e
          rw [U8.toNat_toUInt8 _ (by omega)] at this
          exact h43 this
        simp [this]
      · have := U8.encodeCp_high c h (hv c (by simp)).lt b hb
        have : (b == 43) = false := by
          rw [beq_eq_false_iff_ne]
          intro e; subst e; simp at this
        simp [this]

theorem map_plusByte_id (l : List UInt8) (h : (43 : UInt8) ∉ l) : l.map plusByte = l := by
  have := Uri.map_plus_id l (fun c hc e => h (e ▸ hc))
  exact this

/-- **refinement**: for every string of scalar values, the str-level `decode` (str tests, str.replace, short-circuit that
    returns the str itself) equals the byte-level model on `s.encode()` followed by UTF-8 replace-decoding -/
theorem decode_eq_bytes (plus : Bool) (s : Str) (hv : ValidStr s) :
    decode plus s = U8.decodeReplace (Uri.decodePlus plus (U8.encode s)) := by
  have h43 : (43 : UInt8).toNat = 43 := rfl
  have h37 : (37 : UInt8).toNat = 37 := rfl
  -- the str after the '+' step and its bytes
  have key : ∀ d : Str, ValidStr d →
      (if !d.contains 37 then d else
        U8.decodeReplace (if (Probe.splitPct (U8.encode d)).length < 8 then Probe.joinTokens (Probe.splitPct (U8.encode d))
          else Probe.joinTokensBA (Probe.splitPct (U8.encode d)))) = U8.decodeReplace (Probe.decodeImpl (U8.encode d)) := by
    intro d hd
    unfold Probe.decodeImpl
    have hc := contains_encode d hd 37 (by decide)
    rw [h37] at hc
    rw [hc]
    split
    · exact (U8.decodeReplace_encode d hd).symm
    · rfl
  unfold decode Uri.decodePlus
  cases plus
  · simp only [Bool.and_false, Bool.false_eq_true, ↓reduceIte]
    exact key s hv
  · simp only [Bool.and_true, ↓reduceIte]
    have hc := contains_encode s hv 43 (by decide)
    rw [h43] at hc
    by_cases hp : s.contains 43 = true
    · simp only [hp, ↓reduceIte]
      rw [key (replacePlus s) (validStr_replacePlus s hv), encode_replacePlus s hv]
      rfl
    · have hp' : s.contains 43 = false := by simpa using hp
      simp only [hp', Bool.false_eq_true, ↓reduceIte]
      have hno : (43 : UInt8) ∉ U8.encode s := by
        intro hm
        have : (U8.encode s).contains 43 = true := by simpa using hm
        rw [hc, hp'] at this; exact Bool.noConfusion this
      have e := map_plusByte_id _ hno
      unfold plusByte at e
      rw [e]
      exact key s hv

/-- the str-level `rstrip` test = the byte-level `all allowed` test, for ASCII tables -/
theorem all_allowedCp (allowed : UInt8 → Bool) (hascii : ∀ b, allowed b = true → b.toNat < 0x80) (s : Str) (hv : ValidStr s) :
    s.all (allowedCp allowed) = (U8.encode s).all allowed := by
  induction s with
  | nil => rfl
  | cons c cs ih =>
    have ih := ih (fun x hx => hv x (by simp [hx]))
    unfold U8.encode at ih ⊢
    rw [List.all_cons, List.flatMap_cons, List.all_append, ih]
    congr 1
    by_cases h : c < 0x80
    · rw [U8.encodeCp_ascii c h]
      simp only [allowedCp, List.all_cons, List.all_nil, Bool.and_true]
      have : decide (c < 256) = true := by simp; omega
      rw [this, Bool.true_and]
    · have hhigh := U8.encodeCp_high c h (hv c (by simp)).lt
      have r : (encodeCp c).all allowed = false := by
        cases hq : encodeCp c with
        | nil => exact absurd hq (U8.encodeCp_ne_nil c)
        | cons b t =>
          have hb := hhigh b (by rw [hq]; simp)
          have : allowed b = false := by
            cases ha : allowed b with
            | false => rfl
            | true => have := hascii b ha; omega
          simp [this]
      rw [r]
      unfold allowedCp
      by_cases h256 : c < 256
      · have : allowed c.toUInt8 = false := by
          cases ha : allowed c.toUInt8 with
          | false => rfl
          | true =>
            have := hascii _ ha
            rw [U8.toNat_toUInt8 _ h256] at this; omega
        simp [this]
      · simp [h256]

theorem ascii_of_all_allowedCp (allowed : UInt8 → Bool) (hascii : ∀ b, allowed b = true → b.toNat < 0x80) (s : Str)
    (h : s.all (allowedCp allowed) = true) : ∀ c ∈ s, c < 0x80 := by
  intro c hc
  have := List.all_eq_true.mp h c hc
  unfold allowedCp at this
  simp only [Bool.and_eq_true, decide_eq_true_eq] at this
  have h2 := hascii _ this.2
  rw [U8.toNat_toUInt8 _ this.1] at h2
  exact h2

/-- the UTF-8 bytes of an ASCII string, mapped back to code points, are the string -/
theorem map_toNat_encode_ascii (s : Str) (h : ∀ c ∈ s, c < 0x80) : (U8.encode s).map (·.toNat) = s := by
  induction s with
  | nil => rfl
  | cons c cs ih =>
    have hc := h c (by simp)
    unfold U8.encode at ih ⊢
    rw [List.flatMap_cons, U8.encodeCp_ascii c hc, List.singleton_append, List.map_cons, ih (fun x hx => h x (by simp [hx])),
      U8.toNat_toUInt8 _ (by omega)]

/-- **refinement**: the str-level encoder = the byte-level encoder on `s.encode()`, read as ASCII characters -/
theorem encodeStr_eq_bytes (allowed : UInt8 → Bool) (hascii : ∀ b, allowed b = true → b.toNat < 0x80) (s : Str) (hv : ValidStr s) :
    encodeStr allowed s = (Uri.encodeWith allowed (U8.encode s)).map (·.toNat) := by
  unfold encodeStr Uri.encodeWith
  rw [← all_allowedCp allowed hascii s hv]
  split
  · rename_i hall
    exact (map_toNat_encode_ascii s (ascii_of_all_allowedCp allowed hascii s hall)).symm
  · rfl

/-- the output of a byte-level encoder is ASCII -/
theorem encodeWith_ascii (allowed : UInt8 → Bool) (hascii : ∀ b, allowed b = true → b.toNat < 0x80) (bs : List UInt8) :
    ∀ b ∈ Uri.encodeWith allowed bs, b.toNat < 0x80 := by
  intro b hb
  rcases Uri.encodeWith_charset allowed bs b hb with h | h | h
  · exact hascii b h
  · subst h; decide
  · unfold Uri.upperHex at h
    simp only [Bool.or_eq_true, Bool.and_eq_true, decide_eq_true_eq] at h
    omega

/-- **`encode_output_ascii`** (str level): every character of the encoders' output is ASCII: an allowed character, '%' or an
    upper-case hex digit -/
theorem encodeStr_charset (allowed : UInt8 → Bool) (hascii : ∀ b, allowed b = true → b.toNat < 0x80) (s : Str) (hv : ValidStr s) :
    ∀ c ∈ encodeStr allowed s, c < 0x80 ∧ (allowed c.toUInt8 = true ∨ c = 37 ∨ Uri.upperHex c.toUInt8 = true) := by
  intro c hc
  rw [encodeStr_eq_bytes allowed hascii s hv] at hc
  obtain ⟨b, hb, rfl⟩ := List.mem_map.mp hc
  have e : b.toNat.toUInt8 = b := UInt8.ofNat_toNat
  refine ⟨encodeWith_ascii allowed hascii _ b hb, ?_⟩
  rw [e]
  rcases Uri.encodeWith_charset allowed _ b hb with h | h | h
  · exact Or.inl h
  · subst h; exact Or.inr (Or.inl rfl)
  · exact Or.inr (Or.inr h)

/-- the encoders' result, encoded again with `str.encode()`, is the byte-level encoder's output -/
theorem encode_encodeStr (allowed : UInt8 → Bool) (hascii : ∀ b, allowed b = true → b.toNat < 0x80) (s : Str) (hv : ValidStr s) :
    U8.encode (encodeStr allowed s) = Uri.encodeWith allowed (U8.encode s) := by
  rw [encodeStr_eq_bytes allowed hascii s hv]
  exact U8.encode_map_toNat _ (encodeWith_ascii allowed hascii _)

theorem validStr_encodeStr (allowed : UInt8 → Bool) (hascii : ∀ b, allowed b = true → b.toNat < 0x80) (s : Str) (hv : ValidStr s) :
    ValidStr (encodeStr allowed s) :=
  validStr_of_ascii _ (fun c hc => (encodeStr_charset allowed hascii s hv c hc).1)

/-- **str-level output grammar**: the result is the ASCII string `( allowed | % UPPERHEX UPPERHEX )*` -/
theorem encodeStr_grammar (allowed : UInt8 → Bool) (h37 : allowed 37 = false) (hascii : ∀ b, allowed b = true → b.toNat < 0x80)
    (s : Str) (hv : ValidStr s) :
    ∃ out : List UInt8, encodeStr allowed s = out.map (·.toNat) ∧ (∀ b ∈ out, b.toNat < 0x80) ∧ Uri.wfEsc allowed out = true :=
  ⟨Uri.encodeWith allowed (U8.encode s), encodeStr_eq_bytes allowed hascii s hv, encodeWith_ascii allowed hascii _,
    Uri.encodeWith_wf h37 _⟩

/-- str-level round trip for any encoder table that is ASCII and excludes '%' and '+' -/
theorem decode_encodeStr (allowed : UInt8 → Bool) (h37 : allowed 37 = false) (h43 : allowed 43 = false)
    (hascii : ∀ b, allowed b = true → b.toNat < 0x80) (plus : Bool) (s : Str) (hv : ValidStr s) :
    decode plus (encodeStr allowed s) = s := by
  rw [decode_eq_bytes plus _ (validStr_encodeStr allowed hascii s hv), encode_encodeStr allowed hascii s hv,
    Uri.decodePlus_encodeWith h37 h43, U8.decodeReplace_encode s hv]

theorem allowedValue_ascii : ∀ b, Uri.allowedValue b = true → b.toNat < 0x80 := by
  intro b hb
  unfold Uri.allowedValue at hb
  simp only [List.contains_eq_mem, decide_eq_true_eq] at hb
  have : ∀ x ∈ Uri.unreservedTab, x.toNat < 0x80 := by decide
  exact this b hb
theorem allowedUri_ascii : ∀ b, Uri.allowedUri b = true → b.toNat < 0x80 := by
  intro b hb
  unfold Uri.allowedUri at hb
  simp only [List.contains_eq_mem, decide_eq_true_eq] at hb
  have : ∀ x ∈ Uri.unreservedTab ++ Uri.delimTab, x.toNat < 0x80 := by decide
  exact this b hb

/-- **`decode(encode_value(s), unquote_plus) == s`** for every `str` of scalar values and both settings of `unquote_plus` -/
theorem decode_encode_value_str (plus : Bool) (s : Str) (hv : ValidStr s) : decode plus (encodeValue s) = s :=
  decode_encodeStr Uri.allowedValue Uri.allowedValue_pct Uri.allowedValue_plus allowedValue_ascii plus s hv

/-- **`decode(encode(s), unquote_plus=False) == s`** for every `str` of scalar values -/
theorem decode_encode_uri_str (s : Str) (hv : ValidStr s) : decode false (encode s) = s := by
  unfold encode
  rw [decode_eq_bytes false _ (validStr_encodeStr _ allowedUri_ascii s hv), encode_encodeStr _ allowedUri_ascii s hv]
  have := Uri.decode_encode_uri (U8.encode s)
  unfold Uri.encode at this
  rw [this, U8.decodeReplace_encode s hv]

example : ValidStr [0x61, 0x2B, 0x25, 0xE9, 0x20AC, 0x1F600, 0x10FFFF] := by decide
example : decode true (encodeValue [0x61, 0x2B, 0x25, 0xE9, 0x20AC, 0x1F600, 0x10FFFF]) = [0x61, 0x2B, 0x25, 0xE9, 0x20AC, 0x1F600, 0x10FFFF] := by
  decide
/-- whole-URI encoding keeps '+', so `unquote_plus=True` does not round-trip "a+b" (str level) -/
theorem decode_encode_uri_str_plus_witness : decode true (encode [97, 43, 98]) = [97, 32, 98] := by decide

/-- **`decode_str_total`**: `decode` returns a `str` of Unicode scalar values for every input of scalar values - no exception,
    no lone surrogate, so the result can be encoded again -/
theorem decode_str_total (plus : Bool) (s : Str) (hv : ValidStr s) : ValidStr (decode plus s) := by
  rw [decode_eq_bytes plus s hv]
  exact U8.decodeReplace_scalar _

theorem encodeValue_charset (s : Str) (hv : ValidStr s) :
    ∀ c ∈ encodeValue s, c < 0x80 ∧ (Uri.allowedValue c.toUInt8 = true ∨ c = 37 ∨ Uri.upperHex c.toUInt8 = true) :=
  encodeStr_charset _ allowedValue_ascii s hv
theorem encode_charset (s : Str) (hv : ValidStr s) :
    ∀ c ∈ encode s, c < 0x80 ∧ (Uri.allowedUri c.toUInt8 = true ∨ c = 37 ∨ Uri.upperHex c.toUInt8 = true) :=
  encodeStr_charset _ allowedUri_ascii s hv
theorem encodeValue_grammar (s : Str) (hv : ValidStr s) :
    ∃ out : List UInt8, encodeValue s = out.map (·.toNat) ∧ (∀ b ∈ out, b.toNat < 0x80) ∧ Uri.wfEsc Uri.allowedValue out = true :=
  encodeStr_grammar _ Uri.allowedValue_pct allowedValue_ascii s hv
theorem encode_grammar (s : Str) (hv : ValidStr s) :
    ∃ out : List UInt8, encode s = out.map (·.toNat) ∧ (∀ b ∈ out, b.toNat < 0x80) ∧ Uri.wfEsc Uri.allowedUri out = true :=
  encodeStr_grammar _ Uri.allowedUri_pct allowedUri_ascii s hv
/-! ### `parse_host` on the str -/

theorem splitLast2_none_of_no93 : ∀ (p : Str), (∀ c ∈ p, c ≠ 93) → splitLast2 p = none := by
  intro p
  induction p with
  | nil => intro _; rfl
  | cons c r ih =>
    intro h
    have hc : (c == 93) = false := by simpa using h c (by simp)
    rw [splitLast2, ih (fun x hx => h x (by simp [hx]))]
    cases r <;> simp [strip2, hc]

theorem splitLast2_last : ∀ (pre p : Str), splitLast2 p = none →
    splitLast2 (pre ++ 93 :: 58 :: p) = some (pre, p) := by
  intro pre p hp
  induction pre with
  | nil =>
    have h58 : splitLast2 (58 :: p) = none := by
      rw [splitLast2, hp]
      cases p <;> simp [strip2]
    simp only [List.nil_append]
    rw [splitLast2, h58]; simp [strip2]
  | cons c cs ih =>
    simp only [List.cons_append]
    rw [splitLast2, ih]

theorem splitLast2_closing : ∀ (l : Str), (∀ c ∈ l, c ≠ 93) → splitLast2 (l ++ [93]) = none := by
  intro l
  induction l with
  | nil => intro _; simp [splitLast2, strip2]
  | cons c r ih =>
    intro h
    have hc : (c == 93) = false := by simpa using h c (by simp)
    simp only [List.cons_append]
    rw [splitLast2, ih (fun x hx => h x (by simp [hx]))]
    cases r <;> simp [strip2, hc]

/-- `[v6]:port` on the str: the LAST `]:` splits; empty port = default -/
theorem parseHost_v6_port (inner p : Str) (hp : ∀ c ∈ p, c ≠ 93) :
    parseHost (91 :: inner ++ 93 :: 58 :: p) = (inner, portOf p) := by
  have := splitLast2_last (91 :: inner) p (splitLast2_none_of_no93 p hp)
  simp only [List.cons_append] at this
  unfold parseHost
  simp [this]

/-- `[v6]` without a port -/
theorem parseHost_v6 (inner : Str) (hi : ∀ c ∈ inner, c ≠ 93) :
    parseHost (91 :: inner ++ [93]) = (inner, none) := by
  have := splitLast2_closing (91 :: inner) (by
    intro c hc
    rcases List.mem_cons.mp hc with rfl | hc
    · decide
    · exact hi c hc)
  simp only [List.cons_append] at this
  unfold parseHost
  simp [this]

theorem count_zero_of_no58 (h : Str) (hh : ∀ c ∈ h, c ≠ 58) : h.count 58 = 0 :=
  List.count_eq_zero.mpr (fun hm => hh 58 hm rfl)

theorem partColon_split : ∀ (h p : Str), (∀ c ∈ h, c ≠ 58) → partColon (h ++ 58 :: p) = (h, true, p) := by
  intro h p
  induction h with
  | nil => intro _; simp [partColon]
  | cons c r ih =>
    intro hh
    have hc : (c == 58) = false := by simpa using hh c (by simp)
    simp only [List.cons_append]
    rw [partColon, ih (fun x hx => hh x (by simp [hx]))]
    simp [hc]

/-- reg-name / IPv4 without a port (any characters, non-ASCII included) -/
theorem parseHost_plain (h : Str) (hh : ∀ c ∈ h, c ≠ 58) (hb : h.head? ≠ some 91) : parseHost h = (h, none) := by
  unfold parseHost
  rw [if_neg (by simpa using hb)]
  simp [count_zero_of_no58 h hh]

/-- reg-name / IPv4 with a port (empty port = default) -/
theorem parseHost_port (h p : Str) (hh : ∀ c ∈ h, c ≠ 58) (hp : ∀ c ∈ p, c ≠ 58) (hb : (h ++ 58 :: p).head? ≠ some 91) :
    parseHost (h ++ 58 :: p) = (h, portOf p) := by
  unfold parseHost
  have hcount : (h ++ 58 :: p).count 58 = 1 := by
    rw [List.count_append, List.count_cons_self, count_zero_of_no58 h hh, count_zero_of_no58 p hp]
  rw [if_neg (by simpa using hb)]
  simp [hcount, partColon_split h p hh]

example : parseHost [91, 0x3A, 0x3A, 0x31, 93, 58, 56, 48] = ([0x3A, 0x3A, 0x31], some [56, 48]) := by decide
/-- why the str-level model is needed: on "[é" (no closing bracket) `host[1:-1]` drops the CHARACTER é and returns "",
    whereas the byte-level model `Uri.parseHost` drops one byte and leaves the lone lead byte C3 -/
theorem parseHost_bytes_differs_witness :
    (parseHost [91, 233]).1 = [] ∧ (Uri.parseHost (U8.encode [91, 233])).1 = [0xC3] := by decide

/-! ### the check-escaped encoders on the str -/

/-- the UTF-8 bytes of an ASCII string are its characters -/
theorem encode_ascii (s : Str) (h : ∀ c ∈ s, c < 0x80) : U8.encode s = s.map Nat.toUInt8 := by
  induction s with
  | nil => rfl
  | cons c cs ih =>
    unfold U8.encode at ih ⊢
    rw [List.flatMap_cons, U8.encodeCp_ascii c (h c (by simp)), ih (fun x hx => h x (by simp [hx]))]
    rfl

theorem toUInt8_eq_37 (c : Nat) (h : c < 256) : (c.toUInt8 == 37) = (c == 37) := by
  rw [Bool.eq_iff_iff]
  simp only [beq_iff_eq]
  constructor
  · intro e
    have := congrArg UInt8.toNat e
    rw [U8.toNat_toUInt8 _ h] at this
    exact this
  · intro e; subst e; rfl

theorem splitPctS_ne_nil (s : Str) : splitPctS s ≠ [] := by
  cases s with
  | nil => simp [splitPctS]
  | cons c rest =>
    simp only [splitPctS]
    split
    · simp
    · split <;> simp

/-- `s.encode().split(b'%')` = `s.split('%')` token by token, for an ASCII string -/
theorem splitPct_map (s : Str) (h : ∀ c ∈ s, c < 0x80) :
    Probe.splitPct (s.map Nat.toUInt8) = (splitPctS s).map (·.map Nat.toUInt8) := by
  induction s with
  | nil => rfl
  | cons c cs ih =>
    have ih := ih (fun x hx => h x (by simp [hx]))
    have hc := h c (by simp)
    rw [List.map_cons, Probe.splitPct, splitPctS, toUInt8_eq_37 c (by omega), ih]
    by_cases e : (c == 37) = true
    · simp [e]
    · have e' : (c == 37) = false := by simpa using e
      simp only [e', Bool.false_eq_true, ↓reduceIte]
      cases hs : splitPctS cs with
      | nil => exact absurd hs (splitPctS_ne_nil cs)
      | cons t ts => simp

theorem splitPctS_ascii (s : Str) (h : ∀ c ∈ s, c < 0x80) : ∀ t ∈ splitPctS s, ∀ c ∈ t, c < 0x80 := by
  induction s with
  | nil => intro t ht; simp [splitPctS] at ht; subst ht; simp
  | cons c cs ih =>
    have ih := ih (fun x hx => h x (by simp [hx]))
    have hc := h c (by simp)
    intro t ht
    rw [splitPctS] at ht
    split at ht
    · rcases List.mem_cons.mp ht with rfl | ht
      · simp
      · exact ih t ht
    · cases hs : splitPctS cs with
      | nil => exact absurd hs (splitPctS_ne_nil cs)
      | cons t0 ts =>
        rw [hs] at ht ih
        simp only [List.mem_cons] at ht
        rcases ht with rfl | ht
        · intro x hx
          rcases List.mem_cons.mp hx with rfl | hx
          · exact hc
          · exact ih t0 (by simp) x hx
        · exact ih t (by simp [ht])

theorem tokOk_map (t : Str) (h : ∀ c ∈ t, c < 0x80) : Uri.tokOk (t.map Nat.toUInt8) = tokOkS t := by
  match t, h with
  | [], _ => rfl
  | [a], _ => rfl
  | a :: b :: r, h =>
    have ha := h a (by simp)
    have hb := h b (by simp)
    simp only [List.map_cons, Uri.tokOk, tokOkS, isHexCp]
    have : decide (a < 256) = true := by simp; omega
    have : decide (b < 256) = true := by simp; omega
    simp [*]

theorem allowedCp_or_pct (allowed : UInt8 → Bool) (c : Nat) :
    (allowedCp allowed c || c == 37) = allowedCp (fun b => allowed b || b == 37) c := by
  unfold allowedCp
  by_cases h : c < 256
  · have : decide (c < 256) = true := by simpa using h
    rw [this, Bool.true_and, Bool.true_and]
    show _ = (allowed c.toUInt8 || c.toUInt8 == 37)
    rw [toUInt8_eq_37 c h]
  · have : decide (c < 256) = false := by simpa using h
    rw [this, Bool.false_and, Bool.false_and, Bool.false_or]
    rw [beq_eq_false_iff_ne]; omega

/-- the str-level "already escaped?" heuristic = the byte-level one on `s.encode()` -/
theorem looksEscapedS_eq (allowed : UInt8 → Bool) (hascii : ∀ b, allowed b = true → b.toNat < 0x80) (s : Str) (hv : ValidStr s) :
    looksEscapedS allowed s = Uri.looksEscaped allowed (U8.encode s) := by
  unfold looksEscapedS Uri.looksEscaped
  have hascii' : ∀ b, (allowed b || b == 37) = true → b.toNat < 0x80 := by
    intro b hb
    rcases Bool.or_eq_true_iff.mp hb with h | h
    · exact hascii b h
    · have : b = 37 := by simpa using h
      subst this; decide
  have h1 : s.all (fun c => allowedCp allowed c || c == 37) = (U8.encode s).all (fun c => allowed c || c == 37) := by
    rw [← all_allowedCp _ hascii' s hv]
    congr 1
    funext c
    exact allowedCp_or_pct allowed c
  rw [← h1]
  by_cases hall : s.all (fun c => allowedCp allowed c || c == 37) = true
  · rw [hall, Bool.true_and, Bool.true_and]
    have hs : ∀ c ∈ s, c < 0x80 := by
      apply ascii_of_all_allowedCp _ hascii' s
      rw [← hall]; congr 1; funext c; exact (allowedCp_or_pct allowed c).symm
    rw [encode_ascii s hs, splitPct_map s hs, ← List.map_tail, List.all_map]
    have hta := splitPctS_ascii s hs
    rw [List.all_eq, List.all_eq]
    apply decide_eq_decide.mpr
    constructor
    · intro hh t ht
      show Uri.tokOk (t.map Nat.toUInt8) = true
      rw [tokOk_map t (hta t (List.mem_of_mem_tail ht))]
      exact hh t ht
    · intro hh t ht
      have := hh t ht
      change Uri.tokOk (t.map Nat.toUInt8) = true at this
      rwa [tokOk_map t (hta t (List.mem_of_mem_tail ht))] at this
  · have : s.all (fun c => allowedCp allowed c || c == 37) = false := by simpa using hall
    rw [this, Bool.false_and, Bool.false_and]

theorem ascii_of_looksEscapedS (allowed : UInt8 → Bool) (hascii : ∀ b, allowed b = true → b.toNat < 0x80) (s : Str)
    (h : looksEscapedS allowed s = true) : ∀ c ∈ s, c < 0x80 := by
  unfold looksEscapedS at h
  rw [Bool.and_eq_true] at h
  have hascii' : ∀ b, (allowed b || b == 37) = true → b.toNat < 0x80 := by
    intro b hb
    rcases Bool.or_eq_true_iff.mp hb with h | h
    · exact hascii b h
    · have : b = 37 := by simpa using h
      subst this; decide
  apply ascii_of_all_allowedCp _ hascii' s
  rw [← h.1]; congr 1; funext c; exact (allowedCp_or_pct allowed c).symm

/-- **refinement**: the str-level check-escaped encoder = the byte-level one on `s.encode()`, read as ASCII characters -/
theorem encodeCheckStr_eq_bytes (allowed : UInt8 → Bool) (hascii : ∀ b, allowed b = true → b.toNat < 0x80) (s : Str) (hv : ValidStr s) :
    encodeCheckStr allowed s = (Uri.encodeCheck allowed (U8.encode s)).map (·.toNat) := by
  unfold encodeCheckStr Uri.encodeCheck
  rw [← all_allowedCp allowed hascii s hv, ← looksEscapedS_eq allowed hascii s hv]
  split
  · rename_i hall
    exact (map_toNat_encode_ascii s (ascii_of_all_allowedCp allowed hascii s hall)).symm
  · split
    · rename_i hl
      exact (map_toNat_encode_ascii s (ascii_of_looksEscapedS allowed hascii s hl)).symm
    · rfl

/-- the output of a byte-level check-escaped encoder is ASCII -/
theorem encodeCheck_ascii (allowed : UInt8 → Bool) (hascii : ∀ b, allowed b = true → b.toNat < 0x80) (bs : List UInt8) :
    ∀ b ∈ Uri.encodeCheck allowed bs, b.toNat < 0x80 := by
  intro b hb
  unfold Uri.encodeCheck at hb
  split at hb
  · rename_i hall
    exact hascii b (List.all_eq_true.mp hall b hb)
  · split at hb
    · rename_i hl
      unfold Uri.looksEscaped at hl
      rw [Bool.and_eq_true] at hl
      have := List.all_eq_true.mp hl.1 b hb
      rcases Bool.or_eq_true_iff.mp this with h | h
      · exact hascii b h
      · have : b = 37 := by simpa using h
        subst this; decide
    · obtain ⟨x, _, hx⟩ := List.mem_flatMap.mp hb
      rcases Uri.encByte_charset allowed x b hx with h | h | h
      · exact hascii b h
      · subst h; decide
      · unfold Uri.upperHex at h
        simp only [Bool.or_eq_true, Bool.and_eq_true, decide_eq_true_eq] at h
        omega

theorem encode_encodeCheckStr (allowed : UInt8 → Bool) (hascii : ∀ b, allowed b = true → b.toNat < 0x80) (s : Str) (hv : ValidStr s) :
    U8.encode (encodeCheckStr allowed s) = Uri.encodeCheck allowed (U8.encode s) := by
  rw [encodeCheckStr_eq_bytes allowed hascii s hv]
  exact U8.encode_map_toNat _ (encodeCheck_ascii allowed hascii _)

theorem validStr_encodeCheckStr (allowed : UInt8 → Bool) (hascii : ∀ b, allowed b = true → b.toNat < 0x80) (s : Str) (hv : ValidStr s) :
    ValidStr (encodeCheckStr allowed s) := by
  apply validStr_of_ascii
  intro c hc
  rw [encodeCheckStr_eq_bytes allowed hascii s hv] at hc
  obtain ⟨b, hb, rfl⟩ := List.mem_map.mp hc
  exact encodeCheck_ascii allowed hascii _ b hb

/-- **str-level idempotence** of the check-escaped encoders -/
theorem encodeCheckStr_idem (allowed : UInt8 → Bool) (h37 : allowed 37 = false) (hhex : ∀ c, Uri.isHex c = true → allowed c = true)
    (hascii : ∀ b, allowed b = true → b.toNat < 0x80) (s : Str) (hv : ValidStr s) :
    encodeCheckStr allowed (encodeCheckStr allowed s) = encodeCheckStr allowed s := by
  rw [encodeCheckStr_eq_bytes allowed hascii _ (validStr_encodeCheckStr allowed hascii s hv),
    encode_encodeCheckStr allowed hascii s hv, Uri.encodeCheck_idem h37 hhex, ← encodeCheckStr_eq_bytes allowed hascii s hv]

/-- **str-level fixpoint**: a string whose UTF-8 bytes are `( allowed | % HEXDIG HEXDIG )*` (hence ASCII) is returned unchanged -/
theorem encodeCheckStr_fixpoint (allowed : UInt8 → Bool) (hhex : ∀ c, Uri.isHex c = true → allowed c = true)
    (hascii : ∀ b, allowed b = true → b.toNat < 0x80) (s : Str) (hv : ValidStr s)
    (he : Uri.escaped allowed (U8.encode s) = true) : encodeCheckStr allowed s = s := by
  have hl := Uri.escaped_looksEscaped hhex _ he
  rw [← looksEscapedS_eq allowed hascii s hv] at hl
  unfold encodeCheckStr
  rw [if_pos hl]
  split <;> rfl

theorem encodeCheckEscaped_idem (s : Str) (hv : ValidStr s) : encodeCheckEscaped (encodeCheckEscaped s) = encodeCheckEscaped s :=
  encodeCheckStr_idem _ Uri.allowedUri_pct Uri.hex_allowedUri allowedUri_ascii s hv
theorem encodeValueCheckEscaped_idem (s : Str) (hv : ValidStr s) :
    encodeValueCheckEscaped (encodeValueCheckEscaped s) = encodeValueCheckEscaped s :=
  encodeCheckStr_idem _ Uri.allowedValue_pct Uri.hex_allowedValue allowedValue_ascii s hv
theorem encodeCheckEscaped_fixpoint (s : Str) (hv : ValidStr s) (he : Uri.escaped Uri.allowedUri (U8.encode s) = true) :
    encodeCheckEscaped s = s := encodeCheckStr_fixpoint _ Uri.hex_allowedUri allowedUri_ascii s hv he
theorem encodeValueCheckEscaped_fixpoint (s : Str) (hv : ValidStr s) (he : Uri.escaped Uri.allowedValue (U8.encode s) = true) :
    encodeValueCheckEscaped s = s := encodeCheckStr_fixpoint _ Uri.hex_allowedValue allowedValue_ascii s hv he
example : Uri.escaped Uri.allowedValue (U8.encode [37, 99, 51, 37, 65, 57, 97]) = true := by decide
example : encodeValueCheckEscaped [37, 71, 49, 233] = [37, 50, 53, 71, 49, 37, 67, 51, 37, 65, 57] := by decide
end Us

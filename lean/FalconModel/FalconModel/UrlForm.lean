import FalconModel.Getters
import FalconModel.Query
/-! C12: `falcon.media.urlencoded.URLEncodedFormHandler` on top of the C08 models.

    `serialize(media)` is `urllib.parse.urlencode(media, doseq=True).encode()` — NOT falcon's own `to_query_str`:
    every name and value goes through `quote_plus` (always-safe set `A-Za-z0-9_.-~`, a space becomes '+', every other
    byte of the UTF-8 encoding `%XX` upper case), a list value contributes one `name=value` field per element, the
    fields are joined with '&' (no trailing '&').  `_deserialize(body)` is `body.decode('ascii')` followed by
    `parse_query_string(body_str, keep_blank=self._keep_blank, csv=self._csv)` (model `Qs.parseQS`), and ANY exception is
    turned into `MediaMalformedError` (here: the only one, a byte >= 0x80).  Documents are mappings (or sequences of
    pairs) from `str` to `str` / list of `str`, given by their UTF-8 bytes like in the C08 models. -/
namespace Uf
open Qs (Bytes Params parseQS)
open Gt (BVal)
open Uri (allowedValue encodeWith)

/-- `URLEncodedFormHandler.__init__(self, keep_blank=True, csv=False)` -/
structure Handler where
  keepBlank : Bool := true
  csv : Bool := false
  deriving Repr

/-- the always-safe set of `urllib.parse.quote` plus the space that `quote_plus` adds to `safe` -/
def allowedSp (c : UInt8) : Bool := allowedValue c || c == 32

/-- `urllib.parse.quote_plus(s)` (safe=''): `if ' ' in s: quote(s, ' ').replace(' ', '+') else quote(s)`;
    `quote` has the same `rstrip` fast path and per-byte `'%{:02X}'` map as falcon's encoders (`Uri.encodeWith`). -/
def quotePlus (x : Bytes) : Bytes :=
  if x.contains 32 then (encodeWith allowedSp x).map (fun c => if c == 32 then 43 else c)
  else encodeWith allowedValue x

/-- the `l.append(k + '=' + v)` calls one item makes under `doseq=True` (a `str` value: one; a list: one per element) -/
def fieldsOf (kv : Bytes × BVal) : List Bytes :=
  match kv.2 with
  | .one v => [quotePlus kv.1 ++ 61 :: quotePlus v]
  | .many vs => vs.map fun lv => quotePlus kv.1 ++ 61 :: quotePlus lv

/-- `'&'.join(l)` -/
def joinAnd : List Bytes → Bytes
  | [] => []
  | [x] => x
  | x :: r => x ++ 38 :: joinAnd r

/-- `urlencode(media, doseq=True)` -/
def urlencode (m : List (Bytes × BVal)) : Bytes := joinAnd (m.flatMap fieldsOf)

/-- `URLEncodedFormHandler.serialize(media)` (the `.encode()` of an all-ASCII `str` is the same bytes) -/
def serialize (_h : Handler) (m : List (Bytes × BVal)) : Bytes := urlencode m

/-- `URLEncodedFormHandler._deserialize(body)`: `none` = `MediaMalformedError('URL-encoded')` (the body is not ASCII);
    an empty body is the empty mapping -/
def deserialize (h : Handler) (body : Bytes) : Option Params :=
  if body.all (fun c => c.toNat < 128) then some (parseQS body h.keepBlank h.csv) else none

/-! ### the normal form a document comes back in -/

/-- a `name=value` pair survives parsing: the value is non-empty, or blank values are kept and the name is non-empty -/
def keeps (kb : Bool) (k x : Bytes) : Bool := !x.isEmpty || (kb && !k.isEmpty)

def valuesOf : BVal → List Bytes
  | .one v => [v]
  | .many vs => vs

/-- what one item reads back as: the surviving values; none of them - the name is absent; exactly one - a plain string
    (also for a one-element list); two or more - a list -/
def normItem (kb : Bool) (kv : Bytes × BVal) : Option (Bytes × BVal) :=
  match (valuesOf kv.2).filter (keeps kb kv.1) with
  | [] => none
  | [x] => some (kv.1, .one x)
  | xs => some (kv.1, .many xs)

def normalForm (kb : Bool) (m : List (Bytes × BVal)) : List (Bytes × BVal) := m.filterMap (normItem kb)

end Uf

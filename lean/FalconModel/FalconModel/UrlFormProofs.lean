import FalconModel.UrlForm
import FalconModel.ToQueryStrProofs
/-! C12: the URL-encoded form round trip `deserialize(serialize(d)) = normalForm d`, on top of the C08 theorems
    (`Qs.parseQS_eq_ref`, `Gt.refOf_entries`, `Gt.parse_toQueryStr`). -/
namespace Uf
open Qs (Bytes Str Val Params splitOn partitionEq decodeStr fieldEntry entries Entry parseQS refOf)
open Gt (BVal dec decV decMap)
open Uri
open Probe

/-! ### `quote_plus` -/
theorem allowedSp_pct : allowedSp 37 = false := by decide

theorem encSp_no43 (x : Bytes) : ∀ c ∈ encodeWith allowedSp x, c ≠ 43 := by
  intro c hc h; subst h
  rcases encodeWith_charset allowedSp x _ hc with h | h | h
  · exact absurd h (by decide)
  · exact absurd h (by decide)
  · exact absurd h (by decide)

/-- **output alphabet of `quote_plus`**: always-safe characters, '+', '%', upper-case hex digits -/
theorem quotePlus_charset (x : Bytes) : ∀ c ∈ quotePlus x, allowedValue c = true ∨ c = 43 ∨ c = 37 ∨ upperHex c = true := by
  intro c hc
  unfold quotePlus at hc
  split at hc
  · obtain ⟨a, ha, rfl⟩ := List.mem_map.1 hc
    by_cases h32 : a = 32
    · subst h32; exact Or.inr (Or.inl rfl)
    · have hb : (a == 32) = false := by simpa using h32
      simp only [hb, Bool.false_eq_true, if_false]
      rcases encodeWith_charset allowedSp x a ha with h | h | h
      · unfold allowedSp at h; rw [hb, Bool.or_false] at h; exact Or.inl h
      · exact Or.inr (Or.inr (Or.inl h))
      · exact Or.inr (Or.inr (Or.inr h))
  · rcases encodeWith_charset allowedValue x c hc with h | h | h
    · exact Or.inl h
    · exact Or.inr (Or.inr (Or.inl h))
    · exact Or.inr (Or.inr (Or.inr h))

theorem quotePlus_no (x : Bytes) (d : UInt8) (hd : allowedValue d = false) (h43 : d ≠ 43) (h37 : d ≠ 37) (hh : upperHex d = false) :
    ∀ c ∈ quotePlus x, c ≠ d := by
  intro c hc he; subst he
  rcases quotePlus_charset x _ hc with h | h | h | h
  · rw [hd] at h; exact Bool.noConfusion h
  · exact h43 h
  · exact h37 h
  · rw [hh] at h; exact Bool.noConfusion h

theorem qp_no38 (x : Bytes) : ∀ c ∈ quotePlus x, c ≠ 38 := quotePlus_no x 38 (by decide) (by decide) (by decide) (by decide)
theorem qp_no61 (x : Bytes) : ∀ c ∈ quotePlus x, c ≠ 61 := quotePlus_no x 61 (by decide) (by decide) (by decide) (by decide)
theorem qp_no44 (x : Bytes) : ∀ c ∈ quotePlus x, c ≠ 44 := quotePlus_no x 44 (by decide) (by decide) (by decide) (by decide)

theorem unresTab_ascii : unreservedTab.all (fun c => c.toNat < 128) = true := by decide

/-- the output of `quote_plus` is ASCII -/
theorem quotePlus_ascii (x : Bytes) : ∀ c ∈ quotePlus x, c.toNat < 128 := by
  intro c hc
  rcases quotePlus_charset x c hc with h | h | h | h
  · unfold allowedValue at h
    have hm : c ∈ unreservedTab := by simpa using h
    have := List.all_eq_true.1 unresTab_ascii c hm
    simpa using this
  · subst h; decide
  · subst h; decide
  · unfold upperHex at h
    simp only [Bool.or_eq_true, Bool.and_eq_true, decide_eq_true_eq] at h
    omega

theorem map_sp_id (l : Bytes) (h : ∀ c ∈ l, c ≠ 43) :
    (l.map (fun c => if c == 32 then 43 else c)).map (fun c => if c == 43 then 32 else c) = l := by
  induction l with
  | nil => rfl
  | cons c cs ih =>
    simp only [List.map_cons]
    rw [ih (fun x hx => h x (by simp [hx]))]
    congr 1
    by_cases h32 : c = 32
    · subst h32; rfl
    · have h43 : (c == 43) = false := by simpa using h c (by simp)
      have hb : (c == 32) = false := by simpa using h32
      simp only [hb, Bool.false_eq_true, if_false, h43]

/-- falcon's `decode(…, unquote_plus=True)` undoes `quote_plus`, byte for byte -/
theorem unquote_quotePlus (x : Bytes) : decodeImpl ((quotePlus x).map (fun c => if c == 43 then 32 else c)) = x := by
  unfold quotePlus
  split
  · rw [map_sp_id _ (encSp_no43 x), decodeImpl_eq_ref, decode_encodeWith allowedSp_pct]
  · have := decode_encode_value true x
    unfold decodePlus encodeValue at this
    simpa using this

theorem decodeStr_quotePlus (x : Bytes) : decodeStr (quotePlus x) = U8.decodeReplace x := by
  unfold decodeStr; rw [unquote_quotePlus]

theorem quotePlus_isEmpty (x : Bytes) : (quotePlus x).isEmpty = x.isEmpty := by
  cases x with
  | nil => rfl
  | cons c r =>
    cases h : quotePlus (c :: r) with
    | nil =>
      have := unquote_quotePlus (c :: r)
      rw [h] at this
      exact absurd this (by simp [decodeImpl])
    | cons _ _ => rfl

/-! ### one `name=value` field of the rendering, read by the parser -/
abbrev mk (k x : Bytes) : Entry := ⟨dec k, [dec x], false⟩

theorem fieldEntry_field (kb csv : Bool) (k v : Bytes) :
    fieldEntry kb csv (quotePlus k ++ 61 :: quotePlus v) = if keeps kb k v then some (mk k v) else none := by
  unfold fieldEntry
  rw [Qs.partitionEq_first _ _ (qp_no61 k)]
  have hcomma : (csv && (quotePlus v).contains 44) = false := by
    have : (quotePlus v).contains 44 = false := by
      simp only [List.contains_eq_mem, decide_eq_false_iff_not]
      exact fun hm => qp_no44 v 44 hm rfl
    rw [this]; simp
  simp only [quotePlus_isEmpty, hcomma, decodeStr_quotePlus]
  unfold keeps mk
  cases v.isEmpty <;> cases kb <;> cases k.isEmpty <;> rfl

theorem filterMap_values (kb csv : Bool) (k : Bytes) : ∀ (vs : List Bytes),
    (vs.map fun lv => quotePlus k ++ 61 :: quotePlus lv).filterMap (fieldEntry kb csv) = (vs.filter (keeps kb k)).map (mk k)
  | [] => rfl
  | x :: r => by
    simp only [List.map_cons, List.filterMap_cons, List.filter_cons]
    rw [fieldEntry_field, filterMap_values kb csv k r]
    cases keeps kb k x <;> rfl

/-- what the parser reads from the fields of one item: the surviving values, each as a scalar entry under the item's name -/
theorem filterMap_item (kb csv : Bool) (kv : Bytes × BVal) :
    (fieldsOf kv).filterMap (fieldEntry kb csv) = ((valuesOf kv.2).filter (keeps kb kv.1)).map (mk kv.1) := by
  obtain ⟨k, v⟩ := kv
  cases v with
  | one v => exact filterMap_values kb csv k [v]
  | many vs => exact filterMap_values kb csv k vs

/-! ### '&'.join and the split -/
theorem splitOn_joinAnd : ∀ (fs : List Bytes), fs ≠ [] → (∀ f ∈ fs, ∀ c ∈ f, c ≠ 38) → splitOn 38 (joinAnd fs) = fs
  | [], h, _ => absurd rfl h
  | [p], _, h => by simp only [joinAnd]; exact Qs.splitOn_no_sep 38 p (h p (by simp))
  | p :: q :: r, _, h => by
    simp only [joinAnd]
    rw [Gt.splitOn_prefix 38 p _ (h p (by simp))]
    rw [splitOn_joinAnd (q :: r) (by simp) (fun x hx => h x (by simp [hx]))]

theorem mem_joinAnd : ∀ (fs : List Bytes) (c : UInt8), c ∈ joinAnd fs → c = 38 ∨ ∃ f ∈ fs, c ∈ f
  | [], c, h => by simp [joinAnd] at h
  | [p], c, h => Or.inr ⟨p, by simp, by simpa [joinAnd] using h⟩
  | p :: q :: r, c, h => by
    simp only [joinAnd, List.mem_append, List.mem_cons] at h
    rcases h with h | h | h
    · exact Or.inr ⟨p, by simp, h⟩
    · exact Or.inl h
    · rcases mem_joinAnd (q :: r) c h with h | ⟨f, hf, hc⟩
      · exact Or.inl h
      · exact Or.inr ⟨f, by simp [hf], hc⟩

theorem mem_field (kv : Bytes × BVal) (f : Bytes) (hf : f ∈ fieldsOf kv) (c : UInt8) (hc : c ∈ f) :
    c = 61 ∨ ∃ x, c ∈ quotePlus x := by
  obtain ⟨k, v⟩ := kv
  have hpair : ∀ x : Bytes, c ∈ quotePlus k ++ 61 :: quotePlus x → c = 61 ∨ ∃ x, c ∈ quotePlus x := by
    intro x h
    rcases List.mem_append.1 h with h | h
    · exact Or.inr ⟨k, h⟩
    · rcases List.mem_cons.1 h with h | h
      · exact Or.inl h
      · exact Or.inr ⟨x, h⟩
  cases v with
  | one v =>
    simp only [fieldsOf, List.mem_singleton] at hf
    subst hf; exact hpair v hc
  | many vs =>
    simp only [fieldsOf, List.mem_map] at hf
    obtain ⟨x, _, rfl⟩ := hf
    exact hpair x hc

theorem fields_no38 (m : List (Bytes × BVal)) : ∀ f ∈ m.flatMap fieldsOf, ∀ c ∈ f, c ≠ 38 := by
  intro f hf c hc
  obtain ⟨kv, _, hfk⟩ := List.mem_flatMap.1 hf
  rcases mem_field kv f hfk c hc with h | ⟨x, h⟩
  · subst h; decide
  · exact qp_no38 x c h

/-- **`serialize_ascii`**: the serialized form is ASCII (alphabet: always-safe characters, '+', '%', hex digits, '=', '&') -/
theorem serialize_ascii (h : Handler) (m : List (Bytes × BVal)) : (serialize h m).all (fun c => c.toNat < 128) = true := by
  rw [List.all_eq_true]
  intro c hc
  simp only [decide_eq_true_eq]
  rcases mem_joinAnd _ c hc with h | ⟨f, hf, hcf⟩
  · subst h; decide
  · obtain ⟨kv, _, hfk⟩ := List.mem_flatMap.1 hf
    rcases mem_field kv f hfk c hcf with h | ⟨x, h⟩
    · subst h; decide
    · exact quotePlus_ascii x c h

/-- the reference entries of the whole rendering -/
theorem entries_urlencode (m : List (Bytes × BVal)) (kb csv : Bool) :
    entries (urlencode m) kb csv = (m.flatMap fieldsOf).filterMap (fieldEntry kb csv) := by
  unfold entries urlencode
  have h38 := fields_no38 m
  cases h : m.flatMap fieldsOf with
  | nil => cases kb <;> cases csv <;> rfl
  | cons f r =>
    rw [h] at h38
    rw [splitOn_joinAnd (f :: r) (by simp) h38]

theorem entries_flat (kb csv : Bool) : ∀ (m : List (Bytes × BVal)),
    (m.flatMap fieldsOf).filterMap (fieldEntry kb csv) = m.flatMap fun kv => ((valuesOf kv.2).filter (keeps kb kv.1)).map (mk kv.1)
  | [] => rfl
  | kv :: r => by
    simp only [List.flatMap_cons, List.filterMap_append]
    rw [filterMap_item, entries_flat kb csv r]

/-! ### the normal form -/
theorem normItem_entries (kb : Bool) (kv : Bytes × BVal) :
    (match normItem kb kv with | none => [] | some n => Gt.entriesOf false n) = ((valuesOf kv.2).filter (keeps kb kv.1)).map (mk kv.1) := by
  unfold normItem
  cases (valuesOf kv.2).filter (keeps kb kv.1) with
  | nil => rfl
  | cons x r =>
    cases r with
    | nil => rfl
    | cons y r => simp [Gt.entriesOf, mk]

theorem normalForm_entries (kb : Bool) : ∀ (m : List (Bytes × BVal)),
    (normalForm kb m).flatMap (Gt.entriesOf false) = m.flatMap fun kv => ((valuesOf kv.2).filter (keeps kb kv.1)).map (mk kv.1)
  | [] => rfl
  | kv :: r => by
    have ih := normalForm_entries kb r
    have hi := normItem_entries kb kv
    unfold normalForm at ih ⊢
    simp only [List.filterMap_cons, List.flatMap_cons]
    cases hn : normItem kb kv with
    | none => rw [hn] at hi; simp only [] at hi ⊢; rw [← hi, ih]; rfl
    | some n => rw [hn] at hi; simp only [List.flatMap_cons] at hi ⊢; rw [← hi, ih]

theorem keeps_ok {kb : Bool} {k x : Bytes} (h : keeps kb k x = true) : x ≠ [] ∨ (kb = true ∧ k ≠ []) := by
  unfold keeps at h
  cases x with
  | cons _ _ => exact Or.inl (by simp)
  | nil =>
    cases k with
    | nil => cases kb <;> simp at h
    | cons _ _ => cases kb with
      | false => simp at h
      | true => exact Or.inr ⟨rfl, by simp⟩

theorem normItem_ok (kb : Bool) (kv n : Bytes × BVal) (h : normItem kb kv = some n) : n.1 = kv.1 ∧ Gt.ItemOk kb n := by
  unfold normItem at h
  have hmem : ∀ x ∈ (valuesOf kv.2).filter (keeps kb kv.1), x ≠ [] ∨ (kb = true ∧ kv.1 ≠ []) :=
    fun x hx => keeps_ok (List.mem_filter.1 hx).2
  cases hf : (valuesOf kv.2).filter (keeps kb kv.1) with
  | nil => rw [hf] at h; cases h
  | cons x r =>
    rw [hf] at h hmem
    cases r with
    | nil =>
      simp only [Option.some.injEq] at h; subst h
      exact ⟨rfl, fun y hy => by simp only [Gt.valuesOf, List.mem_singleton] at hy; subst hy; exact hmem y (by simp), trivial⟩
    | cons y r =>
      simp only [Option.some.injEq] at h; subst h
      exact ⟨rfl, fun z hz => hmem z (by simpa [Gt.valuesOf] using hz), by show 2 ≤ (x :: y :: r).length; simp⟩

theorem normalForm_items (kb : Bool) (m : List (Bytes × BVal)) : ∀ n ∈ normalForm kb m, Gt.ItemOk kb n := by
  intro n hn
  obtain ⟨kv, _, h⟩ := List.mem_filterMap.1 hn
  exact (normItem_ok kb kv n h).2

theorem normalForm_keys_sublist (kb : Bool) : ∀ (m : List (Bytes × BVal)),
    ((normalForm kb m).map fun kv => dec kv.1).Sublist (m.map fun kv => dec kv.1)
  | [] => List.Sublist.slnil
  | kv :: r => by
    have ih := normalForm_keys_sublist kb r
    unfold normalForm at ih ⊢
    simp only [List.filterMap_cons, List.map_cons]
    cases hn : normItem kb kv with
    | none => exact List.Sublist.cons _ ih
    | some n =>
      simp only [List.map_cons]
      rw [(normItem_ok kb kv n hn).1]
      exact List.Sublist.cons_cons _ ih

/-- the normal form satisfies the side conditions of the C08 `to_query_str` round trip (for either csv setting) -/
theorem normalForm_wf (kb csv : Bool) (m : List (Bytes × BVal)) (hnd : (m.map fun kv => dec kv.1).Nodup) :
    Gt.WFmap (normalForm kb m) kb csv false :=
  ⟨(normalForm_keys_sublist kb m).nodup hnd, normalForm_items kb m, fun h => by cases h⟩

/-! ### the round trip -/

/-- the parser reads `urlencode(d, doseq=True)` as the normal form of `d`, for every option setting -/
theorem parse_urlencode (m : List (Bytes × BVal)) (kb csv : Bool) (hnd : (m.map fun kv => dec kv.1).Nodup) :
    parseQS (urlencode m) kb csv = decMap (normalForm kb m) := by
  rw [Qs.parseQS_eq_ref]
  show refOf (entries (urlencode m) kb csv) = _
  rw [entries_urlencode, entries_flat, ← normalForm_entries]
  exact Gt.refOf_entries kb false _ ((normalForm_keys_sublist kb m).nodup hnd) (normalForm_items kb m)

/-- urllib's `urlencode(d, doseq=True)` and falcon's `to_query_str(normal form of d)` are read the same (they differ as
    text: '+' against '%20' for a space) — the C08 round-trip theorem `Gt.parse_toQueryStr` applies to the normal form -/
theorem parse_urlencode_eq_toQueryStr (m : List (Bytes × BVal)) (kb csv : Bool) (hnd : (m.map fun kv => dec kv.1).Nodup) :
    parseQS (urlencode m) kb csv = parseQS (Gt.toQueryStr (normalForm kb m) false false) kb csv := by
  rw [Gt.parse_toQueryStr _ kb csv false (normalForm_wf kb csv m hnd), parse_urlencode m kb csv hnd]

/-- **form media round trip** (`URLEncodedFormHandler`, any `keep_blank` / `csv` setting): for every document `d` - a
    mapping (or sequence of pairs) with distinct names from `str` to `str` or list of `str` -
    `deserialize(serialize(d))` succeeds and is the normal form of `d`: names in order; per name the values that survive
    (`keeps`: non-empty, or blank values kept and the name non-empty); no survivor - name absent; one survivor - a plain
    string (so a one-element list comes back as a string); several - a list in order.  Commas, '&', '=', '+', '%', spaces
    and non-ASCII text inside names and values are immaterial (all escaped), also with `csv=True`. -/
theorem deserialize_serialize (h : Handler) (m : List (Bytes × BVal)) (hnd : (m.map fun kv => dec kv.1).Nodup) :
    deserialize h (serialize h m) = some (decMap (normalForm h.keepBlank m)) := by
  unfold deserialize
  rw [serialize_ascii]
  simp only [if_true, serialize]
  rw [parse_urlencode m _ _ hnd]

-- {'a b': 'x&y=z,+%', '': 'v', 'l': ['1', '', 'é'], 'q': '', 's': ['only'], 'e': []} with the default options:
-- names distinct; 's' comes back as a plain string, 'e' is absent
example : ([([97, 32, 98], BVal.one [120, 38, 121, 61, 122, 44, 43, 37]), ([], .one [118]), ([108], .many [[49], [], [195, 169]]),
    ([113], .one []), ([115], .many [[111]]), ([101], .many [])].map fun kv => dec kv.1).Nodup := by decide
example : serialize {} [([97, 32, 98], .one [120, 38, 121, 61, 122, 44, 43, 37]), ([], .one [118]), ([108], .many [[49], [], [195, 169]])]
    = -- a+b=x%26y%3Dz%2C%2B%25&=v&l=1&l=&l=%C3%A9
      [97, 43, 98, 61, 120, 37, 50, 54, 121, 37, 51, 68, 122, 37, 50, 67, 37, 50, 66, 37, 50, 53, 38, 61, 118, 38, 108, 61, 49, 38, 108, 61, 38, 108, 61, 37, 67, 51, 37, 65, 57] := by decide
example : (deserialize {} (serialize {} [([97, 32, 98], .one [120, 38, 121, 61, 122, 44, 43, 37]), ([], .one [118]), ([108], .many [[49], [], [195, 169]]),
    ([113], .one []), ([115], .many [[111]]), ([101], .many [])])
    == some [([97, 32, 98], .one [120, 38, 121, 61, 122, 44, 43, 37]), ([], .one [118]), ([108], .many [[49], [], [233]]), ([113], .one []), ([115], .one [111])]) = true := by decide

/-! ### when the round trip is exact, and the normalisations one by one -/

theorem filter_keeps_self (kb : Bool) (k : Bytes) (vs : List Bytes) (h : ∀ x ∈ vs, x ≠ [] ∨ (kb = true ∧ k ≠ [])) :
    vs.filter (keeps kb k) = vs := by
  rw [List.filter_eq_self]
  intro x hx
  unfold keeps
  rcases h x hx with h | ⟨h1, h2⟩
  · cases x with
    | nil => exact absurd rfl h
    | cons _ _ => rfl
  · subst h1
    cases k with
    | nil => exact absurd rfl h2
    | cons _ _ => simp

/-- a document that satisfies the C08 side conditions item by item (`Gt.ItemOk`: no value dropped, every list has at
    least two elements) is its own normal form -/
theorem normalForm_id (kb : Bool) : ∀ (m : List (Bytes × BVal)), (∀ kv ∈ m, Gt.ItemOk kb kv) → normalForm kb m = m
  | [], _ => rfl
  | (k, v) :: r, h => by
    have ih := normalForm_id kb r (fun x hx => h x (by simp [hx]))
    have hk := h (k, v) (by simp)
    unfold normalForm at ih ⊢
    rw [List.filterMap_cons, ih]
    cases v with
    | one v =>
      have : normItem kb (k, .one v) = some (k, .one v) := by
        unfold normItem
        rw [show valuesOf (.one v) = [v] from rfl, filter_keeps_self kb k [v] (fun x hx => hk.1 x (by simpa [Gt.valuesOf] using hx))]
      rw [this]
    | many vs =>
      have hlen : 2 ≤ vs.length := hk.2
      have : normItem kb (k, .many vs) = some (k, .many vs) := by
        unfold normItem
        rw [show valuesOf (.many vs) = vs from rfl, filter_keeps_self kb k vs (fun x hx => hk.1 x (by simpa [Gt.valuesOf] using hx))]
        match vs, hlen with
        | a :: b :: r, _ => rfl
      rw [this]

/-- **exact form round trip**: names distinct, no pair with name and value both empty (no empty value at all with
    `keep_blank=False`), every list of length at least two: `deserialize(serialize(d)) = d`. -/
theorem roundtrip_exact (h : Handler) (m : List (Bytes × BVal)) (hnd : (m.map fun kv => dec kv.1).Nodup)
    (hok : ∀ kv ∈ m, Gt.ItemOk h.keepBlank kv) : deserialize h (serialize h m) = some (decMap m) := by
  rw [deserialize_serialize h m hnd, normalForm_id _ m hok]

-- {'a b': 'x&y=z,+%', '': 'v', 'l': ['1', '', 'é'], 'q': ''}: exact under the defaults and under csv=True
example : ∀ kv ∈ [([97, 32, 98], BVal.one [120, 38, 121, 61, 122, 44, 43, 37]), ([], .one [118]), ([108], .many [[49], [], [195, 169]]), ([113], .one [])],
    Gt.ItemOk ({} : Handler).keepBlank kv := by decide

/-- a one-element list comes back as a plain string -/
theorem normItem_one_element_list (kb : Bool) (k x : Bytes) (h : keeps kb k x = true) :
    normItem kb (k, .many [x]) = some (k, .one x) := by
  unfold normItem; simp [valuesOf, h]
/-- an empty list vanishes -/
theorem normItem_empty_list (kb : Bool) (k : Bytes) : normItem kb (k, .many []) = none := rfl
/-- an empty string is dropped when `keep_blank=False`, or when the name is empty too -/
theorem normItem_blank (kb : Bool) (k : Bytes) (h : kb = false ∨ k = []) : normItem kb (k, .one []) = none := by
  rcases h with h | h <;> subst h <;> unfold normItem <;> simp [valuesOf, keeps]

/-! ### the constructor defaults, the empty body, the error mapping -/
theorem handler_defaults : ({} : Handler).keepBlank = true ∧ ({} : Handler).csv = false := ⟨rfl, rfl⟩

/-- an empty body is the empty mapping (not an error) -/
theorem deserialize_empty (h : Handler) : deserialize h [] = some [] := by
  unfold deserialize; cases h.keepBlank <;> cases h.csv <;> rfl

/-- a body with a byte >= 0x80 is `MediaMalformedError` … -/
theorem deserialize_non_ascii (h : Handler) (body : Bytes) (c : UInt8) (hc : c ∈ body) (h128 : 128 ≤ c.toNat) :
    deserialize h body = none := by
  unfold deserialize
  have : body.all (fun c => decide (c.toNat < 128)) = false := by
    rw [List.all_eq_false]
    exact ⟨c, hc, by simp; omega⟩
  rw [this]; rfl

/-- … and every other body parses (to what `parse_query_string` gives: C08): no third outcome -/
theorem deserialize_ascii (h : Handler) (body : Bytes) (ha : ∀ c ∈ body, c.toNat < 128) :
    deserialize h body = some (parseQS body h.keepBlank h.csv) := by
  unfold deserialize
  have : body.all (fun c => decide (c.toNat < 128)) = true := by
    rw [List.all_eq_true]; intro c hc; simpa using ha c hc
  rw [this]; rfl

example : deserialize {} [97, 61, 195, 169] = none := by decide

/-! ### each hypothesis / normalisation is needed (concrete witnesses) -/
/-- {'a': ['b']} comes back as {'a': 'b'} -/
theorem witness_one_element_list : (deserialize {} (serialize {} [([97], .many [[98]])]) == some [([97], .one [98])]) = true := by decide
/-- {'a': []} comes back as {} -/
theorem witness_empty_list : (deserialize {} (serialize {} [([97], .many [])]) == some []) = true := by decide
/-- {'a': ''} is kept by default, lost with keep_blank=False; {'': ''} is lost always -/
theorem witness_blank_kept : (deserialize {} (serialize {} [([97], .one [])]) == some [([97], .one [])]) = true := by decide
theorem witness_blank_dropped : (deserialize { keepBlank := false } (serialize {} [([97], .one [])]) == some []) = true := by decide
theorem witness_both_empty : (deserialize {} (serialize {} [([], .one [])]) == some []) = true := by decide
/-- {'a': ['', 'x', '']} with keep_blank=False comes back as {'a': 'x'} -/
theorem witness_blank_in_list : (deserialize { keepBlank := false } (serialize {} [([97], .many [[], [120], []])]) == some [([97], .one [120])]) = true := by decide
/-- {'a': 'x,y'} with csv=True comes back as the string 'x,y' (the comma is escaped), not as a list -/
theorem witness_comma_csv : (deserialize { csv := true } (serialize {} [([97], .one [120, 44, 121])]) == some [([97], .one [120, 44, 121])]) = true := by decide
/-- but a body written by someone else with a literal comma is split under csv=True and not under the default -/
theorem witness_csv_option : (deserialize { csv := true } [97, 61, 120, 44, 121] == some [([97], .many [[120], [121]])]) = true
    ∧ (deserialize {} [97, 61, 120, 44, 121] == some [([97], .one [120, 44, 121])]) = true := by decide
/-- distinct names are needed: the sequence of pairs [('a','x'), ('a','y')] comes back as {'a': ['x','y']} -/
theorem witness_same_name : (deserialize {} (serialize {} [([97], .one [120]), ([97], .one [121])]) == some [([97], .many [[120], [121]])]) = true := by decide

end Uf

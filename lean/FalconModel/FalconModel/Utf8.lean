/-! Prototype: CPython's `bytes.decode('utf-8', 'replace')` (maximal-subpart replacement), needed because
    query-string keys are merged by equality of the *decoded* strings (C08), and for C10's final step. -/
namespace U8

def inR (b : UInt8) (lo hi : Nat) : Bool := lo ≤ b.toNat && b.toNat ≤ hi

/-- (number of continuation bytes, allowed range of the first continuation) for a lead byte -/
def leadInfo (b : UInt8) : Option (Nat × Nat × Nat) :=
  let n := b.toNat
  if 0xC2 ≤ n && n ≤ 0xDF then some (1, 0x80, 0xBF)
  else if n == 0xE0 then some (2, 0xA0, 0xBF)
  else if (0xE1 ≤ n && n ≤ 0xEC) || n == 0xEE || n == 0xEF then some (2, 0x80, 0xBF)
  else if n == 0xED then some (2, 0x80, 0x9F)
  else if n == 0xF0 then some (3, 0x90, 0xBF)
  else if 0xF1 ≤ n && n ≤ 0xF3 then some (3, 0x80, 0xBF)
  else if n == 0xF4 then some (3, 0x80, 0x8F)
  else none

def leadBits (b : UInt8) (k : Nat) : Nat :=
  match k with
  | 1 => b.toNat % 32
  | 2 => b.toNat % 16
  | _ => b.toNat % 8

/-- consume up to `k` continuation bytes; returns (code point if complete, rest) -/
def conts : Nat → Nat → Nat → Nat → List UInt8 → Option Nat × List UInt8
  | 0, acc, _, _, rest => (some acc, rest)
  | k + 1, acc, lo, hi, rest =>
    match rest with
    | c :: rest' => if inR c lo hi then conts k (acc * 64 + c.toNat % 64) 0x80 0xBF rest' else (none, rest)
    | [] => (none, [])

def decodeFuel : Nat → List UInt8 → List Nat
  | 0, _ => []
  | _, [] => []
  | fuel + 1, b :: rest =>
    if b.toNat < 0x80 then b.toNat :: decodeFuel fuel rest
    else match leadInfo b with
      | none => 0xFFFD :: decodeFuel fuel rest
      | some (k, lo, hi) =>
        match conts k (leadBits b k) lo hi rest with
        | (some cp, rest') => cp :: decodeFuel fuel rest'
        | (none, rest') => 0xFFFD :: decodeFuel fuel rest'

def decodeReplace (bs : List UInt8) : List Nat := decodeFuel (bs.length + 1) bs
end U8

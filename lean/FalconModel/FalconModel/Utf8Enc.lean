/-! `str.encode('utf-8')` (CPython `_PyUnicode_AsUTF8String` / `utf8_encoder`): the standard 1-4 byte UTF-8 encoder on
    code points.  A `str` is modelled as `List Nat` (code points, as in `U8.decodeReplace`'s output).  CPython raises
    `UnicodeEncodeError` on a lone surrogate (errors='strict'); `encode?` models that, `encode` is the total
    transcription of the byte layout used for every scalar value. -/
namespace U8

/-- Unicode scalar value: a code point below 0x110000 that is not a surrogate -/
def ValidScalar (c : Nat) : Prop := c < 0xD800 ∨ (0xE000 ≤ c ∧ c < 0x110000)
instance (c : Nat) : Decidable (ValidScalar c) := by unfold ValidScalar; exact inferInstance

/-- the bytes of one code point (`ch < 0x80`, `< 0x800`, `< 0x10000`, else 4 bytes) -/
def encodeCp (c : Nat) : List UInt8 :=
  if c < 0x80 then [c.toUInt8]
  else if c < 0x800 then [(0xC0 + c / 64).toUInt8, (0x80 + c % 64).toUInt8]
  else if c < 0x10000 then
    [(0xE0 + c / 4096).toUInt8, (0x80 + c / 64 % 64).toUInt8, (0x80 + c % 64).toUInt8]
  else
    [(0xF0 + c / 262144).toUInt8, (0x80 + c / 4096 % 64).toUInt8, (0x80 + c / 64 % 64).toUInt8, (0x80 + c % 64).toUInt8]

/-- `s.encode('utf-8')` for a string of scalar values -/
def encode (s : List Nat) : List UInt8 := s.flatMap encodeCp

/-- `s.encode('utf-8')` with the strict error handler: `none` = UnicodeEncodeError (surrogate) -/
def encode? (s : List Nat) : Option (List UInt8) :=
  if s.all (fun c => decide (ValidScalar c)) then some (encode s) else none
end U8

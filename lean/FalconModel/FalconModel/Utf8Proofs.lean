import FalconModel.Utf8
import FalconModel.Utf8Enc
/-! UTF-8 proofs (C10/C08): the replace-decoder `U8.decodeReplace` (transcription of CPython's
    `bytes.decode('utf-8','replace')`) inverts the encoder `U8.encode` (`str.encode()`) on every string of Unicode
    scalar values; it is the identity on ASCII; its output consists of scalar values only (U+FFFD for every
    ill-formed maximal subpart); the fuel of the model never runs out. -/
namespace U8

/-- one iteration of the decoder loop: (code point or U+FFFD, remaining input) -/
def step (b : UInt8) (rest : List UInt8) : Nat × List UInt8 :=
  if b.toNat < 0x80 then (b.toNat, rest)
  else match leadInfo b with
    | none => (0xFFFD, rest)
    | some (k, lo, hi) =>
      match conts k (leadBits b k) lo hi rest with
      | (some cp, rest') => (cp, rest')
      | (none, rest') => (0xFFFD, rest')

theorem decodeFuel_succ_cons (f : Nat) (b : UInt8) (rest : List UInt8) :
    decodeFuel (f + 1) (b :: rest) = (step b rest).1 :: decodeFuel f (step b rest).2 := by
  by_cases h : b.toNat < 0x80
  · simp [step, decodeFuel, h]
  · cases hl : leadInfo b with
    | none => simp [step, decodeFuel, h, hl]
    | some t =>
      obtain ⟨k, lo, hi⟩ := t
      cases hc : conts k (leadBits b k) lo hi rest with
      | mk o r => cases o <;> simp [step, decodeFuel, h, hl, hc]

theorem conts_length (k acc lo hi : Nat) (rest : List UInt8) :
    (conts k acc lo hi rest).2.length ≤ rest.length := by
  induction k generalizing acc lo hi rest with
  | zero => simp [conts]
  | succ k ih =>
    cases rest with
    | nil => simp [conts]
    | cons c r =>
      simp only [conts]
      split
      · have := ih (acc * 64 + c.toNat % 64) 0x80 0xBF r
        simp only [List.length_cons]; omega
      · simp

theorem step_length (b : UInt8) (rest : List UInt8) : (step b rest).2.length ≤ rest.length := by
  unfold step
  split
  · simp
  · split
    · simp
    · rename_i k lo hi _
      have := conts_length k (leadBits b k) lo hi rest
      split <;> simp_all

/-- the fuel never runs out: any fuel ≥ the input length gives the same result -/
theorem decodeFuel_stable : ∀ (f1 f2 : Nat) (bs : List UInt8), bs.length ≤ f1 → bs.length ≤ f2 →
    decodeFuel f1 bs = decodeFuel f2 bs := by
  intro f1
  induction f1 with
  | zero =>
    intro f2 bs h1 _
    have : bs = [] := List.eq_nil_of_length_eq_zero (by omega)
    subst this
    cases f2 <;> simp [decodeFuel]
  | succ f1 ih =>
    intro f2 bs h1 h2
    cases bs with
    | nil => cases f2 <;> simp [decodeFuel]
    | cons b rest =>
      cases f2 with
      | zero => simp at h2
      | succ f2 =>
        rw [decodeFuel_succ_cons, decodeFuel_succ_cons]
        have := step_length b rest
        simp only [List.length_cons] at h1 h2
        rw [ih f2 _ (by omega) (by omega)]

theorem decodeReplace_nil : decodeReplace [] = [] := by simp [decodeReplace, decodeFuel]

/-- unfolding equation of the decoder, free of fuel -/
theorem decodeReplace_cons (b : UInt8) (rest : List UInt8) :
    decodeReplace (b :: rest) = (step b rest).1 :: decodeReplace (step b rest).2 := by
  unfold decodeReplace
  simp only [List.length_cons]
  rw [decodeFuel_succ_cons]
  have := step_length b rest
  rw [decodeFuel_stable (rest.length + 1) ((step b rest).2.length + 1) _ (by omega) (by omega)]
/-- **`decodeReplace_total`**: the fuel of the model is never exhausted - with any fuel ≥ the input length the loop
    consumes the whole input and yields `decodeReplace bs` (so the fuel parameter is not an observable cut-off) -/
theorem decodeReplace_total (bs : List UInt8) (f : Nat) (h : bs.length ≤ f) : decodeFuel f bs = decodeReplace bs :=
  decodeFuel_stable f (bs.length + 1) bs h (by omega)

theorem toNat_toUInt8 (n : Nat) (h : n < 256) : (n.toUInt8).toNat = n := by
  rw [Nat.toUInt8, UInt8.toNat_ofNat']; omega

/-- `leadInfo` by cases on the numeric value of the lead byte -/
theorem leadInfo_eq (b : UInt8) :
    leadInfo b =
      if 0xC2 ≤ b.toNat ∧ b.toNat ≤ 0xDF then some (1, 0x80, 0xBF)
      else if b.toNat = 0xE0 then some (2, 0xA0, 0xBF)
      else if b.toNat = 0xED then some (2, 0x80, 0x9F)
      else if 0xE1 ≤ b.toNat ∧ b.toNat ≤ 0xEF then some (2, 0x80, 0xBF)
      else if b.toNat = 0xF0 then some (3, 0x90, 0xBF)
      else if 0xF1 ≤ b.toNat ∧ b.toNat ≤ 0xF3 then some (3, 0x80, 0xBF)
      else if b.toNat = 0xF4 then some (3, 0x80, 0x8F)
      else none := by
  unfold leadInfo
  simp only [Bool.and_eq_true, Bool.or_eq_true, decide_eq_true_eq, beq_iff_eq]
  repeat' split
  all_goals first | rfl | omega

theorem leadBits_1 (b : UInt8) : leadBits b 1 = b.toNat % 32 := rfl
theorem leadBits_2 (b : UInt8) : leadBits b 2 = b.toNat % 16 := rfl
theorem leadBits_3 (b : UInt8) : leadBits b 3 = b.toNat % 8 := rfl
theorem conts_zero (acc lo hi : Nat) (rest : List UInt8) : conts 0 acc lo hi rest = (some acc, rest) := by
  simp [conts]
theorem conts_ok (k acc lo hi : Nat) (c : UInt8) (rest : List UInt8) (h1 : lo ≤ c.toNat) (h2 : c.toNat ≤ hi) :
    conts (k + 1) acc lo hi (c :: rest) = conts k (acc * 64 + c.toNat % 64) 0x80 0xBF rest := by
  simp [conts, inR, h1, h2]

theorem step_lead (b : UInt8) (rest : List UInt8) (k lo hi cp : Nat) (rest' : List UInt8) (h80 : ¬ b.toNat < 0x80)
    (hl : leadInfo b = some (k, lo, hi)) (hc : conts k (leadBits b k) lo hi rest = (some cp, rest')) :
    step b rest = (cp, rest') := by
  simp [step, h80, hl, hc]

theorem decodeReplace_encodeCp (c : Nat) (hv : ValidScalar c) (rest : List UInt8) :
    decodeReplace (encodeCp c ++ rest) = c :: decodeReplace rest := by
  unfold ValidScalar at hv
  unfold encodeCp
  split
  · -- 1 byte
    rename_i h
    have hb := toNat_toUInt8 c (by omega)
    simp only [List.singleton_append]
    rw [decodeReplace_cons]
    have : step c.toUInt8 rest = (c, rest) := by simp [step, hb, h]
    rw [this]
  · split
    · -- 2 bytes
      rename_i h1 h2
      have hb0 := toNat_toUInt8 (0xC0 + c / 64) (by omega)
      have hb1 := toNat_toUInt8 (0x80 + c % 64) (by omega)
      simp only [List.cons_append, List.nil_append]
      rw [decodeReplace_cons]
      have hl : leadInfo (0xC0 + c / 64).toUInt8 = some (1, 0x80, 0xBF) := by
        rw [leadInfo_eq, hb0, if_pos (by omega)]
      have : step (0xC0 + c / 64).toUInt8 ((0x80 + c % 64).toUInt8 :: rest) = (c, rest) := by
        apply step_lead _ _ _ _ _ _ _ (by omega) hl
        rw [conts_ok _ _ _ _ _ _ (by omega) (by omega), conts_zero, leadBits_1, hb0, hb1]
        congr 2
        omega
      rw [this]
    · split
      · -- 3 bytes
        rename_i h1 h2 h3
        have hb0 := toNat_toUInt8 (0xE0 + c / 4096) (by omega)
        have hb1 := toNat_toUInt8 (0x80 + c / 64 % 64) (by omega)
        have hb2 := toNat_toUInt8 (0x80 + c % 64) (by omega)
        simp only [List.cons_append, List.nil_append]
        rw [decodeReplace_cons]
        have hl : ∃ lo hi, leadInfo (0xE0 + c / 4096).toUInt8 = some (2, lo, hi) ∧ lo ≤ 0x80 + c / 64 % 64 ∧ 0x80 + c / 64 % 64 ≤ hi := by
          rw [leadInfo_eq, hb0]
          by_cases e0 : c / 4096 = 0
          · exact ⟨0xA0, 0xBF, by rw [if_neg (by omega), if_pos (by omega)], by omega, by omega⟩
          · by_cases ed : c / 4096 = 13
            · exact ⟨0x80, 0x9F, by rw [if_neg (by omega), if_neg (by omega), if_pos (by omega)], by omega, by omega⟩
            · exact ⟨0x80, 0xBF, by rw [if_neg (by omega), if_neg (by omega), if_neg (by omega), if_pos (by omega)], by omega, by omega⟩
        obtain ⟨lo, hi, hl, hlo, hhi⟩ := hl
        have : step (0xE0 + c / 4096).toUInt8 ((0x80 + c / 64 % 64).toUInt8 :: (0x80 + c % 64).toUInt8 :: rest) = (c, rest) := by
          apply step_lead _ _ _ _ _ _ _ (by omega) hl
          rw [conts_ok _ _ _ _ _ _ (by omega) (by omega), conts_ok _ _ _ _ _ _ (by omega) (by omega), conts_zero, leadBits_2, hb0, hb1, hb2]
          congr 2
          omega
        rw [this]
      · -- 4 bytes
        rename_i h1 h2 h3
        have hb0 := toNat_toUInt8 (0xF0 + c / 262144) (by omega)
        have hb1 := toNat_toUInt8 (0x80 + c / 4096 % 64) (by omega)
        have hb2 := toNat_toUInt8 (0x80 + c / 64 % 64) (by omega)
        have hb3 := toNat_toUInt8 (0x80 + c % 64) (by omega)
        simp only [List.cons_append, List.nil_append]
        rw [decodeReplace_cons]
        have hl : ∃ lo hi, leadInfo (0xF0 + c / 262144).toUInt8 = some (3, lo, hi) ∧ lo ≤ 0x80 + c / 4096 % 64 ∧ 0x80 + c / 4096 % 64 ≤ hi := by
          rw [leadInfo_eq, hb0]
          by_cases e0 : c / 262144 = 0
          · exact ⟨0x90, 0xBF, by rw [if_neg (by omega), if_neg (by omega), if_neg (by omega), if_neg (by omega), if_pos (by omega)], by omega, by omega⟩
          · by_cases e4 : c / 262144 = 4
            · exact ⟨0x80, 0x8F, by rw [if_neg (by omega), if_neg (by omega), if_neg (by omega), if_neg (by omega), if_neg (by omega), if_neg (by omega), if_pos (by omega)], by omega, by omega⟩
            · exact ⟨0x80, 0xBF, by rw [if_neg (by omega), if_neg (by omega), if_neg (by omega), if_neg (by omega), if_neg (by omega), if_pos (by omega)], by omega, by omega⟩
        obtain ⟨lo, hi, hl, hlo, hhi⟩ := hl
        have : step (0xF0 + c / 262144).toUInt8 ((0x80 + c / 4096 % 64).toUInt8 :: (0x80 + c / 64 % 64).toUInt8 :: (0x80 + c % 64).toUInt8 :: rest) = (c, rest) := by
          apply step_lead _ _ _ _ _ _ _ (by omega) hl
          rw [conts_ok _ _ _ _ _ _ (by omega) (by omega), conts_ok _ _ _ _ _ _ (by omega) (by omega), conts_ok _ _ _ _ _ _ (by omega) (by omega),
            conts_zero, leadBits_3, hb0, hb1, hb2, hb3]
          congr 2
          omega
        rw [this]

/-- **`decodeReplace_encode`**: decoding (with replacement) the UTF-8 encoding of a string of scalar values returns the string -/
theorem decodeReplace_encode (cps : List Nat) (hv : ∀ c ∈ cps, ValidScalar c) : decodeReplace (encode cps) = cps := by
  induction cps with
  | nil => exact decodeReplace_nil
  | cons c cs ih =>
    unfold encode at ih ⊢
    rw [List.flatMap_cons, decodeReplace_encodeCp c (hv c (by simp)), ih (fun x hx => hv x (by simp [hx]))]

example : decodeReplace (encode [0x7F, 0x80, 0x7FF, 0x800, 0xD7FF, 0xE000, 0xFFFF, 0x10000, 0x10FFFF]) =
    [0x7F, 0x80, 0x7FF, 0x800, 0xD7FF, 0xE000, 0xFFFF, 0x10000, 0x10FFFF] := by decide
/-- the hypothesis is necessary: the (generalised) encoding of a surrogate decodes to three U+FFFD -/
theorem decodeReplace_encode_surrogate_witness : decodeReplace (encode [0xD800]) = [0xFFFD, 0xFFFD, 0xFFFD] := by decide

/-- **`decodeReplace_ascii`**: on ASCII bytes the decoder is the identity -/
theorem decodeReplace_ascii (bs : List UInt8) (h : ∀ b ∈ bs, b.toNat < 0x80) : decodeReplace bs = bs.map (·.toNat) := by
  induction bs with
  | nil => exact decodeReplace_nil
  | cons b rest ih =>
    have hb := h b (by simp)
    rw [decodeReplace_cons]
    have : step b rest = (b.toNat, rest) := by simp [step, hb]
    rw [this, List.map_cons, ih (fun x hx => h x (by simp [hx]))]

/-- **`decodeReplace_append_ascii`**-style locality: an ASCII byte is decoded on its own, whatever follows -/
theorem decodeReplace_cons_ascii (b : UInt8) (rest : List UInt8) (hb : b.toNat < 0x80) :
    decodeReplace (b :: rest) = b.toNat :: decodeReplace rest := by
  rw [decodeReplace_cons]
  have : step b rest = (b.toNat, rest) := by simp [step, hb]
  rw [this]

/-- the decoder emits at most one code point per input byte (and at least one per four) -/
theorem decodeReplace_length_le (bs : List UInt8) : (decodeReplace bs).length ≤ bs.length := by
  suffices h : ∀ n (bs : List UInt8), bs.length ≤ n → (decodeReplace bs).length ≤ bs.length from h _ bs (Nat.le_refl _)
  intro n
  induction n with
  | zero =>
    intro bs hl
    have : bs = [] := List.eq_nil_of_length_eq_zero (by omega)
    subst this; simp [decodeReplace_nil]
  | succ n ih =>
    intro bs hl
    cases bs with
    | nil => simp [decodeReplace_nil]
    | cons b rest =>
      rw [decodeReplace_cons]
      have h1 := step_length b rest
      simp only [List.length_cons] at hl ⊢
      have := ih (step b rest).2 (by omega)
      omega
theorem conts_some (k acc lo hi cp : Nat) (rest r : List UInt8) (h : conts (k + 1) acc lo hi rest = (some cp, r)) :
    ∃ c t, rest = c :: t ∧ lo ≤ c.toNat ∧ c.toNat ≤ hi ∧ conts k (acc * 64 + c.toNat % 64) 0x80 0xBF t = (some cp, r) := by
  cases rest with
  | nil => simp [conts] at h
  | cons c t =>
    simp only [conts] at h
    split at h
    · rename_i hin
      simp only [inR, Bool.and_eq_true, decide_eq_true_eq] at hin
      exact ⟨c, t, rfl, hin.1, hin.2, h⟩
    · simp at h

theorem conts1_val (acc lo hi cp : Nat) (rest r : List UInt8) (h : conts 1 acc lo hi rest = (some cp, r)) :
    ∃ c1, lo ≤ c1 ∧ c1 ≤ hi ∧ cp = acc * 64 + c1 % 64 := by
  obtain ⟨c, t, _, h1, h2, h⟩ := conts_some 0 acc lo hi cp rest r h
  rw [conts_zero] at h
  simp only [Prod.mk.injEq, Option.some.injEq] at h
  exact ⟨c.toNat, h1, h2, h.1.symm⟩

theorem conts2_val (acc lo hi cp : Nat) (rest r : List UInt8) (h : conts 2 acc lo hi rest = (some cp, r)) :
    ∃ c1 c2, lo ≤ c1 ∧ c1 ≤ hi ∧ 0x80 ≤ c2 ∧ c2 ≤ 0xBF ∧ cp = (acc * 64 + c1 % 64) * 64 + c2 % 64 := by
  obtain ⟨c, t, _, h1, h2, h⟩ := conts_some 1 acc lo hi cp rest r h
  obtain ⟨c2, h3, h4, h5⟩ := conts1_val _ _ _ _ _ _ h
  exact ⟨c.toNat, c2, h1, h2, h3, h4, h5⟩

theorem conts3_val (acc lo hi cp : Nat) (rest r : List UInt8) (h : conts 3 acc lo hi rest = (some cp, r)) :
    ∃ c1 c2 c3, lo ≤ c1 ∧ c1 ≤ hi ∧ 0x80 ≤ c2 ∧ c2 ≤ 0xBF ∧ 0x80 ≤ c3 ∧ c3 ≤ 0xBF ∧
      cp = ((acc * 64 + c1 % 64) * 64 + c2 % 64) * 64 + c3 % 64 := by
  obtain ⟨c, t, _, h1, h2, h⟩ := conts_some 2 acc lo hi cp rest r h
  obtain ⟨c2, c3, h3, h4, h5, h6, h7⟩ := conts2_val _ _ _ _ _ _ h
  exact ⟨c.toNat, c2, c3, h1, h2, h3, h4, h5, h6, h7⟩

/-- what one decoder iteration emits: an ASCII byte, U+FFFD, or a non-overlong, non-surrogate code point of the
    length class announced by the lead byte -/
theorem step_val (b : UInt8) (rest : List UInt8) :
    (step b rest).1 < 0x80 ∨ (step b rest).1 = 0xFFFD ∨
    (0x80 ≤ (step b rest).1 ∧ (step b rest).1 < 0x800) ∨
    (0x800 ≤ (step b rest).1 ∧ (step b rest).1 < 0xD800) ∨
    (0xE000 ≤ (step b rest).1 ∧ (step b rest).1 < 0x10000) ∨
    (0x10000 ≤ (step b rest).1 ∧ (step b rest).1 < 0x110000) := by
  by_cases h80 : b.toNat < 0x80
  · left; simp [step, h80]
  · cases hl : leadInfo b with
    | none => right; left; simp [step, h80, hl]
    | some t =>
      obtain ⟨k, lo, hi⟩ := t
      cases hc : conts k (leadBits b k) lo hi rest with
      | mk o r =>
        cases o with
        | none => right; left; simp [step, h80, hl, hc]
        | some cp =>
          have e : (step b rest).1 = cp := by simp [step, h80, hl, hc]
          rw [e]
          rw [leadInfo_eq] at hl
          repeat' split at hl
          all_goals simp only [Option.some.injEq, Prod.mk.injEq, reduceCtorEq] at hl
          all_goals obtain ⟨rfl, rfl, rfl⟩ := hl
          · rw [leadBits_1] at hc
            obtain ⟨c1, _, _, _⟩ := conts1_val _ _ _ _ _ _ hc
            omega
          · rw [leadBits_2] at hc
            obtain ⟨c1, c2, _, _, _, _, _⟩ := conts2_val _ _ _ _ _ _ hc
            omega
          · rw [leadBits_2] at hc
            obtain ⟨c1, c2, _, _, _, _, _⟩ := conts2_val _ _ _ _ _ _ hc
            omega
          · rw [leadBits_2] at hc
            obtain ⟨c1, c2, _, _, _, _, _⟩ := conts2_val _ _ _ _ _ _ hc
            omega
          · rw [leadBits_3] at hc
            obtain ⟨c1, c2, c3, _, _, _, _, _, _, _⟩ := conts3_val _ _ _ _ _ _ hc
            omega
          · rw [leadBits_3] at hc
            obtain ⟨c1, c2, c3, _, _, _, _, _, _, _⟩ := conts3_val _ _ _ _ _ _ hc
            omega
          · rw [leadBits_3] at hc
            obtain ⟨c1, c2, c3, _, _, _, _, _, _, _⟩ := conts3_val _ _ _ _ _ _ hc
            omega

theorem step_scalar (b : UInt8) (rest : List UInt8) : ValidScalar (step b rest).1 := by
  unfold ValidScalar
  have := step_val b rest
  omega

/-- induction principle: whatever holds for the value emitted by every decoder iteration holds for every output code point -/
theorem decodeReplace_forall (P : Nat → Prop) (hP : ∀ b rest, P (step b rest).1) (bs : List UInt8) :
    ∀ c ∈ decodeReplace bs, P c := by
  suffices h : ∀ n (bs : List UInt8), bs.length ≤ n → ∀ c ∈ decodeReplace bs, P c from h _ bs (Nat.le_refl _)
  intro n
  induction n with
  | zero =>
    intro bs hl
    have : bs = [] := List.eq_nil_of_length_eq_zero (by omega)
    subst this; simp [decodeReplace_nil]
  | succ n ih =>
    intro bs hl
    cases bs with
    | nil => simp [decodeReplace_nil]
    | cons b rest =>
      rw [decodeReplace_cons]
      have h1 := step_length b rest
      simp only [List.length_cons] at hl
      intro c hc
      rcases List.mem_cons.mp hc with rfl | hc
      · exact hP b rest
      · exact ih (step b rest).2 (by omega) c hc

/-- **`decodeReplace_scalar`** (no surrogates, nothing ≥ 0x110000): every output code point is a Unicode scalar value -
    for ANY byte string, the result is a `str` that `str.encode()` accepts -/
theorem decodeReplace_scalar (bs : List UInt8) : ∀ c ∈ decodeReplace bs, ValidScalar c :=
  decodeReplace_forall ValidScalar step_scalar bs

theorem decodeReplace_no_surrogates (bs : List UInt8) : ∀ c ∈ decodeReplace bs, ¬ (0xD800 ≤ c ∧ c < 0xE000) := by
  intro c hc
  have := decodeReplace_scalar bs c hc
  unfold ValidScalar at this
  omega

/-- the decoded string can be encoded again (no UnicodeEncodeError) … -/
theorem encode?_decodeReplace (bs : List UInt8) : encode? (decodeReplace bs) = some (encode (decodeReplace bs)) := by
  unfold encode?
  rw [if_pos]
  rw [List.all_eq_true]
  intro c hc
  exact decide_eq_true (decodeReplace_scalar bs c hc)

/-- … and decoding is idempotent through `str.encode()`: replacement happens once -/
theorem decodeReplace_encode_decodeReplace (bs : List UInt8) :
    decodeReplace (encode (decodeReplace bs)) = decodeReplace bs :=
  decodeReplace_encode _ (decodeReplace_scalar bs)

/-! ### facts about the encoder used by the str-level URI theorems -/

theorem encodeCp_ascii (c : Nat) (h : c < 0x80) : encodeCp c = [c.toUInt8] := by simp [encodeCp, h]

/-- a non-ASCII scalar value is encoded with bytes ≥ 0x80 only -/
theorem encodeCp_high (c : Nat) (h : ¬ c < 0x80) (hv : c < 0x110000) : ∀ b ∈ encodeCp c, 0x80 ≤ b.toNat := by
  intro b hb
  unfold encodeCp at hb
  rw [if_neg h] at hb
  split at hb
  · simp only [List.mem_cons, List.not_mem_nil, or_false] at hb
    rcases hb with rfl | rfl
    · rw [toNat_toUInt8 _ (by omega)]; omega
    · rw [toNat_toUInt8 _ (by omega)]; omega
  · split at hb
    · simp only [List.mem_cons, List.not_mem_nil, or_false] at hb
      rcases hb with rfl | rfl | rfl
      · rw [toNat_toUInt8 _ (by omega)]; omega
      · rw [toNat_toUInt8 _ (by omega)]; omega
      · rw [toNat_toUInt8 _ (by omega)]; omega
    · simp only [List.mem_cons, List.not_mem_nil, or_false] at hb
      rcases hb with rfl | rfl | rfl | rfl
      · rw [toNat_toUInt8 _ (by omega)]; omega
      · rw [toNat_toUInt8 _ (by omega)]; omega
      · rw [toNat_toUInt8 _ (by omega)]; omega
      · rw [toNat_toUInt8 _ (by omega)]; omega

theorem encodeCp_ne_nil (c : Nat) : encodeCp c ≠ [] := by
  unfold encodeCp; repeat' split
  all_goals simp

theorem ValidScalar.lt {c : Nat} (h : ValidScalar c) : c < 0x110000 := by unfold ValidScalar at h; omega

/-- an ASCII byte occurs in the encoding iff that ASCII character occurs in the string (UTF-8 is self-synchronising) -/
theorem mem_encode_ascii (s : List Nat) (hv : ∀ c ∈ s, ValidScalar c) (a : UInt8) (ha : a.toNat < 0x80) :
    a ∈ encode s ↔ a.toNat ∈ s := by
  unfold encode
  rw [List.mem_flatMap]
  constructor
  · rintro ⟨c, hc, hm⟩
    by_cases h : c < 0x80
    · rw [encodeCp_ascii c h, List.mem_singleton] at hm
      subst hm
      rw [toNat_toUInt8 _ (by omega)]; exact hc
    · have := encodeCp_high c h (hv c hc).lt a hm
      omega
  · intro hm
    refine ⟨a.toNat, hm, ?_⟩
    rw [encodeCp_ascii _ ha, List.mem_singleton]
    exact (UInt8.ofNat_toNat).symm

/-- encoding an ASCII string is the byte-for-byte copy -/
theorem encode_map_toNat (bs : List UInt8) (h : ∀ b ∈ bs, b.toNat < 0x80) : encode (bs.map (·.toNat)) = bs := by
  induction bs with
  | nil => rfl
  | cons b rest ih =>
    have hb := h b (by simp)
    unfold encode at ih ⊢
    rw [List.map_cons, List.flatMap_cons, encodeCp_ascii _ hb, ih (fun x hx => h x (by simp [hx]))]
    simp only [List.singleton_append, List.cons.injEq, and_true]
    exact UInt8.ofNat_toNat

/-- the encoder is injective on scalar-value strings (distinct strings have distinct UTF-8) -/
theorem encode_injective (s t : List Nat) (hs : ∀ c ∈ s, ValidScalar c) (ht : ∀ c ∈ t, ValidScalar c)
    (h : encode s = encode t) : s = t := by
  rw [← decodeReplace_encode s hs, ← decodeReplace_encode t ht, h]
end U8

import FalconModel.HeaderParsers
/-! C06, request side: one wire-level header list, the two server views of it, the two header stores of falcon.

    * `toEnviron`     what a PEP 3333 / RFC 3875 server builds (transcribed from `harness/lib_http.py::wsgi_environ`):
                      `HTTP_<NAME>` with the name upper-cased and `-` → `_`, `CONTENT_TYPE` / `CONTENT_LENGTH` without the
                      prefix, field lines with one name combined with `","`, in a dict (insertion order kept);
    * `wsgiGet`       `falcon/request.py::Request.get_header`, `wsgiHeaders` / `wsgiHeadersLower` = `Request.headers` /
                      `.headers_lower`, `wsgiContentType` / `wsgiContentLength`;
    * `toScope`       the ASGI `scope['headers']` list (`lib_http.asgi_scope`: lower-cased byte names, order and repeats kept);
    * `asgiStore`     `falcon/asgi/request.py::Request.__init__`: the `_asgi_headers` dict (first occurrence creates the key,
                      a repeated name is comma-joined *unless* it is in `_SINGLETON_HEADERS_BYTESTR`, where the LAST value wins);
    * `asgiGet`       `falcon/asgi/request.py::Request.get_header` (`name.lower().encode('latin1')`, the `_name_cache` kwarg
                      dict capped at 64 entries is `cachedName`), `asgiHeaders`, `asgiContentType`, `asgiContentLength`.

    A Python `str` / a byte string decoded as Latin-1 is a list of code points (`Nat`).  `str.upper()` / `str.lower()` are
    transcribed for code points < 256 (`ß` → `SS`, `µ` → U+039C, `ÿ` → U+0178 included); larger code points are outside the
    model (the correspondence never feeds them).  Non-string environ values (`wsgi.input`, …) carry a placeholder: no modelled
    observable reads them.  `req.headers` memoisation (`_cached_headers`) is a pure cache and is not modelled. -/
namespace Wr

abbrev Str := List Nat
/-- a Python dict with `str`/`bytes` keys, in insertion order -/
abbrev Dict := List (Str × Str)

/-! ### Python string primitives -/
def upA (c : Nat) : Nat := if 97 ≤ c ∧ c ≤ 122 then c - 32 else c
def loA (c : Nat) : Nat := if 65 ≤ c ∧ c ≤ 90 then c + 32 else c

/-- `str.upper()` of one code point < 256 -/
def pyUpperC (c : Nat) : List Nat :=
  if c < 128 then [upA c]
  else if c = 181 then [924]                               -- µ → Μ
  else if c = 223 then [83, 83]                            -- ß → SS
  else if 224 ≤ c ∧ c ≤ 254 ∧ c ≠ 247 then [c - 32]        -- à..þ except ÷
  else if c = 255 then [376]                               -- ÿ → Ÿ
  else [c]
/-- `str.lower()` of one code point < 256 -/
def pyLowerC (c : Nat) : Nat :=
  if c < 128 then loA c
  else if 192 ≤ c ∧ c ≤ 222 ∧ c ≠ 215 then c + 32          -- À..Þ except ×
  else c
def pyUpper (s : Str) : Str := s.flatMap pyUpperC
def pyLower (s : Str) : Str := s.map pyLowerC
/-- `s.replace(a, b)` for single characters -/
def replaceC (a b : Nat) (s : Str) : Str := s.map fun c => if c = a then b else c

def lit (s : String) : Str := s.toList.map Char.toNat

/-! ### dict primitives -/
def dget : Dict → Str → Option Str
  | [], _ => none
  | (k', v') :: t, k => if k' = k then some v' else dget t k
/-- `d[k] = v`: an existing key keeps its position -/
def dset : Dict → Str → Str → Dict
  | [], k, v => [(k, v)]
  | (k', v') :: t, k, v => if k' = k then (k', v) :: t else (k', v') :: dset t k v
def keys (d : Dict) : List Str := d.map Prod.fst
/-- `d[k] = d[k] + ',' + v if k in d else v` -/
def dJoin (d : Dict) (k v : Str) : Dict :=
  match dget d k with
  | some old => dset d k (old ++ 44 :: v)
  | none => dset d k v
def mapK (g : Str → Str) (d : Dict) : Dict := d.map fun kv => (g kv.1, kv.2)

/-! ### the wire request -/
structure HReq where
  method : Str
  rootPath : Str
  pathInfo : Str
  query : Str
  serverName : Str
  serverPort : Str
  scheme : Str
  client : Option (Str × Str)
  fileWrapper : Bool
  /-- field lines in wire order: names in any case, repeats allowed, values Latin-1 -/
  headers : List (Str × Str)

def HTTP_ : Str := [72, 84, 84, 80, 95]
def CT : Str := [67, 79, 78, 84, 69, 78, 84, 95, 84, 89, 80, 69]                    -- CONTENT_TYPE
def CL : Str := [67, 79, 78, 84, 69, 78, 84, 95, 76, 69, 78, 71, 84, 72]            -- CONTENT_LENGTH
def GET : Str := [71, 69, 84]
def ctLow : Str := [99, 111, 110, 116, 101, 110, 116, 45, 116, 121, 112, 101]       -- content-type
def clLow : Str := [99, 111, 110, 116, 101, 110, 116, 45, 108, 101, 110, 103, 116, 104]  -- content-length

/-! ### WSGI: the server's view (lib_http.wsgi_environ) -/
/-- `name.upper().replace('-', '_')` (the same expression in the server and in `Request.get_header`) -/
def cgiName (name : Str) : Str := replaceC 45 95 (pyUpper name)
def envKey (name : Str) : Str :=
  let key := cgiName name
  if key = CT ∨ key = CL then key else HTTP_ ++ key
def envStep (env : Dict) (h : Str × Str) : Dict := dJoin env (envKey h.1) h.2

def baseEnv (r : HReq) : Dict :=
  [(lit "REQUEST_METHOD", r.method), (lit "SCRIPT_NAME", r.rootPath), (lit "PATH_INFO", r.pathInfo),
   (lit "QUERY_STRING", r.query), (lit "SERVER_NAME", r.serverName), (lit "SERVER_PORT", r.serverPort),
   (lit "SERVER_PROTOCOL", lit "HTTP/1.1"), (lit "wsgi.version", []), (lit "wsgi.url_scheme", r.scheme),
   (lit "wsgi.input", []), (lit "wsgi.errors", []), (lit "wsgi.multithread", []), (lit "wsgi.multiprocess", []),
   (lit "wsgi.run_once", [])]
  ++ (match r.client with
      | some (a, p) => [(lit "REMOTE_ADDR", a), (lit "REMOTE_PORT", p)]
      | none => [])
def tailEnv (r : HReq) : Dict := if r.fileWrapper then [(lit "wsgi.file_wrapper", [])] else []
def toEnviron (r : HReq) : Dict := r.headers.foldl envStep (baseEnv r) ++ tailEnv r

/-! ### WSGI: falcon's lookups (falcon/request.py) -/
inductive Res where
  | ok (v : Option Str)        -- returned: the value, or `default` (None / a str)
  | missing                    -- raised HTTPMissingHeader
  deriving Repr, DecidableEq

def wsgiGet (env : Dict) (name : Str) (required : Bool) (default : Option Str) : Res :=
  let wsgiName := cgiName name
  match dget env (HTTP_ ++ wsgiName) with
  | some v => .ok (some v)
  | none =>
    match (if wsgiName = CT ∨ wsgiName = CL then dget env wsgiName else none) with
    | some v => .ok (some v)
    | none => if !required then .ok default else .missing

/-- `Request.headers`: one pass over `env.items()` -/
def wsgiHeaders (env : Dict) : Dict :=
  env.foldl (fun h kv =>
    if kv.1.take 5 = HTTP_ then dset h (replaceC 95 45 (kv.1.drop 5)) kv.2
    else if kv.1 = CT ∨ kv.1 = CL then dset h (replaceC 95 45 kv.1) kv.2
    else h) []
/-- `Request.headers_lower`: `{key.lower(): value for key, value in self.headers.items()}` -/
def wsgiHeadersLower (env : Dict) : Dict := (wsgiHeaders env).foldl (fun h kv => dset h (pyLower kv.1) kv.2) []
def wsgiContentType (env : Dict) : Option Str := dget env CT

def chars (s : Str) : Hp.Str := s.map Char.ofNat
/-- what `int(str)` strips from a Latin-1 `str`: CPython keeps code points < 127 as they are and turns the other
    `str.isspace()` characters (NEL, NBSP) into spaces before the byte-level parser skips `\t\n\v\f\r` and space.  (So
    `\x1c`-`\x1f`, which `str.strip()` removes, are NOT accepted: `int('\x1c5')` is a ValueError; measured on CPython 3.12.) -/
def isWsInt (c : Char) : Bool := Hp.isWsB c || c.toNat == 133 || c.toNat == 160
/-- `int(s)` for a Latin-1 `str` -/
def pyIntStr (s : Hp.Str) : Option Int := Hp.pyIntW isWsInt s
/-- `Request.content_length` (empty test first, then `int(str)`) -/
def wsgiContentLength (env : Dict) : Hp.CLRes :=
  match dget env CL with
  | none => .absent
  | some value =>
    if value = [] then .absent else
    match pyIntStr (chars value) with
    | none => .bad
    | some n => if n < 0 then .bad else .ok n

/-! ### ASGI: the server's view (lib_http.asgi_scope) -/
def toScope (r : HReq) : List (Str × Str) := r.headers.map fun h => (pyLower h.1, h.2)

/-! ### ASGI: falcon's store and lookups (falcon/asgi/request.py) -/
def SINGLETONS : List Str :=
  [clLow, ctLow,
   [99, 111, 111, 107, 105, 101],                                -- cookie
   [101, 120, 112, 101, 99, 116],                                -- expect
   [102, 114, 111, 109],                                         -- from
   [104, 111, 115, 116],                                         -- host
   [109, 97, 120, 45, 102, 111, 114, 119, 97, 114, 100, 115],    -- max-forwards
   [114, 101, 102, 101, 114, 101, 114],                          -- referer
   [117, 115, 101, 114, 45, 97, 103, 101, 110, 116]]             -- user-agent

/-- one iteration of the `for header_name, header_value in scope['headers']` loop -/
def asgiStep (d : Dict) (h : Str × Str) : Dict :=
  match dget d h.1 with
  | none => dset d h.1 h.2
  | some old => if h.1 ∈ SINGLETONS then dset d h.1 h.2 else dset d h.1 (old ++ 44 :: h.2)
def asgiStore (scopeHeaders : List (Str × Str)) : Dict := scopeHeaders.foldl asgiStep []

/-- `name.lower().encode('latin1')` -/
def asgiName (name : Str) : Str := pyLower name
/-- the `_name_cache` kwarg dict: (looked-up key, cache afterwards) -/
def cachedName (cache : Dict) (name : Str) : Str × Dict :=
  match dget cache name with
  | some k => (k, cache)
  | none =>
    let k := asgiName name
    (k, if cache.length < 64 then dset cache name k else cache)

def asgiGetK (store : Dict) (key : Str) (required : Bool) (default : Option Str) : Res :=
  match dget store key with
  | some v => .ok (some v)
  | none => if !required then .ok default else .missing
def asgiGet (store : Dict) (name : Str) (required : Bool) (default : Option Str) : Res :=
  asgiGetK store (asgiName name) required default
/-- `get_header` with the name cache threaded through -/
def asgiGetC (cache store : Dict) (name : Str) (required : Bool) (default : Option Str) : Res × Dict :=
  let (k, cache') := cachedName cache name
  (asgiGetK store k required default, cache')

/-- `Request.headers` = `.headers_lower`: `{name.decode('latin1'): value.decode('latin1') for … in _asgi_headers.items()}` -/
def asgiHeaders (store : Dict) : Dict := store.foldl (fun h kv => dset h kv.1 kv.2) []
def asgiContentType (method : Str) (store : Dict) : Option Str :=
  if method = GET then
    (if (dget store ctLow).isSome then dget store ctLow else none)
  else dget store ctLow
/-- `Request.content_length` (`int(bytes)` first, the empty test in the `except ValueError` branch) -/
def asgiContentLength (store : Dict) : Hp.CLRes :=
  match dget store clLow with
  | none => .absent
  | some value =>
    match Hp.pyIntB (chars value) with
    | none => if value = [] then .absent else .bad
    | some n => if n < 0 then .bad else .ok n

/-! ### the domain on which the two interfaces describe the same request -/
/-- ASCII, no `_` (a token of RFC 9110 additionally excludes separators and controls: not needed) -/
def nameOK (n : Str) : Bool := n.all fun c => decide (c < 128) && decide (c ≠ 95)
def singletonsOnce (hs : List (Str × Str)) : Bool :=
  SINGLETONS.all fun s => decide ((hs.filter fun h => pyLower h.1 = s).length ≤ 1)
def wfReq (r : HReq) : Bool := (r.headers.all fun h => nameOK h.1) && singletonsOnce r.headers

/-- the code points `int(str)` skips but `int(bytes)` does not: NEL, NBSP -/
def exoticWs (c : Nat) : Bool := c == 133 || c == 160
/-- no Content-Length field line contains such a code point (a server rejects a non-numeric Content-Length itself) -/
def clValueOK (r : HReq) : Bool :=
  r.headers.all fun h => !(pyLower h.1 == clLow) || h.2.all fun c => !exoticWs c

/-- a request with the given field lines (everything else fixed) -/
def mkReq (hs : List (String × String)) : HReq :=
  { method := GET, rootPath := [], pathInfo := lit "/", query := [], serverName := lit "localhost", serverPort := lit "80",
    scheme := lit "http", client := none, fileWrapper := false, headers := hs.map fun h => (lit h.1, lit h.2) }

/-- a non-trivial request inside the domain: mixed case, a repeated non-singleton, an empty value, Content-Type and Content-Length -/
def sampleReq : HReq :=
  mkReq [("Accept", "text/html"), ("X-Custom", "a"), ("content-TYPE", "application/json"), ("x-custom", ""),
         ("ACCEPT", "*/*"), ("Content-Length", "12"), ("Host", "example.com")]

/-- the canonical header mapping both stores are compared with: lower-cased name ↦ comma-joined values,
    in order of first occurrence -/
def canon (hs : List (Str × Str)) : Dict := hs.foldl (fun d h => dJoin d (pyLower h.1) h.2) []

end Wr

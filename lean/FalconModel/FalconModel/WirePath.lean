import FalconModel.Wire
import FalconModel.Query
import FalconModel.Utf8Enc
import FalconModel.Forwarded
/-! C06, request side, part 2: the request TARGET and the connection attributes.

    `Wire.lean` (namespace `Wr`) models the header stores; its `HReq` takes PATH_INFO, QUERY_STRING, SERVER_PORT … as given
    strings.  Here they are *computed* from one wire-level request `Conn` (method, raw request-target bytes, scheme, server
    and client address, mount point, field lines) the way the two server interfaces prescribe, and falcon's two constructors /
    property sets are transcribed on top:

    * `toHReq` / `toEnviron`   `harness/lib_http.py::wsgi_environ` (PEP 3333 + RFC 3875): the target is split at the first `?`,
                               the path is percent-decoded (`Probe.decode` = `lib_http.pct_decode`: `%XX` → byte, a malformed `%`
                               stays literal) and its bytes are tunnelled as Latin-1 in PATH_INFO, the query stays raw
                               (Latin-1 tunnelled), SERVER_PORT / REMOTE_PORT are decimal strings; the header part is
                               `Wr.toEnviron`.  PEP 3333 lets a server leave out SCRIPT_NAME / QUERY_STRING when they are empty
                               (`Lib.omitScriptName` / `.omitQueryString`).
    * `toScope`                `lib_http.asgi_scope` (ASGI HTTP connection scope): `method` upper-cased, `path` = the
                               percent-decoded bytes decoded as UTF-8 *leniently* (U+FFFD per maximal invalid subpart —
                               `U8.decodeReplace`, what uvicorn / hypercorn / daphne do through `urllib.parse.unquote`),
                               `query_string` = the raw bytes, `server` / `client` as [host, port] with an `int` port.  The ASGI
                               spec makes `scheme` (default "http"), `root_path` (default ""), `server` and `client` (default
                               None) optional: `Lib.omitScheme` / `.omitRootPath` (used only when the value IS the default),
                               `.server` (given / key missing / None) and `.clientNull` (unknown client as `None` - handled like a missing key since fix 9e26a7e - instead of a
                               missing key).
    * WSGI accessors           `falcon/request.py`: `Request.__init__` (method, path with the `isascii()` fast path and
                               `path.encode('iso-8859-1').decode('utf-8', 'replace')`, `strip_url_path_trailing_slash`,
                               query_string, `_params`), `root_path` / `app`, `scheme`, `host`, `port`, `netloc`, `remote_addr`,
                               `access_route`.
    * ASGI accessors           `falcon/asgi/request.py`: the same names (`scope['query_string'].decode()` is STRICT UTF-8,
                               `_asgi_server`, `_secure_scheme`, `client, __ = scope['client']`, `route[-1]`).

    Text is a list of code points (`Wr.Str`), bytes are `List UInt8`.  `Out.exc` = a non-HTTP exception propagates
    (KeyError / TypeError / IndexError / ValueError / UnicodeError), `Out.bad400` = HTTPInvalidHeader. -/
namespace Wq
open Wr (Str Dict dget lit chars pyUpper)

abbrev Bytes := List UInt8

/-! ### Python str / bytes primitives -/
/-- `bytes.decode('latin-1')` -/
def latin1 (bs : Bytes) : Str := bs.map (·.toNat)
/-- `str.encode('iso-8859-1')`; `none` = UnicodeEncodeError -/
def latin1Enc? (s : Str) : Option Bytes :=
  if s.all (fun c => decide (c < 256)) then some (s.map Nat.toUInt8) else none
/-- `str.isascii()` -/
def isAscii (s : Str) : Bool := s.all fun c => decide (c < 128)

/-- `bytes.decode()` = strict UTF-8: the loop of `U8.decodeFuel` with "raise" where that one emits U+FFFD; `none` = UnicodeDecodeError -/
def strictFuel : Nat → Bytes → Option Str
  | 0, _ => some []
  | _, [] => some []
  | fuel + 1, b :: rest =>
    if b.toNat < 0x80 then (strictFuel fuel rest).map (b.toNat :: ·)
    else match U8.leadInfo b with
      | none => none
      | some (k, lo, hi) =>
        match U8.conts k (U8.leadBits b k) lo hi rest with
        | (some cp, rest') => (strictFuel fuel rest').map (cp :: ·)
        | (none, _) => none
def decodeStrict (bs : Bytes) : Option Str := strictFuel (bs.length + 1) bs

/-- `str(n)` for a non-negative int -/
def natStr (n : Nat) : Str := (Nat.toDigits 10 n).map Char.toNat

/-- `s.partition('?')`: (before, after); no `?` → (s, "") -/
def partQ : Bytes → Bytes × Bytes
  | [] => ([], [])
  | c :: r => if c == 63 then ([], r) else (c :: (partQ r).1, (partQ r).2)

/-! ### the wire request and the liberties of a server -/
structure Conn where
  /-- method token as on the request line (HTTP methods are case-sensitive) -/
  method : Str
  /-- request-target in origin-form, raw bytes: `/path[?query]` -/
  target : Bytes
  scheme : Str
  server : Str × Nat
  client : Option (Str × Nat)
  /-- mount point of the application (SCRIPT_NAME / root_path), percent-decoded text -/
  rootPath : Str
  headers : List (Str × Str)
  fileWrapper : Bool := false

inductive Key3 where
  | given | missing | null
  deriving DecidableEq, Repr

/-- what the two specifications leave to the server -/
structure Lib where
  omitScriptName : Bool := false
  omitQueryString : Bool := false
  omitRootPath : Bool := false
  omitScheme : Bool := false
  clientNull : Bool := false
  server : Key3 := .given

def rawPath (c : Conn) : Bytes := (partQ c.target).1
def rawQuery (c : Conn) : Bytes := (partQ c.target).2

def SCRIPT_NAME : Str := lit "SCRIPT_NAME"
def QUERY_STRING : Str := lit "QUERY_STRING"
def PATH_INFO : Str := lit "PATH_INFO"
def REQUEST_METHOD : Str := lit "REQUEST_METHOD"
def SERVER_NAME : Str := lit "SERVER_NAME"
def SERVER_PORT : Str := lit "SERVER_PORT"
def URL_SCHEME : Str := lit "wsgi.url_scheme"
def REMOTE_ADDR : Str := lit "REMOTE_ADDR"
def HTTP_HOST : Str := lit "HTTP_HOST"
def HTTP_FORWARDED : Str := lit "HTTP_FORWARDED"
def HTTP_XFF : Str := lit "HTTP_X_FORWARDED_FOR"
def HTTP_XRI : Str := lit "HTTP_X_REAL_IP"
def hostLow : Str := lit "host"
def fwdLow : Str := lit "forwarded"
def xffLow : Str := lit "x-forwarded-for"
def xriLow : Str := lit "x-real-ip"
def HTTP : Str := lit "http"
def HTTPS : Str := lit "https"
def WSS : Str := lit "wss"
def LOCALHOST : Str := lit "localhost"
def LOOPBACK : Str := lit "127.0.0.1"

/-! ### WSGI: the server's view -/
def toHReq (c : Conn) : Wr.HReq :=
  { method := c.method,
    rootPath := latin1 (U8.encode c.rootPath),          -- PEP 3333: the mount point's UTF-8 bytes tunnelled as Latin-1
    pathInfo := latin1 (Probe.decode (rawPath c)),
    query := latin1 (rawQuery c),
    serverName := c.server.1, serverPort := natStr c.server.2, scheme := c.scheme,
    client := c.client.map fun a => (a.1, natStr a.2),
    fileWrapper := c.fileWrapper, headers := c.headers }

/-- keys the server leaves out (only ever a key whose value is the empty string) -/
def omitted (c : Conn) (l : Lib) (k : Str) : Bool :=
  (l.omitScriptName && c.rootPath.isEmpty && k == SCRIPT_NAME) || (l.omitQueryString && (rawQuery c).isEmpty && k == QUERY_STRING)

def toEnviron (c : Conn) (l : Lib) : Dict := (Wr.toEnviron (toHReq c)).filter fun kv => !omitted c l kv.1

/-! ### ASGI: the server's view -/
inductive Opt3 (α : Type) where
  | missing | null | val (a : α)
  deriving DecidableEq, Repr

structure Scope where
  method : Str
  scheme : Option Str
  path : Str
  queryString : Bytes
  rootPath : Option Str
  headers : List (Str × Str)
  server : Opt3 (Str × Nat)
  client : Opt3 (Str × Nat)

def toScope (c : Conn) (l : Lib) : Scope :=
  { method := pyUpper c.method,
    scheme := if l.omitScheme && c.scheme == HTTP then none else some c.scheme,
    path := U8.decodeReplace (Probe.decode (rawPath c)),
    queryString := rawQuery c,
    rootPath := if l.omitRootPath && c.rootPath.isEmpty then none else some c.rootPath,
    headers := Wr.toScope (toHReq c),
    server := match l.server with
      | .given => .val c.server
      | .missing => .missing
      | .null => .null,
    client := match c.client with
      | some a => .val a
      | none => if l.clientNull then .null else .missing }

/-- a STRICT ASGI server: it answers 400 itself (the application is not called: `none`) when the percent-decoded path is not UTF-8 -/
def strictScopePath (c : Conn) : Option Str := decodeStrict (Probe.decode (rawPath c))

/-! ### results -/
inductive Out (α : Type) where
  | ok (v : α) | bad400 | exc
  deriving DecidableEq, Repr

def ofAcc {α : Type} : Hp.AccRes α → Out α
  | .ok v => .ok v
  | .bad400 => .bad400

/-- `if strip_url_path_trailing_slash and len(path) != 1 and path.endswith('/'): path[:-1]` -/
def stripSlash (on : Bool) (p : Str) : Str :=
  if on && p.length != 1 && decide (p.getLast? = some 47) then p.dropLast else p

/-- `parse_query_string(qs, keep_blank, csv) if qs else {}`; `Qs.parseQS` (C08) works on the UTF-8 bytes of the `str` -/
def paramsOf (qs : Str) (kb csv : Bool) : Qs.Params :=
  if qs.isEmpty then [] else Qs.parseQS (U8.encode qs) kb csv

/-! ### WSGI: falcon/request.py -/
def wsgiMethod (env : Dict) : Out Str :=
  match dget env REQUEST_METHOD with
  | some m => .ok m
  | none => .exc

def wsgiPath (env : Dict) (strip : Bool) : Out Str :=
  match dget env PATH_INFO with
  | none => .exc
  | some pi =>
    let path := if pi.isEmpty then [47] else pi                       -- env['PATH_INFO'] or '/'
    if isAscii path then .ok (stripSlash strip path)                   -- perf fast path
    else match latin1Enc? path with
      | none => .exc
      | some bs => .ok (stripSlash strip (U8.decodeReplace bs))

def wsgiQueryString (env : Dict) : Str :=
  match dget env QUERY_STRING with
  | some q => q
  | none => []
def wsgiParams (env : Dict) (kb csv : Bool) : Qs.Params :=
  match dget env QUERY_STRING with
  | some q => paramsOf q kb csv
  | none => []

def wsgiRootPath (env : Dict) : Str :=
  match dget env SCRIPT_NAME with
  | some s => s
  | none => []

def wsgiScheme (env : Dict) : Out Str :=
  match dget env URL_SCHEME with
  | some s => .ok s
  | none => .exc

def wsgiHost (env : Dict) : Out Hp.Str :=
  match dget env HTTP_HOST with
  | some h => ofAcc (Hp.reqHost (some (chars h)) [])
  | none =>
    match dget env SERVER_NAME with
    | some n => .ok (chars n)
    | none => .exc

/-- `port`: the `except KeyError` also covers a missing `wsgi.url_scheme` -/
def wsgiPort (env : Dict) : Out (Option Int) :=
  match dget env HTTP_HOST, dget env URL_SCHEME with
  | some h, some sch => ofAcc (Hp.reqPort (some (chars h)) (sch != HTTP) 0)   -- 80 if scheme == 'http' else 443
  | _, _ =>
    match dget env SERVER_PORT with
    | none => .exc
    | some p =>
      match Hp.pyInt (chars p) with
      | some n => .ok (some n)
      | none => .exc

def wsgiNetloc (env : Dict) : Out Str :=
  match dget env HTTP_HOST with
  | some h => .ok h
  | none =>
    match dget env SERVER_NAME, dget env SERVER_PORT, dget env URL_SCHEME with
    | some name, some port, some sch =>
      if sch == HTTPS then (if port != lit "443" then .ok (name ++ 58 :: port) else .ok name)
      else (if port != lit "80" then .ok (name ++ 58 :: port) else .ok name)
    | _, _, _ => .exc

def wsgiRemoteAddr (env : Dict) : Hp.Str :=
  match dget env REMOTE_ADDR with
  | some a => chars a
  | none => chars LOOPBACK

def wsgiAccessRoute (env : Dict) : List Hp.Str :=
  Fw.accessRoute false ((dget env HTTP_FORWARDED).map chars) ((dget env HTTP_XFF).map chars) ((dget env HTTP_XRI).map chars)
    (wsgiRemoteAddr env)

/-! ### ASGI: falcon/asgi/request.py (`store` = `Wr.asgiStore scope.headers`, the `_asgi_headers` dict) -/
def asgiMethod (s : Scope) : Str := s.method

def asgiPath (s : Scope) (strip : Bool) : Str :=
  stripSlash strip (if s.path.isEmpty then [47] else s.path)

def asgiQueryString (s : Scope) : Option Str := decodeStrict s.queryString
/-- `none`: the constructor raised UnicodeDecodeError -/
def asgiParams (s : Scope) (kb csv : Bool) : Option Qs.Params := (asgiQueryString s).map fun q => paramsOf q kb csv

def asgiRootPath (s : Scope) : Str :=
  match s.rootPath with
  | some p => p
  | none => []

def asgiScheme (s : Scope) : Str :=
  match s.scheme with
  | some x => x
  | none => HTTP
def secure (s : Scope) : Bool := asgiScheme s == HTTPS || asgiScheme s == WSS
/-- `_asgi_server`: `tuple(scope['server'])`, `('localhost', default_port)` on KeyError / TypeError -/
def asgiServer (s : Scope) : Str × Nat :=
  match s.server with
  | .val a => a
  | _ => (LOCALHOST, if secure s then 443 else 80)

def asgiHost (s : Scope) (store : Dict) : Out Hp.Str :=
  match dget store hostLow with
  | some h => ofAcc (Hp.reqHost (some (chars h)) [])
  | none => .ok (chars (asgiServer s).1)

def asgiPort (s : Scope) (store : Dict) : Out (Option Int) :=
  match dget store hostLow with
  | some h => ofAcc (Hp.reqPort (some (chars h)) (secure s) 0)
  | none => .ok (some ((asgiServer s).2 : Int))

def asgiNetloc (s : Scope) (store : Dict) : Str :=
  match dget store hostLow with
  | some h => h
  | none =>
    let name := (asgiServer s).1
    let port := (asgiServer s).2
    if secure s then (if port != 443 then name ++ 58 :: natStr port else name)
    else (if port != 80 then name ++ 58 :: natStr port else name)

/-- `client, __ = self.scope['client']` with `except (KeyError, TypeError): client = '127.0.0.1'`: a missing key and an explicit
    None (the spec's default, e.g. a Unix socket) both give the loopback address (fix 9e26a7e, finding F36) -/
def asgiClient (s : Scope) : Out Str :=
  match s.client with
  | .val a => .ok a.1
  | .missing => .ok LOOPBACK
  | .null => .ok LOOPBACK
/-- the code BEFORE fix 9e26a7e (`except KeyError` only): `client, __ = None` is a TypeError.  Used by the regression witness only. -/
def asgiClientPinned (s : Scope) : Out Str :=
  match s.client with
  | .val a => .ok a.1
  | .missing => .ok LOOPBACK
  | .null => .exc

/-- `access_route` given the outcome of the client lookup -/
def asgiAccessRouteOf (client : Out Str) (store : Dict) : Out (List Hp.Str) :=
  match client with
  | .ok cl => .ok (Fw.accessRoute true ((dget store fwdLow).map chars) ((dget store xffLow).map chars) ((dget store xriLow).map chars) (chars cl))
  | .bad400 => .bad400
  | .exc => .exc
def asgiAccessRoute (s : Scope) (store : Dict) : Out (List Hp.Str) := asgiAccessRouteOf (asgiClient s) store

/-- `route = self.access_route; return route[-1]` (IndexError on an empty route) -/
def asgiRemoteAddrOf (client : Out Str) (store : Dict) : Out Hp.Str :=
  match asgiAccessRouteOf client store with
  | .ok route =>
    match route.getLast? with
    | some a => .ok a
    | none => .exc
  | .bad400 => .bad400
  | .exc => .exc
def asgiRemoteAddr (s : Scope) (store : Dict) : Out Hp.Str := asgiRemoteAddrOf (asgiClient s) store

/-! ### everything the two request classes say about the request line and the connection, as one record -/
structure View where
  method : Out Str
  path : Out Str
  /-- `none`: the constructor raised (UnicodeDecodeError) -/
  queryString : Option Str
  params : Option Qs.Params
  rootPath : Str
  scheme : Out Str
  host : Out Hp.Str
  port : Out (Option Int)
  netloc : Out Str
  remoteAddr : Out Hp.Str
  accessRoute : Out (List Hp.Str)

/-- `RequestOptions`: strip_url_path_trailing_slash, keep_blank_qs_values, auto_parse_qs_csv -/
structure Opts where
  strip : Bool
  keepBlank : Bool
  csv : Bool

def wsgiView (env : Dict) (o : Opts) : View :=
  { method := wsgiMethod env, path := wsgiPath env o.strip, queryString := some (wsgiQueryString env),
    params := some (wsgiParams env o.keepBlank o.csv), rootPath := wsgiRootPath env, scheme := wsgiScheme env, host := wsgiHost env,
    port := wsgiPort env, netloc := wsgiNetloc env, remoteAddr := .ok (wsgiRemoteAddr env), accessRoute := .ok (wsgiAccessRoute env) }

def asgiView (s : Scope) (o : Opts) : View :=
  let store := Wr.asgiStore s.headers
  { method := .ok (asgiMethod s), path := .ok (asgiPath s o.strip), queryString := asgiQueryString s,
    params := asgiParams s o.keepBlank o.csv, rootPath := asgiRootPath s, scheme := .ok (asgiScheme s), host := asgiHost s store,
    port := asgiPort s store, netloc := .ok (asgiNetloc s store), remoteAddr := asgiRemoteAddr s store,
    accessRoute := asgiAccessRoute s store }

/-! ### the domain on which the two interfaces describe the same request -/
/-- RFC 3986: the request-target is ASCII (arbitrary bytes only percent-encoded) -/
def wfTarget (c : Conn) : Bool := c.target.all fun b => decide (b.toNat < 128)
/-- RFC 9110: standard methods are upper-case tokens (ASGI hands the method over upper-cased, WSGI as sent) -/
def wfMethod (c : Conn) : Bool := decide (pyUpper c.method = c.method)
/-- the "http" connection scope: scheme is http or https -/
def wfScheme (c : Conn) : Bool := c.scheme == HTTP || c.scheme == HTTPS
/-- the mount point is ASCII (falcon re-decodes the Latin-1 tunnel of PATH_INFO but not that of SCRIPT_NAME) -/
def wfRoot (c : Conn) : Bool := isAscii c.rootPath
/-- a known client has a non-empty address -/
def wfClient (c : Conn) : Bool :=
  match c.client with
  | some a => !a.1.isEmpty
  | none => true
/-- the ASGI server tells its own address (how it reports an unknown client - key left out or None - does not matter) -/
def wfLib (l : Lib) : Bool := decide (l.server = .given)
def wfConn (c : Conn) (l : Lib) : Bool :=
  wfTarget c && wfMethod c && wfScheme c && wfRoot c && wfClient c && wfLib l && Wr.wfReq (toHReq c)

/-- a wire request from text (the target given as an ASCII/Latin-1 string) -/
def mkConn (method target scheme : String) (server : String × Nat) (client : Option (String × Nat)) (rootPath : String)
    (hs : List (String × String)) : Conn :=
  { method := lit method, target := target.toList.map fun ch => ch.toNat.toUInt8, scheme := lit scheme,
    server := (lit server.1, server.2), client := client.map fun a => (lit a.1, a.2), rootPath := lit rootPath,
    headers := hs.map fun h => (lit h.1, lit h.2) }

def withTarget (c : Conn) (t : Bytes) : Conn := { c with target := t }

/-- a non-trivial request inside the domain: percent-encoded UTF-8 and an invalid sequence in the path, a trailing slash,
    a query with a repeated key / an escape / a blank, no Host header, a non-default port, a mount point -/
def sampleConn : Conn :=
  mkConn "GET" "/caf%C3%A9/%ff%fe/a%2Fb/?a=1&a=%C3%A9&k=&x=1,2" "https" ("falconframework.org", 8443) (some ("192.0.2.7", 40000)) "/app"
    [("Accept", "*/*"), ("X-Forwarded-For", "1.1.1.1, 2.2.2.2")]

end Wq

import FalconModel.WirePath
import FalconModel.WireProofs
import FalconModel.Utf8Proofs
import FalconModel.HeaderParsersProofs
/-! C06, request side, part 2: WSGI and ASGI agree on the request target and the connection attributes
    (`FalconModel/WirePath.lean` has the model, namespace `Wq`).

    * every CGI / `wsgi.*` key of the environ is read from its fixed part whatever the header lines are (`dget_environ_plain`), the raw
      value of a header is the same in the environ and in falcon's ASGI store on the domain of `Wr` (`hdr_agree`);
    * one `*_agree` theorem per attribute, each under exactly the hypotheses it needs (`path_agree`, `scheme_agree` need none), and
      `request_view_agree` for the whole record under `wfConn`;
    * the exclusions of the domain are necessary (`*_witness`, by `decide`) and, for the method / query string / mount point, exact
      (`*_agree_iff`). -/
namespace Wq
open Wr (Str Dict dget lit chars pyUpper keys)

/-! ### UTF-8: strict vs lenient decoding -/
theorem strictFuel_replace : ∀ (f : Nat) (bs : Bytes) (t : Str), strictFuel f bs = some t → U8.decodeFuel f bs = t := by
  intro f
  induction f with
  | zero => intro bs t h; simp [strictFuel] at h; simp [U8.decodeFuel, h]
  | succ f ih =>
    intro bs t h
    cases bs with
    | nil => simp [strictFuel] at h; simp [U8.decodeFuel, h]
    | cons b rest =>
      simp only [strictFuel] at h
      simp only [U8.decodeFuel]
      split at h
      · rename_i hb
        simp only [hb, if_true]
        cases hr : strictFuel f rest with
        | none => simp [hr] at h
        | some t' => simp [hr] at h; rw [ih rest t' hr, h]
      · rename_i hb
        simp only [hb, if_false]
        split at h
        · exact absurd h (by simp)
        · rename_i k lo hi hl
          simp only [hl]
          split at h
          · rename_i cp rest' hc
            simp only [hc]
            cases hr : strictFuel f rest' with
            | none => simp [hr] at h
            | some t' => simp [hr] at h; rw [ih rest' t' hr, h]
          · exact absurd h (by simp)

theorem decodeStrict_replace (bs : Bytes) (t : Str) (h : decodeStrict bs = some t) : U8.decodeReplace bs = t :=
  strictFuel_replace _ bs t h

theorem strictFuel_ascii : ∀ (f : Nat) (bs : Bytes), bs.length < f → (∀ b ∈ bs, b.toNat < 128) → strictFuel f bs = some (latin1 bs) := by
  intro f
  induction f with
  | zero => intro bs h; omega
  | succ f ih =>
    intro bs hl ha
    cases bs with
    | nil => simp [strictFuel, latin1]
    | cons b rest =>
      have hb := ha b (by simp)
      simp only [strictFuel, hb, if_true]
      rw [ih rest (by simp at hl; omega) (fun x hx => ha x (by simp [hx]))]
      simp [latin1]

theorem decodeStrict_ascii (bs : Bytes) (h : ∀ b ∈ bs, b.toNat < 128) : decodeStrict bs = some (latin1 bs) :=
  strictFuel_ascii _ bs (by omega) h

theorem latin1Enc_latin1 (bs : Bytes) : latin1Enc? (latin1 bs) = some bs := by
  unfold latin1Enc? latin1
  have h1 : (bs.map (·.toNat)).all (fun c => decide (c < 256)) = true := by
    simp only [List.all_eq_true, List.mem_map, decide_eq_true_eq]
    rintro c ⟨b, _, rfl⟩; exact b.toNat_lt
  rw [if_pos h1, List.map_map]
  congr 1
  have : (Nat.toUInt8 ∘ fun (x : UInt8) => x.toNat) = id := by funext b; simp [Function.comp]
  rw [this, List.map_id]

theorem decodeReplace_ne_nil (b : UInt8) (rest : Bytes) : U8.decodeReplace (b :: rest) ≠ [] := by
  rw [U8.decodeReplace_cons]; simp

theorem isAscii_latin1 (bs : Bytes) : isAscii (latin1 bs) = true ↔ ∀ b ∈ bs, b.toNat < 128 := by
  simp [isAscii, latin1]

theorem latin1_encode_ascii (s : Str) (h : isAscii s = true) : latin1 (U8.encode s) = s := by
  induction s with
  | nil => rfl
  | cons c r ih =>
    simp only [isAscii, List.all_cons, Bool.and_eq_true, decide_eq_true_eq] at h
    have ih' := ih (by simpa [isAscii] using h.2)
    unfold U8.encode at ih' ⊢
    rw [List.flatMap_cons, U8.encodeCp_ascii c h.1]
    simp only [latin1, List.singleton_append, List.map_cons] at ih' ⊢
    rw [ih', U8.toNat_toUInt8 c (by omega)]

/-! ### dict / environ lemmas -/

theorem dget_filter (p : Str → Bool) (d : Dict) (k : Str) :
    dget (d.filter fun kv => p kv.1) k = if p k then dget d k else none := by
  induction d with
  | nil => simp [dget]
  | cons kv t ih =>
    obtain ⟨k0, v0⟩ := kv
    by_cases hp : p k0 = true
    · simp only [List.filter_cons, hp, if_true, dget]
      by_cases hk : k0 = k
      · subst hk; simp [hp]
      · simp only [hk, if_false, ih]
    · simp only [List.filter_cons, hp, dget]
      by_cases hk : k0 = k
      · subst hk; simp [hp, ih]
      · simp [hk, ih]

theorem dget_fold_envStep (k : Str) (hk : Wr.plainKey k) : ∀ (hs : List (Str × Str)) (d : Dict),
    dget (hs.foldl Wr.envStep d) k = dget d k
  | [], _ => rfl
  | h :: hs, d => by
    simp only [List.foldl_cons]
    rw [dget_fold_envStep k hk hs]
    unfold Wr.envStep
    rw [Wr.dget_dJoin]
    have : Wr.envKey h.1 ≠ k := fun e => Wr.envKey_not_plain h.1 (e ▸ hk)
    simp [this]

/-- a CGI / `wsgi.*` key is read from the fixed part of the environ, whatever the header lines are -/
theorem dget_environ_plain (r : Wr.HReq) (k : Str) (hk : Wr.plainKey k) :
    dget (Wr.toEnviron r) k = match dget (Wr.baseEnv r) k with | some v => some v | none => dget (Wr.tailEnv r) k := by
  unfold Wr.toEnviron
  rw [Wr.dget_append, dget_fold_envStep k hk]
  cases dget (Wr.baseEnv r) k <;> rfl

theorem dget_toEnviron_plain (c : Conn) (l : Lib) (k : Str) (hk : Wr.plainKey k) :
    dget (toEnviron c l) k = if omitted c l k then none else
      match dget (Wr.baseEnv (toHReq c)) k with | some v => some v | none => dget (Wr.tailEnv (toHReq c)) k := by
  unfold toEnviron
  rw [dget_filter (fun k => !omitted c l k), dget_environ_plain _ k hk]
  cases omitted c l k <;> simp

theorem base_PATH_INFO (r : Wr.HReq) : dget (Wr.baseEnv r) PATH_INFO = some r.pathInfo := by
  obtain ⟨m, rp, pi, q, sn, sp, sc, cl, fw, hs⟩ := r
  rfl
theorem base_REQUEST_METHOD (r : Wr.HReq) : dget (Wr.baseEnv r) REQUEST_METHOD = some r.method := by
  obtain ⟨m, rp, pi, q, sn, sp, sc, cl, fw, hs⟩ := r
  rfl
theorem base_SCRIPT_NAME (r : Wr.HReq) : dget (Wr.baseEnv r) SCRIPT_NAME = some r.rootPath := by
  obtain ⟨m, rp, pi, q, sn, sp, sc, cl, fw, hs⟩ := r
  rfl
theorem base_QUERY_STRING (r : Wr.HReq) : dget (Wr.baseEnv r) QUERY_STRING = some r.query := by
  obtain ⟨m, rp, pi, q, sn, sp, sc, cl, fw, hs⟩ := r
  rfl
theorem base_SERVER_NAME (r : Wr.HReq) : dget (Wr.baseEnv r) SERVER_NAME = some r.serverName := by
  obtain ⟨m, rp, pi, q, sn, sp, sc, cl, fw, hs⟩ := r
  rfl
theorem base_SERVER_PORT (r : Wr.HReq) : dget (Wr.baseEnv r) SERVER_PORT = some r.serverPort := by
  obtain ⟨m, rp, pi, q, sn, sp, sc, cl, fw, hs⟩ := r
  rfl
theorem base_URL_SCHEME (r : Wr.HReq) : dget (Wr.baseEnv r) URL_SCHEME = some r.scheme := by
  obtain ⟨m, rp, pi, q, sn, sp, sc, cl, fw, hs⟩ := r
  rfl
theorem base_REMOTE_ADDR (r : Wr.HReq) : dget (Wr.baseEnv r) REMOTE_ADDR = r.client.map (·.1) := by
  obtain ⟨m, rp, pi, q, sn, sp, sc, cl, fw, hs⟩ := r
  rcases cl with _ | ⟨a, p⟩ <;> rfl
theorem tail_REMOTE_ADDR (r : Wr.HReq) : dget (Wr.tailEnv r) REMOTE_ADDR = none := by
  unfold Wr.tailEnv; cases r.fileWrapper <;> rfl

theorem omitted_other (c : Conn) (l : Lib) (k : Str) (h1 : (k == SCRIPT_NAME) = false) (h2 : (k == QUERY_STRING) = false) :
    omitted c l k = false := by simp [omitted, h1, h2]

theorem env_PATH_INFO (c : Conn) (l : Lib) : dget (toEnviron c l) PATH_INFO = some (latin1 (Probe.decode (rawPath c))) := by
  rw [dget_toEnviron_plain c l _ (by decide), omitted_other c l _ (by decide) (by decide), base_PATH_INFO]; rfl
theorem env_REQUEST_METHOD (c : Conn) (l : Lib) : dget (toEnviron c l) REQUEST_METHOD = some c.method := by
  rw [dget_toEnviron_plain c l _ (by decide), omitted_other c l _ (by decide) (by decide), base_REQUEST_METHOD]; rfl
theorem env_SERVER_NAME (c : Conn) (l : Lib) : dget (toEnviron c l) SERVER_NAME = some c.server.1 := by
  rw [dget_toEnviron_plain c l _ (by decide), omitted_other c l _ (by decide) (by decide), base_SERVER_NAME]; rfl
theorem env_SERVER_PORT (c : Conn) (l : Lib) : dget (toEnviron c l) SERVER_PORT = some (natStr c.server.2) := by
  rw [dget_toEnviron_plain c l _ (by decide), omitted_other c l _ (by decide) (by decide), base_SERVER_PORT]; rfl
theorem env_URL_SCHEME (c : Conn) (l : Lib) : dget (toEnviron c l) URL_SCHEME = some c.scheme := by
  rw [dget_toEnviron_plain c l _ (by decide), omitted_other c l _ (by decide) (by decide), base_URL_SCHEME]; rfl
theorem env_REMOTE_ADDR (c : Conn) (l : Lib) : dget (toEnviron c l) REMOTE_ADDR = c.client.map (·.1) := by
  rw [dget_toEnviron_plain c l _ (by decide), omitted_other c l _ (by decide) (by decide), base_REMOTE_ADDR, tail_REMOTE_ADDR]
  simp only [toHReq]
  cases c.client <;> rfl
theorem env_SCRIPT_NAME (c : Conn) (l : Lib) :
    dget (toEnviron c l) SCRIPT_NAME = if l.omitScriptName && c.rootPath.isEmpty then none else some (latin1 (U8.encode c.rootPath)) := by
  rw [dget_toEnviron_plain c l _ (by decide), base_SCRIPT_NAME]
  have : omitted c l SCRIPT_NAME = (l.omitScriptName && c.rootPath.isEmpty) := by
    have h : (SCRIPT_NAME == QUERY_STRING) = false := by decide
    simp [omitted, h]
  rw [this]; rfl
theorem env_QUERY_STRING (c : Conn) (l : Lib) :
    dget (toEnviron c l) QUERY_STRING = if l.omitQueryString && (rawQuery c).isEmpty then none else some (latin1 (rawQuery c)) := by
  rw [dget_toEnviron_plain c l _ (by decide), base_QUERY_STRING]
  have : omitted c l QUERY_STRING = (l.omitQueryString && (rawQuery c).isEmpty) := by
    have h : (QUERY_STRING == SCRIPT_NAME) = false := by decide
    simp [omitted, h]
  rw [this]; rfl

/-- on the domain of `Wr` the raw value of a header is the same in the environ and in falcon's ASGI store -/
theorem hdr_agree (r : Wr.HReq) (hwf : Wr.wfReq r = true) (name : Str) (hn : Wr.nameOK name = true) :
    dget (Wr.toEnviron r) (Wr.envKey name) = dget (Wr.asgiStore (Wr.toScope r)) (Wr.pyLower name) := by
  simp only [Wr.wfReq, Bool.and_eq_true, List.all_eq_true] at hwf
  obtain ⟨hnames, hsing⟩ := hwf
  rw [Wr.environ_canonical r hnames, Wr.dget_sandwich _ _ _ (Wr.baseEnv_plain r) (Wr.tailEnv_plain r) _ (Wr.envKey_not_plain name)]
  unfold Wr.toScope; rw [Wr.store_canonical r.headers hsing]
  rw [← Wr.envKey_lower (Wr.ascii_of_ok hn)]
  exact Wr.dget_mapK Wr.envKey _ _ (fun k' hk' e => Wr.envKey_inj_lk (Wr.lk_keys_canon hnames k' hk') (Wr.lk_lower hn) e)

theorem env_hdr (c : Conn) (l : Lib) (hwf : Wr.wfReq (toHReq c) = true) (name : Str) (hn : Wr.nameOK name = true) :
    dget (toEnviron c l) (Wr.envKey name) = dget (Wr.asgiStore (toScope c l).headers) (Wr.pyLower name) := by
  unfold toEnviron
  rw [dget_filter (fun k => !omitted c l k)]
  have : omitted c l (Wr.envKey name) = false := by
    apply omitted_other
    · have : Wr.envKey name ≠ SCRIPT_NAME := fun e => Wr.envKey_not_plain name (e ▸ (by decide : Wr.plainKey SCRIPT_NAME))
      simpa using this
    · have : Wr.envKey name ≠ QUERY_STRING := fun e => Wr.envKey_not_plain name (e ▸ (by decide : Wr.plainKey QUERY_STRING))
      simpa using this
  simp only [this, Bool.not_false, if_true]
  exact hdr_agree _ hwf name hn

theorem env_HOST (c : Conn) (l : Lib) (hwf : Wr.wfReq (toHReq c) = true) :
    dget (toEnviron c l) HTTP_HOST = dget (Wr.asgiStore (toScope c l).headers) hostLow :=
  env_hdr c l hwf (lit "Host") (by decide)
theorem env_FORWARDED (c : Conn) (l : Lib) (hwf : Wr.wfReq (toHReq c) = true) :
    dget (toEnviron c l) HTTP_FORWARDED = dget (Wr.asgiStore (toScope c l).headers) fwdLow :=
  env_hdr c l hwf (lit "Forwarded") (by decide)
theorem env_XFF (c : Conn) (l : Lib) (hwf : Wr.wfReq (toHReq c) = true) :
    dget (toEnviron c l) HTTP_XFF = dget (Wr.asgiStore (toScope c l).headers) xffLow :=
  env_hdr c l hwf (lit "X-Forwarded-For") (by decide)
theorem env_XRI (c : Conn) (l : Lib) (hwf : Wr.wfReq (toHReq c) = true) :
    dget (toEnviron c l) HTTP_XRI = dget (Wr.asgiStore (toScope c l).headers) xriLow :=
  env_hdr c l hwf (lit "X-Real-Ip") (by decide)

/-! ### method, path, root_path -/
theorem method_agree (c : Conn) (l : Lib) (h : wfMethod c = true) :
    wsgiMethod (toEnviron c l) = .ok (asgiMethod (toScope c l)) := by
  unfold wsgiMethod asgiMethod toScope
  rw [env_REQUEST_METHOD]
  simp only [wfMethod, decide_eq_true_eq] at h
  simp [h]

/-- the WSGI constructor undoes the Latin-1 tunnel exactly -/
theorem wsgiPath_eq (c : Conn) (l : Lib) (strip : Bool) :
    wsgiPath (toEnviron c l) strip =
      .ok (stripSlash strip (if (Probe.decode (rawPath c)).isEmpty then [47] else U8.decodeReplace (Probe.decode (rawPath c)))) := by
  unfold wsgiPath
  rw [env_PATH_INFO]
  simp only
  cases hbs : Probe.decode (rawPath c) with
  | nil => simp [latin1, isAscii]
  | cons b rest =>
    have hne : (latin1 (b :: rest)).isEmpty = false := by simp [latin1]
    simp only [hne, Bool.false_eq_true, if_false, List.isEmpty_cons]
    by_cases ha : isAscii (latin1 (b :: rest)) = true
    · simp only [ha, if_true]
      rw [U8.decodeReplace_ascii _ ((isAscii_latin1 _).1 ha)]; rfl
    · simp [ha, latin1Enc_latin1]

/-- **path**: for EVERY raw request-target (any bytes, any percent-escapes, also ones that decode to invalid UTF-8), both values
    of `strip_url_path_trailing_slash` and every liberty of the servers, `falcon.Request(environ).path` = `falcon.asgi.Request(scope).path` -/
theorem path_agree (c : Conn) (l : Lib) (strip : Bool) :
    wsgiPath (toEnviron c l) strip = .ok (asgiPath (toScope c l) strip) := by
  rw [wsgiPath_eq]
  unfold asgiPath toScope
  simp only
  cases hbs : Probe.decode (rawPath c) with
  | nil => simp [U8.decodeReplace_nil]
  | cons b rest =>
    have := decodeReplace_ne_nil b rest
    simp [this]

/-- an ASGI server that decodes the path STRICTLY (and answers 400 itself otherwise) hands over the same `scope['path']` whenever
    it calls the application at all: the agreement then holds on its (smaller) domain -/
theorem strict_server_path_agree (c : Conn) (l : Lib) (p : Str) (h : strictScopePath c = some p) : (toScope c l).path = p :=
  decodeStrict_replace _ _ h

theorem root_path_agree (c : Conn) (l : Lib) (h : wfRoot c = true) :
    wsgiRootPath (toEnviron c l) = asgiRootPath (toScope c l) := by
  unfold wsgiRootPath asgiRootPath toScope
  rw [env_SCRIPT_NAME]
  simp only [wfRoot] at h
  rw [latin1_encode_ascii _ h]
  by_cases he : c.rootPath.isEmpty = true
  · have : c.rootPath = [] := List.isEmpty_iff.1 he
    cases l.omitScriptName <;> cases l.omitRootPath <;> simp [this]
  · cases l.omitScriptName <;> cases l.omitRootPath <;> simp [he]

/-! ### query string and parameters -/
theorem mem_partQ_snd : ∀ (t : Bytes) (b : UInt8), b ∈ (partQ t).2 → b ∈ t
  | [], b, h => by simp [partQ] at h
  | c :: r, b, h => by
    unfold partQ at h
    split at h
    · simp [h]
    · simp only at h; simp [mem_partQ_snd r b h]

theorem rawQuery_ascii (c : Conn) (h : wfTarget c = true) : ∀ b ∈ rawQuery c, b.toNat < 128 := by
  intro b hb
  simp only [wfTarget, List.all_eq_true, decide_eq_true_eq] at h
  exact h b (mem_partQ_snd _ _ hb)

/-- `req.query_string` on WSGI is the Latin-1 reading of the raw query, whether or not the server omits an empty QUERY_STRING -/
theorem wsgiQueryString_eq (c : Conn) (l : Lib) : wsgiQueryString (toEnviron c l) = latin1 (rawQuery c) := by
  unfold wsgiQueryString
  rw [env_QUERY_STRING]
  by_cases he : (rawQuery c).isEmpty = true
  · have : rawQuery c = [] := List.isEmpty_iff.1 he
    cases l.omitQueryString <;> simp [this, latin1]
  · simp [he]

theorem wsgiParams_eq (c : Conn) (l : Lib) (kb csv : Bool) :
    wsgiParams (toEnviron c l) kb csv = paramsOf (latin1 (rawQuery c)) kb csv := by
  unfold wsgiParams
  rw [env_QUERY_STRING]
  by_cases he : (rawQuery c).isEmpty = true
  · have : rawQuery c = [] := List.isEmpty_iff.1 he
    cases l.omitQueryString <;> simp [this, latin1, paramsOf]
  · simp [he]

theorem query_string_agree (c : Conn) (l : Lib) (h : wfTarget c = true) :
    asgiQueryString (toScope c l) = some (wsgiQueryString (toEnviron c l)) := by
  rw [wsgiQueryString_eq]
  exact decodeStrict_ascii _ (rawQuery_ascii c h)

theorem params_agree (c : Conn) (l : Lib) (h : wfTarget c = true) (kb csv : Bool) :
    asgiParams (toScope c l) kb csv = some (wsgiParams (toEnviron c l) kb csv) := by
  unfold asgiParams
  rw [query_string_agree c l h, wsgiParams_eq, wsgiQueryString_eq]; rfl

/-- … and both are `parse_query_string` of C08 on the raw query bytes, so every `Qs.*` / `Gt.*` theorem about the raw query
    string (reference reading, last value wins, …) holds for `req.params` of both request classes -/
theorem params_closed_form (c : Conn) (l : Lib) (h : wfTarget c = true) (kb csv : Bool) :
    wsgiParams (toEnviron c l) kb csv = (if (rawQuery c).isEmpty then [] else Qs.parseQS (rawQuery c) kb csv) := by
  rw [wsgiParams_eq]
  unfold paramsOf
  have : U8.encode (latin1 (rawQuery c)) = rawQuery c := U8.encode_map_toNat _ (rawQuery_ascii c h)
  rw [this]
  simp [latin1]

/-! ### scheme, host, port, netloc -/
theorem asgiScheme_eq (c : Conn) (l : Lib) : asgiScheme (toScope c l) = c.scheme := by
  unfold asgiScheme toScope
  simp only
  by_cases h : (l.omitScheme && c.scheme == HTTP) = true
  · simp only [h, if_true]
    simp only [Bool.and_eq_true, beq_iff_eq] at h
    exact h.2.symm
  · simp only [h]; rfl

/-- **scheme**: `wsgi.url_scheme` vs `scope['scheme']` with its default "http" (a server may leave the key out only then) -/
theorem scheme_agree (c : Conn) (l : Lib) : wsgiScheme (toEnviron c l) = .ok (asgiScheme (toScope c l)) := by
  unfold wsgiScheme
  rw [env_URL_SCHEME, asgiScheme_eq]

theorem asgiServer_given (c : Conn) (l : Lib) (hl : l.server = .given) : asgiServer (toScope c l) = c.server := by
  unfold asgiServer toScope; simp [hl]

/-- **host**: Host header (parse_host, HTTPInvalidHeader on a bad port) or SERVER_NAME vs scope['server'][0] -/
theorem host_agree (c : Conn) (l : Lib) (hreq : Wr.wfReq (toHReq c) = true) (hl : l.server = .given) :
    wsgiHost (toEnviron c l) = asgiHost (toScope c l) (Wr.asgiStore (toScope c l).headers) := by
  unfold wsgiHost asgiHost
  rw [env_HOST c l hreq, env_SERVER_NAME, asgiServer_given c l hl]

theorem chars_natStr (n : Nat) : chars (natStr n) = Nat.toDigits 10 n := by
  unfold chars natStr
  rw [List.map_map]
  have : (Char.ofNat ∘ Char.toNat) = id := by funext ch; simp [Function.comp]
  rw [this, List.map_id]

theorem pyInt_natStr (n : Nat) : Hp.pyInt (chars (natStr n)) = some (n : Int) := by
  rw [chars_natStr]; exact Hp.pyInt_toDigits n

theorem natStr_inj {a b : Nat} (h : natStr a = natStr b) : a = b := by
  have := pyInt_natStr a
  rw [h, pyInt_natStr b] at this
  have e : (b : Int) = (a : Int) := by simpa using this
  omega

/-- on the "http" scope the two tests for a secure scheme coincide: `scheme != 'http'` (WSGI `port`), `scheme == 'https'` (WSGI
    `netloc`), `scheme in ('https', 'wss')` (ASGI) -/
theorem secure_eq (c : Conn) (l : Lib) (hs : wfScheme c = true) :
    secure (toScope c l) = (c.scheme == HTTPS) ∧ (c.scheme != HTTP) = (c.scheme == HTTPS) := by
  unfold secure
  rw [asgiScheme_eq]
  simp only [wfScheme, Bool.or_eq_true, beq_iff_eq] at hs
  rcases hs with h | h <;> rw [h] <;> decide

/-- **port**: the port of the Host header, else the scheme's default (80 / 443), else SERVER_PORT (a decimal string, through
    `int()`) vs scope['server'][1] (an int) -/
theorem port_agree (c : Conn) (l : Lib) (hreq : Wr.wfReq (toHReq c) = true) (hs : wfScheme c = true) (hl : l.server = .given) :
    wsgiPort (toEnviron c l) = asgiPort (toScope c l) (Wr.asgiStore (toScope c l).headers) := by
  unfold wsgiPort asgiPort
  rw [env_HOST c l hreq, env_URL_SCHEME, env_SERVER_PORT, asgiServer_given c l hl]
  obtain ⟨h1, h2⟩ := secure_eq c l hs
  cases dget (Wr.asgiStore (toScope c l).headers) hostLow with
  | some h => simp only [h1, h2]
  | none => simp only [pyInt_natStr]

theorem natStr_443 : natStr 443 = lit "443" := by decide
theorem natStr_80 : natStr 80 = lit "80" := by decide

/-- **netloc**: the Host header verbatim, else name[:port] with the port left out when it is the scheme's default - compared as a
    string on WSGI (`port != '443'`) and as an int on ASGI (`port != 443`) -/
theorem netloc_agree (c : Conn) (l : Lib) (hreq : Wr.wfReq (toHReq c) = true) (hs : wfScheme c = true) (hl : l.server = .given) :
    wsgiNetloc (toEnviron c l) = .ok (asgiNetloc (toScope c l) (Wr.asgiStore (toScope c l).headers)) := by
  unfold wsgiNetloc asgiNetloc
  rw [env_HOST c l hreq, env_URL_SCHEME, env_SERVER_PORT, env_SERVER_NAME, asgiServer_given c l hl]
  obtain ⟨h1, _⟩ := secure_eq c l hs
  cases dget (Wr.asgiStore (toScope c l).headers) hostLow with
  | some h => rfl
  | none =>
    simp only [h1]
    have e443 : (natStr c.server.2 != lit "443") = (c.server.2 != 443) := by
      rw [← natStr_443]
      by_cases e : c.server.2 = 443
      · rw [e]; decide
      · have : natStr c.server.2 ≠ natStr 443 := fun h => e (natStr_inj h)
        rw [bne_iff_ne.2 this, bne_iff_ne.2 e]
    have e80 : (natStr c.server.2 != lit "80") = (c.server.2 != 80) := by
      rw [← natStr_80]
      by_cases e : c.server.2 = 80
      · rw [e]; decide
      · have : natStr c.server.2 ≠ natStr 80 := fun h => e (natStr_inj h)
        rw [bne_iff_ne.2 this, bne_iff_ne.2 e]
    rw [e443, e80]
    cases (c.scheme == HTTPS) <;> cases (c.server.2 != 443) <;> cases (c.server.2 != 80) <;> rfl

/-! ### remote_addr, access_route -/
theorem finishRoute_asgi_irrelevant (route : List Hp.Str) (remote : Hp.Str) (h : remote ≠ []) :
    Fw.finishRoute true route remote = Fw.finishRoute false route remote := by
  unfold Fw.finishRoute
  have : remote.isEmpty = false := by cases remote <;> simp_all
  simp [this]

theorem getLast_finishRoute (route : List Hp.Str) (remote : Hp.Str) :
    (Fw.finishRoute false route remote).getLast? = some remote := by
  unfold Fw.finishRoute
  by_cases he : route.isEmpty = true
  · simp [he]
  · simp only [he, Bool.false_eq_true, if_false, Bool.false_and]
    by_cases hl : (route.getLast? != some remote) = true
    · simp [hl]
    · simp only [hl]
      simpa using hl

theorem chars_ne_nil {s : Str} (h : s.isEmpty = false) : chars s ≠ [] := by
  cases s with
  | nil => simp at h
  | cons a r => simp [chars]

/-- the address of the peer, 127.0.0.1 when the server does not know it -/
def clientAddr (c : Conn) : Str :=
  match c.client with
  | some a => a.1
  | none => LOOPBACK

/-- the client address both stacks append to the route: REMOTE_ADDR vs scope['client'][0], both defaulting to 127.0.0.1 -/
theorem client_agree (c : Conn) (l : Lib) :
    asgiClient (toScope c l) = .ok (clientAddr c) := by
  unfold asgiClient toScope clientAddr
  cases c.client <;> cases l.clientNull <;> simp

theorem wsgiRemoteAddr_eq (c : Conn) (l : Lib) :
    wsgiRemoteAddr (toEnviron c l) = chars (clientAddr c) := by
  unfold wsgiRemoteAddr clientAddr
  rw [env_REMOTE_ADDR]
  cases c.client <;> rfl

theorem chars_eq_nil_iff (s : Str) : chars s = [] ↔ s.isEmpty = true := by
  cases s <;> simp [chars]

theorem remote_ne_nil_iff (c : Conn) : chars (clientAddr c) ≠ [] ↔ wfClient c = true := by
  unfold wfClient clientAddr
  cases hcl : c.client with
  | none => simp only; constructor <;> intro _ <;> first | rfl | decide
  | some a =>
    simp only [ne_eq, chars_eq_nil_iff]
    cases a.1.isEmpty <;> simp

theorem remote_ne_nil (c : Conn) (hc : wfClient c = true) : chars (clientAddr c) ≠ [] := (remote_ne_nil_iff c).2 hc

/-- **access_route**: the route built from Forwarded / X-Forwarded-For / X-Real-IP (same header values on both stacks, `Fw.accessRoute`
    of C09) completed with REMOTE_ADDR (WSGI) / scope['client'][0] (ASGI) -/
theorem access_route_agree (c : Conn) (l : Lib) (hreq : Wr.wfReq (toHReq c) = true) (hc : wfClient c = true) :
    asgiAccessRoute (toScope c l) (Wr.asgiStore (toScope c l).headers) = .ok (wsgiAccessRoute (toEnviron c l)) := by
  unfold asgiAccessRoute asgiAccessRouteOf wsgiAccessRoute
  rw [client_agree c l, env_FORWARDED c l hreq, env_XFF c l hreq, env_XRI c l hreq, wsgiRemoteAddr_eq]
  simp only [Fw.accessRoute]
  rw [finishRoute_asgi_irrelevant _ _ (remote_ne_nil c hc)]

/-- **remote_addr**: `env['REMOTE_ADDR']` (default 127.0.0.1) vs the LAST element of the ASGI access_route -/
theorem remote_addr_agree (c : Conn) (l : Lib) (hreq : Wr.wfReq (toHReq c) = true) (hc : wfClient c = true) :
    asgiRemoteAddr (toScope c l) (Wr.asgiStore (toScope c l).headers) = .ok (wsgiRemoteAddr (toEnviron c l)) := by
  have h := access_route_agree c l hreq hc
  unfold asgiAccessRoute at h
  unfold asgiRemoteAddr asgiRemoteAddrOf
  rw [h]
  simp only [wsgiAccessRoute, Fw.accessRoute, getLast_finishRoute]
theorem stripSlash_ne_nil (on : Bool) (p : Str) (h : p ≠ []) : stripSlash on p ≠ [] := by
  unfold stripSlash
  split
  · rename_i hc
    simp only [Bool.and_eq_true, bne_iff_ne, ne_eq] at hc
    intro e
    have hl := congrArg List.length e
    simp only [List.length_dropLast, List.length_nil] at hl
    have : p.length ≠ 0 := fun e0 => h (List.length_eq_zero_iff.1 e0)
    omega
  · exact h

/-- `req.path` is never empty on either stack (an empty path becomes "/", "/" is never stripped) -/
theorem path_ne_nil (c : Conn) (l : Lib) (strip : Bool) : asgiPath (toScope c l) strip ≠ [] := by
  unfold asgiPath
  apply stripSlash_ne_nil
  split
  · simp
  · rename_i h; intro e; simp [e] at h

/-! ### the exact remaining condition for remote_addr / access_route -/

/-- the header-derived part of the route, as falcon's ASGI request computes it -/
def hdrRoute (c : Conn) (l : Lib) : List Hp.Str :=
  let store := Wr.asgiStore (toScope c l).headers
  Fw.routeBase ((dget store fwdLow).map chars) ((dget store xffLow).map chars) ((dget store xriLow).map chars)

theorem finishRoute_agree_iff (route : List Hp.Str) (remote : Hp.Str) :
    Fw.finishRoute true route remote = Fw.finishRoute false route remote ↔ (remote ≠ [] ∨ route ≠ []) := by
  constructor
  · intro h
    cases remote with
    | cons a r => exact Or.inl (by simp)
    | nil =>
      cases route with
      | cons x xs => exact Or.inr (by simp)
      | nil => exact absurd h (by decide)
  · rintro (h | h)
    · exact finishRoute_asgi_irrelevant route remote h
    · unfold Fw.finishRoute
      have : route.isEmpty = false := by cases route <;> simp_all
      simp [this]

/-- **the exact condition for access_route** (on the header domain of `Wr`): the two access routes are equal IF AND ONLY IF the client
    address is non-empty or the forwarding headers contribute at least one entry (`[client] if client else []` is the only difference
    left, and it shows only when both are empty) - in particular for every unknown client, reported by omission or as None -/
theorem access_route_agree_iff (c : Conn) (l : Lib) (hreq : Wr.wfReq (toHReq c) = true) :
    asgiAccessRoute (toScope c l) (Wr.asgiStore (toScope c l).headers) = .ok (wsgiAccessRoute (toEnviron c l))
      ↔ (wfClient c = true ∨ hdrRoute c l ≠ []) := by
  unfold asgiAccessRoute asgiAccessRouteOf wsgiAccessRoute hdrRoute
  rw [client_agree c l, env_FORWARDED c l hreq, env_XFF c l hreq, env_XRI c l hreq, wsgiRemoteAddr_eq]
  simp only [Fw.accessRoute, Out.ok.injEq]
  rw [finishRoute_agree_iff, remote_ne_nil_iff]

/-- … and the same condition is exact for remote_addr (with an empty client address and an empty header route `route[-1]` is an IndexError) -/
theorem remote_addr_agree_iff (c : Conn) (l : Lib) (hreq : Wr.wfReq (toHReq c) = true) :
    asgiRemoteAddr (toScope c l) (Wr.asgiStore (toScope c l).headers) = .ok (wsgiRemoteAddr (toEnviron c l))
      ↔ (wfClient c = true ∨ hdrRoute c l ≠ []) := by
  constructor
  · intro h
    rcases Classical.em (wfClient c = true ∨ hdrRoute c l ≠ []) with hc | hc
    · exact hc
    · exfalso
      have h1 : wfClient c = false := by cases hw : wfClient c <;> simp_all
      have h2 : hdrRoute c l = [] := by
        cases hr : hdrRoute c l with
        | nil => rfl
        | cons x xs => exact absurd (Or.inr (by simp [hr])) hc
      have hrem : chars (clientAddr c) = [] := by
        cases hx : chars (clientAddr c) with
        | nil => rfl
        | cons x xs =>
          have := (remote_ne_nil_iff c).1 (by rw [hx]; simp)
          rw [h1] at this; exact absurd this (by simp)
      unfold asgiRemoteAddr asgiRemoteAddrOf asgiAccessRouteOf at h
      unfold hdrRoute at h2
      rw [client_agree c l] at h
      simp only [Fw.accessRoute] at h
      simp only at h2
      rw [h2, hrem] at h
      have e : Fw.finishRoute true ([] : List Hp.Str) [] = [] := by decide
      rw [e] at h
      simp at h
  · intro hc
    have h := (access_route_agree_iff c l hreq).2 hc
    unfold asgiAccessRoute at h
    unfold asgiRemoteAddr asgiRemoteAddrOf
    rw [h]
    simp only [wsgiAccessRoute, Fw.accessRoute, getLast_finishRoute]

/-! ### the whole view -/
/-- **WSGI and ASGI describe the same request line and connection.**  For every wire request of the domain `wfConn`
    (ASCII request-target, upper-case method, scheme http/https, ASCII mount point, non-empty client address if any, header
    names ASCII without `_` and no repeated singleton header; the ASGI server tells its own address), every liberty the two specs leave to the servers (`Lib`) and all eight settings of the request options:
    method, path, query_string, params, root_path (= app), scheme, host, port, netloc, remote_addr and access_route of
    `falcon.Request(environ)` and `falcon.asgi.Request(scope)` are the same values / the same HTTPInvalidHeader. -/
theorem request_view_agree (c : Conn) (l : Lib) (o : Opts) (h : wfConn c l = true) :
    wsgiView (toEnviron c l) o = asgiView (toScope c l) o := by
  simp only [wfConn, Bool.and_eq_true] at h
  obtain ⟨⟨⟨⟨⟨⟨ht, hm⟩, hs⟩, hr⟩, hc⟩, hl⟩, hreq⟩ := h
  simp only [wfLib, decide_eq_true_eq] at hl
  have hsv := hl
  unfold wsgiView asgiView
  simp only
  rw [method_agree c l hm, path_agree, query_string_agree c l ht, params_agree c l ht, root_path_agree c l hr, scheme_agree,
      host_agree c l hreq hsv, port_agree c l hreq hs hsv, netloc_agree c l hreq hs hsv, remote_addr_agree c l hreq hc,
      access_route_agree c l hreq hc]

/-! ### the exclusions are exact (not only necessary on a witness) -/
theorem method_agree_iff (c : Conn) (l : Lib) :
    wsgiMethod (toEnviron c l) = .ok (asgiMethod (toScope c l)) ↔ wfMethod c = true := by
  constructor
  · intro h
    unfold wsgiMethod asgiMethod toScope at h
    rw [env_REQUEST_METHOD] at h
    simp only [Out.ok.injEq] at h
    simp [wfMethod, ← h]
  · exact method_agree c l

theorem leadInfo_pos (b : UInt8) (k lo hi : Nat) (h : U8.leadInfo b = some (k, lo, hi)) : 1 ≤ k := by
  rw [U8.leadInfo_eq] at h
  repeat' split at h
  all_goals first | (simp only [Option.some.injEq, Prod.mk.injEq] at h; omega) | exact absurd h (by simp)

/-- a successful strict decode yields at most one code point per byte, and exactly one per byte only for ASCII input -/
theorem strictFuel_length : ∀ (f : Nat) (bs : Bytes) (t : Str), strictFuel f bs = some t →
    t.length ≤ bs.length ∧ (t.length = bs.length → ∀ b ∈ bs, b.toNat < 128) := by
  intro f
  induction f with
  | zero => intro bs t h; simp [strictFuel] at h; subst h; cases bs <;> simp
  | succ f ih =>
    intro bs t h
    cases bs with
    | nil => simp [strictFuel] at h; subst h; simp
    | cons b rest =>
      simp only [strictFuel] at h
      split at h
      · rename_i hb
        cases hr : strictFuel f rest with
        | none => simp [hr] at h
        | some t' =>
          simp [hr] at h; subst h
          obtain ⟨h1, h2⟩ := ih rest t' hr
          refine ⟨by simp; omega, ?_⟩
          intro hl x hx
          simp only [List.length_cons, Nat.add_right_cancel_iff] at hl
          rcases List.mem_cons.1 hx with e | e
          · rw [e]; exact hb
          · exact h2 hl x e
      · split at h
        · exact absurd h (by simp)
        · rename_i k lo hi hl
          have hk := leadInfo_pos b k lo hi hl
          split at h
          · rename_i cp rest' hc
            cases hr : strictFuel f rest' with
            | none => simp [hr] at h
            | some t' =>
              simp [hr] at h; subst h
              obtain ⟨h1, _⟩ := ih rest' t' hr
              obtain ⟨k', rfl⟩ : ∃ k', k = k' + 1 := ⟨k - 1, by omega⟩
              obtain ⟨c0, t0, hrest, _, _, hc'⟩ := U8.conts_some k' _ lo hi cp rest rest' hc
              have hlen := U8.conts_length k' (U8.leadBits b (k' + 1) * 64 + c0.toNat % 64) 0x80 0xBF t0
              rw [hc'] at hlen
              simp only at hlen
              subst hrest
              simp only [List.length_cons]
              constructor <;> omega
          · exact absurd h (by simp)

theorem decodeStrict_latin1_iff (bs : Bytes) : decodeStrict bs = some (latin1 bs) ↔ ∀ b ∈ bs, b.toNat < 128 := by
  constructor
  · intro h
    exact (strictFuel_length _ bs _ h).2 (by simp [latin1])
  · exact decodeStrict_ascii bs

/-- **the query-string domain is exact**: `falcon.asgi.Request.query_string` equals `falcon.Request.query_string` if and only if the raw
    query contains no non-ASCII byte -/
theorem query_string_agree_iff (c : Conn) (l : Lib) :
    asgiQueryString (toScope c l) = some (wsgiQueryString (toEnviron c l)) ↔ ∀ b ∈ rawQuery c, b.toNat < 128 := by
  rw [wsgiQueryString_eq]
  exact decodeStrict_latin1_iff (rawQuery c)

theorem wsgiRootPath_eq (c : Conn) (l : Lib) : wsgiRootPath (toEnviron c l) = latin1 (U8.encode c.rootPath) := by
  unfold wsgiRootPath
  rw [env_SCRIPT_NAME]
  by_cases he : c.rootPath.isEmpty = true
  · have : c.rootPath = [] := List.isEmpty_iff.1 he
    cases l.omitScriptName <;> simp [this, latin1, U8.encode]
  · simp [he]

theorem asgiRootPath_eq (c : Conn) (l : Lib) : asgiRootPath (toScope c l) = c.rootPath := by
  unfold asgiRootPath toScope
  by_cases he : c.rootPath.isEmpty = true
  · have : c.rootPath = [] := List.isEmpty_iff.1 he
    cases l.omitRootPath <;> simp [this]
  · simp [he]

theorem encodeCp_length (c : Nat) : 1 ≤ (U8.encodeCp c).length ∧ ((U8.encodeCp c).length = 1 → c < 128) := by
  unfold U8.encodeCp
  repeat' split
  all_goals simp_all

theorem encode_length : ∀ (s : Str), s.length ≤ (U8.encode s).length ∧ ((U8.encode s).length = s.length → isAscii s = true)
  | [] => by simp [U8.encode, isAscii]
  | c :: r => by
    obtain ⟨h1, h2⟩ := encode_length r
    obtain ⟨g1, g2⟩ := encodeCp_length c
    unfold U8.encode at h1 h2 ⊢
    simp only [List.flatMap_cons, List.length_append, List.length_cons]
    refine ⟨by omega, ?_⟩
    intro hl
    have hc : c < 128 := g2 (by omega)
    have hr := h2 (by omega)
    simp only [isAscii, List.all_cons, Bool.and_eq_true, decide_eq_true_eq] at hr ⊢
    exact ⟨hc, hr⟩

/-- **the mount-point domain is exact**: `root_path` / `app` agree if and only if the mount point is ASCII -/
theorem root_path_agree_iff (c : Conn) (l : Lib) :
    wsgiRootPath (toEnviron c l) = asgiRootPath (toScope c l) ↔ wfRoot c = true := by
  constructor
  · intro h
    rw [wsgiRootPath_eq, asgiRootPath_eq] at h
    have := congrArg List.length h
    simp only [latin1, List.length_map] at this
    exact (encode_length c.rootPath).2 this
  · exact root_path_agree c l

/-! ### a non-trivial request inside the domain, and what the model says about it -/

example : wfConn sampleConn {} = true := by decide
example : wfConn sampleConn { omitScheme := true, omitRootPath := true, omitQueryString := true, omitScriptName := true } = true := by decide
example : asgiPath (toScope sampleConn {}) false = lit "/café/" ++ [0xFFFD, 0xFFFD] ++ lit "/a/b/" := by decide
example : wsgiPath (toEnviron sampleConn {}) true = .ok (lit "/café/" ++ [0xFFFD, 0xFFFD] ++ lit "/a/b") := by decide
example : wsgiQueryString (toEnviron sampleConn {}) = lit "a=1&a=%C3%A9&k=&x=1,2" := by decide
example : (wsgiParams (toEnviron sampleConn {}) true true ==
    [(lit "a", .many [lit "1", lit "é"]), (lit "k", .one []), (lit "x", .many [lit "1", lit "2"])]) = true := by decide
example : (asgiParams (toScope sampleConn {}) false false == some [(lit "a", .many [lit "1", lit "é"]), (lit "x", .one (lit "1,2"))]) = true := by decide
example : wsgiHost (toEnviron sampleConn {}) = .ok "falconframework.org".toList := by decide
example : asgiPort (toScope sampleConn {}) (Wr.asgiStore (toScope sampleConn {}).headers) = .ok (some 8443) := by decide
example : wsgiNetloc (toEnviron sampleConn {}) = .ok (lit "falconframework.org:8443") := by decide
example : asgiAccessRoute (toScope sampleConn {}) (Wr.asgiStore (toScope sampleConn {}).headers)
    = .ok ["1.1.1.1".toList, "2.2.2.2".toList, "192.0.2.7".toList] := by decide
example : wsgiRootPath (toEnviron sampleConn {}) = lit "/app" := by decide

/-! ### every exclusion of the domain is necessary -/
def c0 : Conn := mkConn "GET" "/" "http" ("srv", 8080) none "" []

/-- a lower-case method token: WSGI hands it over as sent, ASGI upper-cased (everything else is inside the domain) -/
theorem method_case_witness :
    let c := { c0 with method := lit "get" }
    wsgiMethod (toEnviron c {}) = .ok (lit "get") ∧ asgiMethod (toScope c {}) = lit "GET"
    ∧ wfMethod c = false ∧ wfTarget c = true ∧ wfScheme c = true ∧ wfRoot c = true ∧ wfClient c = true ∧ wfLib {} = true
    ∧ Wr.wfReq (toHReq c) = true := by decide

/-- a scheme other than http / https: the default port of a port-less Host header is 443 on WSGI (`!= 'http'`) and 80 on ASGI
    (`in ('https', 'wss')` fails) … -/
theorem scheme_port_witness :
    let c := mkConn "GET" "/" "ftp" ("srv", 8080) none "" [("Host", "h")]
    wsgiPort (toEnviron c {}) = .ok (some 443) ∧ asgiPort (toScope c {}) (Wr.asgiStore (toScope c {}).headers) = .ok (some 80)
    ∧ wfScheme c = false ∧ wfTarget c = true ∧ wfMethod c = true ∧ wfRoot c = true ∧ wfClient c = true ∧ Wr.wfReq (toHReq c) = true := by decide
/-- … and "wss" is secure for the ASGI `netloc` only -/
theorem scheme_netloc_witness :
    let c := mkConn "GET" "/" "wss" ("srv", 443) none "" []
    wsgiNetloc (toEnviron c {}) = .ok (lit "srv:443") ∧ asgiNetloc (toScope c {}) (Wr.asgiStore (toScope c {}).headers) = lit "srv"
    ∧ wfScheme c = false := by decide

/-- raw (unescaped) non-ASCII bytes in the query: WSGI reads them as Latin-1, ASGI as UTF-8 … -/
theorem raw_query_witness :
    let c := withTarget c0 [47, 63, 113, 61, 0xC3, 0xA9]
    wsgiQueryString (toEnviron c {}) = [113, 61, 0xC3, 0xA9] ∧ asgiQueryString (toScope c {}) = some [113, 61, 0xE9]
    ∧ wfTarget c = false := by decide
/-- … strictly: the ASGI constructor raises UnicodeDecodeError where the WSGI one succeeds -/
theorem raw_query_raises_witness :
    let c := withTarget c0 [47, 63, 113, 61, 0xFF]
    wsgiQueryString (toEnviron c {}) = [113, 61, 0xFF] ∧ asgiQueryString (toScope c {}) = none
    ∧ (asgiParams (toScope c {}) true false).isNone = true := by decide
/-- the same raw bytes in the PATH are harmless (path_agree needs no hypothesis) -/
example : let c := withTarget c0 [47, 0xC3, 0xA9, 0xFF]
    wsgiPath (toEnviron c {}) false = .ok [47, 0xE9, 0xFFFD] ∧ asgiPath (toScope c {}) false = [47, 0xE9, 0xFFFD] := by decide

/-- a non-ASCII mount point: falcon returns SCRIPT_NAME without undoing the Latin-1 tunnel -/
theorem root_path_witness :
    let c := { c0 with rootPath := [47, 0xE9] }
    wsgiRootPath (toEnviron c {}) = [47, 0xC3, 0xA9] ∧ asgiRootPath (toScope c {}) = [47, 0xE9] ∧ wfRoot c = false := by decide

/-- an empty client address: `[client] if client else []` makes the ASGI route empty and `route[-1]` an IndexError -/
theorem empty_client_witness :
    let c := { c0 with client := some ([], 0) }
    wsgiRemoteAddr (toEnviron c {}) = [] ∧ wsgiAccessRoute (toEnviron c {}) = [[]]
    ∧ asgiAccessRoute (toScope c {}) (Wr.asgiStore (toScope c {}).headers) = .ok []
    ∧ asgiRemoteAddr (toScope c {}) (Wr.asgiStore (toScope c {}).headers) = .exc ∧ wfClient c = false := by decide

/-- REGRESSION witness (finding F36, fixed by 9e26a7e): with `scope['client'] = None` the code before the fix (`except KeyError` only:
    `asgiClientPinned`) raised TypeError from remote_addr / access_route where WSGI without REMOTE_ADDR answers 127.0.0.1; the repaired
    code (`asgiClient`) answers 127.0.0.1 like for a missing key, and the request is inside the domain -/
theorem client_none_regression_witness :
    let s := toScope c0 { clientNull := true }
    wsgiRemoteAddr (toEnviron c0 { clientNull := true }) = "127.0.0.1".toList
    ∧ asgiRemoteAddrOf (asgiClientPinned s) (Wr.asgiStore s.headers) = .exc
    ∧ asgiAccessRouteOf (asgiClientPinned s) (Wr.asgiStore s.headers) = .exc
    ∧ asgiRemoteAddr s (Wr.asgiStore s.headers) = .ok "127.0.0.1".toList
    ∧ asgiAccessRoute s (Wr.asgiStore s.headers) = .ok ["127.0.0.1".toList]
    ∧ wfConn c0 { clientNull := true } = true := by decide

/-- an ASGI server that does not tell its own address (`server` missing or None), no Host header: falcon invents localhost:80 -/
theorem server_missing_witness :
    wsgiHost (toEnviron c0 { server := .missing }) = .ok "srv".toList
    ∧ asgiHost (toScope c0 { server := .missing }) (Wr.asgiStore (toScope c0 { server := .missing }).headers) = .ok "localhost".toList
    ∧ wsgiPort (toEnviron c0 { server := .null }) = .ok (some 8080)
    ∧ asgiPort (toScope c0 { server := .null }) (Wr.asgiStore (toScope c0 { server := .null }).headers) = .ok (some 80)
    ∧ wsgiNetloc (toEnviron c0 { server := .null }) = .ok (lit "srv:8080")
    ∧ asgiNetloc (toScope c0 { server := .null }) (Wr.asgiStore (toScope c0 { server := .null }).headers) = lit "localhost"
    ∧ wfLib { server := .missing } = false ∧ wfLib { server := .null } = false := by decide

/-- a repeated Host header (`Wr.wfReq` fails): comma-joined on WSGI, the last one on ASGI -/
theorem repeated_host_witness :
    let c := mkConn "GET" "/" "http" ("srv", 8080) none "" [("Host", "a"), ("host", "b:81")]
    wsgiHost (toEnviron c {}) = .ok "a,b".toList ∧ asgiHost (toScope c {}) (Wr.asgiStore (toScope c {}).headers) = .ok "b".toList
    ∧ wsgiNetloc (toEnviron c {}) = .ok (lit "a,b:81") ∧ asgiNetloc (toScope c {}) (Wr.asgiStore (toScope c {}).headers) = lit "b:81"
    ∧ Wr.wfReq (toHReq c) = false := by decide

/-- `_` in a field name (`Wr.wfReq` fails): CGI reads X_Forwarded_For as X-Forwarded-For -/
theorem underscore_route_witness :
    let c := mkConn "GET" "/" "http" ("srv", 8080) none "" [("X_Forwarded_For", "7.7.7.7")]
    wsgiAccessRoute (toEnviron c {}) = ["7.7.7.7".toList, "127.0.0.1".toList]
    ∧ asgiAccessRoute (toScope c {}) (Wr.asgiStore (toScope c {}).headers) = .ok ["127.0.0.1".toList]
    ∧ Wr.wfReq (toHReq c) = false := by decide

/-- a strict ASGI server refuses `/%ff` itself (no scope, the application is not called); the lenient one and WSGI agree on U+FFFD -/
theorem strict_server_witness :
    let c := mkConn "GET" "/%ff" "http" ("srv", 8080) none "" []
    strictScopePath c = none ∧ asgiPath (toScope c {}) false = [47, 0xFFFD] ∧ wsgiPath (toEnviron c {}) false = .ok [47, 0xFFFD]
    ∧ strictScopePath sampleConn = none ∧ strictScopePath (mkConn "GET" "/caf%C3%A9" "http" ("srv", 8080) none "" []) = some (lit "/café") := by decide
end Wq

import FalconModel.Wire
import FalconModel.HeaderParsersProofs
/-! C06, request side: WSGI and ASGI header lookups agree (`FalconModel/Wire.lean` has the model).
    (Imports `HeaderParsersProofs` for `Hp.mem_dropWhile` only.)

    Plan: both header stores are brought into one canonical form `canon hs` (lower-cased name ↦ comma-joined values, in order
    of first occurrence): the PEP 3333 environ is `baseEnv ++ mapK envKey (canon hs) ++ tailEnv` for every header list with
    ASCII `_`-free names (`environ_canonical`), falcon's ASGI store *is* `canon hs` when no singleton header is repeated
    (`store_canonical`); `Request.get_header` on such an environ is a lookup in `canon hs` (`wsgiGet_canonical`). -/
namespace Wr

/-! ### dict lemmas -/
theorem dget_none_iff (d : Dict) (k : Str) : dget d k = none ↔ k ∉ keys d := by
  induction d with
  | nil => simp [dget, keys]
  | cons kv t ih =>
    obtain ⟨k0, v0⟩ := kv
    by_cases h : k0 = k
    · simp [dget, keys, h]
    · have : ¬ k = k0 := fun e => h e.symm
      simp [dget, h, this, keys] at ih ⊢; exact ih

theorem dget_dset (d : Dict) (k k' v : Str) : dget (dset d k v) k' = if k = k' then some v else dget d k' := by
  induction d with
  | nil => simp [dset, dget]
  | cons kv t ih =>
    obtain ⟨k0, v0⟩ := kv
    by_cases h : k0 = k
    · subst h; by_cases h' : k0 = k' <;> simp [dset, dget, h']
    · by_cases h' : k0 = k'
      · subst h'; simp [dset, dget, h]; intro e; exact absurd e.symm h
      · simp [dset, dget, h, h', ih]

theorem keys_dset (d : Dict) (k v : Str) : keys (dset d k v) = if k ∈ keys d then keys d else keys d ++ [k] := by
  induction d with
  | nil => simp [dset, keys]
  | cons kv t ih =>
    obtain ⟨k0, v0⟩ := kv
    by_cases h : k0 = k
    · subst h; simp [dset, keys]
    · have h2 : ¬ k = k0 := fun e => h e.symm
      simp only [keys] at ih
      simp only [dset, keys, h, if_false, List.map_cons, ih, List.mem_cons, h2, false_or]
      by_cases hm : k ∈ List.map Prod.fst t <;> simp [hm]

theorem dset_of_not_mem (d : Dict) (k v : Str) (h : k ∉ keys d) : dset d k v = d ++ [(k, v)] := by
  induction d with
  | nil => simp [dset]
  | cons kv t ih =>
    obtain ⟨k0, v0⟩ := kv
    simp [keys] at h
    have h1 : ¬ k0 = k := fun e => h.1 e.symm
    have : k ∉ keys t := by simpa [keys] using h.2
    simp [dset, h1, ih this]

theorem dget_append (a b : Dict) (k : Str) :
    dget (a ++ b) k = match dget a k with | some v => some v | none => dget b k := by
  induction a with
  | nil => simp [dget]
  | cons kv t ih =>
    obtain ⟨k0, v0⟩ := kv
    by_cases h : k0 = k <;> simp [dget, h, ih]

theorem dset_append_absent (a b : Dict) (k v : Str) (h : k ∉ keys a) : dset (a ++ b) k v = a ++ dset b k v := by
  induction a with
  | nil => simp
  | cons kv t ih =>
    obtain ⟨k0, v0⟩ := kv
    simp [keys] at h
    have h1 : ¬ k0 = k := fun e => h.1 e.symm
    have : k ∉ keys t := by simpa [keys] using h.2
    simp [dset, h1, ih this]

theorem dset_append_present (a b : Dict) (k v : Str) (h : k ∈ keys a) : dset (a ++ b) k v = dset a k v ++ b := by
  induction a with
  | nil => simp [keys] at h
  | cons kv t ih =>
    obtain ⟨k0, v0⟩ := kv
    by_cases h1 : k0 = k
    · simp [dset, h1]
    · have : k ∈ keys t := by
        simp [keys] at h ⊢; rcases h with h | h
        · exact absurd h.symm h1
        · exact h
      simp [dset, h1, ih this]

theorem keys_mapK (g : Str → Str) (d : Dict) : keys (mapK g d) = (keys d).map g := by
  simp [keys, mapK, List.map_map, Function.comp_def]

theorem dget_mapK (g : Str → Str) (d : Dict) (k : Str) (hinj : ∀ k' ∈ keys d, g k' = g k → k' = k) :
    dget (mapK g d) (g k) = dget d k := by
  induction d with
  | nil => simp [mapK, dget]
  | cons kv t ih =>
    obtain ⟨k0, v0⟩ := kv
    have ht : ∀ k' ∈ keys t, g k' = g k → k' = k := fun k' hk => hinj k' (by simp [keys] at hk ⊢; exact Or.inr hk)
    have ih' := ih ht
    simp only [mapK] at ih'
    by_cases h : k0 = k
    · subst h; simp [mapK, dget]
    · have : ¬ g k0 = g k := fun e => h (hinj k0 (by simp [keys]) e)
      simp [mapK, dget, h, this, ih']

theorem dset_mapK (g : Str → Str) (d : Dict) (k v : Str) (hinj : ∀ k' ∈ keys d, g k' = g k → k' = k) :
    dset (mapK g d) (g k) v = mapK g (dset d k v) := by
  induction d with
  | nil => simp [mapK, dset]
  | cons kv t ih =>
    obtain ⟨k0, v0⟩ := kv
    have ht : ∀ k' ∈ keys t, g k' = g k → k' = k := fun k' hk => hinj k' (by simp [keys] at hk ⊢; exact Or.inr hk)
    have ih' := ih ht
    simp only [mapK] at ih'
    by_cases h : k0 = k
    · subst h; simp [mapK, dset]
    · have : ¬ g k0 = g k := fun e => h (hinj k0 (by simp [keys]) e)
      simp [mapK, dset, h, this, ih']

theorem dJoin_mapK (g : Str → Str) (d : Dict) (k v : Str) (hinj : ∀ k' ∈ keys d, g k' = g k → k' = k) :
    dJoin (mapK g d) (g k) v = mapK g (dJoin d k v) := by
  unfold dJoin
  rw [dget_mapK g d k hinj]
  cases dget d k <;> simp [dset_mapK g d k _ hinj]

theorem keys_dJoin (d : Dict) (k v : Str) : keys (dJoin d k v) = if k ∈ keys d then keys d else keys d ++ [k] := by
  unfold dJoin; cases dget d k <;> simp [keys_dset]

theorem dget_dJoin (d : Dict) (k k' v : Str) :
    dget (dJoin d k v) k' = if k = k' then (match dget d k with | some old => some (old ++ 44 :: v) | none => some v) else dget d k' := by
  unfold dJoin; cases h : dget d k <;> simp [dget_dset]

/-! ### character / name lemmas -/
def ascii (s : Str) : Prop := ∀ c ∈ s, c < 128
/-- lower-case, ASCII, no `_`: the shape of every key of the ASGI store on the domain -/
def lk (s : Str) : Prop := ∀ c ∈ s, c < 128 ∧ c ≠ 95 ∧ ¬ (65 ≤ c ∧ c ≤ 90)
def cgiC (c : Nat) : Nat := if upA c = 45 then 95 else upA c

theorem nameOK_iff (n : Str) : nameOK n = true ↔ ∀ c ∈ n, c < 128 ∧ c ≠ 95 := by
  simp [nameOK, List.all_eq_true]

theorem ascii_of_ok {n : Str} (h : nameOK n = true) : ascii n := fun c hc => ((nameOK_iff n).1 h c hc).1
theorem ascii_of_lk {n : Str} (h : lk n) : ascii n := fun c hc => (h c hc).1

theorem pyUpper_ascii {s : Str} (h : ascii s) : pyUpper s = s.map upA := by
  induction s with
  | nil => rfl
  | cons c t ih =>
    have hc : c < 128 := h c (by simp)
    have ht : ascii t := fun d hd => h d (by simp [hd])
    simp only [pyUpper, List.flatMap_cons, List.map_cons] at ih ⊢
    rw [ih ht]; simp [pyUpperC, hc]

theorem pyLower_ascii {s : Str} (h : ascii s) : pyLower s = s.map loA := by
  unfold pyLower
  apply List.map_congr_left
  intro c hc; simp [pyLowerC, h c hc]

theorem cgiName_ascii {s : Str} (h : ascii s) : cgiName s = s.map cgiC := by
  simp [cgiName, pyUpper_ascii h, replaceC, List.map_map, Function.comp_def, cgiC]

theorem ascii_lower {s : Str} (h : ascii s) : ascii (pyLower s) := by
  rw [pyLower_ascii h]; intro c hc
  simp only [List.mem_map] at hc
  obtain ⟨d, hd, rfl⟩ := hc
  have := h d hd
  unfold loA; split <;> omega

theorem cgiC_loA (c : Nat) : cgiC (loA c) = cgiC c := by
  unfold cgiC upA loA; grind

theorem cgiName_lower {s : Str} (h : ascii s) : cgiName (pyLower s) = cgiName s := by
  rw [cgiName_ascii (ascii_lower h), cgiName_ascii h, pyLower_ascii h, List.map_map]
  apply List.map_congr_left; intro c _; exact cgiC_loA c

theorem envKey_lower {s : Str} (h : ascii s) : envKey (pyLower s) = envKey s := by
  simp [envKey, cgiName_lower h]

theorem lk_lower {n : Str} (h : nameOK n = true) : lk (pyLower n) := by
  rw [pyLower_ascii (ascii_of_ok h)]
  intro c hc
  simp only [List.mem_map] at hc
  obtain ⟨d, hd, rfl⟩ := hc
  have := (nameOK_iff n).1 h d hd
  unfold loA; split <;> omega

theorem lower_of_lk {k : Str} (h : lk k) : pyLower k = k := by
  rw [pyLower_ascii (ascii_of_lk h)]
  conv => rhs; rw [← List.map_id k]
  apply List.map_congr_left; intro c hc
  have := h c hc
  unfold loA; split <;> simp <;> omega

theorem cgiC_inj {c d : Nat} (hc : c < 128 ∧ c ≠ 95 ∧ ¬ (65 ≤ c ∧ c ≤ 90)) (hd : d < 128 ∧ d ≠ 95 ∧ ¬ (65 ≤ d ∧ d ≤ 90))
    (e : cgiC c = cgiC d) : c = d := by
  unfold cgiC upA at e; grind

theorem map_inj_on {f : Nat → Nat} {P : Nat → Prop} (hf : ∀ c d, P c → P d → f c = f d → c = d) :
    ∀ (a b : Str), (∀ c ∈ a, P c) → (∀ c ∈ b, P c) → a.map f = b.map f → a = b
  | [], [], _, _, _ => rfl
  | [], _ :: _, _, _, e => by simp at e
  | _ :: _, [], _, _, e => by simp at e
  | x :: a, y :: b, ha, hb, e => by
    simp only [List.map_cons, List.cons.injEq] at e
    have h1 := hf x y (ha x (by simp)) (hb y (by simp)) e.1
    have h2 := map_inj_on hf a b (fun c hc => ha c (by simp [hc])) (fun c hc => hb c (by simp [hc])) e.2
    rw [h1, h2]

theorem cgiName_inj_lk {a b : Str} (ha : lk a) (hb : lk b) (e : cgiName a = cgiName b) : a = b := by
  rw [cgiName_ascii (ascii_of_lk ha), cgiName_ascii (ascii_of_lk hb)] at e
  exact map_inj_on (P := fun c => c < 128 ∧ c ≠ 95 ∧ ¬ (65 ≤ c ∧ c ≤ 90)) (fun c d hc hd => cgiC_inj hc hd) a b ha hb e

theorem CT_ne_http (x : Str) : CT ≠ HTTP_ ++ x := by simp [CT, HTTP_]
theorem CL_ne_http (x : Str) : CL ≠ HTTP_ ++ x := by simp [CL, HTTP_]

theorem envKey_inj_lk {a b : Str} (ha : lk a) (hb : lk b) (e : envKey a = envKey b) : a = b := by
  apply cgiName_inj_lk ha hb
  unfold envKey at e
  simp only at e
  split at e <;> split at e
  · exact e
  · rename_i h1 _; rcases h1 with h1 | h1 <;> (rw [h1] at e; first | exact absurd e (CT_ne_http _) | exact absurd e (CL_ne_http _))
  · rename_i _ h2; rcases h2 with h2 | h2 <;> (rw [h2] at e; first | exact absurd e.symm (CT_ne_http _) | exact absurd e.symm (CL_ne_http _))
  · exact List.append_cancel_left e

/-- no header ever lands under `HTTP_CONTENT_TYPE` / `HTTP_CONTENT_LENGTH` -/
theorem envKey_ne_http_content (k : Str) : envKey k ≠ HTTP_ ++ CT ∧ envKey k ≠ HTTP_ ++ CL := by
  unfold envKey; simp only
  split
  · rename_i h; rcases h with h | h <;> rw [h] <;> constructor <;> simp [CT, CL, HTTP_]
  · rename_i h
    constructor <;> intro e <;> have := List.append_cancel_left e <;> simp [this] at h


/-! ### canonical forms -/
def plainKey (k : Str) : Prop := k.take 5 ≠ HTTP_ ∧ k ≠ CT ∧ k ≠ CL

theorem envKey_not_plain (n : Str) : ¬ plainKey (envKey n) := by
  unfold envKey plainKey; simp only
  split
  · rename_i h; rcases h with h | h <;> simp [h]
  · simp [HTTP_]

theorem not_mem_of_not_plain {d : Dict} (hd : ∀ k ∈ keys d, plainKey k) {k : Str} (hk : ¬ plainKey k) : k ∉ keys d :=
  fun h => hk (hd k h)

theorem dJoin_append_absent (a b : Dict) (k v : Str) (h : k ∉ keys a) : dJoin (a ++ b) k v = a ++ dJoin b k v := by
  unfold dJoin
  rw [dget_append, (dget_none_iff a k).2 h]
  cases dget b k <;> simp [dset_append_absent a b k _ h]

theorem lk_keys_dJoin {d : Dict} {k v : Str} (hd : ∀ k' ∈ keys d, lk k') (hk : lk k) : ∀ k' ∈ keys (dJoin d k v), lk k' := by
  intro k' h'
  rw [keys_dJoin] at h'
  split at h'
  · exact hd k' h'
  · simp at h'; rcases h' with h' | h'
    · exact hd k' h'
    · rw [h']; exact hk

theorem env_fold (base : Dict) (hb : ∀ k ∈ keys base, plainKey k) :
    ∀ (hs : List (Str × Str)) (d : Dict), (∀ h ∈ hs, nameOK h.1 = true) → (∀ k ∈ keys d, lk k) →
      hs.foldl envStep (base ++ mapK envKey d)
        = base ++ mapK envKey (hs.foldl (fun d h => dJoin d (pyLower h.1) h.2) d)
  | [], d, _, _ => rfl
  | (n, v) :: hs, d, hn, hd => by
    have hok : nameOK n = true := hn (n, v) (by simp)
    have hlk := lk_lower hok
    simp only [List.foldl_cons]
    have e1 : envStep (base ++ mapK envKey d) (n, v) = base ++ mapK envKey (dJoin d (pyLower n) v) := by
      unfold envStep; simp only
      rw [dJoin_append_absent _ _ _ _ (not_mem_of_not_plain hb (envKey_not_plain n)), ← envKey_lower (ascii_of_ok hok)]
      rw [dJoin_mapK envKey d (pyLower n) v (fun k' hk' e => envKey_inj_lk (hd k' hk') hlk e)]
    rw [e1]
    exact env_fold base hb hs _ (fun h hh => hn h (by simp [hh])) (lk_keys_dJoin hd hlk)

theorem lk_keys_canon_fold : ∀ (hs : List (Str × Str)) (d : Dict), (∀ h ∈ hs, nameOK h.1 = true) → (∀ k ∈ keys d, lk k) →
    ∀ k ∈ keys (hs.foldl (fun d h => dJoin d (pyLower h.1) h.2) d), lk k
  | [], _, _, hd => hd
  | (n, v) :: hs, d, hn, hd => by
    simp only [List.foldl_cons]
    exact lk_keys_canon_fold hs _ (fun h hh => hn h (by simp [hh])) (lk_keys_dJoin hd (lk_lower (hn (n, v) (by simp))))

theorem store_fold : ∀ (hs : List (Str × Str)) (d : Dict),
    (∀ s ∈ SINGLETONS, (if (dget d s).isSome then 1 else 0) + (hs.filter fun h => pyLower h.1 = s).length ≤ 1) →
    (hs.map fun h => (pyLower h.1, h.2)).foldl asgiStep d = hs.foldl (fun d h => dJoin d (pyLower h.1) h.2) d
  | [], _, _ => rfl
  | (n, v) :: hs, d, hyp => by
    simp only [List.map_cons, List.foldl_cons]
    have e1 : asgiStep d (pyLower n, v) = dJoin d (pyLower n) v := by
      unfold asgiStep dJoin; simp only
      cases hg : dget d (pyLower n) with
      | none => rfl
      | some old =>
        simp only
        by_cases hs' : pyLower n ∈ SINGLETONS
        · have := hyp _ hs'
          simp [hg] at this
          omega
        · simp [hs']
    rw [e1]
    apply store_fold hs
    intro s hs'
    have := hyp s hs'
    rw [dget_dJoin]
    by_cases e : pyLower n = s
    · simp only [e, if_true, List.filter_cons] at this ⊢
      simp at this ⊢
      cases dget d s <;> simp at this ⊢ <;> omega
    · simp only [e, if_false, List.filter_cons] at this ⊢
      simpa using this

theorem store_canonical (hs : List (Str × Str)) (h1 : singletonsOnce hs = true) :
    asgiStore (hs.map fun h => (pyLower h.1, h.2)) = canon hs := by
  unfold asgiStore canon
  apply store_fold
  intro s hs'
  simp only [singletonsOnce, List.all_eq_true, decide_eq_true_eq] at h1
  have := h1 s hs'
  simp [dget]; exact this


instance (k : Str) : Decidable (plainKey k) := by unfold plainKey; infer_instance

theorem baseEnv_plain (r : HReq) : ∀ k ∈ keys (baseEnv r), plainKey k := by
  have hall : (keys (baseEnv r)).all (fun k => decide (plainKey k)) = true := by
    obtain ⟨m, rp, pi, q, sn, sp, sc, cl, fw, hs⟩ := r
    rcases cl with _ | ⟨a, p⟩ <;> rfl
  intro k hk
  simpa using List.all_eq_true.1 hall k hk

theorem tailEnv_plain (r : HReq) : ∀ k ∈ keys (tailEnv r), plainKey k := by
  have hall : (keys (tailEnv r)).all (fun k => decide (plainKey k)) = true := by
    unfold tailEnv; cases r.fileWrapper <;> decide
  intro k hk
  simpa using List.all_eq_true.1 hall k hk

/-- **The environ in canonical form**: what the PEP 3333 server hands over is the fixed CGI / `wsgi.*` keys, then one key
    per distinct header name (in order of first occurrence, values comma-joined), then `wsgi.file_wrapper`. -/
theorem environ_canonical (r : HReq) (hn : ∀ h ∈ r.headers, nameOK h.1 = true) :
    toEnviron r = baseEnv r ++ mapK envKey (canon r.headers) ++ tailEnv r := by
  unfold toEnviron canon
  have := env_fold (baseEnv r) (baseEnv_plain r) r.headers [] hn (by simp [keys])
  simp only [mapK, List.map_nil, List.append_nil] at this
  rw [this]; simp [mapK]

theorem lk_keys_canon {hs : List (Str × Str)} (hn : ∀ h ∈ hs, nameOK h.1 = true) : ∀ k ∈ keys (canon hs), lk k :=
  lk_keys_canon_fold hs [] hn (by simp [keys])

theorem dget_sandwich (base M tail : Dict) (hb : ∀ k ∈ keys base, plainKey k) (ht : ∀ k ∈ keys tail, plainKey k)
    (k : Str) (hk : ¬ plainKey k) : dget (base ++ M ++ tail) k = dget M k := by
  rw [dget_append, dget_append, (dget_none_iff base k).2 (not_mem_of_not_plain hb hk),
      (dget_none_iff tail k).2 (not_mem_of_not_plain ht hk)]
  cases dget M k <;> rfl

theorem http_not_plain (x : Str) : ¬ plainKey (HTTP_ ++ x) := by simp [plainKey, HTTP_]

/-- `Request.get_header` on an environ in canonical form is a lookup of the lower-cased name in the canonical mapping -/
theorem wsgiGet_canonical (base R tail : Dict) (hb : ∀ k ∈ keys base, plainKey k) (ht : ∀ k ∈ keys tail, plainKey k)
    (hR : ∀ k ∈ keys R, lk k) (name : Str) (hn : nameOK name = true) (required : Bool) (default : Option Str) :
    wsgiGet (base ++ mapK envKey R ++ tail) name required default = asgiGetK R (pyLower name) required default := by
  have hlk := lk_lower hn
  have hinj : ∀ k' ∈ keys R, envKey k' = envKey (pyLower name) → k' = pyLower name :=
    fun k' hk' e => envKey_inj_lk (hR k' hk') hlk e
  have hlook : dget (mapK envKey R) (envKey name) = dget R (pyLower name) := by
    rw [← envKey_lower (ascii_of_ok hn)]; exact dget_mapK envKey R _ hinj
  unfold wsgiGet asgiGetK
  simp only
  rw [dget_sandwich base _ tail hb ht _ (http_not_plain _)]
  by_cases hc : cgiName name = CT ∨ cgiName name = CL
  · have hek : envKey name = cgiName name := by simp [envKey, hc]
    have h1 : dget (mapK envKey R) (HTTP_ ++ cgiName name) = none := by
      rw [dget_none_iff, keys_mapK]
      intro hm
      simp only [List.mem_map] at hm
      obtain ⟨k', _, e⟩ := hm
      rcases hc with hc | hc <;> rw [hc] at e
      · exact (envKey_ne_http_content k').1 e
      · exact (envKey_ne_http_content k').2 e
    rw [h1]
    simp only [hc, if_true]
    rw [dget_sandwich base _ tail hb ht _ (by rw [← hek]; exact envKey_not_plain name), ← hek, hlook]
  · have hek : envKey name = HTTP_ ++ cgiName name := by simp [envKey, hc]
    rw [← hek, hlook]
    simp only [hc, if_false]

/-! ### the request-side relational theorems -/

/-- **WSGI and ASGI `get_header` agree.**  For every wire header list on the domain (`wfReq`: names ASCII without `_`, no
    singleton header repeated) and every spelling of the looked-up name (ASCII without `_`), `required=` and `default=`:
    `falcon.Request(environ).get_header(name, …)` and `falcon.asgi.Request(scope, …).get_header(name, …)` return the same
    value / the same default / both raise HTTPMissingHeader. -/
theorem header_lookup_agree (r : HReq) (hwf : wfReq r = true) (name : Str) (hn : nameOK name = true)
    (required : Bool) (default : Option Str) :
    wsgiGet (toEnviron r) name required default = asgiGet (asgiStore (toScope r)) name required default := by
  simp only [wfReq, Bool.and_eq_true, List.all_eq_true] at hwf
  obtain ⟨hnames, hsing⟩ := hwf
  rw [environ_canonical r hnames, wsgiGet_canonical _ _ _ (baseEnv_plain r) (tailEnv_plain r) (lk_keys_canon hnames) name hn]
  unfold asgiGet asgiName toScope
  rw [store_canonical r.headers hsing]



example : wfReq sampleReq = true := by decide
example : wsgiGet (toEnviron sampleReq) (lit "aCCept") false none = .ok (some (lit "text/html,*/*")) := by decide
example : asgiGet (asgiStore (toScope sampleReq)) (lit "aCCept") false none = .ok (some (lit "text/html,*/*")) := by decide
example : wsgiGet (toEnviron sampleReq) (lit "X-CUSTOM") true none = .ok (some (lit "a,")) := by decide
example : wsgiGet (toEnviron sampleReq) (lit "Content-type") false none = .ok (some (lit "application/json")) := by decide
example : wsgiGet (toEnviron sampleReq) (lit "X-Missing") true none = .missing := by decide

/-! ### the exclusions are necessary -/
/-- a repeated singleton header: the PEP 3333 server joins the two field lines, falcon's ASGI store keeps the last one -/
theorem repeated_singleton_witness :
    let r := mkReq [("Host", "a"), ("host", "b")]
    wsgiGet (toEnviron r) (lit "Host") false none = .ok (some (lit "a,b"))
    ∧ asgiGet (asgiStore (toScope r)) (lit "Host") false none = .ok (some (lit "b"))
    ∧ (r.headers.all fun h => nameOK h.1) = true ∧ singletonsOnce r.headers = false := by decide

/-- `_` in a field name: CGI cannot tell `X_A` from `X-A`, ASGI can -/
theorem underscore_wire_name_witness :
    let r := mkReq [("X_A", "1"), ("X-A", "2")]
    wsgiGet (toEnviron r) (lit "X-A") false none = .ok (some (lit "1,2"))
    ∧ asgiGet (asgiStore (toScope r)) (lit "X-A") false none = .ok (some (lit "2"))
    ∧ singletonsOnce r.headers = true := by decide

/-- `_` in the looked-up name (the request itself is inside the domain) -/
theorem underscore_lookup_name_witness :
    let r := mkReq [("X-A", "1")]
    wfReq r = true
    ∧ wsgiGet (toEnviron r) (lit "X_A") false none = .ok (some (lit "1"))
    ∧ asgiGet (asgiStore (toScope r)) (lit "X_A") false none = .ok none := by decide

/-- a non-ASCII looked-up name: `'ß'.upper() == 'SS'`, so `get_header('ß')` finds the header `SS` on WSGI only -/
theorem non_ascii_lookup_name_witness :
    let r := mkReq [("SS", "1")]
    wfReq r = true
    ∧ wsgiGet (toEnviron r) [223] false none = .ok (some (lit "1"))
    ∧ asgiGet (asgiStore (toScope r)) [223] false none = .ok none := by decide

/-! ### case-insensitivity of the lookup, on each side, for every environ / store -/
theorem wsgi_lookup_case_insensitive (env : Dict) (n n' : Str) (hn : ascii n) (hn' : ascii n') (e : pyLower n = pyLower n')
    (required : Bool) (default : Option Str) : wsgiGet env n required default = wsgiGet env n' required default := by
  have : cgiName n = cgiName n' := by rw [← cgiName_lower hn, ← cgiName_lower hn', e]
  unfold wsgiGet; rw [this]

theorem asgi_lookup_case_insensitive (store : Dict) (n n' : Str) (e : pyLower n = pyLower n')
    (required : Bool) (default : Option Str) : asgiGet store n required default = asgiGet store n' required default := by
  unfold asgiGet asgiName; rw [e]

theorem loA_upA (c : Nat) : loA (upA c) = loA c := by unfold loA upA; grind
theorem loA_loA (c : Nat) : loA (loA c) = loA c := by unfold loA; grind
theorem ascii_upper {s : Str} (h : ascii s) : ascii (pyUpper s) := by
  rw [pyUpper_ascii h]; intro c hc
  simp only [List.mem_map] at hc
  obtain ⟨d, hd, rfl⟩ := hc
  have := h d hd
  unfold upA; split <;> omega
theorem lower_upper {s : Str} (h : ascii s) : pyLower (pyUpper s) = pyLower s := by
  rw [pyLower_ascii (ascii_upper h), pyUpper_ascii h, pyLower_ascii h, List.map_map]
  apply List.map_congr_left; intro c _; exact loA_upA c
theorem lower_lower {s : Str} (h : ascii s) : pyLower (pyLower s) = pyLower s := by
  rw [pyLower_ascii (ascii_lower h), pyLower_ascii h, List.map_map]
  apply List.map_congr_left; intro c _; exact loA_loA c

/-- `get_header('X-FOO') = get_header('x-foo') = get_header('X-Foo')` on WSGI … -/
theorem wsgi_lookup_upper_lower (env : Dict) (n : Str) (hn : ascii n) (required : Bool) (default : Option Str) :
    wsgiGet env (pyUpper n) required default = wsgiGet env n required default
    ∧ wsgiGet env (pyLower n) required default = wsgiGet env n required default :=
  ⟨wsgi_lookup_case_insensitive env _ _ (ascii_upper hn) hn (lower_upper hn) _ _,
   wsgi_lookup_case_insensitive env _ _ (ascii_lower hn) hn (lower_lower hn) _ _⟩
/-- … and on ASGI -/
theorem asgi_lookup_upper_lower (store : Dict) (n : Str) (hn : ascii n) (required : Bool) (default : Option Str) :
    asgiGet store (pyUpper n) required default = asgiGet store n required default
    ∧ asgiGet store (pyLower n) required default = asgiGet store n required default :=
  ⟨asgi_lookup_case_insensitive store _ _ (lower_upper hn) _ _, asgi_lookup_case_insensitive store _ _ (lower_lower hn) _ _⟩

/-! ### the `_name_cache` of the ASGI `get_header` is transparent -/
def CacheOK (cache : Dict) : Prop := ∀ n k, dget cache n = some k → k = asgiName n

theorem cacheOK_nil : CacheOK [] := by intro n k h; simp [dget] at h

theorem cachedName_transparent (cache : Dict) (name : Str) (h : CacheOK cache) :
    (cachedName cache name).1 = asgiName name ∧ CacheOK (cachedName cache name).2
    ∧ (cachedName cache name).2.length ≤ max cache.length 64 := by
  unfold cachedName
  cases hg : dget cache name with
  | some k => exact ⟨h name k hg, h, by simp; omega⟩
  | none =>
    refine ⟨rfl, ?_, ?_⟩
    · simp only
      split
      · intro n k hk
        rw [dget_dset] at hk
        split at hk
        · rename_i e; subst e; simp at hk; exact hk.symm
        · exact h n k hk
      · exact h
    · simp only
      split
      · rename_i hl
        have : (dset cache name (asgiName name)).length = cache.length + 1 := by
          rw [dset_of_not_mem _ _ _ ((dget_none_iff _ _).1 hg)]; simp
        omega
      · omega

/-- with any cache built by earlier calls, `get_header` returns what the cache-free definition returns -/
theorem asgiGetC_eq (cache store : Dict) (name : Str) (h : CacheOK cache) (required : Bool) (default : Option Str) :
    (asgiGetC cache store name required default).1 = asgiGet store name required default
    ∧ CacheOK (asgiGetC cache store name required default).2 := by
  have := cachedName_transparent cache name h
  unfold asgiGetC asgiGet
  exact ⟨by simp only; rw [this.1], this.2.1⟩


/-! ### `req.headers` -/
theorem nodup_keys_dJoin {d : Dict} {k v : Str} (h : (keys d).Nodup) : (keys (dJoin d k v)).Nodup := by
  rw [keys_dJoin]
  split
  · exact h
  · rename_i hk
    rw [List.nodup_append]
    exact ⟨h, by simp, by intro a ha b hb; simp at hb; subst hb; intro e; exact hk (e ▸ ha)⟩

theorem nodup_keys_canon_fold : ∀ (hs : List (Str × Str)) (d : Dict), (keys d).Nodup →
    (keys (hs.foldl (fun d h => dJoin d (pyLower h.1) h.2) d)).Nodup
  | [], _, h => h
  | _ :: hs, _, h => by simp only [List.foldl_cons]; exact nodup_keys_canon_fold hs _ (nodup_keys_dJoin h)

theorem nodup_keys_canon (hs : List (Str × Str)) : (keys (canon hs)).Nodup :=
  nodup_keys_canon_fold hs [] (by simp [keys])

/-- a dict comprehension whose new keys are all distinct is a `map` -/
theorem fold_dset_fresh (g : Str → Str) : ∀ (l acc : Dict), (keys acc ++ (keys l).map g).Nodup →
    l.foldl (fun h kv => dset h (g kv.1) kv.2) acc = acc ++ mapK g l
  | [], acc, _ => by simp [mapK]
  | (k, v) :: l, acc, hnd => by
    simp only [List.foldl_cons]
    have hk : g k ∉ keys acc := by
      intro hm
      rw [List.nodup_append] at hnd
      exact hnd.2.2 _ hm (g k) (by simp [keys]) rfl
    rw [dset_of_not_mem _ _ _ hk, fold_dset_fresh g l]
    · simp [mapK]
    · have : keys (acc ++ [(g k, v)]) ++ List.map g (keys l) = keys acc ++ List.map g (keys ((k, v) :: l)) := by
        simp [keys]
      rw [this]; exact hnd

theorem nodup_map_on {g : Str → Str} {l : List Str} (hinj : ∀ a ∈ l, ∀ b ∈ l, g a = g b → a = b) (h : l.Nodup) :
    (l.map g).Nodup := by
  unfold List.Nodup at h ⊢
  rw [List.pairwise_map]
  exact h.imp_of_mem (fun ha hb hne e => hne (hinj _ ha _ hb e))

/-- the name `Request.headers` gives to the environ key of header `k` -/
def hdrName (k : Str) : Str := replaceC 95 45 (cgiName k)

theorem hdrName_lk {k : Str} (h : lk k) : hdrName k = pyUpper k := by
  unfold hdrName
  rw [cgiName_ascii (ascii_of_lk h), pyUpper_ascii (ascii_of_lk h), replaceC, List.map_map]
  apply List.map_congr_left; intro c hc
  have := h c hc
  simp only [Function.comp, cgiC, upA]; grind

theorem upA_inj_lk {c d : Nat} (hc : c < 128 ∧ c ≠ 95 ∧ ¬ (65 ≤ c ∧ c ≤ 90)) (hd : d < 128 ∧ d ≠ 95 ∧ ¬ (65 ≤ d ∧ d ≤ 90))
    (e : upA c = upA d) : c = d := by unfold upA at e; grind

theorem pyUpper_inj_lk {a b : Str} (ha : lk a) (hb : lk b) (e : pyUpper a = pyUpper b) : a = b := by
  rw [pyUpper_ascii (ascii_of_lk ha), pyUpper_ascii (ascii_of_lk hb)] at e
  exact map_inj_on (P := fun c => c < 128 ∧ c ≠ 95 ∧ ¬ (65 ≤ c ∧ c ≤ 90)) (fun c d hc hd => upA_inj_lk hc hd) a b ha hb e

theorem lower_upper_lk {k : Str} (h : lk k) : pyLower (pyUpper k) = k := by
  rw [lower_upper (ascii_of_lk h), lower_of_lk h]

/-- the body of the `for name, value in self.env.items()` loop -/
def hdrStep (h : Dict) (kv : Str × Str) : Dict :=
  if kv.1.take 5 = HTTP_ then dset h (replaceC 95 45 (kv.1.drop 5)) kv.2
  else if kv.1 = CT ∨ kv.1 = CL then dset h (replaceC 95 45 kv.1) kv.2
  else h

theorem wsgiHeaders_eq (env : Dict) : wsgiHeaders env = env.foldl hdrStep [] := rfl

theorem hdrStep_plain : ∀ (l : Dict) (acc : Dict), (∀ k ∈ keys l, plainKey k) → l.foldl hdrStep acc = acc
  | [], _, _ => rfl
  | (k, v) :: l, acc, hp => by
    have hk : plainKey k := hp k (by simp [keys])
    simp only [List.foldl_cons]
    have : hdrStep acc (k, v) = acc := by
      unfold hdrStep; unfold plainKey at hk; simp [hk.1, hk.2.1, hk.2.2]
    rw [this]; exact hdrStep_plain l acc (fun k' hk' => hp k' (by simp [keys] at hk' ⊢; exact Or.inr hk'))

theorem hdrStep_envKey (h : Dict) (k v : Str) : hdrStep h (envKey k, v) = dset h (hdrName k) v := by
  unfold hdrStep hdrName envKey
  simp only
  by_cases hc : cgiName k = CT ∨ cgiName k = CL
  · simp only [hc, if_true]
    have : ¬ (cgiName k).take 5 = HTTP_ := by rcases hc with hc | hc <;> rw [hc] <;> decide
    simp [this]
  · simp only [hc, if_false]
    have h5 : (HTTP_ ++ cgiName k).take 5 = HTTP_ := by simp [HTTP_]
    have hd : (HTTP_ ++ cgiName k).drop 5 = cgiName k := by simp [HTTP_]
    simp [h5, hd]

theorem hdrStep_mapK : ∀ (R acc : Dict),
    (mapK envKey R).foldl hdrStep acc = R.foldl (fun h kv => dset h (hdrName kv.1) kv.2) acc
  | [], _ => rfl
  | (k, v) :: R, acc => by
    simp only [mapK, List.map_cons, List.foldl_cons]
    rw [hdrStep_envKey]; exact hdrStep_mapK R _

/-- `Request.headers` of an environ in canonical form -/
theorem wsgiHeaders_canonical (base R tail : Dict) (hb : ∀ k ∈ keys base, plainKey k) (ht : ∀ k ∈ keys tail, plainKey k)
    (hR : ∀ k ∈ keys R, lk k) (hnd : (keys R).Nodup) :
    wsgiHeaders (base ++ mapK envKey R ++ tail) = mapK pyUpper R := by
  rw [wsgiHeaders_eq, List.foldl_append, List.foldl_append, hdrStep_plain base [] hb, hdrStep_plain tail _ ht, hdrStep_mapK,
      fold_dset_fresh hdrName R []]
  · simp only [List.nil_append, mapK]
    apply List.map_congr_left; intro kv hkv
    rw [hdrName_lk (hR kv.1 (by simp [keys]; exact ⟨kv.2, hkv⟩))]
  · simp only [keys, List.map_nil, List.nil_append]
    apply nodup_map_on _ hnd
    intro a ha b hb' e
    rw [hdrName_lk (hR a ha), hdrName_lk (hR b hb')] at e
    exact pyUpper_inj_lk (hR a ha) (hR b hb') e

theorem mapK_mapK (f g : Str → Str) (d : Dict) : mapK f (mapK g d) = mapK (fun k => f (g k)) d := by
  simp [mapK, List.map_map, Function.comp_def]

theorem mapK_id_on {g : Str → Str} {d : Dict} (h : ∀ k ∈ keys d, g k = k) : mapK g d = d := by
  unfold mapK
  conv => rhs; rw [← List.map_id d]
  apply List.map_congr_left; intro kv hkv
  have := h kv.1 (by simp [keys]; exact ⟨kv.2, hkv⟩)
  simp [this]

theorem wsgiHeadersLower_canonical (base R tail : Dict) (hb : ∀ k ∈ keys base, plainKey k) (ht : ∀ k ∈ keys tail, plainKey k)
    (hR : ∀ k ∈ keys R, lk k) (hnd : (keys R).Nodup) :
    wsgiHeadersLower (base ++ mapK envKey R ++ tail) = R := by
  unfold wsgiHeadersLower
  rw [wsgiHeaders_canonical base R tail hb ht hR hnd, fold_dset_fresh pyLower (mapK pyUpper R) []]
  · simp only [List.nil_append, mapK_mapK]
    exact mapK_id_on (fun k hk => lower_upper_lk (hR k hk))
  · simp only [keys, List.map_nil, List.nil_append]
    have : List.map pyLower (List.map Prod.fst (mapK pyUpper R)) = keys R := by
      simp only [mapK, List.map_map, keys]
      conv => rhs; rw [← List.map_id R, List.map_map]
      apply List.map_congr_left; intro kv hkv
      simp only [Function.comp]
      exact lower_upper_lk (hR kv.1 (by simp [keys]; exact ⟨kv.2, hkv⟩))
    rw [this]; exact hnd

theorem asgiHeaders_nodup (R : Dict) (hnd : (keys R).Nodup) : asgiHeaders R = R := by
  unfold asgiHeaders
  have := fold_dset_fresh id R [] (by simpa [keys] using hnd)
  simp only [id, List.nil_append] at this
  rw [this]; exact mapK_id_on (fun _ _ => rfl)

/-- **`req.headers_lower` / `req.headers` agree, as dicts in iteration order.**  On the domain, the WSGI
    `Request.headers_lower` and the ASGI `Request.headers` (= `.headers_lower`) are the same list of (name, value) items:
    lower-cased names in order of first occurrence, repeated field lines comma-joined (both equal `canon`). -/
theorem headers_agree (r : HReq) (hwf : wfReq r = true) :
    wsgiHeadersLower (toEnviron r) = asgiHeaders (asgiStore (toScope r))
    ∧ asgiHeaders (asgiStore (toScope r)) = canon r.headers := by
  simp only [wfReq, Bool.and_eq_true, List.all_eq_true] at hwf
  obtain ⟨hnames, hsing⟩ := hwf
  have h2 : asgiHeaders (asgiStore (toScope r)) = canon r.headers := by
    unfold toScope; rw [store_canonical r.headers hsing]; exact asgiHeaders_nodup _ (nodup_keys_canon _)
  refine ⟨?_, h2⟩
  rw [h2, environ_canonical r hnames]
  exact wsgiHeadersLower_canonical _ _ _ (baseEnv_plain r) (tailEnv_plain r) (lk_keys_canon hnames) (nodup_keys_canon _)

/-- WSGI `req.headers` is the same mapping with the names upper-cased (the documented per-interface difference) -/
theorem wsgi_headers_upper (r : HReq) (hn : ∀ h ∈ r.headers, nameOK h.1 = true) :
    wsgiHeaders (toEnviron r) = mapK pyUpper (canon r.headers) := by
  rw [environ_canonical r hn]
  exact wsgiHeaders_canonical _ _ _ (baseEnv_plain r) (tailEnv_plain r) (lk_keys_canon hn) (nodup_keys_canon _)

example : asgiHeaders (asgiStore (toScope sampleReq)) =
    [(lit "accept", lit "text/html,*/*"), (lit "x-custom", lit "a,"), (lit "content-type", lit "application/json"),
     (lit "content-length", lit "12"), (lit "host", lit "example.com")] := by decide


/-! ### `content_type`, `content_length`: the special-cased keys -/
theorem dget_environ_key (r : HReq) (hn : ∀ h ∈ r.headers, nameOK h.1 = true) (k : Str) (hk : lk k) :
    dget (toEnviron r) (envKey k) = dget (canon r.headers) k := by
  rw [environ_canonical r hn, dget_sandwich _ _ _ (baseEnv_plain r) (tailEnv_plain r) _ (envKey_not_plain k)]
  exact dget_mapK envKey _ k (fun k' hk' e => envKey_inj_lk (lk_keys_canon hn k' hk') hk e)

theorem lk_ctLow : lk ctLow := by unfold lk; decide
theorem lk_clLow : lk clLow := by unfold lk; decide

theorem asgiContentType_eq (method : Str) (store : Dict) : asgiContentType method store = dget store ctLow := by
  unfold asgiContentType
  split
  · cases dget store ctLow <;> rfl
  · rfl

/-- **`req.content_type` agrees** (`env['CONTENT_TYPE']` vs `_asgi_headers[b'content-type']`, both method branches) -/
theorem content_type_agree (r : HReq) (hwf : wfReq r = true) :
    wsgiContentType (toEnviron r) = asgiContentType r.method (asgiStore (toScope r)) := by
  simp only [wfReq, Bool.and_eq_true, List.all_eq_true] at hwf
  obtain ⟨hnames, hsing⟩ := hwf
  rw [asgiContentType_eq]
  unfold wsgiContentType toScope
  rw [store_canonical r.headers hsing]
  exact dget_environ_key r hnames ctLow lk_ctLow

/-- the raw Content-Length value is the same on both sides -/
theorem content_length_raw_agree (r : HReq) (hwf : wfReq r = true) :
    dget (toEnviron r) CL = dget (asgiStore (toScope r)) clLow := by
  simp only [wfReq, Bool.and_eq_true, List.all_eq_true] at hwf
  obtain ⟨hnames, hsing⟩ := hwf
  unfold toScope
  rw [store_canonical r.headers hsing]
  exact dget_environ_key r hnames clLow lk_clLow


theorem toNat_ofNat_cases (n : Nat) : (Char.ofNat n).toNat = n ∨ (Char.ofNat n).toNat = 0 := by
  by_cases hv : n.isValidChar
  · left; simp [Char.ofNat, hv, Char.ofNatAux, Char.toNat, UInt32.toNat]
  · right; simp [Char.ofNat, hv, Char.toNat, UInt32.toNat]

theorem isWsInt_eq_isWsB (n : Nat) (h : exoticWs n = false) : isWsInt (Char.ofNat n) = Hp.isWsB (Char.ofNat n) := by
  unfold isWsInt
  rcases toNat_ofNat_cases n with e | e
  · rw [e]; unfold exoticWs at h; simp at h ⊢; grind
  · rw [e]; simp

theorem dropWhile_congr {w w' : Char → Bool} : ∀ (s : List Char), (∀ c ∈ s, w c = w' c) → s.dropWhile w = s.dropWhile w'
  | [], _ => rfl
  | c :: s, h => by
    have hc := h c (by simp)
    simp only [List.dropWhile_cons, hc]
    split
    · exact dropWhile_congr s (fun d hd => h d (by simp [hd]))
    · rfl

theorem pyIntW_congr {w w' : Char → Bool} (s : List Char) (h : ∀ c ∈ s, w c = w' c) : Hp.pyIntW w s = Hp.pyIntW w' s := by
  have h1 : Hp.lstripW w s = Hp.lstripW w' s := dropWhile_congr s h
  have h2 : Hp.stripW w s = Hp.stripW w' s := by
    unfold Hp.stripW Hp.rstripW
    rw [← h1]
    congr 1
    apply dropWhile_congr
    intro c hc
    exact h c (Hp.mem_dropWhile (List.mem_reverse.1 hc))
  unfold Hp.pyIntW; rw [h2]

/-- every code point of a canonical value is a `,` or comes from a field line with that name -/
theorem canon_fold_chars (Q : Nat → Prop) (k : Str) (hq : Q 44) : ∀ (hs : List (Str × Str)) (d : Dict),
    (∀ h ∈ hs, pyLower h.1 = k → ∀ c ∈ h.2, Q c) → (∀ v, dget d k = some v → ∀ c ∈ v, Q c) →
    ∀ v, dget (hs.foldl (fun d h => dJoin d (pyLower h.1) h.2) d) k = some v → ∀ c ∈ v, Q c
  | [], _, _, hd => hd
  | (n, x) :: hs, d, hh, hd => by
    simp only [List.foldl_cons]
    apply canon_fold_chars Q k hq hs _ (fun h hm => hh h (by simp [hm]))
    intro v hv c hc
    rw [dget_dJoin] at hv
    split at hv
    · rename_i e
      have hx := hh (n, x) (by simp) e
      cases hg : dget d (pyLower n) with
      | none => simp [hg] at hv; subst hv; exact hx c hc
      | some old =>
        simp [hg] at hv; subst hv
        simp at hc
        rcases hc with hc | hc | hc
        · exact hd old (e ▸ hg) c hc
        · rw [hc]; exact hq
        · exact hx c hc
    · exact hd v hv c hc

theorem pyIntB_nil : Hp.pyIntB [] = none := by decide

/-- **`req.content_length` agrees** — absent / the number / HTTPInvalidHeader alike — although WSGI tests for the empty value
    first and parses with `int(str)` while ASGI parses with `int(bytes)` and tests for the empty value in the `except` branch. -/
theorem content_length_agree (r : HReq) (hwf : wfReq r = true) (hcl : clValueOK r = true) :
    wsgiContentLength (toEnviron r) = asgiContentLength (asgiStore (toScope r)) := by
  unfold wsgiContentLength asgiContentLength
  rw [content_length_raw_agree r hwf]
  simp only [wfReq, Bool.and_eq_true, List.all_eq_true] at hwf
  obtain ⟨_, hsing⟩ := hwf
  cases hg : dget (asgiStore (toScope r)) clLow with
  | none => rfl
  | some value =>
    have hchars : ∀ c ∈ value, exoticWs c = false := by
      unfold toScope at hg; rw [store_canonical r.headers hsing] at hg
      refine canon_fold_chars (fun c => exoticWs c = false) clLow (by decide) r.headers [] ?_ (by simp [dget]) value hg
      intro h hm e c hc
      simp only [clValueOK, List.all_eq_true] at hcl
      have := hcl h hm
      simp [e] at this
      exact this c hc
    have hint : pyIntStr (chars value) = Hp.pyIntB (chars value) := by
      apply pyIntW_congr
      intro c hc
      simp only [chars, List.mem_map] at hc
      obtain ⟨n, hn, rfl⟩ := hc
      exact isWsInt_eq_isWsB n (hchars n hn)
    simp only
    by_cases he : value = []
    · subst he; simp [chars, pyIntB_nil]
    · simp only [he, if_false, hint]

/-- the hypothesis on the value is necessary: NBSP + "5" is 5 for `int(str)` and a ValueError for `int(bytes)` -/
theorem content_length_nbsp_witness :
    let r : HReq := { sampleReq with headers := [(lit "Content-Length", [160, 53])] }
    wfReq r = true ∧ wsgiContentLength (toEnviron r) = .ok 5 ∧ asgiContentLength (asgiStore (toScope r)) = .bad := by decide

example : clValueOK sampleReq = true := by decide
example : wsgiContentLength (toEnviron sampleReq) = .ok 12 := by decide


/-! ### which value wins: closed forms of both stores, and the exactness of the singleton exclusion -/
/-- the values of the field lines named `k` (case-insensitively), in wire order -/
def vals (k : Str) (hs : List (Str × Str)) : List Str := (hs.filter fun h => pyLower h.1 = k).map Prod.snd
def joinFrom (acc : Option Str) (vs : List Str) : Option Str :=
  vs.foldl (fun a x => some (match a with | none => x | some o => o ++ 44 :: x)) acc
def lastFrom (acc : Option Str) (vs : List Str) : Option Str := vs.foldl (fun _ x => some x) acc

theorem canon_fold_get (k : Str) : ∀ (hs : List (Str × Str)) (d : Dict),
    dget (hs.foldl (fun d h => dJoin d (pyLower h.1) h.2) d) k = joinFrom (dget d k) (vals k hs)
  | [], _ => rfl
  | (n, v) :: hs, d => by
    simp only [List.foldl_cons]
    rw [canon_fold_get k hs, dget_dJoin]
    by_cases e : pyLower n = k
    · subst e
      simp only [vals, List.filter_cons, if_true, decide_true, List.map_cons, joinFrom, List.foldl_cons]
      cases dget d (pyLower n) <;> rfl
    · simp [vals, e]

theorem dget_asgiStep (d : Dict) (k' v k : Str) :
    dget (asgiStep d (k', v)) k =
      if k' = k then (match dget d k with
                      | none => some v
                      | some old => if k ∈ SINGLETONS then some v else some (old ++ 44 :: v))
      else dget d k := by
  unfold asgiStep; simp only
  by_cases e : k' = k
  · subst e
    cases hg : dget d k' with
    | none => simp [dget_dset]
    | some old => by_cases hs : k' ∈ SINGLETONS <;> simp [hs, dget_dset]
  · cases hg : dget d k' with
    | none => simp [dget_dset, e]
    | some old => by_cases hs : k' ∈ SINGLETONS <;> simp [hs, dget_dset, e]

theorem store_fold_get (k : Str) : ∀ (hs : List (Str × Str)) (d : Dict),
    dget ((hs.map fun h => (pyLower h.1, h.2)).foldl asgiStep d) k
      = if k ∈ SINGLETONS then lastFrom (dget d k) (vals k hs) else joinFrom (dget d k) (vals k hs)
  | [], _ => by simp [vals, lastFrom, joinFrom]
  | (n, v) :: hs, d => by
    simp only [List.map_cons, List.foldl_cons]
    rw [store_fold_get k hs, dget_asgiStep]
    by_cases e : pyLower n = k
    · subst e
      simp only [vals, List.filter_cons, if_true, decide_true, List.map_cons, joinFrom, lastFrom, List.foldl_cons]
      by_cases hs' : pyLower n ∈ SINGLETONS
      · simp only [hs', if_true]; cases dget d (pyLower n) <;> rfl
      · simp only [hs', if_false]; cases dget d (pyLower n) <;> rfl
    · simp [vals, e]

/-- **closed form of falcon's ASGI header store**, for every header list: a singleton header holds the value of its LAST
    field line, any other header the comma-join of all its field lines -/
theorem asgi_store_closed_form (hs : List (Str × Str)) (k : Str) :
    dget (asgiStore (hs.map fun h => (pyLower h.1, h.2))) k
      = if k ∈ SINGLETONS then lastFrom none (vals k hs) else joinFrom none (vals k hs) := by
  unfold asgiStore; rw [store_fold_get]; rfl

theorem canon_closed_form (hs : List (Str × Str)) (k : Str) : dget (canon hs) k = joinFrom none (vals k hs) := by
  unfold canon; rw [canon_fold_get]; rfl

theorem joinFrom_some_len : ∀ (vs : List Str) (a : Str), ∃ x, joinFrom (some a) vs = some x ∧ a.length ≤ x.length
    ∧ ∀ y ∈ vs, a.length + y.length < x.length
  | [], a => ⟨a, rfl, Nat.le_refl _, by simp⟩
  | y0 :: vs, a => by
    obtain ⟨x, hx, h1, h2⟩ := joinFrom_some_len vs (a ++ 44 :: y0)
    refine ⟨x, by simpa [joinFrom] using hx, ?_, ?_⟩
    · simp at h1; omega
    · intro y hy
      simp at hy h1
      rcases hy with rfl | hy
      · omega
      · have := h2 y hy; simp at this; omega

theorem lastFrom_some_mem : ∀ (vs : List Str) (a : Str), ∃ y, lastFrom (some a) vs = some y ∧ (y = a ∨ y ∈ vs)
  | [], a => ⟨a, rfl, Or.inl rfl⟩
  | y0 :: vs, _ => by
    obtain ⟨y, hy, h⟩ := lastFrom_some_mem vs y0
    refine ⟨y, by simpa [lastFrom] using hy, ?_⟩
    rcases h with h | h
    · right; simp [h]
    · right; simp [h]

theorem join_ne_last (vs : List Str) (h : 2 ≤ vs.length) : joinFrom none vs ≠ lastFrom none vs := by
  match vs, h with
  | v0 :: v1 :: rest, _ =>
    obtain ⟨x, hx, _, h2⟩ := joinFrom_some_len (v1 :: rest) v0
    obtain ⟨y, hy, hm⟩ := lastFrom_some_mem rest v1
    have e1 : joinFrom none (v0 :: v1 :: rest) = some x := by simpa [joinFrom] using hx
    have e2 : lastFrom none (v0 :: v1 :: rest) = some y := by simpa [lastFrom] using hy
    rw [e1, e2]
    intro e
    simp at e; subst e
    have hy' : x ∈ v1 :: rest := by rcases hm with hm | hm <;> simp [hm]
    have := h2 x hy'
    omega

theorem singletons_ok : ∀ s ∈ SINGLETONS, nameOK s = true ∧ pyLower s = s := by decide

/-- **The singleton exclusion is exact.**  For every request whose field names are ASCII without `_`: WSGI and ASGI `get_header`
    agree on every (ASCII, `_`-free) name **iff** no singleton header is repeated.  (⇐ is `header_lookup_agree`; ⇒: a repeated
    singleton is comma-joined by the PEP 3333 server and reduced to its last field line by falcon's ASGI store, and the join is
    strictly longer.) -/
theorem singleton_exclusion_exact (r : HReq) (hn : ∀ h ∈ r.headers, nameOK h.1 = true) :
    (∀ name, nameOK name = true → wsgiGet (toEnviron r) name false none = asgiGet (asgiStore (toScope r)) name false none)
      ↔ singletonsOnce r.headers = true := by
  constructor
  · intro hall
    simp only [singletonsOnce, List.all_eq_true, decide_eq_true_eq]
    intro s hs
    apply Nat.le_of_not_lt
    intro hlt
    have hso := singletons_ok s hs
    have := hall s hso.1
    rw [environ_canonical r hn,
        wsgiGet_canonical _ _ _ (baseEnv_plain r) (tailEnv_plain r) (lk_keys_canon hn) s hso.1] at this
    unfold asgiGet asgiName asgiGetK toScope at this
    rw [hso.2, canon_closed_form, asgi_store_closed_form] at this
    simp only [hs, if_true] at this
    have hne := join_ne_last (vals s r.headers) (by simp only [vals, List.length_map]; exact hlt)
    cases h1 : joinFrom none (vals s r.headers) <;> cases h2 : lastFrom none (vals s r.headers) <;>
      simp [h1, h2] at this hne
    exact hne this
  · intro hs name hname
    exact header_lookup_agree r (by simp only [wfReq, hs, Bool.and_true, List.all_eq_true]; exact hn) name hname false none

end Wr

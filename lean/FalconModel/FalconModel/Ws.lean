/-! C17 prototype: `falcon.asgi.ws.WebSocket` (unbuffered receive path) and `App._handle_websocket` with the default
    error handlers, as an executable model. `disc` is the value of `_buffered_receiver.client_disconnected` observed by
    the operation (constantly `none` when `max_receive_queue = 0`). -/
namespace Ws

inductive S where | handshake | accepted | closed
deriving DecidableEq, Repr

inductive Kind where | text | bytes
deriving DecidableEq, Repr

/-- what the app hands to the server's `send` -/
inductive Ev where
  | accept (headers : Bool)
  | send (k : Kind)
  | close (code : Int) (reason : Bool)
deriving DecidableEq, Repr

/-- what the server's `receive` returns -/
inductive InEv where
  | text (validJson : Bool)
  | bytes
  | disconnect (code : Option Int)
deriving DecidableEq, Repr

inductive Exc where
  | notAllowed                      -- OperationNotAllowed
  | disconnected (code : Int)        -- WebSocketDisconnected; `.code` is `code or 1000`
  | payloadType                     -- PayloadTypeError
  | invalidCloseCode                -- ValueError('Invalid close code…')
  | valueOther                      -- any other ValueError
  | osErr                           -- the server's `send` raised OSError (untranslated)
  | httpError (status : Int)
  | httpStatus (status : Int)
  | pyErr                           -- any other Exception
deriving DecidableEq, Repr

/-- `WebSocketDisconnected(code)`: `self.code = code or 1000` -/
def wsd (c : Option Int) : Exc := .disconnected (match c with | some c => if c == 0 then 1000 else c | none => 1000)

structure W where
  st : S := .handshake
  closeCode : Option Int := none
  supHeaders : Bool
  supReason : Bool
  reasonCodes : List Int            -- keys of ws_options.default_close_reasons (table-fed)
  errCloseCode : Int                -- ws_options.error_close_code
  binMediaOk : Bool                 -- msgpack importable
  sent : List (Ev × Bool) := []     -- every call of `send`, with whether it returned normally
  failAt : Option Nat               -- index of the `send` call that raises OSError
  inbox : List InEv
deriving Repr

/-- the server's `send` -/
def W.asgiSend (w : W) (e : Ev) : W × Bool :=
  let fails := w.failAt == some w.sent.length
  ({ w with sent := w.sent ++ [(e, !fails)] }, !fails)

def W.isClosed (w : W) (disc : Option (Option Int)) : Bool := w.st == .closed || disc.isSome

/-- `WebSocket._send` -/
def W.send_ (w : W) (disc : Option (Option Int)) (e : Ev) : W × Option Exc :=
  let w := match disc with
    | some code => { w with st := .closed, closeCode := code }
    | none => w
  if w.st == .closed then (w, some (wsd w.closeCode)) else
  let (w, ok) := w.asgiSend e
  if ok then (w, none)
  else ({ w with st := .closed, closeCode := some 1000 }, some (wsd none))   -- OSError → WebSocketDisconnected(None), whose `.code` is 1000

def W.requireAccepted (w : W) : Option Exc :=
  match w.st with
  | .handshake => some .notAllowed
  | .closed => some (wsd w.closeCode)
  | .accepted => none

def W.accept (w : W) (disc : Option (Option Int)) (headers : Bool) : W × Option Exc :=
  if w.isClosed disc then (w, some .notAllowed) else
  if w.st != .handshake then (w, some .notAllowed) else
  if headers && !w.supHeaders then (w, some .notAllowed) else
  match w.send_ disc (.accept headers) with
  | (w, none) => ({ w with st := .accepted }, none)
  | r => r

/-- argument of `close()`: absent, an int, or not an int -/
inductive CodeArg where | none | int (c : Int) | notInt
deriving DecidableEq, Repr

def W.close (w : W) (disc : Option (Option Int)) (arg : CodeArg) : W × Option Exc :=
  match arg with
  | .notInt => (w, some .valueOther)
  | .int c =>
    if c < 1000 then (w, some .invalidCloseCode)
    else if (1015 ≤ c && c ≤ 1999) || (1004 ≤ c && c ≤ 1006) then (w, some .invalidCloseCode)
    else go w c
  | .none => go w 1000
where
  go (w : W) (code : Int) : W × Option Exc :=
    if w.isClosed disc then (w, none) else
    let (w, ok) := w.asgiSend (.close code (w.reasonCodes.contains code && w.supReason))
    if ok then ({ w with st := .closed, closeCode := some code }, none) else (w, some .osErr)

def W.sendMsg (w : W) (disc : Option (Option Int)) (k : Kind) : W × Option Exc :=
  match w.requireAccepted with
  | some e => (w, some e)
  | none => w.send_ disc (.send k)

/-- `WebSocket._receive` (unbuffered): `none` inbox = the server's `receive` raised -/
def W.receive_ (w : W) : W × Except Exc InEv :=
  match w.inbox with
  | [] => (w, .error .pyErr)
  | .disconnect code :: rest =>
    let c := code.getD 1000
    ({ w with inbox := rest, st := .closed, closeCode := some c }, .error (wsd (some c)))
  | e :: rest => ({ w with inbox := rest }, .ok e)

inductive RecvKind where | text | data | media
deriving DecidableEq, Repr

def W.recv (w : W) (k : RecvKind) : W × Option Exc :=
  match w.requireAccepted with
  | some e => (w, some e)
  | none =>
    match w.receive_ with
    | (w, .error e) => (w, some e)
    | (w, .ok ev) =>
      match k, ev with
      | .text, .text _ => (w, none)
      | .text, _ => (w, some .payloadType)
      | .data, .bytes => (w, none)
      | .data, _ => (w, some .payloadType)
      | .media, .text valid => (w, if valid then none else some .valueOther)
      | .media, .bytes => (w, if w.binMediaOk then none else some .pyErr)
      | .media, _ => (w, some .payloadType)

/-- one step of a responder script -/
inductive Op where
  | accept (headers : Bool) | close (arg : CodeArg) | send (k : Kind) | recv (k : RecvKind)
  | raiseHttp (status : Int) | raiseStatus (status : Int) | raiseExc
deriving DecidableEq, Repr

def W.op (w : W) : Op → W × Option Exc
  | .accept h => w.accept none h
  | .close a => w.close none a
  | .send k => w.sendMsg none k
  | .recv k => w.recv k
  | .raiseHttp s => (w, some (.httpError s))
  | .raiseStatus s => (w, some (.httpStatus s))
  | .raiseExc => (w, some .pyErr)

/-- exceptions the scripted responder catches when its `catch` flag is set -/
def Exc.catchable : Exc → Bool
  | .notAllowed | .disconnected _ | .payloadType | .invalidCloseCode | .valueOther => true
  | _ => false

/-- run the responder; returns the per-op log and the exception that escaped it, if any -/
def runScript (w : W) : List (Op × Bool) → List (Option Exc) → W × List (Option Exc) × Option Exc
  | [], log => (w, log, none)
  | (o, catches) :: rest, log =>
    match w.op o with
    | (w, none) => runScript w rest (log ++ [none])
    | (w, some e) => if catches && e.catchable then runScript w rest (log ++ [some e]) else (w, log ++ [some e], some e)

/-- `_ws_cleanup_on_error` -/
def cleanup (w : W) : W × Option Exc :=
  match w.close none (.int w.errCloseCode) with
  | (w, none) => (w, none)
  | (w, some .invalidCloseCode) => w.close none (.int 3011)
  | (w, some e) => (w, some e)

/-- `_handle_exception` with the default handlers: the exception that escapes to the server, if any -/
def handleException (w : W) : Exc → W × Option Exc
  | .httpError s => w.close none (.int (s + 3000))
  | .httpStatus s => w.close none (.int (s + 3000))
  | _ => cleanup w       -- WebSocketDisconnected and every other Exception

/-- `_handle_websocket` after the connect event, for a routed responder script (`none` = no route: 404) -/
def handle (w : W) (script : Option (List (Op × Bool))) : W × List (Option Exc) × Option Exc :=
  match script with
  | none => let (w, e) := handleException w (.httpError 404); (w, [], e)
  | some sc =>
    match runScript w sc [] with
    | (w, log, none) =>
      match w.close none .none with
      | (w, none) => (w, log, none)
      | (w, some e) => let (w, e') := handleException w e; (w, log, e')
    | (w, log, some e) => let (w, e') := handleException w e; (w, log, e')

/-- the first event is not `websocket.connect` -/
def rejectFirst (w : W) : W := (w.asgiSend (.close 1011 w.supReason)).1

end Ws

/-! C17: `falcon.asgi.ws.WebSocket` and `App._handle_websocket` (with WebSocket middleware, the four default error
    handlers and an optional custom handler) as an executable model.

    * `disc` is the value of `_buffered_receiver.client_disconnected` (with `client_disconnected_code`) *observed* by an
      operation: `none` = flag clear, `some c` = flag set with code `c`.  With `max_receive_queue = 0` no pump task exists
      and the flag is constantly clear; with a queue the pump sets it asynchronously, so every operation takes the observed
      value as an input and the theorems quantify over all such inputs.
    * every call of the server's `send` is recorded in `sent` together with whether it returned or raised. -/
namespace Ws

inductive S where | handshake | accepted | closed
deriving DecidableEq, Repr

inductive Kind where | text | bytes
deriving DecidableEq, Repr

/-- what the app hands to the server's `send` -/
inductive Ev where
  | accept (headers : Bool) (subprotocol : Bool)
  | send (k : Kind)
  | close (code : Int) (reason : Bool)
deriving DecidableEq, Repr

/-- what the server's `receive` returns -/
inductive InEv where
  | text (validJson : Bool)
  | bytes
  | disconnect (code : Option Int)
deriving DecidableEq, Repr

inductive Exc where
  | notAllowed                      -- OperationNotAllowed
  | disconnected (code : Int)        -- WebSocketDisconnected; `.code` is `code or 1000`
  | payloadType                     -- PayloadTypeError
  | invalidCloseCode                -- ValueError('Invalid close code…')
  | valueOther                      -- any other ValueError
  | osErr                           -- the server's `send` raised OSError (untranslated, from `close()`)
  | httpError (status : Int)
  | httpStatus (status : Int)
  | pyErr                           -- any other Exception
  | assertion                       -- AssertionError of `_BufferedReceiver.receive` (pump task is None)
  | boom                            -- the application's own exception class (may have a custom error handler)
deriving DecidableEq, Repr

/-- `WebSocketDisconnected(code)`: `self.code = code or 1000` -/
def wsdCode (c : Option Int) : Int := match c with | some c => if c == 0 then 1000 else c | none => 1000
def wsd (c : Option Int) : Exc := .disconnected (wsdCode c)

/-- how the server's `send` fails at the faulty call (`_translate_webserver_error` distinguishes these) -/
inductive Fault where
  | os (cause : Option Int)   -- OSError, optionally `raise … from Exception('received <code> (…)')`
  | ok1000                    -- Exception('… code = 1000 (OK) …')  (websockets library)
  | subproto                  -- Exception('protocol accepted must be from the list')  (Autobahn)
  | value                     -- a ValueError (or a subclass): not translated; a script that catches the documented errors catches it
  | other                     -- any other exception (Exception, TypeError, RuntimeError, a server's own class): not translated
deriving DecidableEq, Repr

structure W where
  st : S := .handshake
  closeCode : Option Int := none
  supHeaders : Bool
  supReason : Bool
  reasonCodes : List Int            -- keys of ws_options.default_close_reasons (table-fed)
  errCloseCode : Int                -- ws_options.error_close_code
  binMediaOk : Bool                 -- msgpack importable
  sent : List (Ev × Bool) := []     -- every call of `send`, with whether it returned normally
  failAt : Option Nat               -- index of the `send` call that raises
  fault : Fault := .os none
  /-- the message of the exception the server raises contains 'invalid close code' (any letter case) - Autobahn (under Daphne) refuses
      close codes other than 1000 / 3000-4999 with a plain `Exception('invalid close code 1011 (must be …)')` -/
  faultIcc : Bool := false
  /-- the server's POLICY on close codes: a close event carrying one of these codes is refused (its `send` raises `fault`), whenever it
      is sent - by the responder, an error handler or the framework itself -/
  refused : List Int := []
  buffered : Bool := false          -- max_receive_queue > 0
  pumpStopped : Bool := false       -- `_buffered_receiver.stop()` ran after the pump had been started
  inbox : List InEv
deriving Repr

/-- the server refuses this event on account of its close-code policy -/
def W.refuses (w : W) : Ev → Bool
  | .close c _ => w.refused.contains c
  | _ => false

/-- the server's `send`: it raises at the faulty call, and for every close event whose code its policy refuses -/
def W.asgiSend (w : W) (e : Ev) : W × Bool :=
  let fails := w.failAt == some w.sent.length || w.refuses e
  ({ w with sent := w.sent ++ [(e, !fails)] }, !fails)

def W.isClosed (w : W) (disc : Option Int) : Bool := w.st == .closed || disc.isSome

/-- the raw exception of the faulty `send` as seen by a caller that does not translate it (`close()`) -/
def Fault.raw (f : Fault) (icc : Bool) : Exc :=
  match f with
  | .os _ => .osErr
  | .value => if icc then .invalidCloseCode else .valueOther     -- (`Exc` names a ValueError by what its message says)
  | _ => .pyErr

/-- `WebSocket._send` -/
def W.send_ (w : W) (disc : Option Int) (e : Ev) : W × Option Exc :=
  let w := match disc with
    | some code => { w with st := .closed, closeCode := some code }
    | none => w
  if w.st == .closed then (w, some (wsd w.closeCode)) else
  let (w, ok) := w.asgiSend e
  if ok then (w, none)
  else match w.fault with     -- `_translate_webserver_error`
    | .os cause => ({ w with st := .closed, closeCode := some (wsdCode cause) }, some (wsd cause))
    | .ok1000 => ({ w with st := .closed, closeCode := some 1000 }, some (wsd (some 1000)))
    | .subproto => ({ w with st := .closed }, some .valueOther)
    | .value => (w, some (Fault.raw .value w.faultIcc))
    | .other => (w, some .pyErr)

def W.requireAccepted (w : W) : Option Exc :=
  match w.st with
  | .handshake => some .notAllowed
  | .closed => some (wsd w.closeCode)
  | .accepted => none

/-- `accept(subprotocol, headers)`; `headers` = the argument is truthy (`if headers:`), `badSub` = the subprotocol argument is
    not a `str`, `hdrExc` = what turning the `headers` argument into the event's list raises, if anything: an item that is not a
    pair, a name / value that is not an ASCII `str`, and - after the names were lower-cased - the `ValueError` for a header named
    `sec-websocket-protocol` in any letter case.  `Wa.headerExc` (WsAccept.lean) computes it from the concrete argument. -/
def W.accept (w : W) (disc : Option Int) (headers : Bool) (sub : Bool) (badSub : Bool) (hdrExc : Option Exc) : W × Option Exc :=
  if w.isClosed disc then (w, some .notAllowed) else
  if w.st != .handshake then (w, some .notAllowed) else
  if badSub then (w, some .valueOther) else
  if headers && !w.supHeaders then (w, some .notAllowed) else
  if headers && hdrExc.isSome then (w, hdrExc) else
  match w.send_ disc (.accept headers sub) with
  | (w, none) => ({ w with st := .accepted }, none)
  | r => r

/-- argument of `close()`: absent, an int, or not an int -/
inductive CodeArg where | none | int (c : Int) | notInt
deriving DecidableEq, Repr

/-- `_buffered_receiver.stop()`: a no-op unless the pump task exists (it is created by a successful `accept()`) -/
def W.stopPump (w : W) : W := if w.buffered && w.st == .accepted then { w with pumpStopped := true } else w

/-- `close(code, reason)`: `_buffered_receiver.stop()` first, then validation, then the early return, then the event -/
def W.close (w : W) (disc : Option Int) (arg : CodeArg) (reason : Bool) : W × Option Exc :=
  let w := w.stopPump
  match arg with
  | .notInt => (w, some .valueOther)
  | .int c =>
    if c < 1000 then (w, some .invalidCloseCode)
    else if (1015 ≤ c && c ≤ 1999) || (1004 ≤ c && c ≤ 1006) then (w, some .invalidCloseCode)
    else go w c
  | .none => go w 1000
where
  go (w : W) (code : Int) : W × Option Exc :=
    if w.isClosed disc then
      -- nothing is sent; a disconnect known only through the flag is recorded in the state (as `_send` does)
      (if w.st == .closed then w else { w with st := .closed, closeCode := disc }, none)
    else
    let (w, ok) := w.asgiSend (.close code ((reason || w.reasonCodes.contains code) && w.supReason))
    if ok then ({ w with st := .closed, closeCode := some code }, none) else (w, some (w.fault.raw w.faultIcc))

def W.sendMsg (w : W) (disc : Option Int) (k : Kind) : W × Option Exc :=
  match w.requireAccepted with
  | some e => (w, some e)
  | none => w.send_ disc (.send k)

/-- `WebSocket._receive`: the next event of the client script, directly (queue 0) or through the buffered receiver, which
    hands the same events out in the same order (C18); `[]` = the server's `receive` raised -/
def W.receive_ (w : W) : W × Except Exc InEv :=
  match w.inbox with
  | [] => (w, .error .pyErr)
  | .disconnect code :: rest =>
    let c := code.getD 1000
    ({ w with inbox := rest, st := .closed, closeCode := some c }, .error (wsd (some c)))
  | e :: rest => ({ w with inbox := rest }, .ok e)

inductive RecvKind where | text | data | media
deriving DecidableEq, Repr

def W.recv (w : W) (k : RecvKind) : W × Option Exc :=
  match w.requireAccepted with
  | some e => (w, some e)
  | none =>
    if w.pumpStopped then (w, some .assertion) else     -- `assert self._pump_task is not None`
    match w.receive_ with
    | (w, .error e) => (w, some e)
    | (w, .ok ev) =>
      match k, ev with
      | .text, .text _ => (w, none)
      | .text, _ => (w, some .payloadType)
      | .data, .bytes => (w, none)
      | .data, _ => (w, some .payloadType)
      | .media, .text valid => (w, if valid then none else some .valueOther)
      | .media, .bytes => (w, if w.binMediaOk then none else some .pyErr)
      | .media, _ => (w, some .payloadType)

/-- a `receive_*()` the responder ABANDONS (`asyncio.wait_for(ws.receive_text(), timeout)` whose timeout fires, a receive task that
    is cancelled): it starts like any other receive - so the wrong-state errors and the assertion are raised at once -, finds no
    event, parks (in `_BufferedReceiver.receive` on its pop-waiter; with queue 0 on the server's `receive`) and is cancelled there.
    The `finally` of `_BufferedReceiver.receive` resets the waiter, a cancelled pull consumes nothing: no trace is left in the
    protocol state.  (That the call really was parked is an observation of the run, like `disc`; its timing is C18's subject.) -/
def W.recvAbandoned (w : W) (_k : RecvKind) : W × Option Exc :=
  match w.requireAccepted with
  | some e => (w, some e)
  | none => if w.pumpStopped then (w, some .assertion) else (w, none)

/-- one step of a responder / middleware / error-handler script -/
inductive Op where
  | accept (headers : Bool) (sub : Bool) (badSub : Bool) (hdrExc : Option Exc) | close (arg : CodeArg) (reason : Bool)
  | send (k : Kind) | recv (k : RecvKind) | recvAbandoned (k : RecvKind)
  | raiseHttp (status : Int) | raiseStatus (status : Int) | raiseExc | raiseBoom
  /-- the script itself raises an exception of one of the framework's own classes (`raise falcon.WebSocketDisconnected(code)`,
      `OperationNotAllowed`, `PayloadTypeError`, `ValueError`, `OSError`, …) - by hand, or because it came out of an operation on
      ANOTHER connection's `WebSocket` (a relay).  The class of the exception says nothing about the state of the socket being handled. -/
  | raiseOf (e : Exc)
deriving DecidableEq, Repr

def W.op (w : W) (disc : Option Int) : Op → W × Option Exc
  | .accept h s b he => w.accept disc h s b he
  | .close a r => w.close disc a r
  | .send k => w.sendMsg disc k
  | .recv k => w.recv k
  | .recvAbandoned k => w.recvAbandoned k
  | .raiseHttp s => (w, some (.httpError s))
  | .raiseStatus s => (w, some (.httpStatus s))
  | .raiseExc => (w, some .pyErr)
  | .raiseBoom => (w, some .boom)
  | .raiseOf e => (w, some e)

/-- exceptions the scripted responder catches when its `catch` flag is set -/
def Exc.catchable : Exc → Bool
  | .notAllowed | .disconnected _ | .payloadType | .invalidCloseCode | .valueOther => true
  | _ => false

/-- what a scripted step does with an exception of its operation: let it propagate, catch the documented errors
    (`except (OperationNotAllowed, WebSocketDisconnected, PayloadTypeError, ValueError)`), or catch everything (`except Exception`) -/
inductive Catch where | none | documented | all
deriving DecidableEq, Repr

def Catch.catches : Catch → Exc → Bool
  | .none, _ => false
  | .documented, e => e.catchable
  | .all, _ => true

/-- a scripted step: the operation, how the script treats its exception (catch and continue, or propagate), and the
    disconnect flag the operation observes -/
abbrev Step := Op × Catch × Option Int

/-- run a script; returns the per-op log and the exception that escaped it, if any -/
def runScript (w : W) : List Step → List (Option Exc) → W × List (Option Exc) × Option Exc
  | [], log => (w, log, none)
  | (o, catches, d) :: rest, log =>
    match w.op d o with
    | (w, none) => runScript w rest (log ++ [none])
    | (w, some e) => if catches.catches e then runScript w rest (log ++ [some e]) else (w, log ++ [some e], some e)

/-- `'invalid close code' in str(ex).lower()` for the exception `ex = e` that `close()` raised going from `w` to `w1`: `ex` is falcon's
    own ValueError for a reserved code (nothing was handed to the server), or - `close()` raises after its `send` only if that `send`
    raised - the SERVER's exception, of whatever class (`except Exception`), whose message says so (`faultIcc`) -/
def closeSaysInvalidCode (w w1 : W) (e : Exc) : Bool :=
  e == .invalidCloseCode || (w1.sent.length != w.sent.length && w.faultIcc)

/-- `_ws_cleanup_on_error`; `fd` = the flag value frozen by the `stop()` of the first `close()` after the responder -/
def cleanup (w : W) (fd : Option Int) : W × Option Exc :=
  match w.close fd (.int w.errCloseCode) false with
  | (w1, none) => (w1, none)
  | (w1, some e) => if closeSaysInvalidCode w w1 e then w1.close fd (.int 3011) false else (w1, some e)

/-- what the application configured -/
structure Cfg where
  custom : Option (List Step) := none    -- add_error_handler(Boom, h): the script `h` runs on `ws`
  fd : Option Int := none               -- disconnect flag observed by the framework's own `close()` calls

/-- `_handle_exception`: the exception that escapes to the server, if any, and the custom handler's op log -/
def handleException (c : Cfg) (w : W) : Exc → W × List (Option Exc) × Option Exc
  | .httpError s => let (w, e) := w.close c.fd (.int (s + 3000)) false; (w, [], e)
  | .httpStatus s => let (w, e) := w.close c.fd (.int (s + 3000)) false; (w, [], e)
  | .boom =>
    match c.custom with
    | none => let (w, e) := cleanup w c.fd; (w, [], e)
    | some hs =>
      match runScript w hs [] with
      | (w, hlog, none) => (w, hlog, none)
      | (w, hlog, some (.httpError s)) => let (w, e) := w.close c.fd (.int (s + 3000)) false; (w, hlog, e)
      | (w, hlog, some (.httpStatus s)) => let (w, e) := w.close c.fd (.int (s + 3000)) false; (w, hlog, e)
      | (w, hlog, some e) => (w, hlog, some e)
  | _ => let (w, e) := cleanup w c.fd; (w, [], e)       -- WebSocketDisconnected and every other Exception

/-- result of a session: final object, responder/middleware log, error-handler log, escaped exception -/
structure Res where
  w : W
  log : List (Option Exc)
  hlog : List (Option Exc) := []
  esc : Option Exc

/-- `_handle_websocket` after the connect event, for a routed responder script (`none` = no route: 404) -/
def handle (c : Cfg) (w : W) (script : Option (List Step)) : Res :=
  match script with
  | none => let (w, hl, e) := handleException c w (.httpError 404); ⟨w, [], hl, e⟩
  | some sc =>
    match runScript w sc [] with
    | (w, log, none) =>
      match w.close c.fd .none false with
      | (w, none) => ⟨w, log, [], none⟩
      | (w, some e) => let (w, hl, e') := handleException c w e; ⟨w, log, hl, e'⟩
    | (w, log, some e) => let (w, hl, e') := handleException c w e; ⟨w, log, hl, e'⟩

/-- where the router sends the request -/
inductive Route where
  | unrouted                      -- no route: the default responder raises HTTPRouteNotFound (404)
  | noResponder                   -- the resource has no `on_websocket`: HTTPMethodNotAllowed (405)
  | responder (sc : List Step)

/-- `_handle_websocket` with `process_request_ws` (before routing) and `process_resource_ws` (after routing, only when a
    resource was found) middleware scripts.  The synthetic raise of the default responders is not part of the log. -/
def handleMw (c : Cfg) (w : W) (mwReq mwRes : List Step) (r : Route) : Res :=
  match r with
  | .responder sc => handle c w (some (mwReq ++ mwRes ++ sc))
  | .unrouted =>
    let r := handle c w (some (mwReq ++ [(.raiseHttp 404, .none, none)]))
    if r.log.length > mwReq.length then { r with log := r.log.dropLast } else r
  | .noResponder =>
    let r := handle c w (some (mwReq ++ mwRes ++ [(.raiseHttp 405, .none, none)]))
    if r.log.length > mwReq.length + mwRes.length then { r with log := r.log.dropLast } else r

/-- the first event is not `websocket.connect` -/
def rejectFirst (w : W) : W := (w.asgiSend (.close 1011 w.supReason)).1

end Ws

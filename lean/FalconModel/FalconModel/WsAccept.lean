import FalconModel.Ws
/-! C17: the ARGUMENTS of `WebSocket.accept(subprotocol=None, headers=None)` (falcon/asgi/ws.py), on top of the session model `Ws`.

    `Ws.W.accept` takes three observations of the arguments - `headers` truthy, `subprotocol` given / not a `str` - and
    `hdrExc`, what turning the `headers` argument into the event's header list raises.  This file computes them from the
    concrete arguments, transcribing

    ```python
    if headers:
        if not self._supports_accept_headers: raise OperationNotAllowed(...)
        header_items = getattr(headers, 'items', None)
        headers_iterable = header_items() if callable(header_items) else headers
        event['headers'] = parsed_headers = [
            (name.lower().encode('ascii'), value.encode('ascii')) for name, value in headers_iterable]
        for name, __ in parsed_headers:
            if name == b'sec-websocket-protocol': raise ValueError(...)
    ```

    * a Python `str` is the list of its code points, a `bytes` object the list of its bytes.
    * `str.lower()`: ASCII letters; U+212A KELVIN SIGN lower-cases to the ASCII letter `k` (so `Sec-WebSocKet-Protocol`
      lower-cases to the forbidden name); every other non-ASCII code point lower-cases to text that still contains a non-ASCII
      code point (a table fact of CPython, checked over all code points by the correspondence on every run), so the following
      `.encode('ascii')` raises UnicodeEncodeError - a `ValueError` - exactly as it does for the unchanged code point: they are
      kept unchanged here.
    * the list comprehension is evaluated completely before the forbidden-name loop runs: the first item that cannot be
      unpacked / lower-cased / encoded decides the exception, whatever names the other items carry. -/
namespace Wa
open Ws (Exc W)

/-- a Python object where a header name or value is expected -/
inductive PyVal where
  | str (cps : List Nat)     -- code points
  | bytes (b : List Nat)     -- `bytes.lower()` exists, `bytes.encode` does not: AttributeError
  | other                    -- an int, None, …: no `.lower` / `.encode`: AttributeError
deriving DecidableEq, Repr

/-- one element the headers iterable yields -/
inductive Item where
  | pair (name value : PyVal)   -- a 2-sequence: `for name, value in …` unpacks it
  | wrongLen                    -- a sequence of another length: ValueError (too many / not enough values to unpack)
  | notIterable                 -- TypeError (cannot unpack non-iterable …)
deriving DecidableEq, Repr

/-- the `headers` argument: `given = false` is `None` / not passed; `gen` = an object whose truth value does not depend on its
    content (a generator, an iterator); otherwise a list / tuple / dict (`.items()`) -/
structure HArg where
  given : Bool
  gen : Bool
  items : List Item
deriving DecidableEq, Repr

/-- `if headers:` -/
def HArg.truthy (a : HArg) : Bool := a.given && (a.gen || !a.items.isEmpty)

/-- the `subprotocol` argument -/
inductive SubArg where | none | str | notStr
deriving DecidableEq, Repr

def SubArg.present : SubArg → Bool | .none => false | _ => true
def SubArg.bad : SubArg → Bool | .notStr => true | _ => false

abbrev Bytes := List Nat

def isUpper (c : Nat) : Bool := 65 ≤ c && c ≤ 90

/-- `str.lower()` of one code point (see the header) -/
def lowerCp (c : Nat) : Nat := if isUpper c then c + 32 else if c == 0x212A then 107 else c

def lowerStr (s : List Nat) : List Nat := s.map lowerCp

/-- `s.encode('ascii')`: UnicodeEncodeError is a ValueError -/
def encodeAscii (s : List Nat) : Except Exc Bytes := if s.all (· < 128) then .ok s else .error .valueOther

/-- `name.lower().encode('ascii')` -/
def encodeName : PyVal → Except Exc Bytes
  | .str s => encodeAscii (lowerStr s)
  | .bytes _ => .error .pyErr       -- b'..'.lower().encode: AttributeError
  | .other => .error .pyErr

/-- `value.encode('ascii')` -/
def encodeValue : PyVal → Except Exc Bytes
  | .str s => encodeAscii s
  | _ => .error .pyErr

/-- one turn of the comprehension: unpack, then the name, then the value -/
def encodeItem : Item → Except Exc (Bytes × Bytes)
  | .wrongLen => .error .valueOther
  | .notIterable => .error .pyErr
  | .pair n v =>
    match encodeName n with
    | .error e => .error e
    | .ok nb => match encodeValue v with
      | .error e => .error e
      | .ok vb => .ok (nb, vb)

/-- the whole comprehension: the first failing item raises -/
def encodeAll : List Item → Except Exc (List (Bytes × Bytes))
  | [] => .ok []
  | it :: rest =>
    match encodeItem it with
    | .error e => .error e
    | .ok p => match encodeAll rest with
      | .error e => .error e
      | .ok ps => .ok (p :: ps)

/-- `b'sec-websocket-protocol'` -/
def forbidden : Bytes := "sec-websocket-protocol".toList.map Char.toNat

/-- the comprehension followed by the forbidden-name loop: the header list of the event, or the exception -/
def process (l : List Item) : Except Exc (List (Bytes × Bytes)) :=
  match encodeAll l with
  | .error e => .error e
  | .ok hs => if hs.any (fun p => p.1 == forbidden) then .error .valueOther else .ok hs

/-- the `hdrExc` input of `Ws.W.accept` -/
def headerExc (a : HArg) : Option Exc :=
  if a.truthy then (match process a.items with | .error e => some e | .ok _ => none) else none

/-- the session-level operation a call `accept(subprotocol, headers)` is -/
def toOp (sub : SubArg) (a : HArg) : Ws.Op := .accept a.truthy sub.present sub.bad (headerExc a)

/-- the `headers` key of the accept event: absent unless the argument was truthy -/
def eventHeaders (a : HArg) : Option (List (Bytes × Bytes)) :=
  if a.truthy then (match process a.items with | .ok hs => some hs | .error _ => none) else none

/-- what the call hands to the server: `none` if no accept event was handed over, else its `headers` key (absent = `none`) and
    whether it carries a `subprotocol` -/
structure AcceptEvent where
  headers : Option (List (Bytes × Bytes))
  subprotocol : Bool
deriving DecidableEq, Repr

/-- `accept(subprotocol, headers)` with concrete arguments: the new socket, the exception, the accept event handed to the server
    (also when the server's `send` then raised) -/
def accept (w : W) (disc : Option Int) (sub : SubArg) (a : HArg) : W × Option Exc × Option AcceptEvent :=
  ((w.op disc (toOp sub a)).1, (w.op disc (toOp sub a)).2,
   cond (Nat.blt w.sent.length (w.op disc (toOp sub a)).1.sent.length) (some ⟨eventHeaders a, sub.present⟩) none)

end Wa

import FalconModel.WsAccept
/-! C17: the text form of `accept()` arguments shared by the drivers `wadriver`, `wsdriver` and `wpdriver` (parsing only, no model).

    accept token (after the leading `A`):  g<sub>~<hdrs>
      sub  = n (None / not given) | s (a str) | x (not a str)
      hdrs = N (None / not given) | L<items> (list / tuple / dict: truthy iff non-empty) | G<items> (generator: always truthy)
      items = item _ item …  (possibly none);  item = w (a sequence of the wrong length) | i (not iterable) | p<val>/<val>
      val  = s<cps> | b<cps> | o ;  cps = the code points (bytes) in hex joined by `.`, empty for the empty string -/
namespace Wa

def hexVal (c : Char) : Option Nat :=
  if c.isDigit then some (c.toNat - 48)
  else if 'a' ≤ c ∧ c ≤ 'f' then some (c.toNat - 87)
  else if 'A' ≤ c ∧ c ≤ 'F' then some (c.toNat - 55) else none

def parseHexNat (s : String) : Option Nat :=
  if s.isEmpty then none else s.toList.foldl (fun acc c => match acc, hexVal c with | some a, some d => some (a * 16 + d) | _, _ => none) (some 0)

def parseCps (s : String) : Option (List Nat) :=
  if s.isEmpty then some [] else (s.splitOn ".").mapM parseHexNat

def parseVal (s : String) : Option PyVal :=
  match s.toList with
  | ['o'] => some .other
  | 's' :: r => (parseCps (String.ofList r)).map .str
  | 'b' :: r => (parseCps (String.ofList r)).map .bytes
  | _ => none

def parseItem (s : String) : Option Item :=
  match s.toList with
  | ['w'] => some .wrongLen
  | ['i'] => some .notIterable
  | 'p' :: r =>
    match (String.ofList r).splitOn "/" with
    | [n, v] => match parseVal n, parseVal v with
      | some n, some v => some (.pair n v)
      | _, _ => none
    | _ => none
  | _ => none

def parseItems (s : String) : Option (List Item) := if s.isEmpty then some [] else (s.splitOn "_").mapM parseItem

def parseHArg (s : String) : Option HArg :=
  match s.toList with
  | ['N'] => some ⟨false, false, []⟩
  | 'L' :: r => (parseItems (String.ofList r)).map fun l => ⟨true, false, l⟩
  | 'G' :: r => (parseItems (String.ofList r)).map fun l => ⟨true, true, l⟩
  | _ => none

def parseSub (c : Char) : Option SubArg :=
  if c == 'n' then some .none else if c == 's' then some .str else if c == 'x' then some .notStr else none

/-- `g<sub>~<hdrs>` -/
def parseAcceptTok (r : List Char) : Option (SubArg × HArg) :=
  match r with
  | 'g' :: c :: '~' :: h =>
    match parseSub c, parseHArg (String.ofList h) with
    | some s, some a => some (s, a)
    | _, _ => none
  | _ => none

def hexD (n : Nat) : Char := if n < 10 then Char.ofNat (48 + n) else Char.ofNat (87 + n)
def toHexNat (n : Nat) : String := String.ofList (Nat.toDigits 16 n)
def showCps (l : List Nat) : String := if l.isEmpty then "-" else ".".intercalate (l.map toHexNat)
def showHeaders : Option (List (Bytes × Bytes)) → String
  | none => "-"
  | some [] => "="
  | some l => "_".intercalate (l.map fun p => showCps p.1 ++ "/" ++ showCps p.2)

end Wa

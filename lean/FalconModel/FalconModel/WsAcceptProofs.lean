import FalconModel.WsAccept
import FalconModel.WsProofs
/-! C17, the arguments of `accept()`: whatever container, letter case and value types the `headers` argument has, the accept
    event is legal per the ASGI spec (lower-case ASCII byte names, never `sec-websocket-protocol`, only to a server that
    supports accept headers) or the call raises and nothing is sent. -/
namespace Wa
open Ws (Exc W)

/-- a header name as the ASGI spec wants it: ASCII bytes, no upper-case letter -/
def LowerAscii (n : Bytes) : Prop := ∀ b ∈ n, b < 128 ∧ isUpper b = false

theorem lowerCp_not_upper (c : Nat) : isUpper (lowerCp c) = false := by
  unfold lowerCp isUpper
  split
  · rename_i h
    simp only [Bool.and_eq_true, decide_eq_true_eq] at h
    simp only [Bool.and_eq_false_imp, decide_eq_true_eq, decide_eq_false_iff_not]
    omega
  · split
    · decide
    · rename_i h _
      simpa [isUpper] using h

theorem encodeAscii_ok {s b : List Nat} (h : encodeAscii s = .ok b) : b = s ∧ ∀ c ∈ s, c < 128 := by
  unfold encodeAscii at h
  split at h
  · rename_i hall
    cases h
    exact ⟨rfl, fun c hc => by simpa using (List.all_eq_true.mp hall) c hc⟩
  · cases h

/-- an item the comprehension accepts is a pair of two `str`; the name is its ASCII lower-casing, the value is unchanged -/
theorem encodeItem_ok {it : Item} {p : Bytes × Bytes} (h : encodeItem it = .ok p) :
    ∃ n v, it = .pair (.str n) (.str v) ∧ p = (lowerStr n, v) ∧ (∀ c ∈ lowerStr n, c < 128) ∧ (∀ c ∈ v, c < 128) := by
  cases it with
  | wrongLen => simp [encodeItem] at h
  | notIterable => simp [encodeItem] at h
  | pair n v =>
    cases n with
    | bytes b => simp [encodeItem, encodeName] at h
    | other => simp [encodeItem, encodeName] at h
    | str s =>
      cases v with
      | bytes b =>
        simp only [encodeItem, encodeName, encodeValue] at h
        split at h <;> simp at h
      | other =>
        simp only [encodeItem, encodeName, encodeValue] at h
        split at h <;> simp at h
      | str t =>
        simp only [encodeItem, encodeName, encodeValue] at h
        split at h
        · cases h
        · rename_i nb hn
          split at h
          · cases h
          · rename_i vb hv
            cases h
            obtain ⟨e1, a1⟩ := encodeAscii_ok hn
            obtain ⟨e2, a2⟩ := encodeAscii_ok hv
            subst e1; subst e2
            exact ⟨_, _, rfl, rfl, a1, a2⟩

/-- the pairs of `str` a header argument consists of, as the event should carry them -/
def expected (ps : List (List Nat × List Nat)) : List (Bytes × Bytes) := ps.map fun p => (lowerStr p.1, p.2)

/-- the comprehension, when it completes: every item was a pair of ASCII-encodable `str`, and the result lists them in order,
    one entry per item, names lower-cased, values unchanged -/
theorem encodeAll_ok : ∀ {l : List Item} {hs : List (Bytes × Bytes)}, encodeAll l = .ok hs →
    ∃ ps : List (List Nat × List Nat), l = ps.map (fun p => Item.pair (.str p.1) (.str p.2)) ∧ hs = expected ps
      ∧ ∀ p ∈ hs, (∀ c ∈ p.1, c < 128) ∧ (∀ c ∈ p.2, c < 128)
  | [], hs, h => by
    simp [encodeAll] at h; subst h
    exact ⟨[], rfl, rfl, by simp⟩
  | it :: rest, hs, h => by
    simp only [encodeAll] at h
    split at h
    · cases h
    · rename_i p hp
      split at h
      · cases h
      · rename_i ps' hrest
        cases h
        obtain ⟨n, v, hit, hpe, an, av⟩ := encodeItem_ok hp
        obtain ⟨ps, hl, hexp, hall⟩ := encodeAll_ok hrest
        refine ⟨(n, v) :: ps, by simp [hit, hl], by simp [expected, hpe, hexp], ?_⟩
        intro q hq
        rcases List.mem_cons.mp hq with rfl | hq
        · subst hpe; exact ⟨an, av⟩
        · exact hall q hq

theorem lowerStr_lowerAscii {n : List Nat} (h : ∀ c ∈ lowerStr n, c < 128) : LowerAscii (lowerStr n) := by
  intro b hb
  refine ⟨h b hb, ?_⟩
  unfold lowerStr at hb
  obtain ⟨c, _, rfl⟩ := List.mem_map.mp hb
  exact lowerCp_not_upper c

/-- **the header list of an accept event is legal**: whenever the processing of the `headers` argument returns a list, it has one
    entry per item of the argument, in order; every name is the lower-cased spelling of the given name, in ASCII bytes without
    upper-case letters; every value is the given value; and NO name is `sec-websocket-protocol` -/
theorem process_ok {l : List Item} {hs : List (Bytes × Bytes)} (h : process l = .ok hs) :
    (∃ ps : List (List Nat × List Nat), l = ps.map (fun p => Item.pair (.str p.1) (.str p.2)) ∧ hs = expected ps)
    ∧ (∀ p ∈ hs, LowerAscii p.1 ∧ (∀ c ∈ p.2, c < 128) ∧ p.1 ≠ forbidden) := by
  unfold process at h
  split at h
  · cases h
  · rename_i hs' henc
    split at h
    · cases h
    · rename_i hany
      cases h
      obtain ⟨ps, hl, hexp, hall⟩ := encodeAll_ok henc
      refine ⟨⟨ps, hl, hexp⟩, ?_⟩
      intro p hp
      have hp' := hp
      rw [hexp] at hp'
      obtain ⟨q, _, rfl⟩ := List.mem_map.mp hp'
      refine ⟨lowerStr_lowerAscii (hall _ hp).1, (hall _ hp).2, ?_⟩
      intro heq
      apply hany
      exact List.any_eq_true.mpr ⟨_, hp, by simp only [beq_iff_eq]; exact heq⟩

/-- **the forbidden name is refused in every spelling**: if any item's name lower-cases to `sec-websocket-protocol`, the
    processing raises (the documented ValueError unless another item is malformed, which raises first) -/
theorem forbidden_rejected {l : List Item} {n : List Nat} {v : PyVal} (hmem : Item.pair (.str n) v ∈ l)
    (hn : lowerStr n = forbidden) : ∃ e, process l = .error e := by
  cases hp : process l with
  | error e => exact ⟨e, rfl⟩
  | ok hs =>
    exfalso
    obtain ⟨⟨ps, hl, hexp⟩, hall⟩ := process_ok hp
    rw [hl] at hmem
    obtain ⟨q, hq, hqe⟩ := List.mem_map.mp hmem
    have : (lowerStr q.1, q.2) ∈ hs := by rw [hexp]; exact List.mem_map.mpr ⟨q, hq, rfl⟩
    have hne := (hall _ this).2.2
    injection hqe with h1 _
    injection h1 with h1
    apply hne
    show lowerStr q.1 = forbidden
    rw [h1]; exact hn

/-- and it is the documented `ValueError` when every item is well-formed (pairs of ASCII `str`) -/
theorem forbidden_rejected_valueError {l : List Item} {hs : List (Bytes × Bytes)} (henc : encodeAll l = .ok hs)
    {n : List Nat} {v : PyVal} (hmem : Item.pair (.str n) v ∈ l) (hn : lowerStr n = forbidden) :
    process l = .error .valueOther := by
  obtain ⟨e, he⟩ := forbidden_rejected hmem hn
  unfold process at he ⊢
  rw [henc] at he ⊢
  simp only at he ⊢
  split
  · rfl
  · rename_i hany; rw [if_neg hany] at he; cases he

/-- a spelling of a name: upper-case the letters where the mask says so -/
def applyCase : List Bool → List Nat → List Nat
  | m :: ms, c :: cs => (if m && (97 ≤ c && c ≤ 122) then c - 32 else c) :: applyCase ms cs
  | _, cs => cs

theorem lowerStr_applyCase : ∀ (mask : List Bool) (s : List Nat), (∀ c ∈ s, isUpper c = false ∧ c ≠ 0x212A) →
    lowerStr (applyCase mask s) = s
  | [], s, h => by
    simp only [applyCase, lowerStr]
    rw [List.map_congr_left (g := id)]
    · simp
    · intro c hc
      have := h c hc
      simp [lowerCp, this.1, this.2]
  | m :: ms, [], _ => by simp [applyCase, lowerStr]
  | m :: ms, c :: cs, h => by
    have hc := h c (List.mem_cons_self ..)
    have ih := lowerStr_applyCase ms cs (fun x hx => h x (List.mem_cons_of_mem _ hx))
    simp only [applyCase, lowerStr, List.map_cons] at ih ⊢
    rw [ih]
    congr 1
    by_cases hm : (m && (97 ≤ c && c ≤ 122)) = true
    · rw [if_pos hm]
      simp only [Bool.and_eq_true, decide_eq_true_eq] at hm
      have : isUpper (c - 32) = true := by simp [isUpper]; omega
      simp only [lowerCp, this, if_true]
      omega
    · rw [if_neg hm]
      simp [lowerCp, hc.1, hc.2]

/-- **every letter-case spelling** of `sec-websocket-protocol` (2^20 of them) lower-cases to the forbidden name -/
theorem every_spelling_forbidden (mask : List Bool) : lowerStr (applyCase mask forbidden) = forbidden :=
  lowerStr_applyCase mask forbidden (by decide)

/-- so `accept(headers=[..., (any spelling, v), ...])` with well-formed items raises the documented ValueError -/
theorem every_spelling_rejected (mask : List Bool) (v : List Nat) (pre post : List (List Nat × List Nat))
    (hs : List (Bytes × Bytes))
    (henc : encodeAll ((pre ++ (applyCase mask forbidden, v) :: post).map fun p => Item.pair (.str p.1) (.str p.2)) = .ok hs) :
    process ((pre ++ (applyCase mask forbidden, v) :: post).map fun p => Item.pair (.str p.1) (.str p.2)) = .error .valueOther :=
  forbidden_rejected_valueError henc (n := applyCase mask forbidden) (v := .str v)
    (List.mem_map.mpr ⟨(applyCase mask forbidden, v), by simp, rfl⟩) (every_spelling_forbidden mask)

example : process [.pair (.str ("X-A".toList.map Char.toNat)) (.str [49]), .pair (.str ("Sec-WebSocket-Protocol".toList.map Char.toNat)) (.str [99])]
    = .error .valueOther := by rfl
example : process [.pair (.str ("Sec-WebSoc".toList.map Char.toNat ++ [0x212A] ++ "et-Protocol".toList.map Char.toNat)) (.str [99])]
    = .error .valueOther := by rfl
example : process [.pair (.str ("Sec-WebSocket-Protocols".toList.map Char.toNat)) (.str [99])]
    = .ok [("sec-websocket-protocols".toList.map Char.toNat, [99])] := by rfl

/-! ### the call as an operation of the session model -/

/-- `accept` with concrete arguments IS an operation of the session model `Ws` (by definition: `toOp`), so every `Ws` theorem -
    legality of the event trace, the wrong-state table, the close that is always sent - covers sessions whose responder calls
    `accept` with arbitrary arguments -/
theorem accept_is_op (w : W) (disc : Option Int) (sub : SubArg) (a : HArg) :
    ((accept w disc sub a).1, (accept w disc sub a).2.1) = w.op disc (toOp sub a) := rfl

/-- the accept event reaches the server only if every check passed: supported headers, a `str` subprotocol, processed headers -/
theorem accept_event_only_if_checked (w : W) (disc : Option Int) (sub : SubArg) (a : HArg) (ev : AcceptEvent)
    (h : (accept w disc sub a).2.2 = some ev) :
    sub.bad = false ∧ (a.truthy = true → w.supHeaders = true ∧ headerExc a = none) ∧ w.st = .handshake := by
  unfold accept at h
  simp only [toOp, W.op] at h
  cases hb : Nat.blt w.sent.length (w.accept disc a.truthy sub.present sub.bad (headerExc a)).1.sent.length with
  | false => rw [hb] at h; cases h
  | true =>
    have hlen : w.sent.length < (w.accept disc a.truthy sub.present sub.bad (headerExc a)).1.sent.length := by
      simpa [Nat.blt_eq] using hb
    unfold W.accept at hlen
    split at hlen
    · simp at hlen
    split at hlen
    · simp at hlen
    split at hlen
    · simp at hlen
    split at hlen
    · simp at hlen
    split at hlen
    · simp at hlen
    rename_i _ hst hbad hsup hexc
    refine ⟨by simpa using hbad, ?_, by simpa using hst⟩
    intro ht
    simp only [ht, Bool.true_and, Bool.not_eq_true', Bool.not_eq_true] at hsup hexc
    constructor
    · cases hs : w.supHeaders <;> simp_all
    · cases he : headerExc a <;> simp_all

/-- **the accept event is legal per the ASGI spec**: if `accept(subprotocol, headers)` hands an accept event to the server, then
    its `headers` key is present only for a server that supports accept headers, and every entry is a pair of ASCII byte strings
    whose name has no upper-case letter and is not `sec-websocket-protocol`; the entries are the items of the argument in order -/
theorem accept_event_legal (w : W) (disc : Option Int) (sub : SubArg) (a : HArg) (ev : AcceptEvent)
    (h : (accept w disc sub a).2.2 = some ev) :
    ev.subprotocol = sub.present ∧
    match ev.headers with
    | none => a.truthy = false
    | some hs => w.supHeaders = true ∧ process a.items = .ok hs ∧ ∀ p ∈ hs, LowerAscii p.1 ∧ (∀ c ∈ p.2, c < 128) ∧ p.1 ≠ forbidden := by
  obtain ⟨_, hchk, _⟩ := accept_event_only_if_checked w disc sub a ev h
  unfold accept at h
  simp only at h
  cases hb : Nat.blt w.sent.length (w.op disc (toOp sub a)).1.sent.length with
  | false => rw [hb] at h; cases h
  | true =>
    rw [hb] at h
    cases h
    refine ⟨rfl, ?_⟩
    simp only
    unfold eventHeaders
    cases ht : a.truthy with
    | false => simp
    | true =>
      obtain ⟨hsup, hexc⟩ := hchk ht
      simp only [if_true]
      unfold headerExc at hexc
      simp only [ht, if_true] at hexc
      cases hp : process a.items with
      | error e => rw [hp] at hexc; simp at hexc
      | ok hs => exact ⟨hsup, rfl, (process_ok hp).2⟩

/-- **the documented ValueError**: on a socket in the handshake state whose client is connected, with a `str` (or no) subprotocol
    and a server that supports accept headers, a `headers` argument of well-formed items one of which is named
    `sec-websocket-protocol` in ANY letter case raises ValueError; nothing is sent and the socket is unchanged -/
theorem accept_forbidden_header_raises (w : W) (sub : SubArg) (a : HArg) (hst : w.st = .handshake) (hsub : sub.bad = false)
    (hsup : w.supHeaders = true) (hs : List (Bytes × Bytes)) (henc : encodeAll a.items = .ok hs) (hg : a.given = true)
    {n : List Nat} {v : PyVal} (hmem : Item.pair (.str n) v ∈ a.items) (hn : lowerStr n = forbidden) :
    accept w none sub a = (w, some .valueOther, none) := by
  have hp := forbidden_rejected_valueError henc hmem hn
  have ht : a.truthy = true := by
    unfold HArg.truthy
    cases hi : a.items with
    | nil => rw [hi] at hmem; cases hmem
    | cons x xs => simp [hg]
  have hexc : headerExc a = some .valueOther := by simp [headerExc, ht, hp]
  have : w.accept none a.truthy sub.present sub.bad (headerExc a) = (w, some .valueOther) := by
    unfold W.accept W.isClosed
    simp [hst, hsub, hsup, ht, hexc]
  simp only [accept, toOp, W.op, this]
  have hlt : Nat.blt w.sent.length w.sent.length = false := by
    cases hb : Nat.blt w.sent.length w.sent.length with
    | false => rfl
    | true => exact absurd (Nat.blt_eq.mp hb) (Nat.lt_irrefl _)
  rw [hlt]; rfl

end Wa

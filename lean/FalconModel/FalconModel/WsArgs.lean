/-! C17: the SEND / RECEIVE ENTRY POINTS of `falcon.asgi.ws.WebSocket` over the TYPE of their argument and the STATE of the connection:
    `send_text`, `send_data`, `send_media`, `receive_text`, `receive_data`, `receive_media`, with `_require_accepted`, `_send`, `_receive`,
    transcribed in the order in which the code performs its tests:

        send_text(payload):   self._require_accepted()                       # 1. the STATE  (OperationNotAllowed / WebSocketDisconnected)
                              if not isinstance(payload, str): raise TypeError   # 2. the ARGUMENT
                              await self._send({'type': 'websocket.send', 'text': payload})
        send_data(payload):   self._require_accepted()
                              if not isinstance(payload, (bytes, bytearray, memoryview)): raise TypeError
                              await self._send({'type': 'websocket.send', 'bytes': bytes(payload)})
        send_media(media, payload_type):  self._require_accepted()
                              if payload_type is WebSocketPayloadType.TEXT: 'text': serialize(media)   else: 'bytes': serialize(media)
        _send(msg):           if client_disconnected (the pump's flag): state = CLOSED, close_code = the flag's code      # 3. the FLAG - only here
                              if state == CLOSED: raise WebSocketDisconnected(close_code)
                              await asgi_send(msg)

    so `_require_accepted` looks at `_state` only: on an accepted socket whose pump has already seen the disconnect, a wrongly typed argument is a
    `TypeError` (and the state stays ACCEPTED), a well typed one is `WebSocketDisconnected` (and the state becomes CLOSED).

        receive_text():       self._require_accepted(); event = await self._receive()
                              try: text = event['text']  except KeyError: text = None
                              if text is None: raise PayloadTypeError                       # the event has been taken from the server by then
        receive_media():      text = event.get('text'); if text is not None: text handler;  else event['bytes'] …; None / missing: PayloadTypeError

    The server's `send` returns normally in this model (its failures are the subject of `Ws` / `Wp`); `disc` is the value of the pump's flag the
    operation observes, an input as in `Ws`. -/
namespace Wt

inductive St where | handshake | accepted | closed
deriving DecidableEq, Repr

/-- the run-time type of the `payload` argument -/
inductive Arg where
  | str | strSub            -- `str`, an application's subclass of `str`
  | bytes | bytesSub | bytearray | memoryview
  | none | int | other      -- `None`, an `int`, anything else (a list, a dict, an object)
deriving DecidableEq, Repr

/-- `isinstance(payload, str)` -/
def Arg.isStr : Arg → Bool
  | .str | .strSub => true
  | _ => false

/-- `isinstance(payload, (bytes, bytearray, memoryview))` -/
def Arg.isBytesLike : Arg → Bool
  | .bytes | .bytesSub | .bytearray | .memoryview => true
  | _ => false

/-- the payload key of a `websocket.send` event -/
inductive Key where | text | bytes
deriving DecidableEq, Repr

inductive Exc where
  | notAllowed                  -- OperationNotAllowed
  | disconnected (code : Int)    -- WebSocketDisconnected; `.code` is `code or 1000`
  | typeErr                     -- TypeError('payload must be a string' / 'payload must be a byte string')
  | payloadType                 -- PayloadTypeError
  | serErr                      -- whatever the media handler's `serialize` raised
  | srvErr                      -- the server's `receive` raised
deriving DecidableEq, Repr

def wsdCode (c : Option Int) : Int := match c with | some c => if c == 0 then 1000 else c | none => 1000
def wsd (c : Option Int) : Exc := .disconnected (wsdCode c)

/-- a payload key of a `websocket.receive` event: absent, present with `None`, present with a value -/
inductive Fld where | missing | none | val
deriving DecidableEq, Repr

inductive InEv where
  | frame (text bytes : Fld)
  | disconnect (code : Option Int)     -- `event.get('code', 1000)`
deriving DecidableEq, Repr

structure W where
  st : St := .handshake
  closeCode : Option Int := none
  sent : List Key := []          -- the `websocket.send` events handed to the server, each with exactly the one key named
  inbox : List InEv := []        -- what the server's `receive` will return; `[]` = it raises
deriving DecidableEq, Repr

/-- outcome of one call -/
inductive Out where
  | sent (k : Key)      -- returned `None`, having handed one `websocket.send` event with exactly this payload key to the server
  | got (k : Key)       -- returned the value of this key of the event taken from the server
  | err (e : Exc)
deriving DecidableEq, Repr

/-- the public properties `unaccepted`, `closed`, `ready` -/
def W.unaccepted (w : W) : Bool := w.st == .handshake
def W.isClosed (w : W) (disc : Option Int) : Bool := w.st == .closed || disc.isSome
def W.ready (w : W) (disc : Option Int) : Bool := w.st == .accepted && !disc.isSome

/-- `_require_accepted` -/
def W.requireAccepted (w : W) : Option Exc :=
  match w.st with
  | .handshake => some .notAllowed
  | .closed => some (wsd w.closeCode)
  | .accepted => none

/-- `_send` (the server's `send` returns) -/
def W.send_ (w : W) (disc : Option Int) (k : Key) : W × Out :=
  let w := match disc with
    | some code => { w with st := .closed, closeCode := some code }
    | none => w
  if w.st == .closed then (w, .err (wsd w.closeCode)) else
  ({ w with sent := w.sent ++ [k] }, .sent k)

def W.sendText (w : W) (disc : Option Int) (a : Arg) : W × Out :=
  match w.requireAccepted with
  | some e => (w, .err e)
  | none =>
    if !a.isStr then (w, .err .typeErr) else
    w.send_ disc .text

def W.sendData (w : W) (disc : Option Int) (a : Arg) : W × Out :=
  match w.requireAccepted with
  | some e => (w, .err e)
  | none =>
    if !a.isBytesLike then (w, .err .typeErr) else
    w.send_ disc .bytes

/-- the `payload_type` argument of `send_media`: the two enum members, or any other object (`None`, `1`, `'text'`, …) -/
inductive PType where | text | binary | other
deriving DecidableEq, Repr

/-- `send_media(media, payload_type)`; `serOk` = the selected handler's `serialize(media)` returns.  The test is
    `payload_type is WebSocketPayloadType.TEXT` / `else`: everything that is not the TEXT member goes to the BINARY handler. -/
def W.sendMedia (w : W) (disc : Option Int) (pt : PType) (serOk : Bool) : W × Out :=
  match w.requireAccepted with
  | some e => (w, .err e)
  | none =>
    if pt == .text then
      if !serOk then (w, .err .serErr) else w.send_ disc .text
    else
      if !serOk then (w, .err .serErr) else w.send_ disc .bytes

/-- `_receive` -/
def W.receive_ (w : W) : W × Except Exc (Fld × Fld) :=
  match w.inbox with
  | [] => (w, .error .srvErr)
  | .disconnect code :: rest =>
    let c := code.getD 1000
    ({ w with inbox := rest, st := .closed, closeCode := some c }, .error (wsd (some c)))
  | .frame t b :: rest => ({ w with inbox := rest }, .ok (t, b))

/-- `try: v = event[key]  except KeyError: v = None` -/
def Fld.orNone : Fld → Fld
  | .missing => .none
  | f => f

def W.recvText (w : W) : W × Out :=
  match w.requireAccepted with
  | some e => (w, .err e)
  | none =>
    match w.receive_ with
    | (w, .error e) => (w, .err e)
    | (w, .ok (t, _)) => if t.orNone == .none then (w, .err .payloadType) else (w, .got .text)

def W.recvData (w : W) : W × Out :=
  match w.requireAccepted with
  | some e => (w, .err e)
  | none =>
    match w.receive_ with
    | (w, .error e) => (w, .err e)
    | (w, .ok (_, b)) => if b.orNone == .none then (w, .err .payloadType) else (w, .got .bytes)

/-- `receive_media()` up to the choice of the handler (what `deserialize` does with the payload is `Wp`'s subject):
    `event.get('text')` first, `bytes` only if that is `None` -/
def W.recvMedia (w : W) : W × Out :=
  match w.requireAccepted with
  | some e => (w, .err e)
  | none =>
    match w.receive_ with
    | (w, .error e) => (w, .err e)
    | (w, .ok (t, b)) =>
      if t.orNone != .none then (w, .got .text) else
      if b.orNone == .none then (w, .err .payloadType) else (w, .got .bytes)

inductive Op where
  | sendText (a : Arg) | sendData (a : Arg) | sendMedia (pt : PType) (serOk : Bool)
  | recvText | recvData | recvMedia
deriving DecidableEq, Repr

def W.op (w : W) (disc : Option Int) : Op → W × Out
  | .sendText a => w.sendText disc a
  | .sendData a => w.sendData disc a
  | .sendMedia pt ok => w.sendMedia disc pt ok
  | .recvText => w.recvText
  | .recvData => w.recvData
  | .recvMedia => w.recvMedia

def Op.isSend : Op → Bool
  | .sendText _ | .sendData _ | .sendMedia _ _ => true
  | _ => false

/-- the argument is of a type the entry point refuses (`send_media`: its serializer refuses the object) -/
def Op.badArg : Op → Bool
  | .sendText a => !a.isStr
  | .sendData a => !a.isBytesLike
  | .sendMedia _ ok => !ok
  | _ => false

/-- the payload key a well typed send uses -/
def Op.key : Op → Key
  | .sendText _ => .text
  | .sendData _ => .bytes
  | .sendMedia pt _ => if pt == .text then .text else .bytes
  | _ => .text

/-- a script: every call is caught (`except Exception`) and logged, with the flag value it observed -/
def run (w : W) : List (Op × Option Int) → W × List Out
  | [] => (w, [])
  | (o, d) :: rest =>
    let (w1, out) := w.op d o
    let (w2, outs) := run w1 rest
    (w2, out :: outs)

end Wt

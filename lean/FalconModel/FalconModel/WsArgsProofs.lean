import FalconModel.WsArgs
import FalconModel.Ws
set_option linter.unusedSimpArgs false

/-! C17: theorems about the argument-type x state table of the send / receive entry points (`Wt`, WsArgs.lean) and their link to the
    session model `Ws`. -/
namespace Wt

/-- the error `_require_accepted` raises in a state other than ACCEPTED -/
def stateErr (w : W) : Exc :=
  match w.st with
  | .handshake => .notAllowed
  | _ => wsd w.closeCode

/-- (2) ORDER OF THE TESTS, non-accepted states: `_require_accepted()` runs first in every send entry point, so before `accept()` and after the
    connection was closed (by the application, or by a disconnect a receive observed) the STATE error wins for EVERY argument type - `str`, `bytes`,
    `bytearray`, `memoryview`, `None`, `int`, anything - well typed or not; the flag is not looked at, nothing is sent, nothing changes.
    `send_text(b'x')` before `accept()` is OperationNotAllowed, not TypeError; after `close(4000)` it is WebSocketDisconnected(4000). -/
theorem state_error_wins (w : W) (disc : Option Int) (o : Op) (hs : o.isSend = true) (hst : w.st ≠ .accepted) :
    w.op disc o = (w, .err (stateErr w)) := by
  obtain ⟨st, cc, sent, inbox⟩ := w
  cases st <;> cases o <;> simp_all [W.op, W.sendText, W.sendData, W.sendMedia, W.requireAccepted, stateErr, Op.isSend]

example : (W.op { st := .handshake } none (.sendText .bytes)).2 = .err .notAllowed := by decide
example : (W.op { st := .closed, closeCode := some 4000 } (some 1001) (.sendData .str)).2 = .err (.disconnected 4000) := by decide
example : (W.op { st := .closed, closeCode := none } none (.sendText .str)).2 = .err (.disconnected 1000) := by decide

/-- (2') accepted state, wrongly typed argument: `TypeError` (for `send_media`: the serializer's own error) - EVEN IF the pump has already seen the
    client's disconnect (`disc = some _`): the flag is consulted in `_send` only, which a refused argument never reaches; the state stays ACCEPTED. -/
theorem accepted_bad_argument (w : W) (disc : Option Int) (o : Op) (hs : o.isSend = true) (hb : o.badArg = true) (hst : w.st = .accepted) :
    w.op disc o = (w, .err (match o with | .sendMedia _ _ => .serErr | _ => .typeErr)) := by
  obtain ⟨st, cc, sent, inbox⟩ := w
  simp only at hst; subst hst
  cases o <;> simp [Op.isSend, Op.badArg] at hs hb <;> simp [W.op, W.sendText, W.sendData, W.sendMedia, W.requireAccepted, hb]

example : W.op { st := .accepted } (some 1001) (.sendText .bytearray) = ({ st := .accepted }, .err .typeErr) := by decide
example : W.op { st := .accepted } none (.sendData .str) = ({ st := .accepted }, .err .typeErr) := by decide

/-- (1) a send with an argument of a refused type never hands an event to the server and leaves the whole object - state, close code, the events
    sent so far, the client's pending events - exactly as it was: in EVERY state and under every value of the disconnect flag. -/
theorem bad_argument_inert (w : W) (disc : Option Int) (o : Op) (hs : o.isSend = true) (hb : o.badArg = true) :
    (w.op disc o).1 = w ∧ ∀ k, (w.op disc o).2 ≠ .sent k := by
  by_cases hst : w.st = .accepted
  · rw [accepted_bad_argument w disc o hs hb hst]; cases o <;> simp
  · rw [state_error_wins w disc o hs hst]; simp

/-- (1') the error class of a refused argument, in full: state error unless ACCEPTED, else TypeError / the serializer's error -/
theorem bad_argument_outcome (w : W) (disc : Option Int) (o : Op) (hs : o.isSend = true) (hb : o.badArg = true) :
    (w.op disc o).2 = .err (if w.st = .accepted then (match o with | .sendMedia _ _ => .serErr | _ => .typeErr) else stateErr w) := by
  by_cases hst : w.st = .accepted
  · rw [accepted_bad_argument w disc o hs hb hst]; simp [hst]
  · rw [state_error_wins w disc o hs hst]; simp [hst]

example : (W.op { st := .accepted, sent := [.text], inbox := [.frame .val .missing] } (some 1001) (.sendData .none)).1
    = { st := .accepted, sent := [.text], inbox := [.frame .val .missing] } := by decide

/-- (3) a well typed send on an accepted connection whose client is there hands EXACTLY ONE `websocket.send` event to the server, carrying exactly
    one payload key: `text` for `send_text` and `send_media(TEXT)`, `bytes` for `send_data` and `send_media(<anything but the TEXT member>)`;
    nothing else changes. -/
theorem good_send_accepted (w : W) (o : Op) (hs : o.isSend = true) (hb : o.badArg = false) (hst : w.st = .accepted) :
    w.op none o = ({ w with sent := w.sent ++ [o.key] }, .sent o.key) := by
  obtain ⟨st, cc, sent, inbox⟩ := w
  cases o <;> simp_all [W.op, W.sendText, W.sendData, W.sendMedia, W.requireAccepted, W.send_, Op.isSend, Op.badArg, Op.key]
  all_goals (split <;> simp_all)

example : W.op { st := .accepted, sent := [.bytes] } none (.sendText .strSub) = ({ st := .accepted, sent := [.bytes, .text] }, .sent .text) := by decide
example : W.op { st := .accepted } none (.sendData .memoryview) = ({ st := .accepted, sent := [.bytes] }, .sent .bytes) := by decide
example : W.op { st := .accepted } none (.sendMedia .other true) = ({ st := .accepted, sent := [.bytes] }, .sent .bytes) := by decide

/-- (3') a well typed send on an accepted connection whose pump has seen the disconnect: `_send` records it (state CLOSED, the flag's code) and
    raises WebSocketDisconnected; nothing is handed to the server. -/
theorem good_send_flag (w : W) (c : Int) (o : Op) (hs : o.isSend = true) (hb : o.badArg = false) (hst : w.st = .accepted) :
    w.op (some c) o = ({ w with st := .closed, closeCode := some c }, .err (wsd (some c))) := by
  obtain ⟨st, cc, sent, inbox⟩ := w
  cases o <;> simp_all [W.op, W.sendText, W.sendData, W.sendMedia, W.requireAccepted, W.send_, Op.isSend, Op.badArg]
  all_goals (split <;> simp_all)

example : W.op { st := .accepted } (some 1001) (.sendText .str) = ({ st := .closed, closeCode := some 1001 }, .err (.disconnected 1001)) := by decide

/-- (3'') exactly when an event reaches the server: a send returns normally iff the state is ACCEPTED, the flag is clear and the argument is of an
    accepted type; the event then carries the entry point's key and is the only change. -/
theorem send_returns_iff (w : W) (disc : Option Int) (o : Op) (hs : o.isSend = true) (k : Key) :
    (w.op disc o).2 = .sent k ↔ (w.st = .accepted ∧ disc = none ∧ o.badArg = false ∧ k = o.key) := by
  by_cases hst : w.st = .accepted
  · cases hb : o.badArg
    · cases disc with
      | none => rw [good_send_accepted w o hs hb hst]; simp [hst]; exact eq_comm
      | some c => rw [good_send_flag w c o hs hb hst]; simp
    · rw [accepted_bad_argument w disc o hs hb hst]; cases o <;> simp
  · rw [state_error_wins w disc o hs hst]; simp [hst]

/-- the events handed to the server only ever grow by the event the outcome names: `sent` after = `sent` before, plus `[k]` iff the call returned -/
theorem sent_exact (w : W) (disc : Option Int) (o : Op) :
    (w.op disc o).1.sent = w.sent ++ (match (w.op disc o).2 with | .sent k => [k] | _ => []) := by
  obtain ⟨st, cc, sent, inbox⟩ := w
  cases o
  case sendText a => cases st <;> cases disc <;> cases h : a.isStr <;> simp [W.op, W.sendText, W.requireAccepted, W.send_, h]
  case sendData a => cases st <;> cases disc <;> cases h : a.isBytesLike <;> simp [W.op, W.sendData, W.requireAccepted, W.send_, h]
  case sendMedia pt ok => cases st <;> cases disc <;> cases pt <;> cases ok <;> simp [W.op, W.sendMedia, W.requireAccepted, W.send_]
  all_goals
    cases st <;> simp [W.op, W.recvText, W.recvData, W.recvMedia, W.requireAccepted]
    cases inbox with
    | nil => simp [W.receive_]
    | cons e rest => cases e with
      | disconnect c => simp [W.receive_]
      | frame t b => cases t <;> cases b <;> simp [W.receive_, Fld.orNone]

/-! ### receive -/

/-- (4a) a receive in a state other than ACCEPTED raises the state error and takes NOTHING from the server -/
theorem recv_wrong_state (w : W) (disc : Option Int) (o : Op) (hr : o.isSend = false) (hst : w.st ≠ .accepted) :
    w.op disc o = (w, .err (stateErr w)) := by
  obtain ⟨st, cc, sent, inbox⟩ := w
  cases st <;> cases o <;> simp_all [W.op, W.recvText, W.recvData, W.recvMedia, W.requireAccepted, stateErr, Op.isSend]

/-- (4b) `receive_text()` on a frame without a text payload (the key is missing or `None` - a BINARY frame): PayloadTypeError, the frame IS consumed
    (the next receive sees the following event), the connection stays ACCEPTED, nothing is sent. -/
theorem recvText_wrong_kind (w : W) (disc : Option Int) (t b : Fld) (rest : List InEv) (hst : w.st = .accepted)
    (hin : w.inbox = .frame t b :: rest) (ht : t ≠ .val) :
    w.op disc .recvText = ({ w with inbox := rest }, .err .payloadType) := by
  obtain ⟨st, cc, sent, inbox⟩ := w
  cases t <;> simp_all [W.op, W.recvText, W.requireAccepted, W.receive_, Fld.orNone]

/-- (4b') `receive_data()` on a frame without a bytes payload (a TEXT frame): the same -/
theorem recvData_wrong_kind (w : W) (disc : Option Int) (t b : Fld) (rest : List InEv) (hst : w.st = .accepted)
    (hin : w.inbox = .frame t b :: rest) (hb : b ≠ .val) :
    w.op disc .recvData = ({ w with inbox := rest }, .err .payloadType) := by
  obtain ⟨st, cc, sent, inbox⟩ := w
  cases b <;> simp_all [W.op, W.recvData, W.requireAccepted, W.receive_, Fld.orNone]

example : W.op { st := .accepted, inbox := [.frame .missing .val, .frame .val .missing] } none .recvText
    = ({ st := .accepted, inbox := [.frame .val .missing] }, .err .payloadType) := by decide
example : W.op { st := .accepted, inbox := [.frame .val .none, .disconnect (some 1001)] } none .recvData
    = ({ st := .accepted, inbox := [.disconnect (some 1001)] }, .err .payloadType) := by decide

/-- (4c) a receive returns a value iff the frame has the key it asks for with a value - whatever the other key holds: a frame carrying BOTH payloads
    satisfies `receive_text` and `receive_data` alike (and `receive_media` takes its text); the frame is consumed, the state stays ACCEPTED -/
theorem recv_frame (w : W) (disc : Option Int) (t b : Fld) (rest : List InEv) (hst : w.st = .accepted) (hin : w.inbox = .frame t b :: rest) :
    w.op disc .recvText = ({ w with inbox := rest }, if t = .val then .got .text else .err .payloadType) ∧
    w.op disc .recvData = ({ w with inbox := rest }, if b = .val then .got .bytes else .err .payloadType) ∧
    w.op disc .recvMedia = ({ w with inbox := rest }, if t = .val then .got .text else if b = .val then .got .bytes else .err .payloadType) := by
  obtain ⟨st, cc, sent, inbox⟩ := w
  cases t <;> cases b <;> simp_all [W.op, W.recvText, W.recvData, W.recvMedia, W.requireAccepted, W.receive_, Fld.orNone]

/-- (4d) a receive that is handed the disconnect event: the connection is CLOSED with the event's code (1000 if it has none), the call raises
    WebSocketDisconnected with that code, and from then on every send - of any argument type - raises the same (`state_error_wins`) -/
theorem recv_disconnect (w : W) (disc : Option Int) (o : Op) (code : Option Int) (rest : List InEv) (hr : o.isSend = false) (hst : w.st = .accepted)
    (hin : w.inbox = .disconnect code :: rest) :
    w.op disc o = ({ w with inbox := rest, st := .closed, closeCode := some (code.getD 1000) }, .err (wsd (some (code.getD 1000)))) := by
  obtain ⟨st, cc, sent, inbox⟩ := w
  cases o <;> simp_all [W.op, W.recvText, W.recvData, W.recvMedia, W.requireAccepted, W.receive_, Op.isSend]

theorem send_after_disconnect (w : W) (d1 d2 : Option Int) (r o : Op) (code : Option Int) (rest : List InEv) (hr : r.isSend = false)
    (hs : o.isSend = true) (hst : w.st = .accepted) (hin : w.inbox = .disconnect code :: rest) :
    ((w.op d1 r).1.op d2 o).2 = .err (wsd (some (code.getD 1000))) ∧ ((w.op d1 r).1.op d2 o).1.sent = w.sent := by
  rw [recv_disconnect w d1 r code rest hr hst hin, state_error_wins _ d2 o hs (by simp)]
  simp [stateErr]

example : (run { st := .accepted, inbox := [.disconnect none] } [(.recvText, none), (.sendText .int, none), (.sendData .bytes, none)]).2
    = [.err (.disconnected 1000), .err (.disconnected 1000), .err (.disconnected 1000)] := by decide

/-- receives never hand anything to the server -/
theorem recv_sends_nothing (w : W) (disc : Option Int) (o : Op) (hr : o.isSend = false) : (w.op disc o).1.sent = w.sent := by
  have h := sent_exact w disc o
  rw [h]
  cases h2 : (w.op disc o).2 with
  | sent k =>
    exfalso
    obtain ⟨st, cc, sent, inbox⟩ := w
    cases o <;> simp [Op.isSend] at hr <;> cases st <;>
      simp [W.op, W.recvText, W.recvData, W.recvMedia, W.requireAccepted] at h2 <;>
      (cases inbox with
       | nil => simp [W.receive_] at h2
       | cons e rest => cases e with
         | disconnect c => simp [W.receive_] at h2
         | frame t b => cases t <;> cases b <;> simp [W.receive_, Fld.orNone] at h2)
  | got k => simp
  | err e => simp

/-! ### link to the session model `Ws` (WsProofs): a call with an argument of an accepted type IS the `Ws` operation of the same kind -/

def projSt : St → Ws.S
  | .handshake => .handshake
  | .accepted => .accepted
  | .closed => .closed

def projKey : Key → Ws.Kind
  | .text => .text
  | .bytes => .bytes

/-- a well-formed client event: a frame with exactly one payload, or the disconnect (`Ws` has no kind for a frame with no or two payloads) -/
def InEv.std : InEv → Bool
  | .frame .val .missing | .frame .val .none | .frame .missing .val | .frame .none .val => true
  | .disconnect _ => true
  | _ => false

def projEv : InEv → Ws.InEv
  | .frame .val _ => .text true
  | .frame _ _ => .bytes
  | .disconnect c => .disconnect c

/-- the `Ws` object of a `Wt` object; `b` supplies the configuration (spec version, options, what was sent before) -/
def proj (b : Ws.W) (w : W) : Ws.W :=
  { b with st := projSt w.st, closeCode := w.closeCode, sent := b.sent ++ w.sent.map (fun k => (Ws.Ev.send (projKey k), true)),
           inbox := w.inbox.map projEv }

def projExc : Exc → Ws.Exc
  | .notAllowed => .notAllowed
  | .disconnected c => .disconnected c
  | .payloadType => .payloadType
  | .typeErr | .serErr | .srvErr => .pyErr

def projOut : Out → Option Ws.Exc
  | .err e => some (projExc e)
  | _ => none

def projOp : Op → Ws.Op
  | .sendText _ => .send .text
  | .sendData _ => .send .bytes
  | .sendMedia pt _ => .send (if pt == .text then .text else .bytes)
  | .recvText => .recv .text
  | .recvData => .recv .data
  | .recvMedia => .recv .media

theorem wsdCode_eq (c : Option Int) : wsdCode c = Ws.wsdCode c := by cases c <;> rfl

/-- every call whose argument is of an accepted type, on well-formed client events, is exactly the step of the session model `Ws` (server `send`
    working, pump running): same new state, same close code, same event appended to what the server was handed, same error.  All `Ws` theorems
    about `sendMsg` / `recv` (`Ws.wrong_state_send`, `Ws.no_event_after_close`, …) therefore speak about these entry points. -/
theorem op_refines_Ws (b : Ws.W) (hf : b.failAt = none) (hp : b.pumpStopped = false) (hm : b.binMediaOk = true)
    (w : W) (disc : Option Int) (o : Op) (hb : o.badArg = false) (hstd : ∀ e ∈ w.inbox, e.std = true) :
    (proj b w).op disc (projOp o) = (proj b (w.op disc o).1, projOut (w.op disc o).2) := by
  obtain ⟨st, cc, sent, inbox⟩ := w
  cases o
  case sendText a =>
    simp [Op.badArg] at hb
    cases st <;> cases disc <;>
      simp [proj, projOp, projOut, projExc, projSt, projKey, Ws.W.op, Ws.W.sendMsg, Ws.W.requireAccepted, Ws.W.send_, Ws.W.asgiSend, Ws.W.refuses,
        W.op, W.sendText, W.requireAccepted, W.send_, hb, hf, wsd, Ws.wsd, wsdCode_eq]
  case sendData a =>
    simp [Op.badArg] at hb
    cases st <;> cases disc <;>
      simp [proj, projOp, projOut, projExc, projSt, projKey, Ws.W.op, Ws.W.sendMsg, Ws.W.requireAccepted, Ws.W.send_, Ws.W.asgiSend, Ws.W.refuses,
        W.op, W.sendData, W.requireAccepted, W.send_, hb, hf, wsd, Ws.wsd, wsdCode_eq]
  case sendMedia pt ok =>
    simp [Op.badArg] at hb
    cases st <;> cases disc <;> cases pt <;>
      simp [proj, projOp, projOut, projExc, projSt, projKey, Ws.W.op, Ws.W.sendMsg, Ws.W.requireAccepted, Ws.W.send_, Ws.W.asgiSend, Ws.W.refuses,
        W.op, W.sendMedia, W.requireAccepted, W.send_, hb, hf, wsd, Ws.wsd, wsdCode_eq]
  all_goals
    cases st <;>
      simp [proj, projOp, projOut, projExc, projSt, Ws.W.op, Ws.W.recv, Ws.W.requireAccepted,
        W.op, W.recvText, W.recvData, W.recvMedia, W.requireAccepted, hp, wsd, Ws.wsd, wsdCode_eq]
    cases inbox with
    | nil => simp [W.receive_, Ws.W.receive_, projOut, projExc]
    | cons e rest =>
      have he := hstd e (by simp)
      cases e with
      | disconnect c => simp [W.receive_, Ws.W.receive_, projEv, projOut, projExc, projSt, wsd, Ws.wsd, wsdCode_eq]
      | frame t b' => cases t <;> cases b' <;> simp [InEv.std] at he <;>
          simp [W.receive_, Ws.W.receive_, projEv, projOut, projExc, projSt, Fld.orNone, hm]

/-- a refused argument is invisible to the session model: the `Ws` object before and after is the same, so the session continues exactly as `Ws`
    says it would have without the call -/
theorem bad_argument_invisible_to_Ws (b : Ws.W) (w : W) (disc : Option Int) (o : Op) (hs : o.isSend = true) (hb : o.badArg = true) :
    proj b (w.op disc o).1 = proj b w := by
  rw [(bad_argument_inert w disc o hs hb).1]

/-- `receive_text()` handed a BINARY frame, in the words of `Ws`: the `Ws` step `recv text` on the event `bytes` - PayloadTypeError, the event consumed -/
example (b : Ws.W) (hp : b.pumpStopped = false) :
    (proj b { st := .accepted, inbox := [.frame .missing .val, .frame .val .missing] }).op none (.recv .text)
      = (proj b { st := .accepted, inbox := [.frame .val .missing] }, some .payloadType) := by
  simp [proj, projSt, projEv, Ws.W.op, Ws.W.recv, Ws.W.requireAccepted, Ws.W.receive_, hp]

/-! ### histories -/

/-- over any script and any observed flag values: the state never returns to HANDSHAKE or ACCEPTED once CLOSED, and a HANDSHAKE connection stays
    one (no entry point of this model accepts): wrongly typed calls can be interleaved at will without changing what the others do. -/
theorem run_bad_arguments_invisible (w : W) (pre post : List (Op × Option Int)) (o : Op) (d : Option Int) (hs : o.isSend = true) (hb : o.badArg = true) :
    (run w (pre ++ (o, d) :: post)).1 = (run w (pre ++ post)).1 ∧
    ∃ e, (run w (pre ++ (o, d) :: post)).2 = (run w pre).2 ++ .err e :: (run (run w pre).1 post).2 := by
  induction pre generalizing w with
  | nil =>
    have h := bad_argument_inert w d o hs hb
    have h2 := bad_argument_outcome w d o hs hb
    simp only [List.nil_append, run]
    rw [h.1, h2]
    exact ⟨rfl, _, rfl⟩
  | cons x xs ih =>
    obtain ⟨o', d'⟩ := x
    obtain ⟨h1, e, h2⟩ := ih (w.op d' o').1
    simp only [List.cons_append, run]
    exact ⟨h1, e, by rw [h2]⟩

/-! ### sessions, in the words of `Ws` -/

/-- an operation takes at most the first pending client event -/
theorem op_inbox (w : W) (d : Option Int) (o : Op) :
    (w.op d o).1.inbox = w.inbox ∨ ∃ e, w.inbox = e :: (w.op d o).1.inbox := by
  obtain ⟨st, cc, sent, inbox⟩ := w
  cases o
  case sendText a => cases st <;> cases d <;> cases h : a.isStr <;> simp [W.op, W.sendText, W.requireAccepted, W.send_, h]
  case sendData a => cases st <;> cases d <;> cases h : a.isBytesLike <;> simp [W.op, W.sendData, W.requireAccepted, W.send_, h]
  case sendMedia pt ok => cases st <;> cases d <;> cases pt <;> cases ok <;> simp [W.op, W.sendMedia, W.requireAccepted, W.send_]
  all_goals
    cases st <;> simp [W.op, W.recvText, W.recvData, W.recvMedia, W.requireAccepted]
    cases inbox with
    | nil => simp [W.receive_]
    | cons e rest => cases e with
      | disconnect c => simp [W.receive_]
      | frame t b => cases t <;> cases b <;> simp [W.receive_, Fld.orNone]

/-- SESSIONS: a whole script of calls with arguments of accepted types, each caught (`except Exception`), against well-formed client events is the
    `Ws` script of the corresponding operations: same final object, same log of errors, nothing escapes. -/
theorem run_refines_Ws (b : Ws.W) (hf : b.failAt = none) (hp : b.pumpStopped = false) (hm : b.binMediaOk = true)
    (sc : List (Op × Option Int)) (w : W) (log : List (Option Ws.Exc))
    (hb : ∀ x ∈ sc, x.1.badArg = false) (hstd : ∀ e ∈ w.inbox, e.std = true) :
    Ws.runScript (proj b w) (sc.map fun x => (projOp x.1, Ws.Catch.all, x.2)) log
      = (proj b (run w sc).1, log ++ (run w sc).2.map projOut, none) := by
  induction sc generalizing w log with
  | nil => simp [Ws.runScript, run]
  | cons x xs ih =>
    obtain ⟨o, d⟩ := x
    have hstep := op_refines_Ws b hf hp hm w d o (hb (o, d) (by simp)) hstd
    have hstd' : ∀ e ∈ (w.op d o).1.inbox, e.std = true := by
      intro e he
      rcases op_inbox w d o with h | ⟨e0, h⟩
      · exact hstd e (h ▸ he)
      · exact hstd e (by rw [h]; exact List.mem_cons_of_mem _ he)
    have hb' : ∀ x ∈ xs, x.1.badArg = false := fun x hx => hb x (List.mem_cons_of_mem _ hx)
    simp only [List.map_cons, Ws.runScript, run]
    rw [hstep]
    cases hout : (w.op d o).2 with
    | sent k => simp [projOut, ih _ _ hb' hstd']
    | got k => simp [projOut, ih _ _ hb' hstd']
    | err e => simp [projOut, Ws.Catch.catches, ih _ _ hb' hstd']

example (b : Ws.W) (hf : b.failAt = none) (hp : b.pumpStopped = false) (hm : b.binMediaOk = true) :
    (Ws.runScript (proj b { st := .accepted, inbox := [.frame .missing .val, .disconnect none] })
      [(.recv .text, .all, none), (.send .text, .all, none), (.recv .data, .all, none), (.send .bytes, .all, none)] []).2.1
      = [some .payloadType, none, some (.disconnected 1000), some (.disconnected 1000)] := by
  have h := run_refines_Ws b hf hp hm [(.recvText, none), (.sendText .str, none), (.recvData, none), (.sendData .bytes, none)]
    { st := .accepted, inbox := [.frame .missing .val, .disconnect none] } [] (by decide) (by decide)
  simp only [List.map, projOp] at h
  rw [h]; rfl

end Wt

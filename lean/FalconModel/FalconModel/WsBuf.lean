/-! C18: atomic-segment LTS of falcon/asgi/ws.py `_BufferedReceiver` (pump task + `receive()`), the disconnect flag read by
    `WebSocket._send`, cancellation of a pending `receive()` and `stop()`; with a trace-inclusion checker for logs recorded
    from the real code.  A *segment* is what one task does between two awaits; any enabled segment may fire, which
    over-approximates asyncio's FIFO ready queue, so invariants of the LTS hold under every real schedule. -/
namespace Wb

inductive Ev where
  | pull | deliver (m : Nat) | append (m : Nat) | popleft (m : Nat)
  | mkfutPump | mkfutApp | resolvePump | resolveApp | cancelApp
  | recvStart | recvRet (m : Nat) | recvSynthetic
  | recvCancelled           -- the task awaiting `receive()` was cancelled while parked
  | sendOk | sendDisc       -- `WebSocket._send`: the flag was clear / set
  | stop                    -- `_BufferedReceiver.stop()`: the pump task is cancelled
deriving Repr, BEq, DecidableEq

def discMsg : Nat := 999

inductive PumpPc where
  | idle | pulling | got (m : Nat) | holding (m : Nat) | exited
deriving Repr, BEq, DecidableEq

inductive AppPc where
  | idle | waiting
deriving Repr, BEq, DecidableEq

/-- waiter cell: none = attribute is None; some false = pending future; some true = resolved (still referenced by the awaiting coroutine) -/
structure S where
  q : List Nat := []
  cap : Nat
  pump : PumpPc := .idle
  putW : Option Bool := none        -- the future the pump awaits (resolved flag)
  popW : Option Bool := none        -- the future the app awaits
  popWAttr : Bool := false          -- self._pop_message_waiter is not None
  putWAttr : Bool := false
  disc : Bool := false
  app : AppPc := .idle
deriving Repr, DecidableEq

/-- tail of a pump segment once it is allowed to enqueue `m` -/
def pumpEnqueue (s : S) (m : Nat) : List Ev × S :=
  let evs := [Ev.append m]
  let s := { s with q := s.q ++ [m] }
  let (evs, s) :=
    if s.popWAttr then (evs ++ [Ev.resolveApp], { s with popW := s.popW.map (fun _ => true), popWAttr := false })
    else (evs, s)
  if s.disc then (evs, { s with pump := .exited })
  else (evs ++ [Ev.pull], { s with pump := .pulling })

/-- segments of the pump task -/
def pumpSegs (s : S) (next : Option Ev) : List (List Ev × S) :=
  match s.pump with
  | .idle => [([Ev.pull], { s with pump := .pulling })]
  | .pulling =>
    match next with
    | some (.deliver m) => [([Ev.deliver m], { s with pump := .got m })]
    | _ => []
  | .got m =>
    let s := { s with disc := s.disc || m == discMsg }
    if s.q.length ≥ s.cap then [([Ev.mkfutPump], { s with pump := .holding m, putW := some false, putWAttr := true })]
    else [pumpEnqueue s m]
  | .holding m =>
    if s.putW == some true then
      let s := { s with putW := none, putWAttr := false }
      if s.q.length ≥ s.cap then [([Ev.mkfutPump], { s with putW := some false, putWAttr := true })]
      else [pumpEnqueue s m]
    else []
  | .exited => []

/-- the part of `receive()` from the `while not self._messages` test on -/
def popSeg (s : S) (pre : List Ev) : List Ev × S :=
  match s.q with
  | m :: rest =>
    let s := { s with q := rest }
    let (evs, s) :=
      if s.putWAttr then ([Ev.popleft m, Ev.resolvePump], { s with putW := s.putW.map (fun _ => true), putWAttr := false })
      else ([Ev.popleft m], s)
    (pre ++ evs ++ [Ev.recvRet m], { s with app := .idle })
  | [] => (pre ++ [Ev.mkfutApp], { s with popW := some false, popWAttr := true, app := .waiting })

/-- segments of the task that calls `receive()` -/
def appSegs (s : S) : List (List Ev × S) :=
  match s.app with
  | .idle => [popSeg s [Ev.recvStart]]
  | .waiting =>
    (if s.popW == some true then
      [popSeg { s with popW := none, popWAttr := false } []]
    else if s.pump == .exited then
      [([Ev.cancelApp, Ev.recvSynthetic], { s with popW := none, popWAttr := false, app := .idle })]
    else [])
    -- cancellation of the parked task: `finally: self._pop_message_waiter = None`; the queue is untouched
    ++ [([Ev.recvCancelled], { s with popW := none, popWAttr := false, app := .idle })]

/-- `WebSocket._send` reads the flag; `stop()` cancels the pump (a held event is dropped with it) -/
def otherSegs (s : S) : List (List Ev × S) :=
  [([if s.disc then Ev.sendDisc else Ev.sendOk], s),
   ([Ev.stop], { s with pump := .exited, putW := none, putWAttr := false })]

/-- every enabled atomic segment with the events it emits -/
def segments (s : S) (next : Option Ev) : List (List Ev × S) :=
  pumpSegs s next ++ appSegs s ++ otherSegs s

def isPrefix : List Ev → List Ev → Bool
  | [], _ => true
  | _ :: _, [] => false
  | a :: as, b :: bs => decide (a = b) && isPrefix as bs

/-- safety properties checked at every reached state (the theorems state these as invariants) -/
def invOk (s : S) : Bool :=
  s.q.length ≤ s.cap
  && (!(s.popW == some false) || s.q.isEmpty)            -- pending pop waiter ⇒ queue empty (no lost wake-up)
  && (!(s.putW == some false) || s.q.length ≥ s.cap)      -- pump parked for room ⇒ queue full

/-- trace inclusion: consume the log by enabled segments; returns the index at which it got stuck -/
def accept : Nat → S → List Ev → Nat → Except String S
  | 0, _, _, _ => .error "fuel"
  | _, s, [], _ => .ok s
  | fuel + 1, s, log, i =>
    if !invOk s then .error s!"invariant broken at event {i}" else
    match (segments s log.head?).find? (fun seg => !seg.1.isEmpty && isPrefix seg.1 log) with
    | some (evs, s') => accept fuel s' (log.drop evs.length) (i + evs.length)
    | none => .error s!"no enabled segment at event {i}"

/-- the events the framework holds: the queue plus the one the pump has pulled but not yet enqueued -/
def held (s : S) : List Nat :=
  s.q ++ (match s.pump with | .got m => [m] | .holding m => [m] | _ => [])

def delivered : List Ev → List Nat
  | [] => []
  | .deliver m :: r => m :: delivered r
  | _ :: r => delivered r

def returned : List Ev → List Nat
  | [] => []
  | .recvRet m :: r => m :: returned r
  | _ :: r => returned r

end Wb

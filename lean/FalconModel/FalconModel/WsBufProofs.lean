import FalconModel.WsBuf
/-! Proof probe for C18: the safety invariant is inductive over every atomic segment,
    hence holds in every state reachable under every schedule. -/
namespace Wb

structure Core (s : S) : Prop where
  cap_pos : 0 < s.cap
  q_le : s.q.length ≤ s.cap
  pop_attr : s.popWAttr = true ↔ s.popW = some false
  put_attr : s.putWAttr = true ↔ s.putW = some false
  pop_pending_empty : s.popW = some false → s.q = []
  put_pending_full : s.putW = some false → s.q.length = s.cap
  app_wait : s.app = .waiting ↔ s.popW ≠ none

structure Inv (s : S) : Prop extends Core s where
  pump_hold : (∃ m, s.pump = .holding m) ↔ s.putW ≠ none

theorem inv_init (cap : Nat) (h : 0 < cap) : Inv { cap := cap } := by
  refine ⟨⟨?_, ?_, ?_, ?_, ?_, ?_, ?_⟩, ?_⟩ <;> simp_all

/-- enqueue tail of a pump segment -/
theorem pumpEnqueue_inv (s : S) (m : Nat) (h : Core s) (hlt : s.q.length < s.cap)
    (hput : s.putW = none) :
    Inv (pumpEnqueue s m).2 := by
  obtain ⟨h1, h2, h3, h4, h5, h6, h7⟩ := h
  unfold pumpEnqueue
  by_cases hp : s.popWAttr = true
  · have hpw : s.popW = some false := h3.mp hp
    by_cases hd : s.disc = true
    · simp only [hp, hd, if_true]
      refine ⟨⟨?_, ?_, ?_, ?_, ?_, ?_, ?_⟩, ?_⟩ <;> simp_all <;> omega
    · simp only [hp, hd, if_true]
      refine ⟨⟨?_, ?_, ?_, ?_, ?_, ?_, ?_⟩, ?_⟩ <;> simp_all <;> omega
  · have hpw : s.popW ≠ some false := fun hc => hp (h3.mpr hc)
    by_cases hd : s.disc = true
    · simp only [hp, hd]
      refine ⟨⟨?_, ?_, ?_, ?_, ?_, ?_, ?_⟩, ?_⟩ <;> simp_all <;> omega
    · simp only [hp, hd]
      refine ⟨⟨?_, ?_, ?_, ?_, ?_, ?_, ?_⟩, ?_⟩ <;> simp_all <;> omega


/-- Every atomic segment of either task preserves the invariant: so it holds under every schedule. -/
theorem segments_preserve (s : S) (nx : Option Ev) (h : Inv s) :
    ∀ seg ∈ segments s nx, Inv seg.2 := by
  intro seg hseg
  unfold segments at hseg
  simp only [List.mem_append] at hseg
  rcases hseg with (hp | ha) | ho
  · -- pump segments
    unfold pumpSegs at hp
    cases hpc : s.pump with
    | idle =>
      simp only [hpc, List.mem_singleton] at hp; subst hp
      obtain ⟨⟨h1, h2, h3, h4, h5, h6, h7⟩, h8⟩ := h
      refine ⟨⟨?_, ?_, ?_, ?_, ?_, ?_, ?_⟩, ?_⟩ <;> simp_all
    | pulling =>
      simp only [hpc] at hp
      split at hp
      · simp only [List.mem_singleton] at hp; subst hp
        obtain ⟨⟨h1, h2, h3, h4, h5, h6, h7⟩, h8⟩ := h
        refine ⟨⟨?_, ?_, ?_, ?_, ?_, ?_, ?_⟩, ?_⟩ <;> simp_all
      · simp at hp
    | got m =>
      simp only [hpc] at hp
      have hput : s.putW = none := by
        cases hq : s.putW with
        | none => rfl
        | some b =>
          exfalso
          obtain ⟨m', hm'⟩ := h.pump_hold.mpr (by simp [hq])
          simp [hpc] at hm'
      split at hp
      · rename_i hfull
        simp only [List.mem_singleton] at hp; subst hp
        obtain ⟨⟨h1, h2, h3, h4, h5, h6, h7⟩, h8⟩ := h
        refine ⟨⟨?_, ?_, ?_, ?_, ?_, ?_, ?_⟩, ?_⟩ <;> simp_all <;> omega
      · rename_i hnf
        simp only [List.mem_singleton] at hp; subst hp
        apply pumpEnqueue_inv
        · obtain ⟨⟨h1, h2, h3, h4, h5, h6, h7⟩, h8⟩ := h
          refine ⟨?_, ?_, ?_, ?_, ?_, ?_, ?_⟩ <;> simp_all
        · simp at hnf ⊢; omega
        · simpa using hput
    | holding m =>
      simp only [hpc] at hp
      split at hp
      · rename_i hres
        split at hp
        · simp only [List.mem_singleton] at hp; subst hp
          obtain ⟨⟨h1, h2, h3, h4, h5, h6, h7⟩, h8⟩ := h
          refine ⟨⟨?_, ?_, ?_, ?_, ?_, ?_, ?_⟩, ?_⟩ <;> simp_all <;> omega
        · rename_i hnf
          simp only [List.mem_singleton] at hp; subst hp
          apply pumpEnqueue_inv
          · obtain ⟨⟨h1, h2, h3, h4, h5, h6, h7⟩, h8⟩ := h
            refine ⟨?_, ?_, ?_, ?_, ?_, ?_, ?_⟩ <;> simp_all
          · simp at hnf ⊢; omega
          · simp
      · simp at hp
    | exited => simp [hpc] at hp
  · -- app segments
    obtain ⟨⟨h1, h2, h3, h4, h5, h6, h7⟩, h8⟩ := h
    unfold appSegs at ha
    cases hap : s.app with
    | idle =>
      simp only [hap, List.mem_singleton] at ha
      unfold popSeg at ha
      cases hq : s.q with
      | nil =>
        simp only [hq] at ha; subst ha
        refine ⟨⟨?_, ?_, ?_, ?_, ?_, ?_, ?_⟩, ?_⟩ <;> simp_all
      | cons m rest =>
        simp only [hq] at ha
        by_cases hpa : s.putWAttr = true
        · simp only [hpa, if_true] at ha; subst ha
          refine ⟨⟨?_, ?_, ?_, ?_, ?_, ?_, ?_⟩, ?_⟩ <;> simp_all <;> omega
        · simp only [hpa] at ha; subst ha
          refine ⟨⟨?_, ?_, ?_, ?_, ?_, ?_, ?_⟩, ?_⟩ <;> simp_all <;> omega
    | waiting =>
      simp only [hap, List.mem_append, List.mem_singleton] at ha
      rcases ha with ha | ha
      · split at ha
        · rename_i hres
          simp only [List.mem_singleton] at ha
          unfold popSeg at ha
          cases hq : s.q with
          | nil =>
            simp only [hq] at ha; subst ha
            refine ⟨⟨?_, ?_, ?_, ?_, ?_, ?_, ?_⟩, ?_⟩ <;> simp_all
          | cons m rest =>
            simp only [hq] at ha
            by_cases hpa : s.putWAttr = true
            · simp only [hpa, if_true] at ha; subst ha
              refine ⟨⟨?_, ?_, ?_, ?_, ?_, ?_, ?_⟩, ?_⟩ <;> simp_all <;> omega
            · simp only [hpa] at ha; subst ha
              refine ⟨⟨?_, ?_, ?_, ?_, ?_, ?_, ?_⟩, ?_⟩ <;> simp_all <;> omega
        · split at ha
          · simp only [List.mem_singleton] at ha; subst ha
            refine ⟨⟨?_, ?_, ?_, ?_, ?_, ?_, ?_⟩, ?_⟩ <;> simp_all
          · simp at ha
      · -- the parked task is cancelled
        subst ha
        refine ⟨⟨?_, ?_, ?_, ?_, ?_, ?_, ?_⟩, ?_⟩ <;> simp_all
  · -- `_send` and `stop()`
    obtain ⟨⟨h1, h2, h3, h4, h5, h6, h7⟩, h8⟩ := h
    unfold otherSegs at ho
    simp only [List.mem_cons, List.mem_nil_iff, or_false] at ho
    rcases ho with ho | ho
    · subst ho
      exact ⟨⟨h1, h2, h3, h4, h5, h6, h7⟩, h8⟩
    · subst ho
      refine ⟨⟨?_, ?_, ?_, ?_, ?_, ?_, ?_⟩, ?_⟩ <;> simp_all

#print axioms segments_preserve
/-! ### FIFO, lossless, once: every segment conserves `returned ++ held = held ++ delivered` -/

theorem returned_append (a b : List Ev) : returned (a ++ b) = returned a ++ returned b := by
  induction a with
  | nil => rfl
  | cons e r ih => cases e <;> simp [returned, ih]

theorem delivered_append (a b : List Ev) : delivered (a ++ b) = delivered a ++ delivered b := by
  induction a with
  | nil => rfl
  | cons e r ih => cases e <;> simp [delivered, ih]

theorem pumpEnqueue_conserve (s : S) (m : Nat) :
    returned (pumpEnqueue s m).1 = [] ∧ delivered (pumpEnqueue s m).1 = [] ∧
    (pumpEnqueue s m).2.q = s.q ++ [m] ∧
    ((pumpEnqueue s m).2.pump = .pulling ∨ (pumpEnqueue s m).2.pump = .exited) := by
  unfold pumpEnqueue
  by_cases hp : s.popWAttr = true <;> by_cases hd : s.disc = true <;> simp [hp, hd, returned, delivered]

theorem pumpEnqueue_held (s0 : S) (m : Nat) (base : List Nat) (hb : base = s0.q ++ [m]) :
    returned (pumpEnqueue s0 m).1 ++ held (pumpEnqueue s0 m).2 = base ++ delivered (pumpEnqueue s0 m).1 := by
  obtain ⟨c1, c2, c3, c4⟩ := pumpEnqueue_conserve s0 m
  rw [c1, c2, hb]
  unfold held
  rw [c3]
  rcases c4 with c4 | c4 <;> simp [c4]

theorem popSeg_conserve (s : S) (pre : List Ev) (hpre : returned pre = [] ∧ delivered pre = []) :
    returned (popSeg s pre).1 ++ (popSeg s pre).2.q = s.q ∧ delivered (popSeg s pre).1 = [] ∧
    (popSeg s pre).2.pump = s.pump := by
  unfold popSeg
  cases hq : s.q with
  | nil => simp [returned_append, delivered_append, hpre, returned, delivered]
  | cons m rest =>
    by_cases hpa : s.putWAttr = true <;>
      simp [hpa, returned_append, delivered_append, hpre, returned, delivered]

theorem popSeg_held (s0 : S) (pre : List Ev) (hpre : returned pre = [] ∧ delivered pre = []) (base : List Nat)
    (hb : base = held s0) :
    returned (popSeg s0 pre).1 ++ held (popSeg s0 pre).2 = base ++ delivered (popSeg s0 pre).1 := by
  obtain ⟨c1, c2, c3⟩ := popSeg_conserve s0 pre hpre
  rw [hb]
  unfold held
  rw [c2, c3, ← List.append_assoc, c1]; simp

/-- **C18 `segments_conserve`**: apart from `stop()` (which drops what the cancelled pump holds), every atomic segment of
    either task keeps `returned-to-the-app ++ held-by-the-framework = held-before ++ delivered-by-the-server`, in order -/
theorem segments_conserve (s : S) (nx : Option Ev) :
    ∀ seg ∈ segments s nx, Ev.stop ∉ seg.1 → returned seg.1 ++ held seg.2 = held s ++ delivered seg.1 := by
  intro seg hseg hns
  unfold segments at hseg
  simp only [List.mem_append] at hseg
  rcases hseg with (hp | ha) | ho
  · unfold pumpSegs at hp
    cases hpc : s.pump with
    | idle =>
      simp only [hpc, List.mem_singleton] at hp; subst hp
      simp [held, hpc, returned, delivered]
    | pulling =>
      simp only [hpc] at hp
      split at hp
      · simp only [List.mem_singleton] at hp; subst hp
        simp [held, hpc, returned, delivered]
      · simp at hp
    | got m =>
      simp only [hpc] at hp
      split at hp
      · simp only [List.mem_singleton] at hp; subst hp
        simp [held, hpc, returned, delivered]
      · simp only [List.mem_singleton] at hp; subst hp
        apply pumpEnqueue_held
        simp [held, hpc]
    | holding m =>
      simp only [hpc] at hp
      split at hp
      · split at hp
        · simp only [List.mem_singleton] at hp; subst hp
          simp [held, hpc, returned, delivered]
        · simp only [List.mem_singleton] at hp; subst hp
          apply pumpEnqueue_held
          simp [held, hpc]
      · simp at hp
    | exited => simp [hpc] at hp
  · unfold appSegs at ha
    cases hap : s.app with
    | idle =>
      simp only [hap, List.mem_singleton] at ha; subst ha
      exact popSeg_held s [Ev.recvStart] ⟨rfl, rfl⟩ _ rfl
    | waiting =>
      simp only [hap, List.mem_append, List.mem_singleton] at ha
      rcases ha with ha | ha
      · split at ha
        · simp only [List.mem_singleton] at ha; subst ha
          apply popSeg_held _ [] ⟨rfl, rfl⟩
          simp [held]
        · split at ha
          · simp only [List.mem_singleton] at ha; subst ha
            simp [held, returned, delivered]
          · simp at ha
      · subst ha
        simp [held, returned, delivered]
  · unfold otherSegs at ho
    simp only [List.mem_cons, List.mem_nil_iff, or_false] at ho
    rcases ho with ho | ho
    · subst ho
      by_cases hd : s.disc = true <;> simp [hd, returned, delivered]
    · subst ho
      simp at hns

theorem isPrefix_eq (a b : List Ev) (h : isPrefix a b = true) : b = a ++ b.drop a.length := by
  induction a generalizing b with
  | nil => simp
  | cons x xs ih =>
    cases b with
    | nil => simp [isPrefix] at h
    | cons y ys =>
      simp only [isPrefix, Bool.and_eq_true, decide_eq_true_eq] at h
      obtain ⟨h1, h2⟩ := h
      subst h1
      simp only [List.length_cons, List.drop_succ_cons, List.cons_append, List.cons.injEq, true_and]
      exact ih ys h2

/-- **C18 `fifo_lossless_once`**: for every log that the trace-inclusion checker accepts from state `s` (no `stop()` in
    it), what `receive()` returned, followed by what the framework still holds, is exactly what it held before followed
    by what the server delivered — same order, nothing lost, nothing duplicated; and the invariant holds at the end. -/
theorem fifo_lossless_once : ∀ (fuel : Nat) (s : S) (log : List Ev) (i : Nat) (s' : S),
    accept fuel s log i = .ok s' → Ev.stop ∉ log → Inv s →
    returned log ++ held s' = held s ++ delivered log ∧ Inv s' := by
  intro fuel
  induction fuel with
  | zero => intro s log i s' h; simp [accept] at h
  | succ n ih =>
    intro s log i s' h hns hinv
    cases log with
    | nil =>
      simp only [accept, Except.ok.injEq] at h
      subst h
      exact ⟨by simp [returned, delivered], hinv⟩
    | cons e rest =>
      simp only [accept] at h
      split at h
      · simp at h
      · split at h
        · rename_i evs s1 hfind
          have hmem := List.mem_of_find?_eq_some hfind
          have hpred := List.find?_some hfind
          simp only [Bool.and_eq_true] at hpred
          have hpre := isPrefix_eq evs (e :: rest) hpred.2
          have hns1 : Ev.stop ∉ evs := by
            intro hin; apply hns; rw [hpre]; exact List.mem_append_left _ hin
          have hns2 : Ev.stop ∉ (e :: rest).drop evs.length := by
            intro hin; apply hns; rw [hpre]; exact List.mem_append_right _ hin
          have hc := segments_conserve s _ (evs, s1) hmem hns1
          have hi1 := segments_preserve s _ hinv (evs, s1) hmem
          obtain ⟨r1, r2⟩ := ih s1 _ _ s' h hns2 hi1
          refine ⟨?_, r2⟩
          simp only at hc
          rw [hpre, returned_append, delivered_append, List.append_assoc, r1, ← List.append_assoc, hc,
            List.append_assoc]
        · simp at h

/-! ### bounds -/

/-- the framework never holds more than capacity + 1 events … -/
theorem held_le_capacity_succ (s : S) (h : Inv s) : (held s).length ≤ s.cap + 1 := by
  have := h.q_le
  unfold held
  cases s.pump <;> simp <;> omega

/-- … and it holds capacity + 1 only with the queue full and exactly one event in flight in the pump (F13) -/
theorem held_succ_only_when_full (s : S) (h : Inv s) (hh : (held s).length = s.cap + 1) :
    s.q.length = s.cap ∧ ((∃ m, s.pump = .got m) ∨ (∃ m, s.pump = .holding m)) := by
  have := h.q_le
  unfold held at hh
  cases hp : s.pump <;> simp [hp] at hh <;> first | omega | (refine ⟨by omega, ?_⟩; simp)

def heldAfter (cap : Nat) (log : List Ev) : Option Nat :=
  match accept (4 * log.length + 8) { cap := cap } log 0 with
  | .ok s => some (held s).length
  | .error _ => none

/-- F13 (known finding): the literal bound "held ≤ capacity" is false — with capacity 1, after one message was queued the
    pump has already pulled and holds the second one -/
theorem f13_witness : heldAfter 1 [.pull, .deliver 0, .append 0, .pull, .deliver 1] = some 2 := by decide

/-! ### wake-ups, disconnect, stop -/

/-- no lost wake-up: a parked `receive()` with a non-empty queue has had its waiter resolved (its resume segment is enabled) -/
theorem no_lost_wakeup (s : S) (h : Inv s) (hw : s.app = .waiting) (hq : s.q ≠ []) : s.popW = some true := by
  have h1 := h.app_wait.mp hw
  cases hp : s.popW with
  | none => exact absurd hp h1
  | some b =>
    cases b with
    | true => rfl
    | false => exact absurd (h.pop_pending_empty hp) hq

/-- a `receive()` whose waiter was resolved can always proceed -/
theorem resolved_receive_enabled (s : S) (hw : s.app = .waiting) (hp : s.popW = some true) :
    appSegs s ≠ [] ∧ ∀ seg ∈ appSegs s, seg.2.app = .idle ∨ seg.2.popW = some false := by
  unfold appSegs
  simp only [hw, hp, beq_self_eq_true, if_true]
  refine ⟨by simp, ?_⟩
  intro seg hseg
  simp only [List.mem_append, List.mem_singleton, List.mem_cons, List.mem_nil_iff, or_false] at hseg
  rcases hseg with hseg | hseg
  · subst hseg
    unfold popSeg
    cases hq : s.q with
    | nil => right; simp
    | cons m rest => left; by_cases hpa : s.putWAttr = true <;> simp [hpa]
  · subst hseg; left; rfl

/-- the disconnect flag is monotone … -/
theorem disc_monotone (s : S) (nx : Option Ev) (hd : s.disc = true) : ∀ seg ∈ segments s nx, seg.2.disc = true := by
  intro seg hseg
  unfold segments at hseg
  simp only [List.mem_append] at hseg
  rcases hseg with (hp | ha) | ho
  · unfold pumpSegs at hp
    cases hpc : s.pump with
    | idle => simp only [hpc, List.mem_singleton] at hp; subst hp; exact hd
    | pulling =>
      simp only [hpc] at hp
      split at hp
      · simp only [List.mem_singleton] at hp; subst hp; exact hd
      · simp at hp
    | got m =>
      simp only [hpc] at hp
      split at hp
      · simp only [List.mem_singleton] at hp; subst hp; simp [hd]
      · simp only [List.mem_singleton] at hp; subst hp
        unfold pumpEnqueue
        by_cases hpa : s.popWAttr = true <;> simp [hpa, hd]
    | holding m =>
      simp only [hpc] at hp
      split at hp
      · split at hp
        · simp only [List.mem_singleton] at hp; subst hp; exact hd
        · simp only [List.mem_singleton] at hp; subst hp
          unfold pumpEnqueue
          by_cases hpa : s.popWAttr = true <;> simp [hpa, hd]
      · simp at hp
    | exited => simp [hpc] at hp
  · unfold appSegs at ha
    cases hap : s.app with
    | idle =>
      simp only [hap, List.mem_singleton] at ha; subst ha
      unfold popSeg
      cases hq : s.q with
      | nil => exact hd
      | cons m rest => by_cases hpa : s.putWAttr = true <;> simp [hpa, hd]
    | waiting =>
      simp only [hap, List.mem_append, List.mem_singleton] at ha
      rcases ha with ha | ha
      · split at ha
        · simp only [List.mem_singleton] at ha; subst ha
          unfold popSeg
          cases hq : s.q with
          | nil => exact hd
          | cons m rest => by_cases hpa : s.putWAttr = true <;> simp [hpa, hd]
        · split at ha
          · simp only [List.mem_singleton] at ha; subst ha; exact hd
          · simp at ha
      · subst ha; exact hd
  · unfold otherSegs at ho
    simp only [List.mem_cons, List.mem_nil_iff, or_false] at ho
    rcases ho with ho | ho <;> (subst ho; exact hd)

/-- … it is set by the very pump segment that processes the disconnect event — before that event is queued, even when the
    queue is full — and from then on every `_send` takes the `sendDisc` branch (WebSocketDisconnected) -/
theorem disc_set_by_pump (s : S) (nx : Option Ev) (hp : s.pump = .got discMsg) :
    ∀ seg ∈ pumpSegs s nx, seg.2.disc = true := by
  intro seg hseg
  unfold pumpSegs at hseg
  simp only [hp] at hseg
  split at hseg
  · simp only [List.mem_singleton] at hseg; subst hseg; simp
  · simp only [List.mem_singleton] at hseg; subst hseg
    unfold pumpEnqueue
    by_cases hpa : s.popWAttr = true <;> simp [hpa]

theorem send_reports_flag (s : S) (seg : List Ev × S) (h : seg ∈ otherSegs s) (hs : Ev.stop ∉ seg.1) :
    seg.1 = [if s.disc then Ev.sendDisc else Ev.sendOk] ∧ seg.2 = s := by
  unfold otherSegs at h
  simp only [List.mem_cons, List.mem_nil_iff, or_false] at h
  rcases h with h | h
  · subst h; exact ⟨rfl, rfl⟩
  · subst h; simp at hs

/-- after `stop()` the pump has no further segment: nothing is left running, no further pull is made -/
theorem stop_leaves_no_task (s : S) (nx : Option Ev) (seg : List Ev × S) (h : seg ∈ otherSegs s) (hs : Ev.stop ∈ seg.1) :
    ∀ nx', pumpSegs seg.2 nx' = [] := by
  unfold otherSegs at h
  simp only [List.mem_cons, List.mem_nil_iff, or_false] at h
  rcases h with h | h
  · subst h
    by_cases hd : s.disc = true <;> simp [hd] at hs
  · subst h
    intro nx'; simp [pumpSegs]

end Wb

import FalconModel.WsBuf
/-! Proof probe for C18: the safety invariant is inductive over every atomic segment,
    hence holds in every state reachable under every schedule. -/
namespace Wb

structure Core (s : S) : Prop where
  cap_pos : 0 < s.cap
  q_le : s.q.length ≤ s.cap
  pop_attr : s.popWAttr = true ↔ s.popW = some false
  put_attr : s.putWAttr = true ↔ s.putW = some false
  pop_pending_empty : s.popW = some false → s.q = []
  put_pending_full : s.putW = some false → s.q.length = s.cap
  app_wait : s.app = .waiting ↔ s.popW ≠ none

structure Inv (s : S) : Prop extends Core s where
  pump_hold : (∃ m, s.pump = .holding m) ↔ s.putW ≠ none

theorem inv_init (cap : Nat) (h : 0 < cap) : Inv { cap := cap } := by
  refine ⟨⟨?_, ?_, ?_, ?_, ?_, ?_, ?_⟩, ?_⟩ <;> simp_all

/-- enqueue tail of a pump segment -/
theorem pumpEnqueue_inv (s : S) (m : Nat) (h : Core s) (hlt : s.q.length < s.cap)
    (hput : s.putW = none) :
    Inv (pumpEnqueue s m).2 := by
  obtain ⟨h1, h2, h3, h4, h5, h6, h7⟩ := h
  unfold pumpEnqueue
  by_cases hp : s.popWAttr = true
  · have hpw : s.popW = some false := h3.mp hp
    by_cases hd : s.disc = true
    · simp only [hp, hd, if_true]
      refine ⟨⟨?_, ?_, ?_, ?_, ?_, ?_, ?_⟩, ?_⟩ <;> simp_all <;> omega
    · simp only [hp, hd, if_true]
      refine ⟨⟨?_, ?_, ?_, ?_, ?_, ?_, ?_⟩, ?_⟩ <;> simp_all <;> omega
  · have hpw : s.popW ≠ some false := fun hc => hp (h3.mpr hc)
    by_cases hd : s.disc = true
    · simp only [hp, hd]
      refine ⟨⟨?_, ?_, ?_, ?_, ?_, ?_, ?_⟩, ?_⟩ <;> simp_all <;> omega
    · simp only [hp, hd]
      refine ⟨⟨?_, ?_, ?_, ?_, ?_, ?_, ?_⟩, ?_⟩ <;> simp_all <;> omega


/-- Every atomic segment of either task preserves the invariant: so it holds under every schedule. -/
theorem segments_preserve (s : S) (nx : Option Ev) (h : Inv s) :
    ∀ seg ∈ segments s nx, Inv seg.2 := by
  intro seg hseg
  unfold segments at hseg
  simp only [List.mem_append] at hseg
  rcases hseg with hp | ha
  · -- pump segments
    cases hpc : s.pump with
    | idle =>
      simp only [hpc, List.mem_singleton] at hp; subst hp
      obtain ⟨⟨h1, h2, h3, h4, h5, h6, h7⟩, h8⟩ := h
      refine ⟨⟨?_, ?_, ?_, ?_, ?_, ?_, ?_⟩, ?_⟩ <;> simp_all
    | pulling =>
      simp only [hpc] at hp
      split at hp
      · simp only [List.mem_singleton] at hp; subst hp
        obtain ⟨⟨h1, h2, h3, h4, h5, h6, h7⟩, h8⟩ := h
        refine ⟨⟨?_, ?_, ?_, ?_, ?_, ?_, ?_⟩, ?_⟩ <;> simp_all
      · simp at hp
    | got m =>
      simp only [hpc] at hp
      have hput : s.putW = none := by
        cases hq : s.putW with
        | none => rfl
        | some b =>
          exfalso
          obtain ⟨m', hm'⟩ := h.pump_hold.mpr (by simp [hq])
          simp [hpc] at hm'
      split at hp
      · rename_i hfull
        simp only [List.mem_singleton] at hp; subst hp
        obtain ⟨⟨h1, h2, h3, h4, h5, h6, h7⟩, h8⟩ := h
        refine ⟨⟨?_, ?_, ?_, ?_, ?_, ?_, ?_⟩, ?_⟩ <;> simp_all <;> omega
      · rename_i hnf
        simp only [List.mem_singleton] at hp; subst hp
        apply pumpEnqueue_inv
        · obtain ⟨⟨h1, h2, h3, h4, h5, h6, h7⟩, h8⟩ := h
          refine ⟨?_, ?_, ?_, ?_, ?_, ?_, ?_⟩ <;> simp_all
        · simp at hnf ⊢; omega
        · simpa using hput
    | holding m =>
      simp only [hpc] at hp
      split at hp
      · rename_i hres
        split at hp
        · simp only [List.mem_singleton] at hp; subst hp
          obtain ⟨⟨h1, h2, h3, h4, h5, h6, h7⟩, h8⟩ := h
          refine ⟨⟨?_, ?_, ?_, ?_, ?_, ?_, ?_⟩, ?_⟩ <;> simp_all <;> omega
        · rename_i hnf
          simp only [List.mem_singleton] at hp; subst hp
          apply pumpEnqueue_inv
          · obtain ⟨⟨h1, h2, h3, h4, h5, h6, h7⟩, h8⟩ := h
            refine ⟨?_, ?_, ?_, ?_, ?_, ?_, ?_⟩ <;> simp_all
          · simp at hnf ⊢; omega
          · simp
      · simp at hp
    | exited => simp [hpc] at hp
  · -- app segments
    obtain ⟨⟨h1, h2, h3, h4, h5, h6, h7⟩, h8⟩ := h
    cases hap : s.app with
    | idle =>
      simp only [hap, List.mem_singleton] at ha
      cases hq : s.q with
      | nil =>
        simp only [hq] at ha; subst ha
        refine ⟨⟨?_, ?_, ?_, ?_, ?_, ?_, ?_⟩, ?_⟩ <;> simp_all
      | cons m rest =>
        simp only [hq] at ha
        by_cases hpa : s.putWAttr = true
        · simp only [hpa, if_true] at ha; subst ha
          refine ⟨⟨?_, ?_, ?_, ?_, ?_, ?_, ?_⟩, ?_⟩ <;> simp_all <;> omega
        · simp only [hpa] at ha; subst ha
          refine ⟨⟨?_, ?_, ?_, ?_, ?_, ?_, ?_⟩, ?_⟩ <;> simp_all <;> omega
    | waiting =>
      simp only [hap] at ha
      split at ha
      · rename_i hres
        simp only [List.mem_singleton] at ha
        cases hq : s.q with
        | nil =>
          simp only [hq] at ha; subst ha
          refine ⟨⟨?_, ?_, ?_, ?_, ?_, ?_, ?_⟩, ?_⟩ <;> simp_all
        | cons m rest =>
          simp only [hq] at ha
          by_cases hpa : s.putWAttr = true
          · simp only [hpa, if_true] at ha; subst ha
            refine ⟨⟨?_, ?_, ?_, ?_, ?_, ?_, ?_⟩, ?_⟩ <;> simp_all <;> omega
          · simp only [hpa] at ha; subst ha
            refine ⟨⟨?_, ?_, ?_, ?_, ?_, ?_, ?_⟩, ?_⟩ <;> simp_all <;> omega
      · split at ha
        · simp only [List.mem_singleton] at ha; subst ha
          refine ⟨⟨?_, ?_, ?_, ?_, ?_, ?_, ?_⟩, ?_⟩ <;> simp_all
        · simp at ha

#print axioms segments_preserve
end Wb

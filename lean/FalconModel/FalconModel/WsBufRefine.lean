import FalconModel.WsBufProofs
import FalconModel.WsUnbufProofs
/-! C18: both receive paths refine one specification, the plain FIFO queue `Fq`.

    * buffered (`Wb`): abstraction function `held` (queue ++ the event the pump has in hand); a `deliver m` of the server is
      `enq m`, a `recvRet m` of `receive()` is `deq m`, every other event of the log is a stutter.  Every accepted log is a run
      of the FIFO queue (`Wb.buffered_refines_fifo`).
    * unbuffered (`Wu`): the queue is the server's; every consuming observation is a `deq` (`Wu.unbuffered_refines_fifo`).
    Consequently both hand the application a prefix of the same arrival sequence (`buffered_unbuffered_agree`). -/

namespace Fq

inductive Op where
  | enq (m : Nat) | deq (m : Nat)
deriving Repr, DecidableEq

/-- the specification: `enq` appends at the back, `deq m` is possible only when `m` is at the front -/
def run : List Nat → List Op → Option (List Nat)
  | q, [] => some q
  | q, .enq m :: r => run (q ++ [m]) r
  | [], .deq _ :: _ => none
  | m' :: q, .deq m :: r => if m' = m then run q r else none

def enqs : List Op → List Nat
  | [] => []
  | .enq m :: r => m :: enqs r
  | .deq _ :: r => enqs r

def deqs : List Op → List Nat
  | [] => []
  | .enq _ :: r => deqs r
  | .deq m :: r => m :: deqs r

theorem run_append (a b : List Op) : ∀ q, run q (a ++ b) = (run q a).bind (fun q' => run q' b) := by
  induction a with
  | nil => intro q; simp [run]
  | cons o r ih =>
    intro q
    cases o with
    | enq m => simp only [List.cons_append, run]; exact ih _
    | deq m =>
      cases q with
      | nil => simp [run]
      | cons m' q' =>
        simp only [List.cons_append, run]
        by_cases h : m' = m
        · simp only [h, if_true]; exact ih _
        · simp [h]

/-- the specification is FIFO: what was dequeued, followed by what is left, is what was there followed by what was enqueued -/
theorem run_sound (ops : List Op) : ∀ q q', run q ops = some q' → deqs ops ++ q' = q ++ enqs ops := by
  induction ops with
  | nil => intro q q' h; simp only [run, Option.some.injEq] at h; subst h; simp [deqs, enqs]
  | cons o r ih =>
    intro q q' h
    cases o with
    | enq m =>
      simp only [run] at h
      have := ih _ _ h
      simp only [deqs, enqs]; rw [this]; simp
    | deq m =>
      cases q with
      | nil => simp [run] at h
      | cons m' q0 =>
        simp only [run] at h
        by_cases hm : m' = m
        · simp only [hm, if_true] at h
          have := ih _ _ h
          simp only [deqs, enqs, List.cons_append, hm]; rw [this]
        · simp [hm] at h

/-- dequeuing a prefix of the queue, in order, is a run that leaves the rest -/
theorem run_deq_prefix (a b : List Nat) : run (a ++ b) (a.map Op.deq) = some b := by
  induction a with
  | nil => simp [run]
  | cons m r ih => simp only [List.cons_append, List.map_cons, run, if_true]; exact ih

end Fq

namespace Wb

/-- the FIFO operations a log stands for -/
def ops : List Ev → List Fq.Op
  | [] => []
  | .deliver m :: r => .enq m :: ops r
  | .recvRet m :: r => .deq m :: ops r
  | _ :: r => ops r

theorem ops_append (a b : List Ev) : ops (a ++ b) = ops a ++ ops b := by
  induction a with
  | nil => rfl
  | cons e r ih => cases e <;> simp [ops, ih]

theorem ops_enqs (l : List Ev) : Fq.enqs (ops l) = delivered l := by
  induction l with
  | nil => rfl
  | cons e r ih => cases e <;> simp [ops, Fq.enqs, delivered, ih]

theorem ops_deqs (l : List Ev) : Fq.deqs (ops l) = returned l := by
  induction l with
  | nil => rfl
  | cons e r ih => cases e <;> simp [ops, Fq.deqs, returned, ih]

theorem pumpEnqueue_refines (s0 : S) (m : Nat) (hb : held s0 = s0.q ++ [m]) :
    Fq.run (held s0) (ops (pumpEnqueue s0 m).1) = some (held (pumpEnqueue s0 m).2) := by
  have ho : ops (pumpEnqueue s0 m).1 = [] := by
    unfold pumpEnqueue
    by_cases hp : s0.popWAttr = true <;> by_cases hd : s0.disc = true <;> simp [hp, hd, ops]
  obtain ⟨_, _, c3, c4⟩ := pumpEnqueue_conserve s0 m
  rw [ho, hb]
  unfold held
  rw [c3]
  rcases c4 with c4 | c4 <;> simp [c4, Fq.run]

theorem popSeg_refines (s0 : S) (pre : List Ev) (hpre : ops pre = []) :
    Fq.run (held s0) (ops (popSeg s0 pre).1) = some (held (popSeg s0 pre).2) := by
  unfold popSeg
  cases hq : s0.q with
  | nil => simp [ops_append, hpre, ops, Fq.run, held, hq]
  | cons m rest =>
    by_cases hpa : s0.putWAttr = true <;>
      simp [hpa, ops_append, hpre, ops, Fq.run, held, hq]

/-- every atomic segment (except `stop()`) is a run of the FIFO specification from `held` before to `held` after -/
theorem segment_refines (s : S) (nx : Option Ev) :
    ∀ seg ∈ segments s nx, Ev.stop ∉ seg.1 → Fq.run (held s) (ops seg.1) = some (held seg.2) := by
  intro seg hseg hns
  unfold segments at hseg
  simp only [List.mem_append] at hseg
  rcases hseg with (hp | ha) | ho
  · unfold pumpSegs at hp
    cases hpc : s.pump with
    | idle =>
      simp only [hpc, List.mem_singleton] at hp; subst hp
      simp [held, hpc, ops, Fq.run]
    | pulling =>
      simp only [hpc] at hp
      split at hp
      · simp only [List.mem_singleton] at hp; subst hp
        simp [held, hpc, ops, Fq.run]
      · simp at hp
    | got m =>
      simp only [hpc] at hp
      split at hp
      · simp only [List.mem_singleton] at hp; subst hp
        simp [held, hpc, ops, Fq.run]
      · simp only [List.mem_singleton] at hp; subst hp
        have := pumpEnqueue_refines { s with disc := s.disc || m == discMsg } m (by simp [held, hpc])
        simpa [held, hpc] using this
    | holding m =>
      simp only [hpc] at hp
      split at hp
      · split at hp
        · simp only [List.mem_singleton] at hp; subst hp
          simp [held, hpc, ops, Fq.run]
        · simp only [List.mem_singleton] at hp; subst hp
          have := pumpEnqueue_refines { s with putW := none, putWAttr := false } m (by simp [held, hpc])
          simpa [held, hpc] using this
      · simp at hp
    | exited => simp [hpc] at hp
  · unfold appSegs at ha
    cases hap : s.app with
    | idle =>
      simp only [hap, List.mem_singleton] at ha; subst ha
      exact popSeg_refines s [Ev.recvStart] rfl
    | waiting =>
      simp only [hap, List.mem_append, List.mem_singleton] at ha
      rcases ha with ha | ha
      · split at ha
        · simp only [List.mem_singleton] at ha; subst ha
          have := popSeg_refines { s with popW := none, popWAttr := false } [] rfl
          rw [hap] at this; exact this
        · split at ha
          · simp only [List.mem_singleton] at ha; subst ha
            simp [held, ops, Fq.run]
          · simp at ha
      · subst ha
        simp [held, ops, Fq.run]
  · unfold otherSegs at ho
    simp only [List.mem_cons, List.mem_nil_iff, or_false] at ho
    rcases ho with ho | ho
    · subst ho
      by_cases hd : s.disc = true <;> simp [hd, ops, Fq.run]
    · subst ho
      simp at hns

/-- **C18 `buffered_refines_fifo`**: every log the trace-inclusion checker accepts (any interleaving of pump, receive, cancel and
    send segments; no `stop()`), read as FIFO operations (`deliver m` ↦ `enq m`, `recvRet m` ↦ `deq m`), is a run of the plain
    FIFO queue from `held` before to `held` after: each message `receive()` returns was, at that very moment, the oldest event
    the framework held -/
theorem buffered_refines_fifo : ∀ (fuel : Nat) (s : S) (log : List Ev) (i : Nat) (s' : S),
    accept fuel s log i = .ok s' → Ev.stop ∉ log → Fq.run (held s) (ops log) = some (held s') := by
  intro fuel
  induction fuel with
  | zero => intro s log i s' h; simp [accept] at h
  | succ n ih =>
    intro s log i s' h hns
    cases log with
    | nil =>
      simp only [accept, Except.ok.injEq] at h
      subst h; simp [ops, Fq.run]
    | cons e rest =>
      simp only [accept] at h
      split at h
      · simp at h
      · split at h
        · rename_i evs s1 hfind
          have hmem := List.mem_of_find?_eq_some hfind
          have hpred := List.find?_some hfind
          simp only [Bool.and_eq_true] at hpred
          have hpre := isPrefix_eq evs (e :: rest) hpred.2
          have hns1 : Ev.stop ∉ evs := by
            intro hin; apply hns; rw [hpre]; exact List.mem_append_left _ hin
          have hns2 : Ev.stop ∉ (e :: rest).drop evs.length := by
            intro hin; apply hns; rw [hpre]; exact List.mem_append_right _ hin
          have hc := segment_refines s _ (evs, s1) hmem hns1
          have r1 := ih s1 _ _ s' h hns2
          simp only at hc
          rw [hpre, ops_append, Fq.run_append, hc]
          exact r1
        · simp at h

example : (accept 40 { cap := 1 } [.pull, .deliver 0, .append 0, .pull, .deliver 1, .mkfutPump, .recvStart, .popleft 0,
      .resolvePump, .recvRet 0] 0).toOption.map held = some [1] ∧
    Fq.run [] (ops [.pull, .deliver 0, .append 0, .pull, .deliver 1, .mkfutPump, .recvStart, .popleft 0, .resolvePump,
      .recvRet 0]) = some [1] := by decide

/-- from a fresh receiver: what `receive()` returned is a prefix of what the server delivered, the rest is still held -/
theorem returned_prefix_delivered (fuel cap : Nat) (log : List Ev) (i : Nat) (s' : S)
    (h : accept fuel { cap := cap } log i = .ok s') (hns : Ev.stop ∉ log) :
    returned log ++ held s' = delivered log := by
  have hr := buffered_refines_fifo fuel _ log i s' h hns
  have := Fq.run_sound _ _ _ hr
  rw [ops_deqs, ops_enqs] at this
  simpa [held] using this

end Wb

namespace Wu

/-- the FIFO operations the observations of a run stand for: each consuming observation dequeues that event -/
def ops (out : List Obs) : List Fq.Op := (out.filterMap Obs.id?).map Fq.Op.deq

/-- **C18 `unbuffered_refines_fifo`**: after every schedule the consuming observations of the application, read as dequeues, are
    a run of the plain FIFO queue that starts with the arrival sequence (the server's queue) and ends with what is still at the
    server -/
theorem unbuffered_refines_fifo (arrived : List CEv) (ls : List Label) (s : S) (hr : runFrom (init arrived) ls = some s) :
    Fq.run (arrived.map CEv.id) (ops s.out) = some (s.pending.map CEv.id) := by
  obtain ⟨_, h2, h3⟩ := fifo_lossless_once arrived ls s hr
  have : ops s.out = (s.taken.map CEv.id).map Fq.Op.deq := by
    unfold ops; unfold observed at h3; rw [h3]
  rw [this, ← h2, List.map_append]
  exact Fq.run_deq_prefix _ _

/-- **C18 `buffered_unbuffered_agree`**: feed the same arrival sequence to a buffered receiver (any capacity, any accepted log
    without `stop()`, the server having delivered some prefix `dl` of it) and to an unbuffered WebSocket (any schedule).  Both
    hand the application a prefix of the arrival sequence; so whenever they have consumed the same number of events they have
    consumed the same events in the same order -/
theorem buffered_unbuffered_agree (arrived : List Wu.CEv) (fuel cap : Nat) (log : List Wb.Ev) (i : Nat) (sb : Wb.S)
    (hb : Wb.accept fuel { cap := cap } log i = .ok sb) (hns : Wb.Ev.stop ∉ log)
    (rest : List Nat) (hd : Wb.delivered log ++ rest = arrived.map Wu.CEv.id)
    (ls : List Wu.Label) (su : Wu.S) (hu : Wu.runFrom (Wu.init arrived) ls = some su)
    (hlen : (Wb.returned log).length = (Wu.observed su).length) :
    Wb.returned log = Wu.observed su := by
  have h1 := Wb.returned_prefix_delivered fuel cap log i sb hb hns
  have h2 := (Wu.fifo_lossless_once arrived ls su hu).1
  have : Wb.returned log ++ (Wb.held sb ++ rest) = Wu.observed su ++ su.pending.map Wu.CEv.id := by
    rw [← List.append_assoc, h1, hd, h2]
  exact List.append_inj_left this hlen

end Wu

/-! C18 (configuration dimension): the part of falcon/asgi/ws.py `WebSocket.__init__(ver, scope, receive, send, media_handlers,
    max_receive_queue, default_close_reasons)` that decides, from the configuration, which receive path the socket is wired to.

    ```
    self._supports_accept_headers = ver != '2.0'
    self._supports_reason = _supports_reason(ver)            # tuple(map(int, ver.split('.'))) >= (2, 3)
    self._buffered_receiver = _BufferedReceiver(receive, max_receive_queue)
    if max_receive_queue > 0: self._asgi_receive = self._buffered_receiver.receive
    else:                     self._asgi_receive = receive
    ```
    and `_BufferedReceiver.start()` creates the pump task iff `max_queue > 0`.  The announced ASGI spec version feeds the two
    feature flags and nothing else: the receive path (models `Wb` for a queue, `Wu` for the direct path) depends on
    `max_receive_queue` alone.  `App._handle_websocket` passes `ws_options.max_receive_queue` and the scope's spec version through
    unchanged. -/
namespace Wm

/-- `scope['asgi']['spec_version']`: a decimal "major.minor" string in canonical form (no leading zeros) -/
structure Ver where
  major : Nat
  minor : Nat
deriving Repr, DecidableEq

/-- what `self._asgi_receive` is bound to -/
inductive Path where
  | buffered (cap : Nat)   -- `_BufferedReceiver.receive`; `accept()` starts the pump task; the queue takes `cap` events
  | direct                 -- the server's `receive` callable itself; no pump task is ever created
deriving Repr, DecidableEq

structure Wiring where
  path : Path
  acceptHeaders : Bool     -- `_supports_accept_headers` (public: `supports_accept_headers`)
  reason : Bool            -- `_supports_reason`
deriving Repr, DecidableEq

/-- Python tuple comparison `(major, minor) >= (a, b)` -/
def Ver.ge (v : Ver) (a b : Nat) : Bool := decide (v.major > a) || (v.major == a && decide (v.minor ≥ b))

/-- `WebSocket.__init__` -/
def wire (v : Ver) (maxQueue : Nat) : Wiring :=
  { path := if maxQueue > 0 then .buffered maxQueue else .direct,
    acceptHeaders := !(v.major == 2 && v.minor == 0),
    reason := v.ge 2 3 }

/-! ### Histories of connections on one `falcon.asgi.App` object

    `App.__init__` creates `self.ws_options = WebSocketOptions()` (`max_receive_queue = 4`); the attribute is public and writable at any time (falcon's own
    ASGI test application changes it on a running server).  Every pass through `App._handle_websocket` constructs
    ```
    WebSocket(ver, scope, receive, send, self.ws_options.media_handlers, self.ws_options.max_receive_queue, self.ws_options.default_close_reasons)
    ```
    reading the options object afresh: nothing of an earlier connection survives in the `App`.  A connection to an unknown route constructs its
    `WebSocket` the same way (it is refused afterwards), so it is a `connect` as well. -/

/-- the part of `App.ws_options` the receive path depends on -/
structure Opts where
  maxQueue : Nat := 4            -- `WebSocketOptions.__init__`
deriving Repr, DecidableEq

inductive AppOp where
  | setQueue (q : Nat)           -- `app.ws_options.max_receive_queue = q`
  | connect (v : Ver)            -- one connection served by `App._handle_websocket` under the announced spec version `v`
deriving Repr, DecidableEq

/-- one operation on the App object: the options afterwards and, for a connection, how its WebSocket is wired -/
def appStep (o : Opts) : AppOp → Opts × Option Wiring
  | .setQueue q => ({ o with maxQueue := q }, none)
  | .connect v => (o, some (wire v o.maxQueue))

/-- the options in force after a history -/
def inForce : Opts → List AppOp → Opts
  | o, [] => o
  | o, op :: r => inForce (appStep o op).1 r

/-- the wirings of the connections of a history, in order -/
def serve : Opts → List AppOp → List Wiring
  | _, [] => []
  | o, op :: r =>
    match (appStep o op).2 with
    | some w => w :: serve (appStep o op).1 r
    | none => serve (appStep o op).1 r

def AppOp.isConnect : AppOp → Bool
  | .connect _ => true
  | _ => false

end Wm

/-! C18 (configuration dimension): the part of falcon/asgi/ws.py `WebSocket.__init__(ver, scope, receive, send, media_handlers,
    max_receive_queue, default_close_reasons)` that decides, from the configuration, which receive path the socket is wired to.

    ```
    self._supports_accept_headers = ver != '2.0'
    self._supports_reason = _supports_reason(ver)            # tuple(map(int, ver.split('.'))) >= (2, 3)
    self._buffered_receiver = _BufferedReceiver(receive, max_receive_queue)
    if max_receive_queue > 0: self._asgi_receive = self._buffered_receiver.receive
    else:                     self._asgi_receive = receive
    ```
    and `_BufferedReceiver.start()` creates the pump task iff `max_queue > 0`.  The announced ASGI spec version feeds the two
    feature flags and nothing else: the receive path (models `Wb` for a queue, `Wu` for the direct path) depends on
    `max_receive_queue` alone.  `App._handle_websocket` passes `ws_options.max_receive_queue` and the scope's spec version through
    unchanged. -/
namespace Wm

/-- `scope['asgi']['spec_version']`: a decimal "major.minor" string in canonical form (no leading zeros) -/
structure Ver where
  major : Nat
  minor : Nat
deriving Repr, DecidableEq

/-- what `self._asgi_receive` is bound to -/
inductive Path where
  | buffered (cap : Nat)   -- `_BufferedReceiver.receive`; `accept()` starts the pump task; the queue takes `cap` events
  | direct                 -- the server's `receive` callable itself; no pump task is ever created
deriving Repr, DecidableEq

structure Wiring where
  path : Path
  acceptHeaders : Bool     -- `_supports_accept_headers` (public: `supports_accept_headers`)
  reason : Bool            -- `_supports_reason`
deriving Repr, DecidableEq

/-- Python tuple comparison `(major, minor) >= (a, b)` -/
def Ver.ge (v : Ver) (a b : Nat) : Bool := decide (v.major > a) || (v.major == a && decide (v.minor ≥ b))

/-- `WebSocket.__init__` -/
def wire (v : Ver) (maxQueue : Nat) : Wiring :=
  { path := if maxQueue > 0 then .buffered maxQueue else .direct,
    acceptHeaders := !(v.major == 2 && v.minor == 0),
    reason := v.ge 2 3 }

end Wm

import FalconModel.WsMode
import FalconModel.WsBufProofs
/-! C18: the receive path is a function of `max_receive_queue` alone; every configured capacity 1.. is honoured exactly, under
    every announced spec version. -/
namespace Wm

/-- the announced spec version has no influence on the receive path -/
theorem path_ignores_version (v v' : Ver) (q : Nat) : (wire v q).path = (wire v' q).path := rfl

/-- a queue is used exactly when one is configured, and its capacity is the configured number -/
theorem buffered_iff (v : Ver) (q cap : Nat) : (wire v q).path = .buffered cap ↔ (q = cap ∧ 0 < cap) := by
  unfold wire
  by_cases h : q > 0
  · simp only [h, if_true, Path.buffered.injEq]
    constructor
    · intro e; subst e; exact ⟨rfl, h⟩
    · intro e; exact e.1
  · simp only [h, if_false]
    constructor
    · intro e; cases e
    · intro e; omega

/-- the direct (unbuffered) path is used exactly for `max_receive_queue = 0` -/
theorem direct_iff (v : Ver) (q : Nat) : (wire v q).path = .direct ↔ q = 0 := by
  unfold wire
  by_cases h : q > 0
  · simp only [h, if_true]
    constructor
    · intro e; cases e
    · intro e; omega
  · simp only [h, if_false, true_iff]; omega

/-- **every configured capacity is honoured under every spec version**: for `max_receive_queue = q > 0` the socket runs the
    buffered receiver `Wb` with `cap = q`, so in every invariant state of that receiver the framework holds at most `q + 1`
    events (`Wb.held_le_capacity_succ`), whatever version the server announced -/
theorem configured_capacity_bound (v : Ver) (q : Nat) (s : Wb.S) (hcap : (wire v q).path = .buffered s.cap)
    (hi : Wb.Inv s) : (Wb.held s).length ≤ q + 1 := by
  have := (buffered_iff v q s.cap).1 hcap
  have hb := Wb.held_le_capacity_succ s hi
  omega

/-- the feature flags at the version boundaries: accept headers from 2.1, close reasons from 2.3 (compared as integer pairs: 2.10 > 2.3) -/
theorem flags_table :
    (wire ⟨2, 0⟩ 4).acceptHeaders = false ∧ (wire ⟨2, 1⟩ 4).acceptHeaders = true ∧ (wire ⟨2, 10⟩ 0).acceptHeaders = true ∧
    (wire ⟨2, 2⟩ 1).reason = false ∧ (wire ⟨2, 3⟩ 1).reason = true ∧ (wire ⟨2, 4⟩ 0).reason = true ∧ (wire ⟨2, 10⟩ 2).reason = true ∧
    (wire ⟨3, 0⟩ 2).reason = true := by decide

example : (wire ⟨2, 4⟩ 2).path = .buffered 2 := rfl
example : (wire ⟨2, 5⟩ 0).path = .direct := rfl

end Wm

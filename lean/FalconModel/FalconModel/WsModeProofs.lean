import FalconModel.WsMode
import FalconModel.WsBufProofs
/-! C18: the receive path is a function of `max_receive_queue` alone; every configured capacity 1.. is honoured exactly, under
    every announced spec version. -/
namespace Wm

/-- the announced spec version has no influence on the receive path -/
theorem path_ignores_version (v v' : Ver) (q : Nat) : (wire v q).path = (wire v' q).path := rfl

/-- a queue is used exactly when one is configured, and its capacity is the configured number -/
theorem buffered_iff (v : Ver) (q cap : Nat) : (wire v q).path = .buffered cap ↔ (q = cap ∧ 0 < cap) := by
  unfold wire
  by_cases h : q > 0
  · simp only [h, if_true, Path.buffered.injEq]
    constructor
    · intro e; subst e; exact ⟨rfl, h⟩
    · intro e; exact e.1
  · simp only [h, if_false]
    constructor
    · intro e; cases e
    · intro e; omega

/-- the direct (unbuffered) path is used exactly for `max_receive_queue = 0` -/
theorem direct_iff (v : Ver) (q : Nat) : (wire v q).path = .direct ↔ q = 0 := by
  unfold wire
  by_cases h : q > 0
  · simp only [h, if_true]
    constructor
    · intro e; cases e
    · intro e; omega
  · simp only [h, if_false, true_iff]; omega

/-- **every configured capacity is honoured under every spec version**: for `max_receive_queue = q > 0` the socket runs the
    buffered receiver `Wb` with `cap = q`, so in every invariant state of that receiver the framework holds at most `q + 1`
    events (`Wb.held_le_capacity_succ`), whatever version the server announced -/
theorem configured_capacity_bound (v : Ver) (q : Nat) (s : Wb.S) (hcap : (wire v q).path = .buffered s.cap)
    (hi : Wb.Inv s) : (Wb.held s).length ≤ q + 1 := by
  have := (buffered_iff v q s.cap).1 hcap
  have hb := Wb.held_le_capacity_succ s hi
  omega

/-- the feature flags at the version boundaries: accept headers from 2.1, close reasons from 2.3 (compared as integer pairs: 2.10 > 2.3) -/
theorem flags_table :
    (wire ⟨2, 0⟩ 4).acceptHeaders = false ∧ (wire ⟨2, 1⟩ 4).acceptHeaders = true ∧ (wire ⟨2, 10⟩ 0).acceptHeaders = true ∧
    (wire ⟨2, 2⟩ 1).reason = false ∧ (wire ⟨2, 3⟩ 1).reason = true ∧ (wire ⟨2, 4⟩ 0).reason = true ∧ (wire ⟨2, 10⟩ 2).reason = true ∧
    (wire ⟨3, 0⟩ 2).reason = true := by decide

example : (wire ⟨2, 4⟩ 2).path = .buffered 2 := rfl
example : (wire ⟨2, 5⟩ 0).path = .direct := rfl


/-! ### histories of connections on one App object: every connection is wired by the options in force when it is made -/

theorem serve_append (o : Opts) (h t : List AppOp) : serve o (h ++ t) = serve o h ++ serve (inForce o h) t := by
  induction h generalizing o with
  | nil => rfl
  | cons op r ih =>
    cases op with
    | setQueue q => simp only [List.cons_append, serve, appStep, inForce]; exact ih _
    | connect v => simp only [List.cons_append, serve, appStep, inForce, List.cons.injEq, true_and]; exact ih _

theorem inForce_append (o : Opts) (h t : List AppOp) : inForce o (h ++ t) = inForce (inForce o h) t := by
  induction h generalizing o with
  | nil => rfl
  | cons op r ih => simp only [List.cons_append, inForce]; exact ih _

/-- connections do not change the options -/
theorem inForce_connects (o : Opts) (cs : List AppOp) (hc : ∀ op ∈ cs, op.isConnect = true) : inForce o cs = o := by
  induction cs generalizing o with
  | nil => rfl
  | cons op r ih =>
    have h1 : op.isConnect = true := hc op (List.mem_cons_self ..)
    have h2 : ∀ x ∈ r, x.isConnect = true := fun x hx => hc x (List.mem_cons_of_mem _ hx)
    cases op with
    | setQueue q => simp [AppOp.isConnect] at h1
    | connect v => simp only [inForce, appStep]; exact ih _ h2

/-- **each connection is wired by the options in force when it is made** -/
theorem connection_wiring (o : Opts) (h : List AppOp) (v : Ver) :
    serve o (h ++ [.connect v]) = serve o h ++ [wire v (inForce o h).maxQueue] := by
  rw [serve_append]; rfl

/-- whatever the App object served before, after `ws_options.max_receive_queue = q` every later connection (any number of other connections in between, any
    announced version) is wired exactly as a WebSocket constructed with `q` -/
theorem reconfigured_capacity_honoured (o : Opts) (h cs : List AppOp) (q : Nat) (v : Ver) (hc : ∀ op ∈ cs, op.isConnect = true) :
    (serve o (h ++ [.setQueue q] ++ cs ++ [.connect v])).getLast? = some (wire v q) := by
  rw [connection_wiring, inForce_append, inForce_append, inForce_connects _ cs hc]
  simp [inForce, appStep]

/-- … hence it runs the buffered receiver of capacity `q` (holding at most `q + 1` events in every invariant state) if `q > 0`, and the direct path if `q = 0` -/
theorem reconfigured_path (o : Opts) (h cs : List AppOp) (q : Nat) (v : Ver) (hc : ∀ op ∈ cs, op.isConnect = true) :
    ∃ w, (serve o (h ++ [.setQueue q] ++ cs ++ [.connect v])).getLast? = some w ∧
      (0 < q → w.path = .buffered q) ∧ (q = 0 → w.path = .direct) := by
  refine ⟨wire v q, reconfigured_capacity_honoured o h cs q v hc, ?_, ?_⟩
  · intro hq; exact (buffered_iff v q q).2 ⟨rfl, hq⟩
  · intro hq; exact (direct_iff v q).2 hq

/-- a new App object that was never configured serves its connections with a queue of 4 -/
theorem fresh_app_default (cs : List AppOp) (v : Ver) (hc : ∀ op ∈ cs, op.isConnect = true) :
    (serve {} (cs ++ [.connect v])).getLast? = some (wire v 4) := by
  rw [connection_wiring, inForce_connects _ cs hc]; simp

/-- one connection per `connect` in the history -/
theorem serve_length (o : Opts) (h : List AppOp) : (serve o h).length = (h.filter AppOp.isConnect).length := by
  induction h generalizing o with
  | nil => rfl
  | cons op r ih =>
    cases op with
    | setQueue q => simp only [serve, appStep, List.filter, AppOp.isConnect]; exact ih _
    | connect v => simp only [serve, appStep, List.filter, AppOp.isConnect, List.length_cons]; rw [ih]

example : serve {} [.connect ⟨2, 3⟩, .setQueue 1, .connect ⟨2, 0⟩, .setQueue 0, .connect ⟨2, 4⟩]
    = [wire ⟨2, 3⟩ 4, wire ⟨2, 0⟩ 1, wire ⟨2, 4⟩ 0] := by decide

end Wm

import FalconModel.Ws
import FalconModel.Json
/-! C17, last clause ("text/binary/media payloads arrive unchanged in order"): a payload-carrying refinement of the
    session model `Ws`.

    `Ws` abstracts every message to its kind.  Here the events handed to the server's `send` carry the payload under the
    key falcon/asgi/ws.py puts it in (`'text'` or `'bytes'`), the client script is a list of `websocket.receive` events
    with the two dict keys `'text'` / `'bytes'` each *absent*, *present with value `None`*, or *present with a value*,
    followed (possibly) by a `websocket.disconnect`, and `receive_text` / `receive_data` / `receive_media` return values.

    * text payloads are `List Char` (a Python `str` of Unicode scalar values), binary payloads `List UInt8`
      (`bytes(payload)` in `send_data` is the identity on them).
    * the media handlers (`ws_options.media_handlers[TEXT]` / `[BINARY]`, looked up once in `WebSocket.__init__`) are
      abstract functions `Handlers D` over an arbitrary document type `D`; `serialize` and `deserialize` may raise.
    * everything else (`_send` with the server-error translation, `_require_accepted`, `accept`, `close`,
      `_handle_websocket`, the error handlers, middleware) is transcribed exactly as in `Ws`; `Wp.project_to_Ws`
      (WsPayloadProofs.lean) shows that forgetting the payloads maps every step of this model to the step of `Ws`. -/
namespace Wp
open Ws (S Exc Fault CodeArg Catch RecvKind wsd wsdCode)

abbrev Text := List Char
abbrev Bytes := List UInt8

/-- a key of an ASGI event dict: absent, present with value `None`, present with a value -/
inductive Key (α : Type) where
  | absent | null | val (a : α)
deriving DecidableEq, Repr

/-- `try: x = event[k] except KeyError: x = None` and `event.get(k)`: an absent key and a `None` value both read as `None` -/
def Key.get {α : Type} : Key α → Option α
  | .val a => some a
  | _ => none

/-- what the server's `receive` returns -/
inductive InEv where
  | receive (text : Key Text) (bytes : Key Bytes)   -- {'type': 'websocket.receive', 'text': …, 'bytes': …}
  | disconnect (code : Option Int)                  -- {'type': 'websocket.disconnect'[, 'code': c]}
deriving DecidableEq, Repr

/-- what the app hands to the server's `send` -/
inductive Ev where
  | accept (headers : Bool) (subprotocol : Bool)
  | sendText (p : Text)                             -- {'type': 'websocket.send', 'text': p}
  | sendBytes (p : Bytes)                           -- {'type': 'websocket.send', 'bytes': p}
  | close (code : Int) (reason : Bool)
deriving DecidableEq, Repr

/-- `falcon.WebSocketPayloadType`; `send_media` tests `payload_type is WebSocketPayloadType.TEXT`, anything else is binary -/
inductive PType where | text | binary
deriving DecidableEq, Repr

/-- the two media handlers of `ws_options.media_handlers`, as `WebSocket.__init__` binds them
    (`_mh_text_serialize`, `_mh_text_deserialize`, `_mh_bin_serialize`, `_mh_bin_deserialize`) -/
structure Handlers (D : Type) where
  textSer : D → Except Exc Text
  textDe : Text → Except Exc D
  binSer : D → Except Exc Bytes
  binDe : Bytes → Except Exc D

/-- what a `receive_*` call returns -/
inductive Val (D : Type) where
  | text (s : Text) | data (b : Bytes) | media (d : D)
deriving DecidableEq, Repr

/-- outcome of one operation: the exception raised, or the value returned (`none` = the method returns `None`) -/
abbrev Out (D : Type) := Except Exc (Option (Val D))

structure W where
  st : S := .handshake
  closeCode : Option Int := none
  supHeaders : Bool
  supReason : Bool
  reasonCodes : List Int
  errCloseCode : Int
  sent : List (Ev × Bool) := []     -- every call of `send`, with whether it returned normally
  failAt : Option Nat
  fault : Fault := .os none
  faultIcc : Bool := false          -- the server's exception says 'invalid close code'
  refused : List Int := []          -- close codes the server's policy refuses
  buffered : Bool := false
  pumpStopped : Bool := false
  inbox : List InEv
deriving Repr

/-- the server refuses this event on account of its close-code policy -/
def W.refuses (w : W) : Ev → Bool
  | .close c _ => w.refused.contains c
  | _ => false

/-- the server's `send` -/
def W.asgiSend (w : W) (e : Ev) : W × Bool :=
  let fails := w.failAt == some w.sent.length || w.refuses e
  ({ w with sent := w.sent ++ [(e, !fails)] }, !fails)

def W.isClosed (w : W) (disc : Option Int) : Bool := w.st == .closed || disc.isSome

/-- `WebSocket._send` -/
def W.send_ (w : W) (disc : Option Int) (e : Ev) : W × Option Exc :=
  let w := match disc with
    | some code => { w with st := .closed, closeCode := some code }
    | none => w
  if w.st == .closed then (w, some (wsd w.closeCode)) else
  let (w, ok) := w.asgiSend e
  if ok then (w, none)
  else match w.fault with     -- `_translate_webserver_error`
    | .os cause => ({ w with st := .closed, closeCode := some (wsdCode cause) }, some (wsd cause))
    | .ok1000 => ({ w with st := .closed, closeCode := some 1000 }, some (wsd (some 1000)))
    | .subproto => ({ w with st := .closed }, some .valueOther)
    | .value => (w, some (Fault.raw .value w.faultIcc))
    | .other => (w, some .pyErr)

def W.requireAccepted (w : W) : Option Exc :=
  match w.st with
  | .handshake => some .notAllowed
  | .closed => some (wsd w.closeCode)
  | .accepted => none

/-- `accept(subprotocol, headers)` -/
def W.accept (w : W) (disc : Option Int) (headers : Bool) (sub : Bool) (badSub : Bool) (hdrExc : Option Exc) : W × Option Exc :=
  if w.isClosed disc then (w, some .notAllowed) else
  if w.st != .handshake then (w, some .notAllowed) else
  if badSub then (w, some .valueOther) else
  if headers && !w.supHeaders then (w, some .notAllowed) else
  if headers && hdrExc.isSome then (w, hdrExc) else
  match w.send_ disc (.accept headers sub) with
  | (w, none) => ({ w with st := .accepted }, none)
  | r => r

def W.stopPump (w : W) : W := if w.buffered && w.st == .accepted then { w with pumpStopped := true } else w

/-- `close(code, reason)` -/
def W.close (w : W) (disc : Option Int) (arg : CodeArg) (reason : Bool) : W × Option Exc :=
  let w := w.stopPump
  match arg with
  | .notInt => (w, some .valueOther)
  | .int c =>
    if c < 1000 then (w, some .invalidCloseCode)
    else if (1015 ≤ c && c ≤ 1999) || (1004 ≤ c && c ≤ 1006) then (w, some .invalidCloseCode)
    else go w c
  | .none => go w 1000
where
  go (w : W) (code : Int) : W × Option Exc :=
    if w.isClosed disc then
      (if w.st == .closed then w else { w with st := .closed, closeCode := disc }, none)
    else
    let (w, ok) := w.asgiSend (.close code ((reason || w.reasonCodes.contains code) && w.supReason))
    if ok then ({ w with st := .closed, closeCode := some code }, none) else (w, some (w.fault.raw w.faultIcc))

/-- `send_text(payload)`: `_require_accepted()`, then `_send({'type': 'websocket.send', 'text': payload})` -/
def W.sendText (w : W) (disc : Option Int) (p : Text) : W × Option Exc :=
  match w.requireAccepted with
  | some e => (w, some e)
  | none => w.send_ disc (.sendText p)

/-- `send_data(payload)`: `_require_accepted()`, then `_send({'type': 'websocket.send', 'bytes': bytes(payload)})` -/
def W.sendData (w : W) (disc : Option Int) (p : Bytes) : W × Option Exc :=
  match w.requireAccepted with
  | some e => (w, some e)
  | none => w.send_ disc (.sendBytes p)

/-- `send_media(media, payload_type)`: `_require_accepted()`; the event dict is built first, so the handler's `serialize`
    runs (and may raise) before `_send` looks at the disconnect flag; its result goes under `'text'` for
    `WebSocketPayloadType.TEXT` and under `'bytes'` otherwise -/
def W.sendMedia {D : Type} (h : Handlers D) (w : W) (disc : Option Int) (d : D) (ty : PType) : W × Option Exc :=
  match w.requireAccepted with
  | some e => (w, some e)
  | none =>
    match ty with
    | .text =>
      match h.textSer d with
      | .error e => (w, some e)
      | .ok s => w.send_ disc (.sendText s)
    | .binary =>
      match h.binSer d with
      | .error e => (w, some e)
      | .ok b => w.send_ disc (.sendBytes b)

/-- `WebSocket._receive`: the next event of the client script (`[]` = the server's `receive` raised); an event whose type
    is not `websocket.receive` is the disconnect: state CLOSED, `_close_code = event.get('code', 1000)`,
    `WebSocketDisconnected` -/
def W.receive_ (w : W) : W × Except Exc (Key Text × Key Bytes) :=
  match w.inbox with
  | [] => (w, .error .pyErr)
  | .disconnect code :: rest =>
    let c := code.getD 1000
    ({ w with inbox := rest, st := .closed, closeCode := some c }, .error (wsd (some c)))
  | .receive t b :: rest => ({ w with inbox := rest }, .ok (t, b))

/-- the value a `receive_*` method computes from the event `_receive` returned:
    * `receive_text`: `event['text']` (KeyError → None); `None` → PayloadTypeError, else the text itself
    * `receive_data`: the same with `'bytes'`
    * `receive_media`: `event.get('text')` not None → the TEXT handler's `deserialize`; else `event['bytes']`
      (KeyError → None): `None` → PayloadTypeError, else the BINARY handler's `deserialize` -/
def decode {D : Type} (h : Handlers D) (k : RecvKind) (t : Key Text) (b : Key Bytes) : Except Exc (Val D) :=
  match k with
  | .text => match t.get with
    | some s => .ok (.text s)
    | none => .error .payloadType
  | .data => match b.get with
    | some p => .ok (.data p)
    | none => .error .payloadType
  | .media => match t.get with
    | some s => match h.textDe s with
      | .ok d => .ok (.media d)
      | .error e => .error e
    | none => match b.get with
      | some p => match h.binDe p with
        | .ok d => .ok (.media d)
        | .error e => .error e
      | none => .error .payloadType

/-- `receive_text()` / `receive_data()` / `receive_media()` -/
def W.recv {D : Type} (h : Handlers D) (w : W) (k : RecvKind) : W × Except Exc (Val D) :=
  match w.requireAccepted with
  | some e => (w, .error e)
  | none =>
    if w.pumpStopped then (w, .error .assertion) else     -- `assert self._pump_task is not None`
    match w.receive_ with
    | (w, .error e) => (w, .error e)
    | (w, .ok (t, b)) => (w, decode h k t b)

/-- a `receive_*()` that parks (no event available) and is cancelled there: see `Ws.W.recvAbandoned` -/
def W.recvAbandoned (w : W) (_k : RecvKind) : W × Option Exc :=
  match w.requireAccepted with
  | some e => (w, some e)
  | none => if w.pumpStopped then (w, some .assertion) else (w, none)

/-- one step of a responder / middleware / error-handler script -/
inductive Op (D : Type) where
  | accept (headers : Bool) (sub : Bool) (badSub : Bool) (hdrExc : Option Exc) | close (arg : CodeArg) (reason : Bool)
  | sendText (p : Text) | sendData (p : Bytes) | sendMedia (d : D) (ty : PType)
  | recv (k : RecvKind) | recvAbandoned (k : RecvKind)
  | raiseHttp (status : Int) | raiseStatus (status : Int) | raiseExc | raiseBoom
  | raiseOf (e : Exc)     -- an exception of a framework class raised by the script itself / by an operation on another connection

def outOf {D : Type} : Option Exc → Out D
  | none => .ok none
  | some e => .error e

def W.op {D : Type} (h : Handlers D) (w : W) (disc : Option Int) : Op D → W × Out D
  | .accept hd s b he => let r := w.accept disc hd s b he; (r.1, outOf r.2)
  | .close a r => let r := w.close disc a r; (r.1, outOf r.2)
  | .sendText p => let r := w.sendText disc p; (r.1, outOf r.2)
  | .sendData p => let r := w.sendData disc p; (r.1, outOf r.2)
  | .sendMedia d ty => let r := w.sendMedia h disc d ty; (r.1, outOf r.2)
  | .recv k => let r := w.recv h k; (r.1, r.2.map some)
  | .recvAbandoned k => let r := w.recvAbandoned k; (r.1, outOf r.2)
  | .raiseHttp s => (w, .error (.httpError s))
  | .raiseStatus s => (w, .error (.httpStatus s))
  | .raiseExc => (w, .error .pyErr)
  | .raiseBoom => (w, .error .boom)
  | .raiseOf e => (w, .error e)

abbrev Step (D : Type) := Op D × Catch × Option Int

/-- run a script; returns the per-op log and the exception that escaped it, if any -/
def runScript {D : Type} (h : Handlers D) (w : W) : List (Step D) → List (Out D) → W × List (Out D) × Option Exc
  | [], log => (w, log, none)
  | (o, catches, d) :: rest, log =>
    match w.op h d o with
    | (w, .ok v) => runScript h w rest (log ++ [.ok v])
    | (w, .error e) => if catches.catches e then runScript h w rest (log ++ [.error e]) else (w, log ++ [.error e], some e)

/-- `'invalid close code' in str(ex).lower()` (see `Ws.closeSaysInvalidCode`) -/
def closeSaysInvalidCode (w w1 : W) (e : Exc) : Bool :=
  e == .invalidCloseCode || (w1.sent.length != w.sent.length && w.faultIcc)

/-- `_ws_cleanup_on_error` -/
def cleanup (w : W) (fd : Option Int) : W × Option Exc :=
  match w.close fd (.int w.errCloseCode) false with
  | (w1, none) => (w1, none)
  | (w1, some e) => if closeSaysInvalidCode w w1 e then w1.close fd (.int 3011) false else (w1, some e)

structure Cfg (D : Type) where
  custom : Option (List (Step D)) := none
  fd : Option Int := none

/-- `_handle_exception` -/
def handleException {D : Type} (h : Handlers D) (c : Cfg D) (w : W) : Exc → W × List (Out D) × Option Exc
  | .httpError s => let (w, e) := w.close c.fd (.int (s + 3000)) false; (w, [], e)
  | .httpStatus s => let (w, e) := w.close c.fd (.int (s + 3000)) false; (w, [], e)
  | .boom =>
    match c.custom with
    | none => let (w, e) := cleanup w c.fd; (w, [], e)
    | some hs =>
      match runScript h w hs [] with
      | (w, hlog, none) => (w, hlog, none)
      | (w, hlog, some (.httpError s)) => let (w, e) := w.close c.fd (.int (s + 3000)) false; (w, hlog, e)
      | (w, hlog, some (.httpStatus s)) => let (w, e) := w.close c.fd (.int (s + 3000)) false; (w, hlog, e)
      | (w, hlog, some e) => (w, hlog, some e)
  | _ => let (w, e) := cleanup w c.fd; (w, [], e)

structure Res (D : Type) where
  w : W
  log : List (Out D)
  hlog : List (Out D) := []
  esc : Option Exc

/-- `_handle_websocket` after the connect event -/
def handle {D : Type} (h : Handlers D) (c : Cfg D) (w : W) (script : Option (List (Step D))) : Res D :=
  match script with
  | none => let (w, hl, e) := handleException h c w (.httpError 404); ⟨w, [], hl, e⟩
  | some sc =>
    match runScript h w sc [] with
    | (w, log, none) =>
      match w.close c.fd .none false with
      | (w, none) => ⟨w, log, [], none⟩
      | (w, some e) => let (w, hl, e') := handleException h c w e; ⟨w, log, hl, e'⟩
    | (w, log, some e) => let (w, hl, e') := handleException h c w e; ⟨w, log, hl, e'⟩

inductive Route (D : Type) where
  | unrouted
  | noResponder
  | responder (sc : List (Step D))

/-- `_handle_websocket` with `process_request_ws` / `process_resource_ws` middleware scripts -/
def handleMw {D : Type} (h : Handlers D) (c : Cfg D) (w : W) (mwReq mwRes : List (Step D)) (r : Route D) : Res D :=
  match r with
  | .responder sc => handle h c w (some (mwReq ++ mwRes ++ sc))
  | .unrouted =>
    let r := handle h c w (some (mwReq ++ [(.raiseHttp 404, .none, none)]))
    if r.log.length > mwReq.length then { r with log := r.log.dropLast } else r
  | .noResponder =>
    let r := handle h c w (some (mwReq ++ mwRes ++ [(.raiseHttp 405, .none, none)]))
    if r.log.length > mwReq.length + mwRes.length then { r with log := r.log.dropLast } else r

/-- the first event is not `websocket.connect` -/
def rejectFirst (w : W) : W := (w.asgiSend (.close 1011 w.supReason)).1

/-! ### forgetting the payloads: the map to the kind-level model `Ws` -/

def projEv : Ev → Ws.Ev
  | .accept hd s => .accept hd s
  | .sendText _ => .send .text
  | .sendBytes _ => .send .bytes
  | .close c r => .close c r

/-- the kind of a client event as `Ws` sees it: a text message (with whether the TEXT handler can deserialize it) or a
    binary message -/
def projIn {D : Type} (h : Handlers D) : InEv → Ws.InEv
  | .receive t _ =>
    match t.get with
    | some s => .text (match h.textDe s with | .ok _ => true | .error _ => false)
    | none => .bytes
  | .disconnect c => .disconnect c

def proj {D : Type} (h : Handlers D) (binOk : Bool) (w : W) : Ws.W :=
  { st := w.st, closeCode := w.closeCode, supHeaders := w.supHeaders, supReason := w.supReason,
    reasonCodes := w.reasonCodes, errCloseCode := w.errCloseCode, binMediaOk := binOk,
    sent := w.sent.map (fun x => (projEv x.1, x.2)), failAt := w.failAt, fault := w.fault, faultIcc := w.faultIcc, refused := w.refused,
    buffered := w.buffered, pumpStopped := w.pumpStopped, inbox := w.inbox.map (projIn h) }

def projOp {D : Type} : Op D → Ws.Op
  | .accept hd s b he => .accept hd s b he
  | .close a r => .close a r
  | .sendText _ => .send .text
  | .sendData _ => .send .bytes
  | .sendMedia _ .text => .send .text
  | .sendMedia _ .binary => .send .bytes
  | .recv k => .recv k
  | .recvAbandoned k => .recvAbandoned k
  | .raiseHttp s => .raiseHttp s
  | .raiseStatus s => .raiseStatus s
  | .raiseExc => .raiseExc
  | .raiseBoom => .raiseBoom
  | .raiseOf e => .raiseOf e

def projOut {D : Type} : Out D → Option Exc
  | .ok _ => none
  | .error e => some e

def projStep {D : Type} (s : Step D) : Ws.Step := (projOp s.1, s.2.1, s.2.2)

def projCfg {D : Type} (c : Cfg D) : Ws.Cfg := { custom := c.custom.map (·.map projStep), fd := c.fd }

def projRoute {D : Type} : Route D → Ws.Route
  | .unrouted => .unrouted
  | .noResponder => .noResponder
  | .responder sc => .responder (sc.map projStep)

/-- a `websocket.receive` event as the ASGI spec defines it: exactly one of `text` / `bytes` is not `None` -/
def InEv.wf : InEv → Bool
  | .receive t b => t.get.isSome != b.get.isSome
  | .disconnect _ => true

/-- the handlers the kind-level model assumes: `serialize` (of the documents a script sends) does not raise — see `OpOk` —,
    the TEXT handler's `deserialize` raises nothing but a `ValueError` (`json.loads`), the BINARY handler's `deserialize`
    either never raises (`binOk`) or always raises (`MissingDependencyHandler`: RuntimeError) -/
structure Stock {D : Type} (h : Handlers D) (binOk : Bool) : Prop where
  textErr : ∀ s e, h.textDe s = .error e → e = .valueOther
  binTotal : binOk = true → ∀ p, ∃ d, h.binDe p = .ok d
  binMissing : binOk = false → ∀ p, h.binDe p = .error .pyErr

/-- the documents a step serializes are serializable -/
def OpOk {D : Type} (h : Handlers D) : Op D → Prop
  | .sendMedia d .text => ∃ s, h.textSer d = .ok s
  | .sendMedia d .binary => ∃ b, h.binSer d = .ok b
  | _ => True

/-! ### the handlers the correspondence runs with (and the instance for `media_roundtrip`)

    TEXT: the stock `falcon.media.JSONHandlerWS` (`json.dumps(media, ensure_ascii=False)` / `json.loads(payload)`, the C12
    model `Js`).  BINARY: msgpack is not installed in the sandbox, so the stock handler is `MissingDependencyHandler` (both
    methods raise RuntimeError); the harness also installs a msgpack-like stub: magic `00 4A` + the UTF-8 JSON text. -/

/-- a document of the harness: a JSON document, or `none` = an object `json.dumps` rejects (TypeError) -/
abbrev JDoc := Option Js.Doc

def jsonTextSer : JDoc → Except Exc Text
  | some d => .ok (Js.dumps d)
  | none => .error .pyErr

def jsonTextDe (s : Text) : Except Exc JDoc :=
  match Js.loads s with
  | some d => .ok (some d)
  | none => .error .valueOther            -- json.JSONDecodeError is a ValueError

def stubBinSer : JDoc → Except Exc Bytes
  | some d => .ok (0x00 :: 0x4A :: (Js.dumpsBytes d).data.toList)
  | none => .error .pyErr

def stubBinDe : Bytes → Except Exc JDoc
  | 0x00 :: 0x4A :: r =>
    match Js.loadsBytes ⟨r.toArray⟩ with
    | some d => .ok (some d)
    | none => .error .valueOther          -- UnicodeDecodeError / JSONDecodeError
  | _ => .error .valueOther               -- ValueError('bad magic')

/-- `binStub = false`: `MissingDependencyHandler` -/
def harnessHandlers (binStub : Bool) : Handlers JDoc :=
  { textSer := jsonTextSer, textDe := jsonTextDe,
    binSer := if binStub then stubBinSer else fun _ => .error .pyErr,
    binDe := if binStub then stubBinDe else fun _ => .error .pyErr }

end Wp

import FalconModel.WsPayload
import FalconModel.WsProofs
import FalconModel.WsBufProofs
import FalconModel.JsonProofs
/-! C17, last clause: "text/binary/media payloads arrive unchanged in order" as theorems about the payload-carrying session
    model `Wp` (WsPayload.lean), and the refinement `project_to_Ws` that makes the 57 kind-level theorems of `WsProofs`
    statements about the same sessions. -/
namespace Wp
open Ws (S Exc Fault CodeArg Catch RecvKind wsd wsdCode)

variable {D : Type}

/-! ### the send side -/

/-- an outgoing message as the application submits it -/
inductive Msg (D : Type) where
  | text (p : Text) | data (p : Bytes) | media (d : D) (ty : PType)

/-- the call the application makes: `send_text(p)`, `send_data(p)`, `send_media(d, ty)` -/
def Msg.op : Msg D → Op D
  | .text p => .sendText p
  | .data p => .sendData p
  | .media d ty => .sendMedia d ty

/-- the `websocket.send` event that must reach the server: the text verbatim under `'text'`, the bytes verbatim under
    `'bytes'`, a document as serialized by the handler of its payload type under the key of that type -/
def wire (h : Handlers D) : Msg D → Except Exc Ev
  | .text p => .ok (.sendText p)
  | .data p => .ok (.sendBytes p)
  | .media d .text => match h.textSer d with | .ok s => .ok (.sendText s) | .error e => .error e
  | .media d .binary => match h.binSer d with | .ok b => .ok (.sendBytes b) | .error e => .error e

theorem send_ok (w : W) (e : Ev) (hst : w.st = .accepted) (hf : w.failAt = none) (hr : w.refuses e = false) :
    w.send_ none e = ({ w with sent := w.sent ++ [(e, true)] }, none) := by
  simp [W.send_, W.asgiSend, hst, hf, hr]

/-- one send on an accepted, connected socket with a working server `send`: exactly the wire event, once -/
theorem msg_op_exact (h : Handlers D) (w : W) (m : Msg D) (e : Ev) (hst : w.st = .accepted) (hf : w.failAt = none)
    (hw : wire h m = .ok e) :
    w.op h none m.op = ({ w with sent := w.sent ++ [(e, true)] }, .ok none) := by
  cases m with
  | text p =>
    simp only [wire, Except.ok.injEq] at hw; subst hw
    simp [Msg.op, W.op, W.sendText, W.requireAccepted, hst, send_ok w (.sendText p) hst hf rfl, outOf]
  | data p =>
    simp only [wire, Except.ok.injEq] at hw; subst hw
    simp [Msg.op, W.op, W.sendData, W.requireAccepted, hst, send_ok w (.sendBytes p) hst hf rfl, outOf]
  | media d ty =>
    cases ty with
    | text =>
      simp only [wire] at hw
      cases hs : h.textSer d with
      | error x => simp [hs] at hw
      | ok s =>
        simp only [hs, Except.ok.injEq] at hw; subst hw
        simp [Msg.op, W.op, W.sendMedia, W.requireAccepted, hst, hs, send_ok w (.sendText s) hst hf rfl, outOf]
    | binary =>
      simp only [wire] at hw
      cases hs : h.binSer d with
      | error x => simp [hs] at hw
      | ok s =>
        simp only [hs, Except.ok.injEq] at hw; subst hw
        simp [Msg.op, W.op, W.sendMedia, W.requireAccepted, hst, hs, send_ok w (.sendBytes s) hst hf rfl, outOf]

/-- a `serialize` that raises: the handler's exception reaches the caller, nothing is handed to the server and the socket is
    unchanged — whatever the disconnect flag says (the event dict is built before `_send` runs) -/
theorem send_media_serialize_error (h : Handlers D) (w : W) (disc : Option Int) (m : Msg D) (e : Exc)
    (hst : w.st = .accepted) (hw : wire h m = .error e) :
    w.op h disc m.op = (w, .error e) := by
  cases m with
  | text p => simp [wire] at hw
  | data p => simp [wire] at hw
  | media d ty =>
    cases ty with
    | text =>
      simp only [wire] at hw
      cases hs : h.textSer d with
      | ok s => simp [hs] at hw
      | error x =>
        simp only [hs, Except.error.injEq] at hw; subst hw
        simp [Msg.op, W.op, W.sendMedia, W.requireAccepted, hst, hs, outOf]
    | binary =>
      simp only [wire] at hw
      cases hs : h.binSer d with
      | ok s => simp [hs] at hw
      | error x =>
        simp only [hs, Except.error.injEq] at hw; subst hw
        simp [Msg.op, W.op, W.sendMedia, W.requireAccepted, hst, hs, outOf]

/-- what a script of sends hands to the server: the wire event of every message whose serialization succeeds -/
def sentBy (h : Handlers D) (ms : List (Msg D × Catch)) : List (Ev × Bool) :=
  ms.filterMap fun m => match wire h m.1 with | .ok e => some (e, true) | .error _ => none

def sendLog (h : Handlers D) (ms : List (Msg D × Catch)) : List (Out D) :=
  ms.map fun m => match wire h m.1 with | .ok _ => .ok none | .error e => .error e

def sendSteps (ms : List (Msg D × Catch)) : List (Step D) := ms.map fun m => (m.1.op, m.2, none)

/-- every script of sends (a `serialize` that raises is caught by the script): the server receives exactly the wire events of
    the serializable messages, in order, each once -/
theorem send_script_exact (h : Handlers D) (ms : List (Msg D × Catch)) :
    ∀ (w : W) (log : List (Out D)), w.st = .accepted → w.failAt = none →
    (∀ m ∈ ms, ∀ e, wire h m.1 = .error e → m.2.catches e = true) →
    (runScript h w (sendSteps ms) log).1.sent = w.sent ++ sentBy h ms
    ∧ (runScript h w (sendSteps ms) log).2.1 = log ++ sendLog h ms
    ∧ (runScript h w (sendSteps ms) log).2.2 = none
    ∧ (runScript h w (sendSteps ms) log).1.st = .accepted
    ∧ (runScript h w (sendSteps ms) log).1.inbox = w.inbox := by
  induction ms with
  | nil => intro w log hst _ _; simp [sendSteps, runScript, sentBy, sendLog, hst]
  | cons m rest ih =>
    intro w log hst hf hc
    have hc' : ∀ m ∈ rest, ∀ e, wire h m.1 = .error e → m.2.catches e = true :=
      fun m' hm' => hc m' (List.mem_cons_of_mem _ hm')
    cases hw : wire h m.1 with
    | ok e =>
      have h1 := msg_op_exact h w m.1 e hst hf hw
      have := ih { w with sent := w.sent ++ [(e, true)] } (log ++ [.ok none]) hst hf hc'
      simp only [sendSteps, List.map_cons, runScript, h1] at this ⊢
      simp only [sentBy, sendLog, List.filterMap_cons, List.map_cons, hw] at this ⊢
      simpa [List.append_assoc] using this
    | error e =>
      have h1 := send_media_serialize_error h w none m.1 e hst hw
      have hcat := hc m (List.mem_cons_self ..) e hw
      have := ih w (log ++ [.error e]) hst hf hc'
      simp only [sendSteps, List.map_cons, runScript, h1, hcat, if_true] at this ⊢
      simp only [sentBy, sendLog, List.filterMap_cons, List.map_cons, hw] at this ⊢
      simpa [List.append_assoc] using this

theorem sentBy_of_wire (h : Handlers D) (ms : List (Msg D × Catch × Ev)) (hw : ∀ x ∈ ms, wire h x.1 = .ok x.2.2) :
    sentBy h (ms.map fun x => (x.1, x.2.1)) = ms.map (fun x => (x.2.2, true))
    ∧ sendLog h (ms.map fun x => (x.1, x.2.1)) = ms.map (fun _ => .ok none) := by
  induction ms with
  | nil => exact ⟨rfl, rfl⟩
  | cons x rest ih =>
    have hd := hw x (List.mem_cons_self ..)
    have ih := ih (fun y hy => hw y (List.mem_cons_of_mem _ hy))
    simp only [sentBy, sendLog, List.filterMap_cons, List.map_cons, hd] at ih ⊢
    exact ⟨by rw [ih.1], by rw [ih.2]⟩

/-- **C17 `sent_payloads_in_order_unchanged`**: for every responder script of `send_text` / `send_data` / `send_media` calls
    (any per-call catch behaviour) on an accepted, connected socket with a working server `send`, each message `x.1` listed with
    its wire form `x.2.2` (`wire`: the text verbatim under `'text'`, the bytes verbatim under `'bytes'`, a document serialized by
    the handler of its payload type under that type's key): the calls of the server's `send` added by the script are exactly
    those events, in order, each once and each successful; every call returns `None`, nothing escapes, the socket stays
    ACCEPTED. -/
theorem sent_payloads_in_order_unchanged (h : Handlers D) (ms : List (Msg D × Catch × Ev)) (w : W)
    (log : List (Out D)) (hst : w.st = .accepted) (hf : w.failAt = none)
    (hw : ∀ x ∈ ms, wire h x.1 = .ok x.2.2) :
    let r := runScript h w (ms.map fun x => (x.1.op, x.2.1, none)) log
    r.1.sent = w.sent ++ ms.map (fun x => (x.2.2, true))
    ∧ r.2.1 = log ++ ms.map (fun _ => .ok none)
    ∧ r.2.2 = none
    ∧ r.1.st = .accepted := by
  have hc : ∀ m ∈ (ms.map fun x => (x.1, x.2.1)), ∀ e, wire h m.1 = .error e → m.2.catches e = true := by
    intro m hm e he
    obtain ⟨x, hx, rfl⟩ := List.mem_map.mp hm
    rw [hw x hx] at he; cases he
  obtain ⟨h1, h2, h3, h4, _⟩ := send_script_exact h (ms.map fun x => (x.1, x.2.1)) w log hst hf hc
  obtain ⟨e1, e2⟩ := sentBy_of_wire h ms hw
  have hs : sendSteps (ms.map fun x => (x.1, x.2.1)) = ms.map fun x => (x.1.op, x.2.1, none) := by
    simp [sendSteps, List.map_map, Function.comp_def]
  rw [hs] at h1 h2 h3 h4
  exact ⟨by rw [h1, e1], by rw [h2, e2], h3, h4⟩

/-- the hypotheses of `sent_payloads_in_order_unchanged` are satisfiable by a non-trivial script: a text, a binary message
    with a zero and a 0xFF byte, and two documents through the JSON TEXT handler and the BINARY stub -/
example : ∀ x ∈ [((Msg.text ['h', 'é'] : Msg JDoc), Catch.none, Ev.sendText ['h', 'é']),
                 (.data [0xff, 0x00], .all, .sendBytes [0xff, 0x00]),
                 (.media (some (.arr [.null])) .text, .documented, .sendText ['[', 'n', 'u', 'l', 'l', ']']),
                 (.media (some (.int 7)) .binary, .none, .sendBytes [0x00, 0x4A, 0x37])],
    wire (harnessHandlers true) x.1 = .ok x.2.2 := by
  intro x hx
  simp only [List.mem_cons, List.mem_nil_iff, or_false] at hx
  rcases hx with rfl | rfl | rfl | rfl <;> rfl

/-! ### the receive side -/

/-- a receive on an accepted socket whose next event is a message: the message is consumed and decoded, nothing else changes -/
theorem recv_msg (h : Handlers D) (w : W) (k : RecvKind) (t : Key Text) (b : Key Bytes) (rest : List InEv)
    (hst : w.st = .accepted) (hp : w.pumpStopped = false) (hin : w.inbox = .receive t b :: rest) :
    w.recv h k = ({ w with inbox := rest }, decode h k t b) := by
  simp [W.recv, W.requireAccepted, hst, hp, W.receive_, hin]

/-- … whose next event is the disconnect: `WebSocketDisconnected(code or 1000)`, the socket is CLOSED with that code -/
theorem recv_disconnect (h : Handlers D) (w : W) (k : RecvKind) (c : Option Int) (rest : List InEv)
    (hst : w.st = .accepted) (hp : w.pumpStopped = false) (hin : w.inbox = .disconnect c :: rest) :
    w.recv h k = ({ w with inbox := rest, st := .closed, closeCode := some (c.getD 1000) },
                  .error (wsd (some (c.getD 1000)))) := by
  simp [W.recv, W.requireAccepted, hst, hp, W.receive_, hin]

/-- after the disconnect every further receive raises `WebSocketDisconnected` again and consumes nothing -/
theorem recv_closed (h : Handlers D) (w : W) (k : RecvKind) (hst : w.st = .closed) :
    w.recv h k = (w, .error (wsd w.closeCode)) := by
  simp [W.recv, W.requireAccepted, hst]

theorem recv_handshake (h : Handlers D) (w : W) (k : RecvKind) (hst : w.st = .handshake) :
    w.recv h k = (w, .error .notAllowed) := by
  simp [W.recv, W.requireAccepted, hst]

/-- **C17 `wrong_payload_type_errors_exact`**: the (message, receive operation) → outcome table, for an accepted socket whose
    next event is `{'type': 'websocket.receive', 'text': t, 'bytes': b}` with each key absent, `None`, or a value:
    * `receive_text` returns the text verbatim iff `text` has a value, and raises PayloadTypeError otherwise (a bytes-only
      message, a `text: None` message, an empty event) — whatever `bytes` holds;
    * `receive_data` symmetrically for `bytes`;
    * `receive_media` deserializes `text` with the TEXT handler whenever it has a value (even if `bytes` has one too);
      otherwise `bytes` with the BINARY handler when that has a value; otherwise PayloadTypeError; the handler's own error
      (invalid JSON …) is what the caller sees;
    * in every case the message is consumed (it is not offered again), nothing is sent and the state is kept. -/
theorem wrong_payload_type_errors_exact (h : Handlers D) (w : W) (t : Key Text) (b : Key Bytes) (rest : List InEv)
    (hst : w.st = .accepted) (hp : w.pumpStopped = false) (hin : w.inbox = .receive t b :: rest) :
    (∀ s, t = .val s → (w.recv h .text).2 = .ok (.text s))
    ∧ (t = .absent ∨ t = .null → (w.recv h .text).2 = .error .payloadType)
    ∧ (∀ p, b = .val p → (w.recv h .data).2 = .ok (.data p))
    ∧ (b = .absent ∨ b = .null → (w.recv h .data).2 = .error .payloadType)
    ∧ (∀ s, t = .val s → (w.recv h .media).2 = (h.textDe s).map .media)
    ∧ (t = .absent ∨ t = .null → ∀ p, b = .val p → (w.recv h .media).2 = (h.binDe p).map .media)
    ∧ (t = .absent ∨ t = .null → b = .absent ∨ b = .null → (w.recv h .media).2 = .error .payloadType)
    ∧ ∀ k, (w.recv h k).1 = { w with inbox := rest } := by
  refine ⟨?_, ?_, ?_, ?_, ?_, ?_, ?_, ?_⟩
  · intro s ht; subst ht; rw [recv_msg h w _ _ _ _ hst hp hin]; rfl
  · intro ht; rw [recv_msg h w _ _ _ _ hst hp hin]; rcases ht with rfl | rfl <;> rfl
  · intro p hb; subst hb; rw [recv_msg h w _ _ _ _ hst hp hin]; rfl
  · intro hb; rw [recv_msg h w _ _ _ _ hst hp hin]; rcases hb with rfl | rfl <;> rfl
  · intro s ht; subst ht; rw [recv_msg h w _ _ _ _ hst hp hin]
    simp only [decode, Key.get]
    cases h.textDe s <;> rfl
  · intro ht p hb; subst hb; rw [recv_msg h w _ _ _ _ hst hp hin]
    rcases ht with rfl | rfl <;> (simp only [decode, Key.get]; cases h.binDe p <;> rfl)
  · intro ht hb; rw [recv_msg h w _ _ _ _ hst hp hin]
    rcases ht with rfl | rfl <;> rcases hb with rfl | rfl <;> rfl
  · intro k; rw [recv_msg h w _ _ _ _ hst hp hin]

/-- PayloadTypeError is raised by `receive_text` / `receive_data` exactly when the requested payload is missing -/
theorem payload_type_error_iff (h : Handlers D) (t : Key Text) (b : Key Bytes) :
    (decode h .text t b = .error .payloadType ↔ t.get = none)
    ∧ (decode h .data t b = .error .payloadType ↔ b.get = none) := by
  constructor
  · cases t <;> simp [decode, Key.get]
  · cases b <;> simp [decode, Key.get]

/-- one receive call of a script: the operation, the script's catch behaviour, the disconnect flag it observes (ignored by
    `receive_*`: queued messages are still handed out after the pump has seen the disconnect), and the event it will get -/
abbrev Call := RecvKind × Catch × Option Int × Key Text × Key Bytes

def Call.step (c : Call) : Step D := (.recv c.1, c.2.1, c.2.2.1)
def Call.ev (c : Call) : InEv := .receive c.2.2.2.1 c.2.2.2.2
def Call.out (h : Handlers D) (c : Call) : Out D := (decode h c.1 c.2.2.2.1 c.2.2.2.2).map some

/-- every script of receives (errors caught by the script): the i-th call gets exactly the i-th event of the client script —
    each once, in order — and its outcome is the table entry `decode`; the rest of the client script is untouched -/
theorem recv_script_exact (h : Handlers D) (calls : List Call) :
    ∀ (w : W) (log : List (Out D)) (tail : List InEv), w.st = .accepted → w.pumpStopped = false →
    w.inbox = calls.map Call.ev ++ tail →
    (∀ c ∈ calls, ∀ e, decode (D := D) h c.1 c.2.2.2.1 c.2.2.2.2 = .error e → c.2.1.catches e = true) →
    runScript h w (calls.map Call.step) log = ({ w with inbox := tail }, log ++ calls.map (Call.out h), none) := by
  induction calls with
  | nil =>
    intro w log tail _ _ hin _
    simp only [List.map_nil, List.nil_append] at hin
    simp [runScript, ← hin]
  | cons c rest ih =>
    intro w log tail hst hp hin hc
    obtain ⟨k, ca, d, t, b⟩ := c
    simp only [List.map_cons, List.cons_append, Call.ev] at hin
    have h1 := recv_msg h w k t b _ hst hp hin
    have hc' : ∀ c ∈ rest, ∀ e, decode (D := D) h c.1 c.2.2.2.1 c.2.2.2.2 = .error e → c.2.1.catches e = true :=
      fun c' hc'' => hc c' (List.mem_cons_of_mem _ hc'')
    have hcat := hc (k, ca, d, t, b) (List.mem_cons_self ..)
    simp only at hcat
    cases hd : decode h k t b with
    | ok v =>
      have := ih { w with inbox := List.map Call.ev rest ++ tail } (log ++ [.ok (some v)]) tail hst hp rfl hc'
      simp only [List.map_cons, Call.step, runScript, W.op, h1, hd, Except.map, Call.out] at this ⊢
      simpa [List.append_assoc] using this
    | error e =>
      have := ih { w with inbox := List.map Call.ev rest ++ tail } (log ++ [.error e]) tail hst hp rfl hc'
      simp only [List.map_cons, Call.step, runScript, W.op, h1, hd, Except.map, Call.out, hcat e hd, if_true] at this ⊢
      simpa [List.append_assoc] using this

/-- a well-formed client message: one payload, the other key absent or `None` -/
inductive CMsg where
  | text (s : Text) (bytesNull : Bool)
  | data (p : Bytes) (textNull : Bool)

def CMsg.keys : CMsg → Key Text × Key Bytes
  | .text s n => (.val s, if n then .null else .absent)
  | .data p n => (if n then .null else .absent, .val p)

def CMsg.ev (m : CMsg) : InEv := .receive m.keys.1 m.keys.2

/-- the value a *matching* receive call must return for a message: the text / the bytes verbatim, or the document the handler
    of the message's payload type deserializes; `none` = the call does not match the message -/
def matching (h : Handlers D) : RecvKind → CMsg → Option (Val D)
  | .text, .text s _ => some (.text s)
  | .data, .data p _ => some (.data p)
  | .media, .text s _ => match h.textDe s with | .ok d => some (.media d) | .error _ => none
  | .media, .data p _ => match h.binDe p with | .ok d => some (.media d) | .error _ => none
  | _, _ => none

theorem decode_matching (h : Handlers D) (k : RecvKind) (m : CMsg) (v : Val D) (hm : matching h k m = some v) :
    decode h k m.keys.1 m.keys.2 = .ok v := by
  cases k <;> cases m with
  | text s n =>
    first
    | (simp only [matching, Option.some.injEq] at hm; subst hm; rfl)
    | (simp [matching] at hm; done)
    | (simp only [matching] at hm
       cases n <;> (simp only [decode, CMsg.keys, Key.get]; cases hd : h.textDe s <;> simp_all))
  | data p n =>
    first
    | (simp only [matching, Option.some.injEq] at hm; subst hm; cases n <;> rfl)
    | (simp [matching] at hm; done)
    | (simp only [matching] at hm
       cases n <;> (simp only [decode, CMsg.keys, Key.get, Bool.false_eq_true, if_false, if_true]
                    cases hd : h.binDe p <;> simp_all))

/-- **C17 `received_payloads_in_order_unchanged`** (the events reach `_receive` in the order of `inbox`: `max_receive_queue = 0`
    reads the server directly; for the buffered receiver see `received_payloads_in_order_unchanged_buffered`): for every
    client script `msgs ++ tail` of well-formed messages and every script of receive calls, the i-th call matching the i-th
    message (`receive_text` for a text message, `receive_data` for a binary one, `receive_media` for one its handler
    deserializes), with any catch behaviour and any observed disconnect flags: the values returned are the payloads of
    `msgs` — verbatim for text / data, the handler's document for media — in order, each once; nothing escapes, the socket
    stays ACCEPTED, nothing is sent and exactly `tail` is left.  If `tail` starts with the client's disconnect, the *next*
    receive (and no earlier one) raises WebSocketDisconnected(code or 1000) and leaves the socket CLOSED with that code. -/
theorem received_payloads_in_order_unchanged (h : Handlers D)
    (calls : List (RecvKind × Catch × Option Int × CMsg)) (w : W) (log : List (Out D)) (tail : List InEv)
    (hst : w.st = .accepted) (hp : w.pumpStopped = false)
    (hin : w.inbox = calls.map (·.2.2.2.ev) ++ tail)
    (hm : ∀ c ∈ calls, (matching h c.1 c.2.2.2).isSome = true) :
    let r := runScript h w (calls.map fun c => (.recv c.1, c.2.1, c.2.2.1)) log
    r = ({ w with inbox := tail }, log ++ calls.map (fun c => .ok (matching h c.1 c.2.2.2)), none)
    ∧ ∀ code rest k, tail = .disconnect code :: rest →
        r.1.recv h k = ({ w with inbox := rest, st := .closed, closeCode := some (code.getD 1000) },
                        .error (wsd (some (code.getD 1000)))) := by
  let cs : List Call := calls.map fun c => (c.1, c.2.1, c.2.2.1, c.2.2.2.keys.1, c.2.2.2.keys.2)
  have hdec : ∀ c ∈ calls, decode h c.1 c.2.2.2.keys.1 c.2.2.2.keys.2 = .ok ((matching h c.1 c.2.2.2).getD (.text [])) := by
    intro c hc
    have := hm c hc
    cases hv : matching h c.1 c.2.2.2 with
    | none => simp [hv] at this
    | some v => exact decode_matching h _ _ v hv
  have e1 : cs.map Call.ev = calls.map (·.2.2.2.ev) := by
    simp [cs, List.map_map, Function.comp_def, Call.ev, CMsg.ev]
  have e2 : cs.map (Call.step (D := D)) = calls.map fun c => (.recv c.1, c.2.1, c.2.2.1) := by
    simp [cs, List.map_map, Function.comp_def, Call.step]
  have e3 : cs.map (Call.out h) = calls.map (fun c => .ok (matching h c.1 c.2.2.2)) := by
    simp only [cs, List.map_map, Function.comp_def, Call.out]
    apply List.map_congr_left
    intro c hc
    have := hm c hc
    rw [hdec c hc]
    cases hv : matching h c.1 c.2.2.2 with
    | none => simp [hv] at this
    | some v => rfl
  have hcatch : ∀ c ∈ cs, ∀ e, decode (D := D) h c.1 c.2.2.2.1 c.2.2.2.2 = .error e → c.2.1.catches e = true := by
    intro c hc e he
    obtain ⟨x, hx, rfl⟩ := List.mem_map.mp hc
    simp only at he
    rw [hdec x hx] at he; cases he
  have key := recv_script_exact h cs w log tail hst hp (by rw [e1]; exact hin) hcatch
  rw [e2, e3] at key
  refine ⟨key, ?_⟩
  intro code rest k ht
  simp only [key]
  rw [recv_disconnect h { w with inbox := tail } k code rest hst hp ht]

/-- the hypotheses of `received_payloads_in_order_unchanged` are satisfiable: a text message read as text, a binary message
    (with `text: None`) read as data, a JSON text read as media -/
example : ∀ c ∈ [(RecvKind.text, Catch.none, (none : Option Int), CMsg.text ['a'] false),
                 (.data, .all, some 1001, .data [0, 255] true),
                 (.media, .documented, none, .text ['[', ']'] true)],
    (matching (harnessHandlers false) c.1 c.2.2.2).isSome = true := by
  intro c hc
  simp only [List.mem_cons, List.mem_nil_iff, or_false] at hc
  rcases hc with rfl | rfl | rfl <;> rfl

/-! ### send, then the peer's receive -/

/-- the `websocket.receive` event the peer's server builds from the frame of a `websocket.send` event: the same payload under
    the same key; the other key absent or `None` -/
def deliver (otherNull : Bool) : Ev → Option InEv
  | .sendText s => some (.receive (.val s) (if otherNull then .null else .absent))
  | .sendBytes p => some (.receive (if otherNull then .null else .absent) (.val p))
  | _ => none

/-- the inverse law of the media handlers at a document: what `serialize` produces, `deserialize` maps back -/
structure InverseAt (h : Handlers D) (d : D) : Prop where
  text : ∀ s, h.textSer d = .ok s → h.textDe s = .ok d
  bin : ∀ p, h.binSer d = .ok p → h.binDe p = .ok d

/-- the receive call that matches a sent message, with the value the peer must get -/
def Msg.peer : Msg D → RecvKind × Val D
  | .text p => (.text, .text p)
  | .data p => (.data, .data p)
  | .media d _ => (.media, .media d)

/-- **C17 `message_roundtrip`**: `send_text(p)` / `send_data(p)` / `send_media(d, ty)` on an accepted, connected socket `a`
    with a working `send` hands exactly one event to the server; when that frame is delivered to a peer socket `b` (accepted,
    reading), the peer's `receive_text()` / `receive_data()` / `receive_media()` returns `p` / `p` / `d` — for media given
    the handlers' inverse law at `d`. -/
theorem message_roundtrip (h : Handlers D) (a b : W) (m : Msg D) (e : Ev) (otherNull : Bool)
    (ha : a.st = .accepted) (hf : a.failAt = none) (hw : wire h m = .ok e)
    (hinv : ∀ d ty, m = .media d ty → InverseAt h d)
    (hb : b.st = .accepted) (hbp : b.pumpStopped = false) :
    a.op h none m.op = ({ a with sent := a.sent ++ [(e, true)] }, .ok none)
    ∧ ∃ ev, deliver otherNull e = some ev
      ∧ ∀ rest, b.inbox = ev :: rest → b.recv h m.peer.1 = ({ b with inbox := rest }, .ok m.peer.2) := by
  refine ⟨msg_op_exact h a m e ha hf hw, ?_⟩
  cases m with
  | text p =>
    simp only [wire, Except.ok.injEq] at hw; subst hw
    refine ⟨_, rfl, fun rest hin => ?_⟩
    rw [recv_msg h b _ _ _ rest hb hbp hin]; rfl
  | data p =>
    simp only [wire, Except.ok.injEq] at hw; subst hw
    refine ⟨_, rfl, fun rest hin => ?_⟩
    rw [recv_msg h b _ _ _ rest hb hbp hin]
    cases otherNull <;> rfl
  | media d ty =>
    have hi := hinv d ty rfl
    cases ty with
    | text =>
      simp only [wire] at hw
      cases hs : h.textSer d with
      | error x => simp [hs] at hw
      | ok s =>
        simp only [hs, Except.ok.injEq] at hw; subst hw
        refine ⟨_, rfl, fun rest hin => ?_⟩
        rw [recv_msg h b _ _ _ rest hb hbp hin]
        simp [decode, Key.get, hi.text s hs, Msg.peer]
    | binary =>
      simp only [wire] at hw
      cases hs : h.binSer d with
      | error x => simp [hs] at hw
      | ok p =>
        simp only [hs, Except.ok.injEq] at hw; subst hw
        refine ⟨_, rfl, fun rest hin => ?_⟩
        rw [recv_msg h b _ _ _ rest hb hbp hin]
        cases otherNull <;> simp [decode, Key.get, hi.bin p hs, Msg.peer]

/-- **C17 `media_roundtrip`**: `send_media(d, ty)` then the peer's `receive_media()` yields `d`, given the inverse law of the
    handlers at `d` and a `serialize` that does not raise. -/
theorem media_roundtrip (h : Handlers D) (a b : W) (d : D) (ty : PType) (e : Ev) (otherNull : Bool)
    (ha : a.st = .accepted) (hf : a.failAt = none) (hw : wire h (.media d ty) = .ok e) (hinv : InverseAt h d)
    (hb : b.st = .accepted) (hbp : b.pumpStopped = false) :
    a.sendMedia h none d ty = ({ a with sent := a.sent ++ [(e, true)] }, none)
    ∧ ∃ ev, deliver otherNull e = some ev
      ∧ ∀ rest, b.inbox = ev :: rest → b.recv h .media = ({ b with inbox := rest }, .ok (.media d)) := by
  obtain ⟨h1, h2⟩ := message_roundtrip h a b (.media d ty) e otherNull ha hf hw
    (fun d' ty' heq => by cases heq; exact hinv) hb hbp
  refine ⟨?_, h2⟩
  simp only [Msg.op, W.op] at h1
  have e1 := congrArg Prod.fst h1
  have e2 := congrArg Prod.snd h1
  simp only at e1 e2
  cases hr : a.sendMedia h none d ty with
  | mk w1 eo =>
    rw [hr] at e1 e2
    simp only at e1 e2
    cases eo with
    | none => rw [e1]
    | some x => simp [outOf] at e2

/-- the harness handlers satisfy the inverse law at every well-formed JSON document (C12's `loads_dumps` round trip): the
    stock JSON TEXT handler, and the msgpack-like BINARY stub -/
theorem harness_inverse (doc : Js.Doc) (hwf : Js.WF doc = true) : InverseAt (harnessHandlers true) (some doc) := by
  constructor
  · intro s hs
    simp only [harnessHandlers, jsonTextSer, Except.ok.injEq] at hs
    subst hs
    simp [harnessHandlers, jsonTextDe, Js.loads_dumps doc hwf]
  · intro p hp
    simp only [harnessHandlers, if_true, stubBinSer, Except.ok.injEq] at hp
    subst hp
    have : (⟨(Js.dumpsBytes doc).data.toList.toArray⟩ : ByteArray) = Js.dumpsBytes doc := by
      simp
    simp [harnessHandlers, stubBinDe, this, Js.loadsBytes_dumpsBytes doc hwf]

/-- `media_roundtrip` is not vacuous: `{"i": [1, "é"]}` through the JSON TEXT handler and through the BINARY stub -/
example : ∃ e, wire (harnessHandlers true) (.media (some (.obj [(['i'], .arr [.int 1, .str ['é']])])) .text) = .ok e
    ∧ InverseAt (harnessHandlers true) (some (.obj [(['i'], .arr [.int 1, .str ['é']])])) :=
  ⟨_, rfl, harness_inverse _ (by decide)⟩

/-! ### refinement: forgetting the payloads maps every step to the step of the kind-level model `Ws` -/

section
variable (h : Handlers D) (binOk : Bool)

theorem proj_refuses (w : W) (e : Ev) : (proj h binOk w).refuses (projEv e) = w.refuses e := by
  cases e <;> rfl

theorem proj_asgiSend (w : W) (e : Ev) :
    (proj h binOk w).asgiSend (projEv e) = (proj h binOk (w.asgiSend e).1, (w.asgiSend e).2) := by
  unfold Ws.W.asgiSend W.asgiSend
  rw [proj_refuses]
  simp [proj]

theorem proj_send_ (w : W) (d : Option Int) (e : Ev) :
    (proj h binOk w).send_ d (projEv e) = (proj h binOk (w.send_ d e).1, (w.send_ d e).2) := by
  unfold Ws.W.send_ W.send_
  cases d with
  | some c => simp [proj]
  | none =>
    simp only
    by_cases hc : w.st = .closed
    · simp [proj, hc]
    · have hc' : (w.st == S.closed) = false := by simpa using hc
      have hc'' : ((proj h binOk w).st == S.closed) = false := hc'
      simp only [hc', hc'', Bool.false_eq_true, if_false]
      rw [proj_asgiSend]
      rcases hsend : w.asgiSend e with ⟨w1, ok⟩
      cases ok with
      | true => simp
      | false =>
        simp only [Bool.false_eq_true, if_false]
        have hf : (proj h binOk w1).fault = w1.fault := rfl
        rw [hf]
        cases w1.fault <;> simp [proj]

theorem proj_requireAccepted (w : W) : (proj h binOk w).requireAccepted = w.requireAccepted := by
  unfold Ws.W.requireAccepted W.requireAccepted
  have e2 : (proj h binOk w).st = w.st := rfl
  have e3 : (proj h binOk w).closeCode = w.closeCode := rfl
  rw [e2, e3]
  cases w.st <;> rfl

theorem proj_accept (w : W) (d : Option Int) (hd s b : Bool) (he : Option Exc) :
    (proj h binOk w).accept d hd s b he = (proj h binOk (w.accept d hd s b he).1, (w.accept d hd s b he).2) := by
  unfold Ws.W.accept W.accept
  have e1 : (proj h binOk w).isClosed d = w.isClosed d := rfl
  have e2 : (proj h binOk w).st = w.st := rfl
  have e3 : (proj h binOk w).supHeaders = w.supHeaders := rfl
  rw [e1, e2, e3]
  split
  · rfl
  split
  · rfl
  split
  · rfl
  split
  · rfl
  split
  · rfl
  have := proj_send_ h binOk w d (.accept hd s)
  simp only [projEv] at this
  rw [this]
  rcases w.send_ d (.accept hd s) with ⟨w1, eo⟩
  cases eo <;> rfl

theorem proj_stopPump (w : W) : (proj h binOk w).stopPump = proj h binOk w.stopPump := by
  unfold Ws.W.stopPump W.stopPump
  have e1 : (proj h binOk w).buffered = w.buffered := rfl
  have e2 : (proj h binOk w).st = w.st := rfl
  rw [e1, e2]
  split <;> rfl

theorem proj_closeGo (w : W) (d : Option Int) (r : Bool) (code : Int) :
    Ws.W.close.go d r (proj h binOk w) code = (proj h binOk (W.close.go d r w code).1, (W.close.go d r w code).2) := by
  unfold Ws.W.close.go W.close.go
  have e1 : (proj h binOk w).isClosed d = w.isClosed d := rfl
  have e2 : (proj h binOk w).st = w.st := rfl
  rw [e1, e2]
  split
  · split <;> rfl
  · have e3 : (proj h binOk w).reasonCodes = w.reasonCodes := rfl
    have e4 : (proj h binOk w).supReason = w.supReason := rfl
    rw [e3, e4]
    have := proj_asgiSend h binOk w (.close code ((r || w.reasonCodes.contains code) && w.supReason))
    simp only [projEv] at this
    rw [this]
    rcases w.asgiSend (.close code ((r || w.reasonCodes.contains code) && w.supReason)) with ⟨w1, ok⟩
    cases ok <;> rfl

theorem proj_close (w : W) (d : Option Int) (a : CodeArg) (r : Bool) :
    (proj h binOk w).close d a r = (proj h binOk (w.close d a r).1, (w.close d a r).2) := by
  unfold Ws.W.close W.close
  simp only [proj_stopPump]
  cases a with
  | notInt => rfl
  | none => exact proj_closeGo h binOk _ d r 1000
  | int c =>
    simp only
    split
    · rfl
    split
    · rfl
    exact proj_closeGo h binOk _ d r c

theorem proj_sendKind (w : W) (d : Option Int) (k : Ws.Kind) (e : Ev) (he : projEv e = .send k) :
    (proj h binOk w).sendMsg d k =
      (proj h binOk (match w.requireAccepted with | some x => (w, some x) | none => w.send_ d e).1,
       (match w.requireAccepted with | some x => (w, some x) | none => w.send_ d e).2) := by
  unfold Ws.W.sendMsg
  rw [proj_requireAccepted]
  cases w.requireAccepted with
  | some x => rfl
  | none => simp only; rw [← he, proj_send_]

end

/-- the client script is well-formed: every `websocket.receive` event carries exactly one payload -/
def InboxWf (w : W) : Prop := ∀ e ∈ w.inbox, e.wf = true

/-- an abandoned receive leaves the payload-carrying socket exactly as it was (nothing consumed: the payloads still arrive in order) -/
theorem recvAbandoned_noop (w : W) (k : RecvKind) : (w.recvAbandoned k).1 = w := by
  unfold W.recvAbandoned
  split
  · rfl
  · split <;> rfl

theorem proj_recvAbandoned (h : Handlers D) (binOk : Bool) (w : W) (k : RecvKind) :
    (proj h binOk w).recvAbandoned k = (proj h binOk (w.recvAbandoned k).1, (w.recvAbandoned k).2) := by
  unfold Ws.W.recvAbandoned W.recvAbandoned
  rw [proj_requireAccepted]
  cases w.requireAccepted with
  | some x => rfl
  | none =>
    simp only
    have e1 : (proj h binOk w).pumpStopped = w.pumpStopped := rfl
    rw [e1]
    split <;> rfl

theorem proj_recv (h : Handlers D) (binOk : Bool) (hs : Stock h binOk) (w : W) (k : RecvKind) (hwf : InboxWf w) :
    (proj h binOk w).recv k = (proj h binOk (w.recv h k).1, projOut ((w.recv h k).2.map some)) := by
  unfold Ws.W.recv W.recv
  rw [proj_requireAccepted]
  cases w.requireAccepted with
  | some x => rfl
  | none =>
    simp only
    have e1 : (proj h binOk w).pumpStopped = w.pumpStopped := rfl
    rw [e1]
    split
    · rfl
    unfold Ws.W.receive_ W.receive_
    have e2 : (proj h binOk w).inbox = w.inbox.map (projIn h) := rfl
    rw [e2]
    cases hin : w.inbox with
    | nil => rfl
    | cons ev rest =>
      have hev : ev.wf = true := hwf ev (by rw [hin]; exact List.mem_cons_self ..)
      cases ev with
      | disconnect c => rfl
      | receive t b =>
        simp only [List.map_cons, projIn]
        cases t with
        | val s =>
          simp only [Key.get]
          cases k with
          | text => rfl
          | data =>
            cases b with
            | val p => simp [InEv.wf, Key.get] at hev
            | absent => rfl
            | null => rfl
          | media =>
            simp only [decode, Key.get]
            cases hd : h.textDe s with
            | ok d => rfl
            | error e => have := hs.textErr s e hd; subst this; rfl
        | absent =>
          cases b with
          | val p =>
            simp only [Key.get]
            cases k with
            | text => rfl
            | data => rfl
            | media =>
              simp only [decode, Key.get]
              cases hb : binOk with
              | true =>
                obtain ⟨d, hd⟩ := hs.binTotal hb p
                simp [hd, proj, projOut, Except.map]
              | false =>
                simp [hs.binMissing hb p, proj, projOut, Except.map]
          | absent => simp [InEv.wf, Key.get] at hev
          | null => simp [InEv.wf, Key.get] at hev
        | null =>
          cases b with
          | val p =>
            simp only [Key.get]
            cases k with
            | text => rfl
            | data => rfl
            | media =>
              simp only [decode, Key.get]
              cases hb : binOk with
              | true =>
                obtain ⟨d, hd⟩ := hs.binTotal hb p
                simp [hd, proj, projOut, Except.map]
              | false =>
                simp [hs.binMissing hb p, proj, projOut, Except.map]
          | absent => simp [InEv.wf, Key.get] at hev
          | null => simp [InEv.wf, Key.get] at hev

theorem projOut_outOf (x : Option Exc) : projOut (outOf (D := D) x) = x := by cases x <;> rfl

theorem proj_op (h : Handlers D) (binOk : Bool) (hs : Stock h binOk) (w : W) (d : Option Int) (o : Op D)
    (hwf : InboxWf w) (hok : OpOk h o) :
    (proj h binOk w).op d (projOp o) = (proj h binOk (w.op h d o).1, projOut (w.op h d o).2) := by
  cases o with
  | accept hd s b he => simp only [projOp, Ws.W.op, W.op, projOut_outOf]; exact proj_accept h binOk w d hd s b he
  | close a r => simp only [projOp, Ws.W.op, W.op, projOut_outOf]; exact proj_close h binOk w d a r
  | sendText p =>
    simp only [projOp, Ws.W.op, W.op, projOut_outOf]
    exact proj_sendKind h binOk w d .text (.sendText p) rfl
  | sendData p =>
    simp only [projOp, Ws.W.op, W.op, projOut_outOf]
    exact proj_sendKind h binOk w d .bytes (.sendBytes p) rfl
  | sendMedia doc ty =>
    cases ty with
    | text =>
      obtain ⟨s, hser⟩ := hok
      simp only [projOp, Ws.W.op, W.op, projOut_outOf, W.sendMedia, hser]
      exact proj_sendKind h binOk w d .text (.sendText s) rfl
    | binary =>
      obtain ⟨s, hser⟩ := hok
      simp only [projOp, Ws.W.op, W.op, projOut_outOf, W.sendMedia, hser]
      exact proj_sendKind h binOk w d .bytes (.sendBytes s) rfl
  | recv k => simp only [projOp, Ws.W.op, W.op]; exact proj_recv h binOk hs w k hwf
  | recvAbandoned k => simp only [projOp, Ws.W.op, W.op, projOut_outOf]; exact proj_recvAbandoned h binOk w k
  | raiseHttp s => rfl
  | raiseStatus s => rfl
  | raiseExc => rfl
  | raiseBoom => rfl
  | raiseOf e => rfl

/-! the client script only ever shrinks from the front, so it stays well-formed -/

theorem send__inbox (w : W) (d : Option Int) (e : Ev) : (w.send_ d e).1.inbox = w.inbox := by
  unfold W.send_
  cases d with
  | some c => simp
  | none =>
    simp only
    split
    · rfl
    · have hi : (w.asgiSend e).1.inbox = w.inbox := rfl
      rcases hsend : w.asgiSend e with ⟨w1, ok⟩
      rw [hsend] at hi
      cases ok with
      | true => exact hi
      | false =>
        simp only [Bool.false_eq_true, if_false]
        cases w1.fault <;> exact hi

theorem accept_inbox (w : W) (d : Option Int) (hd s b : Bool) (he : Option Exc) : (w.accept d hd s b he).1.inbox = w.inbox := by
  unfold W.accept
  split
  · rfl
  split
  · rfl
  split
  · rfl
  split
  · rfl
  split
  · rfl
  have := send__inbox w d (.accept hd s)
  rcases hr : w.send_ d (.accept hd s) with ⟨w1, eo⟩
  rw [hr] at this
  cases eo <;> exact this

theorem stopPump_inbox (w : W) : w.stopPump.inbox = w.inbox := by unfold W.stopPump; split <;> rfl

theorem closeGo_inbox (w : W) (d : Option Int) (r : Bool) (code : Int) : (W.close.go d r w code).1.inbox = w.inbox := by
  unfold W.close.go
  split
  · split <;> rfl
  · generalize Ev.close code ((r || w.reasonCodes.contains code) && w.supReason) = ev
    have hi : (w.asgiSend ev).1.inbox = w.inbox := rfl
    rcases hsend : w.asgiSend ev with ⟨w1, ok⟩
    rw [hsend] at hi
    cases ok <;> exact hi

theorem close_inbox (w : W) (d : Option Int) (a : CodeArg) (r : Bool) : (w.close d a r).1.inbox = w.inbox := by
  unfold W.close
  cases a with
  | notInt => exact stopPump_inbox w
  | none => simp only; rw [closeGo_inbox, stopPump_inbox]
  | int c =>
    simp only
    split
    · exact stopPump_inbox w
    split
    · exact stopPump_inbox w
    rw [closeGo_inbox, stopPump_inbox]

theorem recv_inbox_sub (h : Handlers D) (w : W) (k : RecvKind) : ∀ e ∈ (w.recv h k).1.inbox, e ∈ w.inbox := by
  unfold W.recv
  split
  · exact fun e he => he
  split
  · exact fun e he => he
  unfold W.receive_
  cases hin : w.inbox with
  | nil => simp [hin]
  | cons ev rest =>
    cases ev with
    | disconnect c => intro e he; exact List.mem_cons_of_mem _ he
    | receive t b => intro e he; exact List.mem_cons_of_mem _ he

theorem op_inbox_sub (h : Handlers D) (w : W) (d : Option Int) (o : Op D) : ∀ e ∈ (w.op h d o).1.inbox, e ∈ w.inbox := by
  cases o with
  | accept hd s b hx => simp only [W.op, accept_inbox]; exact fun e he => he
  | close a r => simp only [W.op, close_inbox]; exact fun e he => he
  | sendText p =>
    simp only [W.op, W.sendText]
    split
    · exact fun e he => he
    · rw [send__inbox]; exact fun e he => he
  | sendData p =>
    simp only [W.op, W.sendData]
    split
    · exact fun e he => he
    · rw [send__inbox]; exact fun e he => he
  | sendMedia doc ty =>
    simp only [W.op, W.sendMedia]
    split
    · exact fun e he => he
    · split
      · split
        · exact fun e he => he
        · rw [send__inbox]; exact fun e he => he
      · split
        · exact fun e he => he
        · rw [send__inbox]; exact fun e he => he
  | recv k => simp only [W.op]; exact recv_inbox_sub h w k
  | recvAbandoned k => simp only [W.op, recvAbandoned_noop]; exact fun e he => he
  | raiseHttp s => exact fun e he => he
  | raiseStatus s => exact fun e he => he
  | raiseExc => exact fun e he => he
  | raiseBoom => exact fun e he => he
  | raiseOf e => exact fun e he => he

theorem InboxWf.op {h : Handlers D} {w : W} (hwf : InboxWf w) (d : Option Int) (o : Op D) : InboxWf (w.op h d o).1 :=
  fun e he => hwf e (op_inbox_sub h w d o e he)

/-- every step of a script serializes only serializable documents -/
def ScriptOk (h : Handlers D) (sc : List (Step D)) : Prop := ∀ s ∈ sc, OpOk h s.1

def projLog (l : List (Out D)) : List (Option Exc) := l.map projOut

theorem proj_runScript (h : Handlers D) (binOk : Bool) (hs : Stock h binOk) (sc : List (Step D)) :
    ∀ (w : W) (log : List (Out D)), InboxWf w → ScriptOk h sc →
    Ws.runScript (proj h binOk w) (sc.map projStep) (projLog log)
      = (proj h binOk (runScript h w sc log).1, projLog (runScript h w sc log).2.1, (runScript h w sc log).2.2)
    ∧ InboxWf (runScript h w sc log).1 := by
  induction sc with
  | nil => intro w log hwf _; exact ⟨rfl, hwf⟩
  | cons x rest ih =>
    intro w log hwf hok
    obtain ⟨o, c, d⟩ := x
    have h1 := proj_op h binOk hs w d o hwf (hok _ (List.mem_cons_self ..))
    have hwf1 := hwf.op (h := h) d o
    have hok' : ScriptOk h rest := fun s hs' => hok s (List.mem_cons_of_mem _ hs')
    simp only [List.map_cons, projStep, Ws.runScript, runScript, h1]
    rcases hop : w.op h d o with ⟨w1, out⟩
    rw [hop] at hwf1
    cases out with
    | ok v =>
      simp only [projOut]
      have := ih w1 (log ++ [.ok v]) hwf1 hok'
      simpa [projLog, projOut] using this
    | error e =>
      simp only [projOut]
      by_cases hc : c.catches e = true
      · simp only [hc, if_true]
        have := ih w1 (log ++ [.error e]) hwf1 hok'
        simpa [projLog, projOut] using this
      · simp only [hc, if_false, Bool.false_eq_true]
        exact ⟨by simp [projLog, projOut], hwf1⟩

theorem InboxWf.close {w : W} (hwf : InboxWf w) (d : Option Int) (a : CodeArg) (r : Bool) : InboxWf (w.close d a r).1 :=
  fun e he => hwf e (by rw [close_inbox] at he; exact he)

theorem proj_cleanup (h : Handlers D) (binOk : Bool) (w : W) (fd : Option Int) :
    Ws.cleanup (proj h binOk w) fd = (proj h binOk (cleanup w fd).1, (cleanup w fd).2) := by
  unfold Ws.cleanup cleanup
  have e0 : (proj h binOk w).errCloseCode = w.errCloseCode := rfl
  rw [e0, proj_close]
  rcases w.close fd (.int w.errCloseCode) false with ⟨w1, eo⟩
  cases eo with
  | none => rfl
  | some e =>
    have hsay : Ws.closeSaysInvalidCode (proj h binOk w) (proj h binOk w1) e = closeSaysInvalidCode w w1 e := by
      simp [Ws.closeSaysInvalidCode, closeSaysInvalidCode, proj]
    simp only [hsay]
    split
    · exact proj_close h binOk w1 fd (.int 3011) false
    · rfl

theorem cleanup_wf {w : W} (hwf : InboxWf w) (fd : Option Int) : InboxWf (cleanup w fd).1 := by
  unfold cleanup
  have h1 := hwf.close fd (.int w.errCloseCode) false
  rcases hcl : w.close fd (.int w.errCloseCode) false with ⟨w1, eo⟩
  rw [hcl] at h1
  cases eo with
  | none => exact h1
  | some e =>
    simp only
    split
    · exact InboxWf.close h1 fd (.int 3011) false
    · exact h1

/-- the scripts of a configuration serialize only serializable documents -/
def CfgOk (h : Handlers D) (c : Cfg D) : Prop := ∀ hs, c.custom = some hs → ScriptOk h hs

theorem proj_handleException (h : Handlers D) (binOk : Bool) (hs : Stock h binOk) (c : Cfg D) (hc : CfgOk h c) (w : W)
    (e : Exc) (hwf : InboxWf w) :
    Ws.handleException (projCfg c) (proj h binOk w) e
      = (proj h binOk (handleException h c w e).1, projLog (handleException h c w e).2.1, (handleException h c w e).2.2)
    ∧ InboxWf (handleException h c w e).1 := by
  have hfd : (projCfg c).fd = c.fd := rfl
  have hclose : ∀ (w : W) (s : Int) (hl : List (Out D)), InboxWf w →
      ∀ (X : Ws.W × List (Option Exc) × Option Exc) (Y : W × List (Out D) × Option Exc),
      X = (((proj h binOk w).close c.fd (.int (s + 3000)) false).1, projLog hl,
           ((proj h binOk w).close c.fd (.int (s + 3000)) false).2) →
      Y = ((w.close c.fd (.int (s + 3000)) false).1, hl, (w.close c.fd (.int (s + 3000)) false).2) →
      X = (proj h binOk Y.1, projLog Y.2.1, Y.2.2) ∧ InboxWf Y.1 := by
    intro w s hl hwf X Y hX hY
    subst hX hY
    rw [proj_close]
    exact ⟨rfl, hwf.close _ _ _⟩
  have hclean : ∀ (w : W), InboxWf w →
      ∀ (X : Ws.W × List (Option Exc) × Option Exc) (Y : W × List (Out D) × Option Exc),
      X = ((Ws.cleanup (proj h binOk w) c.fd).1, [], (Ws.cleanup (proj h binOk w) c.fd).2) →
      Y = ((cleanup w c.fd).1, [], (cleanup w c.fd).2) →
      X = (proj h binOk Y.1, projLog Y.2.1, Y.2.2) ∧ InboxWf Y.1 := by
    intro w hwf X Y hX hY
    subst hX hY
    rw [proj_cleanup]
    exact ⟨rfl, cleanup_wf hwf _⟩
  cases e with
  | httpError s => simp only [Ws.handleException, handleException, hfd]; exact hclose w s [] hwf _ _ rfl rfl
  | httpStatus s => simp only [Ws.handleException, handleException, hfd]; exact hclose w s [] hwf _ _ rfl rfl
  | boom =>
    unfold Ws.handleException handleException
    cases hcu : c.custom with
    | none =>
      have : (projCfg c).custom = none := by simp [projCfg, hcu]
      simp only [this, hfd]; exact hclean w hwf _ _ rfl rfl
    | some sc =>
      have : (projCfg c).custom = some (sc.map projStep) := by simp [projCfg, hcu]
      simp only [this, hfd]
      obtain ⟨h1, h2⟩ := proj_runScript h binOk hs sc w [] hwf (hc sc hcu)
      have h1' : Ws.runScript (proj h binOk w) (sc.map projStep) [] = _ := h1
      rw [h1']
      rcases hrs : runScript h w sc [] with ⟨w1, hlog, eo⟩
      rw [hrs] at h2
      simp only at h2 ⊢
      cases eo with
      | none => exact ⟨rfl, h2⟩
      | some e =>
        cases e <;> first | exact ⟨rfl, h2⟩ | exact hclose w1 _ hlog h2 _ _ rfl rfl
  | _ => simp only [Ws.handleException, handleException, hfd]; exact hclean w hwf _ _ rfl rfl

def projRes (h : Handlers D) (binOk : Bool) (r : Res D) : Ws.Res :=
  ⟨proj h binOk r.w, projLog r.log, projLog r.hlog, r.esc⟩

theorem proj_handle (h : Handlers D) (binOk : Bool) (hs : Stock h binOk) (c : Cfg D) (hc : CfgOk h c) (w : W)
    (script : Option (List (Step D))) (hwf : InboxWf w) (hsc : ∀ sc, script = some sc → ScriptOk h sc) :
    Ws.handle (projCfg c) (proj h binOk w) (script.map (·.map projStep)) = projRes h binOk (handle h c w script) := by
  have hfd : (projCfg c).fd = c.fd := rfl
  unfold Ws.handle handle
  cases script with
  | none =>
    simp only [Option.map_none]
    rw [(proj_handleException h binOk hs c hc w _ hwf).1]
    rfl
  | some sc =>
    simp only [Option.map_some]
    obtain ⟨h1, hwf1⟩ := proj_runScript h binOk hs sc w [] hwf (hsc sc rfl)
    have h1' : Ws.runScript (proj h binOk w) (sc.map projStep) [] = _ := h1
    rw [h1']
    rcases hrs : runScript h w sc [] with ⟨w1, log, eo⟩
    rw [hrs] at hwf1
    simp only at hwf1 ⊢
    cases eo with
    | some e =>
      simp only
      rw [(proj_handleException h binOk hs c hc w1 e hwf1).1]
      rfl
    | none =>
      simp only
      rw [hfd, proj_close]
      have hwf2 := hwf1.close c.fd .none false
      rcases hcl : w1.close c.fd .none false with ⟨w2, eo2⟩
      rw [hcl] at hwf2
      cases eo2 with
      | none => rfl
      | some e =>
        simp only
        rw [(proj_handleException h binOk hs c hc w2 e hwf2).1]
        rfl

theorem projLog_length (l : List (Out D)) : (projLog l).length = l.length := by simp [projLog]

theorem projLog_dropLast (l : List (Out D)) : (projLog l).dropLast = projLog l.dropLast := by
  simp [projLog, List.map_dropLast]

def RouteOk (h : Handlers D) : Route D → Prop
  | .responder sc => ScriptOk h sc
  | _ => True

theorem ScriptOk.append {h : Handlers D} {a b : List (Step D)} (ha : ScriptOk h a) (hb : ScriptOk h b) : ScriptOk h (a ++ b) := by
  intro s hs
  rcases List.mem_append.mp hs with hs | hs
  · exact ha s hs
  · exact hb s hs

theorem ScriptOk.raise (h : Handlers D) (s : Int) : ScriptOk h [((.raiseHttp s : Op D), Catch.none, (none : Option Int))] := by
  intro x hx
  simp only [List.mem_singleton] at hx
  subst hx
  trivial

/-- **C17 `project_to_Ws`** (refinement): forget the payloads — `proj` maps `'text'`/`'bytes'` events to their kind, a client
    message to `text (is it valid for the TEXT handler?)` / `bytes`, an operation to its kind-level operation — and the whole
    session of the payload model, `_handle_websocket` with middleware, error handlers and every routing outcome, is mapped to
    the session of the kind-level model `Ws` on the projected inputs: same final state and flags, same sequence of `send` calls
    (kinds, codes, which one raised), same per-operation outcomes (exception or normal return), same escaped exception.
    Hence every theorem of `WsProofs` about `Ws.handleMw` / `Ws.handle` / `Ws.W.op` holds for the payload-carrying sessions.
    Hypotheses: the client messages are well-formed ASGI events (one payload each), the handlers have the stock shape
    (`Stock`) and the scripts only serialize serializable documents. -/
theorem project_to_Ws (h : Handlers D) (binOk : Bool) (hs : Stock h binOk) (c : Cfg D) (hc : CfgOk h c) (w : W)
    (mwReq mwRes : List (Step D)) (r : Route D) (hwf : InboxWf w)
    (h1 : ScriptOk h mwReq) (h2 : ScriptOk h mwRes) (h3 : RouteOk h r) :
    Ws.handleMw (projCfg c) (proj h binOk w) (mwReq.map projStep) (mwRes.map projStep) (projRoute r)
      = projRes h binOk (handleMw h c w mwReq mwRes r) := by
  unfold Ws.handleMw handleMw
  cases r with
  | responder sc =>
    simp only [projRoute]
    have := proj_handle h binOk hs c hc w (some (mwReq ++ mwRes ++ sc)) hwf
      (fun sc' he => by cases he; exact (h1.append h2).append h3)
    simpa [List.map_append] using this
  | unrouted =>
    simp only [projRoute]
    have := proj_handle h binOk hs c hc w (some (mwReq ++ [(.raiseHttp 404, .none, none)])) hwf
      (fun sc' he => by cases he; exact h1.append (ScriptOk.raise h 404))
    simp only [Option.map_some, List.map_append, List.map_cons, List.map_nil] at this
    have e0 : projStep ((.raiseHttp 404 : Op D), Catch.none, (none : Option Int)) = (.raiseHttp 404, .none, none) := rfl
    rw [e0] at this
    rw [this]
    simp only [projRes, projLog_length, List.length_map]
    split
    · simp only [projLog_dropLast]
    · rfl
  | noResponder =>
    simp only [projRoute]
    have := proj_handle h binOk hs c hc w (some (mwReq ++ mwRes ++ [(.raiseHttp 405, .none, none)])) hwf
      (fun sc' he => by cases he; exact (h1.append h2).append (ScriptOk.raise h 405))
    simp only [Option.map_some, List.map_append, List.map_cons, List.map_nil] at this
    have e0 : projStep ((.raiseHttp 405 : Op D), Catch.none, (none : Option Int)) = (.raiseHttp 405, .none, none) := rfl
    rw [e0] at this
    rw [this]
    simp only [projRes, projLog_length, List.length_map]
    split
    · simp only [projLog_dropLast]
    · rfl

theorem proj_rejectFirst (h : Handlers D) (binOk : Bool) (w : W) :
    Ws.rejectFirst (proj h binOk w) = proj h binOk (rejectFirst w) := by
  unfold Ws.rejectFirst rejectFirst
  have := proj_asgiSend h binOk w (.close 1011 w.supReason)
  simp only [projEv] at this
  have e : (proj h binOk w).supReason = w.supReason := rfl
  rw [e, this]

/-! ### the kind-level theorems, transferred to the payload-carrying sessions -/

theorem okEvents_proj (l : List (Ev × Bool)) :
    Ws.okEvents (l.map fun x => (projEv x.1, x.2)) = ((l.filter (·.2)).map (·.1)).map projEv := by
  induction l with
  | nil => rfl
  | cons x r ih =>
    obtain ⟨e, ok⟩ := x
    cases ok <;> simp_all [Ws.okEvents]

/-- `Ws.emitted_trace_legal_mw` for the payload model: the events the server accepted, with their payloads forgotten, form a
    word of `connecting —accept→ open —send*→ open —close→ done` -/
theorem emitted_trace_legal (h : Handlers D) (binOk : Bool) (hs : Stock h binOk) (c : Cfg D) (hc : CfgOk h c) (w : W)
    (mwReq mwRes : List (Step D)) (r : Route D) (hwf : InboxWf w)
    (h1 : ScriptOk h mwReq) (h2 : ScriptOk h mwRes) (h3 : RouteOk h r)
    (hst : w.st = .handshake) (hsent : w.sent = []) :
    (Ws.M.run .connecting ((((handleMw h c w mwReq mwRes r).w.sent.filter (·.2)).map (·.1)).map projEv)).isSome := by
  have key := Ws.emitted_trace_legal_mw (projCfg c) (proj h binOk w) (mwReq.map projStep) (mwRes.map projStep) (projRoute r)
    hst (by simp [proj, hsent])
  rw [project_to_Ws h binOk hs c hc w mwReq mwRes r hwf h1 h2 h3] at key
  simp only [projRes, proj, okEvents_proj] at key
  exact key

/-- `Ws.closed_unless_escaped_mw` for the payload model -/
theorem closed_unless_escaped (h : Handlers D) (binOk : Bool) (hs : Stock h binOk) (c : Cfg D) (hcu : c.custom = none) (w : W)
    (mwReq mwRes : List (Step D)) (r : Route D) (hwf : InboxWf w)
    (h1 : ScriptOk h mwReq) (h2 : ScriptOk h mwRes) (h3 : RouteOk h r)
    (hesc : (handleMw h c w mwReq mwRes r).esc = none) :
    (handleMw h c w mwReq mwRes r).w.st = .closed := by
  have hc : CfgOk h c := fun sc he => by rw [hcu] at he; cases he
  have key := Ws.closed_unless_escaped_mw (projCfg c) (by simp [projCfg, hcu]) (proj h binOk w) (mwReq.map projStep)
    (mwRes.map projStep) (projRoute r)
  rw [project_to_Ws h binOk hs c hc w mwReq mwRes r hwf h1 h2 h3] at key
  exact key hesc

/-- `Ws.reason_only_if_supported` for the payload model -/
theorem reason_only_if_supported (h : Handlers D) (binOk : Bool) (hs : Stock h binOk) (c : Cfg D) (hc : CfgOk h c) (w : W)
    (mwReq mwRes : List (Step D)) (r : Route D) (hwf : InboxWf w)
    (h1 : ScriptOk h mwReq) (h2 : ScriptOk h mwRes) (h3 : RouteOk h r)
    (h0 : w.sent = []) (hsup : w.supReason = false) :
    ∀ x ∈ (handleMw h c w mwReq mwRes r).w.sent, ∀ code, x.1 ≠ Ev.close code true := by
  have key := Ws.reason_only_if_supported (projCfg c) (proj h binOk w) (mwReq.map projStep) (mwRes.map projStep) (projRoute r)
    (by simp [proj, h0]) hsup
  rw [project_to_Ws h binOk hs c hc w mwReq mwRes r hwf h1 h2 h3] at key
  intro x hx code hxe
  have hmem : (projEv x.1, x.2) ∈ (projRes h binOk (handleMw h c w mwReq mwRes r)).w.sent := by
    simp only [projRes, proj]
    exact List.mem_map.mpr ⟨x, hx, rfl⟩
  exact key _ hmem code (by simp [hxe, projEv])

/-! ### the buffered receiver (`max_receive_queue > 0`): composition with C18 -/

/-- C18 ⇒ what `_BufferedReceiver.receive()` has handed to `WebSocket._receive` so far is a prefix of what the server
    delivered to the pump: for every log of the real receiver that the trace-inclusion checker of `Wb` accepts from the
    initial state (any capacity > 0, any schedule, no `stop()`), the ids returned are the first ids delivered. -/
theorem buffered_handed_prefix (fuel cap : Nat) (blog : List Wb.Ev) (i : Nat) (s' : Wb.S)
    (hacc : Wb.accept fuel { cap := cap } blog i = .ok s') (hns : Wb.Ev.stop ∉ blog) (hcap : 0 < cap) :
    Wb.returned blog = (Wb.delivered blog).take (Wb.returned blog).length := by
  obtain ⟨h1, _⟩ := Wb.fifo_lossless_once fuel { cap := cap } blog i s' hacc hns (Wb.inv_init cap hcap)
  have h0 : Wb.held ({ cap := cap } : Wb.S) = [] := rfl
  rw [h0, List.nil_append] at h1
  rw [← h1]
  simp

/-- **C17 `received_payloads_in_order_unchanged_buffered`**: with the buffered receiver (any capacity > 0, any schedule of
    pump and application accepted by the C18 model, no `stop()`), let the server deliver to the pump — in the order of the
    client script — the events `dec id`, i.e. the well-formed messages of `calls` followed by `rest`, and let `n` events have
    been handed out by `_BufferedReceiver.receive()` (`Wb.returned`), which is the client script `_receive` reads.  Then the
    `n` receive calls, the i-th matching the i-th message, return the payloads of the first `n` client messages, in order,
    each once (verbatim for text / data, the handler's document for media); nothing escapes. -/
theorem received_payloads_in_order_unchanged_buffered (h : Handlers D) (dec : Nat → InEv)
    (fuel cap : Nat) (blog : List Wb.Ev) (i : Nat) (s' : Wb.S)
    (hacc : Wb.accept fuel { cap := cap } blog i = .ok s') (hns : Wb.Ev.stop ∉ blog) (hcap : 0 < cap)
    (calls : List (RecvKind × Catch × Option Int × CMsg)) (rest : List InEv)
    (hdel : (Wb.delivered blog).map dec = calls.map (·.2.2.2.ev) ++ rest)
    (w : W) (log : List (Out D)) (hst : w.st = .accepted) (hp : w.pumpStopped = false)
    (hin : w.inbox = (Wb.returned blog).map dec)
    (hn : (Wb.returned blog).length ≤ calls.length)
    (hm : ∀ c ∈ calls, (matching h c.1 c.2.2.2).isSome = true) :
    runScript h w ((calls.take (Wb.returned blog).length).map fun c => (.recv c.1, c.2.1, c.2.2.1)) log
      = ({ w with inbox := [] },
         log ++ (calls.take (Wb.returned blog).length).map (fun c => .ok (matching h c.1 c.2.2.2)), none) := by
  have hpre := buffered_handed_prefix fuel cap blog i s' hacc hns hcap
  have hin' : w.inbox = (calls.take (Wb.returned blog).length).map (·.2.2.2.ev) ++ [] := by
    rw [hin, List.append_nil]
    have : (Wb.returned blog).map dec = ((Wb.delivered blog).map dec).take (Wb.returned blog).length := by
      rw [← List.map_take, ← hpre]
    rw [this, hdel, List.take_append_of_le_length (by simpa using hn), List.map_take]
  have hm' : ∀ c ∈ calls.take (Wb.returned blog).length, (matching h c.1 c.2.2.2).isSome = true :=
    fun c hc => hm c (List.mem_of_mem_take hc)
  exact (received_payloads_in_order_unchanged h _ w log [] hst hp hin' hm').1

end Wp

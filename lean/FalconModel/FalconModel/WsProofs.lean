import FalconModel.Ws
/-! C17: every trace of events that `_handle_websocket` gets the server to accept is a word of the ASGI WebSocket
    send-side automaton — for every responder / middleware / error-handler script, client script, fault position and
    kind, configuration, and every sequence of observed disconnect-flag values. -/
namespace Ws

/-- the ASGI server's view of the send side -/
inductive M where | connecting | opened | done
deriving DecidableEq, Repr

def M.step : M → Ev → Option M
  | .connecting, .accept _ _ => some .opened
  | .opened, .send _ => some .opened
  | .connecting, .close _ _ => some .done     -- denial: the server answers the handshake with 403
  | .opened, .close _ _ => some .done
  | _, _ => none

def M.run : M → List Ev → Option M
  | m, [] => some m
  | m, e :: es => match m.step e with | some m' => m'.run es | none => none

/-- the events the server accepted (a `send` that raised delivered nothing) -/
def okEvents (l : List (Ev × Bool)) : List Ev := (l.filter (·.2)).map (·.1)

theorem run_append (m : M) (a b : List Ev) :
    M.run m (a ++ b) = match M.run m a with | some m' => M.run m' b | none => none := by
  induction a generalizing m with
  | nil => rfl
  | cons e es ih =>
    simp only [List.cons_append, M.run]
    cases h : m.step e with
    | none => rfl
    | some m' => exact ih m'

/-- the model's state tracks the automaton as long as the connection is not marked closed -/
structure Inv (w : W) : Prop where
  legal : ∃ m, M.run .connecting (okEvents w.sent) = some m ∧
    (w.st = .handshake → m = .connecting) ∧ (w.st = .accepted → m = .opened)

theorem okEvents_snoc (l : List (Ev × Bool)) (e : Ev) (ok : Bool) :
    okEvents (l ++ [(e, ok)]) = if ok then okEvents l ++ [e] else okEvents l := by
  unfold okEvents
  cases ok <;> simp [List.filter_append]

theorem Inv.init (w : W) (h1 : w.st = .handshake) (h2 : w.sent = []) : Inv w :=
  ⟨⟨.connecting, by rw [h2]; rfl, fun _ => rfl, fun h => by rw [h1] at h; cases h⟩⟩

/-- nothing reached the server and the state stayed or moved to `closed` -/
theorem Inv.weaken {w w' : W} (hi : Inv w) (h1 : okEvents w'.sent = okEvents w.sent)
    (h2 : w'.st = w.st ∨ w'.st = .closed) : Inv w' := by
  obtain ⟨m, hm, hh, ha⟩ := hi.legal
  refine ⟨⟨m, by rw [h1]; exact hm, ?_, ?_⟩⟩
  · intro h; rcases h2 with h2 | h2
    · exact hh (h2 ▸ h)
    · rw [h2] at h; cases h
  · intro h; rcases h2 with h2 | h2
    · exact ha (h2 ▸ h)
    · rw [h2] at h; cases h

/-- one event reached the server, and the automaton (in the state the model believes it is in) accepts it -/
theorem Inv.sendOk {w w' : W} (hi : Inv w) (e : Ev) (m' : M)
    (h1 : okEvents w'.sent = okEvents w.sent ++ [e])
    (hstep : ∀ m : M, (w.st = .handshake → m = M.connecting) → (w.st = .accepted → m = M.opened) → m.step e = some m' ∨ w.st = .closed)
    (hnc : w.st ≠ .closed)
    (h2 : (w'.st = .handshake → m' = .connecting) ∧ (w'.st = .accepted → m' = .opened)) : Inv w' := by
  obtain ⟨m, hm, hh, ha⟩ := hi.legal
  refine ⟨⟨m', ?_, h2.1, h2.2⟩⟩
  rw [h1, run_append, hm]
  rcases hstep m hh ha with h | h
  · simp [M.run, h]
  · exact absurd h hnc

theorem asgiSend_st (w : W) (e : Ev) : (w.asgiSend e).1.st = w.st := rfl
theorem asgiSend_sent (w : W) (e : Ev) : (w.asgiSend e).1.sent = w.sent ++ [(e, (w.asgiSend e).2)] := rfl

/-- `_send`: either nothing reached the server (state kept or `closed`, an exception is raised), or exactly `e` did, the
    state is kept and was not `closed` -/
theorem send_spec (w : W) (d : Option Int) (e : Ev) :
    (okEvents (w.send_ d e).1.sent = okEvents w.sent ∧ ((w.send_ d e).1.st = w.st ∨ (w.send_ d e).1.st = .closed)
      ∧ (w.send_ d e).2 ≠ none)
    ∨ (okEvents (w.send_ d e).1.sent = okEvents w.sent ++ [e] ∧ (w.send_ d e).1.st = w.st ∧ (w.send_ d e).2 = none
      ∧ w.st ≠ .closed) := by
  unfold W.send_
  cases d with
  | some c => left; simp
  | none =>
    simp only
    by_cases hc : w.st = .closed
    · left; simp [hc]
    · have hc' : (w.st == S.closed) = false := by simpa using hc
      simp only [hc', Bool.false_eq_true, if_false]
      have hs := asgiSend_sent w e
      have ht := asgiSend_st w e
      rcases hsend : w.asgiSend e with ⟨w1, ok⟩
      rw [hsend] at hs ht
      simp only at hs ht
      cases ok with
      | true =>
        right
        simp only [if_true]
        refine ⟨?_, ht, ?_, hc⟩
        · rw [hs, okEvents_snoc]; rfl
        · trivial
      | false =>
        left
        simp only [Bool.false_eq_true, if_false]
        have hok : okEvents w1.sent = okEvents w.sent := by rw [hs, okEvents_snoc]; rfl
        cases w1.fault <;> simp [hok, ht]

theorem accept_inv (w : W) (d : Option Int) (h s b : Bool) (he : Option Exc) (hi : Inv w) : Inv (w.accept d h s b he).1 := by
  unfold W.accept
  split
  · exact hi
  split
  · exact hi
  split
  · exact hi
  split
  · exact hi
  split
  · exact hi
  rename_i hc hs _ _ _
  have hst : w.st = .handshake := by simpa using hs
  rcases send_spec w d (.accept h s) with ⟨h1, h2, h3⟩ | ⟨h1, h2, h3, h4⟩
  · rcases hr : w.send_ d (.accept h s) with ⟨w1, eo⟩
    rw [hr] at h1 h2 h3
    cases eo with
    | none => exact absurd rfl h3
    | some e => exact hi.weaken h1 h2
  · rcases hr : w.send_ d (.accept h s) with ⟨w1, eo⟩
    rw [hr] at h1 h2 h3
    simp only at h1 h2 h3
    subst h3
    refine hi.sendOk (.accept h s) .opened h1 ?_ h4 ⟨fun hh => by simp at hh, fun _ => rfl⟩
    intro m hh _
    left; rw [hh hst]; rfl

theorem closeGo_inv (w : W) (d : Option Int) (r : Bool) (code : Int) (hi : Inv w) : Inv (W.close.go d r w code).1 := by
  unfold W.close.go
  split
  · split
    · exact hi
    · exact hi.weaken rfl (Or.inr rfl)
  rename_i hc
  have hnc : w.st ≠ .closed := by
    intro h; apply hc; simp [W.isClosed, h]
  generalize hev : Ev.close code ((r || w.reasonCodes.contains code) && w.supReason) = ev
  have hs := asgiSend_sent w ev
  have ht := asgiSend_st w ev
  rcases hsend : w.asgiSend ev with ⟨w1, ok⟩
  rw [hsend] at hs ht
  simp only at hs ht
  cases ok with
  | false =>
    simp only [Bool.false_eq_true, if_false]
    exact hi.weaken (by rw [hs, okEvents_snoc]; rfl) (Or.inl ht)
  | true =>
    simp only [if_true]
    refine hi.sendOk ev .done (by show okEvents w1.sent = _; rw [hs, okEvents_snoc]; rfl) ?_ hnc
      ⟨fun hh => by simp at hh, fun hh => by simp at hh⟩
    intro m hh ha
    cases hst : w.st with
    | handshake => left; rw [hh hst, ← hev]; rfl
    | accepted => left; rw [ha hst, ← hev]; rfl
    | closed => right; rfl

/-- marking the pump as stopped changes neither the state nor what was sent -/
theorem stopPump_st (w : W) : w.stopPump.st = w.st := by unfold W.stopPump; split <;> rfl
theorem stopPump_sent (w : W) : w.stopPump.sent = w.sent := by unfold W.stopPump; split <;> rfl
theorem stopPump_failAt (w : W) : w.stopPump.failAt = w.failAt := by unfold W.stopPump; split <;> rfl
theorem stopPump_refused (w : W) : w.stopPump.refused = w.refused := by unfold W.stopPump; split <;> rfl
theorem stopPump_fault (w : W) : w.stopPump.fault = w.fault := by unfold W.stopPump; split <;> rfl
theorem stopPump_faultIcc (w : W) : w.stopPump.faultIcc = w.faultIcc := by unfold W.stopPump; split <;> rfl
theorem stopPump_reasonCodes (w : W) : w.stopPump.reasonCodes = w.reasonCodes := by unfold W.stopPump; split <;> rfl
theorem stopPump_supReason (w : W) : w.stopPump.supReason = w.supReason := by unfold W.stopPump; split <;> rfl
theorem stopPump_errCloseCode (w : W) : w.stopPump.errCloseCode = w.errCloseCode := by unfold W.stopPump; split <;> rfl

theorem Inv.stopPump {w : W} (hi : Inv w) : Inv w.stopPump := by
  unfold W.stopPump
  split
  · exact hi.weaken rfl (Or.inl rfl)
  · exact hi

theorem close_inv (w : W) (d : Option Int) (a : CodeArg) (r : Bool) (hi : Inv w) : Inv (w.close d a r).1 := by
  unfold W.close
  have hi' := hi.stopPump
  generalize w.stopPump = w0 at hi'
  simp only
  split
  · exact hi'
  · split
    · exact hi'
    · split
      · exact hi'
      · exact closeGo_inv w0 d r _ hi'
  · exact closeGo_inv w0 d r _ hi'

theorem sendMsg_inv (w : W) (d : Option Int) (k : Kind) (hi : Inv w) : Inv (w.sendMsg d k).1 := by
  unfold W.sendMsg
  split
  · exact hi
  rename_i hreq
  have hst : w.st = .accepted := by
    unfold W.requireAccepted at hreq
    cases h : w.st <;> simp [h] at hreq
    rfl
  rcases send_spec w d (.send k) with ⟨h1, h2, _⟩ | ⟨h1, h2, _, h4⟩
  · exact hi.weaken h1 h2
  · refine hi.sendOk (.send k) .opened h1 ?_ h4 ⟨fun hh => (by rw [h2, hst] at hh; cases hh), fun _ => rfl⟩
    intro m _ ha
    left; rw [ha hst]; rfl

theorem receive_spec (w : W) : w.receive_.1.sent = w.sent ∧ (w.receive_.1.st = w.st ∨ w.receive_.1.st = .closed) := by
  unfold W.receive_
  split
  · exact ⟨rfl, Or.inl rfl⟩
  · exact ⟨rfl, Or.inr rfl⟩
  · exact ⟨rfl, Or.inl rfl⟩

/-- **an abandoned (parked, then cancelled) receive leaves no trace**: whatever the state, the socket object - state, close code,
    everything sent, the pump, the client events not yet consumed - is exactly what it was -/
theorem recvAbandoned_noop (w : W) (k : RecvKind) : (w.recvAbandoned k).1 = w := by
  unfold W.recvAbandoned
  split
  · rfl
  · split <;> rfl

/-- on an accepted socket whose pump runs it also raises nothing -/
theorem recvAbandoned_ok (w : W) (k : RecvKind) (hst : w.st = .accepted) (hp : w.pumpStopped = false) :
    w.recvAbandoned k = (w, none) := by
  simp [W.recvAbandoned, W.requireAccepted, hst, hp]

/-- in the wrong state it raises what the plain receive raises, at once -/
theorem recvAbandoned_wrong_state (w : W) (k : RecvKind) (h : w.st ≠ .accepted ∨ w.pumpStopped = true) :
    w.recvAbandoned k = w.recv k := by
  unfold W.recvAbandoned W.recv
  rcases h with h | h
  · cases hst : w.st <;> simp_all [W.requireAccepted]
  · cases hst : w.st <;> simp [W.requireAccepted, h]

/-- **the session continues as if the abandoned receive had never been issued**: for every script around it (any per-op catch
    behaviour and observed flags), on an accepted socket with a running pump, the rest of the script runs from the same socket
    against the same client events - so the next `receive_*` gets the next client message, a send goes out, and `close(code)` sends
    the responder's own code -; the only difference is the `ok` entry the abandoned call leaves in the log -/
theorem abandoned_receive_session_continues (w : W) (k : RecvKind) (c : Catch) (d : Option Int) (rest : List Step)
    (log : List (Option Exc)) (hst : w.st = .accepted) (hp : w.pumpStopped = false) :
    runScript w ((.recvAbandoned k, c, d) :: rest) log = runScript w rest (log ++ [none]) := by
  simp [runScript, W.op, recvAbandoned_ok w k hst hp]

theorem recvAbandoned_inv (w : W) (k : RecvKind) (hi : Inv w) : Inv (w.recvAbandoned k).1 := by
  rw [recvAbandoned_noop]; exact hi

theorem recv_inv (w : W) (k : RecvKind) (hi : Inv w) : Inv (w.recv k).1 := by
  have hr := receive_spec w
  have key : Inv w.receive_.1 := hi.weaken (by rw [hr.1]) hr.2
  unfold W.recv
  split
  · exact hi
  · split
    · exact hi
    · split
      · rename_i w1 e heq
        have : w1 = w.receive_.1 := by rw [heq]
        rw [this]; exact key
      · rename_i w1 ev heq
        have : w1 = w.receive_.1 := by rw [heq]
        subst this
        split <;> exact key

theorem op_inv (w : W) (d : Option Int) (o : Op) (hi : Inv w) : Inv (w.op d o).1 := by
  cases o with
  | accept h s b he => exact accept_inv w d h s b he hi
  | close a r => exact close_inv w d a r hi
  | send k => exact sendMsg_inv w d k hi
  | recv k => exact recv_inv w k hi
  | recvAbandoned k => exact recvAbandoned_inv w k hi
  | raiseHttp s => exact hi
  | raiseStatus s => exact hi
  | raiseExc => exact hi
  | raiseBoom => exact hi
  | raiseOf e => exact hi

theorem runScript_inv (sc : List Step) : ∀ (w : W) (log : List (Option Exc)), Inv w →
    Inv (runScript w sc log).1 := by
  induction sc with
  | nil => intro w log hi; exact hi
  | cons x rest ih =>
    intro w log hi
    obtain ⟨o, c, d⟩ := x
    unfold runScript
    have h1 := op_inv w d o hi
    rcases hop : w.op d o with ⟨w1, eo⟩
    rw [hop] at h1
    cases eo with
    | none => exact ih w1 _ h1
    | some e =>
      simp only
      split
      · exact ih w1 _ h1
      · exact h1

theorem cleanup_inv (w : W) (fd : Option Int) (hi : Inv w) : Inv (cleanup w fd).1 := by
  unfold cleanup
  have h1 := close_inv w fd (.int w.errCloseCode) false hi
  rcases hc : w.close fd (.int w.errCloseCode) false with ⟨w1, eo⟩
  rw [hc] at h1
  cases eo with
  | none => exact h1
  | some e =>
    simp only
    split
    · exact close_inv w1 _ _ _ h1
    · exact h1

theorem handleException_inv (c : Cfg) (w : W) (e : Exc) (hi : Inv w) : Inv (handleException c w e).1 := by
  have hclose : ∀ (w : W) (s : Int), Inv w → ∀ hl : List (Option Exc),
      Inv (let (w', e') := w.close c.fd (.int (s + 3000)) false; ((w', hl, e') : W × List (Option Exc) × Option Exc)).1 := by
    intro w s hi hl; exact close_inv w _ _ _ hi
  have hclean : ∀ (w : W), Inv w →
      Inv (let (w', e') := cleanup w c.fd; ((w', [], e') : W × List (Option Exc) × Option Exc)).1 := by
    intro w hi; exact cleanup_inv w _ hi
  cases e with
  | httpError s => exact hclose w s hi []
  | httpStatus s => exact hclose w s hi []
  | boom =>
    unfold handleException
    cases hcu : c.custom with
    | none => exact hclean w hi
    | some hs =>
      simp only
      have h1 := runScript_inv hs w [] hi
      rcases hr : runScript w hs [] with ⟨w1, hlog, eo⟩
      rw [hr] at h1
      cases eo with
      | none => exact h1
      | some e =>
        cases e <;> first | exact h1 | exact hclose w1 _ h1 hlog
  | _ => exact hclean w hi

theorem handle_inv (c : Cfg) (w : W) (script : Option (List Step)) (hi : Inv w) : Inv (handle c w script).w := by
  unfold handle
  cases script with
  | none => exact handleException_inv c w _ hi
  | some sc =>
    simp only
    have h1 := runScript_inv sc w [] hi
    rcases hr : runScript w sc [] with ⟨w1, log, eo⟩
    rw [hr] at h1
    cases eo with
    | some e => exact handleException_inv c w1 e h1
    | none =>
      simp only
      have h2 := close_inv w1 c.fd .none false h1
      rcases hc : w1.close c.fd .none false with ⟨w2, eo2⟩
      rw [hc] at h2
      cases eo2 with
      | none => exact h2
      | some e => exact handleException_inv c w2 e h2

/-- **C17 `emitted_trace_legal`**: for every configuration, responder script (with per-op catch flags and observed
    disconnect flags), inbox, fault position and kind: the events the server accepted form a word of
    `connecting —accept→ open —send*→ open —close→ done` (`connecting —close→ done` is the 403 denial). -/
theorem emitted_trace_legal (c : Cfg) (w : W) (script : Option (List Step))
    (h1 : w.st = .handshake) (h2 : w.sent = []) :
    (M.run .connecting (okEvents (handle c w script).w.sent)).isSome := by
  obtain ⟨m, hm, _⟩ := (handle_inv c w script (Inv.init w h1 h2)).legal
  rw [hm]; rfl

theorem handleMw_inv (c : Cfg) (w : W) (mwReq mwRes : List Step) (r : Route) (hi : Inv w) :
    Inv (handleMw c w mwReq mwRes r).w := by
  unfold handleMw
  cases r with
  | responder sc => exact handle_inv c w _ hi
  | unrouted => simp only; split <;> exact handle_inv c w _ hi
  | noResponder => simp only; split <;> exact handle_inv c w _ hi

/-- the same with `process_request_ws` / `process_resource_ws` middleware and every routing outcome -/
theorem emitted_trace_legal_mw (c : Cfg) (w : W) (mwReq mwRes : List Step) (r : Route)
    (h1 : w.st = .handshake) (h2 : w.sent = []) :
    (M.run .connecting (okEvents (handleMw c w mwReq mwRes r).w.sent)).isSome := by
  obtain ⟨m, hm, _⟩ := (handleMw_inv c w mwReq mwRes r (Inv.init w h1 h2)).legal
  rw [hm]; rfl

/-! ### the connection is never left half-open: unless an exception escapes to the server (or the application's own error
    handler took over), the session ends closed, denied, or known to be lost -/

theorem closeGo_closed (w : W) (d : Option Int) (r : Bool) (code : Int) (h : (W.close.go d r w code).2 = none) :
    (W.close.go d r w code).1.st = .closed := by
  unfold W.close.go at h ⊢
  split
  · split
    · rename_i hc; simpa using hc
    · rfl
  · rename_i hc
    simp only [hc] at h
    generalize Ev.close code ((r || w.reasonCodes.contains code) && w.supReason) = ev at h ⊢
    rcases hsend : w.asgiSend ev with ⟨w1, ok⟩
    rw [hsend] at h
    cases ok
    · simp at h
    · rfl

theorem close_closed (w : W) (d : Option Int) (a : CodeArg) (r : Bool) (h : (w.close d a r).2 = none) :
    (w.close d a r).1.st = .closed := by
  unfold W.close at h ⊢
  generalize w.stopPump = w0 at h ⊢
  simp only at h ⊢
  split
  · simp at h
  · rename_i c
    split
    · rename_i h1; simp [h1] at h
    · rename_i h1
      split
      · rename_i h2; simp [h1, h2] at h
      · rename_i h2
        simp only [h1, h2, if_false, Bool.false_eq_true] at h
        exact closeGo_closed w0 d r c h
  · exact closeGo_closed w0 d r 1000 h

theorem cleanup_closed (w : W) (fd : Option Int) (h : (cleanup w fd).2 = none) : (cleanup w fd).1.st = .closed := by
  unfold cleanup at h ⊢
  have h1 := close_closed w fd (.int w.errCloseCode) false
  rcases hc : w.close fd (.int w.errCloseCode) false with ⟨w1, eo⟩
  rw [hc] at h h1
  cases eo with
  | none => exact h1 rfl
  | some e =>
    simp only at h ⊢
    split
    · rename_i hs
      simp only [hs, if_true] at h
      exact close_closed w1 _ _ _ h
    · rename_i hs
      simp [hs] at h

theorem handleException_closed (c : Cfg) (hcu : c.custom = none) (w : W) (e : Exc) (h : (handleException c w e).2.2 = none) :
    (handleException c w e).1.st = .closed := by
  cases e with
  | httpError s => exact close_closed w c.fd (.int (s + 3000)) false h
  | httpStatus s => exact close_closed w c.fd (.int (s + 3000)) false h
  | boom =>
    unfold handleException at h ⊢
    simp only [hcu] at h ⊢
    exact cleanup_closed w _ h
  | _ => exact cleanup_closed w _ h

/-- **C17 `closed_unless_escaped`**: with the default error handlers, whatever the responder, the client, the pump and the
    server's `send` do, when `_handle_websocket` returns normally the socket is CLOSED: a close (or denial) was accepted by
    the server, or the client's disconnect was received or observed, or a failing `send` was translated into a disconnect. -/
theorem closed_unless_escaped (c : Cfg) (hcu : c.custom = none) (w : W) (script : Option (List Step))
    (h : (handle c w script).esc = none) :
    (handle c w script).w.st = .closed := by
  unfold handle at h ⊢
  cases script with
  | none => exact handleException_closed c hcu w _ h
  | some sc =>
    simp only at h ⊢
    rcases hr : runScript w sc [] with ⟨w1, log, eo⟩
    rw [hr] at h
    cases eo with
    | some e => exact handleException_closed c hcu w1 e h
    | none =>
      simp only at h ⊢
      have h2 := close_closed w1 c.fd .none false
      rcases hc : w1.close c.fd .none false with ⟨w2, eo2⟩
      rw [hc] at h h2
      cases eo2 with
      | none => exact h2 rfl
      | some e => exact handleException_closed c hcu w2 e h

theorem closed_unless_escaped_mw (c : Cfg) (hcu : c.custom = none) (w : W) (mwReq mwRes : List Step) (r : Route)
    (h : (handleMw c w mwReq mwRes r).esc = none) :
    (handleMw c w mwReq mwRes r).w.st = .closed := by
  unfold handleMw at h ⊢
  cases r with
  | responder sc => exact closed_unless_escaped c hcu w _ h
  | unrouted =>
    simp only at h ⊢
    split at h <;> split <;> first | exact closed_unless_escaped c hcu w _ h | contradiction
  | noResponder =>
    simp only at h ⊢
    split at h <;> split <;> first | exact closed_unless_escaped c hcu w _ h | contradiction

/-! ### the (state, operation) → error table, the close-code table and the error → close-code mapping -/

theorem wrong_state_send (w : W) (d : Option Int) (k : Kind) :
    (w.st = .handshake → w.sendMsg d k = (w, some .notAllowed)) ∧
    (w.st = .closed → w.sendMsg d k = (w, some (wsd w.closeCode))) := by
  constructor <;> intro h <;> simp [W.sendMsg, W.requireAccepted, h]

theorem wrong_state_recv (w : W) (k : RecvKind) :
    (w.st = .handshake → w.recv k = (w, some .notAllowed)) ∧
    (w.st = .closed → w.recv k = (w, some (wsd w.closeCode))) := by
  constructor <;> intro h <;> simp [W.recv, W.requireAccepted, h]

theorem wrong_state_accept (w : W) (d : Option Int) (hd s b : Bool) (he : Option Exc) (h : w.st ≠ .handshake ∨ d.isSome = true) :
    w.accept d hd s b he = (w, some .notAllowed) := by
  unfold W.accept W.isClosed
  rcases h with h | h
  · cases hst : w.st <;> simp_all
  · simp [h]

/-- a send by an accepted socket whose pump has seen the disconnect raises `WebSocketDisconnected` with the client's code
    and nothing is handed to the server -/
theorem send_after_disconnect (w : W) (c : Int) (k : Kind) (h : w.st = .accepted) :
    (w.sendMsg (some c) k).2 = some (wsd (some c)) ∧ (w.sendMsg (some c) k).1.sent = w.sent := by
  simp [W.sendMsg, W.requireAccepted, W.send_, h]

/-- `close()` after the connection was closed or is known to be lost sends nothing -/
theorem close_after_closed_silent (w : W) (d : Option Int) (a : CodeArg) (r : Bool) (h : w.st = .closed ∨ d.isSome = true) :
    (w.close d a r).1.sent = w.sent := by
  have hic : ∀ w0 : W, w0.st = w.st → w0.sent = w.sent → ∀ code, (W.close.go d r w0 code).1.sent = w.sent := by
    intro w0 h0 h1 code
    unfold W.close.go W.isClosed
    rcases h with h | h
    · simp [h0, h, h1]
    · simp only [h, Bool.or_true, if_true]
      split <;> exact h1
  unfold W.close
  have hw0 := stopPump_st w
  have hw1 := stopPump_sent w
  generalize w.stopPump = w0 at hw0 hw1
  simp only
  split
  · exact hw1
  · split
    · exact hw1
    · split
      · exact hw1
      · exact hic w0 hw0 hw1 _
  · exact hic w0 hw0 hw1 _

/-- `close()` on a socket whose pump has seen the client's disconnect sends nothing and records the disconnect: the state is
    CLOSED with the client's code, so every later `send_*`/`receive_*` raises `WebSocketDisconnected(code)`
    (`wrong_state_send`, `wrong_state_recv`) -/
theorem close_records_disconnect (w : W) (c : Int) (r : Bool) (h : w.st ≠ .closed) :
    (w.close (some c) .none r).1.st = .closed ∧ (w.close (some c) .none r).1.closeCode = some c
    ∧ (w.close (some c) .none r).2 = none ∧ (w.close (some c) .none r).1.sent = w.sent := by
  unfold W.close
  have e0 := stopPump_st w
  have e1 := stopPump_sent w
  generalize w.stopPump = w0 at e0 e1
  have : (w0.st == S.closed) = false := by rw [e0]; simpa using h
  simp [W.close.go, W.isClosed, this, e1]

/-- the close-code validation table: exactly the codes < 1000, 1004-1006 and 1015-1999 are rejected (`hsrv`: the ValueError is falcon's
    own - the SERVER does not answer a close event with a ValueError that says 'invalid close code' itself) -/
theorem close_code_validation_exact (w : W) (d : Option Int) (c : Int) (r : Bool) (hsrv : w.fault = .value → w.faultIcc = false) :
    (w.close d (.int c) r).2 = some .invalidCloseCode ↔ (c < 1000 ∨ (1004 ≤ c ∧ c ≤ 1006) ∨ (1015 ≤ c ∧ c ≤ 1999)) := by
  unfold W.close
  have hsrv0 : w.stopPump.fault = .value → w.stopPump.faultIcc = false := by rw [stopPump_fault, stopPump_faultIcc]; exact hsrv
  generalize w.stopPump = w0 at hsrv0
  simp only
  by_cases h1 : c < 1000
  · simp [h1]
  · by_cases h2 : ((1015 ≤ c && c ≤ 1999) || (1004 ≤ c && c ≤ 1006)) = true
    · simp only [h1, h2, if_true, if_false, true_iff]
      simp only [Bool.or_eq_true, Bool.and_eq_true, decide_eq_true_eq] at h2
      omega
    · simp only [h1, h2, if_false, Bool.false_eq_true]
      have : ¬ (c < 1000 ∨ (1004 ≤ c ∧ c ≤ 1006) ∨ (1015 ≤ c ∧ c ≤ 1999)) := by
        simp only [Bool.or_eq_true, Bool.and_eq_true, decide_eq_true_eq] at h2
        omega
      have this' : ¬ (False ∨ (1004 ≤ c ∧ c ≤ 1006) ∨ (1015 ≤ c ∧ c ≤ 1999)) :=
        fun h => this (h.elim False.elim Or.inr)
      simp only [this', iff_false]
      unfold W.close.go
      split
      · simp
      · generalize Ev.close c ((r || w0.reasonCodes.contains c) && w0.supReason) = ev
        have hfl : (w0.asgiSend ev).1.fault = w0.fault := rfl
        have hic : (w0.asgiSend ev).1.faultIcc = w0.faultIcc := rfl
        rcases hsend : w0.asgiSend ev with ⟨w1, ok⟩
        rw [hsend] at hfl hic
        simp only at hfl hic
        cases ok
        · simp only [Bool.false_eq_true, if_false]
          rw [hfl, hic]
          cases hfa : w0.fault with
          | value => simp [Fault.raw, hsrv0 hfa]
          | _ => simp [Fault.raw]
        · simp

def validCode (c : Int) : Bool := !(c < 1000 || (1015 ≤ c && c ≤ 1999) || (1004 ≤ c && c ≤ 1006))

/-- `close(code)` with a valid code on a socket that is neither closed nor known to be lost, and a working `send`: exactly
    one close event with that code is handed to the server (the reason only when the server supports it) -/
theorem close_sends (w : W) (a : CodeArg) (r : Bool) (code : Int)
    (ha : (a = .none ∧ code = 1000) ∨ (a = .int code ∧ validCode code = true))
    (hnc : w.st ≠ .closed) (hf : w.failAt = none) (hr : code ∉ w.refused) :
    (w.close none a r).1.sent = w.sent ++ [(.close code ((r || w.reasonCodes.contains code) && w.supReason), true)]
    ∧ (w.close none a r).2 = none ∧ (w.close none a r).1.st = .closed ∧ (w.close none a r).1.closeCode = some code := by
  have hgo : ∀ w0 : W, w0.st = w.st → w0.sent = w.sent → w0.failAt = none → w0.reasonCodes = w.reasonCodes →
      w0.supReason = w.supReason → w0.refused = w.refused →
      (W.close.go none r w0 code).1.sent = w.sent ++ [(.close code ((r || w.reasonCodes.contains code) && w.supReason), true)]
      ∧ (W.close.go none r w0 code).2 = none ∧ (W.close.go none r w0 code).1.st = .closed
      ∧ (W.close.go none r w0 code).1.closeCode = some code := by
    intro w0 h0 h1 h2 h3 h4 h5
    have : (w0.st == S.closed) = false := by rw [h0]; simpa using hnc
    simp [W.close.go, W.isClosed, W.asgiSend, W.refuses, this, h1, h2, h3, h4, h5, hr]
  unfold W.close
  have e0 := stopPump_st w
  have e1 := stopPump_sent w
  have e2 : w.stopPump.failAt = none := by rw [stopPump_failAt, hf]
  have e3 := stopPump_reasonCodes w
  have e4 := stopPump_supReason w
  have e5 := stopPump_refused w
  generalize w.stopPump = w0 at e0 e1 e2 e3 e4 e5
  rcases ha with ⟨rfl, rfl⟩ | ⟨rfl, hv⟩
  · exact hgo w0 e0 e1 e2 e3 e4 e5
  · simp only [validCode, Bool.not_eq_true', Bool.or_eq_false_iff, decide_eq_false_iff_not] at hv
    obtain ⟨⟨hv1, hv2⟩, hv3⟩ := hv
    simp only [hv1, hv2, hv3, if_false, Bool.false_eq_true, Bool.or_self]
    exact hgo w0 e0 e1 e2 e3 e4 e5

theorem validCode_http (s : Int) (h : 0 ≤ s ∧ s ≤ 999) : validCode (s + 3000) = true := by
  simp only [validCode, Bool.not_eq_true', Bool.or_eq_false_iff, Bool.and_eq_false_iff, decide_eq_false_iff_not]
  omega

/-- an invalid code is rejected before anything else happens (only the pump has been stopped) -/
theorem close_invalid (w : W) (d : Option Int) (c : Int) (r : Bool) (h : validCode c = false) :
    w.close d (.int c) r = (w.stopPump, some .invalidCloseCode) := by
  unfold W.close
  simp only [validCode, Bool.not_eq_false', Bool.or_eq_true, decide_eq_true_eq] at h
  by_cases h1 : c < 1000
  · simp [h1]
  · have h2 : ((1015 ≤ c && c ≤ 1999) || (1004 ≤ c && c ≤ 1006)) = true := by
      rcases h with (h | h) | h
      · exact absurd h h1
      · simp [h]
      · simp [h]
    simp only [h1, if_false, h2, if_true]

/-- **error → close code (1)**: with a working `send`, a socket not yet closed and no observed disconnect, `HTTPError(s)` and
    `HTTPStatus(s)` (0 ≤ s ≤ 999; an unrouted path is `HTTPError 404`, a missing responder `HTTPError 405`) close the
    socket with exactly one close event, code `3000 + s` -/
theorem http_error_close_code (c : Cfg) (w : W) (s : Int) (hs : 0 ≤ s ∧ s ≤ 999) (hfd : c.fd = none)
    (hnc : w.st ≠ .closed) (hf : w.failAt = none) (hr : s + 3000 ∉ w.refused) :
    ∀ e, e = Exc.httpError s ∨ e = Exc.httpStatus s →
      (handleException c w e).1.sent = w.sent ++ [(.close (s + 3000) (w.reasonCodes.contains (s + 3000) && w.supReason), true)]
      ∧ (handleException c w e).2.2 = none := by
  have key := close_sends w (.int (s + 3000)) false (s + 3000) (Or.inr ⟨rfl, validCode_http s hs⟩) hnc hf hr
  simp only [Bool.false_or] at key
  intro e he
  rcases he with rfl | rfl <;> (unfold handleException; rw [hfd]; exact ⟨key.1, key.2.1⟩)

/-- **error → close code (2)**: every other exception (no custom handler) closes with `error_close_code`, or with 3011 when
    the configured code is not a valid close code -/
theorem unexpected_error_close_code (c : Cfg) (w : W) (e : Exc) (hfd : c.fd = none) (hcu : c.custom = none)
    (he : (∀ s, e ≠ .httpError s) ∧ (∀ s, e ≠ .httpStatus s))
    (hnc : w.st ≠ .closed) (hf : w.failAt = none)
    (hr : (if validCode w.errCloseCode then w.errCloseCode else 3011) ∉ w.refused) :
    let code := if validCode w.errCloseCode then w.errCloseCode else 3011
    (handleException c w e).1.sent = w.sent ++ [(.close code (w.reasonCodes.contains code && w.supReason), true)]
    ∧ (handleException c w e).2.2 = none := by
  have hcl : let code := if validCode w.errCloseCode then w.errCloseCode else 3011
      (cleanup w none).1.sent = w.sent ++ [(.close code (w.reasonCodes.contains code && w.supReason), true)]
      ∧ (cleanup w none).2 = none := by
    unfold cleanup
    by_cases hv : validCode w.errCloseCode = true
    · simp only [hv, if_true] at hr
      have key := close_sends w (.int w.errCloseCode) false w.errCloseCode (Or.inr ⟨rfl, hv⟩) hnc hf hr
      simp only [Bool.false_or] at key
      rcases hc : w.close none (.int w.errCloseCode) false with ⟨w1, eo⟩
      rw [hc] at key
      simp only at key
      obtain ⟨k1, k2, _, _⟩ := key
      subst k2
      simp only [hv, if_true]
      exact ⟨k1, trivial⟩
    · have hv' : validCode w.errCloseCode = false := by simpa using hv
      rw [close_invalid w none w.errCloseCode false hv']
      simp only [hv', Bool.false_eq_true, if_false] at hr ⊢
      have hsay : closeSaysInvalidCode w w.stopPump .invalidCloseCode = true := by simp [closeSaysInvalidCode]
      simp only [hsay, if_true]
      have key := close_sends w.stopPump (.int 3011) false 3011 (Or.inr ⟨rfl, by decide⟩)
        (by rw [stopPump_st]; exact hnc) (by rw [stopPump_failAt]; exact hf) (by rw [stopPump_refused]; exact hr)
      simp only [Bool.false_or, stopPump_sent, stopPump_reasonCodes, stopPump_supReason] at key
      exact ⟨key.1, key.2.1⟩
  cases e with
  | httpError s => exact absurd rfl (he.1 s)
  | httpStatus s => exact absurd rfl (he.2 s)
  | boom => unfold handleException; simp only [hcu, hfd]; exact hcl
  | _ => unfold handleException; simp only [hfd]; exact hcl

/-! ### a close reason is only ever sent to a server that supports it (spec ≥ 2.3) -/

/-- `b` is the (constant) `supReason`; when it is `false` no close event handed to `send` carries a reason -/
def SaneB (b : Bool) (w : W) : Prop :=
  w.supReason = b ∧ (b = false → ∀ x ∈ w.sent, ∀ c, x.1 ≠ Ev.close c true)

theorem SaneB.congr {b : Bool} {w w' : W} (h : SaneB b w) (h1 : w'.sent = w.sent) (h2 : w'.supReason = w.supReason) :
    SaneB b w' := ⟨h2 ▸ h.1, fun hb => h1 ▸ h.2 hb⟩

theorem SaneB.snoc {b : Bool} {w w' : W} (h : SaneB b w) (e : Ev) (ok : Bool) (h1 : w'.sent = w.sent ++ [(e, ok)])
    (h2 : w'.supReason = w.supReason) (he : b = false → ∀ c, e ≠ Ev.close c true) : SaneB b w' := by
  refine ⟨h2 ▸ h.1, fun hb x hx c => ?_⟩
  rw [h1, List.mem_append] at hx
  rcases hx with hx | hx
  · exact h.2 hb x hx c
  · simp only [List.mem_singleton] at hx; subst hx; exact he hb c

/-- what an operation may do to `sent` and `supReason`: nothing, or append one event of a given shape -/
def Frame (w w' : W) (P : Ev → Prop) : Prop :=
  w'.supReason = w.supReason ∧ (w'.sent = w.sent ∨ ∃ e ok, P e ∧ w'.sent = w.sent ++ [(e, ok)])

theorem SaneB.frame {b : Bool} {w w' : W} {P : Ev → Prop} (h : SaneB b w) (hf : Frame w w' P)
    (hP : ∀ e, P e → b = false → ∀ c, e ≠ Ev.close c true) : SaneB b w' := by
  obtain ⟨f1, f2⟩ := hf
  rcases f2 with f2 | ⟨e, ok, pe, f2⟩
  · exact h.congr f2 f1
  · exact h.snoc e ok f2 f1 (hP e pe)

theorem send_frame (w : W) (d : Option Int) (e : Ev) : Frame w (w.send_ d e).1 (· = e) := by
  unfold W.send_ Frame
  cases d with
  | some c => simp
  | none =>
    simp only
    by_cases hc : (w.st == S.closed) = true
    · simp [hc]
    · simp only [hc, Bool.false_eq_true, if_false]
      have hs := asgiSend_sent w e
      rcases hsend : w.asgiSend e with ⟨w1, ok⟩
      have hr : w1.supReason = w.supReason := by
        have : (w.asgiSend e).1.supReason = w.supReason := rfl
        rw [hsend] at this; exact this
      rw [hsend] at hs
      simp only at hs
      cases ok with
      | true => exact ⟨hr, Or.inr ⟨e, true, rfl, hs⟩⟩
      | false =>
        simp only [Bool.false_eq_true, if_false]
        cases w1.fault <;> exact ⟨hr, Or.inr ⟨e, false, rfl, hs⟩⟩

theorem stopPump_frame (w : W) : w.stopPump.supReason = w.supReason ∧ w.stopPump.sent = w.sent :=
  ⟨stopPump_supReason w, stopPump_sent w⟩

/-- every close event is built with `… && supReason` -/
def IsGuardedClose (sup : Bool) (e : Ev) : Prop := ∃ code r, e = Ev.close code (r && sup)

theorem closeGo_frame (w : W) (d : Option Int) (r : Bool) (code : Int) :
    Frame w (W.close.go d r w code).1 (IsGuardedClose w.supReason) := by
  unfold W.close.go Frame
  split
  · split <;> exact ⟨rfl, Or.inl rfl⟩
  · generalize hev : Ev.close code ((r || w.reasonCodes.contains code) && w.supReason) = ev
    have hs := asgiSend_sent w ev
    rcases hsend : w.asgiSend ev with ⟨w1, ok⟩
    have hr : w1.supReason = w.supReason := by
      have : (w.asgiSend ev).1.supReason = w.supReason := rfl
      rw [hsend] at this; exact this
    rw [hsend] at hs
    simp only at hs
    have hg : IsGuardedClose w.supReason ev := ⟨code, _, hev.symm⟩
    cases ok with
    | true => exact ⟨hr, Or.inr ⟨ev, true, hg, hs⟩⟩
    | false => exact ⟨hr, Or.inr ⟨ev, false, hg, hs⟩⟩

theorem guarded_no_reason (b : Bool) (e : Ev) (h : IsGuardedClose b e) : b = false → ∀ c, e ≠ Ev.close c true := by
  intro hb c he
  obtain ⟨code, r, rfl⟩ := h
  subst hb
  simp at he

theorem close_sane (b : Bool) (w : W) (d : Option Int) (a : CodeArg) (r : Bool) (h : SaneB b w) : SaneB b (w.close d a r).1 := by
  have h0 : SaneB b w.stopPump := h.congr (stopPump_sent w) (stopPump_supReason w)
  have hgo : ∀ code, SaneB b (W.close.go d r w.stopPump code).1 := by
    intro code
    refine h0.frame (closeGo_frame w.stopPump d r code) ?_
    intro e pe
    rw [h0.1] at pe
    exact guarded_no_reason b e pe
  unfold W.close
  simp only
  split
  · exact h0
  · split
    · exact h0
    · split
      · exact h0
      · exact hgo _
  · exact hgo _

theorem accept_sane (b : Bool) (w : W) (d : Option Int) (hd s bs : Bool) (he : Option Exc) (h : SaneB b w) : SaneB b (w.accept d hd s bs he).1 := by
  unfold W.accept
  split
  · exact h
  split
  · exact h
  split
  · exact h
  split
  · exact h
  split
  · exact h
  have hf := send_frame w d (.accept hd s)
  have hs : SaneB b (w.send_ d (.accept hd s)).1 :=
    h.frame hf (fun e pe _ c => by rw [pe]; intro hh; cases hh)
  rcases hr : w.send_ d (.accept hd s) with ⟨w1, eo⟩
  rw [hr] at hs
  cases eo with
  | none => exact hs.congr rfl rfl
  | some e => exact hs

theorem sendMsg_sane (b : Bool) (w : W) (d : Option Int) (k : Kind) (h : SaneB b w) : SaneB b (w.sendMsg d k).1 := by
  unfold W.sendMsg
  split
  · exact h
  · exact h.frame (send_frame w d (.send k)) (fun e pe _ c => by rw [pe]; intro hh; cases hh)

theorem receive_frame (w : W) : w.receive_.1.sent = w.sent ∧ w.receive_.1.supReason = w.supReason := by
  unfold W.receive_
  split <;> exact ⟨rfl, rfl⟩

theorem recvAbandoned_sane (b : Bool) (w : W) (k : RecvKind) (h : SaneB b w) : SaneB b (w.recvAbandoned k).1 := by
  rw [recvAbandoned_noop]; exact h

theorem recv_sane (b : Bool) (w : W) (k : RecvKind) (h : SaneB b w) : SaneB b (w.recv k).1 := by
  have key : SaneB b w.receive_.1 := h.congr (receive_frame w).1 (receive_frame w).2
  unfold W.recv
  split
  · exact h
  · split
    · exact h
    · split
      · rename_i w1 e heq
        have : w1 = w.receive_.1 := by rw [heq]
        rw [this]; exact key
      · rename_i w1 ev heq
        have : w1 = w.receive_.1 := by rw [heq]
        subst this
        split <;> exact key

theorem op_sane (b : Bool) (w : W) (d : Option Int) (o : Op) (h : SaneB b w) : SaneB b (w.op d o).1 := by
  cases o with
  | accept hd s bs he => exact accept_sane b w d hd s bs he h
  | close a r => exact close_sane b w d a r h
  | send k => exact sendMsg_sane b w d k h
  | recv k => exact recv_sane b w k h
  | recvAbandoned k => exact recvAbandoned_sane b w k h
  | raiseHttp s => exact h
  | raiseStatus s => exact h
  | raiseExc => exact h
  | raiseBoom => exact h
  | raiseOf e => exact h

theorem runScript_sane (b : Bool) (sc : List Step) : ∀ (w : W) (log : List (Option Exc)), SaneB b w →
    SaneB b (runScript w sc log).1 := by
  induction sc with
  | nil => intro w log hi; exact hi
  | cons x rest ih =>
    intro w log hi
    obtain ⟨o, c, d⟩ := x
    unfold runScript
    have h1 := op_sane b w d o hi
    rcases hop : w.op d o with ⟨w1, eo⟩
    rw [hop] at h1
    cases eo with
    | none => exact ih w1 _ h1
    | some e =>
      simp only
      split
      · exact ih w1 _ h1
      · exact h1

theorem cleanup_sane (b : Bool) (w : W) (fd : Option Int) (h : SaneB b w) : SaneB b (cleanup w fd).1 := by
  unfold cleanup
  have h1 := close_sane b w fd (.int w.errCloseCode) false h
  rcases hc : w.close fd (.int w.errCloseCode) false with ⟨w1, eo⟩
  rw [hc] at h1
  cases eo with
  | none => exact h1
  | some e =>
    simp only
    split
    · exact close_sane b w1 _ _ _ h1
    · exact h1

theorem handleException_sane (b : Bool) (c : Cfg) (w : W) (e : Exc) (h : SaneB b w) : SaneB b (handleException c w e).1 := by
  have hclose : ∀ (w : W) (s : Int), SaneB b w → ∀ hl : List (Option Exc),
      SaneB b (let (w', e') := w.close c.fd (.int (s + 3000)) false; ((w', hl, e') : W × List (Option Exc) × Option Exc)).1 := by
    intro w s hi hl; exact close_sane b w _ _ _ hi
  have hclean : ∀ (w : W), SaneB b w →
      SaneB b (let (w', e') := cleanup w c.fd; ((w', [], e') : W × List (Option Exc) × Option Exc)).1 := by
    intro w hi; exact cleanup_sane b w _ hi
  cases e with
  | httpError s => exact hclose w s h []
  | httpStatus s => exact hclose w s h []
  | boom =>
    unfold handleException
    cases hcu : c.custom with
    | none => exact hclean w h
    | some hs =>
      simp only
      have h1 := runScript_sane b hs w [] h
      rcases hr : runScript w hs [] with ⟨w1, hlog, eo⟩
      rw [hr] at h1
      cases eo with
      | none => exact h1
      | some e =>
        cases e <;> first | exact h1 | exact hclose w1 _ h1 hlog
  | _ => exact hclean w h

theorem handle_sane (b : Bool) (c : Cfg) (w : W) (script : Option (List Step)) (h : SaneB b w) : SaneB b (handle c w script).w := by
  unfold handle
  cases script with
  | none => exact handleException_sane b c w _ h
  | some sc =>
    simp only
    have h1 := runScript_sane b sc w [] h
    rcases hr : runScript w sc [] with ⟨w1, log, eo⟩
    rw [hr] at h1
    cases eo with
    | some e => exact handleException_sane b c w1 e h1
    | none =>
      simp only
      have h2 := close_sane b w1 c.fd .none false h1
      rcases hc : w1.close c.fd .none false with ⟨w2, eo2⟩
      rw [hc] at h2
      cases eo2 with
      | none => exact h2
      | some e => exact handleException_sane b c w2 e h2

/-- **C17 `reason_only_if_supported`**: when the server's spec version has no close reasons (`supReason = false`, spec < 2.3),
    no close event of the session — issued by the responder, a middleware, an error handler or the framework — carries a
    reason, for every script, inbox, fault and routing outcome -/
theorem reason_only_if_supported (c : Cfg) (w : W) (mwReq mwRes : List Step) (r : Route)
    (h0 : w.sent = []) (hs : w.supReason = false) :
    ∀ x ∈ (handleMw c w mwReq mwRes r).w.sent, ∀ code, x.1 ≠ Ev.close code true := by
  have hi : SaneB false w := ⟨hs, fun _ x hx => by rw [h0] at hx; cases hx⟩
  have key : SaneB false (handleMw c w mwReq mwRes r).w := by
    unfold handleMw
    cases r with
    | responder sc => exact handle_sane false c w _ hi
    | unrouted => simp only; split <;> exact handle_sane false c w _ hi
    | noResponder => simp only; split <;> exact handle_sane false c w _ hi
  exact key.2 rfl

/-- the rejection of a first event that is not `websocket.connect` attaches the reason iff the server supports it -/
theorem rejectFirst_reason (w : W) (h0 : w.sent = []) (hf : w.failAt = none) (hr : 1011 ∉ w.refused) :
    (rejectFirst w).sent = [(.close 1011 w.supReason, true)] := by
  simp [rejectFirst, W.asgiSend, W.refuses, h0, hf, hr]

/-- **the class of an exception says nothing about the handled connection**: a script step that raises ANY exception which is not an
    HTTPError/HTTPStatus - in particular `WebSocketDisconnected(code)` raised by hand or by an operation on another connection's socket,
    `OperationNotAllowed`, `PayloadTypeError`, `ValueError`, `OSError` - and does not catch it, on a socket that is not closed, with no
    observed disconnect, the default handlers and a working server send: the framework sends exactly one close event with
    `error_close_code` (3011 if that is not a valid code) and nothing escapes. In the handshake state that close is the 403 denial. -/
theorem raised_error_closes_open_socket (c : Cfg) (w : W) (e : Exc) (d : Option Int) (hfd : c.fd = none) (hcu : c.custom = none)
    (he : (∀ s, e ≠ .httpError s) ∧ (∀ s, e ≠ .httpStatus s)) (hnc : w.st ≠ .closed) (hf : w.failAt = none)
    (hr : (if validCode w.errCloseCode then w.errCloseCode else 3011) ∉ w.refused) :
    let code := if validCode w.errCloseCode then w.errCloseCode else 3011
    (handle c w (some [(.raiseOf e, .none, d)])).w.sent = w.sent ++ [(.close code (w.reasonCodes.contains code && w.supReason), true)]
    ∧ (handle c w (some [(.raiseOf e, .none, d)])).esc = none := by
  have key := unexpected_error_close_code c w e hfd hcu he hnc hf hr
  simp only [handle, runScript, W.op, Catch.catches, Bool.false_eq_true, if_false]
  exact key

/-- the hypotheses are satisfiable by the relay scenario: connection A is accepted and connected, its responder forwards to connection B,
    whose client has left with code 1001 -/
example :
    let w : W := { st := .accepted, supHeaders := true, supReason := true, reasonCodes := [1011], errCloseCode := 1011,
                   binMediaOk := false, sent := [(.accept false false, true)], failAt := none, inbox := [] }
    (handle {} w (some [(.raiseOf (.disconnected 1001), .none, none)])).w.sent = [(.accept false false, true), (.close 1011 true, true)] := by decide

/-- and before accept the same exception yields the denial -/
example :
    let w : W := { supHeaders := true, supReason := false, reasonCodes := [], errCloseCode := 4444,
                   binMediaOk := false, failAt := none, inbox := [] }
    (handle {} w (some [(.raiseOf (.disconnected 1000), .none, none)])).w.sent = [(.close 4444 false, true)] := by decide

/-! ### the SERVER's behaviour is an input: its `send` may refuse a close code, with an exception of any class -/

/-- `close(code)` on a socket that is neither closed nor known lost, when the server's policy refuses `code`: the event is handed to the
    server once, the server's exception reaches the caller as it is (`close()` does not translate), and the socket is NOT marked closed -
    only the pump has been stopped -, so a later `close()` with another code is sent -/
theorem close_refused (w : W) (a : CodeArg) (r : Bool) (code : Int)
    (ha : (a = .none ∧ code = 1000) ∨ (a = .int code ∧ validCode code = true))
    (hnc : w.st ≠ .closed) (href : code ∈ w.refused) :
    w.close none a r =
      ({ w.stopPump with sent := w.sent ++ [(.close code ((r || w.reasonCodes.contains code) && w.supReason), false)] },
        some (w.fault.raw w.faultIcc)) := by
  have hgo : ∀ w0 : W, w0.st = w.st → w0.sent = w.sent → w0.reasonCodes = w.reasonCodes → w0.supReason = w.supReason →
      w0.refused = w.refused → w0.fault = w.fault → w0.faultIcc = w.faultIcc →
      W.close.go none r w0 code =
        ({ w0 with sent := w.sent ++ [(.close code ((r || w.reasonCodes.contains code) && w.supReason), false)] },
          some (w.fault.raw w.faultIcc)) := by
    intro w0 h0 h1 h3 h4 h5 h6 h7
    have : (w0.st == S.closed) = false := by rw [h0]; simpa using hnc
    simp [W.close.go, W.isClosed, W.asgiSend, W.refuses, this, h1, h3, h4, h5, h6, h7, href]
  unfold W.close
  have e0 := stopPump_st w
  have e1 := stopPump_sent w
  have e3 := stopPump_reasonCodes w
  have e4 := stopPump_supReason w
  have e5 := stopPump_refused w
  have e6 := stopPump_fault w
  have e7 := stopPump_faultIcc w
  generalize w.stopPump = w0 at e0 e1 e3 e4 e5 e6 e7
  rcases ha with ⟨rfl, rfl⟩ | ⟨rfl, hv⟩
  · exact hgo w0 e0 e1 e3 e4 e5 e6 e7
  · simp only [validCode, Bool.not_eq_true', Bool.or_eq_false_iff, decide_eq_false_iff_not] at hv
    obtain ⟨⟨hv1, hv2⟩, hv3⟩ := hv
    simp only [hv1, hv2, hv3, if_false, Bool.false_eq_true, Bool.or_self]
    exact hgo w0 e0 e1 e3 e4 e5 e6 e7

/-- **a close is always sent when the responder fails while the client is connected - also when the server refuses the configured code**:
    any exception other than HTTPError/HTTPStatus (default handlers) on a socket that is not closed and has no observed disconnect; the
    configured `error_close_code` is a code falcon accepts but the SERVER's policy refuses, reporting it with an exception of ANY class
    (`w.fault` is arbitrary: OSError, ValueError, a plain Exception, TypeError, the server's own class) whose message says
    'invalid close code'; the fallback 3011 is not refused: the framework hands the refused close to the server once, then the close
    3011, which is delivered; nothing escapes and the socket is CLOSED with 3011 -/
theorem refused_error_close_falls_back (c : Cfg) (w : W) (e : Exc) (hfd : c.fd = none) (hcu : c.custom = none)
    (he : (∀ s, e ≠ .httpError s) ∧ (∀ s, e ≠ .httpStatus s)) (hnc : w.st ≠ .closed) (hf : w.failAt = none)
    (hv : validCode w.errCloseCode = true) (href : w.errCloseCode ∈ w.refused) (hicc : w.faultIcc = true) (h3011 : 3011 ∉ w.refused) :
    (handleException c w e).1.sent = w.sent ++ [(.close w.errCloseCode (w.reasonCodes.contains w.errCloseCode && w.supReason), false),
                                               (.close 3011 (w.reasonCodes.contains 3011 && w.supReason), true)]
    ∧ (handleException c w e).2.2 = none ∧ (handleException c w e).1.st = .closed ∧ (handleException c w e).1.closeCode = some 3011 := by
  have hcl : (cleanup w none).1.sent = w.sent ++ [(.close w.errCloseCode (w.reasonCodes.contains w.errCloseCode && w.supReason), false),
                                               (.close 3011 (w.reasonCodes.contains 3011 && w.supReason), true)]
      ∧ (cleanup w none).2 = none ∧ (cleanup w none).1.st = .closed ∧ (cleanup w none).1.closeCode = some 3011 := by
    unfold cleanup
    have hcr := close_refused w (.int w.errCloseCode) false w.errCloseCode (Or.inr ⟨rfl, hv⟩) hnc href
    generalize hw1 : ({ w.stopPump with sent := w.sent ++ [(.close w.errCloseCode ((false || w.reasonCodes.contains w.errCloseCode) && w.supReason), false)] } : W) = w1 at hcr
    have f_sent : w1.sent = w.sent ++ [(.close w.errCloseCode ((false || w.reasonCodes.contains w.errCloseCode) && w.supReason), false)] := by rw [← hw1]
    have f_st : w1.st = w.st := by rw [← hw1]; exact stopPump_st w
    have f_fail : w1.failAt = none := by rw [← hw1]; show w.stopPump.failAt = none; rw [stopPump_failAt]; exact hf
    have f_ref : w1.refused = w.refused := by rw [← hw1]; exact stopPump_refused w
    have f_rc : w1.reasonCodes = w.reasonCodes := by rw [← hw1]; exact stopPump_reasonCodes w
    have f_sr : w1.supReason = w.supReason := by rw [← hw1]; exact stopPump_supReason w
    rw [hcr]
    have hsay : closeSaysInvalidCode w w1 (w.fault.raw w.faultIcc) = true := by simp [closeSaysInvalidCode, f_sent, hicc]
    simp only [hsay, if_true]
    have key := close_sends w1 (.int 3011) false 3011 (Or.inr ⟨rfl, by decide⟩) (by rw [f_st]; exact hnc) f_fail (by rw [f_ref]; exact h3011)
    simp only [Bool.false_or, f_sent, f_rc, f_sr, List.append_assoc, List.cons_append, List.nil_append] at key
    exact key
  cases e with
  | httpError s => exact absurd rfl (he.1 s)
  | httpStatus s => exact absurd rfl (he.2 s)
  | boom => unfold handleException; simp only [hcu, hfd]; exact hcl
  | _ => unfold handleException; simp only [hfd]; exact hcl

/-- ... and when the server's exception does not name the close code as the reason (`faultIcc = false`), the refused close is the only
    event, no fallback is tried and the server's own exception (whatever its class) is what escapes to the server -/
theorem refused_error_close_without_hint_escapes (c : Cfg) (w : W) (e : Exc) (hfd : c.fd = none) (hcu : c.custom = none)
    (he : (∀ s, e ≠ .httpError s) ∧ (∀ s, e ≠ .httpStatus s)) (hnc : w.st ≠ .closed)
    (hv : validCode w.errCloseCode = true) (href : w.errCloseCode ∈ w.refused) (hicc : w.faultIcc = false) :
    (handleException c w e).1.sent = w.sent ++ [(.close w.errCloseCode (w.reasonCodes.contains w.errCloseCode && w.supReason), false)]
    ∧ (handleException c w e).2.2 = some (w.fault.raw false) := by
  have hcl : (cleanup w none).1.sent = w.sent ++ [(.close w.errCloseCode (w.reasonCodes.contains w.errCloseCode && w.supReason), false)]
      ∧ (cleanup w none).2 = some (w.fault.raw false) := by
    unfold cleanup
    have hcr := close_refused w (.int w.errCloseCode) false w.errCloseCode (Or.inr ⟨rfl, hv⟩) hnc href
    generalize hw1 : ({ w.stopPump with sent := w.sent ++ [(.close w.errCloseCode ((false || w.reasonCodes.contains w.errCloseCode) && w.supReason), false)] } : W) = w1 at hcr
    have f_sent : w1.sent = w.sent ++ [(.close w.errCloseCode ((false || w.reasonCodes.contains w.errCloseCode) && w.supReason), false)] := by rw [← hw1]
    rw [hcr, hicc]
    have hsay : closeSaysInvalidCode w w1 (w.fault.raw false) = false := by
      cases w.fault <;> simp [closeSaysInvalidCode, Fault.raw, hicc]
    simp only [hsay, Bool.false_eq_true, if_false]
    exact ⟨by rw [f_sent]; simp, trivial⟩
  cases e with
  | httpError s => exact absurd rfl (he.1 s)
  | httpStatus s => exact absurd rfl (he.2 s)
  | boom => unfold handleException; simp only [hcu, hfd]; exact hcl
  | _ => unfold handleException; simp only [hfd]; exact hcl

/-- the hypotheses are satisfiable - the Autobahn/Daphne scenario: default error_close_code 1011, the server accepts only 1000 and 3000-4999
    and says so with a plain `Exception('invalid close code 1011 …')`; the responder raised after accept -/
example :
    let w : W := { st := .accepted, supHeaders := true, supReason := false, reasonCodes := [1011], errCloseCode := 1011, binMediaOk := false,
                   sent := [(.accept false false, true)], failAt := none, fault := .other, faultIcc := true, refused := [1001, 1011, 1012],
                   inbox := [] }
    (handle {} w (some [(.raiseExc, .none, none)])).w.sent = [(.accept false false, true), (.close 1011 false, false), (.close 3011 false, true)]
    ∧ (handle {} w (some [(.raiseExc, .none, none)])).esc = none := by decide
end Ws
